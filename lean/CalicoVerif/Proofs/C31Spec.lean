import CalicoVerif.Model.C31
/-!
C31 — specification-side definitions used by the property theorems:
the policy-sync CLIENT (what a workload holds after applying its stream in
order), the calculation graph's contract, and stream extraction.
-/
namespace CalicoVerif.C31

/-- What a policy-sync client holds. IP set members are a membership predicate. -/
structure View where
  ep : Option (Nat × Endpoint)
  pols : Nat → Option Rules
  profs : Nat → Option Rules
  ipsets : Nat → Option (Nat → Bool)
  sas : Nat → Option Nat
  nss : Nat → Option Nat
  inSync : Bool

def View.empty : View :=
  { ep := none, pols := fun _ => none, profs := fun _ => none, ipsets := fun _ => none,
    sas := fun _ => none, nss := fun _ => none, inSync := false }

def upd {α : Type} (f : Nat → Option α) (k : Nat) (v : Option α) : Nat → Option α :=
  fun k' => if k' = k then v else f k'

/-- The client applies one message. -/
def applyMsg (v : View) : Msg → View
  | .inSync => { v with inSync := true }
  | .epUpd w e => { v with ep := some (w, e) }
  | .epRm _ => { v with ep := none }
  | .polUpd id r => { v with pols := upd v.pols id (some r) }
  | .polRm id => { v with pols := upd v.pols id none }
  | .profUpd id r => { v with profs := upd v.profs id (some r) }
  | .profRm id => { v with profs := upd v.profs id none }
  | .saUpd id x => { v with sas := upd v.sas id (some x) }
  | .saRm id => { v with sas := upd v.sas id none }
  | .nsUpd id x => { v with nss := upd v.nss id (some x) }
  | .nsRm id => { v with nss := upd v.nss id none }
  | .ipUpd id ms => { v with ipsets := upd v.ipsets id (some (fun x => ms.contains x)) }
  | .ipDelta id a d =>
    { v with ipsets := upd v.ipsets id ((v.ipsets id).map (fun s x => (s x || a.contains x) && !d.contains x)) }
  | .ipRm id => { v with ipsets := upd v.ipsets id none }

def applyMsgs (v : View) (ms : List Msg) : View := ms.foldl applyMsg v

/-- The messages sent on channel `c`, in order. -/
def msgsOf (evs : List Ev) (c : Nat) : List Msg :=
  evs.filterMap (fun e => if e.1 = c then e.2 else none)

/-- What the client of channel `c` holds after the events `evs`. -/
def viewOf (evs : List Ev) (c : Nat) : View := applyMsgs View.empty (msgsOf evs c)

/-- Every policy id the endpoint lists (any tier, ingress or egress). -/
def Endpoint.allPols (e : Endpoint) : List Nat := e.tiers.flatMap (fun t => t.ing ++ t.eg)

/-- The calculation graph's contract for the next message, given what it has
sent so far (= the Processor's stores):
* an endpoint names only policies/profiles already sent, each visited once by
  `iteratePolicies`/`iterateProfiles` (a policy lives in one tier);
* a policy/profile names only IP sets already sent;
* policies, profiles and IP sets are removed only when nothing sent references them;
* deltas are for IP sets already sent; endpoint removes for known endpoints;
* the server never uses join UID 0 (`UIDAllocator.NextUID`) in a leave. -/
def Pre (p : Proc) : Op → Prop
  | .ep _ e => e.pols.Nodup ∧ e.profs.Nodup ∧ (∀ id ∈ e.pols, (p.pols.get id).isSome) ∧
      (∀ id ∈ e.profs, (p.profs.get id).isSome)
  | .epRm w => (p.eps.get w).isSome
  | .pol _ r => ∀ x ∈ r.refs, (p.ipsets.get x).isSome
  | .prof _ r => ∀ x ∈ r.refs, (p.ipsets.get x).isSome
  | .polRm id => ∀ kv ∈ p.eps, id ∉ epPols kv.2.ep
  | .profRm id => ∀ kv ∈ p.eps, id ∉ epProfs kv.2.ep
  | .ipDelta id _ _ => (p.ipsets.get id).isSome
  | .ipRm id => (∀ kv ∈ p.pols, id ∉ kv.2.refs) ∧ (∀ kv ∈ p.profs, id ∉ kv.2.refs)
  | .leave _ uid => uid ≠ 0
  | _ => True

/-- A history that respects the contract at every step and its result. -/
inductive Valid : Proc → List Op → Proc → List Ev → Prop
  | nil (p : Proc) : Valid p [] p []
  | cons {p p' p'' : Proc} {op : Op} {ops : List Op} {evs evs' : List Ev} :
      Pre p op → step p op = some (p', evs) → Valid p' ops p'' evs' → Valid p (op :: ops) p'' (evs ++ evs')

/-- A history respecting the contract (whether or not the model panics). -/
inductive Respects : Proc → List Op → Prop
  | nil (p : Proc) : Respects p []
  | cons {p : Proc} {op : Op} {ops : List Op} :
      Pre p op → (∀ p' evs, step p op = some (p', evs) → Respects p' ops) → Respects p (op :: ops)

/-- IP sets the endpoint needs: those named by its profiles and policies. -/
def neededIP (p : Proc) (e : Option Endpoint) (x : Nat) : Prop :=
  (∃ id ∈ epProfs e, ∃ r, p.profs.get id = some r ∧ x ∈ r.refs) ∨
  (∃ id ∈ epPols e, ∃ r, p.pols.get id = some r ∧ x ∈ r.refs)

/-- The client holds EXACTLY what workload `w` needs, in its latest version. -/
structure Complete (p : Proc) (w : Nat) (e : Option Endpoint) (v : View) : Prop where
  ep : v.ep = e.map (fun e => (w, e))
  pols : ∀ id, v.pols id = if id ∈ epPols e then p.pols.get id else none
  profs : ∀ id, v.profs id = if id ∈ epProfs e then p.profs.get id else none
  ipsetsNeeded : ∀ x, neededIP p e x → ∃ ms, p.ipsets.get x = some ms ∧ ∃ s, v.ipsets x = some s ∧ ∀ m, s m = ms.contains m
  ipsetsOnly : ∀ x, ¬ neededIP p e x → v.ipsets x = none
  sas : ∀ id, v.sas id = p.sas.get id
  nss : ∀ id, v.nss id = p.nss.get id
  inSync : v.inSync = p.inSync

/-- Referential closure of what a client holds: the endpoint's policies and
profiles are present, and so is every IP set they name. -/
structure Closed (v : View) : Prop where
  pols : ∀ w e, v.ep = some (w, e) → ∀ id ∈ e.pols, (v.pols id).isSome
  profs : ∀ w e, v.ep = some (w, e) → ∀ id ∈ e.profs, (v.profs id).isSome
  polRefs : ∀ id r, v.pols id = some r → ∀ x ∈ r.refs, (v.ipsets x).isSome
  profRefs : ∀ id r, v.profs id = some r → ∀ x ∈ r.refs, (v.ipsets x).isSome

/-- Monitor for "nothing after close": `none` when an event hits a closed channel. -/
def monitor : List Nat → List Ev → Option (List Nat)
  | closed, [] => some closed
  | closed, (c, m) :: evs =>
    if closed.contains c then none
    else match m with
      | some _ => monitor closed evs
      | none => monitor (c :: closed) evs

end CalicoVerif.C31
