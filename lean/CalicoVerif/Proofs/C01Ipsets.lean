import CalicoVerif.Proofs.C01MemTab
/-! C01 helper: C04's `memberSpec` for the member index's tables IS the specification's `DS.members`, and the
declared IP sets are exactly the specification's `DS.activeSets`. -/
namespace CalicoVerif.C01
open CalicoVerif C02

/-! ### de-duplicating the parent list does not change label lookup -/

theorem findSome_dedup {α β : Type} [DecidableEq α] (f : α → Option β) : ∀ (ps acc : List α),
    (ps.foldl (fun acc p => if p ∈ acc then acc else acc ++ [p]) acc).findSome? f = (acc ++ ps).findSome? f
  | [], acc => by simp
  | p :: t, acc => by
    simp only [List.foldl_cons]
    by_cases hp : p ∈ acc
    · simp only [hp, if_true]
      rw [findSome_dedup f t acc, List.findSome?_append, List.findSome?_append]
      cases ha : acc.findSome? f with
      | some b => rfl
      | none =>
        have := (List.findSome?_eq_none_iff.mp ha) p hp
        simp only [Option.none_or, List.findSome?_cons, this]
    · simp only [hp, if_false]
      rw [findSome_dedup f t (acc ++ [p])]
      simp

theorem labelsFn_dedup (a : C04.Labels) (F : String → C04.Labels) (ps : List String) :
    labelsFn (a ++ (C04.dedupParents ps).flatMap F) = labelsFn (a ++ ps.flatMap F) := by
  funext k
  unfold labelsFn
  rw [List.find?_append, List.find?_append, List.find?_flatMap, List.find?_flatMap]
  unfold C04.dedupParents
  rw [findSome_dedup]
  simp

theorem matchSel_dedup (sel : Str) (a : C04.Labels) (F : String → C04.Labels) (ps : List String) :
    matchSel sel (a ++ (C04.dedupParents ps).flatMap F) = matchSel sel (a ++ ps.flatMap F) := by
  unfold matchSel
  rw [labelsFn_dedup]

theorem contrib_congr {e e2 : C04.EpData} {d d2 : C04.IpSetData Str} (h1 : e.nets = e2.nets) (h2 : e.ports = e2.ports)
    (h3 : d.proto = d2.proto) (h4 : d.port = d2.port) : C04.contrib e d = C04.contrib e2 d2 := by
  unfold C04.contrib C04.lookupNamedPorts
  rw [h1, h2, h3, h4]

/-! ### contributors -/

def ctrEp (v : EpVal) : C04.EpData :=
  { labels := v.labels, nets := C04.extractIPs v.nets, ports := v.ports, parents := v.profiles, cached := [] }
def ctrNs (n : NetSetVal) : C04.EpData :=
  { labels := n.labels, nets := C04.extractNetSet n.nets, ports := [], parents := n.profiles, cached := [] }

theorem contributors_eq (ds : DS) :
    ds.contributors = ds.eps.map (fun p => ctrEp p.2.2.2) ++ ds.netsets.map (fun p => ctrNs p.2) := rfl

/-- the index's effective labels for an endpoint entry = the specification's -/
theorem matchSel_eff {N : Numbering} {H : IdFn} {s : Bool} {g : Graph} {ds : DS} (hx : XInv N H s g ds)
    (sel : Str) (e' : C04.EpData) (labels : C04.Labels) (profiles : List String)
    (h1 : e'.labels = labels) (h2 : e'.parents = C04.dedupParents profiles) :
    matchSel sel (C04.effLabels g.idx e') = matchSel sel (ds.effLabels labels profiles) := by
  unfold C04.effLabels DS.effLabels
  have : C04.parentLabels g.idx = fun q => (mget ds.profLabels q).getD [] := funext hx.parents
  rw [h1, h2, this]
  exact matchSel_dedup sel labels _ profiles

/-- `contributed` of C04 for the index's tables = "some datastore contributor matches and contributes" -/
theorem contributed_iff {N : Numbering} {H : IdFn} {s : Bool} {g : Graph} {ds : DS} (hx : XInv N H s g ds)
    (hinv : C04.Inv matchSel g.idx) (hn : DSNodup ds) (hnn : (mkeys ds.netsets).Nodup) {id : String} {d : IpSetDef}
    (hset : C04.C01Ext.setView g.idx id = some (trD d)) (m : C04.Member) :
    C04.contributed matchSel g.idx id m ↔
      ∃ e ∈ ds.contributors, matchSel d.sel (ds.effLabels e.labels e.parents) = true ∧
        m ∈ C04.contrib e { sel := d.sel, proto := d.proto, port := d.port, refc := [] } := by
  unfold C04.contributed
  rw [contributors_eq]
  constructor
  · rintro ⟨p, hp, d', hd', hm, hc⟩
    have htr : d'.sel = d.sel ∧ d'.proto = d.proto ∧ d'.port = d.port := by
      unfold C04.C01Ext.setView at hset
      rw [hd'] at hset
      simp only [Option.map_some, Option.some.injEq, C04.C01Ext.triple, trD, Prod.mk.injEq] at hset
      exact hset
    have hget : C04.alGet p.1 g.idx.eps = some p.2 := C04.alGet_of_mem hinv.core.epsNodup hp
    have hview : C04.C01Ext.epsView g.idx p.1 = some (C04.C01Ext.stripE p.2) := by
      unfold C04.C01Ext.epsView; rw [hget]; rfl
    rcases hx.range p.1 (by rw [hview]; rfl) with ⟨nid, hk⟩ | ⟨name, hk⟩
    · rw [hk, hx.eps nid] at hview
      cases hxe : mget ds.eps nid with
      | none => rw [hxe] at hview; cases hview
      | some x =>
        rw [hxe] at hview
        simp only [Option.map_some, Option.some.injEq] at hview
        have hl : p.2.labels = x.2.2.labels := by
          have := congrArg C04.EpData.labels hview; simpa [epOf, C04.C01Ext.stripE] using this.symm
        have hpar : p.2.parents = C04.dedupParents x.2.2.profiles := by
          have := congrArg C04.EpData.parents hview; simpa [epOf, C04.C01Ext.stripE] using this.symm
        have hnets : p.2.nets = C04.extractIPs x.2.2.nets := by
          have := congrArg C04.EpData.nets hview; simpa [epOf, C04.C01Ext.stripE] using this.symm
        have hports : p.2.ports = x.2.2.ports := by
          have := congrArg C04.EpData.ports hview; simpa [epOf, C04.C01Ext.stripE] using this.symm
        refine ⟨ctrEp x.2.2, List.mem_append.mpr (Or.inl (List.mem_map.mpr ⟨(nid, x), mget_mem hxe, rfl⟩)), ?_, ?_⟩
        · show matchSel d.sel (ds.effLabels x.2.2.labels x.2.2.profiles) = true
          rw [← htr.1, ← matchSel_eff hx d'.sel p.2 x.2.2.labels x.2.2.profiles hl hpar]; exact hm
        · rw [← contrib_congr (e := p.2) (d := d') hnets hports htr.2.1 htr.2.2]; exact hc
    · rw [hk, hx.nets name] at hview
      cases hxe : mget ds.netsets name with
      | none => rw [hxe] at hview; cases hview
      | some x =>
        rw [hxe] at hview
        simp only [Option.map_some, Option.some.injEq] at hview
        have hl : p.2.labels = x.labels := by
          have := congrArg C04.EpData.labels hview; simpa [nsOf, C04.C01Ext.stripE] using this.symm
        have hpar : p.2.parents = C04.dedupParents x.profiles := by
          have := congrArg C04.EpData.parents hview; simpa [nsOf, C04.C01Ext.stripE] using this.symm
        have hnets : p.2.nets = C04.extractNetSet x.nets := by
          have := congrArg C04.EpData.nets hview; simpa [nsOf, C04.C01Ext.stripE] using this.symm
        have hports : p.2.ports = [] := by
          have := congrArg C04.EpData.ports hview; simpa [nsOf, C04.C01Ext.stripE] using this.symm
        refine ⟨ctrNs x, List.mem_append.mpr (Or.inr (List.mem_map.mpr ⟨(name, x), mget_mem hxe, rfl⟩)), ?_, ?_⟩
        · show matchSel d.sel (ds.effLabels x.labels x.profiles) = true
          rw [← htr.1, ← matchSel_eff hx d'.sel p.2 x.labels x.profiles hl hpar]; exact hm
        · rw [← contrib_congr (e := p.2) (d := d') hnets hports htr.2.1 htr.2.2]; exact hc
  · rintro ⟨e, he, hm, hc⟩
    obtain ⟨d', hd', htr⟩ : ∃ d', C04.alGet id g.idx.ipsets = some d' ∧ d'.sel = d.sel ∧ d'.proto = d.proto ∧ d'.port = d.port := by
      unfold C04.C01Ext.setView at hset
      cases hd' : C04.alGet id g.idx.ipsets with
      | none => rw [hd'] at hset; cases hset
      | some d' =>
        rw [hd'] at hset
        simp only [Option.map_some, Option.some.injEq, C04.C01Ext.triple, trD, Prod.mk.injEq] at hset
        exact ⟨d', rfl, hset⟩
    rcases List.mem_append.mp he with he | he
    · obtain ⟨⟨nid, x⟩, hmem, rfl⟩ := List.mem_map.mp he
      have hxe := mget_of_mem_nodup hn.eps hmem
      have hview := hx.eps nid
      rw [hxe] at hview
      simp only [Option.map_some] at hview
      unfold C04.C01Ext.epsView at hview
      cases hget : C04.alGet (epKeyStr (N.ek nid)) g.idx.eps with
      | none => rw [hget] at hview; cases hview
      | some e' =>
        rw [hget] at hview
        simp only [Option.map_some, Option.some.injEq] at hview
        have hl : e'.labels = x.2.2.labels := by
          have := congrArg C04.EpData.labels hview; simpa [epOf, C04.C01Ext.stripE] using this
        have hpar : e'.parents = C04.dedupParents x.2.2.profiles := by
          have := congrArg C04.EpData.parents hview; simpa [epOf, C04.C01Ext.stripE] using this
        have hnets : e'.nets = C04.extractIPs x.2.2.nets := by
          have := congrArg C04.EpData.nets hview; simpa [epOf, C04.C01Ext.stripE] using this
        have hports : e'.ports = x.2.2.ports := by
          have := congrArg C04.EpData.ports hview; simpa [epOf, C04.C01Ext.stripE] using this
        refine ⟨(epKeyStr (N.ek nid), e'), C04.alGet_some_mem hget, d', hd', ?_, ?_⟩
        · rw [htr.1, matchSel_eff hx d.sel e' x.2.2.labels x.2.2.profiles hl hpar]; exact hm
        · rw [contrib_congr (e := e') (d := d') (e2 := ctrEp x.2.2)
            (d2 := { sel := d.sel, proto := d.proto, port := d.port, refc := [] }) hnets hports htr.2.1 htr.2.2]
          exact hc
    · obtain ⟨⟨name, x⟩, hmem, rfl⟩ := List.mem_map.mp he
      have hxe := mget_of_mem_nodup hnn hmem
      have hview := hx.nets name
      rw [hxe] at hview
      simp only [Option.map_some] at hview
      unfold C04.C01Ext.epsView at hview
      cases hget : C04.alGet ("n:" ++ name) g.idx.eps with
      | none => rw [hget] at hview; cases hview
      | some e' =>
        rw [hget] at hview
        simp only [Option.map_some, Option.some.injEq] at hview
        have hl : e'.labels = x.labels := by
          have := congrArg C04.EpData.labels hview; simpa [nsOf, C04.C01Ext.stripE] using this
        have hpar : e'.parents = C04.dedupParents x.profiles := by
          have := congrArg C04.EpData.parents hview; simpa [nsOf, C04.C01Ext.stripE] using this
        have hnets : e'.nets = C04.extractNetSet x.nets := by
          have := congrArg C04.EpData.nets hview; simpa [nsOf, C04.C01Ext.stripE] using this
        have hports : e'.ports = [] := by
          have := congrArg C04.EpData.ports hview; simpa [nsOf, C04.C01Ext.stripE] using this
        refine ⟨("n:" ++ name, e'), C04.alGet_some_mem hget, d', hd', ?_, ?_⟩
        · rw [htr.1, matchSel_eff hx d.sel e' x.labels x.profiles hl hpar]; exact hm
        · rw [contrib_congr (e := e') (d := d') (e2 := ctrNs x)
            (d2 := { sel := d.sel, proto := d.proto, port := d.port, refc := [] }) hnets hports htr.2.1 htr.2.2]
          exact hc

/-- C04's `memberSpec` for the index's tables = membership in the specification's `DS.members` -/
theorem memberSpec_iff {N : Numbering} {H : IdFn} {s : Bool} {g : Graph} {ds : DS} (hx : XInv N H s g ds)
    (hinv : C04.Inv matchSel g.idx) (hn : DSNodup ds) (hnn : (mkeys ds.netsets).Nodup) {id : String} {d : IpSetDef}
    (hset : C04.C01Ext.setView g.idx id = some (trD d)) (m : C04.Member) :
    C04.memberSpec matchSel g.idx id m ↔ m ∈ ds.members s d := by
  have hall : ∀ m', m' ∈ (ds.contributors.flatMap (fun e =>
      if matchSel d.sel (ds.effLabels e.labels e.parents) then
        C04.contrib e { sel := d.sel, proto := d.proto, port := d.port, refc := [] } else [])).eraseDups ↔
      C04.contributed matchSel g.idx id m' := by
    intro m'
    rw [contributed_iff hx hinv hn hnn hset m', List.mem_eraseDups, List.mem_flatMap]
    constructor
    · rintro ⟨e, he, hm⟩
      split at hm
      · rename_i hmatch; exact ⟨e, he, hmatch, hm⟩
      · cases hm
    · rintro ⟨e, he, hmatch, hm⟩
      exact ⟨e, he, by simp only [hmatch, if_true]; exact hm⟩
  unfold C04.memberSpec DS.members
  simp only []
  rw [hx.sup]
  cases s with
  | false =>
    simp only [Bool.false_eq_true, if_false, false_implies, and_true]
    exact (hall m).symm
  | true =>
    simp only [if_true, true_implies, List.mem_filter]
    rw [hall m]
    constructor
    · rintro ⟨h1, h2⟩
      refine ⟨h1, ?_⟩
      cases m with
      | cidr c =>
        simp only [Bool.not_eq_true', List.any_eq_false]
        intro m' hm'
        cases m' with
        | cidr c' =>
          have := h2 c rfl c' ((hall _).mp hm')
          simp [this]
        | ipp _ _ _ _ => simp
      | ipp _ _ _ _ => rfl
    · rintro ⟨h1, h2⟩
      refine ⟨h1, ?_⟩
      intro c hc c' hc'
      subst hc
      simp only [Bool.not_eq_true', List.any_eq_false] at h2
      have := h2 (.cidr c') ((hall _).mpr hc')
      simpa using this


/-! ### the declared IP sets are the specification's -/

theorem mget_dedupFirst_aux {β : Type} (u : String) : ∀ (l acc : List (String × β)),
    mget (l.foldl (fun m p => if (mget m p.1).isSome then m else m ++ [p]) acc) u = (mget acc u).or (mget l u)
  | [], acc => by simp [mget]
  | p :: t, acc => by
    simp only [List.foldl_cons]
    rw [mget_dedupFirst_aux u t]
    obtain ⟨k, v⟩ := p
    by_cases hs : (mget acc k).isSome = true
    · simp only [hs, if_true, mget]
      by_cases hk : k = u
      · subst hk
        cases ha : mget acc k with
        | none => rw [ha] at hs; cases hs
        | some x => simp
      · simp only [hk, if_false]
    · have hs' : (mget acc k).isSome = false := by simpa using hs
      simp only [hs', Bool.false_eq_true, if_false]
      rw [mget_append]
      simp only [mget]
      by_cases hk : k = u
      · subst hk
        have : mget acc k = none := by
          cases ha : mget acc k with
          | none => rfl
          | some x => rw [ha] at hs; simp at hs
        simp [this]
      · simp only [hk, if_false]
        cases mget acc u <;> simp

theorem mget_activeSets (H : IdFn) (ds : DS) (u : String) :
    mget (ds.activeSets H) u =
      mget ((ds.activePols.map (·.2.rules) ++ ds.activeProfs.map (·.2)).flatMap (currentSets H)) u := by
  unfold DS.activeSets
  rw [mget_dedupFirst_aux]
  simp [mget]

theorem mget_flatMap_some {α β : Type} (F : α → List (String × β)) (u : String) (x : β) : ∀ (A : List α),
    mget (A.flatMap F) u = some x → ∃ r ∈ A, mget (F r) u = some x
  | [], h => by simp [mget] at h
  | a :: t, h => by
    simp only [List.flatMap_cons] at h
    rw [mget_append] at h
    cases ha : mget (F a) u with
    | some y =>
      rw [ha] at h
      simp only [Option.some_or, Option.some.injEq] at h
      exact ⟨a, List.mem_cons_self .., by rw [ha, h]⟩
    | none =>
      rw [ha] at h
      simp only [Option.none_or] at h
      obtain ⟨r, hr, hx⟩ := mget_flatMap_some F u x t h
      exact ⟨r, List.mem_cons_of_mem _ hr, hx⟩

theorem mget_flatMap_isSome {α β : Type} (F : α → List (String × β)) (u : String) : ∀ (A : List α),
    (mget (A.flatMap F) u).isSome = true ↔ ∃ r ∈ A, (mget (F r) u).isSome = true
  | [] => by simp [mget]
  | a :: t => by
    simp only [List.flatMap_cons]
    rw [mget_append]
    have ih := mget_flatMap_isSome F u t
    cases ha : mget (F a) u with
    | some y =>
      simp only [Option.some_or, Option.isSome_some, true_iff]
      exact ⟨a, List.mem_cons_self .., by rw [ha]; rfl⟩
    | none =>
      simp only [Option.none_or]
      rw [ih]
      constructor
      · rintro ⟨r, hr, hx⟩; exact ⟨r, List.mem_cons_of_mem _ hr, hx⟩
      · rintro ⟨r, hr, hx⟩
        rcases List.mem_cons.mp hr with h | h
        · subst h; rw [ha] at hx; cases hx
        · exact ⟨r, h, hx⟩

theorem find_map_mget {β γ : Type} (X : β → γ) (id : String) : ∀ (l : List (String × β)),
    (l.map (fun p => (p.1, X p.2))).find? (fun q => decide (q.1 = id)) = (mget l id).map (fun d => (id, X d))
  | [] => rfl
  | (k, v) :: t => by
    simp only [List.map_cons, List.find?_cons, mget]
    by_cases hk : k = id
    · subst hk; simp
    · simp only [hk, decide_false, if_false]
      exact find_map_mget X id t

theorem iInv_content {g : Graph} (hi : IInv g) : ∀ id f, (decl g).ipsets id = some f → ∀ str,
    f str = true ↔ ∃ m, C04.memberSpec matchSel g.idx id m ∧ showMember m = str := by
  obtain ⟨D, hD, _, hspec⟩ := inv_down_spec hi.inv
  intro id f hf str
  rw [hi.mem D hD id f hf str]
  constructor
  · rintro ⟨m, h1, h2⟩; exact ⟨m, (hspec id m).mp h1, h2⟩
  · rintro ⟨m, h1, h2⟩; exact ⟨m, (hspec id m).mpr h1, h2⟩

/-- DECLARED IP SETS = SPECIFICATION -/
theorem ipsets_eq_fresh {N : Numbering} {H : IdFn} {s : Bool} {g : Graph} {ds : DS} (hx : XInv N H s g ds)
    (hr : RsInv H g) (hi : IInv g) (hn : DSNodup ds) (hnn : (mkeys ds.netsets).Nodup)
    (hinj : ∀ d d' : IpSetDef, H d = H d' → (∃ u, mget g.rs.sets u = some d) →
      (∃ u, mget (ds.activeSets H) u = some d') → d = d')
    (hpol : ∀ k, mget g.active (.pol k) = (mget ds.activePols k).map (·.rules)) (hpk : (mkeys ds.activePols).Nodup)
    (hprof : ∀ p, mget g.active (.prof p) = mget ds.activeProfs p) (id : String) :
    (decl g).ipsets id =
      ((fresh H s ds).ipsets.find? (fun p => p.1 = id)).map (fun p m => decide (m ∈ p.2.2)) := by
  -- the right-hand side, as a lookup
  have hrhs : ((fresh H s ds).ipsets.find? (fun p => p.1 = id)).map (fun p m => decide (m ∈ p.2.2)) =
      (mget ((ds.activePols.map (·.2.rules) ++ ds.activeProfs.map (·.2)).flatMap (currentSets H)) id).map
        (fun d => fun m => decide (m ∈ (ds.members s d).map showMember)) := by
    show (((ds.activeSets H).map (fun p => (p.1, ((if p.2.proto ≠ C04.protoNone then 1 else 0 : Nat),
      (ds.members s p.2).map showMember)))).find? (fun p => decide (p.1 = id))).map _ = _
    rw [find_map_mget (fun d : IpSetDef => ((if d.proto ≠ C04.protoNone then 1 else 0 : Nat), (ds.members s d).map showMember)),
      mget_activeSets]
    cases mget ((ds.activePols.map (·.2.rules) ++ ds.activeProfs.map (·.2)).flatMap (currentSets H)) id <;> rfl
  rw [hrhs]
  -- in use ↔ some active rules reference it
  have huse : g.rs.inUse id = true ↔
      (mget ((ds.activePols.map (·.2.rules) ++ ds.activeProfs.map (·.2)).flatMap (currentSets H)) id).isSome = true := by
    rw [mget_flatMap_isSome]
    show g.rs.uidInUse id = true ↔ _
    rw [uidInUse_iff]
    constructor
    · rintro ⟨key, hk⟩
      obtain ⟨r, h1, h2⟩ := (hr.refs key id).mp hk
      refine ⟨r, ?_, h2⟩
      cases key with
      | pol k =>
        rw [hpol k] at h1
        cases hp : mget ds.activePols k with
        | none => rw [hp] at h1; cases h1
        | some pv =>
          rw [hp] at h1
          simp only [Option.map_some, Option.some.injEq] at h1
          exact List.mem_append.mpr (Or.inl (List.mem_map.mpr ⟨(k, pv), mget_mem hp, h1⟩))
      | prof p =>
        rw [hprof p] at h1
        exact List.mem_append.mpr (Or.inr (List.mem_map.mpr ⟨(p, r), mget_mem h1, rfl⟩))
    · rintro ⟨r, hr', h2⟩
      rcases List.mem_append.mp hr' with h | h
      · obtain ⟨⟨k, pv⟩, hmem, rfl⟩ := List.mem_map.mp h
        have := mget_of_mem_nodup hpk hmem
        exact ⟨.pol k, (hr.refs _ id).mpr ⟨pv.rules, by rw [hpol k, this]; rfl, h2⟩⟩
      · obtain ⟨⟨p, r'⟩, hmem, rfl⟩ := List.mem_map.mp h
        have hget : mget ds.activeProfs p = some r' := by
          unfold DS.activeProfs at hmem ⊢
          obtain ⟨q, hq, hqe⟩ := List.mem_map.mp hmem
          simp only [Prod.mk.injEq] at hqe
          obtain ⟨rfl, rfl⟩ := hqe
          rw [mget_map_self (fun p => (mget ds.profRules p).getD dummyDropRules)]
          simp [hq]
        exact ⟨.prof p, (hr.refs _ id).mpr ⟨r', by rw [hprof p, hget], h2⟩⟩
  cases hL : mget ((ds.activePols.map (·.2.rules) ++ ds.activeProfs.map (·.2)).flatMap (currentSets H)) id with
  | none =>
    have hnot : g.rs.inUse id = false := by
      cases h : g.rs.inUse id with
      | false => rfl
      | true => have := huse.mp h; rw [hL] at this; cases this
    have := hr.dom id
    rw [hnot] at this
    cases hd : (decl g).ipsets id with
    | none => rfl
    | some f => rw [hd] at this; cases this
  | some d0 =>
    have hin : g.rs.inUse id = true := huse.mpr (by rw [hL]; rfl)
    have hdecl := hr.dom id
    rw [hin] at hdecl
    cases hd : (decl g).ipsets id with
    | none => rw [hd] at hdecl; cases hdecl
    | some f =>
      simp only [Option.map_some, Option.some.injEq]
      -- the index's definition of `id` is `d0`
      have hdom := hx.setsDom id
      rw [hin] at hdom
      cases hs1 : mget g.rs.sets id with
      | none => rw [hs1] at hdom; cases hdom
      | some d1 =>
        obtain ⟨r, _, hr0⟩ := mget_flatMap_some (currentSets H) id d0 _ hL
        have e : d1 = d0 := hinj d1 d0 ((hx.setsH id d1 hs1).trans (mget_currentSets hr0).symm) ⟨id, hs1⟩
          ⟨id, by rw [mget_activeSets]; exact hL⟩
        subst e
        have hset : C04.C01Ext.setView g.idx id = some (trD d1) := by rw [hx.sets id, hs1]; rfl
        funext str
        apply Bool.eq_iff_iff.mpr
        rw [iInv_content hi id f hd str]
        simp only [decide_eq_true_eq, List.mem_map]
        constructor
        · rintro ⟨m, h1, h2⟩
          exact ⟨m, (memberSpec_iff hx hi.inv hn hnn hset m).mp h1, h2⟩
        · rintro ⟨m, h1, h2⟩
          exact ⟨m, (memberSpec_iff hx hi.inv hn hnn hset m).mpr h1, h2⟩

theorem netsets_nodup_lastState (h : List HStep) : ∀ ds : DS, (mkeys ds.netsets).Nodup →
    (mkeys (h.foldl (fun ds st => match st with
      | .upd u => ds.apply u
      | _ => ds) ds).netsets).Nodup := by
  induction h with
  | nil => intro ds hd; exact hd
  | cons st t ih =>
    intro ds hd
    simp only [List.foldl_cons]
    cases st with
    | upd u =>
      apply ih
      cases u with
      | netset name v => exact mkeys_setOrDel_nodup _ _ hd
      | _ => exact hd
    | inSync => exact ih _ hd
    | flush => exact ih _ hd

end CalicoVerif.C01
