import CalicoVerif.Proofs.C31Lift
/-! C31 — the per-endpoint invariant `EpOK` and its preservation by every incremental handler. -/
namespace CalicoVerif.C31

/-- the invariant of one joined endpoint: what its client holds (`v`) is exactly what the Processor has
synced for it, the synced sets are exactly what the endpoint needs, and the client has the endpoint itself,
every service account and namespace, and the in-sync flag. -/
structure EpOK (p : Proc) (w : Nat) (ei : EpInfo) (v : View) : Prop where
  core : Core p ei v
  exact : Exact p ei
  ep : v.ep = ei.ep.map (fun e => (w, e))
  sas : ∀ id, v.sas id = p.sas.get id
  nss : ∀ id, v.nss id = p.nss.get id
  inSync : v.inSync = p.inSync

/-- what the calculation graph's contract guarantees about the Processor's stores -/
structure Good (p : Proc) : Prop where
  epRefs : ∀ kv ∈ p.eps, ∀ e, kv.2.ep = some e → e.pols.Nodup ∧ e.profs.Nodup ∧
    (∀ id ∈ e.pols, (p.pols.get id).isSome) ∧ (∀ id ∈ e.profs, (p.profs.get id).isSome)
  polRefs : ∀ id r, p.pols.get id = some r → ∀ x ∈ r.refs, (p.ipsets.get x).isSome
  profRefs : ∀ id r, p.profs.get id = some r → ∀ x ∈ r.refs, (p.ipsets.get x).isSome
  sasK : p.sas.NodupKeys
  nssK : p.nss.NodupKeys

theorem needed_isSome {p : Proc} (hp : ∀ id r, p.pols.get id = some r → ∀ x ∈ r.refs, (p.ipsets.get x).isSome)
    (hf : ∀ id r, p.profs.get id = some r → ∀ x ∈ r.refs, (p.ipsets.get x).isSome) {e : Option Endpoint} {x : Nat}
    (h : neededIP p e x) : (p.ipsets.get x).isSome := by
  rcases h with ⟨id, _, r, hr, hx⟩ | ⟨id, _, r, hr, hx⟩
  · exact hf id r hr x hx
  · exact hp id r hr x hx

theorem neededIP_congr {p p' : Proc} {e : Option Endpoint}
    (hf : ∀ id ∈ epProfs e, p'.profs.get id = p.profs.get id) (hp : ∀ id ∈ epPols e, p'.pols.get id = p.pols.get id)
    (x : Nat) : neededIP p' e x ↔ neededIP p e x := by
  unfold neededIP
  constructor
  · rintro (⟨id, hid, r, hr, hx⟩ | ⟨id, hid, r, hr, hx⟩)
    · exact Or.inl ⟨id, hid, r, by rw [← hf id hid]; exact hr, hx⟩
    · exact Or.inr ⟨id, hid, r, by rw [← hp id hid]; exact hr, hx⟩
  · rintro (⟨id, hid, r, hr, hx⟩ | ⟨id, hid, r, hr, hx⟩)
    · exact Or.inl ⟨id, hid, r, by rw [hf id hid]; exact hr, hx⟩
    · exact Or.inr ⟨id, hid, r, by rw [hp id hid]; exact hr, hx⟩

/-! ### each component of `applyMsg` depends only on that component -/

theorem applyMsg_ep_congr {v1 v : View} (h : v1.ep = v.ep) (m : Msg) : (applyMsg v1 m).ep = (applyMsg v m).ep := by
  cases m <;> simp [applyMsg, h]
theorem applyMsg_pols_congr {v1 v : View} (h : v1.pols = v.pols) (m : Msg) : (applyMsg v1 m).pols = (applyMsg v m).pols := by
  cases m <;> simp [applyMsg, h]
theorem applyMsg_profs_congr {v1 v : View} (h : v1.profs = v.profs) (m : Msg) : (applyMsg v1 m).profs = (applyMsg v m).profs := by
  cases m <;> simp [applyMsg, h]
theorem applyMsg_sas_congr {v1 v : View} (h : v1.sas = v.sas) (m : Msg) : (applyMsg v1 m).sas = (applyMsg v m).sas := by
  cases m <;> simp [applyMsg, h]
theorem applyMsg_nss_congr {v1 v : View} (h : v1.nss = v.nss) (m : Msg) : (applyMsg v1 m).nss = (applyMsg v m).nss := by
  cases m <;> simp [applyMsg, h]
theorem applyMsg_inSync_congr {v1 v : View} (h : v1.inSync = v.inSync) (m : Msg) : (applyMsg v1 m).inSync = (applyMsg v m).inSync := by
  cases m <;> simp [applyMsg, h]
theorem applyMsg_ipsets_of_kind {v : View} {m : Msg} (h : m.kind ≠ .ip) : (applyMsg v m).ipsets = v.ipsets := by
  cases m <;> simp_all [applyMsg, Msg.kind]

/-- the burst `doAdd; <one message that is not about IP sets>; doDel` of a policy/profile update -/
theorem refresh_burst {p1 : Proc} {ei ei1 : EpInfo} {adds dels : List Msg} (h1 : ipSync p1 ei = some (ei1, adds, dels))
    (v : View) (m : Msg) (hm : m.kind ≠ .ip) :
    let v' := applyMsgs v (adds ++ [m] ++ dels)
    v'.ep = (applyMsg v m).ep ∧ v'.pols = (applyMsg v m).pols ∧ v'.profs = (applyMsg v m).profs ∧
    v'.sas = (applyMsg v m).sas ∧ v'.nss = (applyMsg v m).nss ∧ v'.inSync = (applyMsg v m).inSync ∧
    (∀ x, v'.ipsets x = if x ∈ ei.syncedIP ∧ x ∉ ei1.syncedIP then none
        else if x ∈ ei1.syncedIP ∧ x ∉ ei.syncedIP then (p1.ipsets.get x).map setOf else v.ipsets x) ∧
    (∀ x, x ∈ ei1.syncedIP ↔ neededIP p1 ei.ep x) ∧
    (∀ x, x ∈ ei1.syncedIP → x ∉ ei.syncedIP → (p1.ipsets.get x).isSome) := by
  obtain ⟨kA, kD, eIP, vA, vD, xIP⟩ := ipSync_spec h1 v
  have fA := frame_kind kA v
  simp only [applyMsgs_append]
  have e1 : applyMsgs (applyMsgs v adds) [m] = applyMsg (applyMsgs v adds) m := rfl
  rw [e1]
  have fD := frame_kind kD (applyMsg (applyMsgs v adds) m)
  have vD2 := vD (applyMsg (applyMsgs v adds) m)
  refine ⟨?_, ?_, ?_, ?_, ?_, ?_, fun x => ?_, eIP, xIP⟩
  · rw [fD.1 (by decide)]; exact applyMsg_ep_congr (fA.1 (by decide)) m
  · rw [fD.2.1 (by decide)]; exact applyMsg_pols_congr (fA.2.1 (by decide)) m
  · rw [fD.2.2.1 (by decide)]; exact applyMsg_profs_congr (fA.2.2.1 (by decide)) m
  · rw [fD.2.2.2.2.1 (by decide)]; exact applyMsg_sas_congr (fA.2.2.2.2.1 (by decide)) m
  · rw [fD.2.2.2.2.2.1 (by decide)]; exact applyMsg_nss_congr (fA.2.2.2.2.2.1 (by decide)) m
  · rw [fD.2.2.2.2.2.2 (by decide)]; exact applyMsg_inSync_congr (fA.2.2.2.2.2.2 (by decide)) m
  · rw [vD2 x, applyMsg_ipsets_of_kind hm, vA x]

/-! ### policy / profile updates -/

theorem refreshPol_ok {p : Proc} {w id : Nat} {r : Rules} {ei ei' : EpInfo} {ms : List Msg} {v : View}
    (hok : EpOK p w ei v)
    (h : refreshOne { p with pols := p.pols.set id r } true id (Msg.polUpd id r) ei = some (ei', ms)) :
    EpOK { p with pols := p.pols.set id r } w ei' (applyMsgs v ms) := by
  unfold refreshOne at h
  by_cases hl : (epList true ei.ep).contains id = true
  · simp only [hl, if_true] at h
    cases h1 : ipSync { p with pols := p.pols.set id r } ei with
    | none => simp only [h1] at h; cases h
    | some r1 =>
      obtain ⟨ei1, adds, dels⟩ := r1
      simp only [h1, Option.some.injEq, Prod.mk.injEq] at h
      obtain ⟨rfl, rfl⟩ := h
      have ho1 := ipSync_output h1
      obtain ⟨bEp, bPol, bProf, bSa, bNs, bSy, bIp, eIP, _⟩ := refresh_burst h1 v (Msg.polUpd id r) (by simp [Msg.kind])
      have hlid : id ∈ epPols ei.ep := by simpa [epList] using hl
      refine ⟨⟨fun k => ?_, fun k => ?_, fun x => ?_⟩, ⟨fun k => ?_, fun k => ?_, fun x => ?_⟩, ?_, fun k => ?_, fun k => ?_, ?_⟩
      · rw [bPol]
        simp only [applyMsg, upd, markSynced, if_true, mem_sins, ho1.2.2.2.1, hok.core.pols k, AMap.get_set]
        by_cases hk : k = id
        · simp [hk]
        · simp [hk]
      · rw [bProf]
        simp only [applyMsg, markSynced, if_true, ho1.2.2.2.2]
        exact hok.core.profs k
      · rw [bIp x, hok.core.ipsets x]
        simp only [markSynced, if_true]
        by_cases a1 : x ∈ ei1.syncedIP <;> by_cases a2 : x ∈ ei.syncedIP <;> simp [a1, a2]
      · simp only [markSynced, if_true, mem_sins, ho1.2.2.2.1, ho1.2.1, hok.exact.pols k]
        constructor
        · rintro (rfl | h'); exact hlid; exact h'
        · exact Or.inr
      · simp only [markSynced, if_true, ho1.2.2.2.2, ho1.2.1]; exact hok.exact.profs k
      · simp only [markSynced, if_true, ho1.2.1]; exact eIP x
      · rw [bEp]; simp only [applyMsg, markSynced, if_true, ho1.2.1]; exact hok.ep
      · rw [bSa]; exact hok.sas k
      · rw [bNs]; exact hok.nss k
      · rw [bSy]; exact hok.inSync
  · simp only [hl] at h
    simp only [Bool.false_eq_true, if_false, Option.some.injEq, Prod.mk.injEq] at h
    obtain ⟨rfl, rfl⟩ := h
    have hnl : id ∉ epPols ei.ep := by simpa [epList] using hl
    have hsame : ∀ k ∈ epPols ei.ep, (p.pols.set id r).get k = p.pols.get k := by
      intro k hk
      rw [AMap.get_set]
      have : ¬ k = id := fun e => hnl (e ▸ hk)
      simp [this]
    refine ⟨⟨fun k => ?_, hok.core.profs, hok.core.ipsets⟩, ⟨hok.exact.pols, hok.exact.profs, fun x => ?_⟩, hok.ep, hok.sas, hok.nss, hok.inSync⟩
    · show v.pols k = if k ∈ ei.syncedPol then (p.pols.set id r).get k else none
      rw [hok.core.pols k]
      by_cases hk : k ∈ ei.syncedPol
      · simp only [hk, if_true]; exact (hsame k ((hok.exact.pols k).1 hk)).symm
      · simp [hk]
    · rw [hok.exact.ipsets x]
      exact (neededIP_congr (p := p) (p' := { p with pols := p.pols.set id r }) (e := ei.ep) (fun _ _ => rfl) hsame x).symm

theorem refreshProf_ok {p : Proc} {w id : Nat} {r : Rules} {ei ei' : EpInfo} {ms : List Msg} {v : View}
    (hok : EpOK p w ei v)
    (h : refreshOne { p with profs := p.profs.set id r } false id (Msg.profUpd id r) ei = some (ei', ms)) :
    EpOK { p with profs := p.profs.set id r } w ei' (applyMsgs v ms) := by
  unfold refreshOne at h
  by_cases hl : (epList false ei.ep).contains id = true
  · simp only [hl, if_true] at h
    cases h1 : ipSync { p with profs := p.profs.set id r } ei with
    | none => simp only [h1] at h; cases h
    | some r1 =>
      obtain ⟨ei1, adds, dels⟩ := r1
      simp only [h1, Option.some.injEq, Prod.mk.injEq] at h
      obtain ⟨rfl, rfl⟩ := h
      have ho1 := ipSync_output h1
      obtain ⟨bEp, bPol, bProf, bSa, bNs, bSy, bIp, eIP, _⟩ := refresh_burst h1 v (Msg.profUpd id r) (by simp [Msg.kind])
      have hlid : id ∈ epProfs ei.ep := by simpa [epList] using hl
      refine ⟨⟨fun k => ?_, fun k => ?_, fun x => ?_⟩, ⟨fun k => ?_, fun k => ?_, fun x => ?_⟩, ?_, fun k => ?_, fun k => ?_, ?_⟩
      · rw [bPol]
        simp only [applyMsg, markSynced, Bool.false_eq_true, if_false, ho1.2.2.2.1]
        exact hok.core.pols k
      · rw [bProf]
        simp only [applyMsg, upd, markSynced, Bool.false_eq_true, if_false, mem_sins, ho1.2.2.2.2, hok.core.profs k, AMap.get_set]
        by_cases hk : k = id
        · simp [hk]
        · simp [hk]
      · rw [bIp x, hok.core.ipsets x]
        simp only [markSynced, Bool.false_eq_true, if_false]
        by_cases a1 : x ∈ ei1.syncedIP <;> by_cases a2 : x ∈ ei.syncedIP <;> simp [a1, a2]
      · simp only [markSynced, Bool.false_eq_true, if_false, ho1.2.2.2.1, ho1.2.1]; exact hok.exact.pols k
      · simp only [markSynced, Bool.false_eq_true, if_false, mem_sins, ho1.2.2.2.2, ho1.2.1, hok.exact.profs k]
        constructor
        · rintro (rfl | h'); exact hlid; exact h'
        · exact Or.inr
      · simp only [markSynced, Bool.false_eq_true, if_false, ho1.2.1]; exact eIP x
      · rw [bEp]; simp only [applyMsg, markSynced, Bool.false_eq_true, if_false, ho1.2.1]; exact hok.ep
      · rw [bSa]; exact hok.sas k
      · rw [bNs]; exact hok.nss k
      · rw [bSy]; exact hok.inSync
  · simp only [hl] at h
    simp only [Bool.false_eq_true, if_false, Option.some.injEq, Prod.mk.injEq] at h
    obtain ⟨rfl, rfl⟩ := h
    have hnl : id ∉ epProfs ei.ep := by simpa [epList] using hl
    have hsame : ∀ k ∈ epProfs ei.ep, (p.profs.set id r).get k = p.profs.get k := by
      intro k hk
      rw [AMap.get_set]
      have : ¬ k = id := fun e => hnl (e ▸ hk)
      simp [this]
    refine ⟨⟨hok.core.pols, fun k => ?_, hok.core.ipsets⟩, ⟨hok.exact.pols, hok.exact.profs, fun x => ?_⟩, hok.ep, hok.sas, hok.nss, hok.inSync⟩
    · show v.profs k = if k ∈ ei.syncedProf then (p.profs.set id r).get k else none
      rw [hok.core.profs k]
      by_cases hk : k ∈ ei.syncedProf
      · simp only [hk, if_true]; exact (hsame k ((hok.exact.profs k).1 hk)).symm
      · simp [hk]
    · rw [hok.exact.ipsets x]
      exact (neededIP_congr (p := p) (p' := { p with profs := p.profs.set id r }) (e := ei.ep) hsame (fun _ _ => rfl) x).symm

/-! ### IP set updates and deltas -/

theorem scanRefs_spec {m : AMap Rules} {x : Nat} {ids : List Nat} {b : Bool} (h : scanRefs m x ids = some b) :
    b = true ↔ ∃ id ∈ ids, ∃ r, m.get id = some r ∧ x ∈ r.refs := by
  induction ids with
  | nil => simp [scanRefs] at h; subst h; simp
  | cons i ids ih =>
    simp only [scanRefs] at h
    cases hg : m.get i with
    | none => simp only [hg] at h; cases h
    | some r =>
      simp only [hg, List.contains_iff_mem] at h
      by_cases hx : x ∈ r.refs
      · simp only [hx, if_true, Option.some.injEq] at h
        subst h
        simp only [true_iff]
        exact ⟨i, by simp, r, hg, hx⟩
      · simp only [hx, if_false] at h
        rw [ih h]
        constructor
        · rintro ⟨id, hid, r', hr', hx'⟩; exact ⟨id, List.mem_cons_of_mem _ hid, r', hr', hx'⟩
        · rintro ⟨id, hid, r', hr', hx'⟩
          rcases List.mem_cons.1 hid with rfl | hid
          · rw [hg] at hr'; cases hr'; exact absurd hx' hx
          · exact ⟨id, hid, r', hr', hx'⟩

theorem referencesIP_spec {p : Proc} {ei : EpInfo} {x : Nat} {b : Bool} (h : referencesIP p ei x = some b) :
    b = true ↔ neededIP p ei.ep x := by
  unfold referencesIP at h
  cases h1 : scanRefs p.profs x (epProfs ei.ep) with
  | none => simp only [h1] at h; cases h
  | some b1 =>
    have s1 := scanRefs_spec h1
    cases b1 with
    | true =>
      simp only [h1, Option.some.injEq] at h
      subst h
      simp only [true_iff]
      exact Or.inl (s1.1 rfl)
    | false =>
      simp only [h1] at h
      have s2 := scanRefs_spec h
      rw [s2]
      unfold neededIP
      constructor
      · exact Or.inr
      · rintro (h' | h')
        · have := s1.2 h'; cases this
        · exact h'

theorem setOf_dedup (ms : List Nat) : setOf (dedup ms) = fun x => ms.contains x := by
  funext m
  show (dedup ms).contains m = ms.contains m
  have := mem_dedup ms m
  by_cases h : m ∈ ms
  · have h' := this.2 h; simp [h, h']
  · have h' : m ∉ dedup ms := fun x => h (this.1 x); simp [h, h']

theorem ipUpdOne_ok {p : Proc} {w id : Nat} {ms0 : List Nat} {ei ei' : EpInfo} {ms : List Msg} {v : View}
    (hok : EpOK p w ei v)
    (h : ipUpdOne { p with ipsets := p.ipsets.set id (dedup ms0) } id ms0 ei = some (ei', ms)) :
    EpOK { p with ipsets := p.ipsets.set id (dedup ms0) } w ei' (applyMsgs v ms) := by
  unfold ipUpdOne at h
  cases h1 : referencesIP { p with ipsets := p.ipsets.set id (dedup ms0) } ei id with
  | none => simp only [h1] at h; cases h
  | some b =>
    have hs := referencesIP_spec h1
    have hnd : neededIP { p with ipsets := p.ipsets.set id (dedup ms0) } ei.ep id ↔ neededIP p ei.ep id := Iff.rfl
    cases b with
    | true =>
      simp only [h1, Option.some.injEq, Prod.mk.injEq] at h
      obtain ⟨rfl, rfl⟩ := h
      have hneed : neededIP p ei.ep id := hnd.1 (hs.1 rfl)
      have hin : id ∈ ei.syncedIP := (hok.exact.ipsets id).2 hneed
      refine ⟨⟨hok.core.pols, hok.core.profs, fun x => ?_⟩, ⟨hok.exact.pols, hok.exact.profs, fun x => ?_⟩, hok.ep, hok.sas, hok.nss, hok.inSync⟩
      · show upd v.ipsets id (some (fun m => ms0.contains m)) x =
          if x ∈ sins ei.syncedIP id then ((p.ipsets.set id (dedup ms0)).get x).map setOf else none
        simp only [upd, mem_sins, AMap.get_set]
        by_cases hx : x = id
        · subst hx; simp [setOf_dedup]
        · simp only [hx, if_false, false_or]; exact hok.core.ipsets x
      · show x ∈ sins ei.syncedIP id ↔ neededIP p ei.ep x
        rw [mem_sins, hok.exact.ipsets x]
        constructor
        · rintro (rfl | h'); exact hneed; exact h'
        · exact Or.inr
    | false =>
      simp only [h1, Option.some.injEq, Prod.mk.injEq] at h
      obtain ⟨rfl, rfl⟩ := h
      have hnot : id ∉ ei.syncedIP := fun hin => by
        have := hs.2 (hnd.2 ((hok.exact.ipsets id).1 hin)); cases this
      refine ⟨⟨hok.core.pols, hok.core.profs, fun x => ?_⟩, ⟨hok.exact.pols, hok.exact.profs, hok.exact.ipsets⟩, hok.ep, hok.sas, hok.nss, hok.inSync⟩
      show v.ipsets x = if x ∈ ei.syncedIP then ((p.ipsets.set id (dedup ms0)).get x).map setOf else none
      rw [hok.core.ipsets x, AMap.get_set]
      by_cases hx : x = id
      · subst hx; simp [hnot]
      · simp [hx]

theorem setOf_applyDelta (cur a d : List Nat) :
    setOf (applyDelta cur a d) = fun x => (setOf cur x || a.contains x) && !d.contains x := by
  funext m
  simp only [setOf, applyDelta, List.contains_iff_mem, List.mem_filter, mem_dedup, List.mem_append]
  by_cases h1 : m ∈ cur <;> by_cases h2 : m ∈ a <;> by_cases h3 : m ∈ d <;> simp [h1, h2, h3, mem_dedup]

theorem ipDeltaOne_ok {p : Proc} {w id : Nat} {cur a d : List Nat} {ei ei' : EpInfo} {ms : List Msg} {v : View}
    (hcur : p.ipsets.get id = some cur) (hok : EpOK p w ei v)
    (h : ipDeltaOne { p with ipsets := p.ipsets.set id (applyDelta cur a d) } id a d ei = some (ei', ms)) :
    EpOK { p with ipsets := p.ipsets.set id (applyDelta cur a d) } w ei' (applyMsgs v ms) := by
  unfold ipDeltaOne at h
  cases h1 : referencesIP { p with ipsets := p.ipsets.set id (applyDelta cur a d) } ei id with
  | none => simp only [h1] at h; cases h
  | some b =>
    have hs := referencesIP_spec h1
    have hnd : neededIP { p with ipsets := p.ipsets.set id (applyDelta cur a d) } ei.ep id ↔ neededIP p ei.ep id := Iff.rfl
    cases b with
    | true =>
      simp only [h1, Option.some.injEq, Prod.mk.injEq] at h
      obtain ⟨rfl, rfl⟩ := h
      have hin : id ∈ ei.syncedIP := (hok.exact.ipsets id).2 (hnd.1 (hs.1 rfl))
      refine ⟨⟨hok.core.pols, hok.core.profs, fun x => ?_⟩, ⟨hok.exact.pols, hok.exact.profs, hok.exact.ipsets⟩, hok.ep, hok.sas, hok.nss, hok.inSync⟩
      show upd v.ipsets id ((v.ipsets id).map (fun s x => (s x || a.contains x) && !d.contains x)) x =
          if x ∈ ei.syncedIP then ((p.ipsets.set id (applyDelta cur a d)).get x).map setOf else none
      simp only [upd, AMap.get_set]
      by_cases hx : x = id
      · subst hx
        simp only [if_true, hin, hok.core.ipsets x, hcur, Option.map_some, setOf_applyDelta]
      · simp only [hx, if_false]; exact hok.core.ipsets x
    | false =>
      simp only [h1, Option.some.injEq, Prod.mk.injEq] at h
      obtain ⟨rfl, rfl⟩ := h
      have hnot : id ∉ ei.syncedIP := fun hin => by
        have := hs.2 (hnd.2 ((hok.exact.ipsets id).1 hin)); cases this
      refine ⟨⟨hok.core.pols, hok.core.profs, fun x => ?_⟩, ⟨hok.exact.pols, hok.exact.profs, hok.exact.ipsets⟩, hok.ep, hok.sas, hok.nss, hok.inSync⟩
      show v.ipsets x = if x ∈ ei.syncedIP then ((p.ipsets.set id (applyDelta cur a d)).get x).map setOf else none
      rw [hok.core.ipsets x, AMap.get_set]
      by_cases hx : x = id
      · subst hx; simp [hnot]
      · simp [hx]

/-! ### broadcasts -/

theorem saUpd_ok {p : Proc} {w : Nat} {ei : EpInfo} {v : View} (hok : EpOK p w ei v) (id x : Nat) :
    EpOK { p with sas := p.sas.set id x } w ei (applyMsgs v [Msg.saUpd id x]) :=
  ⟨⟨hok.core.pols, hok.core.profs, hok.core.ipsets⟩, ⟨hok.exact.pols, hok.exact.profs, hok.exact.ipsets⟩, hok.ep,
   fun k => by
     show upd v.sas id (some x) k = (p.sas.set id x).get k
     simp only [upd, AMap.get_set, hok.sas k], hok.nss, hok.inSync⟩

theorem saRm_ok {p : Proc} {w : Nat} {ei : EpInfo} {v : View} (hok : EpOK p w ei v) (id : Nat) :
    EpOK { p with sas := p.sas.del id } w ei (applyMsgs v [Msg.saRm id]) :=
  ⟨⟨hok.core.pols, hok.core.profs, hok.core.ipsets⟩, ⟨hok.exact.pols, hok.exact.profs, hok.exact.ipsets⟩, hok.ep,
   fun k => by
     show upd v.sas id none k = (p.sas.del id).get k
     simp only [upd, AMap.get_del, hok.sas k], hok.nss, hok.inSync⟩

theorem nsUpd_ok {p : Proc} {w : Nat} {ei : EpInfo} {v : View} (hok : EpOK p w ei v) (id x : Nat) :
    EpOK { p with nss := p.nss.set id x } w ei (applyMsgs v [Msg.nsUpd id x]) :=
  ⟨⟨hok.core.pols, hok.core.profs, hok.core.ipsets⟩, ⟨hok.exact.pols, hok.exact.profs, hok.exact.ipsets⟩, hok.ep, hok.sas,
   fun k => by
     show upd v.nss id (some x) k = (p.nss.set id x).get k
     simp only [upd, AMap.get_set, hok.nss k], hok.inSync⟩

theorem nsRm_ok {p : Proc} {w : Nat} {ei : EpInfo} {v : View} (hok : EpOK p w ei v) (id : Nat) :
    EpOK { p with nss := p.nss.del id } w ei (applyMsgs v [Msg.nsRm id]) :=
  ⟨⟨hok.core.pols, hok.core.profs, hok.core.ipsets⟩, ⟨hok.exact.pols, hok.exact.profs, hok.exact.ipsets⟩, hok.ep, hok.sas,
   fun k => by
     show upd v.nss id none k = (p.nss.del id).get k
     simp only [upd, AMap.get_del, hok.nss k], hok.inSync⟩

theorem inSync_ok {p : Proc} {w : Nat} {ei : EpInfo} {v : View} (hok : EpOK p w ei v) :
    EpOK { p with inSync := true } w ei (applyMsgs v [Msg.inSync]) :=
  ⟨⟨hok.core.pols, hok.core.profs, hok.core.ipsets⟩, ⟨hok.exact.pols, hok.exact.profs, hok.exact.ipsets⟩, hok.ep, hok.sas, hok.nss, rfl⟩

/-! ### removals and new IP sets (no message is sent) -/

theorem polRm_ok {p : Proc} {w id : Nat} {ei : EpInfo} {v : View} (hok : EpOK p w ei v) (hid : id ∉ epPols ei.ep) :
    EpOK { p with pols := p.pols.del id } w ei v := by
  have hsame : ∀ k ∈ epPols ei.ep, (p.pols.del id).get k = p.pols.get k := by
    intro k hk
    rw [AMap.get_del]
    have : ¬ k = id := fun e => hid (e ▸ hk)
    simp [this]
  refine ⟨⟨fun k => ?_, hok.core.profs, hok.core.ipsets⟩, ⟨hok.exact.pols, hok.exact.profs, fun x => ?_⟩, hok.ep, hok.sas, hok.nss, hok.inSync⟩
  · show v.pols k = if k ∈ ei.syncedPol then (p.pols.del id).get k else none
    rw [hok.core.pols k]
    by_cases hk : k ∈ ei.syncedPol
    · simp only [hk, if_true]; exact (hsame k ((hok.exact.pols k).1 hk)).symm
    · simp [hk]
  · rw [hok.exact.ipsets x]
    exact (neededIP_congr (p := p) (p' := { p with pols := p.pols.del id }) (e := ei.ep) (fun _ _ => rfl) hsame x).symm

theorem profRm_ok {p : Proc} {w id : Nat} {ei : EpInfo} {v : View} (hok : EpOK p w ei v) (hid : id ∉ epProfs ei.ep) :
    EpOK { p with profs := p.profs.del id } w ei v := by
  have hsame : ∀ k ∈ epProfs ei.ep, (p.profs.del id).get k = p.profs.get k := by
    intro k hk
    rw [AMap.get_del]
    have : ¬ k = id := fun e => hid (e ▸ hk)
    simp [this]
  refine ⟨⟨hok.core.pols, fun k => ?_, hok.core.ipsets⟩, ⟨hok.exact.pols, hok.exact.profs, fun x => ?_⟩, hok.ep, hok.sas, hok.nss, hok.inSync⟩
  · show v.profs k = if k ∈ ei.syncedProf then (p.profs.del id).get k else none
    rw [hok.core.profs k]
    by_cases hk : k ∈ ei.syncedProf
    · simp only [hk, if_true]; exact (hsame k ((hok.exact.profs k).1 hk)).symm
    · simp [hk]
  · rw [hok.exact.ipsets x]
    exact (neededIP_congr (p := p) (p' := { p with profs := p.profs.del id }) (e := ei.ep) hsame (fun _ _ => rfl) x).symm

/-- an IP set store change at a key no synced set mentions -/
theorem ipStore_ok {p : Proc} {w id : Nat} {ei : EpInfo} {v : View} (hok : EpOK p w ei v) (hid : id ∉ ei.syncedIP)
    (ips' : AMap (List Nat)) (hget : ∀ x, x ≠ id → ips'.get x = p.ipsets.get x) :
    EpOK { p with ipsets := ips' } w ei v := by
  refine ⟨⟨hok.core.pols, hok.core.profs, fun x => ?_⟩, ⟨hok.exact.pols, hok.exact.profs, hok.exact.ipsets⟩, hok.ep, hok.sas, hok.nss, hok.inSync⟩
  show v.ipsets x = if x ∈ ei.syncedIP then (ips'.get x).map setOf else none
  rw [hok.core.ipsets x]
  by_cases hx : x ∈ ei.syncedIP
  · have : x ≠ id := fun e => hid (e ▸ hx)
    simp only [hx, if_true, hget x this]
  · simp [hx]

end CalicoVerif.C31
