import CalicoVerif.Proofs.C01Decl
/-! C01 helper: the RuleScanner / declared-state invariant holds along every history of the graph. -/
namespace CalicoVerif.C01
open CalicoVerif C02

variable {H : IdFn}

theorem rsInv_frame {g g' : Graph} (hi : RsInv H g) (h1 : g'.rs = g.rs) (h2 : g'.active = g.active)
    (h3 : g'.calls = g.calls) : RsInv H g' := rsInv_quietRel (QuietRel.of_eq h1 h2 h3) hi

theorem rsInv_foldl {α : Type} (f : Graph → α → Graph) (hf : ∀ g a, RsInv H g → RsInv H (f g a)) :
    ∀ (l : List α) (g : Graph), RsInv H g → RsInv H (l.foldl f g)
  | [], _, hi => hi
  | a :: l, g, hi => rsInv_foldl f hf l (f g a) (hf g a hi)

theorem rsInv_idxOp {g : Graph} (hi : RsInv H g) (op : C04.Op Str) : RsInv H (g.idxOp op) :=
  rsInv_quietRel (quietRel_idxOp g op) hi

theorem rsInv_resStep {g : Graph} (hi : RsInv H g) (e : C03.Event) : RsInv H (g.resStep e) :=
  rsInv_frame hi rfl rfl rfl

theorem rsInv_profEvents {g : Graph} (hi : RsInv H g) (evs : List (C05.Event RulesIn)) :
    RsInv H (g.profEvents H evs) := by
  unfold Graph.profEvents
  refine rsInv_foldl _ ?_ evs g hi
  intro g e hi
  cases e with
  | active p r => cases r <;> exact rsInv_scanRules hi _ _
  | inactive p => exact rsInv_scanRules hi _ _

theorem rsInv_arcProfStep {g : Graph} (hi : RsInv H g) (u : C05.Upd RulesIn) : RsInv H (g.arcProfStep H u) := by
  unfold Graph.arcProfStep
  simp only []
  have h0 : RsInv H { g with arcProf := C05.step g.arcProf u } := rsInv_frame hi rfl rfl rfl
  exact rsInv_profEvents h0 _

theorem rsInv_sendPolicyUpdate {g : Graph} (hi : RsInv H g) (n : Nat) : RsInv H (g.sendPolicyUpdate H n) := by
  unfold Graph.sendPolicyUpdate
  split
  · split
    · exact rsInv_scanRules hi _ _
    · exact rsInv_frame hi rfl rfl rfl
  · exact rsInv_scanRules hi _ _

theorem rsInv_onMatchEvent {g : Graph} (hi : RsInv H g) (e : C07.Event) : RsInv H (g.onMatchEvent H e) := by
  cases e with
  | started sel item =>
    simp only [Graph.onMatchEvent]
    have key : ∀ g1 : Graph, RsInv H g1 → RsInv H (if (!g.polActive sel) = true then g1.sendPolicyUpdate H sel else g1) := by
      intro g1 h1; split
      · exact rsInv_sendPolicyUpdate h1 sel
      · exact h1
    exact rsInv_frame (key { g with polEps := C02.sadd (sel, item) g.polEps } (rsInv_frame hi rfl rfl rfl)) rfl rfl rfl
  | stopped sel item =>
    simp only [Graph.onMatchEvent]
    have key : ∀ g1 : Graph, RsInv H g1 → RsInv H (if (!g1.polActive sel) = true then g1.sendPolicyUpdate H sel else g1) := by
      intro g1 h1; split
      · exact rsInv_sendPolicyUpdate h1 sel
      · exact h1
    exact rsInv_frame (key { g with polEps := C02.sdel (sel, item) g.polEps } (rsInv_frame hi rfl rfl rfl)) rfl rfl rfl

theorem rsInv_lblStep {g : Graph} (hi : RsInv H g) (r : C07.Idx × List C07.Event) : RsInv H (g.lblStep H r) := by
  unfold Graph.lblStep
  exact rsInv_foldl _ (fun g e hi => rsInv_onMatchEvent hi e) _ _ (rsInv_frame hi rfl rfl rfl)

theorem rsInv_arcEndpoint {g : Graph} (hi : RsInv H g) (nid : Nat) (key : EpKey) (v : Option EpVal) :
    RsInv H (g.arcEndpoint H nid key v) := by
  unfold Graph.arcEndpoint
  simp only []
  have h2 := rsInv_arcProfStep hi (.endpoint (epKeyStr key) (v.map (·.profiles)))
  cases v <;> exact rsInv_lblStep h2 _

theorem rsInv_profLabels {g : Graph} (hi : RsInv H g) (pid : String) (v : Option C04.Labels) :
    RsInv H (g.profLabels H pid v) := by
  unfold Graph.profLabels
  cases v <;> exact rsInv_idxOp (rsInv_lblStep hi _) _

theorem rsInv_arcPolicyChanged {g : Graph} (hi : RsInv H g) (nid : Nat) (pv : PolVal) :
    RsInv H (g.arcPolicyChanged H nid pv) := by
  unfold Graph.arcPolicyChanged
  simp only []
  have h1 : RsInv H { g with allPolicies := C02.mset nid pv g.allPolicies } := rsInv_frame hi rfl rfl rfl
  split
  · exact rsInv_frame h1 rfl rfl rfl
  · rename_i sel _
    have h2 := rsInv_lblStep h1 (C07.updateSelector g.lbl nid sel)
    split
    · exact rsInv_sendPolicyUpdate h2 _
    · exact h2

theorem rsInv_arcPolicy {g : Graph} (hi : RsInv H g) (nid : Nat) (v : Option PolVal) :
    RsInv H (g.arcPolicy H nid v) := by
  unfold Graph.arcPolicy
  cases v with
  | none =>
    simp only []
    have h1 : RsInv H { g with allPolicies := C02.mdel nid g.allPolicies } := rsInv_frame hi rfl rfl rfl
    exact rsInv_lblStep h1 _
  | some pv =>
    simp only []
    split
    · exact hi
    · exact rsInv_arcPolicyChanged hi nid pv

theorem rsInv_step {g : Graph} (hi : RsInv H g) (u : Upd) : RsInv H (g.step H u) := by
  cases u with
  | endpoint nid key isLocal v =>
    simp only [Graph.step]
    have h0 : RsInv H { g with epKeys := C02.mset nid key g.epKeys } := rsInv_frame hi rfl rfl rfl
    have h1 : RsInv H (if isLocal = true then
        Graph.localEndpoint H { g with epKeys := C02.mset nid key g.epKeys } nid key v
        else { g with epKeys := C02.mset nid key g.epKeys }) := by
      split
      · exact rsInv_resStep (rsInv_arcEndpoint h0 nid key v) _
      · exact h0
    unfold Graph.idxEndpoint
    cases v <;> exact rsInv_idxOp h1 _
  | netset name v =>
    simp only [Graph.step, Graph.idxNetset]
    cases v <;> exact rsInv_idxOp hi _
  | profLabels pid v => exact rsInv_profLabels hi pid v
  | profRules pid v => exact rsInv_arcProfStep hi _
  | tier name v => exact rsInv_resStep hi _
  | policy nid key v =>
    simp only [Graph.step]
    have h0 : RsInv H { g with polKeys := C02.mset nid key g.polKeys } := rsInv_frame hi rfl rfl rfl
    exact rsInv_resStep (rsInv_arcPolicy h0 nid v) _
  | passthru c key v =>
    exact rsInv_quietRel (quietRel_emit g _ (by intro x hx; simp at hx; subst hx; cases v <;> rfl)) hi
  | other => exact hi

/-- the PolicyResolver's flush only makes `OnEndpointTierUpdate` calls -/
theorem resolver_flush_quiet {r r' : C03.Resolver} {calls : List Call} (h : r.flush = some (r', calls)) :
    ∀ c ∈ calls, quietCall c = true := by
  unfold C03.Resolver.flush at h
  split at h
  · cases h; simp
  · simp only [] at h
    split at h
    · cases h
    · cases h
      intro c hc
      obtain ⟨e, _, rfl⟩ := List.mem_map.mp hc
      unfold C03.Resolver.sendEndpointUpdate
      split <;> rfl

theorem rsInv_flush {g : Graph} (hi : RsInv H g) : RsInv H g.flush.1 := by
  rw [flush_eq]
  simp only []
  have h1 : RsInv H g.flushResolver := by
    unfold Graph.flushResolver
    split
    · rename_i r calls hf
      exact rsInv_quietRel (quietRel_emit _ _ (resolver_flush_quiet hf)) (rsInv_frame hi rfl rfl rfl)
    · exact rsInv_frame hi rfl rfl rfl
  exact rsInv_frame h1 rfl rfl rfl

theorem rsInv_run : ∀ (h : List HStep) {g : Graph}, RsInv H g → RsInv H (run H g h).1
  | [], _, hi => hi
  | .upd u :: t, g, hi => by simp only [run]; exact rsInv_run t (rsInv_step hi u)
  | .inSync :: t, g, hi => by simp only [run]; exact rsInv_run t (rsInv_frame hi rfl rfl rfl)
  | .flush :: t, g, hi => by simp only [run]; exact rsInv_run t (rsInv_flush hi)

end CalicoVerif.C01
