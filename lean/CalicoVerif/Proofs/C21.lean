import CalicoVerif.Model.C21
/-! C21 — helper lemmas for Props/C21 (garbage collection, well-formedness, per-operation effects, free-queue ghost). -/
namespace CalicoVerif.C21

theorem setAll_length {α : Type} (l : List α) (idxs : List Nat) (v : α) :
    (setAll l idxs v).length = l.length := by
  unfold setAll
  induction idxs generalizing l with
  | nil => rfl
  | cons i is ih => simp [List.foldl_cons, ih]

theorem setAll_getElem? {α : Type} (l : List α) (idxs : List Nat) (v : α) (i : Nat) :
    (setAll l idxs v)[i]? = if i ∈ idxs then (l[i]?).map (fun _ => v) else l[i]? := by
  unfold setAll
  induction idxs generalizing l with
  | nil => simp
  | cons j js ih =>
    simp only [List.foldl_cons, ih, List.mem_cons]
    by_cases h1 : i ∈ js
    · simp only [h1, or_true, if_true]
      by_cases h2 : j = i
      · subst h2; by_cases h3 : j < l.length <;> simp [h3]
      · simp [List.getElem?_set_ne h2]
    · simp only [h1, or_false, if_false]
      by_cases h2 : j = i
      · subst h2; by_cases h3 : j < l.length <;> simp [h3]
      · have : ¬ i = j := fun h => h2 h.symm
        simp [List.getElem?_set_ne h2, this]

def cnt (used : Nat → Bool) (k j : Nat) : Nat := ((List.range' k j).filter used).length

theorem cnt_zero (used : Nat → Bool) (k : Nat) : cnt used k 0 = 0 := by simp [cnt]

theorem cnt_succ (used : Nat → Bool) (k j : Nat) :
    cnt used k (j + 1) = (if used k then 1 else 0) + cnt used (k + 1) j := by
  unfold cnt
  rw [List.range'_succ]
  by_cases h : used k <;> simp [List.filter_cons, h] <;> omega

theorem newIdx_eq_cnt (used : Nat → Bool) (x : Nat) : newIdx used x = cnt used 0 x := by
  simp [newIdx, cnt, List.range_eq_range']

theorem compact_get (used : Nat → Bool) (as : List Attr) (k j : Nat) (h : used (k + j) = true) :
    (compact used as k)[cnt used k j]? = as[j]? := by
  induction as generalizing k j with
  | nil => simp [compact]
  | cons a as ih =>
    cases j with
    | zero =>
      simp at h
      simp [compact, h, cnt_zero]
    | succ j =>
      have h' : used ((k + 1) + j) = true := by rw [← h]; congr 1; omega
      rw [cnt_succ]
      by_cases hk : used k
      · simp only [compact, hk, if_true]
        rw [show 1 + cnt used (k + 1) j = cnt used (k + 1) j + 1 by omega]
        simp [ih (k + 1) j h']
      · simp only [compact, hk]
        simp [ih (k + 1) j h']


/-! ### garbageCollect -/

def Block.ds (b : Block) (cd : Int) (now : Nat) : List Nat := (List.range b.n).filter (b.expired cd now)

theorem mem_ds {b : Block} {cd : Int} {now o : Nat} : o ∈ b.ds cd now ↔ o < b.n ∧ b.expired cd now o = true := by
  simp [Block.ds]

theorem gc_n (b : Block) (cd : Int) (now : Nat) : (b.gc cd now).1.n = b.n := by
  unfold Block.gc; simp only []; split <;> rfl
theorem gc_seq (b : Block) (cd : Int) (now : Nat) : (b.gc cd now).1.seq = b.seq := by
  unfold Block.gc; simp only []; split <;> rfl
theorem gc_unalloc (b : Block) (cd : Int) (now : Nat) : (b.gc cd now).1.unalloc = b.unalloc ++ b.ds cd now := by
  unfold Block.gc; simp only []; split <;> rfl
theorem gc_seqFor (b : Block) (cd : Int) (now : Nat) : (b.gc cd now).1.seqFor = setAll b.seqFor (b.ds cd now) none := by
  unfold Block.gc; simp only []; split <;> rfl
theorem gc_allocs_length (b : Block) (cd : Int) (now : Nat) : (b.gc cd now).1.allocs.length = b.allocs.length := by
  unfold Block.gc; simp only []; split <;> simp [setAll_length]

theorem expired_false_of_attrAt_none {b : Block} {cd : Int} {now o : Nat} (h : b.attrAt o = none) :
    b.expired cd now o = false := by
  simp [Block.expired, h]

/-- The effect of `garbageCollect` on what each ordinal points at: expired ordinals become free,
every other ordinal keeps exactly its attribute (the index may be renumbered). -/
theorem gc_attrAt (b : Block) (cd : Int) (now : Nat) (hlen : b.allocs.length = b.n) (o : Nat) :
    (b.gc cd now).1.attrAt o = if b.expired cd now o then none else b.attrAt o := by
  have hds : ∀ o, o ∈ (List.range b.n).filter (b.expired cd now) ↔ o < b.n ∧ b.expired cd now o = true := by
    intro o; simp
  by_cases hex : b.expired cd now o = true
  · -- expired: attrAt is some, so o < n
    have hlt : o < b.n := by
      rw [← hlen]
      by_cases hh : o < b.allocs.length
      · exact hh
      · have : b.attrAt o = none := by simp [Block.attrAt, List.getElem?_eq_none (Nat.le_of_not_lt hh)]
        rw [expired_false_of_attrAt_none this] at hex; cases hex
    have hmem := (hds o).2 ⟨hlt, hex⟩
    simp only [hex, if_true]
    unfold Block.gc; simp only []
    split
    · simp only [Block.attrAt, List.getElem?_map, setAll_getElem?, hmem, if_true]
      cases b.allocs[o]? <;> simp
    · simp only [Block.attrAt, setAll_getElem?, hmem, if_true]
      cases b.allocs[o]? <;> simp
  · have hnm : ¬ o ∈ (List.range b.n).filter (b.expired cd now) := fun h => hex ((hds o).1 h).2
    simp only [hex, Bool.false_eq_true, if_false]
    unfold Block.gc; simp only []
    split
    · simp only [Block.attrAt, List.getElem?_map, setAll_getElem?, hnm, if_false]
      cases hao : b.allocs[o]? with
      | none => simp
      | some v =>
        cases v with
        | none => simp
        | some i =>
          simp only [Option.map_some]
          rw [newIdx_eq_cnt]
          have := compact_get (fun i => (setAll b.allocs ((List.range b.n).filter (b.expired cd now)) none).contains (some i)) b.attrs 0 i
          simp only [Nat.zero_add] at this
          apply this
          simp only [List.contains_iff_mem]
          apply List.mem_of_getElem? (i := o)
          simp [setAll_getElem?, hnm, hao]
    · simp only [Block.attrAt, setAll_getElem?, hnm, if_false]


/-! ### Well-formed blocks -/

structure WF (b : Block) : Prop where
  alen : b.allocs.length = b.n
  slen : b.seqFor.length = b.n
  idx : ∀ (o i : Nat), b.allocs[o]? = some (some i) → i < b.attrs.length
  free : ∀ (o : Nat), o ∈ b.unalloc → b.allocs[o]? = some none
  nodup : b.unalloc.Nodup
  cool : ∀ a, a ∈ b.attrs → a.releasedAt.isSome = true → a.handle = none

/-- allocated and not in cooldown, with attribute `a` -/
def Block.LiveAt (b : Block) (o : Nat) (a : Attr) : Prop := b.attrAt o = some a ∧ a.releasedAt = none
/-- in cooldown since `r` -/
def Block.CoolingAt (b : Block) (o : Nat) (r : Nat) : Prop := ∃ a, b.attrAt o = some a ∧ a.releasedAt = some r
/-- free (`Allocations[o] == nil`) -/
def Block.FreeAt (b : Block) (o : Nat) : Prop := b.allocs[o]? = some none

theorem attrAt_none_of_free {b : Block} {o : Nat} (h : b.FreeAt o) : b.attrAt o = none := by
  unfold Block.FreeAt at h
  simp [Block.attrAt, h]

theorem attrAt_lt {b : Block} {o : Nat} {a : Attr} (h : b.attrAt o = some a) : o < b.allocs.length := by
  by_cases hh : o < b.allocs.length
  · exact hh
  · simp [Block.attrAt, List.getElem?_eq_none (Nat.le_of_not_lt hh)] at h

/-! ### findOrAddAttribute -/

theorem findOrAdd_new (attrs : List Attr) (a : Attr) : (findOrAdd attrs a).1[(findOrAdd attrs a).2]? = some a := by
  unfold findOrAdd
  cases h : attrs.findIdx? (fun x => x == a) with
  | none => simp
  | some i =>
    simp only []
    rw [List.findIdx?_eq_some_iff_getElem] at h
    obtain ⟨hlt, hx, _⟩ := h
    simp at hx
    simp [hlt, hx]

theorem findOrAdd_old (attrs : List Attr) (a : Attr) (i : Nat) (hi : i < attrs.length) :
    (findOrAdd attrs a).1[i]? = attrs[i]? := by
  unfold findOrAdd
  cases h : attrs.findIdx? (fun x => x == a) with
  | none => simp [List.getElem?_append_left hi]
  | some i => rfl

theorem findOrAdd_lt (attrs : List Attr) (a : Attr) : (findOrAdd attrs a).2 < (findOrAdd attrs a).1.length := by
  have := findOrAdd_new attrs a
  by_cases hh : (findOrAdd attrs a).2 < (findOrAdd attrs a).1.length
  · exact hh
  · rw [List.getElem?_eq_none (Nat.le_of_not_lt hh)] at this; cases this

theorem findOrAdd_len (attrs : List Attr) (a : Attr) : attrs.length ≤ (findOrAdd attrs a).1.length := by
  unfold findOrAdd
  cases h : attrs.findIdx? (fun x => x == a) <;> simp

/-! ### the autoAssign loop -/

theorem autoLoop_perm (rsv : List Nat) (k : Nat) (us : List Nat) :
    ((autoLoop rsv k us).1 ++ (autoLoop rsv k us).2).Perm us := by
  induction us generalizing k with
  | nil => cases k <;> simp [autoLoop]
  | cons o us ih =>
    cases k with
    | zero => simp [autoLoop]
    | succ k =>
      simp only [autoLoop]
      split
      · simp only []
        exact (List.perm_middle).trans ((ih (k + 1)).cons o)
      · simp only [List.cons_append]
        exact (ih k).cons o

theorem autoLoop_kept_sublist (rsv : List Nat) (k : Nat) (us : List Nat) :
    (autoLoop rsv k us).2.Sublist us := by
  induction us generalizing k with
  | nil => cases k <;> simp [autoLoop]
  | cons o us ih =>
    cases k with
    | zero => simp [autoLoop]
    | succ k =>
      simp only [autoLoop]
      split
      · exact (ih (k + 1)).cons₂ o
      · exact (ih k).cons o

/-- FIFO core: under any relation that holds along the queue, every address taken is related to
every non-reserved address left behind. -/
theorem autoLoop_fifo (R : Nat → Nat → Prop) (rsv : List Nat) (k : Nat) (us : List Nat)
    (hp : us.Pairwise R) :
    ∀ y ∈ (autoLoop rsv k us).1, ∀ x ∈ (autoLoop rsv k us).2, rsv.contains x = false → R y x := by
  induction us generalizing k with
  | nil => cases k <;> simp [autoLoop]
  | cons o us ih =>
    rw [List.pairwise_cons] at hp
    cases k with
    | zero => simp [autoLoop]
    | succ k =>
      simp only [autoLoop]
      split
      · rename_i hr
        intro y hy x hx hnr
        simp only [List.mem_cons] at hx
        rcases hx with rfl | hx
        · rw [hr] at hnr; cases hnr
        · exact ih (k + 1) hp.2 y hy x hx hnr
      · intro y hy x hx hnr
        simp only [List.mem_cons] at hy
        have hxus : x ∈ us := (autoLoop_kept_sublist rsv k us).subset hx
        rcases hy with rfl | hy
        · exact hp.1 x hxus
        · exact ih k hp.2 y hy x hx hnr

theorem autoLoop_taken_not_reserved (rsv : List Nat) (k : Nat) (us : List Nat) :
    ∀ y ∈ (autoLoop rsv k us).1, rsv.contains y = false := by
  induction us generalizing k with
  | nil => cases k <;> simp [autoLoop]
  | cons o us ih =>
    cases k with
    | zero => simp [autoLoop]
    | succ k =>
      simp only [autoLoop]
      split
      · exact ih (k + 1)
      · rename_i hr
        intro y hy
        simp only [List.mem_cons] at hy
        rcases hy with rfl | hy
        · simpa using hr
        · exact ih k y hy


/-! ### garbageCollect preserves well-formedness -/

theorem compact_mem (used : Nat → Bool) (as : List Attr) (k : Nat) (a : Attr) (h : a ∈ compact used as k) : a ∈ as := by
  induction as generalizing k with
  | nil => simp [compact] at h
  | cons x xs ih =>
    simp only [compact] at h
    split at h
    · simp only [List.mem_cons] at h ⊢
      rcases h with h | h
      · exact Or.inl h
      · exact Or.inr (ih _ h)
    · exact List.mem_cons_of_mem _ (ih _ h)

theorem gc_attrs_mem (b : Block) (cd : Int) (now : Nat) (a : Attr) (h : a ∈ (b.gc cd now).1.attrs) : a ∈ b.attrs := by
  unfold Block.gc at h; simp only [] at h
  split at h
  · exact compact_mem _ _ _ _ h
  · exact h

/-- Shape of `Allocations` after a garbage collection. -/
theorem gc_allocs_get (b : Block) (cd : Int) (now : Nat) :
    ∃ f : Nat → Nat, ∀ o : Nat, (b.gc cd now).1.allocs[o]? =
      if o ∈ b.ds cd now then (b.allocs[o]?).map (fun _ => none) else (b.allocs[o]?).map (Option.map f) := by
  unfold Block.gc Block.ds; simp only []
  split
  · refine ⟨newIdx (fun i => (setAll b.allocs ((List.range b.n).filter (b.expired cd now)) none).contains (some i)), fun o => ?_⟩
    simp only [List.getElem?_map, setAll_getElem?]
    split
    · cases b.allocs[o]? <;> simp
    · rfl
  · refine ⟨id, fun o => ?_⟩
    simp only [setAll_getElem?]
    split
    · rfl
    · cases b.allocs[o]? <;> simp

theorem gc_WF {b : Block} (cd : Int) (now : Nat) (h : WF b) : WF (b.gc cd now).1 := by
  have hnotds : ∀ o : Nat, b.allocs[o]? = some none → o ∉ b.ds cd now := by
    intro o ho hm
    have := (mem_ds.1 hm).2
    rw [expired_false_of_attrAt_none (attrAt_none_of_free ho)] at this; cases this
  obtain ⟨f, hf⟩ := gc_allocs_get b cd now
  refine ⟨?_, ?_, ?_, ?_, ?_, ?_⟩
  · rw [gc_allocs_length, gc_n]; exact h.alen
  · rw [gc_seqFor, setAll_length, gc_n]; exact h.slen
  · intro o i hoi
    have hat : (b.gc cd now).1.attrAt o = (b.gc cd now).1.attrs[i]? := by simp [Block.attrAt, hoi]
    rw [gc_attrAt b cd now h.alen] at hat
    rw [hf o] at hoi
    by_cases hm : o ∈ b.ds cd now
    · simp only [hm, if_true] at hoi
      cases hb : b.allocs[o]? <;> simp [hb] at hoi
    · simp only [hm, if_false] at hoi
      have hex : b.expired cd now o = false := by
        cases hb : b.allocs[o]? with
        | none => simp [hb] at hoi
        | some v =>
          have : o < b.n := by
            rw [← h.alen]
            by_cases hh : o < b.allocs.length
            · exact hh
            · rw [List.getElem?_eq_none (Nat.le_of_not_lt hh)] at hb; cases hb
          cases hx : b.expired cd now o
          · rfl
          · exact absurd (mem_ds.2 ⟨this, hx⟩) hm
      simp only [hex, Bool.false_eq_true, if_false] at hat
      -- attrAt b o is some (by WF), hence attrs'[i]? is some
      cases hb : b.allocs[o]? with
      | none => simp [hb] at hoi
      | some v =>
        cases v with
        | none => simp [hb] at hoi
        | some j =>
          have hj := h.idx o j hb
          have : b.attrAt o = b.attrs[j]? := by simp [Block.attrAt, hb]
          rw [this, List.getElem?_eq_getElem hj] at hat
          by_cases hh : i < (b.gc cd now).1.attrs.length
          · exact hh
          · rw [List.getElem?_eq_none (Nat.le_of_not_lt hh)] at hat; cases hat
  · intro o ho
    rw [gc_unalloc, List.mem_append] at ho
    rw [hf o]
    rcases ho with ho | ho
    · have hfree := h.free o ho
      have := hnotds o hfree
      simp [this, hfree]
    · have hlt := (mem_ds.1 ho).1
      rw [← h.alen] at hlt
      simp [ho, List.getElem?_eq_getElem hlt]
  · rw [gc_unalloc, List.nodup_append]
    refine ⟨h.nodup, (List.nodup_range).filter _, ?_⟩
    intro a ha c hc hac
    subst hac
    exact hnotds a (h.free a ha) hc
  · intro a ha; exact h.cool a (gc_attrs_mem b cd now a ha)

theorem gc_free_iff {b : Block} (cd : Int) (now : Nat) (o : Nat) :
    (b.gc cd now).1.FreeAt o ↔ (o ∈ b.ds cd now ∧ o < b.allocs.length) ∨ (o ∉ b.ds cd now ∧ b.FreeAt o) := by
  obtain ⟨f, hf⟩ := gc_allocs_get b cd now
  unfold Block.FreeAt
  rw [hf o]
  by_cases hm : o ∈ b.ds cd now
  · simp only [hm, if_true, true_and, not_true, false_and, or_false]
    by_cases hh : o < b.allocs.length
    · simp [List.getElem?_eq_getElem hh, hh]
    · simp [List.getElem?_eq_none (Nat.le_of_not_lt hh), hh]
  · simp only [hm, if_false, false_and, false_or, not_false_eq_true, true_and]
    cases hb : b.allocs[o]? with
    | none => simp
    | some v => cases v <;> simp


/-! ### markCooldown (addCooldownAttribute + redirect) -/

def coolAttr (now : Nat) : Attr := { handle := none, owner := 0, releasedAt := some now }

theorem mc_n (b : Block) (now : Nat) (ords : List Nat) (s : Bool) : (b.markCooldown now ords s).n = b.n := rfl
theorem mc_unalloc (b : Block) (now : Nat) (ords : List Nat) (s : Bool) : (b.markCooldown now ords s).unalloc = b.unalloc := rfl
theorem mc_seq (b : Block) (now : Nat) (ords : List Nat) (s : Bool) : (b.markCooldown now ords s).seq = b.seq := rfl
theorem mc_allocs (b : Block) (now : Nat) (ords : List Nat) (s : Bool) :
    (b.markCooldown now ords s).allocs = setAll b.allocs ords (some b.attrs.length) := rfl
theorem mc_attrs (b : Block) (now : Nat) (ords : List Nat) (s : Bool) :
    (b.markCooldown now ords s).attrs = b.attrs ++ [coolAttr now] := rfl

theorem mc_attrAt {b : Block} (h : WF b) (now : Nat) (ords : List Nat) (s : Bool)
    (hall : ∀ o ∈ ords, ∃ i : Nat, b.allocs[o]? = some (some i)) (o : Nat) :
    (b.markCooldown now ords s).attrAt o = if o ∈ ords then some (coolAttr now) else b.attrAt o := by
  simp only [Block.attrAt, mc_allocs, mc_attrs, setAll_getElem?]
  by_cases hm : o ∈ ords
  · obtain ⟨i, hi⟩ := hall o hm
    simp [hm, hi]
  · simp only [hm, if_false]
    cases hb : b.allocs[o]? with
    | none => rfl
    | some v =>
      cases v with
      | none => rfl
      | some i => simp [List.getElem?_append_left (h.idx o i hb)]

theorem mc_WF {b : Block} (h : WF b) (now : Nat) (ords : List Nat) (s : Bool)
    (hall : ∀ o ∈ ords, ∃ i : Nat, b.allocs[o]? = some (some i)) : WF (b.markCooldown now ords s) := by
  refine ⟨?_, ?_, ?_, ?_, ?_, ?_⟩
  · rw [mc_allocs, setAll_length, mc_n]; exact h.alen
  · unfold Block.markCooldown Block.addCooldown; simp only []
    split
    · rw [setAll_length]; exact h.slen
    · exact h.slen
  · intro o i hoi
    rw [mc_allocs, setAll_getElem?] at hoi
    rw [mc_attrs]
    simp only [List.length_append, List.length_singleton]
    by_cases hm : o ∈ ords
    · obtain ⟨j, hj⟩ := hall o hm
      simp [hm, hj] at hoi; omega
    · simp only [hm, if_false] at hoi
      have := h.idx o i hoi; omega
  · intro o ho
    rw [mc_unalloc] at ho
    have hf := h.free o ho
    rw [mc_allocs, setAll_getElem?]
    have : o ∉ ords := by
      intro hm; obtain ⟨j, hj⟩ := hall o hm; rw [hf] at hj; cases hj
    simp [this, hf]
  · exact h.nodup
  · intro a ha hr
    rw [mc_attrs, List.mem_append] at ha
    rcases ha with ha | ha
    · exact h.cool a ha hr
    · simp only [List.mem_singleton] at ha; subst ha; rfl

/-! ### autoAssign -/

def newAttr (h : Option Handle) (owner : Nat) : Attr := { handle := h, owner := owner, releasedAt := none }

theorem aa_result (b : Block) (num : Nat) (h : Option Handle) (owner : Nat) (rsv : List Nat) :
    (b.autoAssign num h owner rsv).2 = (autoLoop rsv num b.unalloc).1 := by
  unfold Block.autoAssign; simp only []
  split
  · rename_i he; exact he.symm
  · rfl

theorem aa_unalloc (b : Block) (num : Nat) (h : Option Handle) (owner : Nat) (rsv : List Nat) :
    (b.autoAssign num h owner rsv).1.unalloc = (autoLoop rsv num b.unalloc).2 := by
  unfold Block.autoAssign; simp only []
  split <;> rfl

theorem aa_disjoint {b : Block} (hw : WF b) (num : Nat) (rsv : List Nat) (o : Nat)
    (h1 : o ∈ (autoLoop rsv num b.unalloc).1) (h2 : o ∈ (autoLoop rsv num b.unalloc).2) : False := by
  have hp := autoLoop_perm rsv num b.unalloc
  have hn : ((autoLoop rsv num b.unalloc).1 ++ (autoLoop rsv num b.unalloc).2).Nodup := hp.nodup_iff.2 hw.nodup
  rw [List.nodup_append] at hn
  exact hn.2.2 o h1 o h2 rfl

theorem aa_taken_free {b : Block} (hw : WF b) (num : Nat) (rsv : List Nat) (o : Nat)
    (h1 : o ∈ (autoLoop rsv num b.unalloc).1) : b.allocs[o]? = some none :=
  hw.free o ((autoLoop_perm rsv num b.unalloc).subset (List.mem_append_left _ h1))

theorem aa_attrAt {b : Block} (hw : WF b) (num : Nat) (h : Option Handle) (owner : Nat) (rsv : List Nat) (o : Nat) :
    (b.autoAssign num h owner rsv).1.attrAt o =
      if o ∈ (b.autoAssign num h owner rsv).2 then some (newAttr h owner) else b.attrAt o := by
  rw [aa_result]
  unfold Block.autoAssign; simp only []
  split
  · rename_i he; simp [he, Block.attrAt]
  · rename_i hne
    simp only [Block.attrAt, setAll_getElem?]
    by_cases hm : o ∈ (autoLoop rsv num b.unalloc).1
    · have := aa_taken_free hw num rsv o hm
      simp only [hm, if_true, this, Option.map_some]
      exact findOrAdd_new _ _
    · simp only [hm, if_false]
      cases hb : b.allocs[o]? with
      | none => rfl
      | some v =>
        cases v with
        | none => rfl
        | some i => exact findOrAdd_old _ _ i (hw.idx o i hb)

theorem findOrAdd_mem (attrs : List Attr) (a x : Attr) (h : x ∈ (findOrAdd attrs a).1) : x ∈ attrs ∨ x = a := by
  unfold findOrAdd at h
  cases hf : attrs.findIdx? (fun x => x == a) with
  | none => simp [hf] at h; exact h
  | some i => simp [hf] at h; exact Or.inl h

theorem aa_WF {b : Block} (hw : WF b) (num : Nat) (h : Option Handle) (owner : Nat) (rsv : List Nat) :
    WF (b.autoAssign num h owner rsv).1 := by
  have hsub := autoLoop_kept_sublist rsv num b.unalloc
  unfold Block.autoAssign; simp only []
  split
  · exact ⟨hw.alen, hw.slen, hw.idx, fun o ho => hw.free o (hsub.subset ho), hsub.nodup hw.nodup, hw.cool⟩
  · rename_i hne
    refine ⟨?_, ?_, ?_, ?_, ?_, ?_⟩
    · simp only [setAll_length]; exact hw.alen
    · simp only [setAll_length]; exact hw.slen
    · intro o i hoi
      simp only [setAll_getElem?] at hoi
      by_cases hm : o ∈ (autoLoop rsv num b.unalloc).1
      · have := aa_taken_free hw num rsv o hm
        simp [hm, this] at hoi
        rw [← hoi]; exact findOrAdd_lt _ _
      · simp only [hm, if_false] at hoi
        exact Nat.lt_of_lt_of_le (hw.idx o i hoi) (findOrAdd_len _ _)
    · intro o ho
      simp only [] at ho
      have hnm : o ∉ (autoLoop rsv num b.unalloc).1 := fun hm => aa_disjoint hw num rsv o hm ho
      simp only [setAll_getElem?, hnm, if_false]
      exact hw.free o (hsub.subset ho)
    · exact hsub.nodup hw.nodup
    · intro a ha hr
      rcases findOrAdd_mem _ _ _ ha with ha | ha
      · exact hw.cool a ha hr
      · subst ha; simp at hr

/-! ### assign -/

def assignOkBlock (b : Block) (o : Nat) (h : Option Handle) (owner : Nat) : Block :=
  { b with seqFor := b.seqFor.set o (some b.seq),
           attrs := (findOrAdd b.attrs (newAttr h owner)).1,
           allocs := b.allocs.set o (some (findOrAdd b.attrs (newAttr h owner)).2),
           unalloc := b.unalloc.erase o }

theorem assign_cases (b : Block) (o : Nat) (h : Option Handle) (owner : Nat) :
    (o ≥ b.n ∧ b.assign o h owner = (b, .range)) ∨
    (o < b.n ∧ (∃ i : Nat, b.allocs[o]? = some (some i)) ∧
        b.assign o h owner = ({ b with seqFor := b.seqFor.set o (some b.seq) }, .exists)) ∨
    (o < b.n ∧ (∀ i : Nat, b.allocs[o]? ≠ some (some i)) ∧ b.assign o h owner = (assignOkBlock b o h owner, .ok)) := by
  unfold Block.assign assignOkBlock newAttr
  by_cases hlt : o ≥ b.n
  · left; simp [hlt]
  · right
    simp only [hlt, if_false]
    cases hb : b.allocs[o]? with
    | none => right; exact ⟨by omega, by simp, rfl⟩
    | some v =>
      cases v with
      | none => right; exact ⟨by omega, by simp, rfl⟩
      | some i => left; exact ⟨by omega, ⟨i, rfl⟩, rfl⟩

theorem assign_attrAt {b : Block} (hw : WF b) (o : Nat) (h : Option Handle) (owner : Nat) (o' : Nat) :
    (b.assign o h owner).1.attrAt o' =
      if (b.assign o h owner).2 = .ok ∧ o' = o then some (newAttr h owner) else b.attrAt o' := by
  rcases assign_cases b o h owner with ⟨_, hc⟩ | ⟨_, _, hc⟩ | ⟨hlt, hno, hc⟩
  · rw [hc]; simp
  · rw [hc]; simp [Block.attrAt]
  · rw [hc]
    simp only [Block.attrAt, assignOkBlock, true_and]
    by_cases he : o' = o
    · subst he
      have : o' < b.allocs.length := by rw [hw.alen]; omega
      simp only [if_true, List.getElem?_set_self this]
      exact findOrAdd_new _ _
    · simp only [he, if_false]
      rw [List.getElem?_set_ne (fun hh => he hh.symm)]
      cases hb : b.allocs[o']? with
      | none => rfl
      | some v =>
        cases v with
        | none => rfl
        | some i => exact findOrAdd_old _ _ i (hw.idx o' i hb)

theorem assign_unalloc_sublist (b : Block) (o : Nat) (h : Option Handle) (owner : Nat) :
    (b.assign o h owner).1.unalloc.Sublist b.unalloc := by
  rcases assign_cases b o h owner with ⟨_, hc⟩ | ⟨_, _, hc⟩ | ⟨hlt, hno, hc⟩
  · rw [hc]; exact List.Sublist.refl _
  · rw [hc]; exact List.Sublist.refl _
  · rw [hc]; exact List.erase_sublist

theorem assign_WF {b : Block} (hw : WF b) (o : Nat) (h : Option Handle) (owner : Nat) :
    WF (b.assign o h owner).1 := by
  rcases assign_cases b o h owner with ⟨_, hc⟩ | ⟨_, _, hc⟩ | ⟨hlt, hno, hc⟩
  · rw [hc]; exact hw
  · rw [hc]; exact ⟨hw.alen, by simp [hw.slen], hw.idx, hw.free, hw.nodup, hw.cool⟩
  · rw [hc]
    have hol : o < b.allocs.length := by rw [hw.alen]; omega
    refine ⟨by simp [assignOkBlock, hw.alen], by simp [assignOkBlock, hw.slen], ?_, ?_, ?_, ?_⟩
    · intro o' i hoi
      simp only [assignOkBlock] at hoi ⊢
      by_cases he : o' = o
      · subst he
        rw [List.getElem?_set_self hol] at hoi
        simp at hoi; rw [← hoi]; exact findOrAdd_lt _ _
      · rw [List.getElem?_set_ne (fun hh => he hh.symm)] at hoi
        exact Nat.lt_of_lt_of_le (hw.idx o' i hoi) (findOrAdd_len _ _)
    · intro o' ho'
      simp only [assignOkBlock] at ho' ⊢
      have := (hw.nodup.mem_erase_iff).1 ho'
      rw [List.getElem?_set_ne (fun hh => this.1 hh.symm)]
      exact hw.free o' this.2
    · exact hw.nodup.erase _
    · intro a ha hr
      rcases findOrAdd_mem _ _ _ ha with ha | ha
      · exact hw.cool a ha hr
      · subst ha; simp [newAttr] at hr


/-! ### release -/

theorem verdict2_rel {b : Block} {x : ROpt} {h : Handle} (hv : b.verdict2 x = .rel h) :
    ∃ a, b.attrAt x.ord = some a ∧ a.releasedAt = none ∧ (x.handle = [] ∨ a.hid = x.handle) ∧ h = a.hid := by
  unfold Block.verdict2 at hv
  cases ha : b.attrAt x.ord with
  | none => simp [ha] at hv
  | some a =>
    simp only [ha] at hv
    cases hr : a.releasedAt with
    | some r => simp [hr] at hv
    | none =>
      simp only [hr, Option.isSome_none, Bool.false_eq_true, if_false] at hv
      by_cases hc : (x.handle != [] && a.hid != x.handle) = true
      · simp [hc] at hv
      · have hc' : (x.handle != [] && a.hid != x.handle) = false := by simpa using hc
        rw [hc'] at hv
        simp only [Bool.false_eq_true, if_false, OptVerdict.rel.injEq] at hv
        refine ⟨a, rfl, hr, ?_, hv.symm⟩
        by_cases hx : x.handle = []
        · exact Or.inl hx
        · right
          simp only [Bool.and_eq_true, bne_iff_ne, ne_eq, not_and, Decidable.not_not] at hc
          exact hc hx

theorem verdict_rel {b : Block} {x : ROpt} {h : Handle} (hv : b.verdict x = .rel h) :
    x.ord < b.n ∧ (∀ s, x.seq = some s → s = b.getSeq x.ord) ∧
    ∃ a, b.attrAt x.ord = some a ∧ a.releasedAt = none ∧ (x.handle = [] ∨ a.hid = x.handle) ∧ h = a.hid := by
  unfold Block.verdict at hv
  by_cases hlt : x.ord ≥ b.n
  · simp [hlt] at hv
  · simp only [hlt, if_false] at hv
    cases hs : x.seq with
    | none =>
      simp only [hs] at hv
      exact ⟨by omega, (by intro s hs'; cases hs'), verdict2_rel hv⟩
    | some s =>
      simp only [hs] at hv
      by_cases hne : (s != b.getSeq x.ord) = true
      · simp [hne] at hv
      · simp only [hne, if_false] at hv
        refine ⟨by omega, ?_, verdict2_rel hv⟩
        intro s' hs'; cases hs'
        simpa using hne

def Block.relOrds (b : Block) (opts : List ROpt) : List Nat := (relsOf (b.verdicts opts)).map (·.1)

theorem mem_relOrds {b : Block} {opts : List ROpt} {o : Nat} :
    o ∈ b.relOrds opts ↔ ∃ x ∈ dedupe opts, x.ord = o ∧ ∃ h, b.verdict x = .rel h := by
  unfold Block.relOrds relsOf Block.verdicts
  simp only [List.mem_map, List.mem_filterMap, Prod.exists]
  constructor
  · rintro ⟨o', h, ⟨x, v, ⟨x', hx', hxe⟩, hm⟩, rfl⟩
    simp only [Prod.mk.injEq] at hxe
    obtain ⟨rfl, rfl⟩ := hxe
    cases hv : b.verdict x' with
    | err e => simp [hv] at hm
    | skip => simp [hv] at hm
    | rel h' =>
      simp only [hv, Option.some.injEq, Prod.mk.injEq] at hm
      exact ⟨x', hx', hm.1, h', hv⟩
  · rintro ⟨x, hx, rfl, h, hv⟩
    exact ⟨x.ord, h, ⟨x, .rel h, ⟨x, hx, by simp [hv]⟩, by simp⟩, rfl⟩

theorem relOrds_allocated {b : Block} {opts : List ROpt} :
    ∀ o ∈ b.relOrds opts, ∃ i : Nat, b.allocs[o]? = some (some i) := by
  intro o ho
  obtain ⟨x, _, rfl, h, hv⟩ := mem_relOrds.1 ho
  obtain ⟨_, _, a, ha, _⟩ := verdict_rel hv
  unfold Block.attrAt at ha
  split at ha
  · rename_i i hi; exact ⟨i, hi⟩
  · cases ha

theorem release_cases (b : Block) (cd : Int) (now : Nat) (opts : List ROpt) :
    (∃ p ∈ b.verdicts opts, p.2.isErr = true ∧ (b.release cd now opts).1 = b ∧ ∃ e, (b.release cd now opts).2 = .err e) ∨
    ((∀ p ∈ b.verdicts opts, p.2.isErr = false) ∧ b.relOrds opts = [] ∧
        b.release cd now opts = (b, .ok (skippedOf (b.verdicts opts)) (relsOf (b.verdicts opts)))) ∨
    ((∀ p ∈ b.verdicts opts, p.2.isErr = false) ∧ b.relOrds opts ≠ [] ∧
        b.release cd now opts = (((b.markCooldown now (b.relOrds opts) true).gc cd now).1,
          .ok (skippedOf (b.verdicts opts)) (relsOf (b.verdicts opts)))) := by
  unfold Block.release Block.relOrds
  simp only []
  cases hf : (b.verdicts opts).find? (fun p => p.2.isErr) with
  | some p =>
    left
    have := List.find?_some hf
    exact ⟨p, List.mem_of_find?_eq_some hf, this, rfl, _, rfl⟩
  | none =>
    right
    have hne : ∀ p ∈ b.verdicts opts, p.2.isErr = false := by
      intro p hp
      have := List.find?_eq_none.1 hf p hp
      simpa using this
    by_cases he : (relsOf (b.verdicts opts)).map (·.1) = []
    · left; refine ⟨hne, he, ?_⟩; simp [he]
    · right; refine ⟨hne, he, ?_⟩
      have : ((relsOf (b.verdicts opts)).map (·.1)).isEmpty = false := by
        cases hh : (relsOf (b.verdicts opts)).map (·.1) with
        | nil => exact absurd hh he
        | cons _ _ => rfl
      simp [this]

theorem release_WF {b : Block} (hw : WF b) (cd : Int) (now : Nat) (opts : List ROpt) :
    WF (b.release cd now opts).1 := by
  rcases release_cases b cd now opts with ⟨_, _, _, hb, _⟩ | ⟨_, _, hc⟩ | ⟨_, _, hc⟩
  · rw [hb]; exact hw
  · rw [hc]; exact hw
  · rw [hc]; exact gc_WF cd now (mc_WF hw now _ true relOrds_allocated)

/-! ### releaseByHandle -/

theorem mem_attrIdxs {b : Block} {h : Handle} {i : Nat} :
    i ∈ b.attrIdxsByHandle h ↔ ∃ a x, b.attrs[i]? = some a ∧ a.handle = some x ∧ sanitize x = h := by
  unfold Block.attrIdxsByHandle
  simp only [List.mem_filter, List.mem_range]
  constructor
  · rintro ⟨hlt, hm⟩
    cases ha : b.attrs[i]? with
    | none => simp [ha] at hm
    | some a =>
      cases hh : a.handle with
      | none => simp [ha, hh] at hm
      | some x => simp [ha, hh] at hm; exact ⟨a, x, rfl, hh, hm⟩
  · rintro ⟨a, x, ha, hh, hs⟩
    refine ⟨?_, by simp [ha, hh, hs]⟩
    by_cases hlt : i < b.attrs.length
    · exact hlt
    · rw [List.getElem?_eq_none (Nat.le_of_not_lt hlt)] at ha; cases ha

theorem mem_relhOrds {b : Block} {h : Handle} {seq : Option Nat} {o : Nat} :
    o ∈ b.relhOrds h seq ↔ o < b.n ∧ (∃ a x, b.attrAt o = some a ∧ a.handle = some x ∧ sanitize x = h) ∧
      (∀ s, seq = some s → s = b.getSeq o) := by
  unfold Block.relhOrds
  simp only [List.mem_filter, List.mem_range]
  constructor
  · rintro ⟨hlt, hm⟩
    cases hb : b.allocs[o]? with
    | none => simp [hb] at hm
    | some v =>
      cases v with
      | none => simp [hb] at hm
      | some i =>
        simp only [hb, Bool.and_eq_true, List.contains_iff_mem] at hm
        obtain ⟨a, x, ha, hh, hs⟩ := mem_attrIdxs.1 hm.1
        refine ⟨hlt, ⟨a, x, by simp [Block.attrAt, hb, ha], hh, hs⟩, ?_⟩
        intro s hs'; subst hs'; simpa using hm.2
  · rintro ⟨hlt, ⟨a, x, ha, hh, hs⟩, hq⟩
    refine ⟨hlt, ?_⟩
    unfold Block.attrAt at ha
    cases hb : b.allocs[o]? with
    | none => simp [hb] at ha
    | some v =>
      cases v with
      | none => simp [hb] at ha
      | some i =>
        simp only [hb] at ha
        simp only [Bool.and_eq_true, List.contains_iff_mem]
        refine ⟨mem_attrIdxs.2 ⟨a, x, ha, hh, hs⟩, ?_⟩
        cases seq with
        | none => rfl
        | some s => simp [hq s rfl]

theorem relhOrds_allocated {b : Block} {h : Handle} {seq : Option Nat} :
    ∀ o ∈ b.relhOrds h seq, ∃ i : Nat, b.allocs[o]? = some (some i) := by
  intro o ho
  obtain ⟨_, ⟨a, _, ha, _⟩, _⟩ := mem_relhOrds.1 ho
  unfold Block.attrAt at ha
  split at ha
  · rename_i i hi; exact ⟨i, hi⟩
  · cases ha

theorem relh_cases (b : Block) (cd : Int) (now : Nat) (h : Handle) (seq : Option Nat) :
    (b.attrIdxsByHandle h = [] ∧ b.releaseByHandle cd now h seq = (b, 0)) ∨
    (b.relhOrds h seq = [] ∧ b.releaseByHandle cd now h seq = ((b.gc cd now).1, 0)) ∨
    (b.relhOrds h seq ≠ [] ∧ b.releaseByHandle cd now h seq =
        (((b.markCooldown now (b.relhOrds h seq) false).gc cd now).1, (b.relhOrds h seq).length)) := by
  unfold Block.releaseByHandle
  cases hi : b.attrIdxsByHandle h with
  | nil => left; simp
  | cons i is =>
    right
    simp only [List.isEmpty_cons, Bool.false_eq_true, if_false]
    cases ho : b.relhOrds h seq with
    | nil => left; simp
    | cons o os => right; simp

theorem relhOrds_nil_of_idxs_nil {b : Block} {h : Handle} {seq : Option Nat} (hi : b.attrIdxsByHandle h = []) :
    b.relhOrds h seq = [] := by
  unfold Block.relhOrds
  rw [hi]
  apply List.filter_eq_nil_iff.2
  intro o _
  cases hb : b.allocs[o]? with
  | none => simp
  | some v => cases v <;> simp

theorem relh_WF {b : Block} (hw : WF b) (cd : Int) (now : Nat) (h : Handle) (seq : Option Nat) :
    WF (b.releaseByHandle cd now h seq).1 := by
  rcases relh_cases b cd now h seq with ⟨_, hc⟩ | ⟨_, hc⟩ | ⟨_, hc⟩
  · rw [hc]; exact hw
  · rw [hc]; exact gc_WF cd now hw
  · rw [hc]; exact gc_WF cd now (mc_WF hw now _ false relhOrds_allocated)

/-! ### histories -/

theorem step_WF {s : St} (hw : WF s.blk) (op : Op) : WF (step s op).blk := by
  cases op with
  | bump => exact ⟨hw.alen, hw.slen, hw.idx, hw.free, hw.nodup, hw.cool⟩
  | tick d => exact hw
  | gc cd => exact gc_WF cd s.now hw
  | auto num h owner rsv => exact aa_WF hw num h owner rsv
  | assign o h owner => exact assign_WF hw o h owner
  | release cd opts => exact release_WF hw cd s.now opts
  | relh cd h seq => exact relh_WF hw cd s.now h seq

theorem run_WF {s : St} (hw : WF s.blk) (ops : List Op) : WF (run s ops).blk := by
  induction ops generalizing s with
  | nil => exact hw
  | cons op ops ih => exact ih (step_WF hw op)

theorem step_now_le (s : St) (op : Op) : s.now ≤ (step s op).now := by
  cases op <;> simp [step]

/-- every cooldown-taking operation of the history uses cooldown `c` -/
def Op.usesCd (c : Int) : Op → Prop
  | .gc cd => cd = c
  | .release cd _ => cd = c
  | .relh cd _ _ => cd = c
  | _ => True

theorem gc_cooling {b : Block} (hlen : b.allocs.length = b.n) {o r : Nat} (hc : b.CoolingAt o r) (c : Int) (hc0 : 0 ≤ c) (now : Nat) :
    (b.gc c now).1.CoolingAt o r ∨ (r : Int) + c ≤ now := by
  obtain ⟨a, ha, hr⟩ := hc
  by_cases hex : b.expired c now o = true
  · right
    unfold Block.expired at hex
    simp only [ha, hr, ge_iff_le, hc0, if_true, decide_eq_true_eq] at hex
    exact hex
  · left
    refine ⟨a, ?_, hr⟩
    rw [gc_attrAt b c now hlen]; simp [hex, ha]

theorem gc_live {b : Block} (hlen : b.allocs.length = b.n) {o : Nat} {a : Attr} (hl : b.LiveAt o a) (c : Int) (now : Nat) :
    (b.gc c now).1.LiveAt o a := by
  refine ⟨?_, hl.2⟩
  rw [gc_attrAt b c now hlen]
  have : b.expired c now o = false := by simp [Block.expired, hl.1, hl.2]
  simp [this, hl.1]

/-- One step keeps an address in cooldown (with the same release time) unless its cooldown has passed. -/
theorem cooling_step {s : St} (hw : WF s.blk) {c : Int} (hc0 : 0 ≤ c) {op : Op} (hop : op.usesCd c) {o r : Nat}
    (h : s.blk.CoolingAt o r ∨ (r : Int) + c ≤ s.now) :
    (step s op).blk.CoolingAt o r ∨ (r : Int) + c ≤ (step s op).now := by
  rcases h with h | h
  · obtain ⟨a, ha, hr⟩ := h
    cases op with
    | bump => left; exact ⟨a, ha, hr⟩
    | tick d => left; exact ⟨a, ha, hr⟩
    | gc cd =>
      simp only [Op.usesCd] at hop; subst hop
      exact gc_cooling hw.alen ⟨a, ha, hr⟩ cd hc0 s.now
    | auto num hd owner rsv =>
      left; refine ⟨a, ?_, hr⟩
      simp only [step]
      rw [aa_attrAt hw, aa_result]
      have : o ∉ (autoLoop rsv num s.blk.unalloc).1 := by
        intro hm
        have := attrAt_none_of_free (aa_taken_free hw num rsv o hm)
        rw [this] at ha; cases ha
      simp [this, ha]
    | assign o' hd owner =>
      left; refine ⟨a, ?_, hr⟩
      simp only [step]
      rw [assign_attrAt hw]
      have : ¬ ((s.blk.assign o' hd owner).2 = .ok ∧ o = o') := by
        rintro ⟨hok, rfl⟩
        rcases assign_cases s.blk o hd owner with ⟨_, hcs⟩ | ⟨_, _, hcs⟩ | ⟨_, hno, hcs⟩
        · rw [hcs] at hok; cases hok
        · rw [hcs] at hok; cases hok
        · unfold Block.attrAt at ha
          cases hb : s.blk.allocs[o]? with
          | none => simp [hb] at ha
          | some v =>
            cases v with
            | none => simp [hb] at ha
            | some i => exact hno i hb
      simp [this, ha]
    | release cd opts =>
      simp only [Op.usesCd] at hop; subst hop
      simp only [step]
      rcases release_cases s.blk cd s.now opts with ⟨_, _, _, hb, _⟩ | ⟨_, _, hcs⟩ | ⟨_, _, hcs⟩
      · left; rw [hb]; exact ⟨a, ha, hr⟩
      · left; rw [hcs]; exact ⟨a, ha, hr⟩
      · rw [hcs]
        have hwm := mc_WF hw s.now (s.blk.relOrds opts) true relOrds_allocated
        apply gc_cooling hwm.alen _ cd hc0 s.now
        refine ⟨a, ?_, hr⟩
        rw [mc_attrAt hw _ _ _ relOrds_allocated]
        have : o ∉ s.blk.relOrds opts := by
          intro hm
          obtain ⟨x, _, rfl, h', hv⟩ := mem_relOrds.1 hm
          obtain ⟨_, _, a', ha', hr', _⟩ := verdict_rel hv
          rw [ha] at ha'; cases ha'; rw [hr] at hr'; cases hr'
        simp [this, ha]
    | relh cd hd seq =>
      simp only [Op.usesCd] at hop; subst hop
      simp only [step]
      rcases relh_cases s.blk cd s.now hd seq with ⟨_, hcs⟩ | ⟨_, hcs⟩ | ⟨_, hcs⟩
      · left; rw [hcs]; exact ⟨a, ha, hr⟩
      · rw [hcs]; exact gc_cooling hw.alen ⟨a, ha, hr⟩ cd hc0 s.now
      · rw [hcs]
        have hwm := mc_WF hw s.now (s.blk.relhOrds hd seq) false relhOrds_allocated
        apply gc_cooling hwm.alen _ cd hc0 s.now
        refine ⟨a, ?_, hr⟩
        rw [mc_attrAt hw _ _ _ relhOrds_allocated]
        have : o ∉ s.blk.relhOrds hd seq := by
          intro hm
          obtain ⟨_, ⟨a', x, ha', hh, _⟩, _⟩ := mem_relhOrds.1 hm
          rw [ha] at ha'; cases ha'
          have hmem : a ∈ s.blk.attrs := by
            unfold Block.attrAt at ha
            split at ha
            · exact List.mem_of_getElem? ha
            · cases ha
          have := hw.cool a hmem (by simp [hr])
          rw [this] at hh; cases hh
        simp [this, ha]
  · right
    have := step_now_le s op
    omega

theorem cooling_run {s : St} (hw : WF s.blk) {c : Int} (hc0 : 0 ≤ c) (ops : List Op) (hops : ∀ op ∈ ops, op.usesCd c) {o r : Nat}
    (h : s.blk.CoolingAt o r ∨ (r : Int) + c ≤ s.now) :
    (run s ops).blk.CoolingAt o r ∨ (r : Int) + c ≤ (run s ops).now := by
  induction ops generalizing s with
  | nil => exact h
  | cons op ops ih =>
    exact ih (step_WF hw op) (fun op' hm => hops op' (List.mem_cons_of_mem _ hm))
      (cooling_step hw hc0 (hops op (List.mem_cons_self ..)) h)


/-! ### the free queue: shape of one step, ghost "entered at step" stamps -/

theorem gc_unalloc_shape {b : Block} (hw : WF b) (cd : Int) (now : Nat) :
    ∃ ds, (b.gc cd now).1.unalloc = b.unalloc ++ ds ∧ ds.Pairwise (· < ·) ∧ ∀ o ∈ ds, o ∉ b.unalloc := by
  refine ⟨b.ds cd now, gc_unalloc b cd now, List.Pairwise.filter _ List.pairwise_lt_range, ?_⟩
  intro o ho hu
  have := (gc_WF cd now hw).nodup
  rw [gc_unalloc, List.nodup_append] at this
  exact this.2.2 o hu o ho rfl

theorem step_unalloc_shape {s : St} (hw : WF s.blk) (op : Op) :
    ∃ sub ds, (step s op).blk.unalloc = sub ++ ds ∧ sub.Sublist s.blk.unalloc ∧ ds.Pairwise (· < ·) ∧
      ∀ o ∈ ds, o ∉ s.blk.unalloc := by
  have same : ∃ sub ds, s.blk.unalloc = sub ++ ds ∧ sub.Sublist s.blk.unalloc ∧ ds.Pairwise (· < ·) ∧
      ∀ o ∈ ds, o ∉ s.blk.unalloc := ⟨s.blk.unalloc, [], by simp, List.Sublist.refl _, List.Pairwise.nil, by simp⟩
  cases op with
  | bump => exact same
  | tick d => exact same
  | gc cd =>
    obtain ⟨ds, h1, h2, h3⟩ := gc_unalloc_shape hw cd s.now
    exact ⟨s.blk.unalloc, ds, h1, List.Sublist.refl _, h2, h3⟩
  | auto num h owner rsv =>
    refine ⟨(autoLoop rsv num s.blk.unalloc).2, [], ?_, autoLoop_kept_sublist _ _ _, List.Pairwise.nil, by simp⟩
    simp only [step, aa_unalloc, List.append_nil]
  | assign o h owner =>
    exact ⟨(s.blk.assign o h owner).1.unalloc, [], by simp [step], assign_unalloc_sublist _ _ _ _, List.Pairwise.nil, by simp⟩
  | release cd opts =>
    simp only [step]
    rcases release_cases s.blk cd s.now opts with ⟨_, _, _, hb, _⟩ | ⟨_, _, hcs⟩ | ⟨_, _, hcs⟩
    · rw [hb]; exact same
    · rw [hcs]; exact same
    · rw [hcs]
      obtain ⟨ds, h1, h2, h3⟩ := gc_unalloc_shape (mc_WF hw s.now (s.blk.relOrds opts) true relOrds_allocated) cd s.now
      exact ⟨s.blk.unalloc, ds, h1, List.Sublist.refl _, h2, h3⟩
  | relh cd h seq =>
    simp only [step]
    rcases relh_cases s.blk cd s.now h seq with ⟨_, hcs⟩ | ⟨_, hcs⟩ | ⟨_, hcs⟩
    · rw [hcs]; exact same
    · rw [hcs]
      obtain ⟨ds, h1, h2, h3⟩ := gc_unalloc_shape hw cd s.now
      exact ⟨s.blk.unalloc, ds, h1, List.Sublist.refl _, h2, h3⟩
    · rw [hcs]
      obtain ⟨ds, h1, h2, h3⟩ := gc_unalloc_shape (mc_WF hw s.now (s.blk.relhOrds h seq) false relhOrds_allocated) cd s.now
      exact ⟨s.blk.unalloc, ds, h1, List.Sublist.refl _, h2, h3⟩

/-- Ghost-instrumented history: `entered o` = index of the step at which `o` last entered the
free queue (`0` = it is there since the block was created). The instrumentation only observes. -/
structure G where
  st : St
  entered : Nat → Nat
  stepNo : Nat

def gstep (g : G) (op : Op) : G :=
  { st := step g.st op
    stepNo := g.stepNo + 1
    entered := fun o => if o ∈ (step g.st op).blk.unalloc ∧ o ∉ g.st.blk.unalloc then g.stepNo + 1 else g.entered o }

def grun (g : G) (ops : List Op) : G := ops.foldl gstep g
def ginit (s : St) : G := { st := s, entered := fun _ => 0, stepNo := 0 }

theorem grun_st (g : G) (ops : List Op) : (grun g ops).st = run g.st ops := by
  induction ops generalizing g with
  | nil => rfl
  | cons op ops ih => simp only [grun, run, List.foldl_cons] at ih ⊢; rw [ih]; rfl

/-- `y` has been free longer than `x`: it entered the queue at an earlier step, or at the same
step (same garbage-collection pass / both since creation) and has the lower ordinal. -/
def G.before (g : G) (y x : Nat) : Prop := g.entered y < g.entered x ∨ (g.entered y = g.entered x ∧ y < x)

structure GInv (g : G) : Prop where
  wf : WF g.st.blk
  sorted : g.st.blk.unalloc.Pairwise g.before
  bound : ∀ o ∈ g.st.blk.unalloc, g.entered o ≤ g.stepNo

theorem gstep_inv {g : G} (hi : GInv g) (op : Op) : GInv (gstep g op) := by
  obtain ⟨sub, ds, hsh, hsub, hds, hdis⟩ := step_unalloc_shape hi.wf op
  have hsubmem : ∀ o ∈ sub, o ∈ g.st.blk.unalloc := fun o ho => hsub.subset ho
  have hent_sub : ∀ o ∈ sub, (gstep g op).entered o = g.entered o := by
    intro o ho; simp [gstep, hsubmem o ho]
  have hent_ds : ∀ o ∈ ds, (gstep g op).entered o = g.stepNo + 1 := by
    intro o ho
    have h1 : o ∈ (step g.st op).blk.unalloc := by rw [hsh]; exact List.mem_append_right _ ho
    simp [gstep, h1, hdis o ho]
  refine ⟨step_WF hi.wf op, ?_, ?_⟩
  · show (step g.st op).blk.unalloc.Pairwise (gstep g op).before
    rw [hsh, List.pairwise_append]
    refine ⟨?_, ?_, ?_⟩
    · refine List.Pairwise.imp_of_mem ?_ (hi.sorted.sublist hsub)
      intro a b ha hb hab
      unfold G.before at hab ⊢
      rw [hent_sub a ha, hent_sub b hb]; exact hab
    · refine List.Pairwise.imp_of_mem ?_ hds
      intro a b ha hb hab
      right; rw [hent_ds a ha, hent_ds b hb]; exact ⟨rfl, hab⟩
    · intro a ha b hb
      left; rw [hent_sub a ha, hent_ds b hb]
      have := hi.bound a (hsubmem a ha); omega
  · intro o ho
    show (gstep g op).entered o ≤ g.stepNo + 1
    change o ∈ (step g.st op).blk.unalloc at ho
    rw [hsh, List.mem_append] at ho
    rcases ho with ho | ho
    · rw [hent_sub o ho]; have := hi.bound o (hsubmem o ho); omega
    · rw [hent_ds o ho]; omega

theorem grun_inv {g : G} (hi : GInv g) (ops : List Op) : GInv (grun g ops) := by
  induction ops generalizing g with
  | nil => exact hi
  | cons op ops ih => exact ih (gstep_inv hi op)

theorem newBlock_WF (n seq0 : Nat) : WF (newBlock n seq0 none) := by
  refine ⟨by simp [newBlock], by simp [newBlock], ?_, ?_, List.nodup_range, by simp [newBlock]⟩
  · intro o i h
    simp only [newBlock, List.getElem?_replicate] at h
    split at h <;> cases h
  · intro o ho
    simp only [newBlock, List.mem_range] at ho
    simp [newBlock, List.getElem?_replicate, ho]

theorem ginit_inv (n seq0 t : Nat) : GInv (ginit { blk := newBlock n seq0 none, now := t }) := by
  refine ⟨newBlock_WF n seq0, ?_, by simp [ginit]⟩
  show (List.range n).Pairwise _
  refine List.Pairwise.imp ?_ List.pairwise_lt_range
  intro a b hab; right; exact ⟨rfl, hab⟩

/-! ### sequence numbers under the client's discipline (read+gc, operate, `SequenceNumber++`, write) -/

/-- every stored per-ordinal sequence number is `≤` the block's -/
def Block.SeqLe (b : Block) : Prop := ∀ (o v : Nat), b.seqFor[o]? = some (some v) → v ≤ b.seq
/-- … is `<` the block's (holds for every block a client has written) -/
def Block.SeqLt (b : Block) : Prop := ∀ (o v : Nat), b.seqFor[o]? = some (some v) → v < b.seq

theorem setAll_seqLe {l : List (Option Nat)} {q : Nat} (idxs : List Nat) (v : Option Nat)
    (h : ∀ (o w : Nat), l[o]? = some (some w) → w ≤ q) (hv : ∀ w, v = some w → w ≤ q) :
    ∀ (o w : Nat), (setAll l idxs v)[o]? = some (some w) → w ≤ q := by
  intro o w how
  rw [setAll_getElem?] at how
  split at how
  · cases hl : l[o]? with
    | none => simp [hl] at how
    | some x => simp [hl] at how; exact hv w how
  · exact h o w how

theorem aa_seq (b : Block) (num : Nat) (h : Option Handle) (owner : Nat) (rsv : List Nat) :
    (b.autoAssign num h owner rsv).1.seq = b.seq := by
  unfold Block.autoAssign; simp only []; split <;> rfl

theorem aa_seqFor (b : Block) (num : Nat) (h : Option Handle) (owner : Nat) (rsv : List Nat) :
    (b.autoAssign num h owner rsv).1.seqFor = setAll b.seqFor (b.autoAssign num h owner rsv).2 (some b.seq) := by
  rw [aa_result]
  unfold Block.autoAssign; simp only []
  split
  · rename_i he; simp [he, setAll]
  · rfl

theorem assign_seq (b : Block) (o : Nat) (h : Option Handle) (owner : Nat) : (b.assign o h owner).1.seq = b.seq := by
  rcases assign_cases b o h owner with ⟨_, hc⟩ | ⟨_, _, hc⟩ | ⟨_, _, hc⟩ <;> rw [hc] <;> rfl

theorem release_seq (b : Block) (cd : Int) (now : Nat) (opts : List ROpt) : (b.release cd now opts).1.seq = b.seq := by
  rcases release_cases b cd now opts with ⟨_, _, _, hb, _⟩ | ⟨_, _, hc⟩ | ⟨_, _, hc⟩
  · rw [hb]
  · rw [hc]
  · rw [hc, gc_seq, mc_seq]

theorem relh_seq (b : Block) (cd : Int) (now : Nat) (h : Handle) (q : Option Nat) : (b.releaseByHandle cd now h q).1.seq = b.seq := by
  rcases relh_cases b cd now h q with ⟨_, hc⟩ | ⟨_, hc⟩ | ⟨_, hc⟩
  · rw [hc]
  · rw [hc, gc_seq]
  · rw [hc, gc_seq, mc_seq]

theorem gc_seqLe {b : Block} (h : b.SeqLe) (cd : Int) (now : Nat) : (b.gc cd now).1.SeqLe := by
  unfold Block.SeqLe
  rw [gc_seq, gc_seqFor]
  exact setAll_seqLe _ none h (by intro w hw; cases hw)

theorem mc_seqLe {b : Block} (h : b.SeqLe) (now : Nat) (ords : List Nat) (s : Bool) : (b.markCooldown now ords s).SeqLe := by
  unfold Block.SeqLe
  rw [mc_seq]
  unfold Block.markCooldown Block.addCooldown; simp only []
  split
  · exact setAll_seqLe _ _ h (by intro w hw; cases hw; exact Nat.le_refl _)
  · exact h

/-- every operation other than the bump keeps `SeqLe`; the block's own sequence number only moves at a bump -/
theorem step_seqLe {s : St} (h : s.blk.SeqLe) (op : Op) : (step s op).blk.SeqLe := by
  cases op with
  | bump => intro o v hov; have := h o v hov; simp only [step]; omega
  | tick d => exact h
  | gc cd => exact gc_seqLe h cd s.now
  | auto num hd owner rsv =>
    unfold Block.SeqLe
    simp only [step]
    rw [aa_seq, aa_seqFor]
    exact setAll_seqLe _ _ h (by intro w hw; cases hw; exact Nat.le_refl _)
  | assign o hd owner =>
    simp only [step]
    rcases assign_cases s.blk o hd owner with ⟨_, hc⟩ | ⟨_, _, hc⟩ | ⟨_, _, hc⟩
    · rw [hc]; exact h
    · rw [hc]; intro o' v hov
      simp only [] at hov ⊢
      by_cases he : o = o'
      · subst he
        by_cases hl : o < s.blk.seqFor.length
        · rw [List.getElem?_set_self hl] at hov; cases hov; exact Nat.le_refl _
        · rw [List.getElem?_eq_none (by simp; omega)] at hov; cases hov
      · rw [List.getElem?_set_ne he] at hov; exact h o' v hov
    · rw [hc]; intro o' v hov
      simp only [assignOkBlock] at hov ⊢
      by_cases he : o = o'
      · subst he
        by_cases hl : o < s.blk.seqFor.length
        · rw [List.getElem?_set_self hl] at hov; cases hov; exact Nat.le_refl _
        · rw [List.getElem?_eq_none (by simp; omega)] at hov; cases hov
      · rw [List.getElem?_set_ne he] at hov; exact h o' v hov
  | release cd opts =>
    simp only [step]
    rcases release_cases s.blk cd s.now opts with ⟨_, _, _, hb, _⟩ | ⟨_, _, hc⟩ | ⟨_, _, hc⟩
    · rw [hb]; exact h
    · rw [hc]; exact h
    · rw [hc]; exact gc_seqLe (mc_seqLe h _ _ _) cd s.now
  | relh cd hd q =>
    simp only [step]
    rcases relh_cases s.blk cd s.now hd q with ⟨_, hc⟩ | ⟨_, hc⟩ | ⟨_, hc⟩
    · rw [hc]; exact h
    · rw [hc]; exact gc_seqLe h cd s.now
    · rw [hc]; exact gc_seqLe (mc_seqLe h _ _ _) cd s.now

theorem step_seq_ge (s : St) (op : Op) : s.blk.seq ≤ (step s op).blk.seq := by
  cases op with
  | bump => simp [step]
  | tick d => exact Nat.le_refl _
  | gc cd => simp [step, gc_seq]
  | auto num hd owner rsv => simp [step, aa_seq]
  | assign o hd owner => simp [step, assign_seq]
  | release cd opts => simp [step, release_seq]
  | relh cd hd q => simp [step, relh_seq]

/-- One client-level operation on a block: read it and garbage collect (`blockFromBackend`), apply
`op`, and either write it back with `SequenceNumber++` (`commit`) or drop the in-memory copy. -/
def cstep (s : St) (c : Int × Op × Bool) : St :=
  if c.2.2 then step (step (step s (.gc c.1)) c.2.1) .bump else s

def crun (s : St) (cs : List (Int × Op × Bool)) : St := cs.foldl cstep s

theorem cstep_WF {s : St} (hw : WF s.blk) (c : Int × Op × Bool) : WF (cstep s c).blk := by
  unfold cstep; split
  · exact step_WF (step_WF (step_WF hw _) _) _
  · exact hw

theorem cstep_seqLt {s : St} (h : s.blk.SeqLt) (c : Int × Op × Bool) : (cstep s c).blk.SeqLt := by
  unfold cstep; split
  · have h0 : s.blk.SeqLe := fun o v hov => Nat.le_of_lt (h o v hov)
    have h2 := step_seqLe (step_seqLe h0 (.gc c.1)) c.2.1
    intro o v hov
    have hv : v ≤ (step (step s (.gc c.1)) c.2.1).blk.seq := h2 o v hov
    show v < (step (step s (.gc c.1)) c.2.1).blk.seq + 1
    omega
  · exact h

theorem cstep_seq_ge (s : St) (c : Int × Op × Bool) : s.blk.seq ≤ (cstep s c).blk.seq := by
  unfold cstep; split
  · exact Nat.le_trans (Nat.le_trans (step_seq_ge s _) (step_seq_ge _ _)) (step_seq_ge _ _)
  · exact Nat.le_refl _

theorem crun_inv {s : St} (hw : WF s.blk) (h : s.blk.SeqLt) (cs : List (Int × Op × Bool)) :
    WF (crun s cs).blk ∧ (crun s cs).blk.SeqLt ∧ s.blk.seq ≤ (crun s cs).blk.seq := by
  induction cs generalizing s with
  | nil => exact ⟨hw, h, Nat.le_refl _⟩
  | cons c cs ih =>
    have := ih (cstep_WF hw c) (cstep_seqLt h c)
    exact ⟨this.1, this.2.1, Nat.le_trans (cstep_seq_ge s c) this.2.2⟩

/-- the sequence number stamped on an address handed out by `autoAssign` is the block's current one -/
theorem aa_getSeq {b : Block} (hw : WF b) (num : Nat) (h : Option Handle) (owner : Nat) (rsv : List Nat) (o : Nat)
    (ho : o ∈ (b.autoAssign num h owner rsv).2) : (b.autoAssign num h owner rsv).1.getSeq o = b.seq := by
  have hfree : b.allocs[o]? = some none := by
    rw [aa_result] at ho; exact aa_taken_free hw num rsv o ho
  have hlt : o < b.seqFor.length := by
    rw [hw.slen, ← hw.alen]
    by_cases hh : o < b.allocs.length
    · exact hh
    · rw [List.getElem?_eq_none (Nat.le_of_not_lt hh)] at hfree; cases hfree
  unfold Block.getSeq
  rw [aa_seqFor, setAll_getElem?]
  simp [ho, List.getElem?_eq_getElem hlt]

theorem assign_ok_getSeq {b : Block} (hw : WF b) (o : Nat) (h : Option Handle) (owner : Nat)
    (hok : (b.assign o h owner).2 = .ok) : (b.assign o h owner).1.getSeq o = b.seq := by
  rcases assign_cases b o h owner with ⟨_, hc⟩ | ⟨_, _, hc⟩ | ⟨hlt, _, hc⟩
  · rw [hc] at hok; cases hok
  · rw [hc] at hok; cases hok
  · rw [hc]
    have : o < b.seqFor.length := by rw [hw.slen]; exact hlt
    simp [Block.getSeq, assignOkBlock, List.getElem?_set_self this]

/-! ### `empty()` — the gate of block deletion -/

theorem isEmpty_attr {b : Block} (h : b.isEmpty = true) (o : Nat) (a : Attr) (ha : b.attrAt o = some a) :
    ∃ hd, a.handle = some hd ∧ lowerH hd = windowsReservedHandle := by
  unfold Block.isEmpty at h
  rw [List.all_eq_true] at h
  unfold Block.attrAt at ha
  cases hb : b.allocs[o]? with
  | none => simp [hb] at ha
  | some v =>
    cases v with
    | none => simp [hb] at ha
    | some i =>
      simp only [hb] at ha
      have := h (some i) (List.mem_of_getElem? hb)
      simp only [ha] at this
      cases hh : a.handle with
      | none => simp [hh] at this
      | some hd => simp [hh] at this; exact ⟨hd, rfl, this⟩

end CalicoVerif.C21
