import CalicoVerif.Proofs.C11Comp
import CalicoVerif.Proofs.C11Split
import CalicoVerif.Proofs.C11Asm
/-!
C11 — long-jump trampolines (`Block.writeTrampoline`) preserve the label-level semantics.

A trampoline is `JumpA skip; (t: JumpA t)*; skip:` inserted between two instructions: the
fall-through path jumps over it, and a jump to `t` from before it lands on the relay, which
jumps on to the next definition of `t`.  The lemma is about ANY insertion of such blocks
(`Relayed`), whatever the bookkeeping that decided where to put them and for which labels.
-/
namespace CalicoVerif.C11

def Label.isSkip : Label → Bool
  | .skipTrampoline _ => true
  | _ => false

def relays (ts : List Label) : List Ev := ts.flatMap (fun l => [Ev.label l, jumpA l])

def trampBlock (idx : Nat) (ts : List Label) : List Ev :=
  jumpA (.skipTrampoline idx) :: (relays ts ++ [.label (.skipTrampoline idx)])

theorem trampolineEvs_eq (idx : Nat) (fix : List Label) : trampolineEvs idx fix = trampBlock idx (sortLabels fix) := rfl

/-- `n` is `o` with trampoline blocks inserted in front of some events (never in front of the second
slot of a `LoadImm64`, never for a skip label). -/
inductive Relayed : List Ev → List Ev → Prop
  | nil : Relayed [] []
  | cons (e : Ev) {o n : List Ev} : Relayed o n → Relayed (e :: o) (e :: n)
  | tramp (idx : Nat) (ts : List Label) (e : Ev) {o n : List Ev} :
      (∀ t ∈ ts, t.isSkip = false) → (∀ j, e = .ins j → j.op ≠ opLoadImm64Pt2) →
      Relayed o n → Relayed (e :: o) (trampBlock idx ts ++ e :: n)

theorem Relayed.append {o1 n1 o2 n2 : List Ev} (h1 : Relayed o1 n1) (h2 : Relayed o2 n2) :
    Relayed (o1 ++ o2) (n1 ++ n2) := by
  induction h1 with
  | nil => exact h2
  | cons e _ ih => exact .cons e ih
  | tramp idx ts e hts he _ ih =>
    have := Relayed.tramp idx ts e hts he ih
    simpa [List.append_assoc] using this

theorem Relayed.refl (o : List Ev) : Relayed o o := by
  induction o with
  | nil => exact .nil
  | cons e es ih => exact .cons e ih

theorem lrun_jumpA (env : Env) (l : Label) (r : List Ev) (m : Mach) :
    lrun env (jumpA l :: r) m = goto env l r m := by
  unfold jumpA
  exact lrun_jmp_taken (by simp [Insn.isJumpOp, opJumpA]) (step_jumpA env 0 0 none m)

theorem labelsOf_relays (ts : List Label) : labelsOf (relays ts) = ts := by
  induction ts with
  | nil => rfl
  | cons t ts ih =>
    have : relays (t :: ts) = Ev.label t :: jumpA t :: relays ts := rfl
    rw [this]
    simp only [labelsOf, jumpA, ih]

theorem goto_relays (env : Env) (l : Label) (rest : List Ev) (m : Mach) :
    ∀ ts : List Label, goto env l (relays ts ++ rest) m = goto env l rest m := by
  intro ts
  induction ts with
  | nil => rfl
  | cons t ts ih =>
    have : relays (t :: ts) ++ rest = Ev.label t :: jumpA t :: (relays ts ++ rest) := rfl
    rw [this]
    by_cases h : t = l
    · subst h
      rw [goto_label_self, lrun_jumpA, ih]
    · rw [goto_cons_label_ne env _ m h]
      unfold jumpA
      rw [goto_cons_jmp, ih]

theorem lrun_trampBlock (env : Env) (idx : Nat) (ts : List Label) (n : List Ev) (m : Mach)
    (hts : ∀ t ∈ ts, t.isSkip = false) : lrun env (trampBlock idx ts ++ n) m = lrun env n m := by
  have : trampBlock idx ts ++ n = jumpA (.skipTrampoline idx) :: (relays ts ++ (Ev.label (.skipTrampoline idx) :: n)) := by
    simp [trampBlock]
  rw [this, lrun_jumpA, goto_append _ m (by
    rw [labelsOf_relays]
    intro hm
    have := hts _ hm
    simp [Label.isSkip] at this), goto_label_self]

theorem goto_trampBlock (env : Env) (idx : Nat) (ts : List Label) (n : List Ev) (m : Mach) (l : Label)
    (hl : l.isSkip = false) : goto env l (trampBlock idx ts ++ n) m = goto env l n m := by
  have : trampBlock idx ts ++ n = jumpA (.skipTrampoline idx) :: (relays ts ++ (Ev.label (.skipTrampoline idx) :: n)) := by
    simp [trampBlock]
  rw [this]
  unfold jumpA
  rw [goto_cons_jmp, goto_relays, goto_cons_label_ne env _ m (by intro e; rw [← e] at hl; simp [Label.isSkip] at hl)]

/-- No jump of the original program targets a trampoline-skip label. -/
def NoSkipJ (o : List Ev) : Prop := ∀ i l, Ev.jmp i l ∈ o → l.isSkip = false

theorem NoSkipJ.tail {e : Ev} {o : List Ev} (h : NoSkipJ (e :: o)) : NoSkipJ o :=
  fun i l hm => h i l (List.mem_cons_of_mem _ hm)

theorem relayed_nextIns {o n : List Ev} (h : Relayed o n) :
    nextIns n = nextIns o ∨ (nextIns n = none ∧ ∀ j, nextIns o = some j → j.op ≠ opLoadImm64Pt2) := by
  cases h with
  | nil => exact Or.inl rfl
  | cons e _ => exact Or.inl (by cases e <;> rfl)
  | tramp idx ts e hts he _ =>
    refine Or.inr ⟨rfl, ?_⟩
    intro j hj
    cases e with
    | ins j' => simp only [nextIns, Option.some.injEq] at hj; subst hj; exact he _ rfl
    | jmp _ _ => simp [nextIns] at hj
    | label _ => simp [nextIns] at hj

theorem relayed_head_ins {o n : List Ev} {j : Insn} (h : Relayed o n) (hn : nextIns n = some j) :
    ∃ o' n', o = .ins j :: o' ∧ n = .ins j :: n' ∧ Relayed o' n' := by
  cases h with
  | nil => simp [nextIns] at hn
  | cons e h' =>
    cases e with
    | ins j' => simp only [nextIns, Option.some.injEq] at hn; subst hn; exact ⟨_, _, rfl, rfl, h'⟩
    | jmp _ _ => simp [nextIns] at hn
    | label _ => simp [nextIns] at hn
  | tramp idx ts e hts he _ => simp [nextIns, trampBlock, jumpA] at hn

theorem step_nxt_irrel (env : Env) (i : Insn) (m : Mach) (n1 n2 : Option Insn)
    (h : n1 = n2 ∨ (n1 = none ∧ ∀ j, n2 = some j → j.op ≠ opLoadImm64Pt2)) :
    step env i n1 m = step env i n2 m := by
  rcases h with rfl | ⟨rfl, h2⟩
  · rfl
  · by_cases hop : i.op = opLoadImm64
    · unfold step
      simp only [if_pos hop]
      cases n2 with
      | none => rfl
      | some j => simp [h2 j rfl]
    · unfold step
      simp only [if_neg hop]

theorem lrun_ins_eq (env : Env) (i : Insn) (r : List Ev) (m : Mach) :
    lrun env (.ins i :: r) m =
      match step env i (nextIns r) m with
      | .next m' => lrun env r m'
      | .next2 m' => lrun env (r.drop 1) m'
      | .taken _ => .fault
      | .exit r0 m' => .exit r0 m'
      | .tail fd idx m' => .tail fd idx m'
      | .fault => .fault := by
  rw [lrun]
  cases step env i (nextIns r) m <;> rfl

theorem lrun_jmp_eq (env : Env) (i : Insn) (l : Label) (r : List Ev) (m : Mach) :
    lrun env (.jmp i l :: r) m =
      if !i.isJumpOp then .fault else
      match step env i none m with
      | .next m' => lrun env r m'
      | .taken m' => goto env l r m'
      | _ => .fault := by
  rw [lrun]
  by_cases hj : i.isJumpOp = true
  · simp only [hj, Bool.not_true, Bool.false_eq_true, if_false]
    cases step env i none m <;> simp only [goto]
    split <;> (rename_i h; simp [h])
  · simp [hj]

/-- **Trampolines preserve the semantics**: running, and jumping into, the relayed list is the same
as for the original one. -/
theorem relayed_sound (env : Env) :
    ∀ (k : Nat) (o n : List Ev), n.length ≤ k → Relayed o n → NoSkipJ o →
      (∀ m, lrun env n m = lrun env o m) ∧ (∀ l, l.isSkip = false → ∀ m, goto env l n m = goto env l o m) := by
  intro k
  induction k using Nat.strongRecOn with
  | _ k ih =>
    intro o n hk hrel hns
    cases hrel with
    | nil => exact ⟨fun _ => rfl, fun _ _ _ => rfl⟩
    | cons e hrel' =>
      rename_i o' n'
      have hlen : n'.length < k := by simp only [List.length_cons] at hk; omega
      obtain ⟨L', G'⟩ := ih n'.length hlen o' n' (Nat.le_refl _) hrel' hns.tail
      refine ⟨?_, ?_⟩
      · intro m
        cases e with
        | label l => rw [lrun_label, lrun_label]; exact L' m
        | ins i =>
          rw [lrun_ins_eq, lrun_ins_eq, step_nxt_irrel env i m _ _ (relayed_nextIns hrel')]
          cases hs : step env i (nextIns o') m with
          | next m' => exact L' m'
          | next2 m' =>
            -- the second slot is there in both lists
            obtain ⟨_, j, hj, _⟩ := step_next2 hs
            have hn : nextIns n' = some j := by
              rcases relayed_nextIns hrel' with h | ⟨_, h2⟩
              · rw [h, hj]
              · exact absurd (by obtain ⟨_, j', hj', hp⟩ := step_next2 hs; rw [hj'] at hj; cases hj; exact hp) (h2 j hj)
            obtain ⟨o'', n'', rfl, rfl, hr''⟩ := relayed_head_ins hrel' hn
            have hlen2 : n''.length < k := by simp only [List.length_cons] at hlen; omega
            obtain ⟨L'', _⟩ := ih n''.length hlen2 o'' n'' (Nat.le_refl _) hr'' hns.tail.tail
            simpa using L'' m'
          | taken _ => rfl
          | «exit» _ _ => rfl
          | tail _ _ _ => rfl
          | fault => rfl
        | jmp i l =>
          have hl : l.isSkip = false := hns i l (List.mem_cons_self)
          rw [lrun_jmp_eq, lrun_jmp_eq]
          split
          · rfl
          · cases step env i none m with
            | next m' => exact L' m'
            | taken m' => exact G' l hl m'
            | next2 _ => rfl
            | «exit» _ _ => rfl
            | tail _ _ _ => rfl
            | fault => rfl
      · intro l hl m
        cases e with
        | label l' =>
          by_cases h : l' = l
          · subst h; rw [goto_label_self, goto_label_self]; exact L' m
          · rw [goto_cons_label_ne env _ m h, goto_cons_label_ne env _ m h]; exact G' l hl m
        | ins i => rw [goto_cons_ins, goto_cons_ins]; exact G' l hl m
        | jmp i l' => rw [goto_cons_jmp, goto_cons_jmp]; exact G' l hl m
    | tramp idx ts e hts he hrel' =>
      rename_i o' n'
      have hlen : (e :: n').length < k := by
        simp only [List.length_append, trampBlock, List.length_cons] at hk ⊢; omega
      obtain ⟨L', G'⟩ := ih (e :: n').length hlen (e :: o') (e :: n') (Nat.le_refl _) (.cons e hrel') hns
      refine ⟨?_, ?_⟩
      · intro m; rw [lrun_trampBlock env idx ts _ m hts]; exact L' m
      · intro l hl m; rw [goto_trampBlock env idx ts _ m l hl]; exact G' l hl m


/-! ### `Block.maybeWriteTrampoline` produces a relayed list -/

theorem mem_insertLabel (x l : Label) (ls : List Label) : x ∈ insertLabel l ls ↔ x = l ∨ x ∈ ls := by
  induction ls with
  | nil => simp [insertLabel]
  | cons y ys ih =>
    unfold insertLabel
    split
    · simp
    · simp only [List.mem_cons, ih]
      constructor
      · rintro (h | h | h)
        · exact Or.inr (Or.inl h)
        · exact Or.inl h
        · exact Or.inr (Or.inr h)
      · rintro (h | h | h)
        · exact Or.inr (Or.inl h)
        · exact Or.inl h
        · exact Or.inr (Or.inr h)

theorem mem_sortLabels (x : Label) (ls : List Label) : x ∈ sortLabels ls ↔ x ∈ ls := by
  unfold sortLabels
  induction ls with
  | nil => simp
  | cons y ys ih => simp only [List.foldr_cons, mem_insertLabel, ih, List.mem_cons]

theorem raw_fix (b : BlockSt) (e : Ev) (l : Label) (h : l ∈ (b.raw e).fix) :
    l ∈ b.fix ∨ ∃ i, e = .jmp i l := by
  cases e with
  | label l' =>
    simp only [BlockSt.raw, List.mem_filter] at h
    exact Or.inl h.1
  | ins i =>
    simp only [BlockSt.raw] at h
    split at h <;> exact Or.inl h
  | jmp i l' =>
    simp only [BlockSt.raw] at h
    split at h
    · simp only at h
      split at h
      · exact Or.inl h
      · rcases List.mem_cons.1 h with rfl | h'
        · exact Or.inr ⟨i, rfl⟩
        · exact Or.inl h'
    · exact Or.inl h

theorem raw_fix_label (b : BlockSt) (l' l : Label) (h : l ∈ (b.raw (.label l')).fix) : l ∈ b.fix ∧ l ≠ l' := by
  simp only [BlockSt.raw, List.mem_filter, bne_iff_ne, ne_eq] at h
  exact h

theorem foldl_raw_out (es : List Ev) : ∀ b : BlockSt, (es.foldl BlockSt.raw b).out = es.reverse ++ b.out := by
  induction es with
  | nil => intro b; rfl
  | cons e es ih => intro b; rw [List.foldl_cons, ih, raw_out]; simp

theorem foldl_raw_fix (es : List Ev) : ∀ (b : BlockSt) (l : Label), l ∈ (es.foldl BlockSt.raw b).fix →
    l ∈ b.fix ∨ ∃ i, Ev.jmp i l ∈ es := by
  induction es with
  | nil => intro b l h; exact Or.inl h
  | cons e es ih =>
    intro b l h
    rw [List.foldl_cons] at h
    rcases ih _ l h with h' | ⟨i, hi⟩
    · rcases raw_fix b e l h' with h'' | ⟨i, rfl⟩
      · exact Or.inl h''
      · exact Or.inr ⟨i, List.mem_cons_self⟩
    · exact Or.inr ⟨i, List.mem_cons_of_mem _ hi⟩

theorem jmp_mem_relays {i : Insn} {l : Label} {ts : List Label} (h : Ev.jmp i l ∈ relays ts) : l ∈ ts := by
  induction ts with
  | nil => simp [relays] at h
  | cons t ts ih =>
    have e : relays (t :: ts) = Ev.label t :: jumpA t :: relays ts := rfl
    rw [e] at h
    simp only [List.mem_cons, reduceCtorEq, false_or, jumpA, Ev.jmp.injEq] at h
    rcases h with ⟨_, rfl⟩ | h
    · exact List.mem_cons_self
    · exact List.mem_cons_of_mem _ (ih h)

/-- The invariant of a block under construction w.r.t. the original events fed to it so far. -/
def AddInv (b : BlockSt) (pre : List Ev) : Prop :=
  Relayed pre b.out.reverse ∧ ∀ l ∈ b.fix, l.isSkip = false

theorem AddInv.raw {b : BlockSt} {pre : List Ev} (h : AddInv b pre) (e : Ev)
    (he : ∀ i l, e = .jmp i l → l.isSkip = false) : AddInv (b.raw e) (pre ++ [e]) := by
  refine ⟨?_, ?_⟩
  · rw [raw_out, List.reverse_cons]
    exact h.1.append (Relayed.refl [e])
  · intro l hl
    rcases raw_fix b e l hl with h' | ⟨i, rfl⟩
    · exact h.2 l h'
    · exact he i l rfl

theorem AddInv.add {b : BlockSt} {pre : List Ev} (h : AddInv b pre) (stride : Nat) (e : Ev)
    (he : ∀ i l, e = .jmp i l → l.isSkip = false) : AddInv (b.add stride e) (pre ++ [e]) := by
  unfold BlockSt.add
  cases hop : evOp e with
  | none => exact h.raw e he
  | some op =>
    simp only
    split
    · rename_i hc
      split
      · exact AddInv.raw (b := { b with lastTrampAddr := b.len }) h e he
      · -- a trampoline is written first
        have hts : ∀ t ∈ sortLabels b.fix, t.isSkip = false := fun t ht => h.2 t ((mem_sortLabels t _).1 ht)
        have hne : ∀ j, e = .ins j → j.op ≠ opLoadImm64Pt2 := by
          intro j hj
          subst hj
          simp only [evOp, Option.some.injEq] at hop
          subst hop
          simp only [Bool.and_eq_true, bne_iff_ne, ne_eq] at hc
          exact hc.2
        refine ⟨?_, ?_⟩
        · rw [raw_out, foldl_raw_out, List.reverse_cons, List.reverse_append, List.reverse_reverse]
          simp only [trampolineEvs_eq]
          have := Relayed.tramp b.trampIdx (sortLabels b.fix) e hts hne Relayed.nil
          have h2 := h.1.append this
          simpa [List.append_assoc] using h2
        · intro l hl
          rcases raw_fix _ e l hl with h' | ⟨i, rfl⟩
          · -- the fix-ups after the trampoline: old ones and relayed ones, the skip label is resolved
            rw [trampolineEvs_eq] at h'
            have hsplit : trampBlock b.trampIdx (sortLabels b.fix) =
                (jumpA (.skipTrampoline b.trampIdx) :: relays (sortLabels b.fix)) ++ [.label (.skipTrampoline b.trampIdx)] := by
              simp [trampBlock]
            rw [hsplit, List.foldl_append, List.foldl_cons, List.foldl_nil] at h'
            obtain ⟨hin, hne'⟩ := raw_fix_label _ _ l h'
            rcases foldl_raw_fix _ _ l hin with h0 | ⟨i, hi⟩
            · exact h.2 l h0
            · rcases List.mem_cons.1 hi with hh | hh
              · simp only [jumpA, Ev.jmp.injEq] at hh
                exact absurd hh.2 hne'
              · exact hts l (jmp_mem_relays hh)
          · exact he i l rfl
    · exact h.raw e he

/-- With splitting disabled, the single block `expand` produces is the builder's event list with
trampolines inserted. -/
theorem foldl_relayed (c : Cfg) (xdp : Bool) (hns : c.policyMapStride = 0) :
    ∀ (bevs : List BEv) (s : SplitSt) (pre : List Ev), s.done = [] → AddInv s.cur pre → NoSkipJ (flat bevs) →
      let s' := bevs.foldl (SplitSt.step c xdp) s
      s'.done = [] ∧ AddInv s'.cur (pre ++ flat bevs) := by
  intro bevs
  induction bevs with
  | nil => intro s pre hd hi _; simpa [flat] using ⟨hd, hi⟩
  | cons b bs ih =>
    intro s pre hd hi hn
    cases b with
    | ev e =>
      simp only [List.foldl_cons, SplitSt.step, flat]
      have := ih { s with cur := s.cur.add c.trampolineStride e } (pre ++ [e]) hd
        (hi.add c.trampolineStride e (fun i l he => hn i l (by rw [he]; exact List.mem_cons_self)))
        (NoSkipJ.tail (e := e) hn)
      simpa using this
    | maybeSplit reload =>
      simp only [List.foldl_cons, SplitSt.step, flat, maybeSplit_noSplit c xdp s reload hns]
      exact ih s pre hd hi hn

theorem expand_relayed (c : Cfg) (xdp : Bool) (bevs : List BEv) (hns : c.policyMapStride = 0)
    (hn : NoSkipJ (flat bevs)) : ∃ n, expand c xdp bevs = [n] ∧ Relayed (flat bevs) n := by
  unfold expand
  have := foldl_relayed c xdp hns bevs {} [] rfl ⟨Relayed.nil, by intro l hl; cases hl⟩ hn
  simp only [List.nil_append] at this
  obtain ⟨h1, h2⟩ := this
  exact ⟨_, by simp [h1], h2.1⟩

end CalicoVerif.C11
