import CalicoVerif.Proofs.C02Flush
/-! C02: the three IP-set flush phases. -/
namespace CalicoVerif.C02

theorem mem_iter {md : MD} {k m : String} : m ∈ MD.iter md k ↔ (k, m) ∈ md := by
  simp only [MD.iter, List.mem_map, List.mem_filter, decide_eq_true_eq]
  constructor
  · rintro ⟨⟨k', m'⟩, ⟨h1, h2⟩, h3⟩; simp only at h2 h3; subst h2; subst h3; exact h1
  · intro h; exact ⟨(k, m), ⟨h, rfl⟩, rfl⟩

theorem mem_foldl_discardKey {l : List String} {md : MD} {k m : String} :
    (k, m) ∈ l.foldl (fun md id => MD.discardKey md id) md ↔ (k, m) ∈ md ∧ k ∉ l := by
  induction l generalizing md with
  | nil => simp
  | cons h t ih =>
    simp only [List.foldl_cons, ih, mem_discardKey, List.mem_cons, not_or, ne_eq]
    constructor
    · rintro ⟨⟨a, b⟩, c⟩; exact ⟨a, b, c⟩
    · rintro ⟨a, b, c⟩; exact ⟨⟨a, b⟩, c⟩

theorem mem_MDkeys {md : MD} {k : String} : k ∈ MD.keys md ↔ ∃ m, (k, m) ∈ md := by
  simp only [MD.keys, mem_foldl_sadd, List.mem_map, List.not_mem_nil, or_false]
  constructor
  · rintro ⟨⟨k', m⟩, h1, h2⟩; simp only at h2; subst h2; exact ⟨m, h1⟩
  · rintro ⟨m, h⟩; exact ⟨(k, m), h, rfl⟩

theorem nodup_foldl_sadd {l s : List String} (h : s.Nodup) : (l.foldl (fun s k => sadd k s) s).Nodup := by
  induction l generalizing s with
  | nil => exact h
  | cons x t ih => exact ih (nodup_sadd h)

theorem nodup_MDkeys (md : MD) : (MD.keys md).Nodup := nodup_foldl_sadd (by simp)

/-! #### phase A: flushAddedIPSets -/

theorem applyAll_ipsetUpdates (G : String → List String) (l : List (String × Nat)) (d : DP) :
    d.applyAll (l.map (fun p => Msg.ipsetUpdate p.1 p.2 (G p.1))) =
      { d with ipsets := fun k => if (mget l k).isSome then some (fun m => decide (m ∈ G k)) else d.ipsets k } ∧
    AllWF d (l.map (fun p => Msg.ipsetUpdate p.1 p.2 (G p.1))) := by
  induction l generalizing d with
  | nil => exact ⟨rfl, trivial⟩
  | cons p t ih =>
    obtain ⟨k₀, ty⟩ := p
    simp only [List.map_cons, applyAll_cons, AllWF, WF, true_and]
    refine ⟨?_, (ih _).2⟩
    rw [(ih _).1]
    simp only [DP.apply]
    congr 1
    funext k
    simp only [mget_cons, fupd]
    by_cases h1 : (mget t k).isSome
    · by_cases h0 : k₀ = k <;> simp [h0, h1]
    · simp only [h1, Bool.false_eq_true, if_false]
      by_cases h0 : k₀ = k
      · subst h0; simp
      · have : ¬ k = k₀ := fun e => h0 e.symm
        simp [h0, this, h1]

theorem IpsInv.flushAdded {a : List (String × Nat)} {r : List String} {am rm : MD} {st : List String} {U D}
    (h : IpsInv ⟨a, r, am, rm, st⟩ U D) :
    IpsInv ⟨[], r, (mkeys a).foldl (fun md id => md.discardKey id) am, rm, (mkeys a).foldl (fun ss id => sadd id ss) st⟩ U
      (fun k => if (mget a k).isSome then some (fun m => decide (m ∈ am.iter k)) else D k) := by
  obtain ⟨hsent, hdecl, hrs, hrn, hrna, han, hnew, hold, hmd⟩ := h
  dsimp only at hsent hdecl hrs hrn hrna han hnew hold hmd
  refine ⟨?_, ?_, ?_, hrn, by simp, by simp [mkeys], ?_, ?_, ?_⟩ <;> dsimp only
  · intro k
    simp only [mem_foldl_sadd, mem_mkeys_iff, hsent]
    by_cases h1 : (mget a k).isSome <;> simp [h1]
  · intro k
    rw [hdecl k]
    simp only [mget_nil, Option.isSome_none, Bool.false_eq_true, false_or, mem_foldl_sadd, mem_mkeys_iff]
    constructor
    · rintro (h1 | ⟨h1, h2⟩)
      · refine ⟨Or.inl h1, fun hr => ?_⟩
        rw [hrna k hr] at h1; simp at h1
      · exact ⟨Or.inr h1, h2⟩
    · rintro ⟨h1 | h1, h2⟩
      · exact Or.inl h1
      · exact Or.inr ⟨h1, h2⟩
  · intro k hk
    simp only [mem_foldl_sadd]
    exact Or.inr (hrs k hk)
  · intro k fu _ ha; simp at ha
  · intro k fu hu _
    by_cases h1 : (mget a k).isSome
    · obtain ⟨hn1, hn2⟩ := hnew k fu hu h1
      refine ⟨fun m => decide (m ∈ am.iter k), by simp only [h1, if_true], ?_, ?_, ?_⟩
      · intro m
        simp only [decide_eq_true_eq, mem_iter, mem_foldl_discardKey, mem_mkeys_iff, h1, not_true_eq_false, and_false,
          or_false, hn1 m, hn2 m, not_false_eq_true, and_true]
      · intro m hm
        simp only [mem_foldl_discardKey, mem_mkeys_iff, h1, not_true_eq_false, and_false] at hm
      · intro m hm; exact absurd hm (hn2 m)
    · have h1' : mget a k = none := by simpa using h1
      obtain ⟨fd, hD, h1a, h2, h3⟩ := hold k fu hu h1'
      refine ⟨fd, by rw [if_neg h1]; exact hD, ?_, ?_, h3⟩
      · intro m
        rw [h1a m]
        simp [mem_foldl_discardKey, mem_mkeys_iff, h1']
      · intro m hm
        simp only [mem_foldl_discardKey] at hm
        exact h2 m hm.1
  · intro k m hm
    simp only [mem_foldl_discardKey] at hm
    exact hmd k m (by rcases hm with x | x; exact Or.inl x.1; exact Or.inr x)

/-! #### phase B: flushIPSetDeltas -/

def deltaFn (A R : String → List String) (k : String) (f : String → Bool) : String → Bool :=
  fun m => (f m || decide (m ∈ A k)) && !decide (m ∈ R k)

theorem applyAll_deltas (A R : String → List String) (l : List String) (hn : l.Nodup) (d : DP)
    (hp : ∀ id ∈ l, ∃ f, d.ipsets id = some f ∧ (∀ m ∈ A id, f m = false) ∧ (∀ m ∈ R id, f m = true)) :
    d.applyAll (l.map (fun id => Msg.ipsetDelta id (A id) (R id))) =
      { d with ipsets := fun k => if k ∈ l then (d.ipsets k).map (deltaFn A R k) else d.ipsets k } ∧
    AllWF d (l.map (fun id => Msg.ipsetDelta id (A id) (R id))) := by
  induction l generalizing d with
  | nil => exact ⟨by simp [applyAll_nil], trivial⟩
  | cons id t ih =>
    simp only [List.nodup_cons] at hn
    obtain ⟨f, hf, hA, hR⟩ := hp id (by simp)
    have hstep : d.apply (Msg.ipsetDelta id (A id) (R id)) =
        { d with ipsets := fupd d.ipsets id (some (deltaFn A R id f)) } := by
      simp only [DP.apply, hf]; rfl
    have hp' : ∀ id' ∈ t, ∃ f', ({ d with ipsets := fupd d.ipsets id (some (deltaFn A R id f)) } : DP).ipsets id' = some f' ∧
        (∀ m ∈ A id', f' m = false) ∧ (∀ m ∈ R id', f' m = true) := by
      intro id' hid'
      have hne : id' ≠ id := fun e => hn.1 (e ▸ hid')
      simp only [fupd, hne, if_false]
      exact hp id' (by simp [hid'])
    have := ih hn.2 _ hp'
    simp only [List.map_cons, applyAll_cons, AllWF, hstep]
    refine ⟨?_, ⟨f, hf, hA, hR⟩, this.2⟩
    rw [this.1]
    congr 1
    funext k
    simp only [List.mem_cons, fupd]
    by_cases hk : k = id
    · subst hk; simp [hn.1, hf]
    · simp [hk]

theorem IpsInv.flushDeltas {r : List String} {am rm : MD} {st : List String} {U D}
    (h : IpsInv ⟨[], r, am, rm, st⟩ U D) :
    let K := rm.keys ++ (am.keys).filter (fun k => decide (k ∉ rm.keys))
    K.Nodup ∧
    (∀ id ∈ K, ∃ f, D id = some f ∧ (∀ m ∈ am.iter id, f m = false) ∧ (∀ m ∈ rm.iter id, f m = true)) ∧
    IpsInv ⟨[], r, [], [], st⟩ U
      (fun k => if k ∈ K then (D k).map (deltaFn am.iter rm.iter k) else D k) := by
  obtain ⟨hsent, hdecl, hrs, hrn, hrna, han, hnew, hold, hmd⟩ := h
  dsimp only at hsent hdecl hrs hrn hrna han hnew hold hmd
  intro K
  have hK : ∀ k, k ∈ K ↔ (∃ m, (k, m) ∈ am) ∨ (∃ m, (k, m) ∈ rm) := by
    intro k
    simp only [K, List.mem_append, List.mem_filter, decide_eq_true_eq, mem_MDkeys]
    constructor
    · rintro (x | x)
      · exact Or.inr x
      · exact Or.inl x.1
    · rintro (x | x)
      · by_cases hx : ∃ m, (k, m) ∈ rm
        · exact Or.inl hx
        · exact Or.inr ⟨x, hx⟩
      · exact Or.inl x
  have hold' : ∀ k, (U k).isSome → ∃ fu fd, U k = some fu ∧ D k = some fd ∧
      (∀ m, fu m = true ↔ ((fd m = true ∧ (k, m) ∉ rm) ∨ (k, m) ∈ am)) ∧
      (∀ m, (k, m) ∈ am → fd m = false) ∧ (∀ m, (k, m) ∈ rm → fd m = true) := by
    intro k hk
    cases hu : U k with
    | none => simp [hu] at hk
    | some fu =>
      obtain ⟨fd, x⟩ := hold k fu hu (by simp)
      exact ⟨fu, fd, rfl, x⟩
  refine ⟨?_, ?_, ?_⟩
  · rw [List.nodup_append]
    refine ⟨nodup_MDkeys _, (nodup_MDkeys _).filter _, ?_⟩
    intro x hx y hy hxy
    simp only [List.mem_filter, decide_eq_true_eq] at hy
    exact hy.2 (hxy ▸ hx)
  · intro id hid
    have hU : (U id).isSome := by
      rcases (hK id).1 hid with ⟨m, x⟩ | ⟨m, x⟩
      · exact hmd id m (Or.inl x)
      · exact hmd id m (Or.inr x)
    obtain ⟨fu, fd, _, hD, _, h2, h3⟩ := hold' id hU
    exact ⟨fd, hD, fun m hm => h2 m (mem_iter.1 hm), fun m hm => h3 m (mem_iter.1 hm)⟩
  · refine ⟨?_, hdecl, hrs, hrn, hrna, han, ?_, ?_, ?_⟩ <;> dsimp only
    · intro k
      rw [hsent k]
      by_cases hk : k ∈ K <;> simp [hk]
    · intro k fu _ ha; simp at ha
    · intro k fu hu _
      obtain ⟨fu', fd, hu', hD, h1, h2, h3⟩ := hold' k (by simp [hu])
      rw [hu] at hu'; cases hu'
      by_cases hk : k ∈ K
      · refine ⟨deltaFn am.iter rm.iter k fd, by simp [hk, hD], ?_, by simp, by simp⟩
        intro m
        rw [h1 m]
        simp only [deltaFn, Bool.and_eq_true, Bool.or_eq_true, decide_eq_true_eq, Bool.not_eq_true', decide_eq_false_iff_not,
          mem_iter, List.not_mem_nil, not_false_eq_true, and_true, or_false]
        constructor
        · rintro (⟨x, y⟩ | x)
          · exact ⟨Or.inl x, y⟩
          · refine ⟨Or.inr x, fun hr => ?_⟩
            have := h2 m x; rw [h3 m hr] at this; cases this
        · rintro ⟨x | x, y⟩
          · exact Or.inl ⟨x, y⟩
          · exact Or.inr x
      · refine ⟨fd, by simp [hk, hD], ?_, by simp, by simp⟩
        intro m
        rw [h1 m]
        have ha : (k, m) ∉ am := fun x => hk ((hK k).2 (Or.inl ⟨m, x⟩))
        have hr : (k, m) ∉ rm := fun x => hk ((hK k).2 (Or.inr ⟨m, x⟩))
        simp [ha, hr]
    · intro k m hm; simp at hm

/-! #### phase I: flushRemovedIPSets -/

def ipsLens : CatLens String (List String) (String → Bool) where
  get d := d.ipsets
  set d f := { d with ipsets := f }
  g _ ms := fun m => decide (m ∈ ms)
  updMsg k ms := [Msg.ipsetUpdate k 0 ms]
  delMsg := Msg.ipsetRemove
  get_set _ _ := rfl
  set_get _ := rfl
  set_set _ _ _ := rfl
  upd_apply _ _ _ := rfl
  upd_wf _ _ _ := ⟨trivial, trivial⟩
  del_apply _ _ := rfl
  del_wf _ _ := Iff.rfl

theorem IpsInv.flushRemoved {a : List (String × Nat)} {r : List String} {am rm : MD} {st : List String} {U D}
    (h : IpsInv ⟨a, r, am, rm, st⟩ U D) :
    r.Nodup ∧ (∀ k ∈ r, (D k).isSome) ∧
    IpsInv ⟨a, [], r.foldl (fun md id => md.discardKey id) am, r.foldl (fun md id => md.discardKey id) rm,
            r.foldl (fun ss id => sdel id ss) st⟩ U (applyDels D r) := by
  obtain ⟨hsent, hdecl, hrs, hrn, hrna, han, hnew, hold, hmd⟩ := h
  dsimp only at hsent hdecl hrs hrn hrna han hnew hold hmd
  refine ⟨hrn, fun k hk => (hsent k).1 (hrs k hk), ?_⟩
  refine ⟨?_, ?_, by simp, by simp, by simp, han, ?_, ?_, ?_⟩ <;> dsimp only
  · intro k
    simp only [mem_foldl_sdel, applyDels_get, hsent]
    by_cases hk : k ∈ r <;> simp [hk]
  · intro k
    rw [hdecl k]
    simp [mem_foldl_sdel]
  · intro k fu hu ha
    have hkr : k ∉ r := fun hr => by rw [hrna k hr] at ha; simp at ha
    obtain ⟨h1, h2⟩ := hnew k fu hu ha
    refine ⟨fun m => ?_, fun m hm => h2 m (mem_foldl_discardKey.1 hm).1⟩
    rw [h1 m]; simp [mem_foldl_discardKey, hkr]
  · intro k fu hu ha
    have hkr : k ∉ r := by
      have := (hdecl k).1 (by simp [hu])
      simp only [ha, Option.isSome_none, Bool.false_eq_true, false_or] at this
      exact this.2
    obtain ⟨fd, hD, h1, h2, h3⟩ := hold k fu hu ha
    refine ⟨fd, by rw [applyDels_get]; simp [hkr, hD], ?_, ?_, ?_⟩
    · intro m; rw [h1 m]; simp [mem_foldl_discardKey, hkr]
    · intro m hm; exact h2 m (mem_foldl_discardKey.1 hm).1
    · intro m hm; exact h3 m (mem_foldl_discardKey.1 hm).1
  · intro k m hm
    simp only [mem_foldl_discardKey] at hm
    exact hmd k m (by rcases hm with x | x; exact Or.inl x.1; exact Or.inr x.1)

/-- With nothing pending, the downstream IP sets ARE the declared IP sets (including members). -/
theorem IpsInv.synced {am rm : MD} {st : List String} {U D}
    (h : IpsInv ⟨[], [], am, rm, st⟩ U D) (ha : am = []) (hr : rm = []) : U = D := by
  subst ha; subst hr
  obtain ⟨hsent, hdecl, -, -, -, -, -, hold, -⟩ := h
  dsimp only at hsent hdecl hold
  funext k
  cases hu : U k with
  | none =>
    have := (not_congr (hdecl k)).1 (by simp [hu])
    simp only [mget_nil, Option.isSome_none, Bool.false_eq_true, false_or, List.not_mem_nil, not_false_eq_true,
      and_true] at this
    have := (not_congr (hsent k)).1 this
    cases hD : D k with
    | none => rfl
    | some _ => simp [hD] at this
  | some fu =>
    obtain ⟨fd, hD, h1, -, -⟩ := hold k fu hu (by simp)
    rw [hD]
    congr 1
    funext m
    have := h1 m
    simp only [List.not_mem_nil, not_false_eq_true, and_true, or_false] at this
    cases hf : fu m <;> cases hg : fd m <;> simp_all

end CalicoVerif.C02
