import CalicoVerif.Model.C37
/-!
C37 — helper lemmas for `CalicoVerif.Props.C37` (core Lean only).
-/
namespace CalicoVerif.C37

/-- The suffix actually used: `""` is replaced by `"_"`. -/
def eff (s : Str) : Str := if s.length = 0 then [us] else s

theorem eff_of_ne_nil {s : Str} (h : s ≠ []) : eff s = s := by
  cases s with
  | nil => exact absurd rfl h
  | cons a t => simp [eff]

theorem eff_length_pos (s : Str) : 0 < (eff s).length := by
  unfold eff; split
  · simp
  · omega

/-- Number of hash characters kept when shortening: `min(room, len(hash))`. -/
def kept (hash : Str → Str) (p s : Str) (m : Int) : Nat :=
  (min (m - 1 - (p.length : Int)) ((hash (eff s)).length : Int)).toNat

/-- Shortening branch, in closed form. -/
theorem gll_short {hash : Str → Str} {p s : Str} {m : Int} (h : shortens p s m = true) :
    getLengthLimitedID hash p s m =
      if m - 1 - (p.length : Int) ≤ 0 then none
      else some (p ++ [us] ++ (hash (eff s)).take (kept hash p s m)) := by
  simp only [shortens, decide_eq_true_eq] at h
  simp only [getLengthLimitedID, eff, kept]
  rw [if_pos h]

/-- Verbatim branch. -/
theorem gll_long {hash : Str → Str} {p s : Str} {m : Int} (h : shortens p s m = false) :
    getLengthLimitedID hash p s m = some (p ++ eff s) := by
  simp only [shortens, decide_eq_false_iff_not] at h
  simp only [getLengthLimitedID, eff]
  rw [if_neg h]

/-- `shortenedLen` of the Go code. -/
def shortenedLen (p : Str) (m : Int) : Int := min m ((p.length : Int) + 1 + 43)

theorem shortens_false_iff {p s : Str} {m : Int} : shortens p s m = false ↔
    ((p.length : Int) + ((eff s).length : Int) ≤ m ∧
      ((p.length : Int) + ((eff s).length : Int) = shortenedLen p m → (eff s).take 1 ≠ [us])) := by
  simp only [shortens, eff, shortenedLen, decide_eq_false_iff_not, not_or, not_and, Int.not_lt]

theorem append_eq_append_prefix : ∀ {p1 p2 r1 r2 : Str}, p1 ++ r1 = p2 ++ r2 →
    isPrefix p1 p2 = true ∨ isPrefix p2 p1 = true
  | [], _, _, _, _ => Or.inl rfl
  | _ :: _, [], _, _, _ => Or.inr rfl
  | a :: p1, b :: p2, r1, r2, h => by
    simp only [List.cons_append, List.cons.injEq] at h
    rcases append_eq_append_prefix h.2 with h' | h'
    · left; simp [isPrefix, h.1, h']
    · right; simp [isPrefix, h.1, h']

theorem gll_has_prefix {hash : Str → Str} {p s : Str} {m : Int} {n : Str}
    (h : getLengthLimitedID hash p s m = some n) : ∃ r, n = p ++ r := by
  cases hs : shortens p s m with
  | true =>
    rw [gll_short hs] at h
    split at h
    · simp at h
    · simp only [Option.some.injEq] at h
      exact ⟨_, by rw [← h, List.append_assoc]⟩
  | false =>
    rw [gll_long hs] at h
    simp only [Option.some.injEq] at h
    exact ⟨_, h.symm⟩

/-- A shortened name: `_` right after the prefix, then the hash truncated to
`kept` characters; it is exactly `m` long when the room does not exceed the hash. -/
theorem gll_short_some {hash : Str → Str} {p s : Str} {m : Int} {n : Str}
    (hs : shortens p s m = true) (h : getLengthLimitedID hash p s m = some n) :
    n = p ++ us :: (hash (eff s)).take (kept hash p s m) ∧
      (n.length : Int) = (p.length : Int) + 1 + (kept hash p s m : Int) ∧
      (kept hash p s m : Int) = min (m - 1 - (p.length : Int)) ((hash (eff s)).length : Int) ∧
      0 < m - 1 - (p.length : Int) := by
  rw [gll_short hs] at h
  split at h
  · simp at h
  · next h1 =>
    simp only [Option.some.injEq] at h
    have hk : (kept hash p s m : Int) = min (m - 1 - (p.length : Int)) ((hash (eff s)).length : Int) := by
      unfold kept; rw [Int.toNat_of_nonneg]; omega
    refine ⟨by rw [← h]; simp, ?_, hk, by omega⟩
    rw [← h]
    simp only [List.length_append, List.length_cons, List.length_nil, List.length_take]
    omega


theorem isPrefix_append (p r : Str) : isPrefix p (p ++ r) = true := by
  induction p with
  | nil => rfl
  | cons a p ih => simp [isPrefix, ih]

theorem combineAndTrunc_eq (p s : Str) (M : Nat) : combineAndTrunc p s M = (p ++ s).take M := by
  unfold combineAndTrunc
  split
  · rfl
  · rw [List.take_of_length_le (by omega)]

end CalicoVerif.C37
