import CalicoVerif.Proofs.C04Ops
/-! C04: IP set operations (`DeleteIPSet`, `UpdateIPSet`) keep the invariant. -/
namespace CalicoVerif.C04

set_option linter.unusedSectionVars false
set_option linter.unusedVariables false

section Sets
variable {Sel : Type} [DecidableEq Sel] (matchSel : Sel → Labels → Bool)

/-- Dropping set `s` (refcounts of `s` become 0, its trie goes) keeps the emission invariant if
either the consumer is told (`cleared s`) or it holds nothing of `s` anyway. -/
theorem einv_remove_set {st st' : Idx Sel} {s : String} (hE : EInv st)
    (hsup : st'.suppress = st.suppress)
    (hrc : ∀ s' m, refCount st' s' m = if s' = s then 0 else refCount st s' m)
    (htr : ∀ s', s' ≠ s → trieOf st' s' = trieOf st s')
    (htrs : trieOf st' s = [] ∨ (trieOf st' s = trieOf st s ∧ ∀ m, refCount st s m = 0))
    (hout : st'.out = st.out ++ [.cleared s] ∨ (st'.out = st.out ∧ ∀ m, refCount st s m = 0)) :
    EInv st' := by
  obtain ⟨D, hD, hmem⟩ := hE.down
  have hvis : ∀ s' m, visible st' s' m ↔ (s' ≠ s ∧ visible st s' m) := by
    intro s' m
    by_cases hs : s' = s
    · subst hs
      unfold visible
      rw [hrc]; simp
    · have := visible_congr (st := st) (st' := st') (s := s') hsup (fun m => by rw [hrc]; simp [hs]) m
      rw [this]; simp [hs]
  refine ⟨?_, ?_, ?_, ?_⟩
  · rcases hout with ho | ⟨ho, hz⟩
    · refine ⟨D.filter (fun x => x.1 ≠ s), ?_, fun s' m => ?_⟩
      · rw [ho]; apply replay_append hD; simp [replayFrom, applyEvent]
      · rw [hvis, ← hmem]; simp [List.mem_filter]; exact And.comm
    · refine ⟨D, by rw [ho]; exact hD, fun s' m => ?_⟩
      rw [hvis, hmem]
      constructor
      · intro h
        refine ⟨?_, h⟩
        rintro rfl
        have := h.1; rw [hz] at this; cases this
      · exact fun h => h.2
  · intro hs s' c
    have hs0 : st.suppress = true := hsup ▸ hs
    by_cases h : s' = s
    · subst h
      rw [hrc]; simp only [if_true]
      rcases htrs with ht | ⟨ht, hz⟩
      · rw [ht]; simp
      · rw [ht, hE.trie hs0, hz]
    · rw [htr s' h, hrc]; simp only [h, if_false]; exact hE.trie hs0 s' c
  · intro s'
    by_cases h : s' = s
    · subst h
      rcases htrs with ht | ⟨ht, _⟩
      · rw [ht]; exact List.nodup_nil
      · rw [ht]; exact hE.trieNodup s'
    · rw [htr s' h]; exact hE.trieNodup s'
  · intro s' c hc
    rw [hrc] at hc
    by_cases h : s' = s
    · simp [h] at hc
    · simp only [h, if_false] at hc; exact hE.canon s' c hc

theorem sumBy_map {α β : Type} (f : β → Nat) (g : α → β) (l : List α) :
    sumBy f (l.map g) = sumBy (fun x => f (g x)) l := by
  unfold sumBy; rw [List.map_map]; rfl

theorem sumBy_zero {α : Type} {f : α → Nat} {l : List α} (h : ∀ p ∈ l, f p = 0) : sumBy f l = 0 := by
  induction l with
  | nil => rfl
  | cons a l ih =>
    rw [sumBy_cons, h a (List.mem_cons_self ..), ih (fun p hp => h p (List.mem_cons_of_mem _ hp))]

/-- the state after `DeleteIPSet`'s data changes (callbacks/tries aside) -/
structure Deleted (s : String) (st st' : Idx Sel) : Prop where
  eps : st'.eps = st.eps.map (fun p => (p.1, { p.2 with cached := p.2.cached.filter (fun x => x ≠ s) }))
  ipsets : st'.ipsets = alErase s st.ipsets
  suppress : st'.suppress = st.suppress
  parents : st'.parents = st.parents
  panicked : st'.panicked = st.panicked
  underflow : st'.underflow = st.underflow

theorem inv_after_delete {s : String} {st st' : Idx Sel} (hd : Deleted s st st') (hE : EInv st')
    (hw : WF st) (hb : bad st = false) (hen : (st.eps.map (·.1)).Nodup)
    (hcn : ∀ p ∈ st.eps, p.2.cached.Nodup)
    (hcp : ∀ p ∈ st.eps, ∀ x ∈ p.2.cached, (alGet x st.ipsets).isSome = true)
    (hpn : ∀ p ∈ st.eps, p.2.parents.Nodup)
    (hrefc : ∀ s', s' ≠ s → ∀ m, refCount st s' m = sumBy (term st s' m) st.eps)
    (hlab : Lab matchSel st) : Inv matchSel st' := by
  have hget : ∀ s', alGet s' st'.ipsets = if s' = s then none else alGet s' st.ipsets := by
    intro s'; rw [hd.ipsets, alGet_alErase]
  have hmem : ∀ p' ∈ st'.eps, ∃ p ∈ st.eps,
      p' = (p.1, { p.2 with cached := p.2.cached.filter (fun x => x ≠ s) }) := by
    intro p' hp'
    rw [hd.eps] at hp'
    obtain ⟨p, hp, rfl⟩ := List.mem_map.1 hp'
    exact ⟨p, hp, rfl⟩
  have hrc : ∀ s' m, refCount st' s' m = if s' = s then 0 else refCount st s' m := by
    intro s' m
    unfold refCount
    rw [hget]
    by_cases h : s' = s <;> simp [h]
  have hcontrib : ∀ (e : EpData) (c : List String) (s' : String), s' ≠ s →
      contribAt st' { e with cached := c } s' = contribAt st e s' := by
    intro e c s' hne
    unfold contribAt
    rw [hget]; simp only [hne, if_false]
    cases alGet s' st.ipsets with
    | none => rfl
    | some d => exact contrib_congr rfl rfl rfl rfl
  have hmatch : ∀ (e : EpData) (c : List String) (s' : String), s' ≠ s →
      matchAt matchSel st' { e with cached := c } s' = matchAt matchSel st e s' := by
    intro e c s' hne
    unfold matchAt
    rw [hget]; simp only [hne, if_false]
    cases alGet s' st.ipsets with
    | none => rfl
    | some d =>
      exact congrArg (matchSel d.sel)
        (effLabels_congr (st := st) (st' := st') (e := e) (e' := { e with cached := c }) hd.parents rfl rfl)
  refine ⟨⟨⟨hE, ?_, ?_, ?_⟩, ?_, ?_, ?_, ?_, ?_, ?_⟩, ?_⟩
  · intro p' hp' c hc
    obtain ⟨p, hp, rfl⟩ := hmem p' hp'
    exact hw.nets p hp c hc
  · unfold SetsNodup; rw [hd.ipsets]; exact keys_alErase_nodup hw.sets
  · unfold RefWF; rw [hd.ipsets]; intro p hp; exact hw.refwf p (mem_alErase hp)
  · unfold bad; rw [hd.panicked, hd.underflow]; exact hb
  · rw [hd.eps, List.map_map]; exact hen
  · intro p' hp'
    obtain ⟨p, hp, rfl⟩ := hmem p' hp'
    exact (hcn p hp).filter _
  · intro p' hp' x hx
    obtain ⟨p, hp, rfl⟩ := hmem p' hp'
    simp only [List.mem_filter, decide_eq_true_eq] at hx
    rw [hget]; simp only [hx.2, if_false]
    exact hcp p hp x hx.1
  · intro p' hp'
    obtain ⟨p, hp, rfl⟩ := hmem p' hp'
    exact hpn p hp
  · intro s' m
    rw [hrc, hd.eps, sumBy_map]
    by_cases h : s' = s
    · subst h
      simp only [if_true]
      symm
      apply sumBy_zero
      intro p _
      simp [term]
    · simp only [h, if_false]
      rw [hrefc s' h]
      apply sumBy_congr
      intro p _
      unfold term
      have hiff : s' ∈ p.2.cached.filter (fun x => x ≠ s) ↔ s' ∈ p.2.cached := by
        simp only [List.mem_filter, decide_eq_true_eq]
        exact ⟨And.left, fun x => ⟨x, h⟩⟩
      simp only [hiff]
      rw [hcontrib p.2 _ s' h]
  · intro p' hp' s'
    obtain ⟨p, hp, rfl⟩ := hmem p' hp'
    by_cases h : s' = s
    · subst h
      have hM : ∀ c, matchAt matchSel st' { p.2 with cached := c } s' = false := by
        intro c; unfold matchAt; rw [hget]; simp
      unfold OK
      constructor
      · intro hx
        have := (List.mem_filter.1 hx).2
        simp at this
      · intro hm
        rw [hM] at hm; cases hm
    · have := hlab p hp s'
      unfold OK at this ⊢
      have hiff : s' ∈ p.2.cached.filter (fun x => x ≠ s) ↔ s' ∈ p.2.cached := by
        simp only [List.mem_filter, decide_eq_true_eq]
        exact ⟨And.left, fun x => ⟨x, h⟩⟩
      simp only [hiff]
      rw [hmatch p.2 _ s' h, hcontrib p.2 _ s' h]
      exact this

theorem refCount_absent {st : Idx Sel} {s : String} (h : alGet s st.ipsets = none) (m : Member) :
    refCount st s m = 0 := by
  unfold refCount; rw [h]

/-- `DeleteIPSet` (+ the consumer's `OnIPSetRemoved`) keeps the invariant. -/
theorem deleteIPSet_inv {st : Idx Sel} (s : String) (h : Inv matchSel st) :
    Inv matchSel (deleteIPSet s st) := by
  have hc := h.core
  unfold deleteIPSet deleteIPSetCore
  cases hget : alGet s st.ipsets with
  | none =>
    simp only
    have hE : EInv (emit (.cleared s) st) := by
      refine einv_remove_set (st' := emit (.cleared s) st) (s := s) hc.wf.e rfl ?_ (fun _ _ => rfl)
        (Or.inr ⟨rfl, refCount_absent hget⟩) (Or.inl rfl)
      intro s' m
      by_cases hs : s' = s
      · subst hs; simp only [if_true]; exact refCount_absent hget m
      · simp only [hs, if_false]; rfl
    exact ⟨⟨⟨hE, hc.wf.nets, hc.wf.sets, hc.wf.refwf⟩, hc.nb, hc.epsNodup, hc.cachedNodup, hc.cachedPresent,
      hc.parentsNodup, hc.refc⟩, fun p hp s' => h.lab p hp s'⟩
  | some d0 =>
    simp only
    refine inv_after_delete matchSel (s := s) (st := st) ?_ ?_ hc.wf hc.nb hc.epsNodup
      hc.cachedNodup hc.cachedPresent hc.parentsNodup (fun s' _ m => hc.refc s' m) h.lab
    · exact ⟨rfl, rfl, rfl, rfl, rfl, rfl⟩
    refine einv_remove_set (st := st) (s := s) hc.wf.e rfl ?_ ?_ (Or.inl ?_) (Or.inl rfl)
    · intro s' m
      show refCount ({ st with ipsets := alErase s st.ipsets } : Idx Sel) s' m = _
      unfold refCount
      simp only [alGet_alErase]
      by_cases hs : s' = s <;> simp [hs]
    · intro s' hs
      show (alGet s' (alErase s st.tries)).getD [] = trieOf st s'
      rw [alGet_alErase]; simp [hs, trieOf]
    · show (alGet s (alErase s st.tries)).getD [] = []
      rw [alGet_alErase]; simp

/-- one iteration of the "selector changed for an existing ID" removal loop -/
theorem forceRemove_spec {st : Idx Sel} {s : String} (m : Member) (hw : WF st) (hpos : 0 < refCount st s m) :
    WF (forceRemove s m st) ∧ Eff st (forceRemove s m st) ∧
    ∀ s' m', refCount (forceRemove s m st) s' m' = if s' = s ∧ m' = m then 0 else refCount st s' m' := by
  have hp : ∃ d, alGet s st.ipsets = some d := by
    unfold refCount at hpos
    cases h : alGet s st.ipsets with
    | none => rw [h] at hpos; cases hpos
    | some d => exact ⟨d, rfl⟩
  obtain ⟨d, h⟩ := hp
  obtain ⟨f1, f2, f3, f4, f5, f6⟩ := onMemberRemoved_frame s m st
  have hips : (forceRemove s m st).ipsets =
      alMod s (fun d' => { d' with refc := alErase m d'.refc }) st.ipsets := by
    unfold forceRemove; simp only [f3]
  have hrc : ∀ s' m', refCount (forceRemove s m st) s' m' = if s' = s ∧ m' = m then 0 else refCount st s' m' := by
    intro s' m'
    rw [refCount_alMod h hips, refOf_erase]
    by_cases hs : s' = s
    · subst hs
      by_cases hm : m' = m
      · simp [hm]
      · simp [hm, refCount_eq h]
    · simp [hs]
  have heff : Eff st (forceRemove s m st) :=
    ⟨f1, f2, f4, by rw [hips, alMod_keys], cfgAt_alMod hips (fun _ => rfl), f5, f6⟩
  refine ⟨⟨?_, ?_, ?_, ?_⟩, heff, hrc⟩
  · apply einv_decr (st' := forceRemove s m st) (s := s) (m := m) True hw.e heff.suppress hpos
    · intro s' m'
      rw [hrc]
      by_cases hx : s' = s ∧ m' = m
      · simp [hx]
      · simp only [hx, if_false]
        constructor
        · exact fun h' => ⟨h', fun h'' => hx ⟨h''.1, h''.2.1⟩⟩
        · exact fun h' => h'.1
    · simp only [if_true]; rfl
    · simp only [if_true]; rfl
  · intro p hp c hc; rw [heff.eps] at hp; exact hw.nets p hp c hc
  · unfold SetsNodup; rw [heff.keys]; exact hw.sets
  · apply refwf_alMod hw.refwf hips
    rintro d' ⟨h1, h2⟩
    exact ⟨keys_alErase_nodup h1, fun q hq => h2 q (List.mem_filter.1 hq).1⟩

theorem forceRemoveAll_spec (s : String) (ks : List Member) {st : Idx Sel} (hw : WF st) (nd : ks.Nodup)
    (hpos : ∀ m ∈ ks, 0 < refCount st s m) :
    WF (ks.foldl (fun st m => forceRemove s m st) st) ∧
    Eff st (ks.foldl (fun st m => forceRemove s m st) st) ∧
    ∀ s' m', refCount (ks.foldl (fun st m => forceRemove s m st) st) s' m' =
      if s' = s ∧ m' ∈ ks then 0 else refCount st s' m' := by
  induction ks generalizing st with
  | nil => exact ⟨hw, Eff.refl st, fun s' m' => by simp⟩
  | cons k ks ih =>
    rw [List.foldl_cons]
    obtain ⟨hk, nd'⟩ := List.nodup_cons.1 nd
    obtain ⟨w1, e1, r1⟩ := forceRemove_spec k hw (hpos k (List.mem_cons_self ..))
    have hpos' : ∀ m ∈ ks, 0 < refCount (forceRemove s k st) s m := by
      intro m hm
      rw [r1]
      have : m ≠ k := fun e => hk (e ▸ hm)
      simp only [this, and_false, if_false]
      exact hpos m (List.mem_cons_of_mem _ hm)
    obtain ⟨w2, e2, r2⟩ := ih w1 nd' hpos'
    refine ⟨w2, e1.trans e2, fun s' m' => ?_⟩
    rw [r2, r1]
    by_cases hs : s' = s
    · subst hs
      by_cases hm : m' ∈ ks
      · simp [hm]
      · by_cases hmk : m' = k
        · simp [hmk]
        · simp [hm, hmk]
    · simp [hs]

theorem OK_congr1 {st st' : Idx Sel} {e e' : EpData} {s : String} (h : cfgAt st' s = cfgAt st s)
    (hp : st'.parents = st.parents) (h1 : e'.labels = e.labels) (h2 : e'.parents = e.parents)
    (h3 : e'.nets = e.nets) (h4 : e'.ports = e.ports) (h5 : s ∈ e'.cached ↔ s ∈ e.cached) :
    OK matchSel st' e' s ↔ OK matchSel st e s := by
  unfold OK
  rw [matchAt_congr matchSel h hp h1 h2, contribAt_congr h h3 h4, h5]

/-- `epData.AddMatchingIPSetID(s)` for endpoint `id` -/
def addCached (s id : String) (st : Idx Sel) : Idx Sel :=
  { st with eps := alMod id (fun e => { e with cached := setAdd s e.cached }) st.eps }

theorem addCached_eps (s id : String) (st : Idx Sel) :
    (addCached s id st).eps = alMod id (fun e => { e with cached := setAdd s e.cached }) st.eps := rfl

/-- the scan loop of `UpdateIPSet`, one endpoint that matches and contributes -/
theorem addScan_hit {st : Idx Sel} {s id : String} {e : EpData} {d : IpSetData Sel}
    (hc : Core st) (hget : alGet id st.eps = some e) (hs : alGet s st.ipsets = some d)
    (hns : s ∉ e.cached) :
    Core (increfAll s (contrib e d) (addCached s id st)) ∧
    Eff (addCached s id st) (increfAll s (contrib e d) (addCached s id st)) := by
  have hmem : (id, e) ∈ st.eps := alGet_some_mem hget
  have hpres : (alGet s (addCached s id st).ipsets).isSome = true := by
    show (alGet s st.ipsets).isSome = true; rw [hs]; rfl
  obtain ⟨eff, rc⟩ := increfAll_eff (s := s) (contrib e d) (st := addCached s id st) hpres
  have hm2 : ∀ p ∈ (addCached s id st).eps,
      (p ∈ st.eps ∧ p.1 ≠ id) ∨ p = (id, { e with cached := setAdd s e.cached }) := by
    intro p hp
    rw [addCached_eps] at hp
    rcases mem_alMod' hp with h | ⟨v, hv, rfl⟩
    · exact Or.inl h
    · right
      have : alGet id st.eps = some v := alGet_of_mem hc.epsNodup hv
      rw [hget] at this; cases this; rfl
  have hnets2 : NetsCanon (addCached s id st) := by
    intro p hp c hcn
    rcases hm2 p hp with ⟨h, _⟩ | rfl
    · exact hc.wf.nets p h c hcn
    · exact hc.wf.nets (id, e) hmem c hcn
  have hw2 : WF (addCached s id st) := wf_of_sameButEps hc.wf ⟨rfl, rfl, rfl, rfl, rfl, rfl, rfl⟩ hnets2
  have hgood := increfAll_good (s := s) (ms := contrib e d) (Or.inr hw2)
    (contrib_canon (fun c hcn => hc.wf.nets (id, e) hmem c hcn))
  have hb : bad (increfAll s (contrib e d) (addCached s id st)) = false := by rw [eff.bad]; exact hc.nb
  have hm3 : ∀ p ∈ (increfAll s (contrib e d) (addCached s id st)).eps,
      (p ∈ st.eps ∧ p.1 ≠ id) ∨ p = (id, { e with cached := setAdd s e.cached }) := by
    intro p hp; rw [eff.eps] at hp; exact hm2 p hp
  have hcfg : ∀ x, cfgAt (increfAll s (contrib e d) (addCached s id st)) x = cfgAt st x := eff.cfg
  refine ⟨⟨wf_of_good hgood hb, hb, ?_, ?_, ?_, ?_, ?_⟩, eff⟩
  · rw [eff.eps, addCached_eps, alMod_keys]; exact hc.epsNodup
  · intro p hp
    rcases hm3 p hp with ⟨h, _⟩ | rfl
    · exact hc.cachedNodup p h
    · exact setAdd_nodup (hc.cachedNodup (id, e) hmem)
  · intro p hp x hx
    rw [eff.present]
    show (alGet x st.ipsets).isSome = true
    rcases hm3 p hp with ⟨h, _⟩ | rfl
    · exact hc.cachedPresent p h x hx
    · rcases mem_setAdd.1 hx with rfl | hx
      · rw [hs]; rfl
      · exact hc.cachedPresent (id, e) hmem x hx
  · intro p hp
    rcases hm3 p hp with ⟨h, _⟩ | rfl
    · exact hc.parentsNodup p h
    · exact hc.parentsNodup (id, e) hmem
  · intro s' m
    rw [rc, eff.eps, sumBy_congr (fun p _ => term_congr (hcfg s') m p), addCached_eps]
    have hrc0 : refCount (addCached s id st) s' m = refCount st s' m := rfl
    rw [hrc0, sumBy_perm _ (perm_alMod hc.epsNodup hget), sumBy_cons, hc.refc, sumBy_split _ id hc.epsNodup, hget]
    have hC : contribAt st e s = contrib e d := by unfold contribAt; rw [hs]
    unfold term
    simp only
    rw [contribAt_congr (st := st) (st' := st) (e := e) (e' := { e with cached := setAdd s e.cached }) rfl rfl rfl]
    by_cases h : s' = s
    · subst h
      simp only [hns, if_false, mem_setAdd, true_or, if_true, hC]
      omega
    · have : s' ∈ setAdd s e.cached ↔ s' ∈ e.cached := by rw [mem_setAdd]; simp [h]
      simp only [this, h, if_false]
      omega

/-- what one iteration of the `UpdateIPSet` scan loop guarantees about the endpoints -/
def ScanStep (s id : String) (st st' : Idx Sel) : Prop :=
  ∀ p' ∈ st'.eps, (p' ∈ st.eps ∧ p'.1 ≠ id) ∨
    (p'.1 = id ∧ OK matchSel st' p'.2 s ∧ ∃ e, (id, e) ∈ st.eps ∧ p'.2.labels = e.labels ∧
      p'.2.parents = e.parents ∧ p'.2.nets = e.nets ∧ p'.2.ports = e.ports ∧
      ∀ x, x ≠ s → (x ∈ p'.2.cached ↔ x ∈ e.cached))

theorem addScanOne_spec {st : Idx Sel} {s : String} {sel : Sel} (id : String) (hc : Core st)
    (hcfg0 : ∃ d, alGet s st.ipsets = some d ∧ d.sel = sel)
    (hq : ∀ e, alGet id st.eps = some e → s ∉ e.cached) :
    Core (addIPSetScanOne matchSel s sel id st) ∧
    (∀ x, cfgAt (addIPSetScanOne matchSel s sel id st) x = cfgAt st x) ∧
    (addIPSetScanOne matchSel s sel id st).parents = st.parents ∧
    ScanStep matchSel s id st (addIPSetScanOne matchSel s sel id st) := by
  obtain ⟨d, hs, hsel⟩ := hcfg0
  unfold addIPSetScanOne
  cases hget : alGet id st.eps with
  | none =>
    simp only
    refine ⟨hc, fun _ => (by first | rfl | trivial), (by first | rfl | trivial), fun p' hp' => Or.inl ⟨hp', ?_⟩⟩
    intro hk
    have : (alGet id st.eps).isSome = true := alGet_isSome_iff.2 (List.mem_map.2 ⟨p', hp', hk⟩)
    rw [hget] at this; cases this
  | some e =>
    have hmem : (id, e) ∈ st.eps := alGet_some_mem hget
    have hns := hq e hget
    have hM : matchAt matchSel st e s = matchSel sel (effLabels st e) := by
      unfold matchAt; rw [hs]; simp only; rw [hsel]
    have hC : contribAt st e s = contrib e d := by unfold contribAt; rw [hs]
    -- the case in which the state is unchanged
    have hsame : (matchAt matchSel st e s = true → contribAt st e s = []) →
        ScanStep matchSel s id st st := by
      intro hno p' hp'
      by_cases hk : p'.1 = id
      · right
        obtain ⟨a, b⟩ := p'
        simp only at hk; subst hk
        have : alGet a st.eps = some b := alGet_of_mem hc.epsNodup hp'
        rw [hget] at this; cases this
        refine ⟨rfl, ⟨fun h => absurd h hns, fun hm hne => absurd (hno hm) hne⟩, e, hmem, rfl, rfl, rfl, rfl,
          fun _ _ => Iff.rfl⟩
      · exact Or.inl ⟨hp', hk⟩
    simp only [hs]
    by_cases hm : matchSel sel (effLabels st e) = true
    · simp only [hm, if_true]
      by_cases hc0 : contrib e d = []
      · simp only [hc0, if_true]
        exact ⟨hc, fun _ => (by first | rfl | trivial), (by first | rfl | trivial), hsame (fun _ => by rw [hC]; exact hc0)⟩
      · simp only [hc0, if_false]
        obtain ⟨c1, eff⟩ := addScan_hit (s := s) (id := id) hc hget hs hns
        refine ⟨c1, eff.cfg, eff.parents, ?_⟩
        intro p' hp'
        have hp2 : p' ∈ (addCached s id st).eps := by rw [← eff.eps]; exact hp'
        rw [addCached_eps] at hp2
        rcases mem_alMod' hp2 with h | ⟨v, hv, rfl⟩
        · exact Or.inl h
        · right
          have : alGet id st.eps = some v := alGet_of_mem hc.epsNodup hv
          rw [hget] at this; cases this
          refine ⟨rfl, ?_, e, hmem, rfl, rfl, rfl, rfl, ?_⟩
          · have hM' : matchAt matchSel (increfAll s (contrib e d) (addCached s id st))
                { e with cached := setAdd s e.cached } s = true := by
              rw [matchAt_congr matchSel (e := e) (e' := { e with cached := setAdd s e.cached }) (st := st)
                (eff.cfg s) eff.parents rfl rfl, hM]; exact hm
            exact ⟨fun _ => hM', fun _ _ => mem_setAdd.2 (Or.inl rfl)⟩
          · intro x hx
            show x ∈ setAdd s e.cached ↔ x ∈ e.cached
            rw [mem_setAdd]; simp [hx]
    · simp only [hm, if_false]
      refine ⟨hc, fun _ => (by first | rfl | trivial), (by first | rfl | trivial), hsame (fun h => ?_)⟩
      rw [hM] at h; exact absurd h hm

theorem addFold_inv {s : String} {sel : Sel} (rem : List String) (st : Idx Sel) (nd : rem.Nodup)
    (hc : Core st) (hcfg0 : ∃ d, alGet s st.ipsets = some d ∧ d.sel = sel)
    (hq : ∀ p ∈ st.eps, (p.1 ∈ rem → s ∉ p.2.cached) ∧ (p.1 ∉ rem → OK matchSel st p.2 s))
    (ho : ∀ p ∈ st.eps, ∀ s', s' ≠ s → OK matchSel st p.2 s') :
    Inv matchSel (rem.foldl (fun st id => addIPSetScanOne matchSel s sel id st) st) := by
  induction rem generalizing st with
  | nil =>
    refine ⟨hc, fun p hp s' => ?_⟩
    by_cases h : s' = s
    · subst h; exact (hq p hp).2 (by simp)
    · exact ho p hp s' h
  | cons id rem ih =>
    rw [List.foldl_cons]
    obtain ⟨hid, nd'⟩ := List.nodup_cons.1 nd
    have hq0 : ∀ e, alGet id st.eps = some e → s ∉ e.cached :=
      fun e he => (hq _ (alGet_some_mem he)).1 (List.mem_cons_self ..)
    obtain ⟨c1, hcfg, hpar, hstep⟩ := addScanOne_spec matchSel id hc hcfg0 hq0
    have hcfg0' : ∃ d, alGet s (addIPSetScanOne matchSel s sel id st).ipsets = some d ∧ d.sel = sel := by
      obtain ⟨d, hs, hsel⟩ := hcfg0
      rcases cfgAt_cases (hcfg s) with ⟨_, h2⟩ | ⟨d0, d', h1, h2, hcf⟩
      · rw [hs] at h2; cases h2
      · rw [hs] at h2; cases h2
        simp only [cfgOf, Prod.mk.injEq] at hcf
        exact ⟨d', h1, hcf.1.trans hsel⟩
    apply ih _ nd' c1 hcfg0'
    · intro p' hp'
      rcases hstep p' hp' with ⟨h0, hne⟩ | ⟨hk, hok, _⟩
      · refine ⟨fun hr => (hq p' h0).1 (List.mem_cons_of_mem _ hr), fun hr => ?_⟩
        have : p'.1 ∉ id :: rem := by
          intro h; rcases List.mem_cons.1 h with h | h
          · exact hne h
          · exact hr h
        exact (OK_congr matchSel (hcfg s) hpar rfl rfl rfl rfl (fun _ => Iff.rfl)).2 ((hq p' h0).2 this)
      · exact ⟨fun hr => absurd (hk ▸ hr) hid, fun _ => hok⟩
    · intro p' hp' s' hs'
      rcases hstep p' hp' with ⟨h0, _⟩ | ⟨_, _, e, he, l1, q1, n1, p1, hmemc⟩
      · exact (OK_congr matchSel (hcfg s') hpar rfl rfl rfl rfl (fun _ => Iff.rfl)).2 (ho p' h0 s' hs')
      · exact (OK_congr1 matchSel (hcfg s') hpar l1 q1 n1 p1 (hmemc s' hs')).2 (ho (id, e) he s' hs')

/-- second half of `UpdateIPSet` (the set id is not in use): keeps the invariant -/
theorem addIPSet_inv {st : Idx Sel} (s : String) (sel : Sel) (proto : Nat) (port : String)
    (h : Inv matchSel st) (habs : alGet s st.ipsets = none) :
    Inv matchSel (addIPSet matchSel s sel proto port st) := by
  have hc := h.core
  unfold addIPSet
  simp only
  have hget : ∀ s', alGet s' (alSet s (⟨sel, proto, port, []⟩ : IpSetData Sel) st.ipsets) =
      if s' = s then some ⟨sel, proto, port, []⟩ else alGet s' st.ipsets := fun s' => alGet_alSet _ _ _ _
  have hrc : ∀ s' m, refCount ({ st with ipsets := alSet s (⟨sel, proto, port, []⟩ : IpSetData Sel) st.ipsets } : Idx Sel) s' m
      = refCount st s' m := by
    intro s' m
    unfold refCount
    simp only [hget]
    by_cases hs : s' = s
    · subst hs; simp [habs, refOf]
    · simp [hs]
  have hnotc : ∀ p ∈ st.eps, s ∉ p.2.cached := by
    intro p hp hx
    have := hc.cachedPresent p hp s hx
    rw [habs] at this; cases this
  have hcontrib : ∀ (e : EpData) (s' : String), s' ≠ s →
      contribAt ({ st with ipsets := alSet s (⟨sel, proto, port, []⟩ : IpSetData Sel) st.ipsets } : Idx Sel) e s'
        = contribAt st e s' := by
    intro e s' hne; unfold contribAt; simp only [hget, hne, if_false]
  have hmatch : ∀ (e : EpData) (s' : String), s' ≠ s →
      matchAt matchSel ({ st with ipsets := alSet s (⟨sel, proto, port, []⟩ : IpSetData Sel) st.ipsets } : Idx Sel) e s'
        = matchAt matchSel st e s' := by
    intro e s' hne; unfold matchAt; simp only [hget, hne, if_false]; rfl
  apply addFold_inv matchSel _ _ hc.epsNodup
  · refine ⟨⟨einv_congr hc.wf.e rfl rfl (fun _ => rfl) (fun s' m => by rw [hrc]), hc.wf.nets, ?_, ?_⟩,
      hc.nb, hc.epsNodup, hc.cachedNodup, ?_, hc.parentsNodup, ?_⟩
    · exact keys_alSet_nodup hc.wf.sets
    · intro p hp
      rcases mem_alSet hp with rfl | hp
      · exact ⟨List.nodup_nil, fun q hq => by cases hq⟩
      · exact hc.wf.refwf p hp
    · intro p hp x hx
      show (alGet x (alSet s _ st.ipsets)).isSome = true
      rw [hget]
      by_cases hxs : x = s
      · simp [hxs]
      · simp only [hxs, if_false]; exact hc.cachedPresent p hp x hx
    · intro s' m
      rw [hrc, hc.refc]
      apply sumBy_congr
      intro p hp
      unfold term
      by_cases hs : s' = s
      · subst hs; simp [hnotc p hp]
      · rw [hcontrib p.2 s' hs]
  · exact ⟨⟨sel, proto, port, []⟩, by rw [hget]; simp, rfl⟩
  · intro p hp
    refine ⟨fun _ => hnotc p hp, fun hn => ?_⟩
    exact absurd (List.mem_map.2 ⟨p, hp, rfl⟩) hn
  · intro p hp s' hs'
    have := h.lab p hp s'
    unfold OK at this ⊢
    rw [hmatch p.2 s' hs', hcontrib p.2 s' hs']
    exact this

theorem deleteIPSetCore_present {st : Idx Sel} {s : String} {d : IpSetData Sel} (h : alGet s st.ipsets = some d) :
    deleteIPSetCore s st =
      { st with
        eps := st.eps.map (fun p => (p.1, { p.2 with cached := p.2.cached.filter (fun x => x ≠ s) }))
        ipsets := alErase s st.ipsets
        tries := alErase s st.tries } := by
  unfold deleteIPSetCore; simp only [h]

/-- `UpdateIPSet` keeps the invariant (new id, unchanged refresh, or changed contents). -/
theorem updateIPSet_inv {st : Idx Sel} (s : String) (sel : Sel) (proto : Nat) (port : String)
    (h : Inv matchSel st) : Inv matchSel (updateIPSet matchSel s sel proto port st) := by
  have hc := h.core
  unfold updateIPSet
  cases hget : alGet s st.ipsets with
  | none => exact addIPSet_inv matchSel s sel proto port h hget
  | some d =>
    simp only
    split
    · exact h
    · have hmemd : (s, d) ∈ st.ipsets := alGet_some_mem hget
      obtain ⟨knd, kpos⟩ := hc.wf.refwf _ hmemd
      have hpos : ∀ m ∈ d.refc.map (fun (q : Member × Nat) => q.1), 0 < refCount st s m := by
        intro m hm
        obtain ⟨q, hq, rfl⟩ := List.mem_map.1 hm
        rw [refCount_eq hget]
        unfold refOf
        rw [alGet_of_mem knd (show (q.1, q.2) ∈ d.refc from hq)]
        exact kpos q hq
      obtain ⟨wL, effL, rcL⟩ := forceRemoveAll_spec s (d.refc.map (fun (q : Member × Nat) => q.1)) hc.wf knd hpos
      generalize hL : (d.refc.map (fun (q : Member × Nat) => q.1)).foldl (fun st m => forceRemove s m st) st = stL at *
      have hzero : ∀ m, refCount stL s m = 0 := by
        intro m
        rw [rcL]
        by_cases hm : m ∈ d.refc.map (fun (q : Member × Nat) => q.1)
        · simp [hm]
        · simp only [hm, and_false, if_false]
          rw [refCount_eq hget]
          unfold refOf
          cases hx : alGet m d.refc with
          | none => rfl
          | some v => exact absurd (List.mem_map.2 ⟨_, alGet_some_mem hx, rfl⟩) hm
      have hpresL : (alGet s stL.ipsets).isSome = true := by rw [effL.present, hget]; rfl
      obtain ⟨dL, hgetL⟩ := Option.isSome_iff_exists.1 hpresL
      rw [deleteIPSetCore_present hgetL]
      apply addIPSet_inv
      · refine inv_after_delete matchSel (s := s) (st := stL) ⟨rfl, rfl, rfl, rfl, rfl, rfl⟩ ?_ wL
          (by rw [effL.bad]; exact hc.nb) (by rw [effL.eps]; exact hc.epsNodup)
          (fun p hp => hc.cachedNodup p (effL.eps ▸ hp))
          (fun p hp x hx => by rw [effL.present]; exact hc.cachedPresent p (effL.eps ▸ hp) x hx)
          (fun p hp => hc.parentsNodup p (effL.eps ▸ hp))
          (fun s' hs' m => by
            rw [rcL, effL.eps, sumBy_congr (fun p _ => term_congr (effL.cfg s') m p)]
            simp only [hs', false_and, if_false]
            exact hc.refc s' m)
          (lab_transfer matchSel h.lab (fun p hp => effL.eps ▸ hp) effL.cfg effL.parents)
        refine einv_remove_set (st := stL) (s := s) wL.e rfl ?_ ?_ (Or.inl ?_) (Or.inr ⟨rfl, hzero⟩)
        · intro s' m
          show refCount ({ stL with ipsets := alErase s stL.ipsets } : Idx Sel) s' m = _
          unfold refCount
          simp only [alGet_alErase]
          by_cases hs : s' = s <;> simp [hs]
        · intro s' hs
          show (alGet s' (alErase s stL.tries)).getD [] = trieOf stL s'
          rw [alGet_alErase]; simp [hs, trieOf]
        · show (alGet s (alErase s stL.tries)).getD [] = []
          rw [alGet_alErase]; simp
      · show alGet s (alErase s stL.ipsets) = none
        rw [alGet_alErase]; simp

end Sets
end CalicoVerif.C04
