import CalicoVerif.Proofs.C07Inv
import CalicoVerif.Proofs.C06Basic
/-! C07 helper lemmas: `LabelRestrictions()` never excludes a label map the selector
matches, and neither does the restriction index's candidate pruning. -/
namespace CalicoVerif.C07
open CalicoVerif.C06

/-- A label map satisfies one restriction on label `l`. -/
def Sat1 (ls : Labels) (l : Str) (r : Restriction) : Prop :=
  (r.mustBePresent = true → ls l ≠ none) ∧ (r.mustBeAbsent = true → ls l = none) ∧
  (∀ vs, r.values = some vs → ∃ x, ls l = some x ∧ x ∈ vs)

/-- A label map satisfies every restriction of the map. -/
def Satisfies (lrs : Restrictions) (ls : Labels) : Prop := ∀ l r, (l, r) ∈ lrs → Sat1 ls l r

theorem sat1_default (ls : Labels) (l : Str) : Sat1 ls l {} := by
  refine ⟨?_, ?_, ?_⟩ <;> simp

theorem mem_of_lookup {α β} [DecidableEq α] {k : α} {v : β} : ∀ {l : List (α × β)}, lookup k l = some v → (k, v) ∈ l
  | [], h => by simp [lookup] at h
  | (a, b) :: rest, h => by
    simp only [lookup] at h
    by_cases hak : a = k
    · simp only [hak, if_true, Option.some.injEq] at h
      simp [hak, h]
    · simp only [hak, if_false] at h
      exact List.mem_cons_of_mem _ (mem_of_lookup h)

theorem sat1_lookup_getD {lrs : Restrictions} {ls : Labels} (h : Satisfies lrs ls) (l : Str) :
    Sat1 ls l ((lookup l lrs).getD {}) := by
  cases hl : lookup l lrs with
  | none => exact sat1_default ls l
  | some r => exact h l r (mem_of_lookup hl)

theorem mem_erase {α β} [DecidableEq α] {k : α} {kv : α × β} {l : List (α × β)} (h : kv ∈ erase k l) : kv ∈ l := by
  unfold erase at h
  exact (List.mem_filter.mp h).1

theorem mem_intersectValues {a b : List Str} {x : Str} (ha : x ∈ a) (hb : x ∈ b) : x ∈ intersectValues a b := by
  simp [intersectValues, ha, hb]

theorem mem_unionValues_left {a b : List Str} {x : Str} (ha : x ∈ a) : x ∈ unionValues a b := by
  simp [unionValues, ha]

theorem mem_unionValues_right {a b : List Str} {x : Str} (hb : x ∈ b) : x ∈ unionValues a b := by
  by_cases ha : x ∈ a
  · exact mem_unionValues_left ha
  · simp [unionValues, ha, hb]

theorem satisfies_andMerge1 {lr : Restrictions} {ls : Labels} (h : Satisfies lr ls) {ln : Str} {r : Restriction}
    (hr : Sat1 ls ln r) : Satisfies (andMerge1 lr ln r) ls := by
  intro l r' hm
  unfold andMerge1 insert at hm
  rcases List.mem_cons.mp hm with e | hm
  · have hb := sat1_lookup_getD h ln
    generalize (lookup ln lr).getD {} = base at hb e
    cases e
    refine ⟨?_, ?_, ?_⟩
    · intro hp
      simp only [Bool.or_eq_true] at hp
      rcases hp with hp | hp
      · exact hb.1 hp
      · exact hr.1 hp
    · intro hp
      simp only [Bool.or_eq_true] at hp
      rcases hp with hp | hp
      · exact hb.2.1 hp
      · exact hr.2.1 hp
    · intro vs hvs
      cases hbv : base.values with
      | none => rw [hbv] at hvs; exact hr.2.2 vs hvs
      | some bv =>
        rw [hbv] at hvs
        obtain ⟨x, hx1, hx2⟩ := hb.2.2 bv hbv
        cases hrv : r.values with
        | none =>
          rw [hrv] at hvs
          cases hvs
          exact ⟨x, hx1, hx2⟩
        | some rv =>
          rw [hrv] at hvs
          cases hvs
          obtain ⟨y, hy1, hy2⟩ := hr.2.2 rv hrv
          rw [hx1] at hy1
          cases hy1
          exact ⟨x, hx1, mem_intersectValues hx2 hy2⟩
  · exact h l r' (mem_erase hm)

theorem satisfies_andMerge {ls : Labels} : ∀ (opLR lr : Restrictions), Satisfies lr ls → Satisfies opLR ls →
    Satisfies (andMerge lr opLR) ls
  | [], lr, h, _ => h
  | (ln, r) :: rest, lr, h, hop => by
    unfold andMerge
    simp only [List.foldl_cons]
    exact satisfies_andMerge rest _ (satisfies_andMerge1 h (hop ln r (List.mem_cons_self ..)))
      (fun l r' hm => hop l r' (List.mem_cons_of_mem _ hm))

theorem satisfies_orMerge {ls : Labels} {lr opLR : Restrictions}
    (h : Satisfies lr ls ∨ Satisfies opLR ls) : Satisfies (orMerge lr opLR) ls := by
  intro l r' hm
  unfold orMerge at hm
  obtain ⟨⟨l0, r⟩, hmem, hf⟩ := List.mem_filterMap.mp hm
  simp only [Option.map_eq_some_iff, Prod.mk.injEq] at hf
  obtain ⟨r'', hor, rfl, rfl⟩ := hf
  -- facts available from either side
  have hL : Satisfies lr ls → Sat1 ls l0 r := fun hs => hs l0 r hmem
  have hR : Satisfies opLR ls → Sat1 ls l0 ((lookup l0 opLR).getD {}) := fun hs => sat1_lookup_getD hs l0
  generalize (lookup l0 opLR).getD {} = opr at hor hR
  unfold orMerge1 at hor
  simp only [] at hor
  split at hor
  · rename_i hpa
    cases hor
    refine ⟨?_, ?_, ?_⟩
    · intro hp
      simp only [Bool.and_eq_true] at hp
      rcases h with hs | hs
      · exact (hL hs).1 hp.1
      · exact (hR hs).1 hp.2
    · intro hp
      simp only [Bool.and_eq_true] at hp
      rcases h with hs | hs
      · exact (hL hs).2.1 hp.1
      · exact (hR hs).2.1 hp.2
    · intro vs hvs
      simp only [] at hvs
      split at hvs
      · cases hvs
      · split at hvs
        · rename_i a b ha hb
          cases hvs
          rcases h with hs | hs
          · obtain ⟨x, hx1, hx2⟩ := (hL hs).2.2 a ha
            exact ⟨x, hx1, mem_unionValues_left hx2⟩
          · obtain ⟨x, hx1, hx2⟩ := (hR hs).2.2 b hb
            exact ⟨x, hx1, mem_unionValues_right hx2⟩
        · cases hvs
  · cases hor

theorem stringSetContains_mem {vs : List Str} {x : Str} (h : stringSetContains vs x = true) : x ∈ vs := by
  unfold stringSetContains at h
  split at h
  · rename_i v hv
    have hm := List.mem_of_find?_eq_some hv
    have : v = x := by simpa using h
    exact this ▸ hm
  · cases h

theorem satisfies_single {ls : Labels} {l : Str} {r : Restriction} (h : Sat1 ls l r) : Satisfies [(l, r)] ls := by
  intro l' r' hm
  simp only [List.mem_singleton, Prod.mk.injEq] at hm
  obtain ⟨rfl, rfl⟩ := hm
  exact h

theorem satisfies_nil (ls : Labels) : Satisfies [] ls := fun _ _ hm => by cases hm

theorem satisfies_restrictionsAnd {ls : Labels} : ∀ (ns : List Node) (acc : Restrictions),
    (∀ n ∈ ns, n.eval ls = true → Satisfies (restrictions n) ls) → Satisfies acc ls →
    Node.evalAll ls ns = true → Satisfies (restrictionsAnd acc ns) ls
  | [], acc, _, hacc, _ => by simpa [restrictionsAnd] using hacc
  | n :: ns, acc, ih, hacc, hev => by
    simp only [Node.evalAll, Bool.and_eq_true] at hev
    rw [restrictionsAnd]
    exact satisfies_restrictionsAnd ns _ (fun m hm => ih m (List.mem_cons_of_mem _ hm))
      (satisfies_andMerge _ _ hacc (ih n (List.mem_cons_self ..) hev.1)) hev.2

theorem satisfies_restrictionsOr {ls : Labels} : ∀ (ns : List Node) (acc : Restrictions),
    (∀ n ∈ ns, n.eval ls = true → Satisfies (restrictions n) ls) →
    (Satisfies acc ls ∨ Node.evalAny ls ns = true) → Satisfies (restrictionsOr acc ns) ls
  | [], acc, _, h => by
    rcases h with h | h
    · simpa [restrictionsOr] using h
    · simp [Node.evalAny] at h
  | n :: ns, acc, ih, h => by
    rw [restrictionsOr]
    apply satisfies_restrictionsOr ns _ (fun m hm => ih m (List.mem_cons_of_mem _ hm))
    rcases h with h | h
    · exact Or.inl (satisfies_orMerge (Or.inl h))
    · simp only [Node.evalAny, Bool.or_eq_true] at h
      rcases h with h | h
      · exact Or.inl (satisfies_orMerge (Or.inr (ih n (List.mem_cons_self ..) h)))
      · exact Or.inr h

theorem sat1_present {ls : Labels} {l x : Str} (hl : ls l = some x) : Sat1 ls l { mustBePresent := true } := by
  refine ⟨fun _ => ?_, fun hh => ?_, fun vs hvs => ?_⟩
  · simp [hl]
  · cases hh
  · cases hvs

theorem sat1_present_values {ls : Labels} {l x : Str} {vs : List Str} (hl : ls l = some x) (hx : x ∈ vs) :
    Sat1 ls l { mustBePresent := true, values := some vs } := by
  refine ⟨fun _ => ?_, fun hh => ?_, fun vs' hvs => ?_⟩
  · simp [hl]
  · cases hh
  · cases hvs; exact ⟨x, hl, hx⟩

theorem sat1_absent {ls : Labels} {l : Str} (hl : ls l = none) : Sat1 ls l { mustBeAbsent := true } := by
  refine ⟨fun hh => ?_, fun _ => hl, fun vs hvs => ?_⟩
  · cases hh
  · cases hvs

/-- MAIN: a label map matched by a selector satisfies the selector's `LabelRestrictions()`. -/
theorem restrictions_sound_aux (ls : Labels) : ∀ t : Node, t.eval ls = true → Satisfies (restrictions t) ls := by
  intro t
  induction t using Node.ind with
  | eq l v =>
    intro h
    rw [restrictions]
    apply satisfies_single
    simp only [Node.eval] at h
    cases hl : ls l with
    | none => simp [hl] at h
    | some x =>
      simp only [hl, decide_eq_true_eq] at h
      exact sat1_present_values hl (by simp [h])
  | ne l v => intro _; rw [restrictions]; exact satisfies_nil ls
  | contains l v =>
    intro h
    rw [restrictions]
    apply satisfies_single
    simp only [Node.eval] at h
    cases hl : ls l with
    | none => simp [hl] at h
    | some x => exact sat1_present hl
  | startsWith l v =>
    intro h
    rw [restrictions]
    apply satisfies_single
    simp only [Node.eval] at h
    cases hl : ls l with
    | none => simp [hl] at h
    | some x => exact sat1_present hl
  | endsWith l v =>
    intro h
    rw [restrictions]
    apply satisfies_single
    simp only [Node.eval] at h
    cases hl : ls l with
    | none => simp [hl] at h
    | some x => exact sat1_present hl
  | inSet l vs =>
    intro h
    rw [restrictions]
    apply satisfies_single
    simp only [Node.eval] at h
    cases hl : ls l with
    | none => simp [hl] at h
    | some x =>
      simp only [hl] at h
      split
      · exact sat1_present hl
      · exact sat1_present_values hl (stringSetContains_mem h)
  | notInSet l vs => intro _; rw [restrictions]; exact satisfies_nil ls
  | has l =>
    intro h
    rw [restrictions]
    apply satisfies_single
    simp only [Node.eval] at h
    cases hl : ls l with
    | none => simp [hl] at h
    | some x => exact sat1_present hl
  | all => intro _; rw [restrictions]; exact satisfies_nil ls
  | global => intro _; rw [restrictions]; exact satisfies_nil ls
  | not n _ =>
    intro h
    cases n with
    | has l =>
      rw [restrictions]
      apply satisfies_single
      simp only [Node.eval, Bool.not_eq_true', Option.isSome_eq_false_iff, Option.isNone_iff_eq_none] at h
      exact sat1_absent h
    | _ => rw [restrictions] <;> first | exact satisfies_nil ls | (intro l hh; cases hh)
  | and ns ih =>
    intro h
    rw [restrictions]
    simp only [Node.eval] at h
    exact satisfies_restrictionsAnd ns [] ih (satisfies_nil ls) h
  | or ns ih =>
    intro h
    cases ns with
    | nil => rw [restrictions]; exact satisfies_nil ls
    | cons n ns =>
      rw [restrictions]
      simp only [Node.eval, Node.evalAny, Bool.or_eq_true] at h
      apply satisfies_restrictionsOr ns _ (fun m hm => ih m (List.mem_cons_of_mem _ hm))
      rcases h with h | h
      · exact Or.inl (ih n (List.mem_cons_self ..) h)
      · exact Or.inr h

/-! ### candidate pruning -/

theorem findMostRestricted_mem : ∀ {lrs : Restrictions} {l : Str} {r : Restriction},
    findMostRestricted lrs = some (l, r) → (l, r) ∈ lrs
  | [], _, _, h => by simp [findMostRestricted] at h
  | (a, b) :: rest, l, r, h => by
    rw [findMostRestricted] at h
    split at h
    · cases h; exact List.mem_cons_self ..
    · rename_i l' r' hrec
      split at h
      · cases h; exact List.mem_cons_self ..
      · cases h; exact List.mem_cons_of_mem _ (findMostRestricted_mem hrec)

theorem ofList_some {kvs : List (Str × Str)} {k v : Str} (h : Labels.ofList kvs k = some v) : (k, v) ∈ kvs := by
  unfold Labels.ofList at h
  simp only [Option.map_eq_some_iff] at h
  obtain ⟨⟨a, b⟩, hf, rfl⟩ := h
  have hm := List.mem_of_find?_eq_some hf
  have hp := List.find?_some hf
  simp only [decide_eq_true_eq] at hp
  subst hp
  exact hm

/-- MAIN: the restriction index never prunes a selector that matches the item. -/
theorem candidates_complete_aux (n : Node) (kvs : List (Str × Str))
    (h : n.eval (Labels.ofList kvs) = true) : isCandidate n kvs = true := by
  have hs := restrictions_sound_aux (Labels.ofList kvs) n h
  unfold isCandidate filing
  cases hf : findMostRestricted (restrictions n) with
  | none => rfl
  | some p =>
    obtain ⟨l, r⟩ := p
    have hsat := hs l r (findMostRestricted_mem hf)
    simp only []
    have hposs : r.possible = true := by
      unfold Restriction.possible
      simp only [Bool.and_eq_true, Bool.not_eq_true', Bool.and_eq_false_imp]
      refine ⟨fun hp => ?_, ?_⟩
      · cases ha : r.mustBeAbsent with
        | false => rfl
        | true => exact absurd (hsat.2.1 ha) (hsat.1 hp)
      · cases hv : r.values with
        | none => rfl
        | some vs =>
          obtain ⟨x, _, hx⟩ := hsat.2.2 vs hv
          cases vs with
          | nil => cases hx
          | cons _ _ => rfl
    simp only [hposs, Bool.not_true, Bool.false_eq_true, if_false]
    cases hv : r.values with
    | some vs =>
      obtain ⟨x, hx1, hx2⟩ := hsat.2.2 vs hv
      simp only [List.any_eq_true, Bool.and_eq_true, decide_eq_true_eq]
      exact ⟨(l, x), ofList_some hx1, rfl, by simpa using hx2⟩
    | none =>
      by_cases hp : r.mustBePresent = true
      · simp only [hp, if_true]
        cases hl : Labels.ofList kvs l with
        | none => exact absurd hl (hsat.1 hp)
        | some x =>
          simp only [List.any_eq_true, decide_eq_true_eq]
          exact ⟨(l, x), ofList_some hl, rfl⟩
      · simp [hp]

end CalicoVerif.C07
