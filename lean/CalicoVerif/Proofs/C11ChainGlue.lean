import CalicoVerif.Proofs.C11Chain
/-!
C11 — machine-level lemmas for the glue of a split build: the header of a continuation program, the
copy of the footer, landing pads, the `next-program` block, the dispatch at the start of the next program.
-/
namespace CalicoVerif.C11

theorem StSim.trans {st st1 st2 : List Byte} (h1 : StSim st st1) (h2 : StSim st1 st2) : StSim st st2 :=
  ⟨h2.len, fun j hj => (h2.same j hj).trans (h1.same j hj), h2.flags.trans h1.flags⟩

/-- The header of a continuation program: the state it finds is the one the previous program left. -/
theorem lrun_header' (env : Env) (st st1 : List Byte) (hsim : StSim st st1) (hlen : st.length = 512)
    (hs : env.stateOK = true) (rest : List Ev) :
    ∃ m, Inv st m ∧ m.st = st1 ∧ lrun env (headerEvs env.c ++ rest) (Mach.init st1) = lrun env rest m := by
  have e1 := fun nxt => step_mov64 env (Mach.init st1) 6 1 0 0 nxt ctxW (by omega) rfl
  have e2 := fun nxt => step_movImm64 env ((Mach.init st1).setReg 6 ctxW) 1 0 0 nxt (by omega)
  have e3 := fun nxt => step_stx_stack' (env := env) (m := ((Mach.init st1).setReg 6 ctxW).setReg 1 (sext32 0))
    (h10 := rfl) opStoreReg32 1 508 4 0 nxt (sext32 0) (Or.inr (Or.inr (Or.inl ⟨rfl, rfl⟩))) (by omega) rfl
  refine ⟨(((((({ (((Mach.init st1).setReg 6 ctxW).setReg 1 (sext32 0)) with
      stack := writeStack (fun _ => none) 508 (toLE 0 4) } : Mach).setReg 2 stackW).setReg 2
      (stackW + sext32 (-4))).setReg 1 (mapHandle env.c.stateMapFD)).clobber).setReg 0 stateW).setReg 9 stateW, ?_, rfl, ?_⟩
  · exact { r6 := rfl, r9 := rfl, r10 := rfl, regsLen := rfl, sim := hsim, stLen := hlen }
  · simp only [headerEvs, mov64, movImm64, storeStack32, addImm64, call, jumpEqImm64, mk, mkJ, R0, R1, R2, R6, R9, R10,
      offStateKey, List.cons_append, List.nil_append, List.append_assoc]
    rw [lrun_label]
    refine (lrun_ins_next (e1 _)).trans ?_
    refine (lrun_ins_next (e2 _)).trans ?_
    refine (lrun_ins_next (e3 _)).trans ?_
    refine (lrun_ins_next (step_mov64 env _ 2 10 0 0 _ stackW (by omega) rfl)).trans ?_
    refine (lrun_ins_next (step_addImm64 env _ 2 0 (-4) _ stackW (by omega) rfl)).trans ?_
    refine (lrun_loadMapFD env _ 1 _ _ (by omega)).trans ?_
    refine (lrun_ins_next (step_call_state env _ _ rfl rfl rfl hs)).trans ?_
    have hj := step_jcond64 (env := env) (m := (((((({ (((Mach.init st1).setReg 6 ctxW).setReg 1 (sext32 0)) with
      stack := writeStack (fun _ => none) 508 (toLE 0 4) } : Mach).setReg 2 stackW).setReg 2
      (stackW + sext32 (-4))).setReg 1 (mapHandle env.c.stateMapFD)).clobber).setReg 0 stateW))
      opJumpEqImm64 0 0 0 none stateW (Or.inl rfl) rfl
    have hc : cond (opJumpEqImm64 / 16) stateW (sext32 0) = some false := by decide
    rw [hc] at hj
    refine (lrun_jmp_next (by decide) hj).trans ?_
    refine (lrun_ins_next (step_mov64 env _ 9 0 0 0 _ stateW (by omega) rfl)).trans ?_
    rw [lrun_label]

/-! ### The footer's outcomes are final -/

theorem footer_deny_out (env : Env) (st : List Byte) (m : Mach) (xdp : Bool) (hI : Inv st m) :
    (goto env .deny (footerEvs env.c xdp) m).final env ∧ agreesV env xdp .deny (goto env .deny (footerEvs env.c xdp) m) := by
  rw [footerEvs_eq, goto_label_self]
  obtain ⟨m2, hst, _, hl2, hrun⟩ := lrun_verdictBlock env m policyDeny env.c.denyJmp false
    (exitTargetEvs xdp ++ ((if xdp then [.label .xdpPass, movImm64 R0 2, exitI] else []) ++
        (.label .allow :: (verdictBlock env.c policyAllow env.c.allowJmp skbCb0 ++
          [movImm32 R1 policyTailCallFailed, store32 R9 R1 stateOffPolResult, movImm64 R0 (if xdp then 1 else 2), exitI]))))
    hI.r6 hI.r9 hI.regsLen
  simp only [Bool.false_eq_true, if_false] at hrun
  have hrc : (getBytes (writeAt m.st 92 (toLE (vWord policyDeny).toNat 4)) 92 4).map leNat = some 2 := by
    rw [rc_after_store m.st _ hI.sim.len]
    rfl
  by_cases ht : env.tailOK = true
  · rw [ht] at hrun
    simp only [if_true] at hrun
    rw [hrun]
    refine ⟨rfl, _, rfl, ?_⟩
    simp only [expectedObs, ht, if_true, Obs.agrees, st_setReg, hrc, blockIdx_toNat]
    simp
  · have ht' : env.tailOK = false := by simpa using ht
    rw [ht'] at hrun
    simp only [Bool.false_eq_true, if_false] at hrun
    rw [hrun]
    simp only [exitTargetEvs, List.cons_append, List.nil_append]
    rw [lrun_label, lrun_set_exit env m2 _ _ hl2]
    refine ⟨trivial, _, rfl, ?_⟩
    simp only [expectedObs, ht', Bool.false_eq_true, if_false, Obs.agrees, st_setReg, hst, hrc]
    cases xdp <;> simp [sext32]

theorem footer_allow_out (env : Env) (st : List Byte) (m : Mach) (xdp : Bool) (hI : Inv st m) :
    (goto env .allow (footerEvs env.c xdp) m).final env ∧ agreesV env xdp .allow (goto env .allow (footerEvs env.c xdp) m) := by
  rw [goto_allow_footer]
  obtain ⟨m2, hst, h9, hl2, hrun⟩ := lrun_verdictBlock env m policyAllow env.c.allowJmp true
    [movImm32 R1 policyTailCallFailed, store32 R9 R1 stateOffPolResult, movImm64 R0 (if xdp then 1 else 2), exitI]
    hI.r6 hI.r9 hI.regsLen
  simp only [if_true] at hrun
  have hlen : m.st.length = 512 := hI.sim.len
  have hrc : (getBytes (writeAt m.st 92 (toLE (vWord policyAllow).toNat 4)) 92 4).map leNat = some 1 := by
    rw [rc_after_store m.st _ hlen]
    rfl
  by_cases ht : env.tailOK = true
  · rw [ht] at hrun
    simp only [if_true] at hrun
    rw [hrun]
    refine ⟨rfl, _, rfl, ?_⟩
    simp only [expectedObs, ht, if_true, Obs.agrees, st_setReg, hrc, blockIdx_toNat]
    simp
  · have ht' : env.tailOK = false := by simpa using ht
    rw [ht'] at hrun
    simp only [Bool.false_eq_true, if_false] at hrun
    rw [hrun]
    have r1 : (m2.setReg 1 (vWord policyTailCallFailed)).reg 1 = some (vWord policyTailCallFailed) :=
      reg_setReg_eq (by omega)
    have r9 : (m2.setReg 1 (vWord policyTailCallFailed)).reg 9 = some stateW := by
      rw [reg_setReg_ne (by omega)]; exact h9
    have hfin : lrun env [movImm32 R1 policyTailCallFailed, store32 R9 R1 stateOffPolResult,
        movImm64 R0 (if xdp then 1 else 2), exitI] m2 =
        .exit (sext32 (if xdp then 1 else 2))
          (({ (m2.setReg 1 (vWord policyTailCallFailed)) with
            st := writeAt m2.st 92 (toLE (vWord policyTailCallFailed).toNat 4) } : Mach).setReg 0
              (sext32 (if xdp then 1 else 2))) := by
      simp only [movImm32, store32, mk, R1, R9, stateOffPolResult, stateEventHdrSize]
      refine (lrun_ins_next (step_movImm32 env m2 1 0 _ _ (by omega))).trans ?_
      refine (lrun_ins_next (step_stx32_state (env := env) r9 1 92 0 _ _ (by omega) r1)).trans ?_
      exact lrun_set_exit env _ _ _ (by simp [Mach.setReg, hl2])
    rw [hfin]
    refine ⟨trivial, _, rfl, ?_⟩
    have hrc2 : (getBytes (writeAt m2.st 92 (toLE (vWord policyTailCallFailed).toNat 4)) 92 4).map leNat = some 10 := by
      rw [rc_after_store m2.st _ (by rw [hst, writeAt_length _ _ _ (by rw [toLE_length]; omega)]; exact hlen)]
      rfl
    simp only [expectedObs, ht', Bool.false_eq_true, if_false, Obs.agrees, st_setReg, hrc2]
    cases xdp <;> simp [sext32]

theorem footer_xdp_out (env : Env) (st : List Byte) (m : Mach) (hI : Inv st m) :
    (goto env .xdpPass (footerEvs env.c true) m).final env ∧ agreesV env true .xdpPass (goto env .xdpPass (footerEvs env.c true) m) := by
  rw [footerEvs_eq, goto_cons_label_ne env _ m (by simp),
    goto_append _ m (by rw [labelsOf_verdictBlock]; simp),
    goto_append _ m (by simp [exitTargetEvs, labelsOf, movImm64, exitI, mk])]
  simp only [if_true, List.cons_append, List.nil_append]
  rw [goto_label_self, lrun_set_exit env m 2 _ hI.regsLen]
  refine ⟨trivial, _, rfl, ?_⟩
  simp [expectedObs, Obs.agrees, sext32]

/-- Jumping to a footer label: the verdict it names, as a final outcome, whatever follows the footer. -/
theorem footer_out (env : Env) (st : List Byte) (xdp : Bool) (l : Label) (V : Verdict) (hV : vOf l = some V)
    (hx : l = .xdpPass → xdp = true) (tl : List Ev) (m : Mach) (hI : Inv st m) :
    (goto env l (footerEvs env.c xdp ++ tl) m).final env ∧ agreesV env xdp V (goto env l (footerEvs env.c xdp ++ tl) m) := by
  have key : (goto env l (footerEvs env.c xdp) m).final env ∧ agreesV env xdp V (goto env l (footerEvs env.c xdp) m) := by
    cases l <;> simp only [vOf, Option.some.injEq, reduceCtorEq] at hV
    · subst hV; exact footer_deny_out env st m xdp hI
    · subst hV; exact footer_allow_out env st m xdp hI
    · subst hV; rw [hx rfl]; exact footer_xdp_out env st m hI
  rw [goto_append_nofault env l _ tl m (final_nofault key.1)]
  exact key


/-! ### Landing pads -/

theorem idxOf_cons_self' (t : Label) (ts : List Label) : (t :: ts).idxOf t = 0 := by simp

theorem idxOf_cons_ne' {t l : Label} (ts : List Label) (h : ¬ t = l) : (t :: ts).idxOf l = ts.idxOf l + 1 := by
  have hb : (t == l) = false := by simpa using h
  simp [List.idxOf_cons, hb]


theorem labelsOf_landingPads : ∀ (T : List Label) (j : Nat), labelsOf (landingPads T j) = T := by
  intro T
  induction T with
  | nil => intro j; rfl
  | cons t ts ih =>
    intro j
    cases ts with
    | nil => simp [landingPads, labelsOf, movImm64, mk]
    | cons t2 ts2 =>
      have := ih (j + 1)
      simp only [landingPads, List.cons_append, List.nil_append, labelsOf, movImm64, mk, jump, mkJ, this]

/-- Jumping to the landing pad of `l`: R0 := its index + 1, continue after the `next-program` label. -/
theorem goto_pad (env : Env) (rest : List Ev) :
    ∀ (T : List Label) (j : Nat) (l : Label) (m : Mach), l ∈ T → Label.nextProgram ∉ T → m.regs.length = 11 →
      goto env l (landingPads T j ++ (Ev.label .nextProgram :: rest)) m =
        lrun env rest (m.setReg 0 (sext32 (((j + T.idxOf l + 1 : Nat) : Int)))) := by
  intro T
  induction T with
  | nil => intro j l m h; cases h
  | cons t ts ih =>
    intro j l m hl hnp hlen
    have hnpt : t ≠ .nextProgram := fun e => hnp (by rw [e]; exact List.mem_cons_self)
    have hnps : Label.nextProgram ∉ ts := fun h => hnp (List.mem_cons_of_mem _ h)
    by_cases hlt : t = l
    · subst hlt
      have hidx : (t :: ts).idxOf t = 0 := idxOf_cons_self' t ts
      rw [hidx]
      cases ts with
      | nil =>
        simp only [landingPads, List.cons_append, List.nil_append]
        rw [goto_label_self]
        unfold movImm64 mk R0
        refine (lrun_ins_next (step_movImm64 env m 0 0 _ _ (by omega))).trans ?_
        rw [lrun_label]
        congr 2
      | cons t2 ts2 =>
        simp only [landingPads, List.cons_append, List.nil_append]
        rw [goto_label_self]
        unfold movImm64 mk R0
        refine (lrun_ins_next (step_movImm64 env m 0 0 _ _ (by omega))).trans ?_
        rw [lrun_jump, goto_append _ _ (by rw [labelsOf_landingPads]; exact hnps), goto_label_self]
        congr 2
    · have hl' : l ∈ ts := by
        rcases List.mem_cons.1 hl with e | e
        · exact absurd e.symm hlt
        · exact e
      have hidx : (t :: ts).idxOf l = ts.idxOf l + 1 := idxOf_cons_ne' ts hlt
      cases ts with
      | nil => cases hl'
      | cons t2 ts2 =>
        simp only [landingPads, List.cons_append, List.nil_append]
        rw [goto_cons_label_ne env _ m hlt]
        unfold movImm64 mk jump mkJ
        rw [goto_cons_ins, goto_cons_jmp, ih (j + 1) l m hl' hnps hlen, hidx]
        congr 3
        omega

/-! ### The `next-program` block -/

theorem step_tail_policy (env : Env) (m : Mach) (r3 : Word) (nxt : Option Insn)
    (hne : mapHandle env.c.policyJumpMapFD ≠ mapHandle env.c.staticJumpMapFD) (hok : env.polTailOK = true)
    (h1 : m.reg 1 = some ctxW) (h2 : m.reg 2 = some (mapHandle env.c.policyJumpMapFD)) (h3 : m.reg 3 = some r3) :
    step env ⟨opCall, 0, 0, 0, helperTailCall⟩ nxt m =
      .tail env.c.policyJumpMapFD ((r3.setWidth 32).setWidth 64) m := by
  simp [step, opCall, opLoadImm64, opJumpA, opExit, helperCall, helperTailCall, helperMapLookupElem, h1, h2, h3, ctxW,
    hne, hok]

/-- The body of the `next-program` block (everything after its label). -/
def npBody (c : Cfg) (xdp : Bool) (idx : Int) : List Ev :=
  [store32 R9 R0 stateOffPolResult, mov64 R1 R6] ++ loadMapFD R2 c.policyJumpMapFD ++
    [movImm64 R3 idx, call helperTailCall] ++ exitTargetEvs xdp

theorem npBlock_eq (c : Cfg) (xdp : Bool) (idx : Int) : npBlock c xdp idx = Ev.label .nextProgram :: npBody c xdp idx := by
  simp [npBlock, npBody]

/-- Stash R0 in `pol_rc`, tail-call the slot of the next program. -/
theorem lrun_npBody (env : Env) (st : List Byte) (xdp : Bool) (idx : Int) (tl : List Ev) (m : Mach) (v : Word)
    (hne : mapHandle env.c.policyJumpMapFD ≠ mapHandle env.c.staticJumpMapFD) (hok : env.polTailOK = true)
    (hI : Inv st m) (h0 : m.reg 0 = some v) :
    ∃ m', m'.st = writeAt m.st 92 (toLE v.toNat 4) ∧
      lrun env (npBody env.c xdp idx ++ tl) m =
        .tail env.c.policyJumpMapFD (((sext32 idx).setWidth 32).setWidth 64) m' := by
  have rl : ∀ r, r < 11 → r < m.regs.length := fun r hr => by rw [hI.regsLen]; exact hr
  have e1 := fun nxt => step_stx32_state (env := env) hI.r9 0 92 0 nxt v (by omega) h0
  refine ⟨((({ m with st := writeAt m.st 92 (toLE v.toNat 4) } : Mach).setReg 1 ctxW).setReg 2
    (mapHandle env.c.policyJumpMapFD)).setReg 3 (sext32 idx), rfl, ?_⟩
  simp only [npBody, store32, mov64, movImm64, call, mk, R0, R1, R2, R3, R6, R9, stateOffPolResult, stateEventHdrSize,
    List.cons_append, List.nil_append, List.append_assoc]
  refine (lrun_ins_next (e1 _)).trans ?_
  refine (lrun_ins_next (step_mov64 env ({ m with st := writeAt m.st 92 (toLE v.toNat 4) } : Mach) 1 6 0 0 _ ctxW (by omega) hI.r6)).trans ?_
  refine (lrun_loadMapFD env _ 2 _ _ (by omega)).trans ?_
  refine (lrun_ins_next (step_movImm64 env _ 3 0 idx _ (by omega))).trans ?_
  refine lrun_ins_tail (step_tail_policy env _ (sext32 idx) _ hne hok ?_ ?_ ?_)
  · rw [reg_setReg_ne (by omega), reg_setReg_ne (by omega)]
    exact reg_setReg_eq (by simpa using rl 1 (by omega))
  · rw [reg_setReg_ne (by omega)]
    exact reg_setReg_eq (by simpa [Mach.setReg] using rl 2 (by omega))
  · exact reg_setReg_eq (by simpa [Mach.setReg] using rl 3 (by omega))

/-! ### The dispatch at the start of a continuation program -/

theorem labelsOf_trampolineJumps : ∀ (T : List Label) (j : Nat), labelsOf (trampolineJumps T j) = [] := by
  intro T
  induction T with
  | nil => intro j; rfl
  | cons t ts ih => intro j; simp only [trampolineJumps, labelsOf, jumpEqImm64, mkJ, ih]

theorem lrun_jr0 (env : Env) (m : Mach) (v k : Nat) (l : Label) (r : List Ev)
    (h0 : m.reg 0 = some (BitVec.ofNat 64 v)) (hv : v < 2 ^ 64) (hk : k < 2 ^ 64) :
    lrun env (jumpEqImm64 R0 (k : Int) l :: r) m = if v = k then goto env l r m else lrun env r m := by
  have hs := step_jcond64 (env := env) opJumpEqImm64 0 0 (k : Int) none _ (Or.inl rfl) h0
  have hc : cond (opJumpEqImm64 / 16) (BitVec.ofNat 64 v) (sext32 (k : Int)) = some (v == k) := cond_eq_nat hv hk
  rw [hc] at hs
  unfold jumpEqImm64 mkJ R0
  by_cases h : v = k
  · simp only [h, beq_self_eq_true, if_true] at hs ⊢
    exact lrun_jmp_taken (by simp [Insn.isJumpOp, opJumpEqImm64]) hs
  · have hb : (v == k) = false := by simpa using h
    simp only [hb, h, if_false] at hs ⊢
    exact lrun_jmp_next (by simp [Insn.isJumpOp, opJumpEqImm64]) hs

/-- R0 = 0: no dispatch jump is taken. -/
theorem dispatch_zero (env : Env) (rest : List Ev) (m : Mach) (h0 : m.reg 0 = some (BitVec.ofNat 64 0)) :
    ∀ (T : List Label) (j : Nat), j + T.length < 2 ^ 64 →
      lrun env (trampolineJumps T j ++ rest) m = lrun env rest m := by
  intro T
  induction T with
  | nil => intro j _; rfl
  | cons t ts ih =>
    intro j hb
    simp only [List.length_cons] at hb
    simp only [trampolineJumps, List.cons_append]
    have := lrun_jr0 env m 0 (j + 1) t (trampolineJumps ts (j + 1) ++ rest) h0 (by omega) (by omega)
    push_cast at this
    rw [this]
    exact ih (j + 1) (by omega)

/-- R0 = index of `l` + 1: the dispatch jumps to `l`. -/
theorem dispatch_hit (env : Env) (rest : List Ev) (m : Mach) (l : Label) :
    ∀ (T : List Label) (j : Nat), l ∈ T → j + T.length < 2 ^ 64 →
      m.reg 0 = some (BitVec.ofNat 64 (j + T.idxOf l + 1)) →
      lrun env (trampolineJumps T j ++ rest) m = goto env l rest m := by
  intro T
  induction T with
  | nil => intro j h; cases h
  | cons t ts ih =>
    intro j hl hb h0
    simp only [List.length_cons] at hb
    simp only [trampolineJumps, List.cons_append]
    have hidxle : (t :: ts).idxOf l < (t :: ts).length := List.idxOf_lt_length_of_mem hl
    simp only [List.length_cons] at hidxle
    have := lrun_jr0 env m (j + (t :: ts).idxOf l + 1) (j + 1) t (trampolineJumps ts (j + 1) ++ rest) h0 (by omega) (by omega)
    push_cast at this
    rw [this]
    by_cases hlt : t = l
    · subst hlt
      rw [idxOf_cons_self' t ts, Nat.add_zero, if_pos rfl]
      rw [goto_append _ m (by rw [labelsOf_trampolineJumps]; simp)]
    · have hl' : l ∈ ts := by
        rcases List.mem_cons.1 hl with e | e
        · exact absurd e.symm hlt
        · exact e
      have hidx : (t :: ts).idxOf l = ts.idxOf l + 1 := idxOf_cons_ne' ts hlt
      rw [hidx, if_neg (by omega)]
      exact ih (j + 1) hl' (by omega) (by rw [h0, hidx]; congr 2; omega)

/-! ### Which program a slot holds -/

theorem slot_of_split (c : Cfg) (k : Nat) (h0 : 0 ≤ c.policyMapIndex) (hs : 0 < c.policyMapStride)
    (hb : c.policyMapIndex + ((k : Int) + 1) * c.policyMapStride < 4294967296) :
    slotToProg c (((sext32 (c.policyMapIndex + ((k + 1 : Nat) : Int) * c.policyMapStride)).setWidth 32).setWidth 64) =
      some (k + 1) := by
  have hnn : 0 ≤ c.policyMapIndex + ((k + 1 : Nat) : Int) * c.policyMapStride := by
    have : 0 ≤ ((k + 1 : Nat) : Int) * c.policyMapStride := Int.mul_nonneg (by omega) (by omega)
    omega
  obtain ⟨n, hn⟩ : ∃ n : Nat, c.policyMapIndex + ((k + 1 : Nat) : Int) * c.policyMapStride = (n : Int) :=
    ⟨_, (Int.toNat_of_nonneg hnn).symm⟩
  have hnlt : n < 4294967296 := by
    have : (n : Int) < 4294967296 := by rw [← hn]; push_cast; exact hb
    omega
  have htn : ((((sext32 (n : Int)).setWidth 32).setWidth 64 : Word)).toNat = n := by
    rw [sext32_nat]
    simp only [BitVec.toNat_setWidth, BitVec.toNat_ofNat]
    omega
  unfold slotToProg
  rw [hn, htn]
  have hd : (n : Int) - c.policyMapIndex = ((k + 1 : Nat) : Int) * c.policyMapStride := by omega
  simp only [hd]
  have h1 : ((k + 1 : Nat) : Int) * c.policyMapStride % c.policyMapStride = 0 := Int.mul_emod_left _ _
  have h2 : ((k + 1 : Nat) : Int) * c.policyMapStride / c.policyMapStride = ((k + 1 : Nat) : Int) :=
    Int.mul_ediv_cancel _ (by omega)
  have h3 : ((k + 1 : Nat) : Int) * c.policyMapStride ≥ 0 := Int.mul_nonneg (by omega) (by omega)
  rw [if_pos ⟨hs, h3, h1⟩, h2]
  simp


/-! ### Bookkeeping at a split -/

theorem Live_append : ∀ (a b : List Ev), Live a = true → MayFall a = true → Live b = true → Live (a ++ b) = true := by
  intro a
  induction a with
  | nil => intro b _ _ hb; exact hb
  | cons e r ih =>
    intro b ha hf hb
    cases r with
    | nil =>
      simp only [Live, Bool.not_eq_true'] at ha
      simp only [MayFall, List.getLast?_singleton, Bool.not_eq_true'] at hf
      cases b with
      | nil => simp [Live, ha]
      | cons e2 b2 => simp only [List.cons_append, List.nil_append, Live, ha, hf, Bool.not_false, Bool.true_and]; exact hb
    | cons e2 r2 =>
      simp only [Live, Bool.and_eq_true, Bool.not_eq_true'] at ha
      have hf' : MayFall (e2 :: r2) = true := by simpa [MayFall] using hf
      have := ih b ha.2 hf' hb
      simp only [List.cons_append] at this ⊢
      simp only [Live, ha.1.1, ha.1.2, Bool.not_false, Bool.true_and]
      exact this

theorem MayFall_append (a b : List Ev) (hb : b ≠ []) : MayFall (a ++ b) = MayFall b := by
  unfold MayFall
  have : (a ++ b).getLast? = b.getLast? := by
    cases b with
    | nil => exact absurd rfl hb
    | cons e r =>
      rw [List.getLast?_append]
      have : (e :: r).getLast? = some ((e :: r).getLast (by simp)) := List.getLast?_eq_some_getLast (by simp)
      rw [this]; rfl
  rw [this]

theorem Live_trampolineJumps : ∀ (T : List Label) (j : Nat), Live (trampolineJumps T j) = true ∧ MayFall (trampolineJumps T j) = true := by
  intro T
  induction T with
  | nil => intro j; exact ⟨rfl, rfl⟩
  | cons t ts ih =>
    intro j
    obtain ⟨h1, h2⟩ := ih (j + 1)
    have hu : (jumpEqImm64 R0 ((j : Int) + 1) t).uncond = false := by
      simp [jumpEqImm64, mkJ, Ev.uncond, opJumpEqImm64, opJumpA, opExit]
    have hl : (jumpEqImm64 R0 ((j : Int) + 1) t).isLabel = false := rfl
    cases hts : trampolineJumps ts (j + 1) with
    | nil =>
      simp only [trampolineJumps, hts]
      refine ⟨by simp [Live, hl], by simp [MayFall, hu]⟩
    | cons e2 r2 =>
      simp only [trampolineJumps, hts]
      rw [hts] at h1 h2
      refine ⟨by simp only [Live, hl, hu, Bool.not_false, Bool.true_and]; exact h1, by simpa [MayFall] using h2⟩

theorem jmp_mem_trampolineJumps : ∀ (T : List Label) (j : Nat) (l : Label), l ∈ T →
    ∃ i, Ev.jmp i l ∈ trampolineJumps T j := by
  intro T
  induction T with
  | nil => intro j l h; cases h
  | cons t ts ih =>
    intro j l h
    rcases List.mem_cons.1 h with rfl | h
    · exact ⟨_, by simp only [trampolineJumps, jumpEqImm64, mkJ]; exact List.mem_cons_self⟩
    · obtain ⟨i, hi⟩ := ih (j + 1) l h
      exact ⟨i, by simp only [trampolineJumps]; exact List.mem_cons_of_mem _ hi⟩

theorem header_reach (c : Cfg) : (rawAll {} (headerEvs c)).reach = true := by
  simp [rawAll, headerEvs, loadMapFD, BlockSt.raw, BlockSt.reach, reachable, stops, mov64, movImm64, storeStack32, addImm64,
    call, jumpEqImm64, mk, mkJ, opMov64, opMovImm64, opStoreReg32, opAddImm64, opLoadImm64, opLoadImm64Pt2, opCall,
    opJumpEqImm64, opJumpA, opExit]

/-- The state in which a continuation program starts executing the rest: reachable, and every
dispatch target is an unresolved, in-use jump target. -/
theorem pre_state (c : Cfg) (T : List Label) (R : List Ev) (hR : Live R = true) (hRf : MayFall R = true) :
    (rawAll {} (preEvs c T R)).reach = true ∧
    ∀ l ∈ T, l ∈ (rawAll {} (preEvs c T R)).fix ∧ l ∈ (rawAll {} (preEvs c T R)).use := by
  have e : preEvs c T R = headerEvs c ++
      (([load32 R0 R9 stateOffPolResult, movImm32 R1 0, store32 R9 R1 stateOffPolResult] ++ trampolineJumps T 0) ++ R) := by
    simp [preEvs, List.append_assoc]
  rw [e, rawAll_append]
  have hp : Live [load32 R0 R9 stateOffPolResult, movImm32 R1 0, store32 R9 R1 stateOffPolResult] = true ∧
      MayFall [load32 R0 R9 stateOffPolResult, movImm32 R1 0, store32 R9 R1 stateOffPolResult] = true := by
    simp [Live, MayFall, Ev.isLabel, Ev.uncond, load32, movImm32, store32, mk, opLoadReg32, opMovImm32, opStoreReg32,
      opJumpA, opExit]
  obtain ⟨hd1, hd2⟩ := Live_trampolineJumps T 0
  have hpd : Live ([load32 R0 R9 stateOffPolResult, movImm32 R1 0, store32 R9 R1 stateOffPolResult] ++ trampolineJumps T 0) = true :=
    Live_append _ _ hp.1 hp.2 hd1
  have hpdf : MayFall ([load32 R0 R9 stateOffPolResult, movImm32 R1 0, store32 R9 R1 stateOffPolResult] ++ trampolineJumps T 0) = true := by
    cases hT : trampolineJumps T 0 with
    | nil => rw [List.append_nil]; exact hp.2
    | cons e2 r2 => rw [MayFall_append _ _ (by simp), ← hT]; exact hd2
  have hall : Live (([load32 R0 R9 stateOffPolResult, movImm32 R1 0, store32 R9 R1 stateOffPolResult] ++ trampolineJumps T 0) ++ R) = true :=
    Live_append _ _ hpd hpdf hR
  have hallf : MayFall (([load32 R0 R9 stateOffPolResult, movImm32 R1 0, store32 R9 R1 stateOffPolResult] ++ trampolineJumps T 0) ++ R) = true := by
    cases R with
    | nil => rw [List.append_nil]; exact hpdf
    | cons e2 r2 => rw [MayFall_append _ _ (by simp)]; exact hRf
  obtain ⟨h1, h2⟩ := rawAll_live _ _ (header_reach c) hall
  refine ⟨h1 hallf, ?_⟩
  intro l hl
  obtain ⟨i, hi⟩ := jmp_mem_trampolineJumps T 0 l hl
  exact h2 i l (List.mem_append_left _ (List.mem_append_right _ hi))

/-- Events without jumps only resolve targets. -/
theorem rawAll_fix_nojmp (es : List Ev) (hnj : ∀ i l, Ev.jmp i l ∉ es) :
    ∀ (b : BlockSt) (l : Label), l ∈ (rawAll b es).fix → l ∈ b.fix ∧ l ∉ labelsOf es := by
  induction es with
  | nil => intro b l h; exact ⟨h, by simp [labelsOf]⟩
  | cons e r ih =>
    intro b l h
    have hnj' : ∀ i l, Ev.jmp i l ∉ r := fun i l hm => hnj i l (List.mem_cons_of_mem _ hm)
    obtain ⟨h1, h2⟩ := ih hnj' (b.raw e) l h
    cases e with
    | label l' =>
      obtain ⟨h3, h4⟩ := raw_fix_label b l' l h1
      exact ⟨h3, by simp only [labelsOf, List.mem_cons, not_or]; exact ⟨h4, h2⟩⟩
    | ins i =>
      rcases raw_fix b (.ins i) l h1 with h3 | ⟨_, h3⟩
      · exact ⟨h3, by simpa [labelsOf] using h2⟩
      · cases h3
    | jmp i l' => exact absurd List.mem_cons_self (hnj i l')

theorem footer_nojmp (c : Cfg) (xdp : Bool) : ∀ i l, Ev.jmp i l ∉ footerEvs c xdp := by
  intro i l
  rw [footerEvs_eq]
  unfold verdictBlock exitTargetEvs
  cases xdp <;> cases c.useJmps <;>
    simp [loadMapFD, movImm32, store32, mov64, load32, call, movImm64, exitI, mk]

theorem splitTargets_props (c : Cfg) (xdp : Bool) (s : SplitSt) :
    Label.nextProgram ∉ splitTargets c xdp s ∧ (∀ l ∈ splitTargets c xdp s, l ∉ footerLabels xdp) := by
  unfold splitTargets
  refine ⟨by simp, ?_⟩
  intro l hl
  simp only [List.mem_filter, mem_sortLabels] at hl
  have : glueHead c xdp = [movImm64 R0 0, jump .nextProgram] ++ footerEvs c xdp := rfl
  rw [this, rawAll_append] at hl
  have := (rawAll_fix_nojmp _ (footer_nojmp c xdp) _ l hl.1).2
  rwa [labelsOf_footer] at this

theorem mem_splitTargets (c : Cfg) (xdp : Bool) (s : SplitSt) (l : Label) (hf : l ∈ s.cur.fix)
    (hnf : l ∉ footerLabels xdp) (hnp : l ≠ .nextProgram) : l ∈ splitTargets c xdp s := by
  unfold splitTargets
  simp only [List.mem_filter, mem_sortLabels, bne_iff_ne, ne_eq]
  refine ⟨?_, hnp⟩
  apply rawAll_fix_mono
  · have : glueHead c xdp = [movImm64 R0 0, jump .nextProgram] ++ footerEvs c xdp := rfl
    rw [this, labelsOf_append, labelsOf_footer]
    simpa [labelsOf, movImm64, mk, jump, mkJ] using hnf
  · exact hf

theorem length_landingPads : ∀ (T : List Label) (j : Nat), T.length ≤ (landingPads T j).length := by
  intro T
  induction T with
  | nil => intro j; simp [landingPads]
  | cons t ts ih =>
    intro j
    cases ts with
    | nil => simp [landingPads]
    | cons t2 ts2 =>
      have := ih (j + 1)
      simp only [landingPads, List.cons_append, List.nil_append, List.length_cons] at this ⊢
      omega

end CalicoVerif.C11
