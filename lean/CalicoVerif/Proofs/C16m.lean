import CalicoVerif.Proofs.C16l
set_option linter.unusedSimpArgs false
namespace CalicoVerif.C16

def setEq (a b : List String) : Prop := ∀ x, x ∈ a ↔ x ∈ b

theorem mem_pendingAdd {t : MT} {x : String} : x ∈ t.pendingAdd ↔ x ∈ t.des ∧ x ∉ t.dp := by
  unfold MT.pendingAdd
  rw [List.mem_eraseDups]
  simp [List.mem_filter]

theorem mem_pendingDel {t : MT} {x : String} : x ∈ t.pendingDel ↔ x ∈ t.dp ∧ x ∉ t.des := by
  unfold MT.pendingDel
  rw [List.mem_eraseDups]
  simp [List.mem_filter]

theorem nextFreeTemp_eq (c : Cfg) : ∀ (fuel : Nat) (F : Felix),
    ∃ k', (Felix.nextFreeTemp c F fuel).1 = { F with nextTemp := k' } := by
  intro fuel
  induction fuel with
  | zero => intro F; exact ⟨_, rfl⟩
  | succ fuel ih =>
    intro F
    unfold Felix.nextFreeTemp
    dsimp only
    split
    · obtain ⟨k', hk'⟩ := ih { F with nextTemp := F.nextTemp + 1 }
      exact ⟨k', by rw [hk']⟩
    · exact ⟨_, rfl⟩

/-- The desired set `n` is exactly in the kernel: right type and parameters, exactly the desired members. -/
def Exact (F : Felix) (K : Kernel) (n : String) : Prop :=
  ∃ dm t k, F.desired.get n = some dm ∧ F.members.get n = some t ∧ K.get n = some k ∧
    metaMatches k dm ∧ setEq k.members t.des

/-- Felix's view of the desired set `n` is accurate enough: if the kernel lacks it, Felix knows and
believes it empty; if Felix believes the metadata is already the desired one, it really is and the
member view is the kernel's. -/
def Acc (F : Felix) (K : Kernel) (n : String) : Prop :=
  ∀ dm t, F.desired.get n = some dm → F.members.get n = some t →
    match K.get n with
    | none => F.dp.get n = none ∧ t.dp = []
    | some k => ∃ m', F.dp.get n = some m' ∧ (m' = dm → metaMatches k dm ∧ setEq t.dp k.members)

theorem ord_nil {ord : List String → List String} (hord : ∀ l x, x ∈ ord l ↔ x ∈ l) : ord [] = [] := by
  apply List.eq_nil_iff_forall_not_mem.2
  intro x hx
  have := (hord [] x).1 hx
  simp at this

/-- What one successfully executed group does. -/
structure GroupPost (c : Cfg) (F F' : Felix) (K K' : Kernel) (a : String) (dm : Meta) (t : MT) : Prop where
  exact : ∃ k, K'.get a = some k ∧ metaMatches k dm ∧ setEq k.members t.des
  dpA : F'.dp.get a = some dm
  trA : ∃ t', F'.members.get a = some t' ∧ t'.des = t.des ∧ setEq t'.dp t.des
  desired : F'.desired = F.desired
  allMeta : F'.allMeta = F.allMeta
  filter : F'.filter = F.filter
  fullReq : F'.fullReq = F.fullReq
  queues : F'.qMust = F.qMust ∧ F'.qBg = F.qBg ∧ F'.bgReq = F.bgReq
  other : ∀ b, b ≠ a → c.isTemp b = false →
    K'.get b = K.get b ∧ F'.dp.get b = F.dp.get b ∧ F'.members.get b = F.members.get b
  covK : ∀ b, K'.has b = true → K.has b = true ∨ F'.dp.has b = true
  covDp : ∀ b, F.dp.has b = true → F'.dp.has b = true
  dpNew : ∀ b, F'.dp.has b = true → F.dp.has b = true ∨ b = a ∨ c.isTemp b = true
  memOther : ∀ b, b ≠ a → F'.members.get b = F.members.get b

theorem group_step {c : Cfg} (hc : CfgOK c) {ord : List String → List String}
    (hord : ∀ l x, x ∈ ord l ↔ x ∈ l) {F F' : Felix} {K K' : Kernel} {a : String} {ls : List Line}
    {dm : Meta} {t : MT} (hd : F.desired.get a = some dm) (ht : F.members.get a = some t)
    (hnt : c.isTemp a = false) (hacc : Acc F K a)
    (hw : F.writeUpdates c ord a = some (F', ls)) (hk : kall K ls = some K') :
    GroupPost c F F' K K' a dm t := by
  have hacc' := hacc dm t hd ht
  unfold Felix.writeUpdates at hw
  simp only [hd, ht] at hw
  split at hw
  · -- temp path
    rename_i hneed
    simp only [Option.some.injEq, Prod.mk.injEq] at hw
    obtain ⟨hF, hls⟩ := hw
    obtain ⟨kidx, hkidx⟩ := nextFreeTemp_name c (F.dp.length + 1) F
    obtain ⟨nt, hnf⟩ := nextFreeTemp_eq c (F.dp.length + 1) F
    have htmpT : c.isTemp (c.tempName kidx) = true := hc.tempIsTemp kidx
    have hne : a ≠ c.tempName kidx := by rintro rfl; rw [htmpT] at hnt; exact absurd hnt (by simp)
    rw [hkidx] at hls hF
    rw [hnf] at hF
    -- run the lines
    rw [← hls] at hk
    simp only [List.append_assoc, kall_append, List.singleton_append] at hk
    simp only [kall] at hk
    cases h1 : kstep K (createLine (c.tempName kidx) dm) with
    | none => rw [h1] at hk; simp at hk
    | some K1 =>
      rw [h1] at hk
      simp only [Option.bind_some] at hk
      obtain ⟨_, ⟨k0, hk0, hm0, hmem0⟩, hoth1⟩ := kstep_create h1
      cases h2 : kall K1 (List.map (Line.add (c.tempName kidx))
          (ord ({ des := t.des, dp := [] } : MT).pendingAdd)) with
      | none => rw [h2] at hk; simp at hk
      | some K2 =>
        rw [h2] at hk
        simp only [Option.bind_some] at hk
        obtain ⟨hg2, hoth2⟩ := kall_adds (c.tempName kidx) _ K1 K2 k0 hk0 h2
        simp only [kstep] at hk
        have hKa2 : K2.get a = K.get a := by rw [hoth2 a hne, hoth1 a hne]
        cases hKa : K.get a with
        | none => rw [hKa2, hKa] at hk; simp at hk
        | some sa =>
          rw [hKa2, hKa, hg2] at hk
          simp only [Option.bind_some, Option.some.injEq] at hk
          subst hk
          have haddsEq : setEq (ord ({ des := t.des, dp := [] } : MT).pendingAdd) t.des := by
            intro x; rw [hord, mem_pendingAdd]; simp
          subst hF
          generalize ord ({ des := t.des, dp := [] } : MT).pendingAdd = adds at *
          refine ⟨?_, ?_, ?_, rfl, rfl, rfl, rfl, ⟨rfl, rfl, rfl⟩, ?_, ?_, ?_, ?_, fun b hb => by simp [Map.get_set, hb]⟩
          · refine ⟨{ k0 with members := k0.members ++ adds }, by simp [Map.get_set, hne], ?_, ?_⟩
            · exact hm0
            · intro x; simp only [hmem0, List.nil_append]; exact haddsEq x
          · simp [Map.get_set]
          · refine ⟨{ t with dp := adds.foldl sAdd [] }, by simp [Map.get_set], rfl, ?_⟩
            intro x
            simp only [mem_foldl_sAdd, List.not_mem_nil, false_or]
            exact haddsEq x
          · intro b hb hbt
            have hbtmp : b ≠ c.tempName kidx := by rintro rfl; rw [htmpT] at hbt; exact absurd hbt (by simp)
            refine ⟨?_, ?_, ?_⟩
            · simp only [Map.get_set, hb, hbtmp, if_false]
              rw [hoth2 b hbtmp, hoth1 b hbtmp]
            · simp [Map.get_set, hb, hbtmp]
            · simp [Map.get_set, hb]
          · intro b hb
            by_cases hba : b = a
            · right; subst hba; simp [Map.has_set]
            · by_cases hbt : b = c.tempName kidx
              · right; subst hbt; simp [Map.has_set]
              · left
                simp only [Map.has, Map.get_set, hba, hbt, if_false] at hb
                rw [hoth2 b hbt, hoth1 b hbt] at hb
                exact hb
          · intro b hb
            simp only [Map.has_set, Bool.or_eq_true]
            exact Or.inr (Or.inr hb)
          · intro b hb
            simp only [Map.has_set, Bool.or_eq_true, beq_iff_eq] at hb
            rcases hb with rfl | rfl | hb
            · exact Or.inr (Or.inl rfl)
            · exact Or.inr (Or.inr htmpT)
            · exact Or.inl hb
  · -- in-place path
    rename_i hneed
    simp only [Option.some.injEq, Prod.mk.injEq] at hw
    obtain ⟨hF, hls⟩ := hw
    have hdelsMem : ∀ x, x ∈ ord t.pendingDel ↔ x ∈ t.dp ∧ x ∉ t.des := fun x => by rw [hord, mem_pendingDel]
    have haddsMem : ∀ x, x ∈ ord t.pendingAdd ↔ x ∈ t.des ∧ x ∉ t.dp := fun x => by rw [hord, mem_pendingAdd]
    generalize ord t.pendingDel = dels at *
    generalize ord t.pendingAdd = adds at *
    have htrEq : setEq (adds.foldl sAdd (dels.foldl sErase t.dp)) t.des := by
      intro x
      simp only [mem_foldl_sAdd, mem_foldl_sErase, hdelsMem, haddsMem]
      by_cases hx1 : x ∈ t.dp <;> by_cases hx2 : x ∈ t.des <;> simp [hx1, hx2]
    cases hdp : F.dp.get a with
    | none =>
      rw [hdp] at hacc' hF hls
      simp only [Option.isNone_none, if_true] at hF hls
      cases hKa : K.get a with
      | some k => rw [hKa] at hacc'; obtain ⟨m', hm', _⟩ := hacc'; simp at hm'
      | none =>
        rw [hKa] at hacc'
        obtain ⟨_, htdp⟩ := hacc'
        have hdels : dels = [] := by
          apply List.eq_nil_iff_forall_not_mem.2
          intro x hx; have := (hdelsMem x).1 hx; rw [htdp] at this; simp at this
        subst hdels
        rw [← hls] at hk
        simp only [List.map_nil, List.append_nil, List.singleton_append, kall] at hk
        cases h1 : kstep K (createLine a dm) with
        | none => rw [h1] at hk; simp at hk
        | some K1 =>
          rw [h1] at hk
          simp only [Option.bind_some] at hk
          obtain ⟨_, ⟨k0, hk0, hm0, hmem0⟩, hoth1⟩ := kstep_create h1
          obtain ⟨hg2, hoth2⟩ := kall_adds a adds K1 K' k0 hk0 hk
          subst hF
          refine ⟨?_, ?_, ?_, rfl, rfl, rfl, rfl, ⟨rfl, rfl, rfl⟩, ?_, ?_, ?_, ?_, fun b hb => by simp [Map.get_set, hb]⟩
          · refine ⟨{ k0 with members := k0.members ++ adds }, hg2, hm0, ?_⟩
            intro x
            simp only [hmem0, List.nil_append, haddsMem, htdp, List.not_mem_nil, not_false_eq_true, and_true]
          · simp [Map.get_set]
          · exact ⟨{ t with dp := adds.foldl sAdd (([] : List String).foldl sErase t.dp) }, by simp [Map.get_set], rfl, htrEq⟩
          · intro b hb _
            refine ⟨by rw [hoth2 b hb, hoth1 b hb], by simp [Map.get_set, hb], by simp [Map.get_set, hb]⟩
          · intro b hb
            by_cases hba : b = a
            · right; subst hba; simp [Map.has_set]
            · left; simp only [Map.has] at hb ⊢; rw [hoth2 b hba, hoth1 b hba] at hb; exact hb
          · intro b hb; simp only [Map.has_set, Bool.or_eq_true]; exact Or.inr hb
          · intro b hb
            simp only [Map.has_set, Bool.or_eq_true, beq_iff_eq] at hb
            rcases hb with rfl | hb
            · exact Or.inr (Or.inl rfl)
            · exact Or.inl hb
    | some m' =>
      rw [hdp] at hacc' hF hls hneed
      simp only [Option.isNone_some, Bool.false_eq_true, if_false, List.nil_append] at hF hls
      have hm'dm : m' = dm := by
        simp only [needTemp, bne_iff_ne, ne_eq, Decidable.not_not] at hneed
        exact hneed
      subst hm'dm
      cases hKa : K.get a with
      | none => rw [hKa] at hacc'; simp at hacc'
      | some k =>
        rw [hKa] at hacc'
        obtain ⟨m'', hm'', hrest⟩ := hacc'
        simp only [Option.some.injEq] at hm''
        obtain ⟨hmatch, hview⟩ := hrest hm''.symm
        rw [← hls, kall_append] at hk
        cases h1 : kall K (dels.map (Line.del a)) with
        | none => rw [h1] at hk; simp at hk
        | some K1 =>
          rw [h1] at hk
          simp only [Option.bind_some] at hk
          obtain ⟨hg1, hoth1⟩ := kall_dels a dels K K1 k hKa h1
          obtain ⟨hg2, hoth2⟩ := kall_adds a adds K1 K' _ hg1 hk
          subst hF
          refine ⟨?_, ?_, ?_, rfl, rfl, rfl, rfl, ⟨rfl, rfl, rfl⟩, ?_, ?_, ?_, ?_, fun b hb => by simp [Map.get_set, hb]⟩
          · refine ⟨_, hg2, hmatch, ?_⟩
            intro x
            simp only [List.mem_append, mem_foldl_sErase, hdelsMem, haddsMem, ← hview x]
            by_cases hx1 : x ∈ t.dp <;> by_cases hx2 : x ∈ t.des <;> simp [hx1, hx2]
          · exact hdp
          · exact ⟨{ t with dp := adds.foldl sAdd (dels.foldl sErase t.dp) }, by simp [Map.get_set], rfl, htrEq⟩
          · intro b hb _
            refine ⟨by rw [hoth2 b hb, hoth1 b hb], rfl, by simp [Map.get_set, hb]⟩
          · intro b hb
            left
            by_cases hba : b = a
            · subst hba; simp [Map.has, hKa]
            · simp only [Map.has] at hb ⊢; rw [hoth2 b hba, hoth1 b hba] at hb; exact hb
          · intro b hb; exact hb
          · intro b hb; exact Or.inl hb

end CalicoVerif.C16
