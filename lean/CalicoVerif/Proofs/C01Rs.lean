import CalicoVerif.Model.C01
import CalicoVerif.Proofs.C02
/-! C01 helper: the RuleScanner's reference counting (felix/calc/rule_scanner.go `updateRules`). -/
namespace CalicoVerif.C01
open CalicoVerif C02

abbrev InUse := String → Bool

/-- A legal sequence of OnIPSetActive / OnIPSetInactive events from the in-use set `f` to `f'`:
a set is activated only when no policy/profile uses it, deactivated only when one did. -/
inductive EvReplay : InUse → List RsEvent → InUse → Prop
  | nil (f) : EvReplay f [] f
  | active {f uid d evs f'} : f uid = false →
      EvReplay (fun u => if u = uid then true else f u) evs f' → EvReplay f (.ipsetActive uid d :: evs) f'
  | inactive {f uid evs f'} : f uid = true →
      EvReplay (fun u => if u = uid then false else f u) evs f' → EvReplay f (.ipsetInactive uid :: evs) f'

theorem EvReplay.append {a b c : InUse} {e1 e2 : List RsEvent} (h1 : EvReplay a e1 b) (h2 : EvReplay b e2 c) :
    EvReplay a (e1 ++ e2) c := by
  induction h1 with
  | nil => exact h2
  | active hn _ ih => exact .active hn (ih h2)
  | inactive hm _ ih => exact .inactive hm (ih h2)

theorem EvReplay.congr {a a' b : InUse} {e : List RsEvent} (h : EvReplay a e b) (ha : a = a') : EvReplay a' e b := ha ▸ h

def RuleScanner.inUse (rs : RuleScanner) : InUse := fun u => rs.uidInUse u

theorem uidInUse_iff (rs : RuleScanner) (u : String) : rs.uidInUse u = true ↔ ∃ k, (k, u) ∈ rs.refs := by
  unfold RuleScanner.uidInUse
  simp only [List.any_eq_true, decide_eq_true_eq]
  constructor
  · rintro ⟨p, hp, rfl⟩; exact ⟨p.1, hp⟩
  · rintro ⟨k, hk⟩; exact ⟨(k, u), hk, rfl⟩

section
variable (key : RulesId) (cur : List (String × IpSetDef))

/-- body of the "add the new" loop -/
def addOne (acc : RuleScanner × List RsEvent) (uid : String) : RuleScanner × List RsEvent :=
  let rs := acc.1
  match C02.mget cur uid with
  | none => acc
  | some d =>
    if !rs.uidInUse uid then
      ({ refs := rs.refs ++ [(key, uid)], sets := C02.mset uid d rs.sets }, acc.2 ++ [.ipsetActive uid d])
    else ({ rs with refs := rs.refs ++ [(key, uid)] }, acc.2)

/-- body of the "remove the old" loop -/
def delOne (acc : RuleScanner × List RsEvent) (uid : String) : RuleScanner × List RsEvent :=
  let rs := { acc.1 with refs := acc.1.refs.filter (fun p => p ≠ (key, uid)) }
  if !rs.uidInUse uid then ({ rs with sets := C02.mdel uid rs.sets }, acc.2 ++ [.ipsetInactive uid])
  else (rs, acc.2)

theorem updateRules_eq (rs : RuleScanner) :
    rs.updateRules key cur =
      (((rs.refs.filter (fun p => p.1 = key)).map (·.2)).filter (fun uid => (C02.mget cur uid).isNone)).foldl
        (delOne key)
        (((C02.mkeys cur).filter (fun uid => decide ((key, uid) ∉ rs.refs))).foldl (addOne key cur) (rs, [])) := rfl

theorem addOne_spec (acc : RuleScanner × List RsEvent) (uid : String) (d : IpSetDef)
    (hd : C02.mget cur uid = some d) :
    (addOne key cur acc uid).1.refs = acc.1.refs ++ [(key, uid)] ∧
    ∃ evs, (addOne key cur acc uid).2 = acc.2 ++ evs ∧
      EvReplay acc.1.inUse evs (addOne key cur acc uid).1.inUse := by
  unfold addOne
  simp only [hd]
  by_cases hu : acc.1.uidInUse uid = true
  · simp only [hu, Bool.not_true, Bool.false_eq_true, if_false, true_and]
    refine ⟨[], by simp, ?_⟩
    have : (RuleScanner.inUse { acc.1 with refs := acc.1.refs ++ [(key, uid)] }) = acc.1.inUse := by
      funext u
      apply Bool.eq_iff_iff.mpr
      simp only [RuleScanner.inUse, uidInUse_iff, List.mem_append, List.mem_singleton, Prod.mk.injEq]
      constructor
      · rintro ⟨k, h | ⟨_, rfl⟩⟩
        · exact ⟨k, h⟩
        · exact (uidInUse_iff _ _).mp hu
      · rintro ⟨k, h⟩; exact ⟨k, Or.inl h⟩
    rw [this]
    exact .nil _
  · have hu' : acc.1.uidInUse uid = false := by simpa using hu
    simp only [hu', Bool.not_false, if_true, true_and]
    refine ⟨[.ipsetActive uid d], rfl, ?_⟩
    refine .active hu' ?_
    have : (RuleScanner.inUse { refs := acc.1.refs ++ [(key, uid)], sets := C02.mset uid d acc.1.sets }) =
        (fun u => if u = uid then true else acc.1.inUse u) := by
      funext u
      by_cases h : u = uid
      · subst h
        simp only [if_true]
        exact (uidInUse_iff _ _).mpr ⟨key, by simp⟩
      · simp only [h, if_false]
        apply Bool.eq_iff_iff.mpr
        simp only [RuleScanner.inUse, uidInUse_iff, List.mem_append, List.mem_singleton, Prod.mk.injEq]
        constructor
        · rintro ⟨k, h' | ⟨_, rfl⟩⟩
          · exact ⟨k, h'⟩
          · exact absurd rfl h
        · rintro ⟨k, h'⟩; exact ⟨k, Or.inl h'⟩
    rw [this]
    exact .nil _

theorem foldl_addOne_spec : ∀ (l : List String) (acc : RuleScanner × List RsEvent),
    (∀ u ∈ l, (C02.mget cur u).isSome) →
    (l.foldl (addOne key cur) acc).1.refs = acc.1.refs ++ l.map (fun u => (key, u)) ∧
    ∃ evs, (l.foldl (addOne key cur) acc).2 = acc.2 ++ evs ∧
      EvReplay acc.1.inUse evs (l.foldl (addOne key cur) acc).1.inUse
  | [], acc, _ => ⟨by simp, [], by simp, .nil _⟩
  | u :: l, acc, h => by
    obtain ⟨d, hd⟩ := Option.isSome_iff_exists.mp (h u (List.mem_cons_self ..))
    obtain ⟨r1, e1, h1, p1⟩ := addOne_spec key cur acc u d hd
    obtain ⟨r2, e2, h2, p2⟩ := foldl_addOne_spec l (addOne key cur acc u) (fun x hx => h x (List.mem_cons_of_mem _ hx))
    simp only [List.foldl_cons]
    refine ⟨by rw [r2, r1]; simp, e1 ++ e2, by rw [h2, h1, List.append_assoc], p1.append p2⟩

theorem delOne_spec (acc : RuleScanner × List RsEvent) (uid : String) (hin : (key, uid) ∈ acc.1.refs) :
    (delOne key acc uid).1.refs = acc.1.refs.filter (fun p => p ≠ (key, uid)) ∧
    ∃ evs, (delOne key acc uid).2 = acc.2 ++ evs ∧
      EvReplay acc.1.inUse evs (delOne key acc uid).1.inUse := by
  unfold delOne
  simp only []
  have hwas : acc.1.inUse uid = true := (uidInUse_iff _ _).mpr ⟨key, hin⟩
  by_cases hu : (RuleScanner.uidInUse { acc.1 with refs := acc.1.refs.filter (fun p => p ≠ (key, uid)) } uid) = true
  · simp only [hu, Bool.not_true, Bool.false_eq_true, if_false, true_and]
    refine ⟨[], by simp, ?_⟩
    have : (RuleScanner.inUse { acc.1 with refs := acc.1.refs.filter (fun p => p ≠ (key, uid)) }) = acc.1.inUse := by
      funext u
      by_cases h : u = uid
      · subst h; rw [hwas]; exact hu
      · apply Bool.eq_iff_iff.mpr
        simp only [RuleScanner.inUse, uidInUse_iff, List.mem_filter, ne_eq, decide_eq_true_eq, Prod.mk.injEq, not_and]
        constructor
        · rintro ⟨k, h', _⟩; exact ⟨k, h'⟩
        · rintro ⟨k, h'⟩; exact ⟨k, h', fun _ => h⟩
    rw [this]
    exact .nil _
  · have hu' : (RuleScanner.uidInUse { acc.1 with refs := acc.1.refs.filter (fun p => p ≠ (key, uid)) } uid) = false := by
      simpa using hu
    simp only [hu', Bool.not_false, if_true, true_and]
    refine ⟨[.ipsetInactive uid], rfl, ?_⟩
    refine .inactive hwas ?_
    have : (RuleScanner.inUse { refs := acc.1.refs.filter (fun p => p ≠ (key, uid)), sets := C02.mdel uid acc.1.sets }) =
        (fun u => if u = uid then false else acc.1.inUse u) := by
      funext u
      by_cases h : u = uid
      · subst h
        simp only [if_true]
        exact hu'
      · simp only [h, if_false]
        apply Bool.eq_iff_iff.mpr
        simp only [RuleScanner.inUse, uidInUse_iff, List.mem_filter, ne_eq, decide_eq_true_eq, Prod.mk.injEq, not_and]
        constructor
        · rintro ⟨k, h', _⟩; exact ⟨k, h'⟩
        · rintro ⟨k, h'⟩; exact ⟨k, h', fun _ => h⟩
    rw [this]
    exact .nil _

theorem foldl_delOne_spec : ∀ (l : List String) (acc : RuleScanner × List RsEvent),
    l.Nodup → (∀ u ∈ l, (key, u) ∈ acc.1.refs) →
    (l.foldl (delOne key) acc).1.refs = acc.1.refs.filter (fun p => decide (¬ (p.1 = key ∧ p.2 ∈ l))) ∧
    ∃ evs, (l.foldl (delOne key) acc).2 = acc.2 ++ evs ∧
      EvReplay acc.1.inUse evs (l.foldl (delOne key) acc).1.inUse
  | [], acc, _, _ => ⟨(List.filter_eq_self.mpr (fun _ _ => by simp)).symm, [], by simp, .nil _⟩
  | u :: l, acc, hnd, h => by
    have hnd' := List.nodup_cons.mp hnd
    obtain ⟨r1, e1, h1, p1⟩ := delOne_spec key acc u (h u (List.mem_cons_self ..))
    have hsub : ∀ x ∈ l, (key, x) ∈ (delOne key acc u).1.refs := by
      intro x hx
      rw [r1]
      refine List.mem_filter.mpr ⟨h x (List.mem_cons_of_mem _ hx), ?_⟩
      have : x ≠ u := fun e => hnd'.1 (e ▸ hx)
      simp [this]
    obtain ⟨r2, e2, h2, p2⟩ := foldl_delOne_spec l (delOne key acc u) hnd'.2 hsub
    simp only [List.foldl_cons]
    refine ⟨?_, e1 ++ e2, by rw [h2, h1, List.append_assoc], p1.append p2⟩
    rw [r2, r1, List.filter_filter]
    apply List.filter_congr
    intro p _
    obtain ⟨pk, pu⟩ := p
    by_cases hk : pk = key
    · subst hk
      by_cases hpu : pu = u
      · subst hpu; simp
      · simp [hpu]
    · simp [hk]

end

/-- RULE SCANNER, one call: `updateRules(key, cur)` makes `key` reference exactly the sets of `cur`
(all other keys' references are untouched), and the OnIPSetActive / OnIPSetInactive events it fires
form a legal transition from the old in-use set to the new one. -/
theorem updateRules_spec (rs : RuleScanner) (key : RulesId) (cur : List (String × IpSetDef))
    (hnd : rs.refs.Nodup) :
    (∀ k u, (k, u) ∈ (rs.updateRules key cur).1.refs ↔
      if k = key then (C02.mget cur u).isSome = true else (k, u) ∈ rs.refs) ∧
    EvReplay rs.inUse (rs.updateRules key cur).2 (rs.updateRules key cur).1.inUse := by
  rw [updateRules_eq]
  set_option maxRecDepth 2000 in
  generalize hadded : (C02.mkeys cur).filter (fun uid => decide ((key, uid) ∉ rs.refs)) = added
  generalize hremoved : ((rs.refs.filter (fun p => p.1 = key)).map (·.2)).filter (fun uid => (C02.mget cur uid).isNone) = removed
  have hadd_some : ∀ u ∈ added, (C02.mget cur u).isSome := by
    intro u hu
    rw [← hadded] at hu
    exact (mem_mkeys_iff.mp (List.mem_filter.mp hu).1)
  obtain ⟨r1, e1, h1, p1⟩ := foldl_addOne_spec key cur added (rs, []) hadd_some
  have hrem_nd : removed.Nodup := by
    rw [← hremoved]
    refine List.Pairwise.filter _ ?_
    have : ((rs.refs.filter (fun p => p.1 = key)).map (·.2)).Nodup := by
      have hf : (rs.refs.filter (fun p => p.1 = key)).Nodup := List.Pairwise.filter _ hnd
      have hall : ∀ p ∈ rs.refs.filter (fun p => p.1 = key), p.1 = key := by
        intro p hp; simpa using (List.mem_filter.mp hp).2
      generalize rs.refs.filter (fun p => p.1 = key) = l at hf hall
      induction l with
      | nil => simp
      | cons a l ih =>
        have hc := List.nodup_cons.mp hf
        simp only [List.map_cons, List.nodup_cons]
        refine ⟨?_, ih hc.2 (fun p hp => hall p (List.mem_cons_of_mem _ hp))⟩
        intro hm
        obtain ⟨b, hb, e⟩ := List.mem_map.mp hm
        have : b = a := Prod.ext ((hall b (List.mem_cons_of_mem _ hb)).trans (hall a (List.mem_cons_self ..)).symm) e
        exact hc.1 (this ▸ hb)
    exact this
  have hrem_in : ∀ u ∈ removed, (key, u) ∈ (added.foldl (addOne key cur) (rs, [])).1.refs := by
    intro u hu
    rw [← hremoved] at hu
    obtain ⟨hu1, _⟩ := List.mem_filter.mp hu
    obtain ⟨p, hp, rfl⟩ := List.mem_map.mp hu1
    obtain ⟨hp1, hp2⟩ := List.mem_filter.mp hp
    simp only [decide_eq_true_eq] at hp2
    rw [r1]
    exact List.mem_append_left _ (by rw [← hp2]; exact hp1)
  obtain ⟨r2, e2, h2, p2⟩ := foldl_delOne_spec key removed _ hrem_nd hrem_in
  refine ⟨?_, ?_⟩
  · intro k u
    rw [r2, r1]
    have hmemRemoved : ∀ x, x ∈ removed ↔ ((key, x) ∈ rs.refs ∧ C02.mget cur x = none) := by
      intro x
      rw [← hremoved]
      constructor
      · intro hx
        obtain ⟨hx1, hx2⟩ := List.mem_filter.mp hx
        obtain ⟨p, hp, rfl⟩ := List.mem_map.mp hx1
        obtain ⟨hp1, hp2⟩ := List.mem_filter.mp hp
        simp only [decide_eq_true_eq] at hp2
        refine ⟨by rw [← hp2]; exact hp1, by simpa using hx2⟩
      · rintro ⟨h1', h2'⟩
        exact List.mem_filter.mpr ⟨List.mem_map.mpr ⟨(key, x), List.mem_filter.mpr ⟨h1', by simp⟩, rfl⟩, by simp [h2']⟩
    have hmemAdded : ∀ x, x ∈ added ↔ ((C02.mget cur x).isSome = true ∧ (key, x) ∉ rs.refs) := by
      intro x
      rw [← hadded]
      constructor
      · intro hx
        obtain ⟨hx1, hx2⟩ := List.mem_filter.mp hx
        exact ⟨mem_mkeys_iff.mp hx1, by simpa using hx2⟩
      · rintro ⟨h1', h2'⟩
        exact List.mem_filter.mpr ⟨mem_mkeys_iff.mpr h1', by simpa using h2'⟩
    constructor
    · intro hm
      obtain ⟨hm1, hm2⟩ := List.mem_filter.mp hm
      have hm2' : ¬ (k = key ∧ u ∈ removed) := by
        intro hh; simp [hh.1, hh.2] at hm2
      by_cases hk : k = key
      · subst hk
        simp only [if_true]
        rcases List.mem_append.mp hm1 with h | h
        · cases hc : C02.mget cur u with
          | some d => rfl
          | none => exact absurd ⟨rfl, (hmemRemoved u).mpr ⟨h, hc⟩⟩ hm2'
        · obtain ⟨x, hx, e⟩ := List.mem_map.mp h
          cases e
          exact ((hmemAdded u).mp hx).1
      · simp only [hk, if_false]
        rcases List.mem_append.mp hm1 with h | h
        · exact h
        · obtain ⟨x, _, e⟩ := List.mem_map.mp h
          cases e
          exact absurd rfl hk
    · intro hm
      by_cases hk : k = key
      · subst hk
        simp only [if_true] at hm
        refine List.mem_filter.mpr ⟨?_, ?_⟩
        · by_cases hin : (k, u) ∈ rs.refs
          · exact List.mem_append_left _ hin
          · exact List.mem_append_right _ (List.mem_map.mpr ⟨u, (hmemAdded u).mpr ⟨hm, hin⟩, rfl⟩)
        · have : ¬ (u ∈ removed) := by
            intro hr
            have := ((hmemRemoved u).mp hr).2
            rw [this] at hm
            cases hm
          simp [this]
      · simp only [hk, if_false] at hm
        exact List.mem_filter.mpr ⟨List.mem_append_left _ hm, by simp [hk]⟩
  · have := p1.append p2
    rw [h2, h1]
    simpa using this

theorem nodup_map_pair (key : RulesId) : ∀ {l : List String}, l.Nodup → (l.map (fun u => (key, u))).Nodup
  | [], _ => by simp
  | a :: l, h => by
    have hc := List.nodup_cons.mp h
    simp only [List.map_cons, List.nodup_cons]
    refine ⟨?_, nodup_map_pair key hc.2⟩
    intro hm
    obtain ⟨b, hb, e⟩ := List.mem_map.mp hm
    cases e
    exact hc.1 hb

theorem updateRules_nodup (rs : RuleScanner) (key : RulesId) (cur : List (String × IpSetDef))
    (hnd : rs.refs.Nodup) (hcur : (C02.mkeys cur).Nodup) : (rs.updateRules key cur).1.refs.Nodup := by
  rw [updateRules_eq]
  generalize hadded : (C02.mkeys cur).filter (fun uid => decide ((key, uid) ∉ rs.refs)) = added
  generalize hremoved : ((rs.refs.filter (fun p => p.1 = key)).map (·.2)).filter (fun uid => (C02.mget cur uid).isNone) = removed
  have hadd_some : ∀ u ∈ added, (C02.mget cur u).isSome := by
    intro u hu
    rw [← hadded] at hu
    exact (mem_mkeys_iff.mp (List.mem_filter.mp hu).1)
  obtain ⟨r1, _, _, _⟩ := foldl_addOne_spec key cur added (rs, []) hadd_some
  -- the removal loop only filters
  have hfilter : ∀ (l : List String) (acc : RuleScanner × List RsEvent), acc.1.refs.Nodup →
      (l.foldl (delOne key) acc).1.refs.Nodup := by
    intro l
    induction l with
    | nil => intro acc h; exact h
    | cons u l ih =>
      intro acc h
      simp only [List.foldl_cons]
      apply ih
      unfold delOne
      simp only []
      split <;> exact List.Pairwise.filter _ h
  apply hfilter
  rw [r1]
  have hadded_nd : added.Nodup := by rw [← hadded]; exact List.Pairwise.filter _ hcur
  refine List.nodup_append.mpr ⟨hnd, ?_, ?_⟩
  · exact nodup_map_pair key hadded_nd
  · intro a ha b hb hab
    subst hab
    obtain ⟨x, hx, rfl⟩ := List.mem_map.mp hb
    rw [← hadded] at hx
    have := (List.mem_filter.mp hx).2
    simp only [decide_eq_true_eq] at this
    exact this ha

/-! ### histories of rule-scanner calls -/

/-- run a history of `updateRules` calls on a fresh scanner -/
def rsRun : List (RulesId × List (String × IpSetDef)) → RuleScanner × List RsEvent
  | [] => ({}, [])
  | l => l.foldl (fun acc c => let r := acc.1.updateRules c.1 c.2; (r.1, acc.2 ++ r.2)) ({}, [])

/-- the sets `key` currently references: those of its LAST call -/
def lastCur (key : RulesId) : List (RulesId × List (String × IpSetDef)) → List (String × IpSetDef)
  | [] => []
  | l => l.foldl (fun acc c => if c.1 = key then c.2 else acc) []

/-- RULE SCANNER, all histories: after ANY sequence of OnPolicyActive/Inactive / OnProfileActive/
Inactive calls, `key` references exactly the IP sets of its latest rules, and the whole event stream
is a legal activation/deactivation sequence starting from "nothing in use" and ending in "exactly the
referenced sets in use" — the scanner's outputs depend only on the current rules. -/
theorem rulescanner_eq_spec (l : List (RulesId × List (String × IpSetDef)))
    (hcur : ∀ c ∈ l, (C02.mkeys c.2).Nodup) :
    (∀ k u, (k, u) ∈ (rsRun l).1.refs ↔ (C02.mget (lastCur k l) u).isSome = true) ∧
    EvReplay (fun _ => false) (rsRun l).2 (rsRun l).1.inUse ∧
    (∀ u, (rsRun l).1.inUse u = true ↔ ∃ k, (C02.mget (lastCur k l) u).isSome = true) := by
  have step : ∀ (l : List (RulesId × List (String × IpSetDef))) (acc : RuleScanner × List RsEvent)
      (A : RulesId → List (String × IpSetDef)),
      (∀ c ∈ l, (C02.mkeys c.2).Nodup) → acc.1.refs.Nodup →
      (∀ k u, (k, u) ∈ acc.1.refs ↔ (C02.mget (A k) u).isSome = true) →
      EvReplay (fun _ => false) acc.2 acc.1.inUse →
      let r := l.foldl (fun acc c => let r := acc.1.updateRules c.1 c.2; (r.1, acc.2 ++ r.2)) acc
      let A' := fun k => l.foldl (fun a c => if c.1 = k then c.2 else a) (A k)
      r.1.refs.Nodup ∧ (∀ k u, (k, u) ∈ r.1.refs ↔ (C02.mget (A' k) u).isSome = true) ∧
        EvReplay (fun _ => false) r.2 r.1.inUse := by
    intro l
    induction l with
    | nil => intro acc A _ h1 h2 h3; exact ⟨h1, h2, h3⟩
    | cons c l ih =>
      intro acc A hc h1 h2 h3
      simp only [List.foldl_cons]
      have hs := updateRules_spec acc.1 c.1 c.2 h1
      have hn := updateRules_nodup acc.1 c.1 c.2 h1 (hc c (List.mem_cons_self ..))
      refine ih _ (fun k => if c.1 = k then c.2 else A k) (fun x hx => hc x (List.mem_cons_of_mem _ hx)) hn ?_ (h3.append hs.2)
      intro k u
      rw [hs.1 k u]
      by_cases hk : k = c.1
      · subst hk; simp
      · have : ¬ c.1 = k := fun e => hk e.symm
        simp [hk, this, h2 k u]
  have h0 := step l ({}, []) (fun _ => []) hcur (by simp) (by intro k u; simp [C02.mget]) (.nil _)
  have hrun : rsRun l = l.foldl (fun acc c => let r := acc.1.updateRules c.1 c.2; (r.1, acc.2 ++ r.2)) ({}, []) := by
    cases l <;> rfl
  have hlast : ∀ k, lastCur k l = l.foldl (fun a c => if c.1 = k then c.2 else a) [] := by
    intro k; cases l <;> rfl
  rw [hrun]
  simp only [hlast]
  refine ⟨h0.2.1, h0.2.2, ?_⟩
  intro u
  rw [show (RuleScanner.inUse _ u = true) = (RuleScanner.uidInUse _ u = true) from rfl, uidInUse_iff]
  constructor
  · rintro ⟨k, hk⟩; exact ⟨k, (h0.2.1 k u).mp hk⟩
  · rintro ⟨k, hk⟩; exact ⟨k, (h0.2.1 k u).mpr hk⟩

end CalicoVerif.C01
