import CalicoVerif.Model.C26
/-!
C26 — specification-side definitions for the watcher cache (the view the cache stands for, the
downstream consumer's accumulated view, "no update while waiting") and the basic lemmas.
-/
namespace CalicoVerif.C26

/-- key ↦ revision -/
abbrev View := Nat → Option Nat

def emptyView : View := fun _ => none

/-- What `oldResources` holds for a key (nothing when the map is nil). -/
def oldLookup (wc : WC) (k : Nat) : Option Nat := wc.old.bind (fun o => lookup o k)

/-- The set of resources the cache believes downstream holds: `resources` plus the not yet revalidated
`oldResources`. -/
def view (wc : WC) : View := fun k =>
  match lookup wc.res k with
  | some r => some r
  | none => oldLookup wc k

/-- Downstream applying one update. -/
def applyUpd (m : View) (u : Upd) : View := fun k =>
  if u.key = k then (if u.ut = utDeleted then none else some u.rev) else m k

def applyRes (m : View) : Res → View
  | .updates us => us.foldl applyUpd m
  | _ => m

/-- Downstream's view after consuming a result stream, starting from `m`. -/
def downFrom (m : View) (out : List Res) : View := out.foldl applyRes m

/-- The datastore applying one (converted) KV. -/
def applyKV (m : View) (kv : KV) : View := fun k =>
  if kv.key = k then (if kv.del then none else some kv.rev) else m k

/-- What a processor `p`, in private state `st`, converts the raw KVs `kvs` to (processing them in order, the state
evolving) — `st = []` is a FRESH processor (just after `OnSyncerStarting`). -/
def convSeq (p : Option Proc) : PState → List KV → List KV
  | _, [] => []
  | st, kv :: r => (procRun p st kv).2.1 ++ convSeq p (procRun p st kv).1 r

/-- The processor's state after processing `kvs` from state `st`. -/
def convState (p : Option Proc) : PState → List KV → PState
  | st, [] => st
  | st, kv :: r => convState p (procRun p st kv).1 r

theorem convSeq_append (p : Option Proc) (st : PState) (a b : List KV) :
    convSeq p st (a ++ b) = convSeq p st a ++ convSeq p (convState p st a) b := by
  induction a generalizing st with
  | nil => rfl
  | cons x xs ih => simp [convSeq, convState, ih, List.append_assoc]

theorem convState_append (p : Option Proc) (st : PState) (a b : List KV) :
    convState p st (a ++ b) = convState p (convState p st a) b := by
  induction a generalizing st with
  | nil => rfl
  | cons x xs ih => simp [convState, ih]

/-- The status a consumer of the stream has last been told (starting from `st`). -/
def lastStatus : Nat → List Res → Nat
  | st, [] => st
  | _, .status s :: r => lastStatus s r
  | st, .updates _ :: r => lastStatus st r
  | st, .convErr :: r => lastStatus st r
  | st, .backendErr :: r => lastStatus st r

/-- No `updates` result is emitted while the last announced status is WaitForDatastore. -/
def quietFrom : Nat → List Res → Bool
  | _, [] => true
  | _, .status s :: r => quietFrom s r
  | st, .updates _ :: r => st != stWait && quietFrom st r
  | st, .convErr :: r => quietFrom st r
  | st, .backendErr :: r => quietFrom st r

theorem downFrom_snoc (m : View) (out : List Res) (r : Res) :
    downFrom m (out ++ [r]) = applyRes (downFrom m out) r := by
  simp [downFrom, List.foldl_append]

theorem downFrom_append (m : View) (a b : List Res) : downFrom m (a ++ b) = downFrom (downFrom m a) b := by
  simp [downFrom, List.foldl_append]

theorem lastStatus_snoc (st : Nat) (out : List Res) (r : Res) :
    lastStatus st (out ++ [r]) = match r with
      | .status s => s
      | _ => lastStatus st out := by
  induction out generalizing st with
  | nil => cases r <;> rfl
  | cons x xs ih => cases x <;> simp [lastStatus, ih]

theorem lastStatus_append (st : Nat) (a b : List Res) :
    lastStatus st (a ++ b) = lastStatus (lastStatus st a) b := by
  induction a generalizing st with
  | nil => rfl
  | cons x xs ih => cases x <;> simp [lastStatus, ih]

theorem quietFrom_append (st : Nat) (a b : List Res) :
    quietFrom st (a ++ b) = (quietFrom st a && quietFrom (lastStatus st a) b) := by
  induction a generalizing st with
  | nil => simp [quietFrom, lastStatus]
  | cons x xs ih => cases x <;> simp [quietFrom, lastStatus, ih, Bool.and_assoc]

theorem quietFrom_snoc (st : Nat) (out : List Res) (r : Res) :
    quietFrom st (out ++ [r]) = (quietFrom st out && match r with
      | .updates _ => lastStatus st out != stWait
      | _ => true) := by
  rw [quietFrom_append]
  cases r <;> simp [quietFrom]

/-! ### association-list lemmas -/

theorem lookup_cons (p : Nat × Nat) (m : List (Nat × Nat)) (k : Nat) :
    lookup (p :: m) k = if p.1 = k then some p.2 else lookup m k := by
  unfold lookup
  by_cases h : p.1 = k
  · simp [List.find?, h]
  · have : (p.1 == k) = false := by simpa using h
    simp [List.find?, this, h]

theorem lookup_erase (m : List (Nat × Nat)) (k k' : Nat) :
    lookup (erase m k) k' = if k' = k then none else lookup m k' := by
  induction m with
  | nil => simp [erase, lookup]
  | cons p ps ih =>
    unfold erase at ih ⊢
    by_cases hp : p.1 = k
    · have hb : (p.1 != k) = false := by simp [hp]
      simp only [List.filter_cons, hb, Bool.false_eq_true, if_false]
      rw [ih, lookup_cons]
      by_cases hk : k' = k
      · simp [hk]
      · have : ¬ p.1 = k' := by rw [hp]; exact fun e => hk e.symm
        simp [hk, this]
    · have hb : (p.1 != k) = true := by simp [hp]
      simp only [List.filter_cons, hb, if_true]
      rw [lookup_cons, lookup_cons, ih]
      by_cases hk : k' = k
      · simp [hk, hp]
      · simp [hk]

theorem lookup_insert (m : List (Nat × Nat)) (k r k' : Nat) :
    lookup (insert m k r) k' = if k' = k then some r else lookup m k' := by
  unfold insert
  rw [lookup_cons, lookup_erase]
  by_cases hk : k' = k
  · simp [hk]
  · have : ¬ k = k' := fun e => hk e.symm
    simp [hk, this]

theorem mem_insertSorted (k x : Nat) (l : List Nat) : x ∈ insertSorted k l ↔ x = k ∨ x ∈ l := by
  induction l with
  | nil => simp [insertSorted]
  | cons y ys ih =>
    unfold insertSorted
    split
    · simp
    · simp only [List.mem_cons, ih]
      constructor
      · rintro (h | h | h)
        · exact Or.inr (Or.inl h)
        · exact Or.inl h
        · exact Or.inr (Or.inr h)
      · rintro (h | h | h)
        · exact Or.inr (Or.inl h)
        · exact Or.inl h
        · exact Or.inr (Or.inr h)

theorem mem_sortKeys (x : Nat) (l : List Nat) : x ∈ sortKeys l ↔ x ∈ l := by
  induction l with
  | nil => simp [sortKeys]
  | cons y ys ih =>
    simp only [sortKeys, List.foldr_cons, List.mem_cons] at ih ⊢
    rw [mem_insertSorted, ih]

theorem mem_keysOf (m : List (Nat × Nat)) (k : Nat) : k ∈ keysOf m ↔ lookup m k ≠ none := by
  induction m with
  | nil => simp [keysOf, lookup]
  | cons p ps ih =>
    simp only [keysOf, List.map_cons, List.mem_cons] at ih ⊢
    rw [lookup_cons, ih]
    by_cases h : p.1 = k
    · simp [h]
    · have : ¬ k = p.1 := fun e => h e.symm
      simp [h, this]

/-- Deleting a list of keys downstream. -/
theorem foldl_delUpd (m : View) (ks : List Nat) (k : Nat) :
    (ks.map delUpd).foldl applyUpd m k = if k ∈ ks then none else m k := by
  induction ks generalizing m with
  | nil => simp
  | cons x xs ih =>
    simp only [List.map_cons, List.foldl_cons]
    rw [ih]
    by_cases hk : k ∈ xs
    · simp [hk]
    · by_cases hx : x = k
      · simp [hk, hx, applyUpd, delUpd]
      · have : ¬ k = x := fun e => hx e.symm
        simp [hk, applyUpd, delUpd, hx, this]

/-- Applying a list of KVs: keys not mentioned keep their entry; mentioned keys do not depend on the start. -/
theorem foldl_applyKV_not_mem (m : View) (c : List KV) (k : Nat) (h : ∀ kv ∈ c, kv.key ≠ k) :
    c.foldl applyKV m k = m k := by
  induction c generalizing m with
  | nil => rfl
  | cons x xs ih =>
    simp only [List.foldl_cons]
    rw [ih _ (fun kv hkv => h kv (List.mem_cons_of_mem _ hkv))]
    have : x.key ≠ k := h x (List.mem_cons_self ..)
    simp [applyKV, this]

theorem foldl_applyKV_mem (m m' : View) (c : List KV) (k : Nat) (h : ∃ kv ∈ c, kv.key = k) :
    c.foldl applyKV m k = c.foldl applyKV m' k := by
  induction c generalizing m m' with
  | nil => obtain ⟨kv, hkv, _⟩ := h; cases hkv
  | cons x xs ih =>
    simp only [List.foldl_cons]
    by_cases hx : ∃ kv ∈ xs, kv.key = k
    · exact ih _ _ hx
    · have hn : ∀ kv ∈ xs, kv.key ≠ k := fun kv hkv e => hx ⟨kv, hkv, e⟩
      rw [foldl_applyKV_not_mem _ _ _ hn, foldl_applyKV_not_mem _ _ _ hn]
      obtain ⟨kv, hkv, e⟩ := h
      rcases List.mem_cons.mp hkv with rfl | hkv
      · simp [applyKV, e]
      · exact absurd e (hn kv hkv)

end CalicoVerif.C26
