import CalicoVerif.Model.C11Sem
/-!
C11 — symbolic-execution lemmas for single instructions of the kinds the
policy builder emits, over machines satisfying the builder's register
invariant (`Inv`: R6 = context, R9 = state pointer, R10 = frame pointer, state
bytes unchanged).
-/
namespace CalicoVerif.C11

def stateW : Word := BitVec.ofNat 64 stateBase
def ctxW : Word := BitVec.ofNat 64 ctxBase
def stackW : Word := BitVec.ofNat 64 stackTop

/-- State bytes that policy reads and no policy program ever writes: the three addresses
(8..71), the ports and the protocol (96..104). -/
def Stable (j : Nat) : Prop := (8 ≤ j ∧ j < 72) ∨ (96 ≤ j ∧ j < 105)

/-- `st'` is the state `st` after a policy program may have written to it: same size, same
packet fields, same host bits (2, 3) of the flags.  (`pol_rc`, `rules_hit`, `rule_ids` and the
other flag bits may differ.) -/
structure StSim (st st' : List Byte) : Prop where
  len : st'.length = 512
  same : ∀ j, Stable j → st'[j]? = st[j]?
  flags : (BitVec.ofNat 64 (fieldN st' 368 8) &&& 12#64) = (BitVec.ofNat 64 (fieldN st 368 8) &&& 12#64)

theorem StSim.refl (st : List Byte) (h : st.length = 512) : StSim st st := ⟨h, fun _ _ => rfl, rfl⟩

theorem StSim.bytes_eq {st st' : List Byte} (h : StSim st st') (hlen : st.length = 512) (k n : Nat)
    (hk : k + n ≤ 512) (hs : ∀ j, k ≤ j → j < k + n → Stable j) :
    getBytes st' k n = getBytes st k n := by
  unfold getBytes
  rw [if_pos (by rw [h.len]; exact hk), if_pos (by rw [hlen]; exact hk)]
  congr 1
  apply List.ext_getElem?
  intro i
  simp only [List.getElem?_take, List.getElem?_drop]
  by_cases hi : i < n
  · simp only [hi, if_true]
    exact h.same (k + i) (hs (k + i) (by omega) (by omega))
  · simp only [hi, if_false]

/-- The builder's invariant between instructions of the policy part. -/
structure Inv (st : List Byte) (m : Mach) : Prop where
  r6 : m.reg 6 = some ctxW
  r9 : m.reg 9 = some stateW
  r10 : m.reg 10 = some stackW
  regsLen : m.regs.length = 11
  sim : StSim st m.st
  stLen : st.length = 512

theorem reg_setReg_ne {m : Mach} {r r' : Nat} {v : Word} (h : r ≠ r') :
    (m.setReg r v).reg r' = m.reg r' := by
  unfold Mach.setReg Mach.reg
  simp only [List.getD_eq_getElem?_getD]
  rw [List.getElem?_set_ne h]

theorem reg_setReg_eq {m : Mach} {r : Nat} {v : Word} (h : r < m.regs.length) :
    (m.setReg r v).reg r = some v := by
  unfold Mach.setReg Mach.reg
  simp only [List.getD_eq_getElem?_getD]
  rw [List.getElem?_set_self h]
  rfl

theorem Inv.setReg {st : List Byte} {m : Mach} (h : Inv st m) (r : Nat) (v : Word)
    (h6 : r ≠ 6) (h9 : r ≠ 9) (h10 : r ≠ 10) : Inv st (m.setReg r v) where
  r6 := by rw [reg_setReg_ne h6]; exact h.r6
  r9 := by rw [reg_setReg_ne h9]; exact h.r9
  r10 := by rw [reg_setReg_ne h10]; exact h.r10
  regsLen := by simp [Mach.setReg, h.regsLen]
  sim := h.sim
  stLen := h.stLen

set_option maxRecDepth 8000 in
theorem region_state (k n : Nat) (h : k + n ≤ 512) :
    region (stateW + BitVec.ofNat 64 k) n = some (.state k) := by
  have hk : (stateW + BitVec.ofNat 64 k).toNat = 1342177280 + k := by
    unfold stateW stateBase
    rw [BitVec.toNat_add, BitVec.toNat_ofNat, BitVec.toNat_ofNat]
    omega
  unfold region
  simp only [hk]
  rw [if_neg (by simp only [stackTop, stackSize]; omega), if_pos (by simp only [stateBase, stateSize]; omega)]
  have hsub : 1342177280 + k - 1342177280 = k := by omega
  simp only [stateBase, hsub]

/-- Loading `n` bytes of the state at a (literal) offset. -/
theorem load_state {env : Env} {m : Mach} (k n : Nat) (h : k + n ≤ 512) :
    m.load env (stateW + BitVec.ofNat 64 k) n =
      (getBytes m.st k n).map (fun bs => BitVec.ofNat 64 (leNat bs)) := by
  unfold Mach.load
  rw [region_state k n h]

/-- LDX of 1/2/4/8 bytes from the state through R9, whatever the bytes are. -/
theorem step_ldx_state_raw {env : Env} {m : Mach} (h9 : m.reg 9 = some stateW) (hlen : m.st.length = 512)
    (op d : Nat) (k n : Nat) (imm : Int) (nxt : Option Insn)
    (hop : (op = opLoadReg8 ∧ n = 1) ∨ (op = opLoadReg16 ∧ n = 2) ∨ (op = opLoadReg32 ∧ n = 4) ∨
      (op = opLoadReg64 ∧ n = 8))
    (hd : d < 10) (hk : k + n ≤ 512) :
    step env ⟨op, d, 9, (k : Int), imm⟩ nxt m = .next (m.setReg d (BitVec.ofNat 64 (fieldN m.st k n))) := by
  have hl := load_state (env := env) (m := m) k n hk
  have hg : getBytes m.st k n = some ((m.st.drop k).take n) := by
    unfold getBytes; rw [if_pos (by omega)]
  rw [hg] at hl
  have hd' : ¬ d ≥ 10 := by omega
  rcases hop with ⟨rfl, rfl⟩ | ⟨rfl, rfl⟩ | ⟨rfl, rfl⟩ | ⟨rfl, rfl⟩ <;>
    simp [step, opLoadReg8, opLoadReg16, opLoadReg32, opLoadReg64, opLoadImm64, hd', h9, hl, fieldN]

/-- LDX of a packet field (a `Stable` byte range): the value is that of the original state. -/
theorem step_ldx_state {env : Env} {st : List Byte} {m : Mach} (hI : Inv st m)
    (op d : Nat) (k n : Nat) (imm : Int) (nxt : Option Insn) (bs : List Byte)
    (hop : (op = opLoadReg8 ∧ n = 1) ∨ (op = opLoadReg16 ∧ n = 2) ∨ (op = opLoadReg32 ∧ n = 4) ∨
      (op = opLoadReg64 ∧ n = 8))
    (hd : d < 10) (hk : k + n ≤ 512) (hb : getBytes st k n = some bs)
    (hstab : ∀ j, k ≤ j → j < k + n → Stable j) :
    step env ⟨op, d, 9, (k : Int), imm⟩ nxt m = .next (m.setReg d (BitVec.ofNat 64 (leNat bs))) := by
  have hl := load_state (env := env) (m := m) k n hk
  rw [hI.sim.bytes_eq hI.stLen k n hk hstab, hb] at hl
  have hd' : ¬ d ≥ 10 := by omega
  rcases hop with ⟨rfl, rfl⟩ | ⟨rfl, rfl⟩ | ⟨rfl, rfl⟩ | ⟨rfl, rfl⟩ <;>
    simp [step, opLoadReg8, opLoadReg16, opLoadReg32, opLoadReg64, opLoadImm64, hd', hI.r9, hl]

/-- Conditional 64-bit jumps against an immediate. -/
theorem step_jcond64 {env : Env} {m : Mach} (op d : Nat) (off imm : Int) (nxt : Option Insn) (v : Word)
    (hop : op = opJumpEqImm64 ∨ op = opJumpNEImm64 ∨ op = opJumpGEImm64 ∨ op = opJumpLTImm64 ∨ op = opJumpLEImm64)
    (hv : m.reg d = some v) :
    step env ⟨op, d, 0, off, imm⟩ nxt m =
      (match cond (op / 16) v (sext32 imm) with
       | some true => .taken m
       | some false => .next m
       | none => .fault) := by
  rcases hop with rfl | rfl | rfl | rfl | rfl <;>
    simp [step, opJumpEqImm64, opJumpNEImm64, opJumpGEImm64, opJumpLTImm64, opJumpLEImm64, opLoadImm64,
      opJumpA, opExit, opCall, hv]
  all_goals (cases cond _ v (sext32 imm) with | none => rfl | some b => cases b <;> rfl)

/-- Conditional 32-bit jumps against an immediate. -/
theorem step_jcond32 {env : Env} {m : Mach} (op d : Nat) (off imm : Int) (nxt : Option Insn) (v : Word)
    (hop : op = opJumpEqImm32 ∨ op = opJumpNEImm32) (hv : m.reg d = some v) :
    step env ⟨op, d, 0, off, imm⟩ nxt m =
      (match cond (op / 16) (v.setWidth 32) ((sext32 imm).setWidth 32) with
       | some true => .taken m
       | some false => .next m
       | none => .fault) := by
  rcases hop with rfl | rfl <;>
    simp [step, opJumpEqImm32, opJumpNEImm32, opLoadImm64, opJumpA, opExit, opCall, hv]
  all_goals (cases cond _ (v.setWidth 32) ((sext32 imm).setWidth 32) with | none => rfl | some b => cases b <;> rfl)

/-! ### `lrun` unfolding lemmas -/
theorem lrun_label (env : Env) (l : Label) (r : List Ev) (m : Mach) :
    lrun env (.label l :: r) m = lrun env r m := by rw [lrun]

theorem lrun_ins_next {env : Env} {i : Insn} {r : List Ev} {m m' : Mach}
    (h : step env i (nextIns r) m = .next m') : lrun env (.ins i :: r) m = lrun env r m' := by
  rw [lrun, h]

theorem lrun_jmp_next {env : Env} {i : Insn} {l : Label} {r : List Ev} {m m' : Mach}
    (hj : i.isJumpOp = true) (h : step env i none m = .next m') :
    lrun env (.jmp i l :: r) m = lrun env r m' := by
  rw [lrun]; simp [hj, h]

/-- Continue at the first definition of `l` (fault if there is none). -/
def goto (env : Env) (l : Label) (r : List Ev) (m : Mach) : Outcome :=
  match seek l r with
  | some r' => lrun env r' m
  | none => .fault

theorem lrun_jmp_taken {env : Env} {i : Insn} {l : Label} {r : List Ev} {m m' : Mach}
    (hj : i.isJumpOp = true) (h : step env i none m = .taken m') :
    lrun env (.jmp i l :: r) m = goto env l r m' := by
  rw [lrun]; simp only [hj, h, goto]
  simp only [Bool.not_true, Bool.false_eq_true, if_false]
  split <;> rename_i hs <;> simp [hs]

end CalicoVerif.C11
