import CalicoVerif.Proofs.C04Sum
/-! C04: every index operation keeps the invariant `Inv` (second part). -/
namespace CalicoVerif.C04

set_option linter.unusedSectionVars false
set_option linter.unusedVariables false

section Ops
variable {Sel : Type} [DecidableEq Sel] (matchSel : Sel → Labels → Bool)

/-- guards for `decrefOld (recalc o st) st` when `(id, o)` is a stored endpoint -/
theorem recalc_guards {st : Idx Sel} (hc : Core st) {id : String} {o : EpData} (hmem : (id, o) ∈ st.eps) :
    ((recalc o st).map (·.1)).Nodup ∧ ∀ p ∈ recalc o st, ∀ m', p.2.count m' ≤ refCount st p.1 m' := by
  refine ⟨by rw [recalc_keys]; exact hc.cachedNodup _ hmem, ?_⟩
  intro p hp m'
  obtain ⟨h1, h2⟩ := mem_recalc hp
  rw [hc.refc, h2]
  have := le_sumBy (term st p.1 m') hmem
  simp only [term, h1, if_true] at this
  exact this

/-- `DeleteEndpoint` keeps the invariant. -/
theorem deleteEndpoint_inv {st : Idx Sel} (id : String) (h : Inv matchSel st) :
    Inv matchSel (deleteEndpoint id st) := by
  have hc := h.core
  unfold deleteEndpoint
  cases hget : alGet id st.eps with
  | none => exact h
  | some old =>
    have hmem : (id, old) ∈ st.eps := alGet_some_mem hget
    have hrp : recalcPanics old st = false := recalcPanics_false (hc.cachedPresent _ hmem)
    have hdp : ∀ st2 : Idx Sel, discardPanics id old.parents st2 = false :=
      fun st2 => discardPanics_nodup (hc.parentsNodup _ hmem) id st2
    simp only [hrp, Bool.false_eq_true, if_false, hdp]
    obtain ⟨gnd, gg⟩ := recalc_guards hc hmem
    obtain ⟨eff, rc⟩ := decrefOld_eff (recalc old st) gnd gg
    have hgood := decrefOld_good (old := recalc old st) (Or.inr hc.wf)
    have hb1 : bad (decrefOld (recalc old st) st) = false := by rw [eff.bad]; exact hc.nb
    have hw1 := wf_of_good hgood hb1
    have hsub : ∀ p ∈ alErase id (decrefOld (recalc old st) st).eps, p ∈ st.eps := by
      intro p hp; rw [eff.eps] at hp; exact mem_alErase hp
    have hcfg : ∀ s, cfgAt ({ decrefOld (recalc old st) st with
        eps := alErase id (decrefOld (recalc old st) st).eps } : Idx Sel) s = cfgAt st s := eff.cfg
    refine ⟨⟨wf_of_sameButEps hw1 ⟨rfl, rfl, rfl, rfl, rfl, rfl, rfl⟩ (fun p hp => hc.wf.nets p (hsub p hp)),
      hb1, ?_, fun p hp => hc.cachedNodup p (hsub p hp), ?_, fun p hp => hc.parentsNodup p (hsub p hp), ?_⟩, ?_⟩
    · show ((alErase id (decrefOld (recalc old st) st).eps).map (·.1)).Nodup
      rw [eff.eps]; exact keys_alErase_nodup hc.epsNodup
    · intro p hp s hs
      show (alGet s (decrefOld (recalc old st) st).ipsets).isSome = true
      rw [eff.present]; exact hc.cachedPresent p (hsub p hp) s hs
    · intro s m
      show refCount (decrefOld (recalc old st) st) s m = sumBy _ (alErase id (decrefOld (recalc old st) st).eps)
      rw [rc, sumBy_congr (fun p _ => term_congr (hcfg s) m p), eff.eps, hc.refc,
        sumBy_split _ id hc.epsNodup, hget, oldCount_recalc old st (hc.cachedNodup _ hmem)]
      simp only [term]
      omega
    · exact lab_transfer matchSel h.lab hsub hcfg eff.parents

theorem mem_alMod' {κ β : Type} [DecidableEq κ] {k : κ} {f : β → β} {l : List (κ × β)} {p : κ × β}
    (h : p ∈ alMod k f l) : (p ∈ l ∧ p.1 ≠ k) ∨ ∃ v, (k, v) ∈ l ∧ p = (k, f v) := by
  unfold alMod at h
  obtain ⟨q, hq, rfl⟩ := List.mem_map.1 h
  by_cases hk : q.1 = k
  · right; refine ⟨q.2, ?_, by simp [hk]⟩
    rw [← hk]; exact hq
  · left; simp [hk, hq]

/-- one iteration of `updateParent`: the invariant's core survives, endpoint `id` gets a correct
cache, every other endpoint is untouched -/
theorem rescanEp_spec {st : Idx Sel} (id : String) (hc : Core st) :
    Core (rescanEp matchSel id st) ∧ (∀ s, cfgAt (rescanEp matchSel id st) s = cfgAt st s) ∧
    (rescanEp matchSel id st).parents = st.parents ∧
    ∀ p ∈ (rescanEp matchSel id st).eps,
      (p.1 = id ∧ ∀ s, OK matchSel (rescanEp matchSel id st) p.2 s) ∨ (p ∈ st.eps ∧ p.1 ≠ id) := by
  unfold rescanEp
  cases hget : alGet id st.eps with
  | none =>
    refine ⟨hc, fun _ => rfl, rfl, fun p hp => Or.inr ⟨hp, ?_⟩⟩
    intro hk
    have : (alGet id st.eps).isSome = true := alGet_isSome_iff.2 (List.mem_map.2 ⟨p, hp, hk⟩)
    rw [hget] at this; cases this
  | some e =>
    have hmem : (id, e) ∈ st.eps := alGet_some_mem hget
    have hrp : recalcPanics e st = false := recalcPanics_false (hc.cachedPresent _ hmem)
    simp only [hrp, Bool.false_eq_true, if_false]
    have heps : (scanEp matchSel e (recalc e st) st).1.eps = st.eps := (scanEp_frame matchSel _ _ st).eps
    obtain ⟨c1, l1, q1, hcfg, hpar, hok⟩ := core_after_scan matchSel st id e (some e) (alErase id st.eps)
      hc.wf hc.nb (hc.wf.nets _ hmem) (hc.parentsNodup _ hmem)
      (keys_alErase_nodup hc.epsNodup) (not_mem_keys_alErase id st.eps)
      (fun p hp => ⟨hc.cachedNodup p (mem_alErase hp), hc.cachedPresent p (mem_alErase hp),
        hc.parentsNodup p (mem_alErase hp), hc.wf.nets p (mem_alErase hp)⟩)
      (fun o ho => by cases ho; exact hc.cachedNodup _ hmem)
      (fun s m => by
        have := hc.refc s m
        rw [sumBy_split _ id hc.epsNodup, hget] at this
        exact this)
      { (scanEp matchSel e (recalc e st) st).1 with
        eps := alMod id (fun _ => (scanEp matchSel e (recalc e st) st).2) (scanEp matchSel e (recalc e st) st).1.eps }
      ⟨rfl, rfl, rfl, rfl, rfl, rfl, rfl⟩
      (by
        show (alMod id (fun _ => (scanEp matchSel e (recalc e st) st).2)
          (scanEp matchSel e (recalc e st) st).1.eps).Perm
          ((id, (scanEp matchSel e (recalc e st) st).2) :: alErase id st.eps)
        rw [heps]
        exact perm_alMod hc.epsNodup hget)
    refine ⟨c1, hcfg, hpar, ?_⟩
    intro p hp
    have hp2 : p ∈ alMod id (fun _ => (scanEp matchSel e (recalc e st) st).2)
        (scanEp matchSel e (recalc e st) st).1.eps := hp
    rw [heps] at hp2
    rcases mem_alMod' hp2 with ⟨h1, h2⟩ | ⟨v, _, rfl⟩
    · exact Or.inr ⟨h1, h2⟩
    · exact Or.inl ⟨rfl, hok⟩

theorem rescanFold_inv (ids : List String) (st : Idx Sel) (hc : Core st)
    (hq : ∀ p ∈ st.eps, p.1 ∈ ids ∨ ∀ s, OK matchSel st p.2 s) :
    Inv matchSel (ids.foldl (fun st id => rescanEp matchSel id st) st) := by
  induction ids generalizing st with
  | nil =>
    refine ⟨hc, fun p hp s => ?_⟩
    rcases hq p hp with h | h
    · cases h
    · exact h s
  | cons id ids ih =>
    rw [List.foldl_cons]
    obtain ⟨c1, hcfg, hpar, hmem⟩ := rescanEp_spec matchSel id hc
    apply ih _ c1
    intro p hp
    rcases hmem p hp with ⟨_, hok⟩ | ⟨hp0, hne⟩
    · exact Or.inr hok
    · rcases hq p hp0 with h | h
      · rcases List.mem_cons.1 h with h | h
        · exact absurd h hne
        · exact Or.inl h
      · exact Or.inr (fun s =>
          (OK_congr matchSel (hcfg s) hpar rfl rfl rfl rfl (fun _ => Iff.rfl)).2 (h s))

theorem flatMap_congr' {α β : Type} {f g : α → List β} {l : List α} (h : ∀ x ∈ l, f x = g x) :
    l.flatMap f = l.flatMap g := by
  induction l with
  | nil => rfl
  | cons a l ih =>
    simp only [List.flatMap_cons]
    rw [h a (List.mem_cons_self ..), ih (fun x hx => h x (List.mem_cons_of_mem _ hx))]

/-- `UpdateParentLabels` keeps the invariant. -/
theorem updateParentLabels_inv {st : Idx Sel} (pid : String) (labels : Labels) (h : Inv matchSel st) :
    Inv matchSel (updateParentLabels matchSel pid labels st) := by
  have hc := h.core
  unfold updateParentLabels
  split
  · exact h
  · simp only
    apply rescanFold_inv
    · exact ⟨⟨einv_congr hc.wf.e rfl rfl (fun _ => rfl) (fun _ _ => Iff.rfl), hc.wf.nets, hc.wf.sets, hc.wf.refwf⟩,
        hc.nb, hc.epsNodup, hc.cachedNodup, hc.cachedPresent, hc.parentsNodup, hc.refc⟩
    · intro p hp
      by_cases hpp : pid ∈ p.2.parents
      · left
        apply List.mem_map.2
        exact ⟨p, List.mem_filter.2 ⟨hp, by simpa using hpp⟩, rfl⟩
      · right
        intro s
        have hM : matchAt matchSel ({ st with parents := alSet pid labels st.parents } : Idx Sel) p.2 s =
            matchAt matchSel st p.2 s := by
          unfold matchAt
          have : effLabels ({ st with parents := alSet pid labels st.parents } : Idx Sel) p.2 = effLabels st p.2 := by
            unfold effLabels
            congr 1
            apply flatMap_congr'
            intro x hx
            unfold parentLabels
            simp only [alGet_alSet]
            have : x ≠ pid := fun e => hpp (e ▸ hx)
            simp [this]
          simp only [this]
        have := h.lab p hp s
        unfold OK at this ⊢
        rw [hM]
        exact this

/-- `DeleteParentLabels` keeps the invariant. -/
theorem deleteParentLabels_inv {st : Idx Sel} (pid : String) (h : Inv matchSel st) :
    Inv matchSel (deleteParentLabels matchSel pid st) :=
  updateParentLabels_inv matchSel pid [] h

end Ops
end CalicoVerif.C04
