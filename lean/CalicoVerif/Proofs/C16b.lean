import CalicoVerif.Proofs.C16a
namespace CalicoVerif.C16

/-! ### Frame lemmas: what the resync path does not touch -/

theorem foldl_inv {α β : Type} (P : α → Prop) (f : α → β → α) (h : ∀ a b, P a → P (f a b)) :
    ∀ (l : List β) (a : α), P a → P (l.foldl f a) := by
  intro l; induction l with
  | nil => intro a ha; exact ha
  | cons x xs ih => intro a ha; exact ih _ (h a x ha)

@[simp] theorem updateDirtiness_desired (F : Felix) (n : String) : (F.updateDirtiness n).desired = F.desired := by
  unfold Felix.updateDirtiness; split
  · rfl
  · split
    · rfl
    · split <;> rfl

@[simp] theorem qAdd_desired (F : Felix) (n : String) (b : Bool) : (F.qAdd n b).desired = F.desired := by
  unfold Felix.qAdd; split
  · rfl
  · split
    · split <;> rfl
    · split <;> rfl

@[simp] theorem qRemove_desired (F : Felix) (n : String) : (F.qRemove n).desired = F.desired := rfl

@[simp] theorem onMissing_desired (F : Felix) (n : String) : (F.onMissing n).desired = F.desired := by
  unfold Felix.onMissing
  simp only [qRemove_desired, updateDirtiness_desired]
  split
  · rfl
  · split <;> rfl

@[simp] theorem sweep_desired (F : Felix) (l : List String) : (F.sweep l).desired = F.desired := by
  unfold Felix.sweep
  exact foldl_inv (fun G => G.desired = F.desired) Felix.onMissing
    (fun a b h => by simp [h]) _ F rfl

/-- "Same kernel, same desired map, same configuration". -/
def Frame (w w' : W) : Prop := w'.K = w.K ∧ w'.F.desired = w.F.desired ∧ w'.cfg = w.cfg

theorem Frame.refl (w : W) : Frame w w := ⟨rfl, rfl, rfl⟩
theorem Frame.trans {a b c : W} (h1 : Frame a b) (h2 : Frame b c) : Frame a c :=
  ⟨h2.1.trans h1.1, h2.2.1.trans h1.2.1, h2.2.2.trans h1.2.2⟩

theorem listNames_frame (w : W) : Frame w w.listNames.1 := by
  unfold W.listNames
  split <;> (dsimp only; split <;> exact ⟨rfl, rfl, rfl⟩)

theorem listSet_frame (w : W) (n : String) : Frame w (w.listSet n).1 := by
  unfold W.listSet
  split
  · exact ⟨rfl, rfl, rfl⟩
  · split
    · exact ⟨rfl, rfl, rfl⟩
    · dsimp only
      split
      · exact ⟨rfl, rfl, rfl⟩
      · split <;> exact ⟨rfl, rfl, rfl⟩

@[simp] theorem applyList_desired (c : Cfg) (F : Felix) (n : String) (lr : LR) :
    (F.applyList c n lr).1.desired = F.desired := by
  cases lr with
  | notFound => simp [Felix.applyList]
  | failNoOutput => rfl
  | listed m ms failed =>
    simp only [Felix.applyList]
    split <;> simp

theorem resyncIPSet_frame (w : W) (n : String) : Frame w (w.resyncIPSet n).1 := by
  unfold W.resyncIPSet
  have h := listSet_frame w n
  exact ⟨h.1, by simp [h.2.1], h.2.2⟩

end CalicoVerif.C16
