import CalicoVerif.Proofs.C15e
set_option linter.unusedSimpArgs false
namespace CalicoVerif.C15

theorem readHashes_get (K : Kernel) (c : String) : (readHashes K).get c = (K.get c).map (fun rs => rs.map KRule.hash) := by
  unfold readHashes Map.get
  induction K with
  | nil => rfl
  | cons p K ih =>
    simp only [List.map_cons, List.lookup]
    split <;> simp_all

theorem filterMap_filter_key (D : List String) (f : String → Option Chain) (c : String) (hn : D.Nodup) :
    ((D.filterMap (fun x => (f x).map (fun ch => (x, ch)))).filter (fun g => g.1 == c)) =
      (match f c with | some ch => if c ∈ D then [(c, ch)] else [] | none => []) := by
  induction D with
  | nil => cases f c <;> simp
  | cons a D ih =>
    simp only [List.nodup_cons] at hn
    have ih' := ih hn.2
    simp only [List.filterMap_cons]
    cases hfa : f a with
    | none =>
      simp only [Option.map_none]
      rw [ih']
      by_cases hac : a = c
      · subst hac; simp [hfa]
      · cases f c with
        | none => rfl
        | some ch => simp [List.mem_cons, Ne.symm hac]
    | some cha =>
      simp only [Option.map_some, List.filter_cons]
      by_cases hac : a = c
      · subst hac
        simp only [beq_self_eq_true, if_true, hfa, List.mem_cons, true_or]
        rw [ih']; simp [hfa, hn.1]
      · have : (a == c) = false := by simp [hac]
        simp only [this, Bool.false_eq_true, if_false]
        rw [ih']
        cases f c with
        | none => rfl
        | some ch => simp [List.mem_cons, Ne.symm hac]

/-- The lines of the transaction that name the Felix-owned chain `c`. -/
theorem plan_proj {t : T} {lines newH newFull} (h : t.plan = some (lines, newH, newFull))
    (hn : t.dirty.Nodup) (c : String) (hne : c ≠ "") (hia : c ∉ t.dirtyIA) :
    lines.filter (fun l => l.chain == c) =
      (if c ∈ t.dirty ∧ ((t.desiredChain c).isNone || !t.dpHashes.has c) = true then [RLine.fwd c] else []) ++
      (match t.desiredChain c with
       | some ch => if c ∈ t.dirty then diffLines c ch.rules.length 0 ((t.dpHashes.get c).getD []) ch.rules else []
       | none => []) ++
      (if c ∈ t.dirty ∧ (t.desiredChain c).isNone = true then [RLine.delChain c] else []) := by
  unfold T.plan at h
  dsimp only at h
  split at h
  · simp at h
  · rename_i hany
    simp only [Option.some.injEq, Prod.mk.injEq] at h
    rw [← h.1]
    have hnS : (sortS t.dirty).Nodup := sortS_nodup hn
    have hmemS : ∀ x, x ∈ sortS t.dirty ↔ x ∈ t.dirty := fun x => mem_sortS
    simp only [List.filter_append]
    -- the insert/append part names other chains
    have hIA : ((((sortS t.dirtyIA).map (fun c => (c, t.iaLines c))).flatMap
        (fun p => iaLinesOf p.2)).filter (fun l => l.chain == c)) = [] := by
      apply filter_none_chain
      intro l hl
      obtain ⟨p, hp, hlp⟩ := List.mem_flatMap.1 hl
      obtain ⟨c', hc', rfl⟩ := List.mem_map.1 hp
      cases hia' : t.iaLines c' with
      | none => rw [hia'] at hlp; simp [iaLinesOf] at hlp
      | some v =>
        obtain ⟨ls, u⟩ := v
        rw [hia'] at hlp
        rcases iaLines_chain hia' l hlp with h1 | h1
        · rw [h1]; rintro rfl; exact hia (mem_sortS.1 hc')
        · rw [h1]; exact fun e => hne e.symm
    rw [hIA, List.append_nil]
    congr 1
    · congr 1
      · -- forward references
        rw [filter_map_chain RLine.fwd (fun _ => rfl)]
        rw [List.filter_filter]
        have : (sortS t.dirty).filter (fun x => (x == c) && ((t.desiredChain x).isNone || !t.dpHashes.has x)) =
            if c ∈ t.dirty ∧ ((t.desiredChain c).isNone || !t.dpHashes.has c) = true then [c] else [] := by
          have h1 : (sortS t.dirty).filter (fun x => (x == c) && ((t.desiredChain x).isNone || !t.dpHashes.has x)) =
              ((sortS t.dirty).filter (fun x => x == c)).filter (fun x => ((t.desiredChain x).isNone || !t.dpHashes.has x)) := by
            rw [List.filter_filter]; congr 1; funext x; exact Bool.and_comm _ _
          rw [h1, filter_eq_nodup hnS c]
          by_cases hc : c ∈ t.dirty
          · simp only [(hmemS c).2 hc, if_true, hc, true_and]
            by_cases hq : ((t.desiredChain c).isNone || !t.dpHashes.has c) = true <;> simp [hq]
          · have : c ∉ sortS t.dirty := fun h' => hc ((hmemS c).1 h')
            simp [this, hc]
        rw [this]
        split <;> rfl
      · -- the per-position diffs
        rw [filter_flatMap_chain (fun p : String × Chain => diffLines p.1 p.2.rules.length 0 ((t.dpHashes.get p.1).getD []) p.2.rules)
          (fun g l hl => diffLines_chain _ _ _ _ _ l hl)]
        rw [filterMap_filter_key (sortS t.dirty) t.desiredChain c hnS]
        cases t.desiredChain c with
        | none => rfl
        | some ch =>
          by_cases hc : c ∈ t.dirty
          · simp [(hmemS c).2 hc, hc]
          · have : c ∉ sortS t.dirty := fun h' => hc ((hmemS c).1 h')
            simp [this, hc]
    · -- chain deletions
      rw [filter_map_chain RLine.delChain (fun _ => rfl)]
      rw [List.filter_filter]
      have h1 : (sortS t.dirty).filter (fun x => (x == c) && (t.desiredChain x).isNone) =
          ((sortS t.dirty).filter (fun x => x == c)).filter (fun x => (t.desiredChain x).isNone) := by
        rw [List.filter_filter]; congr 1; funext x; exact Bool.and_comm _ _
      rw [h1, filter_eq_nodup hnS c]
      by_cases hc : c ∈ t.dirty
      · simp only [(hmemS c).2 hc, if_true, hc, true_and]
        by_cases hq : (t.desiredChain c).isNone = true <;> simp [hq]
      · have : c ∉ sortS t.dirty := fun h' => hc ((hmemS c).1 h')
        simp [this, hc]

end CalicoVerif.C15
