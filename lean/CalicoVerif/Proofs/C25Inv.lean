import CalicoVerif.Proofs.C25
/-!
C25 — the inductive invariant of the DedupeBuffer system and its preservation by
every op.
-/
namespace CalicoVerif.C25

/-! ### retype / queueUpdate -/

theorem retype_key (l : List Key) (u : Upd) : (retype l u).key = u.key := by
  unfold retype; split <;> rfl
theorem retype_val (l : List Key) (u : Upd) : (retype l u).val = u.val := by
  unfold retype; split <;> rfl
theorem retype_rev (l : List Key) (u : Upd) : (retype l u).rev = u.rev := by
  unfold retype; split <;> rfl
theorem retype_entry (l : List Key) (u : Upd) : (retype l u).entry = u.entry := by
  simp [Upd.entry, retype_val, retype_rev]
theorem retype_ut (l : List Key) (u : Upd) (h : u.val.isSome = true) :
    (retype l u).ut = if u.key ∈ l then utUpdated else utNew := by
  unfold retype
  split
  · simp
  · rename_i hn; simp [hn] at h

theorem queueUpdate_cases (b : Buf) (u : Upd) :
    (isPending b.pending u.key = true ∧ u.val = none ∧ u.key ∉ b.live ∧
      queueUpdate b u = { b with pending := removeKey b.pending u.key }) ∨
    (isPending b.pending u.key = true ∧ ¬(u.val = none ∧ u.key ∉ b.live) ∧
      queueUpdate b u = { b with pending := replaceKey b.pending (retype b.live u) }) ∨
    (isPending b.pending u.key = false ∧
      queueUpdate b u = { b with pending := b.pending ++ [Item.up (retype b.live u)] }) := by
  unfold queueUpdate
  simp only [retype_key, retype_val]
  by_cases hp : isPending b.pending u.key = true
  · by_cases hd : u.val = none ∧ u.key ∉ b.live
    · left
      refine ⟨hp, hd.1, hd.2, ?_⟩
      simp [hp, hd.1, hd.2]
    · right; left
      refine ⟨hp, hd, ?_⟩
      have : (u.val.isNone && !b.live.contains u.key) = false := by
        by_cases h1 : u.val = none
        · have : u.key ∈ b.live := by
            by_cases h2 : u.key ∈ b.live
            · exact h2
            · exact absurd ⟨h1, h2⟩ hd
          simp [h1, this]
        · cases hv : u.val with
          | none => exact absurd hv h1
          | some v => simp
      rw [if_pos hp, this]
      rfl
  · right; right
    have hp' : isPending b.pending u.key = false := by simpa using hp
    exact ⟨hp', by simp [hp']⟩

theorem queueUpdate_live (b : Buf) (u : Upd) : (queueUpdate b u).live = b.live := by
  rcases queueUpdate_cases b u with ⟨_, _, _, h⟩ | ⟨_, _, h⟩ | ⟨_, h⟩ <;> rw [h]
theorem queueUpdate_notSeen (b : Buf) (u : Upd) : (queueUpdate b u).notSeen = b.notSeen := by
  rcases queueUpdate_cases b u with ⟨_, _, _, h⟩ | ⟨_, _, h⟩ | ⟨_, h⟩ <;> rw [h]
theorem queueUpdate_mostRecent (b : Buf) (u : Upd) : (queueUpdate b u).mostRecent = b.mostRecent := by
  rcases queueUpdate_cases b u with ⟨_, _, _, h⟩ | ⟨_, _, h⟩ | ⟨_, h⟩ <;> rw [h]

/-- Effect of `queueUpdate` on what the queue will leave downstream for each key. -/
theorem effU_queueUpdate (b : Buf) (u : Upd) (k : Key) (a : Option V)
    (hl : k = u.key → (u.key ∈ b.live ↔ a.isSome = true)) :
    effU k a (ups (queueUpdate b u).pending) =
      if k = u.key then u.entry else effU k a (ups b.pending) := by
  rcases queueUpdate_cases b u with ⟨hp, hv, hnl, h⟩ | ⟨hp, _, h⟩ | ⟨hp, h⟩ <;> rw [h]
  · simp only [ups_removeKey, effU_filter]
    by_cases hk : k = u.key
    · have : ¬ a.isSome = true := fun h => hnl ((hl hk).mpr h)
      have ha : a = none := by simpa using this
      simp [hk, ha, Upd.entry, hv]
    · simp [hk]
  · rw [ups_replaceKey, effU_replace]
    simp only [retype_key, retype_entry]
    have : ∃ x ∈ ups b.pending, x.key = u.key := (isPending_iff _ _).mp hp
    simp [this]
  · simp only [ups_append, effU_append]
    simp only [ups, List.filterMap_cons, List.filterMap_nil, effU, List.foldl_cons, List.foldl_nil,
      retype_key, retype_entry]
    by_cases hk : k = u.key
    · simp [hk]
    · have : ¬ u.key = k := fun e => hk e.symm
      simp [hk, this]

/-- `queueUpdate` does not change which OTHER keys are queued. -/
theorem queueUpdate_other_keys (b : Buf) (u : Upd) (k : Key) (hk : k ≠ u.key) :
    (∃ x ∈ ups (queueUpdate b u).pending, x.key = k) ↔ ∃ x ∈ ups b.pending, x.key = k := by
  rcases queueUpdate_cases b u with ⟨_, _, _, h⟩ | ⟨_, _, h⟩ | ⟨_, h⟩ <;> rw [h]
  · simp only [ups_removeKey, List.mem_filter]
    constructor
    · rintro ⟨x, ⟨hx, _⟩, e⟩; exact ⟨x, hx, e⟩
    · rintro ⟨x, hx, e⟩
      refine ⟨x, ⟨hx, ?_⟩, e⟩
      simp [e, hk]
  · simp only [ups_replaceKey, List.mem_map]
    constructor
    · rintro ⟨x, ⟨y, hy, e1⟩, e⟩
      rw [retype_key] at e1
      by_cases hyk : y.key = u.key
      · simp only [hyk, if_true] at e1
        subst e1
        rw [retype_key] at e
        exact absurd e.symm hk
      · simp only [hyk, if_false] at e1
        subst e1
        exact ⟨y, hy, e⟩
    · rintro ⟨x, hx, e⟩
      refine ⟨x, ⟨x, hx, ?_⟩, e⟩
      have : ¬ x.key = u.key := by rw [e]; exact hk
      simp [this, retype_key]
  · simp only [ups_append, List.mem_append]
    constructor
    · rintro ⟨x, hx | hx, e⟩
      · exact ⟨x, hx, e⟩
      · simp only [ups, List.filterMap_cons, List.filterMap_nil, List.mem_singleton] at hx
        subst hx
        rw [retype_key] at e
        exact absurd e.symm hk
    · rintro ⟨x, hx, e⟩; exact ⟨x, Or.inl hx, e⟩

/-- Shape of the queued updates after `queueUpdate`: every queued update is either an old one of
another key or the (retyped) new one; and old ones of other keys stay. -/
theorem mem_ups_queueUpdate (b : Buf) (u x : Upd) (hx : x ∈ ups (queueUpdate b u).pending) :
    (x ∈ ups b.pending ∧ x.key ≠ u.key) ∨
      (x = retype b.live u ∧ ¬(u.val = none ∧ u.key ∉ b.live ∧ isPending b.pending u.key = true)) := by
  rcases queueUpdate_cases b u with ⟨_, _, _, h⟩ | ⟨hp, hd, h⟩ | ⟨hp, h⟩ <;> rw [h] at hx
  · simp only [ups_removeKey, List.mem_filter] at hx
    left; exact ⟨hx.1, by simpa using hx.2⟩
  · simp only [ups_replaceKey, List.mem_map] at hx
    obtain ⟨y, hy, e⟩ := hx
    rw [retype_key] at e
    by_cases hyk : y.key = u.key
    · simp only [hyk, if_true] at e
      right; exact ⟨e.symm, fun h => hd ⟨h.1, h.2.1⟩⟩
    · simp only [hyk, if_false] at e
      subst e
      left; exact ⟨hy, hyk⟩
  · simp only [ups_append, List.mem_append] at hx
    rcases hx with hx | hx
    · left
      exact ⟨hx, (isPending_false_iff _ _).mp hp x hx⟩
    · simp only [ups, List.filterMap_cons, List.filterMap_nil, List.mem_singleton] at hx
      right; exact ⟨hx, fun h => by simp [hp] at h⟩

theorem nodup_queueUpdate (b : Buf) (u : Upd) (h : ((ups b.pending).map (·.key)).Nodup) :
    ((ups (queueUpdate b u).pending).map (·.key)).Nodup := by
  rcases queueUpdate_cases b u with ⟨_, _, _, e⟩ | ⟨_, _, e⟩ | ⟨hp, e⟩ <;> rw [e]
  · simp only [ups_removeKey]
    exact List.Nodup.sublist (List.Sublist.map _ List.filter_sublist) h
  · simp only [ups_replaceKey, List.map_map]
    have : ((fun x : Upd => x.key) ∘ fun x => if x.key = (retype b.live u).key then retype b.live u else x)
        = fun x : Upd => x.key := by
      funext x
      simp only [Function.comp]
      split
      · rename_i hx; exact hx.symm
      · rfl
    rw [this]; exact h
  · simp only [ups_append, List.map_append]
    simp only [ups, List.filterMap_cons, List.filterMap_nil, List.map_cons, List.map_nil, retype_key]
    rw [List.nodup_append]
    refine ⟨h, by simp, ?_⟩
    intro a ha c hc
    simp only [List.mem_singleton] at hc
    subst hc
    obtain ⟨x, hx, e⟩ := List.mem_map.mp ha
    exact fun hac => (isPending_false_iff _ _).mp hp x hx (by rw [e, hac])

/-! ### the invariant -/

structure Inv (s : Sys) : Prop where
  /-- liveResourceKeys is exactly the key set downstream holds -/
  live_iff : ∀ k, k ∈ s.buf.live ↔ (s.down k).isSome = true
  /-- outside the not-yet-seen set, downstream-after-the-queue-drains equals the connection's view -/
  eff : ∀ k, (∀ n, s.buf.notSeen = some n → k ∉ n) →
    effU k (s.down k) (ups s.buf.pending) = s.view k
  /-- a not-yet-seen key is not queued, is held downstream and is absent from the connection's view -/
  ns : ∀ n, s.buf.notSeen = some n → ∀ k ∈ n,
    (∀ x ∈ ups s.buf.pending, x.key ≠ k) ∧ k ∈ s.buf.live ∧ s.view k = none
  /-- once the latest connection reported InSync the resync tracking is finished -/
  insync : s.insync = true → s.buf.notSeen = none
  /-- at most one queued update per key -/
  nodup : ((ups s.buf.pending).map (·.key)).Nodup
  /-- queued set-updates carry the type that matches what downstream holds -/
  typed : ∀ x ∈ ups s.buf.pending, x.val.isSome = true →
    x.ut = if x.key ∈ s.buf.live then utUpdated else utNew
  /-- (well-formed upstream) queued deletions are for keys downstream holds -/
  dels : s.wf = true → ∀ x ∈ ups s.buf.pending, x.val = none → x.key ∈ s.buf.live
  logT : ∀ e ∈ s.log, e.1.val.isSome = true → e.1.ut = if e.2 = true then utUpdated else utNew
  logD : s.wf = true → ∀ e ∈ s.log, e.1.val = none → e.2 = true

theorem Inv.init : Inv Sys.init := by
  refine ⟨?_, ?_, ?_, ?_, ?_, ?_, ?_, ?_, ?_⟩ <;> simp [Sys.init, Buf.new, ups, effU]

/-- A key that is not in the not-seen set and not queued: downstream already agrees with the view. -/
theorem Inv.down_eq_view {s : Sys} (h : Inv s) (k : Key)
    (hn : ∀ n, s.buf.notSeen = some n → k ∉ n) (hq : ∀ x ∈ ups s.buf.pending, x.key ≠ k) :
    s.down k = s.view k := by
  rw [← h.eff k hn, effU_not_mem _ _ _ hq]

/-! ### preservation: one upstream update -/

theorem Inv.upd1 {s : Sys} (h : Inv s) (u : Upd) : Inv (s.upd1 u) := by
  let b1 : Buf := { s.buf with notSeen := s.buf.notSeen.map (fun n => setDiscard n u.key) }
  have hbuf : (s.upd1 u).buf = queueUpdate b1 u := rfl
  have hlive : (s.upd1 u).buf.live = s.buf.live := by rw [hbuf, queueUpdate_live]
  have hns : (s.upd1 u).buf.notSeen = s.buf.notSeen.map (fun n => setDiscard n u.key) := by
    rw [hbuf, queueUpdate_notSeen]
  have hdown : (s.upd1 u).down = s.down := rfl
  have hview : (s.upd1 u).view = applyUpd s.view u := rfl
  have hlog : (s.upd1 u).log = s.log := rfl
  have hwf : (s.upd1 u).wf = true → s.wf = true ∧ (u.val.isSome = true ∨ (s.view u.key).isSome = true) := by
    intro hw
    simp only [Sys.upd1, Bool.and_eq_true, Bool.or_eq_true] at hw
    exact hw
  have hb1p : b1.pending = s.buf.pending := rfl
  have hb1l : b1.live = s.buf.live := rfl
  refine ⟨?_, ?_, ?_, ?_, ?_, ?_, ?_, ?_, ?_⟩
  · intro k; rw [hlive, hdown]; exact h.live_iff k
  · intro k hk
    rw [hbuf, hdown, hview, effU_queueUpdate b1 u k (s.down k) (fun e => by rw [hb1l, e]; exact h.live_iff _)]
    by_cases e : k = u.key
    · subst e; simp [applyUpd]
    · have e' : ¬ u.key = k := fun x => e x.symm
      simp only [e, if_false, applyUpd, e', hb1p]
      apply h.eff k
      intro n hn hkn
      apply hk (setDiscard n u.key) (by rw [hns, hn]; rfl)
      exact (mem_setDiscard _ _ _).mpr ⟨hkn, e⟩
  · intro n' hn' k hk
    rw [hns] at hn'
    cases hn : s.buf.notSeen with
    | none => simp [hn] at hn'
    | some n =>
      simp only [hn, Option.map_some, Option.some.injEq] at hn'
      subst hn'
      obtain ⟨hkn, hku⟩ := (mem_setDiscard _ _ _).mp hk
      obtain ⟨h1, h2, h3⟩ := h.ns n hn k hkn
      refine ⟨?_, by rw [hlive]; exact h2, ?_⟩
      · intro x hx e
        have := (queueUpdate_other_keys b1 u k hku).mp ⟨x, by rw [← hbuf]; exact hx, e⟩
        obtain ⟨y, hy, ey⟩ := this
        exact h1 y hy ey
      · have : ¬ u.key = k := fun x => hku x.symm
        simp [hview, applyUpd, this, h3]
  · intro hi
    rw [hns, h.insync hi]; rfl
  · rw [hbuf]; exact nodup_queueUpdate b1 u h.nodup
  · intro x hx hv
    rw [hbuf] at hx
    rw [hlive]
    rcases mem_ups_queueUpdate b1 u x hx with ⟨hx', _⟩ | ⟨e, _⟩
    · exact h.typed x hx' hv
    · subst e
      rw [retype_val] at hv
      rw [retype_ut _ _ hv, retype_key]
  · intro hw x hx hv
    obtain ⟨hw1, hw2⟩ := hwf hw
    rw [hbuf] at hx
    rw [hlive]
    rcases mem_ups_queueUpdate b1 u x hx with ⟨hx', _⟩ | ⟨e, hne⟩
    · exact h.dels hw1 x hx' hv
    · subst e
      rw [retype_val] at hv
      rw [retype_key]
      have hvw : (s.view u.key).isSome = true := by
        rcases hw2 with h' | h'
        · simp [hv] at h'
        · exact h'
      -- either the key is queued (then the deletion stays only if the key is live) or it is not
      -- (then downstream already agrees with the view, which holds the key)
      by_cases hp : isPending s.buf.pending u.key = true
      · by_cases hl : u.key ∈ s.buf.live
        · exact hl
        · exact absurd ⟨hv, hl, hp⟩ hne
      · have hp' : ∀ x ∈ ups s.buf.pending, x.key ≠ u.key :=
          (isPending_false_iff _ _).mp (by simpa using hp)
        have hnn : ∀ n, s.buf.notSeen = some n → u.key ∉ n := by
          intro n hn hk
          have := (h.ns n hn _ hk).2.2
          simp [this] at hvw
        have := h.down_eq_view u.key hnn hp'
        exact (h.live_iff _).mpr (by rw [this]; exact hvw)
  · intro e he; rw [hlog] at he; exact h.logT e he
  · intro hw e he; rw [hlog] at he; exact h.logD (hwf hw).1 e he

theorem Inv.upds {s : Sys} (h : Inv s) (us : List Upd) : Inv (us.foldl Sys.upd1 s) := by
  induction us generalizing s with
  | nil => exact h
  | cons u us ih => exact ih (h.upd1 u)

end CalicoVerif.C25
