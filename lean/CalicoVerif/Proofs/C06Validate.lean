import CalicoVerif.Model.C06Parser
/-! C06 helper lemmas: the `validateOnly` path accepts exactly what the node-building path accepts. -/
namespace CalicoVerif.C06

/-- forget the node. -/
def dropNode : PResult → VResult
  | .error e => .error e
  | .ok (_, rem) => .ok rem

def dropNodes : Except Err (List Node × List Token) → VResult
  | .error e => .error e
  | .ok (_, rem) => .ok rem

theorem validateLabelOp_eq (l : Str) (rest : List Token) :
    validateLabelOp rest = dropNode (parseLabelOp l rest) := by
  unfold validateLabelOp parseLabelOp
  split
  · rfl
  · rfl
  · rename_i op t2 rem
    cases op <;> simp only [dropNode] <;> cases t2 <;> simp only [dropNode] <;>
      (try (split <;> rfl))

section
variable {op : List Token → PResult} {vop : List Token → VResult} (h : ∀ toks, vop toks = dropNode (op toks))
include h

theorem vAndRest_eq : ∀ (fuel : Nat) (toks : List Token),
    vAndRest vop fuel toks = dropNodes (andRest op fuel toks)
  | 0, toks => by
    unfold vAndRest andRest
    split <;> simp_all [dropNodes]
  | fuel + 1, toks => by
    unfold vAndRest andRest
    split
    · rename_i f rem heq
      have hf : f = fuel := by omega
      subst hf
      simp only [h rem]
      cases hop : op rem with
      | error e => simp [dropNode, dropNodes]
      | ok p =>
        obtain ⟨n, rem'⟩ := p
        simp only [dropNode]
        rw [vAndRest_eq f rem']
        cases andRest op f rem' with
        | error e => simp [dropNodes]
        | ok q => simp [dropNodes]
    · rename_i heq; cases heq
    · simp_all [dropNodes]

theorem validateAndWith_eq (fuel : Nat) (toks : List Token) :
    validateAndWith vop fuel toks = dropNode (parseAndWith op fuel toks) := by
  unfold validateAndWith parseAndWith
  rw [h toks]
  cases op toks with
  | error e => rfl
  | ok p =>
    obtain ⟨n, rem⟩ := p
    simp only [dropNode]
    rw [vAndRest_eq h]
    cases andRest op fuel rem with
    | error e => rfl
    | ok q => rfl

theorem vOrRest_eq (fuelAnd : Nat) : ∀ (fuel : Nat) (toks : List Token),
    vOrRest vop fuelAnd fuel toks = dropNodes (orRest op fuelAnd fuel toks)
  | 0, toks => by
    unfold vOrRest orRest
    split <;> simp_all [dropNodes]
  | fuel + 1, toks => by
    unfold vOrRest orRest
    split
    · rename_i f rem heq
      have hf : f = fuel := by omega
      subst hf
      rw [validateAndWith_eq h]
      cases hop : parseAndWith op fuelAnd rem with
      | error e => simp [dropNode, dropNodes]
      | ok p =>
        obtain ⟨n, rem'⟩ := p
        simp only [dropNode]
        rw [vOrRest_eq fuelAnd f rem']
        cases orRest op fuelAnd f rem' with
        | error e => simp [dropNodes]
        | ok q => simp [dropNodes]
    · rename_i heq; cases heq
    · simp_all [dropNodes]

theorem validateOrWith_eq (fuel : Nat) (toks : List Token) :
    validateOrWith vop fuel toks = dropNode (parseOrWith op fuel toks) := by
  unfold validateOrWith parseOrWith
  rw [validateAndWith_eq h]
  cases parseAndWith op fuel toks with
  | error e => rfl
  | ok p =>
    obtain ⟨n, rem⟩ := p
    simp only [dropNode]
    rw [vOrRest_eq h]
    cases orRest op fuel fuel rem with
    | error e => rfl
    | ok q => rfl

end

theorem validateOperation_eq : ∀ (fuel : Nat) (toks : List Token),
    validateOperation fuel toks = dropNode (parseOperation fuel toks)
  | _, [] => by cases ‹Nat› <;> simp [validateOperation, parseOperation, dropNode]
  | 0, _ :: _ => by simp [validateOperation, parseOperation, dropNode]
  | fuel + 1, t :: ts => by
    rw [validateOperation, parseOperation]
    generalize stripNots (t :: ts) false = sn
    obtain ⟨negated, toks'⟩ := sn
    simp only []
    cases toks' with
    | nil => rfl
    | cons t0 rest =>
      cases t0 with
      | label l =>
        simp only []
        rw [validateLabelOp_eq l rest]
        cases parseLabelOp l rest with
        | error e => rfl
        | ok p => rfl
      | lParen =>
        simp only []
        rw [validateOrWith_eq (validateOperation_eq fuel)]
        cases parseOrWith (parseOperation fuel) fuel rest with
        | error e => rfl
        | ok p =>
          obtain ⟨n, rem⟩ := p
          simp only [dropNode]
          split <;> rfl
      | _ => rfl

theorem validate_core (k : Nat) (tokens : List Token) :
    (match validateOrWith (validateOperation k) k tokens with
      | .error e => (.error e : Except Err Unit)
      | .ok rem => if rem.length ≠ 1 then .error .trailing else .ok ()) =
    (match (match parseOrExpression k tokens with
        | .error e => (.error e : Except Err Node)
        | .ok (n, rem) => if rem.length ≠ 1 then .error .trailing else .ok n) with
      | .error e => .error e
      | .ok _ => .ok ()) := by
  unfold parseOrExpression
  rw [validateOrWith_eq (validateOperation_eq k)]
  cases parseOrWith (parseOperation k) k tokens with
  | error e => rfl
  | ok p =>
    obtain ⟨n, rem⟩ := p
    simp only [dropNode]
    split <;> rfl

/-- MAIN: `Validate` returns exactly the error `Parse` returns, and accepts
exactly what `Parse` accepts. -/
theorem validate_eq_parse (s : Str) :
    validate s = (match parse s with | .error e => .error e | .ok _ => .ok ()) := by
  unfold validate parse
  cases tokenize s with
  | error e => rfl
  | ok tokens =>
    have key := validate_core tokens.length tokens
    cases tokens with
    | nil => exact key
    | cons t ts =>
      cases t
      case eof => rfl
      all_goals exact key

end CalicoVerif.C06
