import CalicoVerif.Proofs.C19b
open CalicoVerif.Cas
namespace CalicoVerif.C19

/-- Handle records agree with block records: for every real handle `h` and block `b`, the
count recorded in the handle equals the block's live addresses of `h` plus the
outstanding tokens (increments whose block write has not happened — yet, or ever:
crash — and releases whose decrement has not happened). -/
def HEq (s : St) : Prop := ∀ h b, h ≠ 0 → hcount s h b = liveAt s b h + credTot h b s.creds

theorem heq_applyWrite {s s' : St} {c : Call} (hwf : AllWF s) (hi : HEq s)
    (hcur : c.verb = Verb.create → s.curRev c.key = none)
    (hw : applyWrite s c = some s') : HEq s' := by
  unfold applyWrite at hw
  split at hw
  · -- block create
    rename_i b0 a0 n0 hk hv _
    injection hw with hw; subst hw
    have habs : s.blk b0 = none := by
      have := hcur hv
      rw [hk] at this
      simp only [St.curRev, Option.map_eq_none_iff] at this
      exact this
    intro h b' hh
    have := hi h b' hh
    simp only [liveAt, hcount, upd] at this ⊢
    by_cases e : b' = b0
    · subst e; simp [newBlk, liveCount_replicate_free, habs] at this ⊢; omega
    · simp [e]; exact this
  · -- block read-modify-write
    rename_i b g1 op g2 _ _ _
    split at hw
    · cases hw
    · rename_i rv v hb
      split at hw
      · cases hw
      · rename_i res hr
        split at hw
        · cases hw
        · rename_i cs hs
          injection hw with hw; subst hw
          intro h b' hh
          have h0 := hi h b' hh
          have h1 := rmw_count_eq (hwf _ _ _ hb) h hh hr
          have h2 := spend_count_eq h b' hs
          have h3 := credTot_addDebits h b' c.t b res.debits cs
          simp only [liveAt, hcount, upd] at h0 ⊢
          rw [h3]
          by_cases e : b' = b
          · subst e; simp [hb] at h0 ⊢; simp at h2; omega
          · simp [e] at h2 ⊢; omega
  · -- block delete
    rename_i b g1 op g2 _ _ _
    split at hw
    · cases hw
    · rename_i rv v hb
      split at hw
      · split at hw
        · rename_i v1 hg
          split at hw
          · rename_i hc
            simp only [Bool.and_eq_true] at hc
            injection hw with hw; subst hw
            intro h b' hh
            have h0 := hi h b' hh
            have hz : liveCount h v.slots = 0 := by
              rw [← liveCount_gc_eq h hg]; exact liveCount_empty hc.1 h
            simp only [liveAt, hcount, upd] at h0 ⊢
            by_cases e : b' = b
            · subst e; simp [hb] at h0 ⊢; omega
            · simp [e]; exact h0
          · cases hw
        · cases hw
      · rename_i op'
        split at hw
        · cases hw
        · rename_i res hr
          split at hw
          · rename_i hc
            simp only [Bool.and_eq_true, Option.isNone_iff_eq_none] at hc
            injection hw with hw; subst hw
            intro h b' hh
            have h0 := hi h b' hh
            have h1 := rmw_count_eq (hwf _ _ _ hb) h hh hr
            have hz := liveCount_empty hc.1.1 h
            have h3 := credTot_addDebits h b' c.t b res.debits s.creds
            simp only [liveAt, hcount, upd] at h0 ⊢
            rw [h3]
            by_cases e : b' = b
            · subst e; simp [hb, hc.2, needFor] at h0 h1 ⊢; omega
            · simp [e]; exact h0
          · cases hw
  · -- handle create (increment)
    rename_i h0 b0 n0 hk hv _
    dsimp only at hw
    split at hw
    · rename_i hc
      simp only [ge_iff_le, Bool.and_eq_true, decide_eq_true_eq] at hc
      injection hw with hw; subst hw
      have habs : s.hdl h0 = none := by
        have := hcur hv
        rw [hk] at this
        simp only [St.curRev, Option.map_eq_none_iff] at this
        exact this
      intro h b' hh
      have h1 := hi h b' hh
      simp only [liveAt, hcount, upd, credTot] at h1 ⊢
      by_cases e : h = h0
      · subst e
        simp [habs] at h1 ⊢
        rw [cnt_set _ _ _ _ (by simpa using hc.2), cnt_replicate]
        by_cases e2 : b' = b0
        · subst e2; simp; omega
        · have : ¬ b0 = b' := fun x => e2 x.symm
          simp [e2, this]; omega
      · have : ¬ h0 = h := fun x => e x.symm
        simp [e, this]; exact h1
    · cases hw
  · -- handle update (increment)
    rename_i h0 b0 n0 _ _ _
    split at hw
    · cases hw
    · rename_i rv m hm
      split at hw
      · rename_i hc
        simp only [ge_iff_le, Bool.and_eq_true, decide_eq_true_eq] at hc
        injection hw with hw; subst hw
        intro h b' hh
        have h1 := hi h b' hh
        simp only [liveAt, hcount, upd, credTot] at h1 ⊢
        by_cases e : h = h0
        · subst e
          simp [hm] at h1 ⊢
          rw [cnt_set _ _ _ _ hc.2]
          by_cases e2 : b' = b0
          · subst e2; simp; omega
          · have : ¬ b0 = b' := fun x => e2 x.symm
            simp [e2, this]; omega
        · have : ¬ h0 = h := fun x => e x.symm
          simp [e, this]; exact h1
      · cases hw
  · -- handle update (decrement)
    rename_i h0 b0 n0 _ _ _
    split at hw
    · cases hw
    · rename_i rv m hm
      dsimp only at hw
      split at hw
      · rename_i hc
        simp only [Bool.and_eq_true, decide_eq_true_eq, List.contains_eq_mem, Bool.not_eq_true'] at hc
        injection hw with hw; subst hw
        intro h b' hh
        have h1 := hi h b' hh
        have h2 := credTot_erase h b' { t := c.t, h := h0, b := b0, n := n0 } s.creds (by simpa using hc.1.2)
        simp only [liveAt, hcount, upd] at h1 ⊢
        have hlen : b0 < m.length := hc.1.1.2
        by_cases e : h = h0
        · subst e
          simp [hm] at h1 ⊢
          rw [cnt_set _ _ _ _ hlen]
          by_cases e2 : b' = b0
          · subst e2; simp at h2 ⊢; omega
          · have : ¬ b0 = b' := fun x => e2 x.symm
            simp [e2, this] at h2 ⊢; omega
        · have : ¬ h0 = h := fun x => e x.symm
          simp [e, this] at h2 ⊢; omega
      · cases hw
  · -- handle delete (decrement to empty)
    rename_i h0 b0 n0 _ _ _
    split at hw
    · cases hw
    · rename_i rv m hm
      dsimp only at hw
      split at hw
      · rename_i hc
        simp only [Bool.and_eq_true, decide_eq_true_eq, List.contains_eq_mem] at hc
        injection hw with hw; subst hw
        intro h b' hh
        have h1 := hi h b' hh
        have h2 := credTot_erase h b' { t := c.t, h := h0, b := b0, n := n0 } s.creds (by simpa using hc.1.2)
        simp only [liveAt, hcount, upd] at h1 ⊢
        have hlen : b0 < m.length := hc.1.1.2
        have hz := cnt_zero_of_zeroMap hc.2 b'
        rw [cnt_set _ _ _ _ hlen] at hz
        by_cases e : h = h0
        · subst e
          simp [hm] at h1 ⊢
          by_cases e2 : b' = b0
          · subst e2; simp at hz h2; omega
          · simp [e2] at hz h2; omega
        · have : ¬ h0 = h := fun x => e x.symm
          simp [e, this] at h2 ⊢; omega
      · cases hw
  all_goals first
    | (injection hw with hw; subst hw; exact hi)
    | (cases hw; done)

/-- The combined invariant: blocks well formed and handle records agree with block records. -/
def Inv (s : St) : Prop := AllWF s ∧ HEq s

theorem inv_init (r nb : Nat) : Inv (St.init r nb) :=
  ⟨allWF_init r nb, fun h b _ => by simp [liveAt, hcount, St.init, credTot]⟩

theorem inv_step {s s' : St} {e : Ev} (hi : Inv s) (h : step s e = some s') : Inv s' := by
  refine ⟨allWF_step hi.1 h, ?_⟩
  cases e with
  | tick => simp only [step] at h; injection h with h; subst h; exact hi.2
  | «begin» t => simp only [step] at h; injection h with h; subst h; exact hi.2
  | endOp t a =>
    simp only [step] at h
    split at h
    · injection h with h; subst h; exact hi.2
    · cases h
  | call c =>
    simp only [step] at h
    split at h
    · rename_i ho
      split at h
      · split at h
        · refine heq_applyWrite hi.1 hi.2 ?_ h
          intro hv
          rw [hv] at ho
          exact casOutcome_create_ok ho
        · cases h
      · injection h with h; subst h; exact hi.2
    · injection h with h; subst h; exact hi.2

theorem inv_run {s s' : St} {evs : List Ev} (hi : Inv s) (h : run s evs = some s') : Inv s' := by
  induction evs generalizing s with
  | nil => simp only [run] at h; injection h with h; subst h; exact hi
  | cons e es ih =>
    simp only [run] at h
    split at h
    · rename_i s1 h1; exact ih (inv_step hi h1) h
    · cases h

end CalicoVerif.C19
