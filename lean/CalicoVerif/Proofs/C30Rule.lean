import CalicoVerif.Proofs.C30
/-! Helper lemmas for C30, part 2: chunking, address combination, one proto rule. -/
namespace CalicoVerif.C30

/-! ### lists -/

theorem any_congr_mem {α : Type} {l : List α} {p q : α → Bool} (h : ∀ a ∈ l, p a = q a) :
    l.any p = l.any q := by
  induction l with
  | nil => rfl
  | cons a rest ih =>
    simp only [List.any_cons, h a (by simp)]
    rw [ih (fun x hx => h x (by simp [hx]))]

theorem any_and_const {α : Type} (l : List α) (f : α → Bool) (c : Bool) :
    l.any (fun a => f a && c) = (l.any f && c) := by
  induction l with
  | nil => simp
  | cons a rest ih => simp only [List.any_cons, ih]; cases f a <;> cases c <;> simp

theorem any_const_and {α : Type} (l : List α) (f : α → Bool) (c : Bool) :
    l.any (fun a => c && f a) = (c && l.any f) := by
  induction l with
  | nil => simp
  | cons a rest ih => simp only [List.any_cons, ih]; cases f a <;> cases c <;> simp

/-! ### SplitIPList / SplitPortList -/

theorem chunksAux_spec {α : Type} (n : Nat) (hn : 0 < n) : ∀ (fuel : Nat) (l : List α), l.length ≤ fuel →
    (∀ c ∈ chunksAux n fuel l, c ≠ []) ∧ (∀ x, (∃ c ∈ chunksAux n fuel l, x ∈ c) ↔ x ∈ l) := by
  intro fuel
  induction fuel with
  | zero =>
    intro l hl
    have : l = [] := List.eq_nil_of_length_eq_zero (by omega)
    subst this
    simp [chunksAux]
  | succ fuel ih =>
    intro l hl
    cases l with
    | nil => simp [chunksAux]
    | cons a rest =>
      have hlen : ((a :: rest).drop n).length ≤ fuel := by
        simp only [List.length_drop, List.length_cons] at *; omega
      obtain ⟨h1, h2⟩ := ih ((a :: rest).drop n) hlen
      simp only [chunksAux, List.isEmpty_cons, Bool.false_eq_true, if_false]
      constructor
      · intro c hc
        simp only [List.mem_cons] at hc
        rcases hc with rfl | hc
        · cases n with
          | zero => omega
          | succ k => simp
        · exact h1 c hc
      · intro x
        constructor
        · rintro ⟨c, hc, hx⟩
          simp only [List.mem_cons] at hc
          rcases hc with rfl | hc
          · exact List.mem_of_mem_take hx
          · exact List.mem_of_mem_drop ((h2 x).1 ⟨c, hc, hx⟩)
        · intro hx
          rw [← List.take_append_drop n (a :: rest), List.mem_append] at hx
          rcases hx with hx | hx
          · exact ⟨_, by simp, hx⟩
          · obtain ⟨c, hc, hxc⟩ := (h2 x).2 hx
            exact ⟨c, by simp [hc], hxc⟩

/-- Splitting a list into chunks does not change "no constraint, or some element satisfies f". -/
theorem splitList_any {α : Type} (l : List α) (n : Nat) (hn : 0 < n) (f : α → Bool) :
    (splitList l n).any (fun c => c.isEmpty || c.any f) = (l.isEmpty || l.any f) := by
  unfold splitList
  cases l with
  | nil => simp
  | cons a rest =>
    obtain ⟨h1, h2⟩ := chunksAux_spec n hn (a :: rest).length (a :: rest) (Nat.le_refl _)
    simp only [List.isEmpty_cons, Bool.false_eq_true, if_false, Bool.false_or]
    rw [Bool.eq_iff_iff]
    simp only [List.any_eq_true, Bool.or_eq_true, List.isEmpty_iff]
    constructor
    · rintro ⟨c, hc, hce | ⟨x, hx, hfx⟩⟩
      · exact absurd hce (h1 c hc)
      · exact ⟨x, (h2 x).1 ⟨c, hc, hx⟩, hfx⟩
    · rintro ⟨x, hx, hfx⟩
      obtain ⟨c, hc, hxc⟩ := (h2 x).2 hx
      exact ⟨c, hc, Or.inr ⟨x, hxc, hfx⟩⟩

/-! ### the nested loops -/

theorem any_zipIdx_map {α β : Type} (l : List α) (F : α × Nat → β) (q : β → Bool) (q' : α → Bool)
    (h : ∀ a i, q (F (a, i)) = q' a) : ∀ k, ((l.zipIdx k).map F).any q = l.any q' := by
  induction l with
  | nil => intro k; simp
  | cons a rest ih => intro k; simp only [List.zipIdx_cons, List.map_cons, List.any_cons, h, ih]

theorem mem_zipIdx_map {α β : Type} (l : List α) (F : α × Nat → β) (P : β → Prop)
    (h : ∀ a i, P (F (a, i))) : ∀ k, ∀ b ∈ (l.zipIdx k).map F, P b := by
  induction l with
  | nil => intro k b hb; simp at hb
  | cons a rest ih =>
    intro k b hb
    simp only [List.zipIdx_cons, List.map_cons, List.mem_cons] at hb
    rcases hb with rfl | hb
    · exact h a k
    · exact ih (k + 1) b hb

def baseProtoOK (h : HRule) (p : Pkt) : Bool := h.proto == 256 || h.proto == p.proto

theorem any4 {α β γ δ : Type} (A : List α) (B : List β) (C : List γ) (D : List δ)
    (fa : α → Bool) (fb : β → Bool) (fc : γ → Bool) (fd : δ → Bool) (k : Bool) :
    (A.any fun a => B.any fun b => C.any fun c => D.any fun d => k && fa a && fc c && fb b && fd d) =
      (k && A.any fa && C.any fc && B.any fb && D.any fd) := by
  rw [Bool.eq_iff_iff]
  simp only [List.any_eq_true, Bool.and_eq_true]
  constructor
  · rintro ⟨a, ha, b, hb, c, hc, d, hd, ⟨⟨⟨⟨hk, h1⟩, h2⟩, h3⟩, h4⟩⟩
    exact ⟨⟨⟨⟨hk, a, ha, h1⟩, c, hc, h2⟩, b, hb, h3⟩, d, hd, h4⟩
  · rintro ⟨⟨⟨⟨hk, a, ha, h1⟩, c, hc, h2⟩, b, hb, h3⟩, d, hd, h4⟩
    exact ⟨a, ha, b, hb, c, hc, d, hd, ⟨⟨⟨⟨hk, h1⟩, h2⟩, h3⟩, h4⟩⟩

theorem expand_any (base : HRule) (pid rid : String) (lA : List (List Addr)) (lP : List (List PortRange))
    (rA : List (List Addr)) (rP : List (List PortRange)) (p : Pkt) :
    (expand base pid rid lA lP rA rP).any (·.matches p) =
      (baseProtoOK base p &&
        lA.any (fun c => addrsOK c (if base.inbound then p.dst else p.src)) &&
        rA.any (fun c => addrsOK c (if base.inbound then p.src else p.dst)) &&
        lP.any (fun c => portsOK c (if base.inbound then p.dport else p.sport)) &&
        rP.any (fun c => portsOK c (if base.inbound then p.sport else p.dport))) := by
  unfold expand
  rw [any_zipIdx_map _ _ _ (fun c : List Addr × List PortRange × List Addr × List PortRange =>
    baseProtoOK base p && addrsOK c.1 (if base.inbound then p.dst else p.src) &&
      addrsOK c.2.2.1 (if base.inbound then p.src else p.dst) &&
      portsOK c.2.1 (if base.inbound then p.dport else p.sport) &&
      portsOK c.2.2.2 (if base.inbound then p.sport else p.dport))]
  · simp only [List.any_flatMap, List.any_map, Function.comp_def]
    exact any4 lA lP rA rP _ _ _ _ _
  · intro c i
    cases hb : base.inbound <;> simp [HRule.matches, hb, baseProtoOK]

theorem expand_fields (base : HRule) (pid rid : String) (lA : List (List Addr)) (lP : List (List PortRange))
    (rA : List (List Addr)) (rP : List (List PortRange)) :
    ∀ h ∈ expand base pid rid lA lP rA rP, h.action = base.action ∧ h.inbound = base.inbound := by
  unfold expand
  apply mem_zipIdx_map
  intro a i
  exact ⟨rfl, rfl⟩

end CalicoVerif.C30
