import CalicoVerif.Proofs.C30Addr
/-! Helper lemmas for C30, part 4: one proto rule, the rule lists, the tier. -/
namespace CalicoVerif.C30

/-- "Uses only match criteria the Windows dataplane supports" (what protoRuleToHnsRules does not
reject), plus the contracts of proto.Rule that the converter relies on: at most one IP set per side
(it takes the UNION of listed sets where Calico means the intersection) and a known protocol. -/
structure Rule.supported (r : Rule) : Prop where
  ipv : r.ipVersion = 0 ∨ r.ipVersion = 4
  noNotSrc : r.notSrcNet = []
  noNotDst : r.notDstNet = []
  noNeg : r.otherNeg = false
  noIcmp : r.icmp = false
  noNamed : r.namedPortSets = false
  action : (actionOf r.action).isSome = true
  proto : match r.proto with
    | none => True
    | some (.name n) => protocolNameToNumber n ≠ 256
    | some (.num k) => k < 256
  oneSrcSet : r.srcSets.length ≤ 1
  oneDstSet : r.dstSets.length ≤ 1

/-- The HNS rules generated for one proto rule (`[]` when the converter skips it). -/
def hr (s : IPSets) (pid : String) (r : Rule) (inbound : Bool) (n : Nat) : List HRule :=
  match protoRuleToHnsRules s pid r inbound n with
  | .ok hs => hs
  | .error _ => []

def ruleAction (r : Rule) : Action := (actionOf r.action).getD .block

theorem addrsOK_split (l : List Addr) (n : Nat) (hn : 0 < n) (ip : Nat) :
    (splitList l n).any (fun c => addrsOK c ip) = addrsOK l ip :=
  splitList_any l n hn (fun a => a.contains ip)

theorem portsOK_split (l : List PortRange) (n : Nat) (hn : 0 < n) (pt : Nat) :
    (splitList l n).any (fun c => portsOK c pt) = portsOK l pt :=
  splitList_any l n hn (fun r => r.contains pt)

/-- The general branch (no IP-port sets). -/
theorem rule_sem_general (s : IPSets) (hs : s.wf) (r : Rule) (inbound : Bool) (hsup : r.supported)
    (hnoipp : r.dstIpPortSets = []) (n : Nat) (hn : 0 < n) (pid : String) (p : Pkt) :
    (∀ h ∈ hr s pid r inbound n, h.action = ruleAction r ∧ h.inbound = inbound) ∧
    (hr s pid r inbound n).any (·.matches p) = r.matches s p := by
  obtain ⟨act, hact⟩ := Option.isSome_iff_exists.1 hsup.action
  have hra : ruleAction r = act := by simp [ruleAction, hact]
  have hipv : ¬ (r.ipVersion ≠ 0 ∧ r.ipVersion ≠ 4) := by
    rcases hsup.ipv with h | h <;> simp [h]
  obtain ⟨fs1, fs2, fs3⟩ := filterNets_sem r.srcNet p.src
  obtain ⟨fd1, fd2, fd3⟩ := filterNets_sem r.dstNet p.dst
  have hmatch : r.matches s p = (protoOK r.proto p &&
      (addrsOK r.srcNet p.src && r.srcSets.all (fun id => inSet s id p.src)) &&
      (addrsOK r.dstNet p.dst && r.dstSets.all (fun id => inSet s id p.dst)) &&
      portsOK r.srcPorts p.sport && portsOK r.dstPorts p.dport) := by
    simp only [Rule.matches, hnoipp, List.all_nil, Bool.and_true]
    cases protoOK r.proto p <;> cases addrsOK r.srcNet p.src <;> cases addrsOK r.dstNet p.dst <;>
      cases r.srcSets.all (fun id => inSet s id p.src) <;> simp
  unfold hr protoRuleToHnsRules
  simp only [hipv, if_false, hsup.noNotSrc, hsup.noNotDst, hsup.noNeg, hsup.noIcmp, hsup.noNamed,
    List.isEmpty_nil, Bool.not_true, Bool.or_self, Bool.false_eq_true, hact, hnoipp]
  -- filterNets on the source side
  cases hf1 : (filterNets r.srcNet).2 with
  | true =>
    have := fs1 hf1
    rw [show filterNets r.srcNet = ((filterNets r.srcNet).1, true) from by rw [← hf1]]
    simp [hmatch, this]
  | false =>
    rw [show filterNets r.srcNet = ((filterNets r.srcNet).1, false) from by rw [← hf1]]
    simp only [Bool.false_eq_true, if_false]
    cases hf2 : (filterNets r.dstNet).2 with
    | true =>
      have := fd1 hf2
      rw [show filterNets r.dstNet = ((filterNets r.dstNet).1, true) from by rw [← hf2]]
      simp [hmatch, this]
    | false =>
      rw [show filterNets r.dstNet = ((filterNets r.dstNet).1, false) from by rw [← hf2]]
      simp only [Bool.false_eq_true, if_false]
      have hsS := sideAddrs_sem s hs (filterNets r.srcNet).1 fs3 r.srcSets hsup.oneSrcSet p.src
      have hsD := sideAddrs_sem s hs (filterNets r.dstNet).1 fd3 r.dstSets hsup.oneDstSet p.dst
      rw [fs2 hf1] at hsS
      rw [fd2 hf2] at hsD
      cases hS : sideAddrs s (filterNets r.srcNet).1 r.srcSets with
      | error e =>
        rw [hS] at hsS
        simp only at hsS
        simp [hmatch, hsS]
      | ok srcA =>
        rw [hS] at hsS
        simp only at hsS
        cases hD : sideAddrs s (filterNets r.dstNet).1 r.dstSets with
        | error e =>
          rw [hD] at hsD
          simp only at hsD
          simp [hmatch, hsD]
        | ok dstA =>
          rw [hD] at hsD
          simp only at hsD
          simp only
          -- the protocol of the base rule
          have hproto : baseProtoOK (withProto (baseRule act inbound) r.proto) p = protoOK r.proto p := by
            have hp := hsup.proto
            cases hpr : r.proto with
            | none => simp [withProto, baseRule, baseProtoOK, protoOK]
            | some ps =>
              rw [hpr] at hp
              cases ps with
              | name nm =>
                simp only at hp
                have : (protocolNameToNumber nm == 256) = false := by simpa using hp
                simp [withProto, baseProtoOK, protoOK, this]
              | num k =>
                simp only at hp
                have h1 : k % 65536 = k := Nat.mod_eq_of_lt (by omega)
                have : (k == 256) = false := by simp; omega
                simp [withProto, baseProtoOK, protoOK, h1, this]
          have hfields : (withProto (baseRule act inbound) r.proto).action = act ∧
              (withProto (baseRule act inbound) r.proto).inbound = inbound := by
            cases r.proto with
            | none => exact ⟨rfl, rfl⟩
            | some ps => cases ps <;> exact ⟨rfl, rfl⟩
          constructor
          · intro h hh
            have := expand_fields _ _ _ _ _ _ _ h hh
            rw [hfields.1, hfields.2] at this
            rw [hra]; exact this
          · rw [expand_any, hproto, hfields.2]
            cases inbound
            · simp only [Bool.false_eq_true, if_false, addrsOK_split _ n hn, portsOK_split _ n hn, hsS, hsD, hmatch]
              all_goals (cases protoOK r.proto p <;> cases (addrsOK r.srcNet p.src && r.srcSets.all (fun id => inSet s id p.src)) <;>
                cases (addrsOK r.dstNet p.dst && r.dstSets.all (fun id => inSet s id p.dst)) <;>
                cases portsOK r.srcPorts p.sport <;> simp)
            · simp only [if_true, addrsOK_split _ n hn, portsOK_split _ n hn, hsS, hsD, hmatch]
              all_goals (cases protoOK r.proto p <;> cases (addrsOK r.srcNet p.src && r.srcSets.all (fun id => inSet s id p.src)) <;>
                cases (addrsOK r.dstNet p.dst && r.dstSets.all (fun id => inSet s id p.dst)) <;>
                cases portsOK r.srcPorts p.sport <;> cases portsOK r.dstPorts p.dport <;> simp)

end CalicoVerif.C30
