import CalicoVerif.Model.C09
import CalicoVerif.Proofs.C08
/-! Lemmas and intermediate theorems for C09 (policy-group chain, tier loop, profile section,
composition into the endpoint verdict). -/
namespace CalicoVerif.C09
open CalicoVerif.Netfilter CalicoVerif.Policy CalicoVerif.C08

/-- reference behaviour of a policy group: enforced policies in order, stop at the first verdict -/
def seqEval (cfg : Cfg) (call : String → Mark → Result) : List Pol → Mark → Result
  | [], m => .returned m
  | p :: ps, m =>
    if p.staged then seqEval cfg call ps m
    else if m &&& (cfg.markPass ||| cfg.markAccept) ≠ 0 then .returned m
    else match call p.chain m with
      | .returned m' => seqEval cfg call ps m'
      | other => other

theorem seqEval_of_verdict (cfg : Cfg) (call : String → Mark → Result) (ps : List Pol) (m : Mark)
    (h : m &&& (cfg.markPass ||| cfg.markAccept) ≠ 0) : seqEval cfg call ps m = .returned m := by
  induction ps with
  | nil => rfl
  | cons p ps ih =>
    simp only [seqEval]
    split
    · exact ih
    · simp [h]

theorem groupRulesFrom_exact (cfg : Cfg) (env : Env) (call : String → Mark → Result) (pkt : Packet)
    (ps : List Pol) (k : Nat) (m : Mark)
    (h0 : k = 0 → m &&& (cfg.markPass ||| cfg.markAccept) = 0) :
    runRules env call pkt (groupRulesFrom cfg k ps) m = seqEval cfg call ps m := by
  induction ps generalizing k m with
  | nil => simp [groupRulesFrom, runRules, seqEval]
  | cons p ps ih =>
    simp only [groupRulesFrom, seqEval]
    by_cases hs : p.staged = true
    · simp only [hs, if_true]; exact ih k m h0
    · simp only [hs, Bool.false_eq_true, if_false]
      by_cases hm : m &&& (cfg.markPass ||| cfg.markAccept) = 0
      · -- no verdict yet: the return rule (if any) is skipped, the jump is taken
        have hbeq : (m &&& (cfg.markPass ||| cfg.markAccept) == 0) = true := by simp [hm]
        have hjump : runRules env call pkt (groupJump cfg k p.chain :: groupRulesFrom cfg (k + 1) ps) m =
            (match call p.chain m with
              | .returned m' => seqEval cfg call ps m'
              | other => other) := by
          have hmatch : (groupJump cfg k p.chain).matches env pkt m = true := by
            unfold groupJump Rule.matches
            split <;> simp [Clause.matches, xorb, hm]
          have hact : (groupJump cfg k p.chain).action = .jump p.chain := rfl
          rw [runRules, if_pos hmatch, hact]
          simp only [resolveAction]
          cases hc : call p.chain m with
          | returned m' => simp only; exact ih (k + 1) m' (by omega)
          | verdict v mk => rfl
          | missing c => rfl
          | outOfFuel => rfl
        simp only [hm, ne_eq, not_true_eq_false, if_false]
        by_cases hk : k ≠ 0 ∧ k % 5 = 0
        · simp only [hk, and_self, if_true, List.cons_append, List.nil_append, ne_eq, not_false_eq_true]
          rw [runRules]
          have : (returnOnVerdict cfg).matches env pkt m = false := by
            simp [returnOnVerdict, Rule.matches, Clause.matches, xorb, hm]
          rw [if_neg (by simp [this])]
          exact hjump
        · simp only [hk, if_false, List.nil_append, List.cons_append]
          exact hjump
      · -- a verdict bit is already set: nothing more is evaluated
        have hk0 : k ≠ 0 := fun hk => hm (h0 hk)
        have hbeq : (m &&& (cfg.markPass ||| cfg.markAccept) == 0) = false := by simpa using hm
        simp only [hm, ne_eq, not_false_eq_true, if_true]
        by_cases hk : k % 5 = 0
        · simp only [hk0, hk, ne_eq, not_false_eq_true, and_self, if_true, List.cons_append, List.nil_append]
          rw [runRules]
          have : (returnOnVerdict cfg).matches env pkt m = true := by
            simpa [returnOnVerdict, Rule.matches, Clause.matches, xorb] using hm
          rw [if_pos this]
          simp [returnOnVerdict, resolveAction]
        · simp only [hk, and_false, if_false, List.nil_append, List.cons_append]
          rw [runRules]
          have : (groupJump cfg k p.chain).matches env pkt m = false := by
            simpa [groupJump, hk, Rule.matches, Clause.matches, xorb] using hm
          rw [if_neg (by simp [this])]
          rw [ih (k + 1) m (by omega)]
          exact seqEval_of_verdict cfg call ps m hm

/-- **The policy-group chain is exact for groups of any length**: entered with the accept and pass
bits clear (as the endpoint chain guarantees), it runs the enforced policies in order and stops
at the first one that sets a verdict bit or terminates the packet; staged policies never run. -/
theorem policy_group_chain_exact (cfg : Cfg) (env : Env) (call : String → Mark → Result) (pkt : Packet)
    (g : Group) (m : Mark) (h0 : m &&& (cfg.markPass ||| cfg.markAccept) = 0) :
    runRules env call pkt (policyGroupChain cfg g).rules m = seqEval cfg call g.pols m :=
  groupRulesFrom_exact cfg env call pkt g.pols 0 m (fun _ => h0)

/-- staged policies never influence the group's result -/
theorem seqEval_ignores_staged (cfg : Cfg) (call : String → Mark → Result) (ps : List Pol) (m : Mark) :
    seqEval cfg call ps m = seqEval cfg call (ps.filter (!·.staged)) m := by
  induction ps generalizing m with
  | nil => rfl
  | cons p ps ih =>
    by_cases hs : p.staged = true
    · simp [seqEval, hs, ih]
    · have hs' : p.staged = false := by simpa using hs
      simp only [seqEval, hs', Bool.false_eq_true, if_false, List.filter_cons, Bool.not_false, if_true]
      split
      · rfl
      · cases call p.chain m <;> simp [ih]

/-- reference behaviour of the profile section: profiles in order; the first one that returns with
the accept bit set wins, a terminating profile rule terminates, and if none accepts the packet
is denied. -/
def profSeq (cfg : Cfg) (call : String → Mark → Result) : List String → Mark → Result
  | [], m => .verdict (if cfg.reject then .reject else .drop) m
  | p :: ps, m =>
    match call p m with
    | .returned m' => if m' &&& cfg.markAccept == cfg.markAccept then .returned m' else profSeq cfg call ps m'
    | other => other

/-- **The profile section of the endpoint chain is exact for any number of profiles**: anything
no profile accepts is denied (fail closed). -/
theorem profile_section_exact (cfg : Cfg) (e : EpCfg) (env : Env) (call : String → Mark → Result)
    (pkt : Packet) (profiles : List String) (m : Mark) :
    runRules env call pkt (profileRules cfg e profiles) m = profSeq cfg call profiles m := by
  induction profiles generalizing m with
  | nil =>
    cases hf : cfg.flowLogs <;> cases hr : cfg.reject <;>
      simp [profileRules, profSeq, runRules, Rule.matches, resolveAction, applyMark, hf, hr, C08.denyAction]
  | cons p ps ih =>
    have hcons : profileRules cfg e (p :: ps) =
        ({ action := .jump p } : Netfilter.Rule) ::
        { clauses := [.mark false cfg.markAccept cfg.markAccept], action := .ret,
          comments := ["Return if profile accepted"] } :: profileRules cfg e ps := by
      simp [profileRules]
    rw [hcons, runRules]
    simp only [Rule.matches, List.all_nil, if_true, resolveAction, profSeq]
    cases hc : call p m with
    | returned m' =>
      simp only
      rw [runRules]
      by_cases ha : (m' &&& cfg.markAccept == cfg.markAccept) = true
      · simp [Rule.matches, Clause.matches, xorb, ha, resolveAction]
      · have ha' : (m' &&& cfg.markAccept == cfg.markAccept) = false := by simpa using ha
        simp only [Rule.matches, List.all_cons, List.all_nil, Clause.matches, xorb, ha',
          Bool.false_eq_true, if_false, Bool.and_true]
        exact ih m'
    | verdict v mk => rfl
    | missing c => rfl
    | outOfFuel => rfl

/-! ### one tier of the endpoint chain -/

/-- the (jump target, group has enforced policies) pairs of a tier, in rendering order -/
def tierTargets (t : Tier) : List (String × Bool) :=
  t.groups.flatMap fun g => g.jumpTargets.map fun c => (c, g.hasNonStaged)

def targetRules (cfg : Cfg) (e : EpCfg) (th : String × Bool) : List Netfilter.Rule :=
  [({ clauses := [.mark false 0 cfg.markPass], action := .jump th.1 } : Netfilter.Rule)]
  ++ (if th.2 then
        (if e.chainType = .untracked then
          [({ clauses := [.mark false cfg.markAccept cfg.markAccept], action := .notrack } : Netfilter.Rule)] else [])
        ++ [{ clauses := [.mark false cfg.markAccept cfg.markAccept], action := .ret,
              comments := ["Return if policy accepted"] }]
      else [])

theorem groups_flatMap_eq (cfg : Cfg) (e : EpCfg) (t : Tier) :
    t.groups.flatMap (groupEpRules cfg e) = (tierTargets t).flatMap (targetRules cfg e) := by
  unfold tierTargets
  induction t.groups with
  | nil => rfl
  | cons g gs ih =>
    simp only [List.flatMap_cons, List.flatMap_append, ih]
    congr 1
    simp only [groupEpRules, List.flatMap_map, targetRules]

/-- reference behaviour of the policy jumps of a tier: each policy (or group) chain is entered only
while the pass bit is clear; after a group with enforced policies an accept bit returns. -/
def targetsSeq (cfg : Cfg) (call : String → Mark → Result) (cont : Mark → Result) :
    List (String × Bool) → Mark → Result
  | [], m => cont m
  | th :: ts, m =>
    match (if m &&& cfg.markPass == 0 then call th.1 m else .returned m) with
    | .returned m' =>
      if th.2 && (m' &&& cfg.markAccept == cfg.markAccept) then .returned m'
      else targetsSeq cfg call cont ts m'
    | other => other

theorem targets_exact (cfg : Cfg) (e : EpCfg) (env : Env) (call : String → Mark → Result) (pkt : Packet)
    (rest : List Netfilter.Rule) (ts : List (String × Bool)) (m : Mark) :
    runRules env call pkt (ts.flatMap (targetRules cfg e) ++ rest) m =
      targetsSeq cfg call (fun m' => runRules env call pkt rest m') ts m := by
  induction ts generalizing m with
  | nil => simp [targetsSeq]
  | cons th ts ih =>
    obtain ⟨c, hns⟩ := th
    simp only [List.flatMap_cons, targetRules, List.append_assoc, List.cons_append, List.nil_append, targetsSeq]
    rw [runRules]
    simp only [Rule.matches, List.all_cons, List.all_nil, Clause.matches, xorb, Bool.and_true,
      Bool.false_eq_true, if_false, resolveAction]
    -- after the (possibly skipped) jump we are at the return rule(s) with some mark m'
    have hret : ∀ m', runRules env call pkt
        ((if hns = true then
            (if e.chainType = .untracked then
              [({ clauses := [.mark false cfg.markAccept cfg.markAccept], action := .notrack } : Netfilter.Rule)] else [])
            ++ [{ clauses := [.mark false cfg.markAccept cfg.markAccept], action := .ret,
                  comments := ["Return if policy accepted"] }]
          else []) ++ (ts.flatMap (targetRules cfg e) ++ rest)) m' =
        if hns && (m' &&& cfg.markAccept == cfg.markAccept) then .returned m'
        else targetsSeq cfg call (fun m' => runRules env call pkt rest m') ts m' := by
      intro m'
      cases hns
      · simp [ih]
      · by_cases ha : (m' &&& cfg.markAccept == cfg.markAccept) = true
        · by_cases hu : e.chainType = .untracked <;>
            simp [hu, runRules, Rule.matches, Clause.matches, xorb, ha, resolveAction, applyMark]
        · have ha' : (m' &&& cfg.markAccept == cfg.markAccept) = false := by simpa using ha
          by_cases hu : e.chainType = .untracked <;>
            simp [hu, runRules, Rule.matches, Clause.matches, xorb, ha', ih]
    by_cases hp : (m &&& cfg.markPass == 0) = true
    · simp only [hp, if_true]
      cases hc : call c m with
      | returned m' => simp only; exact hret m'
      | verdict v mk => rfl
      | missing c' => rfl
      | outOfFuel => rfl
    · have hp' : (m &&& cfg.markPass == 0) = false := by simpa using hp
      simp only [hp', Bool.false_eq_true, if_false]
      exact hret m

/-- what happens at the end of a tier -/
def endOfTier (cfg : Cfg) (e : EpCfg) (t : Tier) (next : Mark → Result) (m : Mark) : Result :=
  if (e.chainType = .normal ∨ e.chainType = .forward) ∧ t.groups.any (·.hasNonStaged) = true ∧ ¬ t.defaultPass
      ∧ (m &&& cfg.markPass == 0) = true
  then .verdict (if cfg.reject then .reject else .drop) m
  else next m

/-- **One tier of the endpoint chain is exact** (any number of groups and policies, any chain
type, flow logs on or off): the pass bit is cleared, the policy / group chains are entered in
order while no policy has passed, an accept returns, and at the end a tier that holds an enforced
policy and whose default action is not Pass denies the packet unless a policy passed it —
otherwise evaluation continues with the next tier / the profiles (`rest`). A tier without
policies renders nothing. -/
theorem tier_rules_exact (cfg : Cfg) (e : EpCfg) (env : Env) (call : String → Mark → Result) (pkt : Packet)
    (t : Tier) (rest : List Netfilter.Rule) (m : Mark) :
    runRules env call pkt (tierRules cfg e t ++ rest) m =
      if t.groups.isEmpty then runRules env call pkt rest m
      else targetsSeq cfg call (endOfTier cfg e t (fun m' => runRules env call pkt rest m'))
        (tierTargets t) (m &&& ~~~ cfg.markPass) := by
  unfold tierRules
  by_cases hg : t.groups.isEmpty = true
  · simp [hg]
  · have hg' : t.groups.isEmpty = false := by simpa using hg
    simp only [hg', Bool.false_eq_true, if_false, List.append_assoc, List.cons_append, List.nil_append]
    rw [runRules]
    simp only [Rule.matches, List.all_nil, if_true, resolveAction, applyMark]
    rw [groups_flatMap_eq, targets_exact]
    congr 1
    funext m'
    unfold endOfTier
    by_cases hct : e.chainType = .normal ∨ e.chainType = .forward
    · cases hany : t.groups.any (fun g => g.hasNonStaged) <;> cases hdp : t.defaultPass <;>
        cases hf : cfg.flowLogs <;> cases hr : cfg.reject <;>
        by_cases hp : (m' &&& cfg.markPass == 0) = true <;>
        simp [hct, hp, runRules, Rule.matches, Clause.matches, xorb, resolveAction,
          applyMark, C08.denyAction, hr]
    · simp [hct]

/-- reference behaviour of the whole tier loop -/
def tiersSeq (cfg : Cfg) (e : EpCfg) (call : String → Mark → Result) (final : Mark → Result) :
    List Tier → Mark → Result
  | [], m => final m
  | t :: ts, m =>
    if t.groups.isEmpty then tiersSeq cfg e call final ts m
    else targetsSeq cfg call (endOfTier cfg e t (tiersSeq cfg e call final ts)) (tierTargets t)
      (m &&& ~~~ cfg.markPass)

/-- **The tier loop of the endpoint chain is exact for any number of tiers, groups and policies**:
tiers are evaluated in order; within a tier see `tier_rules_exact`; after the last tier the
profile section / end of chain (`rest`) follows. -/
theorem tiers_exact (cfg : Cfg) (e : EpCfg) (env : Env) (call : String → Mark → Result) (pkt : Packet)
    (tiers : List Tier) (rest : List Netfilter.Rule) (m : Mark) :
    runRules env call pkt (tiers.flatMap (tierRules cfg e) ++ rest) m =
      tiersSeq cfg e call (fun m' => runRules env call pkt rest m') tiers m := by
  induction tiers generalizing m with
  | nil => simp [tiersSeq]
  | cons t ts ih =>
    simp only [List.flatMap_cons, List.append_assoc, tiersSeq]
    rw [tier_rules_exact]
    have : (fun m' => runRules env call pkt (ts.flatMap (tierRules cfg e) ++ rest) m') =
        tiersSeq cfg e call (fun m' => runRules env call pkt rest m') ts := by
      funext m'; exact ih m'
    rw [this]
    split
    · exact ih m
    · rfl

/-- non-vacuity: a 7-policy group (two staged) crosses the return stride -/
example : (groupRulesFrom {} 0 ((List.range 7).map fun i => { chain := s!"p{i}", staged := i = 2 ∨ i = 3 })).length = 5 := by
  decide
example : (0 : Mark) &&& (({} : Cfg).markPass ||| ({} : Cfg).markAccept) = 0 := by decide


/-! ### from chain behaviours to the endpoint verdict -/

/-- accept / pass bits: non-zero and disjoint -/
structure VBits (cfg : Cfg) : Prop where
  aNe : cfg.markAccept ≠ 0
  pNe : cfg.markPass ≠ 0
  ap : cfg.markAccept &&& cfg.markPass = 0

def clearAP (cfg : Cfg) (m : Mark) : Prop :=
  m &&& cfg.markAccept = 0 ∧ m &&& cfg.markPass = 0 ∧ m &&& cfg.markDrop = 0
def hasA (cfg : Cfg) (m : Mark) : Prop :=
  m &&& cfg.markAccept = cfg.markAccept ∧ m &&& cfg.markPass = 0 ∧ m &&& cfg.markDrop = 0
def hasP (cfg : Cfg) (m : Mark) : Prop :=
  m &&& cfg.markPass = cfg.markPass ∧ m &&& cfg.markAccept = 0 ∧ m &&& cfg.markDrop = 0

theorem and_or_dist (m x y : Mark) : m &&& (x ||| y) = (m &&& x) ||| (m &&& y) := by
  ext i hi; simp; cases m[i] <;> simp

theorem or_eq_zero {x y : Mark} : x ||| y = 0 ↔ x = 0 ∧ y = 0 := by
  constructor
  · intro h
    constructor <;> (ext i hi; have := congrArg (fun v : Mark => v[i]) h; simp at this; simp [this])
  · rintro ⟨rfl, rfl⟩; simp

section tests
variable {cfg : Cfg} (vb : VBits cfg) {m : Mark}
include vb

theorem clear_tests (h : clearAP cfg m) :
    (m &&& (cfg.markPass ||| cfg.markAccept) == 0) = true ∧ (m &&& cfg.markPass == 0) = true ∧
    (m &&& cfg.markAccept == cfg.markAccept) = false := by
  obtain ⟨ha, hp, _⟩ := h
  refine ⟨by rw [and_or_dist, ha, hp]; simp, by rw [hp]; simp, ?_⟩
  rw [ha]; simpa using Ne.symm vb.aNe

theorem hasA_tests (h : hasA cfg m) :
    (m &&& (cfg.markPass ||| cfg.markAccept) == 0) = false ∧ (m &&& cfg.markPass == 0) = true ∧
    (m &&& cfg.markAccept == cfg.markAccept) = true := by
  obtain ⟨ha, hp, _⟩ := h
  refine ⟨?_, by rw [hp]; simp, by rw [ha]; simp⟩
  rw [and_or_dist, ha, hp]
  simpa using vb.aNe

theorem hasP_tests (h : hasP cfg m) :
    (m &&& (cfg.markPass ||| cfg.markAccept) == 0) = false ∧ (m &&& cfg.markPass == 0) = false ∧
    (m &&& cfg.markAccept == cfg.markAccept) = false := by
  obtain ⟨hp, ha, _⟩ := h
  refine ⟨?_, by rw [hp]; simpa using vb.pNe, by rw [ha]; simpa using Ne.symm vb.aNe⟩
  rw [and_or_dist, ha, hp]
  simpa using vb.pNe

theorem clearP_of_A0 (h : m &&& cfg.markAccept = 0) (hd : m &&& cfg.markDrop = 0) :
    clearAP cfg (m &&& ~~~ cfg.markPass) := by
  refine ⟨?_, ?_, ?_⟩
  · ext i hi
    have h1 := congrArg (fun v : Mark => v[i]) h
    simp at h1 ⊢
    cases hm : m[i] <;> simp_all
  · ext i hi; simp <;> cases m[i] <;> cases cfg.markPass[i] <;> simp
  · ext i hi
    have h1 := congrArg (fun v : Mark => v[i]) hd
    simp at h1 ⊢
    cases hm : m[i] <;> simp_all

end tests
def denyV (cfg : Cfg) : Netfilter.Verdict := if cfg.reject then .reject else .drop

/-- what a result must look like for a given outcome -/
def Shape (cfg : Cfg) (o : PolOutcome) (r : Result) : Prop :=
  match o with
  | .allow => ∃ m', r = .returned m' ∧ hasA cfg m'
  | .pass => ∃ m', r = .returned m' ∧ hasP cfg m'
  | .deny => ∃ m', r = .verdict (denyV cfg) m'
  | .noMatch => ∃ m', r = .returned m' ∧ clearAP cfg m'

/-- chain `c` behaves like a policy with outcome `o` on this packet -/
def Behaves (cfg : Cfg) (call : String → Mark → Result) (c : String) (o : PolOutcome) : Prop :=
  ∀ m, clearAP cfg m → Shape cfg o (call c m)

def firstDecision (l : List PolOutcome) : PolOutcome := (l.find? (· ≠ .noMatch)).getD .noMatch

theorem firstDecision_cons (o : PolOutcome) (l : List PolOutcome) :
    firstDecision (o :: l) = if o = .noMatch then firstDecision l else o := by
  cases o <;> simp [firstDecision, List.find?_cons]

/-- a policy group behaves like the first deciding enforced policy -/
theorem seq_shape (cfg : Cfg) (vb : VBits cfg) (call : String → Mark → Result) (out : String → PolOutcome)
    (ps : List Pol) (hb : ∀ p ∈ ps, p.staged = false → Behaves cfg call p.chain (out p.chain))
    (m : Mark) (hm : clearAP cfg m) :
    Shape cfg (firstDecision ((ps.filter (!·.staged)).map (fun p => out p.chain))) (seqEval cfg call ps m) := by
  induction ps generalizing m with
  | nil => exact ⟨m, rfl, hm⟩
  | cons p ps ih =>
    have ih' := ih (fun q hq => hb q (List.mem_cons_of_mem _ hq))
    simp only [seqEval]
    cases hs : p.staged
    · have hbp := hb p List.mem_cons_self hs m hm
      have htest := (clear_tests vb hm).1
      have hne : ¬ (m &&& (cfg.markPass ||| cfg.markAccept) ≠ 0) := by simpa using htest
      simp only [List.filter_cons, hs, Bool.not_false, if_true, List.map_cons, Bool.false_eq_true, if_false, hne,
        firstDecision_cons]
      cases ho : out p.chain <;> simp only [ho, Shape] at hbp ⊢
      · obtain ⟨m', hc, hm'⟩ := hbp
        rw [hc]
        simp only [reduceCtorEq, if_false]
        have : m' &&& (cfg.markPass ||| cfg.markAccept) ≠ 0 := by simpa using (hasA_tests vb hm').1
        rw [seqEval_of_verdict cfg call ps m' this]
        exact ⟨m', rfl, hm'⟩
      · obtain ⟨m', hc⟩ := hbp
        rw [hc]
        simp only [reduceCtorEq, if_false]
        exact ⟨m', rfl⟩
      · obtain ⟨m', hc, hm'⟩ := hbp
        rw [hc]
        simp only [reduceCtorEq, if_false]
        have : m' &&& (cfg.markPass ||| cfg.markAccept) ≠ 0 := by simpa using (hasP_tests vb hm').1
        rw [seqEval_of_verdict cfg call ps m' this]
        exact ⟨m', rfl, hm'⟩
      · obtain ⟨m', hc, hm'⟩ := hbp
        rw [hc]
        simp only [if_true]
        exact ih' m' hm'
    · simp only [List.filter_cons, hs, Bool.not_true, Bool.false_eq_true, if_false, if_true]
      exact ih' m hm

/-- result of a run that either decides (allow / deny) or hands over to `cont` -/
def ContShape (cfg : Cfg) (d : PolOutcome) (cont : Mark → Result) (r : Result) : Prop :=
  match d with
  | .allow => Shape cfg .allow r
  | .deny => Shape cfg .deny r
  | .pass => ∃ m', hasP cfg m' ∧ r = cont m'
  | .noMatch => ∃ m', clearAP cfg m' ∧ r = cont m'

theorem targetsSeq_skip (cfg : Cfg) (vb : VBits cfg) (call : String → Mark → Result) (cont : Mark → Result)
    (ts : List (String × Bool)) (m : Mark) (hm : hasP cfg m) :
    targetsSeq cfg call cont ts m = cont m := by
  induction ts with
  | nil => rfl
  | cons th ts ih =>
    obtain ⟨_, h2, h3⟩ := hasP_tests vb hm
    simp only [targetsSeq, h2, h3, Bool.false_eq_true, if_false, Bool.and_false]
    exact ih

theorem targets_shape (cfg : Cfg) (vb : VBits cfg) (call : String → Mark → Result) (cont : Mark → Result)
    (out : String → PolOutcome) (ts : List (String × Bool)) (hns : ∀ th ∈ ts, th.2 = true)
    (hb : ∀ th ∈ ts, Behaves cfg call th.1 (out th.1)) (m : Mark) (hm : clearAP cfg m) :
    ContShape cfg (firstDecision (ts.map fun th => out th.1)) cont (targetsSeq cfg call cont ts m) := by
  induction ts generalizing m with
  | nil => exact ⟨m, hm, rfl⟩
  | cons th ts ih =>
    have ih' := ih (fun q hq => hns q (List.mem_cons_of_mem _ hq)) (fun q hq => hb q (List.mem_cons_of_mem _ hq))
    have h2 := hns th List.mem_cons_self
    have hbt := hb th List.mem_cons_self m hm
    obtain ⟨_, hP, _⟩ := clear_tests vb hm
    simp only [targetsSeq, hP, if_true, List.map_cons, firstDecision_cons, h2, Bool.true_and]
    cases ho : out th.1 <;> simp only [ho, Shape] at hbt ⊢
    · obtain ⟨m', hc, hm'⟩ := hbt
      rw [hc]
      simp only [reduceCtorEq, if_false, (hasA_tests vb hm').2.2, if_true]
      exact ⟨m', rfl, hm'⟩
    · obtain ⟨m', hc⟩ := hbt
      rw [hc]
      simp only [reduceCtorEq, if_false]
      exact ⟨m', rfl⟩
    · obtain ⟨m', hc, hm'⟩ := hbt
      rw [hc]
      simp only [reduceCtorEq, if_false, (hasP_tests vb hm').2.2, Bool.false_eq_true]
      exact ⟨m', hm', targetsSeq_skip cfg vb call cont ts m' hm'⟩
    · obtain ⟨m', hc, hm'⟩ := hbt
      rw [hc]
      simp only [if_true, (clear_tests vb hm').2.2, Bool.false_eq_true, if_false]
      exact ih' m' hm'

theorem jumpTargets_ne_nil (g : Group) (h : g.hasNonStaged = true) : g.jumpTargets ≠ [] := by
  unfold Group.jumpTargets
  split
  · intro hn
    have : g.nonStaged = [] := by simpa using hn
    simp [Group.hasNonStaged, this] at h
  · simp

theorem jumpTargets_nil_of (g : Group) (h : g.hasNonStaged = false) : g.jumpTargets = [] := by
  have hn : g.nonStaged = [] := by simpa [Group.hasNonStaged] using h
  simp [Group.jumpTargets, Group.inlined, hn]

theorem tierTargets_hns (t : Tier) : ∀ th ∈ tierTargets t, th.2 = true := by
  intro th hth
  simp only [tierTargets, List.mem_flatMap, List.mem_map] at hth
  obtain ⟨g, _, c, hc, rfl⟩ := hth
  cases h : g.hasNonStaged
  · rw [jumpTargets_nil_of g h] at hc; simp at hc
  · rfl

theorem tierTargets_isEmpty (t : Tier) : (tierTargets t).isEmpty = !t.groups.any (·.hasNonStaged) := by
  unfold tierTargets
  induction t.groups with
  | nil => rfl
  | cons g gs ih =>
    simp only [List.flatMap_cons, List.any_cons, Bool.not_or]
    rw [← ih]
    cases h : g.hasNonStaged
    · simp [jumpTargets_nil_of g h]
    · have := jumpTargets_ne_nil g h
      cases hj : g.jumpTargets with
      | nil => exact absurd hj this
      | cons a as => simp

/-- shape of the endpoint chain's result for a final verdict -/
def VShape (cfg : Cfg) (v : C09.Verdict) (r : Result) : Prop :=
  match v with
  | .allow => ∃ m', r = .returned m' ∧ m' &&& cfg.markAccept = cfg.markAccept
  | .deny => ∃ m', r = .verdict (denyV cfg) m'

theorem tiers_shape (cfg : Cfg) (vb : VBits cfg) (e : EpCfg) (hn : e.chainType = .normal)
    (call : String → Mark → Result) (final : Mark → Result) (out : String → PolOutcome) (pouts : List PolOutcome)
    (tiers : List Tier)
    (hb : ∀ t ∈ tiers, ∀ th ∈ tierTargets t, Behaves cfg call th.1 (out th.1))
    (hfin : ∀ m, m &&& cfg.markAccept = 0 → m &&& cfg.markDrop = 0 → VShape cfg (profilesVerdict pouts) (final m))
    (m : Mark) (hm : m &&& cfg.markAccept = 0) (hmD : m &&& cfg.markDrop = 0) :
    VShape cfg
      (endpointVerdict (tiers.map fun t => ((tierTargets t).map (fun th => out th.1), t.defaultPass)) pouts)
      (tiersSeq cfg e call final tiers m) := by
  induction tiers generalizing m with
  | nil => exact hfin m hm hmD
  | cons t ts ih =>
    have ih' := ih (fun t' ht' => hb t' (List.mem_cons_of_mem _ ht'))
    simp only [tiersSeq, List.map_cons, endpointVerdict]
    by_cases hg : t.groups.isEmpty = true
    · have : tierTargets t = [] := by
        have : t.groups = [] := by simpa using hg
        simp [tierTargets, this]
      simp only [hg, if_true, this, List.map_nil, tierResult, List.find?_nil, List.isEmpty_nil, true_or, if_true]
      exact ih' m hm hmD
    · simp only [hg, if_false]
      have hts := targets_shape cfg vb call (endOfTier cfg e t (tiersSeq cfg e call final ts)) out (tierTargets t)
        (tierTargets_hns t) (hb t List.mem_cons_self) _ (clearP_of_A0 vb hm hmD)
      have hfd : tierResult ((tierTargets t).map fun th => out th.1) t.defaultPass =
          (match firstDecision ((tierTargets t).map fun th => out th.1) with
            | .allow => TierResult.allow
            | .deny => TierResult.deny
            | .pass => TierResult.nextTier
            | .noMatch => if ((tierTargets t).map fun th => out th.1).isEmpty ∨ t.defaultPass then .nextTier else .deny) := by
        unfold tierResult firstDecision
        cases hfind : ((tierTargets t).map fun th => out th.1).find? (· ≠ PolOutcome.noMatch) with
        | none => rfl
        | some x =>
          have hx : x ≠ .noMatch := by simpa using List.find?_some hfind
          cases x <;> first | rfl | exact absurd rfl hx
      rw [hfd]
      cases hd : firstDecision ((tierTargets t).map fun th => out th.1) <;> simp only [hd, ContShape] at hts ⊢
      · obtain ⟨m', hr, hm'⟩ := hts
        exact ⟨m', hr, hm'.1⟩
      · exact hts
      · obtain ⟨m', hm', hr⟩ := hts
        rw [hr]
        have : endOfTier cfg e t (tiersSeq cfg e call final ts) m' = tiersSeq cfg e call final ts m' := by
          unfold endOfTier
          rw [if_neg]
          intro hc
          have := (hasP_tests vb hm').2.1
          rw [this] at hc
          exact absurd hc.2.2.2 (by simp)
        rw [this]
        exact ih' m' hm'.2.1 hm'.2.2
      · obtain ⟨m', hm', hr⟩ := hts
        rw [hr]
        have hemp : ((tierTargets t).map fun th => out th.1).isEmpty = !t.groups.any (·.hasNonStaged) := by
          rw [List.isEmpty_map, tierTargets_isEmpty]
        have hP := (clear_tests vb hm').2.1
        by_cases hdeny : t.groups.any (·.hasNonStaged) = true ∧ ¬ t.defaultPass = true
        · have h1 : endOfTier cfg e t (tiersSeq cfg e call final ts) m' =
              .verdict (if cfg.reject then .reject else .drop) m' := by
            unfold endOfTier
            rw [if_pos ⟨Or.inl hn, hdeny.1, hdeny.2, hP⟩]
          have this : ¬ (((tierTargets t).map fun th => out th.1).isEmpty = true ∨ t.defaultPass = true) := by
            rw [hemp]; simp [hdeny.1, hdeny.2]
          rw [h1, if_neg this]
          exact ⟨m', rfl⟩
        · have h1 : endOfTier cfg e t (tiersSeq cfg e call final ts) m' = tiersSeq cfg e call final ts m' := by
            unfold endOfTier
            rw [if_neg (fun hc => hdeny ⟨hc.2.1, hc.2.2.1⟩)]
          have this : ((tierTargets t).map fun th => out th.1).isEmpty = true ∨ t.defaultPass = true := by
            rw [hemp]
            by_cases ha : t.groups.any (·.hasNonStaged) = true
            · refine Or.inr ?_
              by_cases hdp : t.defaultPass = true
              · exact hdp
              · exact absurd ⟨ha, hdp⟩ hdeny
            · exact Or.inl (by simpa using ha)
          rw [h1, if_pos this]
          exact ih' m' hm'.1 hm'.2.2

/-- profile chains are entered with the accept bit clear (the pass bit may be set) -/
def BehavesP (cfg : Cfg) (call : String → Mark → Result) (c : String) (o : PolOutcome) : Prop :=
  ∀ m, m &&& cfg.markAccept = 0 → m &&& cfg.markDrop = 0 →
    match o with
    | .allow => ∃ m', call c m = .returned m' ∧ m' &&& cfg.markAccept = cfg.markAccept
    | .deny => ∃ m', call c m = .verdict (denyV cfg) m'
    | _ => ∃ m', call c m = .returned m' ∧ m' &&& cfg.markAccept = 0 ∧ m' &&& cfg.markDrop = 0

theorem profiles_shape (cfg : Cfg) (vb : VBits cfg) (call : String → Mark → Result) (out : String → PolOutcome)
    (profiles : List String) (hb : ∀ p ∈ profiles, BehavesP cfg call p (out p)) (m : Mark)
    (hm : m &&& cfg.markAccept = 0) (hmD : m &&& cfg.markDrop = 0) :
    VShape cfg (profilesVerdict (profiles.map out)) (profSeq cfg call profiles m) := by
  induction profiles generalizing m with
  | nil => exact ⟨m, rfl⟩
  | cons p ps ih =>
    have ih' := ih (fun q hq => hb q (List.mem_cons_of_mem _ hq))
    have hbp := hb p List.mem_cons_self m hm hmD
    simp only [List.map_cons, profSeq]
    have hA0 : ∀ m' : Mark, m' &&& cfg.markAccept = 0 → (m' &&& cfg.markAccept == cfg.markAccept) = false := by
      intro m' h; rw [h]; simpa using Ne.symm vb.aNe
    cases ho : out p <;> simp only [ho] at hbp <;> simp only [profilesVerdict]
    · obtain ⟨m', hc, hm'⟩ := hbp
      rw [hc]; simp only [hm', beq_self_eq_true, if_true]
      exact ⟨m', rfl, hm'⟩
    · obtain ⟨m', hc⟩ := hbp
      rw [hc]; exact ⟨m', rfl⟩
    · obtain ⟨m', hc, hm'⟩ := hbp
      rw [hc]; simp only [hA0 m' hm'.1, Bool.false_eq_true, if_false]
      exact ih' m' hm'.1 hm'.2
    · obtain ⟨m', hc, hm'⟩ := hbp
      rw [hc]; simp only [hA0 m' hm'.1, Bool.false_eq_true, if_false]
      exact ih' m' hm'.1 hm'.2

theorem clearAP_and_A (cfg : Cfg) (m : Mark) : (m &&& ~~~ (cfg.markAccept ||| cfg.markPass)) &&& cfg.markAccept = 0 := by
  ext i hi; simp <;> cases m[i] <;> cases cfg.markAccept[i] <;> cases cfg.markPass[i] <;> simp

/-- **Endpoint chain = reference verdict** (workload / host "normal" chain, admin-up, a packet that is
not in an established/related/invalid conntrack state and not dropped by the encap rules), for any
number of tiers, groups, policies and profiles, given the behaviour of the jump targets:
the evaluation ends in RETURN with the accept bit set exactly when `endpointVerdict` says allow,
and in DROP/REJECT exactly when it says deny. -/
theorem endpoint_chain_shape (cfg : Cfg) (vb : VBits cfg) (e : EpCfg) (env : Env)
    (call : String → Mark → Result) (pkt : Packet) (name : String) (tiers : List Tier) (profiles : List String)
    (out : String → PolOutcome) (m : Mark)
    (hn : e.chainType = .normal) (hup : e.adminUp = true) (hfs : e.failsafe = "")
    (hct : pkt.ctState ≠ "RELATED" ∧ pkt.ctState ≠ "ESTABLISHED" ∧ pkt.ctState ≠ "INVALID")
    (henc : (e.dropVXLAN = true → pkt.proto ≠ 17) ∧ (e.dropIPIP = true → pkt.proto ≠ 4))
    (hb : ∀ t ∈ tiers, ∀ th ∈ tierTargets t, Behaves cfg call th.1 (out th.1))
    (hp : ∀ p ∈ profiles, BehavesP cfg call p (out p)) (hmD : m &&& cfg.markDrop = 0) :
    VShape cfg
      (endpointVerdict (tiers.map fun t => ((tierTargets t).map (fun th => out th.1), t.defaultPass))
        (profiles.map out))
      (runRules env call pkt (endpointChain cfg e name tiers profiles).rules m) := by
  have h1 : (Clause.ctState false ["RELATED", "ESTABLISHED"]).matches env pkt m = false := by
    simp [Clause.matches, xorb, hct.1, hct.2.1, Ne.symm hct.1, Ne.symm hct.2.1]
  have h2 : (Clause.ctState false ["INVALID"]).matches env pkt m = false := by
    simp [Clause.matches, xorb, hct.2.2, Ne.symm hct.2.2]
  have hpre : runRules env call pkt (endpointChain cfg e name tiers profiles).rules m =
      runRules env call pkt (tiers.flatMap (tierRules cfg e) ++ profileRules cfg e profiles)
        (m &&& ~~~ (cfg.markAccept ||| cfg.markPass)) := by
    simp only [endpointChain, hup, hn, hfs, not_true_eq_false, if_false, ne_eq, reduceCtorEq, not_false_eq_true,
      if_true, conntrackRules, and_false, List.append_nil]
    have k4 : e.dropIPIP = true → ¬ (4 = pkt.proto) := fun h h' => henc.2 h h'.symm
    have k17 : e.dropVXLAN = true → ¬ (17 = pkt.proto) := fun h h' => henc.1 h h'.symm
    cases har : e.allowIsReturn <;> cases hci : e.disableCtInvalid <;> cases hv : e.dropVXLAN <;>
      cases hi : e.dropIPIP <;>
      simp [runRules, Rule.matches, resolveAction, applyMark, Clause.matches, xorb, protoIs,
        hv, hi, hct.1, hct.2.1, hct.2.2, k4, k17]
  rw [hpre, tiers_exact]
  apply tiers_shape cfg vb e hn call _ out (profiles.map out) tiers hb
  · intro m' hm' hmD'
    rw [profile_section_exact]
    exact profiles_shape cfg vb call out profiles hp m' hm' hmD'
  · exact clearAP_and_A cfg m
  · ext i hi
    have h1 := congrArg (fun v : Mark => v[i]) hmD
    simp at h1 ⊢
    cases hm : m[i] <;> simp_all

/-! ### policy / profile chains from C08's per-rule theorem, and the final composition -/

/-- C08's per-rule theorem, as a hypothesis about one rule (discharged by
`C08.render_exact_le2` for every rule with at most two positive match blocks). -/
def RuleExact (cfg : Cfg) (env : Env) (pkt : Packet) (r : Policy.Rule) : Prop :=
  ∀ (ctx : Ctx) (call : String → Mark → Result) (rest : List Netfilter.Rule) (mark : Mark) (act : RuleAction),
    parseAction r.action = some act →
    (act = .allow → mark &&& cfg.markAccept = 0) → (act = .pass → mark &&& cfg.markPass = 0) →
    (act = .deny → mark &&& cfg.markDrop = 0) →
    ∃ rs mark', protoRuleToRules cfg ctx (setNameFor pkt.v6) pkt.v6 r = some rs ∧
      baseOf cfg.markScratch0 cfg.markScratch1 mark' = baseOf cfg.markScratch0 cfg.markScratch1 mark ∧
      runRules env call pkt (rs ++ rest) mark =
        if ruleMatches env (setNameFor pkt.v6) r pkt then actionOutcome cfg env call pkt rest mark' act
        else runRules env call pkt rest mark'

theorem ruleExact_of_le2 (cfg : Cfg) (env : Env) (pkt : Packet) (r : Policy.Rule)
    (mo : MarksOK cfg) (henv : EnvCatchAll env)
    (hi : env.dp = .ipt ∨ ∀ t c, r.notIcmp ≠ .typeCode t c)
    (hpos : ∀ rc, filterRuleToIPVersion pkt.v6 r = some rc → numPositive rc ≤ 2) :
    RuleExact cfg env pkt r := by
  intro ctx call rest mark act hact hA hP hD
  exact render_exact_le2 cfg ctx env call pkt _ r rest mark act mo henv hi hpos hact hA hP hD

theorem and_of_baseOf {S0 S1 m m' x : Mark} (h : baseOf S0 S1 m' = baseOf S0 S1 m)
    (h0 : x &&& S0 = 0) (h1 : x &&& S1 = 0) : m' &&& x = m &&& x := by
  rw [← baseOf_and_other S0 S1 m' x h0 h1, ← baseOf_and_other S0 S1 m x h0 h1, h]

theorem or_bit_and_self (m x : Mark) : (m ||| x) &&& x = x := by
  ext i hi; simp; cases m[i] <;> simp

theorem or_bit_and_other (m x y : Mark) (hxy : x &&& y = 0) (hm : m &&& y = 0) : (m ||| x) &&& y = 0 := by
  ext i hi
  have h1 := and_zero_bit hxy i hi
  have h2 := and_zero_bit hm i hi
  simp; revert h1 h2; cases m[i] <;> cases x[i] <;> cases y[i] <;> simp

/-- accept / pass bits are disjoint from the drop bit -/
structure VD (cfg : Cfg) : Prop where
  ad : cfg.markAccept &&& cfg.markDrop = 0
  pd : cfg.markPass &&& cfg.markDrop = 0

/-- concatenated rule renderings behave like `policyOutcome` -/
theorem go_shape (cfg : Cfg) (mo : MarksOK cfg) (vb : VBits cfg) (vd : VD cfg) (env : Env) (pkt : Packet)
    (call : String → Mark → Result) (ctx : Ctx)
    (rules : List Policy.Rule) (hre : ∀ r ∈ rules, RuleExact cfg env pkt r)
    (hacts : ∀ r ∈ rules, (parseAction r.action).isSome = true)
    (idx : Nat) (body rest : List Netfilter.Rule)
    (hgo : protoRulesToRules.go cfg ctx pkt.v6 idx rules = some body)
    (m : Mark) (hA : m &&& cfg.markAccept = 0) (hP : m &&& cfg.markPass = 0) (hD : m &&& cfg.markDrop = 0) :
    match policyOutcome env pkt.v6 pkt rules with
    | .allow => ∃ m', runRules env call pkt (body ++ rest) m = .returned m' ∧ hasA cfg m'
    | .pass => ∃ m', runRules env call pkt (body ++ rest) m = .returned m' ∧ hasP cfg m'
    | .deny => ∃ m', runRules env call pkt (body ++ rest) m = .verdict (denyV cfg) m'
    | .noMatch => ∃ m', runRules env call pkt (body ++ rest) m = runRules env call pkt rest m' ∧ clearAP cfg m' := by
  induction rules generalizing idx body m with
  | nil =>
    simp only [protoRulesToRules.go] at hgo
    cases hgo
    exact ⟨m, rfl, hA, hP, hD⟩
  | cons r rs ih =>
    simp only [protoRulesToRules.go] at hgo
    cases h1 : protoRuleToRules cfg { ctx with idx := idx } (setNameFor pkt.v6) pkt.v6 r with
    | none => simp [h1] at hgo
    | some a =>
      cases h2 : protoRulesToRules.go cfg ctx pkt.v6 (idx + 1) rs with
      | none => simp [h1, h2] at hgo
      | some b =>
        simp only [h1, h2] at hgo
        cases hgo
        have hre' : ∀ r ∈ rs, RuleExact cfg env pkt r := fun q hq => hre q (List.mem_cons_of_mem _ hq)
        have hacts' : ∀ r ∈ rs, (parseAction r.action).isSome = true := fun q hq => hacts q (List.mem_cons_of_mem _ hq)
        cases hact : parseAction r.action with
        | none =>
          have := hacts r List.mem_cons_self
          rw [hact] at this
          exact absurd this (by simp)
        | some act =>
          obtain ⟨rsr, m1, hr1, hbase, hrun⟩ := hre r List.mem_cons_self { ctx with idx := idx } call (b ++ rest) m act hact (fun _ => hA) (fun _ => hP) (fun _ => hD)
          rw [h1] at hr1; cases hr1
          have kA := and_of_baseOf (x := cfg.markAccept) hbase mo.accA mo.accT
          have kP := and_of_baseOf (x := cfg.markPass) hbase mo.passA mo.passT
          have kD := and_of_baseOf (x := cfg.markDrop) hbase mo.dropA mo.dropT
          rw [hA] at kA; rw [hP] at kP; rw [hD] at kD
          rw [List.append_assoc, hrun]
          simp only [policyOutcome, hact]
          by_cases hmatch : ruleMatches env (setNameFor pkt.v6) r pkt = true
          · simp only [hmatch, if_true]
            cases act <;> simp only [actionOutcome]
            · exact ⟨_, rfl, or_bit_and_self _ _, or_bit_and_other _ _ _ vb.ap kP, or_bit_and_other _ _ _ vd.ad kD⟩
            · exact ⟨_, rfl⟩
            · refine ⟨_, rfl, or_bit_and_self _ _, or_bit_and_other _ _ _ ?_ kA, or_bit_and_other _ _ _ vd.pd kD⟩
              have := vb.ap; rw [BitVec.and_comm] at this; exact this
            · exact ih hre' hacts' (idx + 1) b h2 m1 kA kP kD
          · have hm' : ruleMatches env (setNameFor pkt.v6) r pkt = false := by simpa using hmatch
            simp only [hm', Bool.false_eq_true, if_false]
            exact ih hre' hacts' (idx + 1) b h2 m1 kA kP kD

/-- comments never influence evaluation -/
theorem runRules_comment (env : Env) (call : String → Mark → Result) (pkt : Packet) (r : Netfilter.Rule)
    (c : List String) (rest : List Netfilter.Rule) (m : Mark) :
    runRules env call pkt ({ r with comments := c } :: rest) m = runRules env call pkt (r :: rest) m := by
  rw [runRules, runRules]; rfl

theorem runRules_snoc_ret (env : Env) (call : String → Mark → Result) (pkt : Packet) (l : List Netfilter.Rule)
    (r : Netfilter.Rule) (hr : r.action = .ret) (m : Mark) :
    runRules env call pkt (l ++ [r]) m = runRules env call pkt l m := by
  induction l generalizing m with
  | nil =>
    simp only [List.nil_append, runRules, hr, resolveAction]
    split <;> rfl
  | cons a as ih =>
    simp only [List.cons_append, runRules]
    split
    · split <;> first | rfl | (simp only [ih]) 
      all_goals (try (split <;> simp [ih]))
    · exact ih m

theorem strip_aux (env : Env) (call : String → Mark → Result) (pkt : Packet) (rl : List Netfilter.Rule) (m : Mark) :
    runRules env call pkt ((rl.dropWhile (fun r => r.action == .ret)).reverse) m =
      runRules env call pkt rl.reverse m := by
  induction rl with
  | nil => rfl
  | cons r rl ih =>
    simp only [List.dropWhile_cons, List.reverse_cons]
    by_cases h : (r.action == Action.ret) = true
    · simp only [h, if_true]
      rw [ih, runRules_snoc_ret env call pkt _ r (by simpa using h)]
    · simp only [h, Bool.false_eq_true, if_false, List.reverse_cons]

theorem runRules_strip (env : Env) (call : String → Mark → Result) (pkt : Packet) (l : List Netfilter.Rule) (m : Mark) :
    runRules env call pkt (stripTrailingReturns l) m = runRules env call pkt l m := by
  unfold stripTrailingReturns
  rw [strip_aux, List.reverse_reverse]

/-- **A policy / profile chain behaves like its first matching rule** (given C08's per-rule
exactness for each of its rules): for an entry mark with the three verdict bits clear it returns
with the accept bit (allow), the pass bit (pass), drops/rejects (deny), or returns with all three
bits still clear (no rule decided; log rules do not decide). -/
theorem policy_chain_shape (cfg : Cfg) (mo : MarksOK cfg) (vb : VBits cfg) (vd : VD cfg) (env : Env)
    (pkt : Packet) (call : String → Mark → Result) (ctx : Ctx) (rules : List Policy.Rule) (comment : String)
    (hre : ∀ r ∈ rules, RuleExact cfg env pkt r)
    (hacts : ∀ r ∈ rules, (parseAction r.action).isSome = true)
    (rs : List Netfilter.Rule) (hrs : protoRulesToRules cfg ctx pkt.v6 rules comment = some rs)
    (m : Mark) (hm : clearAP cfg m) :
    Shape cfg (policyOutcome env pkt.v6 pkt rules) (runRules env call pkt rs m) := by
  unfold protoRulesToRules at hrs
  cases hgo : protoRulesToRules.go cfg ctx pkt.v6 0 rules with
  | none => simp [hgo] at hrs
  | some body =>
    simp only [hgo] at hrs
    have hbody : runRules env call pkt rs m = runRules env call pkt body m := by
      rw [← runRules_strip env call pkt body m]
      cases hst : stripTrailingReturns body with
      | nil =>
        simp only [hst] at hrs; cases hrs
        simp [runRules, Rule.matches, resolveAction, applyMark]
      | cons r rest =>
        simp only [hst] at hrs; cases hrs
        exact runRules_comment env call pkt r _ rest m
    rw [hbody]
    have := go_shape cfg mo vb vd env pkt call ctx rules hre hacts 0 body [] hgo m hm.1 hm.2.1 hm.2.2
    simp only [List.append_nil] at this
    cases ho : policyOutcome env pkt.v6 pkt rules <;> simp only [ho] at this <;> simp only [Shape]
    · exact this
    · exact this
    · exact this
    · obtain ⟨m', h1, h2⟩ := this
      exact ⟨m', by rw [h1]; rfl, h2⟩

/-- profile chains (entered with accept and drop clear, the pass bit possibly still set by the
last tier): rules other than `pass` behave like the first matching rule -/
theorem go_shapeP (cfg : Cfg) (mo : MarksOK cfg) (env : Env) (pkt : Packet)
    (call : String → Mark → Result) (ctx : Ctx)
    (rules : List Policy.Rule) (hre : ∀ r ∈ rules, RuleExact cfg env pkt r)
    (hacts : ∀ r ∈ rules, ∃ act, parseAction r.action = some act ∧ act ≠ .pass)
    (idx : Nat) (body rest : List Netfilter.Rule)
    (hgo : protoRulesToRules.go cfg ctx pkt.v6 idx rules = some body)
    (m : Mark) (hA : m &&& cfg.markAccept = 0) (hD : m &&& cfg.markDrop = 0) :
    match policyOutcome env pkt.v6 pkt rules with
    | .allow => ∃ m', runRules env call pkt (body ++ rest) m = .returned m' ∧ m' &&& cfg.markAccept = cfg.markAccept
    | .deny => ∃ m', runRules env call pkt (body ++ rest) m = .verdict (denyV cfg) m'
    | _ => ∃ m', runRules env call pkt (body ++ rest) m = runRules env call pkt rest m' ∧
        m' &&& cfg.markAccept = 0 ∧ m' &&& cfg.markDrop = 0 := by
  induction rules generalizing idx body m with
  | nil =>
    simp only [protoRulesToRules.go] at hgo
    cases hgo
    exact ⟨m, rfl, hA, hD⟩
  | cons r rs ih =>
    simp only [protoRulesToRules.go] at hgo
    cases h1 : protoRuleToRules cfg { ctx with idx := idx } (setNameFor pkt.v6) pkt.v6 r with
    | none => simp [h1] at hgo
    | some a =>
      cases h2 : protoRulesToRules.go cfg ctx pkt.v6 (idx + 1) rs with
      | none => simp [h1, h2] at hgo
      | some b =>
        simp only [h1, h2] at hgo
        cases hgo
        have hre' : ∀ r ∈ rs, RuleExact cfg env pkt r := fun q hq => hre q (List.mem_cons_of_mem _ hq)
        have hacts' : ∀ r ∈ rs, ∃ act, parseAction r.action = some act ∧ act ≠ .pass :=
          fun q hq => hacts q (List.mem_cons_of_mem _ hq)
        obtain ⟨act, hact, hnp⟩ := hacts r List.mem_cons_self
        obtain ⟨rsr, m1, hr1, hbase, hrun⟩ := hre r List.mem_cons_self { ctx with idx := idx } call (b ++ rest) m act hact
          (fun _ => hA) (fun h => absurd h hnp) (fun _ => hD)
        rw [h1] at hr1; cases hr1
        have kA := and_of_baseOf (x := cfg.markAccept) hbase mo.accA mo.accT
        have kD := and_of_baseOf (x := cfg.markDrop) hbase mo.dropA mo.dropT
        rw [hA] at kA; rw [hD] at kD
        rw [List.append_assoc, hrun]
        simp only [policyOutcome, hact]
        by_cases hmatch : ruleMatches env (setNameFor pkt.v6) r pkt = true
        · simp only [hmatch, if_true]
          cases act <;> simp only [actionOutcome]
          · exact ⟨_, rfl, or_bit_and_self _ _⟩
          · exact ⟨_, rfl⟩
          · exact absurd rfl hnp
          · exact ih hre' hacts' (idx + 1) b h2 m1 kA kD
        · have hm' : ruleMatches env (setNameFor pkt.v6) r pkt = false := by simpa using hmatch
          simp only [hm', Bool.false_eq_true, if_false]
          exact ih hre' hacts' (idx + 1) b h2 m1 kA kD

theorem profile_chain_shape (cfg : Cfg) (mo : MarksOK cfg) (env : Env)
    (pkt : Packet) (call : String → Mark → Result) (ctx : Ctx) (rules : List Policy.Rule) (comment : String)
    (hre : ∀ r ∈ rules, RuleExact cfg env pkt r)
    (hacts : ∀ r ∈ rules, ∃ act, parseAction r.action = some act ∧ act ≠ .pass)
    (rs : List Netfilter.Rule) (hrs : protoRulesToRules cfg ctx pkt.v6 rules comment = some rs)
    (m : Mark) (hA : m &&& cfg.markAccept = 0) (hD : m &&& cfg.markDrop = 0) :
    match policyOutcome env pkt.v6 pkt rules with
    | .allow => ∃ m', runRules env call pkt rs m = .returned m' ∧ m' &&& cfg.markAccept = cfg.markAccept
    | .deny => ∃ m', runRules env call pkt rs m = .verdict (denyV cfg) m'
    | _ => ∃ m', runRules env call pkt rs m = .returned m' ∧ m' &&& cfg.markAccept = 0 ∧ m' &&& cfg.markDrop = 0 := by
  unfold protoRulesToRules at hrs
  cases hgo : protoRulesToRules.go cfg ctx pkt.v6 0 rules with
  | none => simp [hgo] at hrs
  | some body =>
    simp only [hgo] at hrs
    have hbody : runRules env call pkt rs m = runRules env call pkt body m := by
      rw [← runRules_strip env call pkt body m]
      cases hst : stripTrailingReturns body with
      | nil =>
        simp only [hst] at hrs; cases hrs
        simp [runRules, Rule.matches, resolveAction, applyMark]
      | cons r rest =>
        simp only [hst] at hrs; cases hrs
        exact runRules_comment env call pkt r _ rest m
    rw [hbody]
    have := go_shapeP cfg mo env pkt call ctx rules hre hacts 0 body [] hgo m hA hD
    simp only [List.append_nil] at this
    cases ho : policyOutcome env pkt.v6 pkt rules <;> simp only [ho] at this ⊢
    · exact this
    · exact this
    · obtain ⟨m', h1, h2⟩ := this
      exact ⟨m', by rw [h1]; rfl, h2⟩
    · obtain ⟨m', h1, h2⟩ := this
      exact ⟨m', by rw [h1]; rfl, h2⟩

theorem evalChain_of_lookup {env : Env} {chains : List Chain} {pkt : Packet} {name : String}
    {rules : List Netfilter.Rule} (h : lookupChain chains name = some rules) (fuel : Nat) (mark : Mark) :
    evalChain env chains pkt (fuel + 1) name mark =
      runRules env (evalChain env chains pkt fuel) pkt rules mark := by
  simp [evalChain, h]

/-- the chain set holds a faithful rendering of policy chain `c` whose rules are all rendered exactly -/
def PolicyChainOK (cfg : Cfg) (env : Env) (pkt : Packet) (chains : List Chain) (rules : List Policy.Rule)
    (c : String) : Prop :=
  ∃ ctx comment rs, protoRulesToRules cfg ctx pkt.v6 rules comment = some rs ∧ lookupChain chains c = some rs ∧
    (∀ r ∈ rules, RuleExact cfg env pkt r) ∧ (∀ r ∈ rules, (parseAction r.action).isSome = true)

/-- same for a profile chain, whose rules must not use the `pass` action -/
def ProfileChainOK (cfg : Cfg) (env : Env) (pkt : Packet) (chains : List Chain) (rules : List Policy.Rule)
    (c : String) : Prop :=
  ∃ ctx comment rs, protoRulesToRules cfg ctx pkt.v6 rules comment = some rs ∧ lookupChain chains c = some rs ∧
    (∀ r ∈ rules, RuleExact cfg env pkt r) ∧ (∀ r ∈ rules, ∃ act, parseAction r.action = some act ∧ act ≠ .pass)

theorem policy_behaves (cfg : Cfg) (mo : MarksOK cfg) (vb : VBits cfg) (vd : VD cfg) (env : Env) (pkt : Packet)
    (chains : List Chain) (rules : List Policy.Rule) (c : String) (fuel : Nat)
    (h : PolicyChainOK cfg env pkt chains rules c) :
    Behaves cfg (evalChain env chains pkt (fuel + 1)) c (policyOutcome env pkt.v6 pkt rules) := by
  obtain ⟨ctx, comment, rs, hrs, hl, hre, hacts⟩ := h
  intro m hm
  rw [evalChain_of_lookup hl]
  exact policy_chain_shape cfg mo vb vd env pkt _ ctx rules comment hre hacts rs hrs m hm

/-- **Rendered endpoint chain = reference verdict**, end to end over a chain set: the workload
("normal") endpoint chain, the policy-group chains of its non-inlined groups, the policy chains of
its enforced policies and its profile chains, each rule of which is rendered exactly (C08's
per-rule theorem as hypothesis `RuleExact`, discharged by `ruleExact_of_le2` for every rule with at
most two positive match blocks).  For any number of tiers / groups / policies / profiles and any
packet not handled by the conntrack / encap preamble, evaluation of the endpoint chain ends in
RETURN with the accept bit set iff `endpointVerdict` = allow, and in DROP/REJECT iff deny.
`out` gives the outcome per jump target: a policy's `policyOutcome`, or for a group chain the first
deciding enforced member. -/
theorem endpoint_chain_verdict_core (cfg : Cfg) (mo : MarksOK cfg) (vb : VBits cfg) (vd : VD cfg) (e : EpCfg) (env : Env)
    (pkt : Packet) (chains : List Chain) (name : String) (tiers : List Tier) (profiles : List String)
    (polRules : String → List Policy.Rule) (out : String → PolOutcome) (F : Nat) (m : Mark)
    (hn : e.chainType = .normal) (hup : e.adminUp = true) (hfs : e.failsafe = "")
    (hct : pkt.ctState ≠ "RELATED" ∧ pkt.ctState ≠ "ESTABLISHED" ∧ pkt.ctState ≠ "INVALID")
    (henc : (e.dropVXLAN = true → pkt.proto ≠ 17) ∧ (e.dropIPIP = true → pkt.proto ≠ 4))
    (hmD : m &&& cfg.markDrop = 0)
    (hep : lookupChain chains name = some (endpointChain cfg e name tiers profiles).rules)
    (hgrp : ∀ t ∈ tiers, ∀ g ∈ t.groups, g.inlined = false →
      lookupChain chains g.chain = some (policyGroupChain cfg g).rules)
    (hpol : ∀ t ∈ tiers, ∀ g ∈ t.groups, ∀ p ∈ g.pols, p.staged = false →
      PolicyChainOK cfg env pkt chains (polRules p.chain) p.chain)
    (hprof : ∀ p ∈ profiles, ProfileChainOK cfg env pkt chains (polRules p) p)
    (o1 : ∀ t ∈ tiers, ∀ g ∈ t.groups, g.inlined = true → ∀ p ∈ g.nonStaged,
      out p.chain = policyOutcome env pkt.v6 pkt (polRules p.chain))
    (o2 : ∀ t ∈ tiers, ∀ g ∈ t.groups, g.inlined = false →
      out g.chain = firstDecision (g.nonStaged.map fun p => policyOutcome env pkt.v6 pkt (polRules p.chain)))
    (o3 : ∀ p ∈ profiles, out p = policyOutcome env pkt.v6 pkt (polRules p)) :
    VShape cfg
      (endpointVerdict (tiers.map fun t => ((tierTargets t).map (fun th => out th.1), t.defaultPass))
        (profiles.map out))
      (evalChain env chains pkt (F + 4) name m) := by
  rw [evalChain_of_lookup hep]
  apply endpoint_chain_shape cfg vb e env (evalChain env chains pkt (F + 3)) pkt name tiers profiles out m hn hup hfs
    hct henc
  · -- the jump targets of the tiers
    intro t ht th hth
    simp only [tierTargets, List.mem_flatMap, List.mem_map] at hth
    obtain ⟨g, hg, c, hc, rfl⟩ := hth
    simp only
    unfold Group.jumpTargets at hc
    cases hin : g.inlined
    · -- a policy-group chain
      simp only [hin, Bool.false_eq_true, if_false, List.mem_singleton] at hc
      subst hc
      rw [o2 t ht g hg hin]
      intro m' hm'
      rw [evalChain_of_lookup (hgrp t ht g hg hin),
        policy_group_chain_exact cfg env _ pkt g m' (by
          have := (clear_tests vb hm').1
          simpa using this)]
      have := seq_shape cfg vb (evalChain env chains pkt (F + 2))
        (fun c => policyOutcome env pkt.v6 pkt (polRules c)) g.pols
        (fun p hp hs => policy_behaves cfg mo vb vd env pkt chains _ p.chain (F + 1) (hpol t ht g hg p hp hs)) m' hm'
      exact this
    · -- an inlined policy
      simp only [hin, if_true, List.mem_map] at hc
      obtain ⟨p, hp, rfl⟩ := hc
      rw [o1 t ht g hg hin p hp]
      have hpm : p ∈ g.pols ∧ p.staged = false := by
        simp only [Group.nonStaged, List.mem_filter, Bool.not_eq_true'] at hp
        exact hp
      exact policy_behaves cfg mo vb vd env pkt chains _ p.chain (F + 2) (hpol t ht g hg p hpm.1 hpm.2)
  · -- the profile chains
    intro p hp
    obtain ⟨ctx, comment, rs, hrs, hl, hre, hacts⟩ := hprof p hp
    intro m' hA hD
    rw [o3 p hp, evalChain_of_lookup hl]
    have := profile_chain_shape cfg mo env pkt (evalChain env chains pkt (F + 2)) ctx (polRules p) comment hre hacts rs hrs m' hA hD
    cases ho : policyOutcome env pkt.v6 pkt (polRules p) <;> simp only [ho] at this ⊢ <;> exact this
  · exact hmD

/-! ### every chain type, and policy-level outcomes -/

/-- verdict of the tier loop alone: `none` = no tier decided (continue with whatever follows) -/
def tiersVerdict : List (List PolOutcome × Bool) → Option C09.Verdict
  | [] => none
  | (outs, dp) :: rest =>
    match tierResult outs dp with
    | .allow => some .allow
    | .deny => some .deny
    | .nextTier => tiersVerdict rest

theorem endpointVerdict_eq (ts : List (List PolOutcome × Bool)) (ps : List PolOutcome) :
    endpointVerdict ts ps = (tiersVerdict ts).getD (profilesVerdict ps) := by
  induction ts with
  | nil => rfl
  | cons t ts ih =>
    obtain ⟨outs, dp⟩ := t
    simp only [endpointVerdict, tiersVerdict]
    cases tierResult outs dp <;> simp [ih]

/-- shape of a result for a three-valued verdict -/
def TShape (cfg : Cfg) (v : Option C09.Verdict) (final : Mark → Result) (r : Result) : Prop :=
  match v with
  | some .allow => ∃ m', r = .returned m' ∧ m' &&& cfg.markAccept = cfg.markAccept
  | some .deny => ∃ m', r = .verdict (denyV cfg) m'
  | none => ∃ m', r = final m' ∧ m' &&& cfg.markAccept = 0 ∧ m' &&& cfg.markDrop = 0

/-- the tier loop for ANY chain type: `endDrop` says whether this chain type has the end-of-tier
drop (normal and forward chains do; untracked and pre-DNAT chains do not — there an undecided
tier always continues, as if its default action were Pass) -/
theorem tiers_shape3 (cfg : Cfg) (vb : VBits cfg) (e : EpCfg) (endDrop : Bool)
    (hend : (e.chainType = .normal ∨ e.chainType = .forward) ↔ endDrop = true)
    (call : String → Mark → Result) (final : Mark → Result) (out : String → PolOutcome)
    (tiers : List Tier)
    (hb : ∀ t ∈ tiers, ∀ th ∈ tierTargets t, Behaves cfg call th.1 (out th.1))
    (m : Mark) (hm : m &&& cfg.markAccept = 0) (hmD : m &&& cfg.markDrop = 0) :
    TShape cfg
      (tiersVerdict (tiers.map fun t => ((tierTargets t).map (fun th => out th.1), t.defaultPass || !endDrop)))
      final (tiersSeq cfg e call final tiers m) := by
  induction tiers generalizing m with
  | nil => exact ⟨m, rfl, hm, hmD⟩
  | cons t ts ih =>
    have ih' := ih (fun t' ht' => hb t' (List.mem_cons_of_mem _ ht'))
    simp only [tiersSeq, List.map_cons, tiersVerdict]
    by_cases hg : t.groups.isEmpty = true
    · have : tierTargets t = [] := by
        have : t.groups = [] := by simpa using hg
        simp [tierTargets, this]
      simp only [hg, if_true, this, List.map_nil, tierResult, List.find?_nil, List.isEmpty_nil, true_or, if_true]
      exact ih' m hm hmD
    · simp only [hg, if_false]
      have hts := targets_shape cfg vb call (endOfTier cfg e t (tiersSeq cfg e call final ts)) out (tierTargets t)
        (tierTargets_hns t) (hb t List.mem_cons_self) _ (clearP_of_A0 vb hm hmD)
      have hfd : ∀ dp, tierResult ((tierTargets t).map fun th => out th.1) dp =
          (match firstDecision ((tierTargets t).map fun th => out th.1) with
            | .allow => TierResult.allow
            | .deny => TierResult.deny
            | .pass => TierResult.nextTier
            | .noMatch => if ((tierTargets t).map fun th => out th.1).isEmpty ∨ dp then .nextTier else .deny) := by
        intro dp
        unfold tierResult firstDecision
        cases hfind : ((tierTargets t).map fun th => out th.1).find? (· ≠ PolOutcome.noMatch) with
        | none => rfl
        | some x =>
          have hx : x ≠ .noMatch := by simpa using List.find?_some hfind
          cases x <;> first | rfl | exact absurd rfl hx
      rw [hfd]
      cases hd : firstDecision ((tierTargets t).map fun th => out th.1) <;> simp only [hd, ContShape] at hts ⊢
      · obtain ⟨m', hr, hm'⟩ := hts
        exact ⟨m', hr, hm'.1⟩
      · exact hts
      · obtain ⟨m', hm', hr⟩ := hts
        rw [hr]
        have : endOfTier cfg e t (tiersSeq cfg e call final ts) m' = tiersSeq cfg e call final ts m' := by
          unfold endOfTier
          rw [if_neg]
          intro hc
          have := (hasP_tests vb hm').2.1
          rw [this] at hc
          exact absurd hc.2.2.2 (by simp)
        rw [this]
        exact ih' m' hm'.2.1 hm'.2.2
      · obtain ⟨m', hm', hr⟩ := hts
        rw [hr]
        have hemp : ((tierTargets t).map fun th => out th.1).isEmpty = !t.groups.any (·.hasNonStaged) := by
          rw [List.isEmpty_map, tierTargets_isEmpty]
        have hP := (clear_tests vb hm').2.1
        by_cases hdeny : endDrop = true ∧ t.groups.any (·.hasNonStaged) = true ∧ ¬ t.defaultPass = true
        · have h1 : endOfTier cfg e t (tiersSeq cfg e call final ts) m' =
              .verdict (if cfg.reject then .reject else .drop) m' := by
            unfold endOfTier
            rw [if_pos ⟨hend.2 hdeny.1, hdeny.2.1, hdeny.2.2, hP⟩]
          have this : ¬ (((tierTargets t).map fun th => out th.1).isEmpty = true ∨ (t.defaultPass || !endDrop) = true) := by
            rw [hemp]; simp [hdeny.1, hdeny.2.1, hdeny.2.2]
          rw [h1, if_neg this]
          exact ⟨m', rfl⟩
        · have h1 : endOfTier cfg e t (tiersSeq cfg e call final ts) m' = tiersSeq cfg e call final ts m' := by
            unfold endOfTier
            rw [if_neg (fun hc => hdeny ⟨hend.1 hc.1, hc.2.1, hc.2.2.1⟩)]
          have this : ((tierTargets t).map fun th => out th.1).isEmpty = true ∨ (t.defaultPass || !endDrop) = true := by
            rw [hemp]
            by_cases ha : t.groups.any (·.hasNonStaged) = true
            · refine Or.inr ?_
              by_cases hdp : t.defaultPass = true
              · simp [hdp]
              · by_cases he : endDrop = true
                · exact absurd ⟨he, ha, hdp⟩ hdeny
                · simp [he]
            · exact Or.inl (by simpa using ha)
          rw [h1, if_pos this]
          exact ih' m' hm'.1 hm'.2.2

/-- an admin-down endpoint drops everything -/
theorem endpoint_admin_down (cfg : Cfg) (e : EpCfg) (env : Env) (call : String → Mark → Result) (pkt : Packet)
    (name : String) (tiers : List Tier) (profiles : List String) (m : Mark) (hdown : e.adminUp = false) :
    runRules env call pkt (endpointChain cfg e name tiers profiles).rules m = .verdict (denyV cfg) m := by
  cases hr : cfg.reject <;>
    simp [endpointChain, hdown, runRules, Rule.matches, resolveAction, C08.denyAction, denyV, hr]

/-- **Endpoint chains of every chain type** (normal, forward, untracked, pre-DNAT; with or without
a failsafe chain that lets the packet through), admin-up, packet outside the conntrack / encap
preamble, given the behaviour of the jump targets:
* normal: the reference verdict `endpointVerdict` (tiers, then profiles, else deny);
* forward: with no tiers at all the packet is allowed; otherwise the tier verdict, and an
  undecided packet returns to the caller with the accept bit clear;
* untracked / pre-DNAT: the tier verdict without end-of-tier drop (an undecided tier always
  continues); undecided packets return with the accept bit clear. -/
theorem endpoint_chain_shape_any (cfg : Cfg) (vb : VBits cfg) (e : EpCfg) (env : Env)
    (call : String → Mark → Result) (pkt : Packet) (name : String) (tiers : List Tier) (profiles : List String)
    (out : String → PolOutcome) (m : Mark)
    (hup : e.adminUp = true)
    (hfs : e.failsafe ≠ "" → ∀ m', call e.failsafe m' = .returned m')
    (hct : pkt.ctState ≠ "RELATED" ∧ pkt.ctState ≠ "ESTABLISHED" ∧ pkt.ctState ≠ "INVALID")
    (henc : (e.dropVXLAN = true → pkt.proto ≠ 17) ∧ (e.dropIPIP = true → pkt.proto ≠ 4))
    (hb : ∀ t ∈ tiers, ∀ th ∈ tierTargets t, Behaves cfg call th.1 (out th.1))
    (hp : ∀ p ∈ profiles, BehavesP cfg call p (out p)) (hmD : m &&& cfg.markDrop = 0) :
    let r := runRules env call pkt (endpointChain cfg e name tiers profiles).rules m
    let outs := fun (endDrop : Bool) => tiers.map fun t => ((tierTargets t).map (fun th => out th.1), t.defaultPass || !endDrop)
    match e.chainType with
    | .normal => VShape cfg ((tiersVerdict (outs true)).getD (profilesVerdict (profiles.map out))) r
    | .forward =>
      if tiers.isEmpty then ∃ m', r = .returned m' ∧ m' &&& cfg.markAccept = cfg.markAccept
      else TShape cfg (tiersVerdict (outs true)) (fun m' => .returned m') r
    | _ => TShape cfg (tiersVerdict (outs false)) (fun m' => .returned m') r := by
  intro r outs
  have k4 : e.dropIPIP = true → ¬ (4 = pkt.proto) := fun h h' => henc.2 h h'.symm
  have k17 : e.dropVXLAN = true → ¬ (17 = pkt.proto) := fun h h' => henc.1 h h'.symm
  -- the preamble: conntrack rules, failsafe jump, clearing of accept|pass, encap drops
  have hpre : r = runRules env call pkt
      (tiers.flatMap (tierRules cfg e) ++
        ((if tiers.isEmpty ∧ e.chainType = .forward then
            [({ action := .setMark cfg.markAccept, comments := ["Allow forwarded traffic by default"] } : Netfilter.Rule),
             { action := .ret, comments := ["Return for accepted forward traffic"] }] else []) ++
         (if e.chainType = .normal then profileRules cfg e profiles else [])))
      (m &&& ~~~ (cfg.markAccept ||| cfg.markPass)) := by
    show runRules env call pkt (endpointChain cfg e name tiers profiles).rules m = _
    simp only [endpointChain, hup, not_true_eq_false, if_false, conntrackRules]
    by_cases hf : e.failsafe = ""
    · cases hty : e.chainType <;> cases har : e.allowIsReturn <;> cases hci : e.disableCtInvalid <;>
        cases hv : e.dropVXLAN <;> cases hi : e.dropIPIP <;>
        simp [runRules, Rule.matches, resolveAction, applyMark, Clause.matches, xorb, protoIs,
          hv, hi, hct.1, hct.2.1, hct.2.2, k4, k17, hf]
    · have hfs' := hfs hf
      cases hty : e.chainType <;> cases har : e.allowIsReturn <;> cases hci : e.disableCtInvalid <;>
        cases hv : e.dropVXLAN <;> cases hi : e.dropIPIP <;>
        simp [runRules, Rule.matches, resolveAction, applyMark, Clause.matches, xorb, protoIs,
          hv, hi, hct.1, hct.2.1, hct.2.2, k4, k17, hf, hfs']
  have hA0 := clearAP_and_A cfg m
  have hD0 : (m &&& ~~~ (cfg.markAccept ||| cfg.markPass)) &&& cfg.markDrop = 0 := by
    ext i hi
    have h1 := congrArg (fun v : Mark => v[i]) hmD
    simp at h1 ⊢
    cases hm : m[i] <;> simp_all
  cases hty : e.chainType
  · -- normal
    simp only
    rw [hpre, hty]
    simp only [reduceCtorEq, and_false, if_false, if_true, List.nil_append]
    rw [tiers_exact]
    have h3 := tiers_shape3 cfg vb e true (by simp [hty]) call
      (fun m' => runRules env call pkt (profileRules cfg e profiles) m') out tiers hb _ hA0 hD0
    simp only [Bool.not_true, Bool.or_false] at h3
    have houts : outs true = tiers.map fun t => ((tierTargets t).map (fun th => out th.1), t.defaultPass) := by
      simp [outs]
    rw [houts]
    cases htv : tiersVerdict (tiers.map fun t => ((tierTargets t).map (fun th => out th.1), t.defaultPass)) with
    | none =>
      simp only [htv, TShape] at h3
      obtain ⟨m', hr, hA, hD⟩ := h3
      simp only [Option.getD_none]
      rw [hr, profile_section_exact]
      exact profiles_shape cfg vb call out profiles hp m' hA hD
    | some v =>
      simp only [htv, TShape] at h3
      cases v <;> simp only [Option.getD_some, VShape] <;> exact h3
  · -- untracked
    simp only
    rw [hpre, hty]
    simp only [reduceCtorEq, and_false, if_false, List.nil_append, List.append_nil]
    have := tiers_exact cfg e env call pkt tiers [] (m &&& ~~~ (cfg.markAccept ||| cfg.markPass))
    simp only [List.append_nil] at this
    rw [this]
    have h3 := tiers_shape3 cfg vb e false (by simp [hty]) call (fun m' => runRules env call pkt [] m') out tiers hb _ hA0 hD0
    simpa [outs, runRules] using h3
  · -- pre-DNAT
    simp only
    rw [hpre, hty]
    simp only [reduceCtorEq, and_false, if_false, List.nil_append, List.append_nil]
    have := tiers_exact cfg e env call pkt tiers [] (m &&& ~~~ (cfg.markAccept ||| cfg.markPass))
    simp only [List.append_nil] at this
    rw [this]
    have h3 := tiers_shape3 cfg vb e false (by simp [hty]) call (fun m' => runRules env call pkt [] m') out tiers hb _ hA0 hD0
    simpa [outs, runRules] using h3
  · -- forward
    simp only
    rw [hpre, hty]
    by_cases hte : tiers.isEmpty = true
    · have : tiers = [] := by simpa using hte
      subst this
      simp only [List.isEmpty_nil, and_self, if_true, reduceCtorEq, if_false, List.flatMap_nil, List.nil_append,
        List.append_nil]
      refine ⟨(m &&& ~~~ (cfg.markAccept ||| cfg.markPass)) ||| cfg.markAccept, ?_, ?_⟩
      · simp [runRules, Rule.matches, resolveAction, applyMark]
      · ext i hi; simp; cases m[i] <;> cases cfg.markAccept[i] <;> simp
    · simp only [hte, Bool.false_eq_true, false_and, if_false, reduceCtorEq, List.nil_append, List.append_nil]
      have := tiers_exact cfg e env call pkt tiers [] (m &&& ~~~ (cfg.markAccept ||| cfg.markPass))
      simp only [List.append_nil] at this
      rw [this]
      have h3 := tiers_shape3 cfg vb e true (by simp [hty]) call (fun m' => runRules env call pkt [] m') out tiers hb _ hA0 hD0
      simpa [outs, runRules] using h3

/-! ### flattening: target-level outcomes = policy-level outcomes -/

theorem firstDecision_append (a b : List PolOutcome) :
    firstDecision (a ++ b) = if firstDecision a = .noMatch then firstDecision b else firstDecision a := by
  induction a with
  | nil => simp [firstDecision]
  | cons o os ih =>
    rw [List.cons_append, firstDecision_cons, firstDecision_cons, ih]
    cases o <;> simp

theorem tierResult_of_fd (l1 l2 : List PolOutcome) (dp : Bool) (h1 : firstDecision l1 = firstDecision l2)
    (h2 : l1.isEmpty = l2.isEmpty) : tierResult l1 dp = tierResult l2 dp := by
  have key : ∀ l : List PolOutcome, tierResult l dp =
      (match firstDecision l with
        | .allow => TierResult.allow
        | .deny => TierResult.deny
        | .pass => TierResult.nextTier
        | .noMatch => if l.isEmpty ∨ dp then .nextTier else .deny) := by
    intro l
    unfold tierResult firstDecision
    cases hfind : l.find? (· ≠ PolOutcome.noMatch) with
    | none => rfl
    | some x =>
      have hx : x ≠ .noMatch := by simpa using List.find?_some hfind
      cases x <;> first | rfl | exact absurd rfl hx
  rw [key l1, key l2, h1, h2]

theorem groups_fd (out polOut : String → PolOutcome) (gs : List Group)
    (o1 : ∀ g ∈ gs, g.inlined = true → ∀ p ∈ g.nonStaged, out p.chain = polOut p.chain)
    (o2 : ∀ g ∈ gs, g.inlined = false → out g.chain = firstDecision (g.nonStaged.map fun p => polOut p.chain)) :
    firstDecision ((gs.flatMap fun g => g.jumpTargets.map fun c => (c, g.hasNonStaged)).map fun th => out th.1) =
      firstDecision ((gs.flatMap (·.nonStaged)).map fun p => polOut p.chain) := by
  induction gs with
  | nil => rfl
  | cons g gs ih =>
    have ih' := ih (fun g' hg' => o1 g' (List.mem_cons_of_mem _ hg')) (fun g' hg' => o2 g' (List.mem_cons_of_mem _ hg'))
    simp only [List.flatMap_cons, List.map_append, firstDecision_append, ih']
    have hg : firstDecision ((g.jumpTargets.map fun c => (c, g.hasNonStaged)).map fun th => out th.1) =
        firstDecision (g.nonStaged.map fun p => polOut p.chain) := by
      simp only [List.map_map, Function.comp_def]
      unfold Group.jumpTargets
      cases hin : g.inlined
      · simp only [Bool.false_eq_true, if_false, List.map_cons, List.map_nil]
        rw [o2 g List.mem_cons_self hin, firstDecision_cons]
        generalize firstDecision (List.map (fun p => polOut p.chain) g.nonStaged) = x
        cases x <;> simp [firstDecision]
      · simp only [if_true, List.map_map, Function.comp_def]
        congr 1
        apply List.map_congr_left
        intro p hp
        exact o1 g List.mem_cons_self hin p hp
    rw [hg]

theorem groups_empty (gs : List Group) :
    (!gs.any (·.hasNonStaged)) = (gs.flatMap (·.nonStaged)).isEmpty := by
  induction gs with
  | nil => rfl
  | cons g gs ih =>
    simp only [List.flatMap_cons, List.any_cons, Bool.not_or]
    rw [ih]
    cases hn : g.nonStaged <;> simp [Group.hasNonStaged, hn]

/-- per tier: deciding over the jump targets (an inlined policy, or a group chain that reports its
first deciding enforced member) is deciding over the tier's enforced policies in order -/
theorem tier_flatten (t : Tier) (out polOut : String → PolOutcome)
    (o1 : ∀ g ∈ t.groups, g.inlined = true → ∀ p ∈ g.nonStaged, out p.chain = polOut p.chain)
    (o2 : ∀ g ∈ t.groups, g.inlined = false → out g.chain = firstDecision (g.nonStaged.map fun p => polOut p.chain))
    (dp : Bool) :
    tierResult ((tierTargets t).map fun th => out th.1) dp =
      tierResult ((t.groups.flatMap (·.nonStaged)).map fun p => polOut p.chain) dp := by
  apply tierResult_of_fd
  · exact groups_fd out polOut t.groups o1 o2
  · rw [List.isEmpty_map, List.isEmpty_map, tierTargets_isEmpty, groups_empty]

/-- the tier verdict at target level is the tier verdict over the enforced policies -/
theorem tiersVerdict_flatten (tiers : List Tier) (out polOut : String → PolOutcome) (f : Bool → Bool)
    (o1 : ∀ t ∈ tiers, ∀ g ∈ t.groups, g.inlined = true → ∀ p ∈ g.nonStaged, out p.chain = polOut p.chain)
    (o2 : ∀ t ∈ tiers, ∀ g ∈ t.groups, g.inlined = false →
      out g.chain = firstDecision (g.nonStaged.map fun p => polOut p.chain)) :
    tiersVerdict (tiers.map fun t => ((tierTargets t).map (fun th => out th.1), f t.defaultPass)) =
      tiersVerdict (tiers.map fun t => ((t.groups.flatMap (·.nonStaged)).map (fun p => polOut p.chain), f t.defaultPass)) := by
  induction tiers with
  | nil => rfl
  | cons t ts ih =>
    simp only [List.map_cons, tiersVerdict]
    rw [tier_flatten t out polOut (o1 t List.mem_cons_self) (o2 t List.mem_cons_self),
      ih (fun t' ht' => o1 t' (List.mem_cons_of_mem _ ht')) (fun t' ht' => o2 t' (List.mem_cons_of_mem _ ht'))]

/-- the jump targets of the tiers behave like their outcomes, over a chain set -/
theorem targets_behave (cfg : Cfg) (mo : MarksOK cfg) (vb : VBits cfg) (vd : VD cfg) (env : Env)
    (pkt : Packet) (chains : List Chain) (tiers : List Tier)
    (polRules : String → List Policy.Rule) (out : String → PolOutcome) (F : Nat)
    (hgrp : ∀ t ∈ tiers, ∀ g ∈ t.groups, g.inlined = false →
      lookupChain chains g.chain = some (policyGroupChain cfg g).rules)
    (hpol : ∀ t ∈ tiers, ∀ g ∈ t.groups, ∀ p ∈ g.pols, p.staged = false →
      PolicyChainOK cfg env pkt chains (polRules p.chain) p.chain)
    (o1 : ∀ t ∈ tiers, ∀ g ∈ t.groups, g.inlined = true → ∀ p ∈ g.nonStaged,
      out p.chain = policyOutcome env pkt.v6 pkt (polRules p.chain))
    (o2 : ∀ t ∈ tiers, ∀ g ∈ t.groups, g.inlined = false →
      out g.chain = firstDecision (g.nonStaged.map fun p => policyOutcome env pkt.v6 pkt (polRules p.chain))) :
    ∀ t ∈ tiers, ∀ th ∈ tierTargets t, Behaves cfg (evalChain env chains pkt (F + 3)) th.1 (out th.1) := by
  intro t ht th hth
  simp only [tierTargets, List.mem_flatMap, List.mem_map] at hth
  obtain ⟨g, hg, c, hc, rfl⟩ := hth
  simp only
  unfold Group.jumpTargets at hc
  cases hin : g.inlined
  · simp only [hin, Bool.false_eq_true, if_false, List.mem_singleton] at hc
    subst hc
    rw [o2 t ht g hg hin]
    intro m' hm'
    rw [evalChain_of_lookup (hgrp t ht g hg hin),
      policy_group_chain_exact cfg env _ pkt g m' (by
        have := (clear_tests vb hm').1
        simpa using this)]
    exact seq_shape cfg vb (evalChain env chains pkt (F + 2))
      (fun c => policyOutcome env pkt.v6 pkt (polRules c)) g.pols
      (fun p hp hs => policy_behaves cfg mo vb vd env pkt chains _ p.chain (F + 1) (hpol t ht g hg p hp hs)) m' hm'
  · simp only [hin, if_true, List.mem_map] at hc
    obtain ⟨p, hp, rfl⟩ := hc
    rw [o1 t ht g hg hin p hp]
    have hpm : p ∈ g.pols ∧ p.staged = false := by
      simp only [Group.nonStaged, List.mem_filter, Bool.not_eq_true'] at hp
      exact hp
    exact policy_behaves cfg mo vb vd env pkt chains _ p.chain (F + 2) (hpol t ht g hg p hpm.1 hpm.2)

theorem profiles_behave (cfg : Cfg) (mo : MarksOK cfg) (env : Env) (pkt : Packet) (chains : List Chain)
    (profiles : List String) (polRules : String → List Policy.Rule) (out : String → PolOutcome) (F : Nat)
    (hprof : ∀ p ∈ profiles, ProfileChainOK cfg env pkt chains (polRules p) p)
    (o3 : ∀ p ∈ profiles, out p = policyOutcome env pkt.v6 pkt (polRules p)) :
    ∀ p ∈ profiles, BehavesP cfg (evalChain env chains pkt (F + 3)) p (out p) := by
  intro p hp
  obtain ⟨ctx, comment, rs, hrs, hl, hre, hacts⟩ := hprof p hp
  intro m' hA hD
  rw [o3 p hp, evalChain_of_lookup hl]
  have := profile_chain_shape cfg mo env pkt (evalChain env chains pkt (F + 2)) ctx (polRules p) comment hre hacts rs hrs m' hA hD
  cases ho : policyOutcome env pkt.v6 pkt (polRules p) <;> simp only [ho] at this ⊢ <;> exact this

/-- per-tier enforced policy outcomes, in evaluation order, with the effective default action -/
def policyTiers (env : Env) (pkt : Packet) (polRules : String → List Policy.Rule) (tiers : List Tier)
    (endDrop : Bool) : List (List PolOutcome × Bool) :=
  tiers.map fun t =>
    ((t.groups.flatMap (·.nonStaged)).map (fun p => policyOutcome env pkt.v6 pkt (polRules p.chain)),
     t.defaultPass || !endDrop)

theorem endpoint_chain_verdict_any (cfg : Cfg) (mo : MarksOK cfg) (vb : VBits cfg) (vd : VD cfg) (e : EpCfg)
    (env : Env) (pkt : Packet) (chains : List Chain) (name : String) (tiers : List Tier) (profiles : List String)
    (polRules : String → List Policy.Rule) (out : String → PolOutcome) (F : Nat) (m : Mark)
    (hup : e.adminUp = true)
    (hfs : e.failsafe ≠ "" → ∀ m', evalChain env chains pkt (F + 3) e.failsafe m' = .returned m')
    (hct : pkt.ctState ≠ "RELATED" ∧ pkt.ctState ≠ "ESTABLISHED" ∧ pkt.ctState ≠ "INVALID")
    (henc : (e.dropVXLAN = true → pkt.proto ≠ 17) ∧ (e.dropIPIP = true → pkt.proto ≠ 4))
    (hmD : m &&& cfg.markDrop = 0)
    (hep : lookupChain chains name = some (endpointChain cfg e name tiers profiles).rules)
    (hgrp : ∀ t ∈ tiers, ∀ g ∈ t.groups, g.inlined = false →
      lookupChain chains g.chain = some (policyGroupChain cfg g).rules)
    (hpol : ∀ t ∈ tiers, ∀ g ∈ t.groups, ∀ p ∈ g.pols, p.staged = false →
      PolicyChainOK cfg env pkt chains (polRules p.chain) p.chain)
    (hprof : ∀ p ∈ profiles, ProfileChainOK cfg env pkt chains (polRules p) p)
    (o1 : ∀ t ∈ tiers, ∀ g ∈ t.groups, g.inlined = true → ∀ p ∈ g.nonStaged,
      out p.chain = policyOutcome env pkt.v6 pkt (polRules p.chain))
    (o2 : ∀ t ∈ tiers, ∀ g ∈ t.groups, g.inlined = false →
      out g.chain = firstDecision (g.nonStaged.map fun p => policyOutcome env pkt.v6 pkt (polRules p.chain)))
    (o3 : ∀ p ∈ profiles, out p = policyOutcome env pkt.v6 pkt (polRules p)) :
    let r := evalChain env chains pkt (F + 4) name m
    match e.chainType with
    | .normal =>
      VShape cfg (endpointVerdict (policyTiers env pkt polRules tiers true)
        (profiles.map fun p => policyOutcome env pkt.v6 pkt (polRules p))) r
    | .forward =>
      if tiers.isEmpty then ∃ m', r = .returned m' ∧ m' &&& cfg.markAccept = cfg.markAccept
      else TShape cfg (tiersVerdict (policyTiers env pkt polRules tiers true)) (fun m' => .returned m') r
    | _ => TShape cfg (tiersVerdict (policyTiers env pkt polRules tiers false)) (fun m' => .returned m') r := by
  intro r
  have hb := targets_behave cfg mo vb vd env pkt chains tiers polRules out F hgrp hpol o1 o2
  have hp := profiles_behave cfg mo env pkt chains profiles polRules out F hprof o3
  have hsh := endpoint_chain_shape_any cfg vb e env (evalChain env chains pkt (F + 3)) pkt name tiers profiles out m
    hup hfs hct henc hb hp hmD
  have hr : r = runRules env (evalChain env chains pkt (F + 3)) pkt (endpointChain cfg e name tiers profiles).rules m :=
    evalChain_of_lookup hep _ _
  have hflat : ∀ endDrop : Bool,
      tiersVerdict (tiers.map fun t => ((tierTargets t).map (fun th => out th.1), t.defaultPass || !endDrop)) =
        tiersVerdict (policyTiers env pkt polRules tiers endDrop) := fun endDrop =>
    tiersVerdict_flatten tiers out (fun c => policyOutcome env pkt.v6 pkt (polRules c)) (fun d => d || !endDrop) o1 o2
  have hpo : profiles.map out = profiles.map fun p => policyOutcome env pkt.v6 pkt (polRules p) :=
    List.map_congr_left o3
  simp only at hsh
  rw [← hr] at hsh
  cases hty : e.chainType <;> simp only [hty] at hsh ⊢
  · rw [endpointVerdict_eq, ← hflat true, ← hpo]; exact hsh
  · rw [← hflat false]; exact hsh
  · rw [← hflat false]; exact hsh
  · rw [← hflat true]; exact hsh

/-! ### eliminating the outcome function `out` -/

/-- the outcome a jump target of the endpoint chain stands for -/
def outOf (env : Env) (pkt : Packet) (polRules : String → List Policy.Rule) (tiers : List Tier) (c : String) :
    PolOutcome :=
  match (tiers.flatMap (·.groups)).find? (fun g => !g.inlined && g.chain == c) with
  | some g => firstDecision (g.nonStaged.map fun p => policyOutcome env pkt.v6 pkt (polRules p.chain))
  | none => policyOutcome env pkt.v6 pkt (polRules c)

theorem outOf_group (env : Env) (pkt : Packet) (polRules : String → List Policy.Rule) (tiers : List Tier)
    (hn1 : ∀ t ∈ tiers, ∀ g ∈ t.groups, g.inlined = false → ∀ t' ∈ tiers, ∀ g' ∈ t'.groups, g'.inlined = false →
      g'.chain = g.chain → g' = g)
    (t : Tier) (ht : t ∈ tiers) (g : Group) (hg : g ∈ t.groups) (hi : g.inlined = false) :
    outOf env pkt polRules tiers g.chain =
      firstDecision (g.nonStaged.map fun p => policyOutcome env pkt.v6 pkt (polRules p.chain)) := by
  unfold outOf
  cases hf : (tiers.flatMap (·.groups)).find? (fun g' => !g'.inlined && g'.chain == g.chain) with
  | none =>
    rw [List.find?_eq_none] at hf
    have := hf g (List.mem_flatMap.mpr ⟨t, ht, hg⟩)
    simp [hi] at this
  | some g' =>
    have hm := List.mem_of_find?_eq_some hf
    have hp := List.find?_some hf
    obtain ⟨t', ht', hg'⟩ := List.mem_flatMap.mp hm
    simp only [Bool.and_eq_true, Bool.not_eq_true', beq_iff_eq] at hp
    rw [hn1 t ht g hg hi t' ht' g' hg' hp.1 hp.2]

theorem outOf_other (env : Env) (pkt : Packet) (polRules : String → List Policy.Rule) (tiers : List Tier)
    (c : String) (hc : ∀ t ∈ tiers, ∀ g ∈ t.groups, g.inlined = false → c ≠ g.chain) :
    outOf env pkt polRules tiers c = policyOutcome env pkt.v6 pkt (polRules c) := by
  unfold outOf
  have : (tiers.flatMap (·.groups)).find? (fun g => !g.inlined && g.chain == c) = none := by
    rw [List.find?_eq_none]
    intro g hg
    obtain ⟨t, ht, hg'⟩ := List.mem_flatMap.mp hg
    cases hi : g.inlined
    · have := hc t ht g hg' hi
      simp; exact fun h => this h.symm
    · simp
  rw [this]

/-- `endpoint_chain_verdict_any` with the outcome function constructed (`outOf`) from name distinctness:
a group chain name identifies its group and is no policy / profile chain name -/
theorem endpoint_chain_verdict_names (cfg : Cfg) (mo : MarksOK cfg) (vb : VBits cfg) (vd : VD cfg) (e : EpCfg)
    (env : Env) (pkt : Packet) (chains : List Chain) (name : String) (tiers : List Tier) (profiles : List String)
    (polRules : String → List Policy.Rule) (F : Nat) (m : Mark)
    (hup : e.adminUp = true)
    (hfs : e.failsafe ≠ "" → ∀ m', evalChain env chains pkt (F + 3) e.failsafe m' = .returned m')
    (hct : pkt.ctState ≠ "RELATED" ∧ pkt.ctState ≠ "ESTABLISHED" ∧ pkt.ctState ≠ "INVALID")
    (henc : (e.dropVXLAN = true → pkt.proto ≠ 17) ∧ (e.dropIPIP = true → pkt.proto ≠ 4))
    (hmD : m &&& cfg.markDrop = 0)
    (hep : lookupChain chains name = some (endpointChain cfg e name tiers profiles).rules)
    (hgrp : ∀ t ∈ tiers, ∀ g ∈ t.groups, g.inlined = false →
      lookupChain chains g.chain = some (policyGroupChain cfg g).rules)
    (hpol : ∀ t ∈ tiers, ∀ g ∈ t.groups, ∀ p ∈ g.pols, p.staged = false →
      PolicyChainOK cfg env pkt chains (polRules p.chain) p.chain)
    (hprof : ∀ p ∈ profiles, ProfileChainOK cfg env pkt chains (polRules p) p)
    (hn1 : ∀ t ∈ tiers, ∀ g ∈ t.groups, g.inlined = false → ∀ t' ∈ tiers, ∀ g' ∈ t'.groups, g'.inlined = false →
      g'.chain = g.chain → g' = g)
    (hn2 : ∀ t ∈ tiers, ∀ g ∈ t.groups, g.inlined = false →
      (∀ t' ∈ tiers, ∀ g' ∈ t'.groups, g'.inlined = true → ∀ p ∈ g'.nonStaged, p.chain ≠ g.chain) ∧
      (∀ p ∈ profiles, p ≠ g.chain)) :
    let r := evalChain env chains pkt (F + 4) name m
    match e.chainType with
    | .normal =>
      VShape cfg (endpointVerdict (policyTiers env pkt polRules tiers true)
        (profiles.map fun p => policyOutcome env pkt.v6 pkt (polRules p))) r
    | .forward =>
      if tiers.isEmpty then ∃ m', r = .returned m' ∧ m' &&& cfg.markAccept = cfg.markAccept
      else TShape cfg (tiersVerdict (policyTiers env pkt polRules tiers true)) (fun m' => .returned m') r
    | _ => TShape cfg (tiersVerdict (policyTiers env pkt polRules tiers false)) (fun m' => .returned m') r :=
  endpoint_chain_verdict_any cfg mo vb vd e env pkt chains name tiers profiles polRules
    (outOf env pkt polRules tiers) F m hup hfs hct henc hmD hep hgrp hpol hprof
    (fun t' ht' g' hg' hi' p hp => outOf_other env pkt polRules tiers p.chain
      (fun t ht g hg hi => (hn2 t ht g hg hi).1 t' ht' g' hg' hi' p hp))
    (fun t ht g hg hi => outOf_group env pkt polRules tiers hn1 t ht g hg hi)
    (fun p hp => outOf_other env pkt polRules tiers p (fun t ht g hg hi => (hn2 t ht g hg hi).2 p hp))


end CalicoVerif.C09
