import CalicoVerif.Model.C37Ident
/-!
C37 — helper lemmas about the identity strings (core Lean only).
-/
namespace CalicoVerif.C37

/-- A separator byte that occurs in neither head splits uniquely. -/
theorem split_unique (c : Nat) : ∀ {a a' r r' : Bytes}, c ∉ a → c ∉ a' →
    a ++ c :: r = a' ++ c :: r' → a = a' ∧ r = r'
  | [], [], _, _, _, _, h => by simpa using h
  | [], y :: a', _, _, _, h2, h => by
    simp only [List.nil_append, List.cons_append, List.cons.injEq] at h
    exact absurd (by simp [h.1]) h2
  | x :: a, [], _, _, h1, _, h => by
    simp only [List.nil_append, List.cons_append, List.cons.injEq] at h
    exact absurd (by simp [h.1]) h1
  | x :: a, y :: a', r, r', h1, h2, h => by
    simp only [List.cons_append, List.cons.injEq] at h
    have := split_unique c (a := a) (a' := a') (by intro m; exact h1 (by simp [m]))
      (by intro m; exact h2 (by simp [m])) h.2
    exact ⟨by rw [h.1, this.1], this.2⟩

/-- Characters allowed in names and namespaces by the v3 validation (DNS-1123
subdomain / label alphabet): `a-z`, `0-9`, `-`, `.`. -/
def dnsChar (c : Nat) : Prop := (97 ≤ c ∧ c ≤ 122) ∨ (48 ≤ c ∧ c ≤ 57) ∨ c = 45 ∨ c = 46

def validName (s : Bytes) : Prop := ∀ c ∈ s, dnsChar c

theorem validName_not_mem {s : Bytes} (h : validName s) {c : Nat}
    (hc : ¬ dnsChar c) : c ∉ s := fun m => hc (h c m)

theorem not_dns_10 : ¬ dnsChar 10 := by unfold dnsChar; omega
theorem not_dns_44 : ¬ dnsChar 44 := by unfold dnsChar; omega
theorem not_dns_47 : ¬ dnsChar 47 := by unfold dnsChar; omega

theorem PolicyID.ext' {p q : PolicyID} (hn : p.name = q.name) (hs : p.namespace_ = q.namespace_)
    (hk : p.kind = q.kind) : p = q := by
  cases p; cases q
  simp only [PolicyID.mk.injEq]
  exact ⟨hn, hs, hk⟩

/-! ### PolicyID.String() -/

/-- The format of `PolicyID.String()` as the translator found it: a change of
the format in the source makes this fail (broken tie). -/
theorem policyString_shape :
    Gen.policyStringSegments =
      [[123, 78, 97, 109, 101, 58, 32],                                            -- "{Name: "
       [44, 32, 78, 97, 109, 101, 115, 112, 97, 99, 101, 58, 32],                  -- ", Namespace: "
       [44, 32, 75, 105, 110, 100, 58, 32],                                        -- ", Kind: "
       [125]] ∧                                                                    -- "}"
    Gen.policyStringArgs = ["p.Name", "p.Namespace", "p.Kind"] := by decide

theorem policyString_eq (p : PolicyID) :
    p.string = [123, 78, 97, 109, 101, 58, 32] ++ (p.name ++ 44 ::
      ([32, 78, 97, 109, 101, 115, 112, 97, 99, 101, 58, 32] ++ (p.namespace_ ++ 44 ::
        ([32, 75, 105, 110, 100, 58, 32] ++ (p.kind ++ [125]))))) := by
  simp [PolicyID.string, policyString_shape.1, sprintf]

/-- `String()` is injective on policies whose name and namespace contain no `,`. -/
theorem policyString_injective {p q : PolicyID}
    (hp : 44 ∉ p.name ∧ 44 ∉ p.namespace_) (hq : 44 ∉ q.name ∧ 44 ∉ q.namespace_)
    (h : p.string = q.string) : p = q := by
  rw [policyString_eq, policyString_eq] at h
  have h1 := List.append_cancel_left h
  obtain ⟨en, h2⟩ := split_unique 44 hp.1 hq.1 h1
  have h3 := List.append_cancel_left h2
  obtain ⟨ens, h4⟩ := split_unique 44 hp.2 hq.2 h3
  have h5 := List.append_cancel_left h4
  have ek := List.append_cancel_right h5
  exact PolicyID.ext' en ens ek

theorem policyString_no_newline {p : PolicyID}
    (h : 10 ∉ p.name ∧ 10 ∉ p.namespace_ ∧ 10 ∉ p.kind) : 10 ∉ p.string := by
  rw [policyString_eq]
  simp only [List.mem_append, List.mem_cons, not_or]
  simp [h.1, h.2.1, h.2.2]

/-! ### PolicyID.ID() -/

/-- Table facts (finite generated table: `decide`): every kind's lookup gives
its own short name, short names are pairwise different and contain no `/`. -/
theorem kindShortTable_facts :
    (∀ a ∈ Gen.kindShortTable, tableLookup Gen.kindShortTable a.1 = some a.2) ∧
    (∀ a ∈ Gen.kindShortTable, ∀ b ∈ Gen.kindShortTable, a.2 = b.2 → a.1 = b.1) ∧
    (∀ a ∈ Gen.kindShortTable, 47 ∉ a.2) := by decide

def knownKind (k : Bytes) : Prop := ∃ a ∈ Gen.kindShortTable, a.1 = k

theorem kindShortName_known {k : Bytes} (h : knownKind k) :
    ∃ a ∈ Gen.kindShortTable, a.1 = k ∧ kindShortName k = a.2 := by
  obtain ⟨a, ha, e⟩ := h
  refine ⟨a, ha, e, ?_⟩
  unfold kindShortName
  rw [← e, kindShortTable_facts.1 a ha]; rfl

theorem policyID_shape :
    Gen.policyIDShape = ["if-namespace-set", "%s/%s/%s <- p.KindShortName(),p.Namespace,p.Name",
      "%s/%s <- p.KindShortName(),p.Name"] := by decide

/-- `ID()` is injective on validated policies (known kind; `/`-free name and namespace). -/
theorem policyID_injective {p q : PolicyID} (kp : knownKind p.kind) (kq : knownKind q.kind)
    (hp : 47 ∉ p.name ∧ 47 ∉ p.namespace_) (hq : 47 ∉ q.name ∧ 47 ∉ q.namespace_)
    (h : p.id = q.id) : p = q := by
  obtain ⟨a, ha, ea, sa⟩ := kindShortName_known kp
  obtain ⟨b, hb, eb, sb⟩ := kindShortName_known kq
  have na := kindShortTable_facts.2.2 a ha
  have nb := kindShortTable_facts.2.2 b hb
  have key : ∀ (r r' : Bytes), kindShortName p.kind ++ [47] ++ r = kindShortName q.kind ++ [47] ++ r' →
      p.kind = q.kind ∧ r = r' := by
    intro r r' e
    rw [sa, sb] at e
    simp only [List.append_assoc, List.singleton_append] at e
    obtain ⟨e1, e2⟩ := split_unique 47 na nb e
    exact ⟨by rw [← ea, ← eb, kindShortTable_facts.2.1 a ha b hb e1], e2⟩
  unfold PolicyID.id at h
  by_cases h1 : p.namespace_ = [] <;> by_cases h2 : q.namespace_ = []
  · simp only [h1, h2, ne_eq, not_true_eq_false, if_false] at h
    obtain ⟨ek, en⟩ := key _ _ h
    exact PolicyID.ext' en (h1.trans h2.symm) ek
  · simp only [h1, h2, ne_eq, not_true_eq_false, not_false_eq_true, if_true, if_false] at h
    have := (key p.name (q.namespace_ ++ [47] ++ q.name) (by simpa [List.append_assoc] using h)).2
    exact absurd (by rw [this]; simp) hp.1
  · simp only [h1, h2, ne_eq, not_true_eq_false, not_false_eq_true, if_true, if_false] at h
    have := (key (p.namespace_ ++ [47] ++ p.name) q.name (by simpa [List.append_assoc] using h)).2
    exact absurd (by rw [← this]; simp) hq.1
  · simp only [h1, h2, ne_eq, not_false_eq_true, if_true] at h
    obtain ⟨ek, er⟩ := key (p.namespace_ ++ [47] ++ p.name) (q.namespace_ ++ [47] ++ q.name)
      (by simpa [List.append_assoc] using h)
    simp only [List.append_assoc, List.singleton_append] at er
    obtain ⟨ens, en⟩ := split_unique 47 hp.2 hq.2 er
    exact PolicyID.ext' en ens ek

/-! ### PolicyGroup.UniqueID() pre-hash string -/

theorem natDigits_range (n : Nat) : ∀ d ∈ natDigits n, 48 ≤ d ∧ d ≤ 57 := by
  induction n using Nat.strongRecOn with
  | _ n ih =>
    intro d hd
    rw [natDigits] at hd
    split at hd
    · simp at hd; omega
    · rw [List.mem_append] at hd
      rcases hd with hd | hd
      · exact ih (n / 10) (by omega) d hd
      · simp at hd; omega

theorem groupWrite_shape :
    Gen.groupWrites = ["g.Selector", "fmt.Sprint(g.Direction)", "strconv.Itoa(len(g.Policies))",
      "<for policy in g.Policies>", "policy.String()"] ∧
    Gen.groupWriteSeparator = [10] ∧ Gen.groupHasher = "sha3.New224" ∧
    Gen.profileIDExpr = "p.Name" := by decide

theorem joinSep_injective : ∀ {xs ys : List Bytes}, (∀ x ∈ xs, 10 ∉ x) → (∀ y ∈ ys, 10 ∉ y) →
    joinSep [10] xs = joinSep [10] ys → xs = ys
  | [], [], _, _, _ => rfl
  | [], y :: ys, _, _, h => by simp [joinSep] at h
  | x :: xs, [], _, _, h => by simp [joinSep] at h
  | x :: xs, y :: ys, hx, hy, h => by
    simp only [joinSep, List.append_assoc, List.singleton_append] at h
    obtain ⟨e1, e2⟩ := split_unique 10 (hx x (by simp)) (hy y (by simp)) h
    rw [e1, joinSep_injective (fun a ha => hx a (by simp [ha])) (fun a ha => hy a (by simp [ha])) e2]

theorem map_string_injective : ∀ {ps qs : List PolicyID},
    (∀ p ∈ ps, 44 ∉ p.name ∧ 44 ∉ p.namespace_) → (∀ q ∈ qs, 44 ∉ q.name ∧ 44 ∉ q.namespace_) →
    ps.map PolicyID.string = qs.map PolicyID.string → ps = qs
  | [], [], _, _, _ => rfl
  | [], q :: qs, _, _, h => by simp at h
  | p :: ps, [], _, _, h => by simp at h
  | p :: ps, q :: qs, hp, hq, h => by
    simp only [List.map_cons, List.cons.injEq] at h
    rw [policyString_injective (hp p (by simp)) (hq q (by simp)) h.1,
      map_string_injective (fun a ha => hp a (by simp [ha])) (fun a ha => hq a (by simp [ha])) h.2]

end CalicoVerif.C37
