import CalicoVerif.Proofs.C30Main
/-! Helper lemmas for C30, part 5: rules on IP-port sets (services). -/
namespace CalicoVerif.C30

theorem any_zipIdx_map_mem {α β : Type} (l : List α) (F : α × Nat → β) (q : β → Bool) (q' : α → Bool)
    (h : ∀ a ∈ l, ∀ i, q (F (a, i)) = q' a) : ∀ k, ((l.zipIdx k).map F).any q = l.any q' := by
  induction l with
  | nil => intro k; simp
  | cons a rest ih =>
    intro k
    simp only [List.zipIdx_cons, List.map_cons, List.any_cons, h a (by simp)]
    rw [ih (fun x hx i => h x (by simp [hx]) i)]

def sameKey (k1 k2 : Nat) (x : Nat × Nat × List Addr) : Bool := x.1 == k1 && x.2.1 == k2

theorem groupIPPorts_cons (m : IPPort) (rest : List IPPort) :
    groupIPPorts (m :: rest) =
      (match (groupIPPorts rest).find? (sameKey (protocolNameToNumber m.proto) m.port) with
       | some x => (protocolNameToNumber m.proto, m.port, m.addr :: x.2.2) ::
           (groupIPPorts rest).filter (fun y => !sameKey (protocolNameToNumber m.proto) m.port y)
       | none => (protocolNameToNumber m.proto, m.port, [m.addr]) :: groupIPPorts rest) := rfl

/-- Keys are unique, groups are non-empty, and the groups hold exactly the members. -/
theorem groupIPPorts_spec (ms : List IPPort) :
    (groupIPPorts ms).Pairwise (fun g h => ¬ (g.1 = h.1 ∧ g.2.1 = h.2.1)) ∧
    (∀ g ∈ groupIPPorts ms, g.2.2 ≠ []) ∧
    (∀ pr po a, (∃ g ∈ groupIPPorts ms, g.1 = pr ∧ g.2.1 = po ∧ a ∈ g.2.2) ↔
      (∃ m ∈ ms, protocolNameToNumber m.proto = pr ∧ m.port = po ∧ m.addr = a)) := by
  induction ms with
  | nil => simp [groupIPPorts]
  | cons m rest ih =>
    obtain ⟨hpw, hne, hmem⟩ := ih
    rw [groupIPPorts_cons]
    cases hf : (groupIPPorts rest).find? (sameKey (protocolNameToNumber m.proto) m.port) with
    | none =>
      have hnone : ∀ y ∈ groupIPPorts rest, ¬ (y.1 = protocolNameToNumber m.proto ∧ y.2.1 = m.port) := by
        intro y hy hk
        have := List.find?_eq_none.1 hf y hy
        simp [sameKey, hk.1, hk.2] at this
      refine ⟨?_, ?_, ?_⟩
      · refine List.pairwise_cons.2 ⟨?_, hpw⟩
        intro y hy hk
        exact hnone y hy ⟨hk.1.symm, hk.2.symm⟩
      · intro g hg
        simp only [List.mem_cons] at hg
        rcases hg with rfl | hg
        · simp
        · exact hne g hg
      · intro pr po a
        simp only [List.mem_cons, exists_eq_or_imp, List.not_mem_nil, or_false]
        rw [hmem pr po a]
        constructor
        · rintro (⟨h1, h2, h3⟩ | h)
          · exact Or.inl ⟨h1, h2, h3.symm⟩
          · exact Or.inr h
        · rintro (⟨h1, h2, h3⟩ | h)
          · exact Or.inl ⟨h1, h2, h3.symm⟩
          · exact Or.inr h
    | some x =>
      have hx : x ∈ groupIPPorts rest := List.mem_of_find?_eq_some hf
      have hxk : x.1 = protocolNameToNumber m.proto ∧ x.2.1 = m.port := by
        have := List.find?_some hf
        simpa [sameKey] using this
      -- any group with the key is x
      have huniq : ∀ y ∈ groupIPPorts rest, y.1 = protocolNameToNumber m.proto → y.2.1 = m.port → y = x := by
        intro y hy h1 h2
        apply Classical.byContradiction
        intro hne'
        rcases List.mem_iff_append.1 hy with ⟨l1, l2, hl⟩
        rw [hl] at hx hpw
        simp only [List.mem_append, List.mem_cons] at hx
        rcases hx with hx | hx | hx
        · have hp := (List.pairwise_append.1 hpw).2.2 x hx y (by simp)
          exact hp ⟨by rw [hxk.1, h1], by rw [hxk.2, h2]⟩
        · exact hne' hx.symm
        · have hp := (List.pairwise_cons.1 (List.pairwise_append.1 hpw).2.1).1 x hx
          exact hp ⟨by rw [hxk.1, h1], by rw [hxk.2, h2]⟩
      refine ⟨?_, ?_, ?_⟩
      · refine List.pairwise_cons.2 ⟨?_, hpw.filter _⟩
        intro y hy hk
        have hy' := List.mem_filter.1 hy
        simp [sameKey, ← hk.1, ← hk.2] at hy'
      · intro g hg
        simp only [List.mem_cons] at hg
        rcases hg with rfl | hg
        · simp
        · exact hne g (List.mem_filter.1 hg).1
      · intro pr po a
        simp only [List.mem_cons, exists_eq_or_imp]
        rw [← hmem pr po a]
        constructor
        · rintro (⟨h1, h2, h3⟩ | ⟨g, hg, h1, h2, h3⟩)
          · rcases h3 with h3 | h3
            · exact Or.inl ⟨h1, h2, h3.symm⟩
            · exact Or.inr ⟨x, hx, by rw [hxk.1, h1], by rw [hxk.2, h2], h3⟩
          · exact Or.inr ⟨g, (List.mem_filter.1 hg).1, h1, h2, h3⟩
        · rintro (⟨h1, h2, h3⟩ | ⟨g, hg, h1, h2, h3⟩)
          · exact Or.inl ⟨h1, h2, by simp [h3]⟩
          · by_cases hk : g.1 = protocolNameToNumber m.proto ∧ g.2.1 = m.port
            · have := huniq g hg hk.1 hk.2
              subst this
              exact Or.inl ⟨by rw [← h1, hk.1], by rw [← h2, hk.2], by simp [h3]⟩
            · refine Or.inr ⟨g, List.mem_filter.2 ⟨hg, ?_⟩, h1, h2, h3⟩
              simp only [sameKey, Bool.not_eq_true', Bool.and_eq_false_iff, beq_eq_false_iff_ne, ne_eq]
              by_cases h1' : g.1 = protocolNameToNumber m.proto
              · right; exact fun h2' => hk ⟨h1', h2'⟩
              · left; exact h1'


/-- Supported rule in a given direction: the base criteria plus the documented contract of
`dst_ip_port_set_ids` (a Service match): one set, alone in the rule, egress only. -/
structure Rule.supportedIn (r : Rule) (inbound : Bool) : Prop where
  base : r.supported
  ipport : r.dstIpPortSets = [] ∨
    (inbound = false ∧ (∃ id, r.dstIpPortSets = [id]) ∧ r.proto = none ∧ r.srcNet = [] ∧ r.dstNet = [] ∧
      r.srcPorts = [] ∧ r.dstPorts = [] ∧ r.srcSets = [] ∧ r.dstSets = [])

/-- IP-port set members carry a protocol name the converter knows (tcp/udp/sctp in practice). -/
def IPSets.ipportOK (s : IPSets) : Prop :=
  ∀ id m, s.getIPPort id = some m → ∀ x ∈ m, protocolNameToNumber x.proto ≠ 256

theorem rule_sem_ipport (s : IPSets) (hipp : s.ipportOK) (r : Rule) (hsup : r.supported) (id : String)
    (hid : r.dstIpPortSets = [id]) (hproto : r.proto = none) (h1 : r.srcNet = []) (h2 : r.dstNet = [])
    (h3 : r.srcPorts = []) (h4 : r.dstPorts = []) (h5 : r.srcSets = []) (h6 : r.dstSets = [])
    (n : Nat) (pid : String) (p : Pkt) :
    (∀ h ∈ hr s pid r false n, h.action = ruleAction r ∧ h.inbound = false) ∧
    (hr s pid r false n).any (·.matches p) = r.matches s p := by
  obtain ⟨act, hact⟩ := Option.isSome_iff_exists.1 hsup.action
  have hra : ruleAction r = act := by simp [ruleAction, hact]
  have hipv : ¬ (r.ipVersion ≠ 0 ∧ r.ipVersion ≠ 4) := by
    rcases hsup.ipv with h | h <;> simp [h]
  have hmatch : r.matches s p = inIPPortSet s id p := by
    simp [Rule.matches, hproto, protoOK, h1, h2, h3, h4, h5, h6, hid, addrsOK, portsOK]
  unfold hr protoRuleToHnsRules
  simp only [hipv, if_false, hsup.noNotSrc, hsup.noNotDst, hsup.noNeg, hsup.noIcmp, hsup.noNamed,
    List.isEmpty_nil, Bool.not_true, Bool.or_self, Bool.false_eq_true, hact, hid, h1, h2, filterNets,
    if_true, List.isEmpty_cons, Bool.not_false, getIPPortMembers]
  cases hg : s.getIPPort id with
  | none => simp [hmatch, inIPPortSet, hg]
  | some ms =>
    simp only [Option.map_some, List.append_nil]
    obtain ⟨_, hne, hmem⟩ := groupIPPorts_spec ms
    have hok := hipp id ms hg
    constructor
    · apply mem_zipIdx_map
      intro g i
      exact ⟨by rw [hra]; rfl, rfl⟩
    · rw [any_zipIdx_map_mem _ _ _ (fun g : Nat × Nat × List Addr =>
        (g.1 == p.proto) && g.2.2.any (·.contains p.dst) && (g.2.1 == p.dport))]
      · rw [hmatch, Bool.eq_iff_iff]
        simp only [inIPPortSet, hg, List.any_eq_true, Bool.and_eq_true, beq_iff_eq]
        constructor
        · rintro ⟨g, hgm, ⟨hpr, a, ha, hc⟩, hpo⟩
          obtain ⟨m, hm, e1, e2, e3⟩ := (hmem g.1 g.2.1 a).1 ⟨g, hgm, rfl, rfl, ha⟩
          exact ⟨m, hm, ⟨by rw [e3]; exact hc, by rw [e1, hpr]⟩, by rw [e2, hpo]⟩
        · rintro ⟨m, hm, ⟨hc, hpr⟩, hpo⟩
          obtain ⟨g, hgm, e1, e2, e3⟩ := (hmem _ _ _).2 ⟨m, hm, rfl, rfl, rfl⟩
          exact ⟨g, hgm, ⟨by rw [e1, hpr], m.addr, e3, hc⟩, by rw [e2, hpo]⟩
      · intro g hgm i
        -- the group's protocol is a known one (never 256 = any) and the group is not empty
        have hgne := hne g hgm
        have h256 : (g.1 == 256) = false := by
          cases hl : g.2.2 with
          | nil => exact absurd hl hgne
          | cons a _ =>
            obtain ⟨m, hm, e1, _, _⟩ := (hmem g.1 g.2.1 a).1 ⟨g, hgm, rfl, rfl, by simp [hl]⟩
            have := hok m hm
            rw [e1] at this
            simpa using this
        have hemp : g.2.2.isEmpty = false := by cases hl : g.2.2 <;> simp_all
        simp only [HRule.matches, baseRule, Bool.false_eq_true, if_false, h256, Bool.false_or, addrsOK,
          List.isEmpty_nil, Bool.and_true, hemp, portsOK, List.isEmpty_cons, List.any_cons,
          List.any_nil, Bool.or_false, PortRange.contains]
        have hport : (decide (g.2.1 ≤ p.dport) && decide (p.dport ≤ g.2.1)) = (g.2.1 == p.dport) := by
          rw [Bool.eq_iff_iff]; simp only [Bool.and_eq_true, decide_eq_true_eq, beq_iff_eq]; omega
        rw [hport]

end CalicoVerif.C30
