import CalicoVerif.Proofs.C30Main
/-! Helper lemmas for C30, part 5: rules on IP-port sets (services). -/
namespace CalicoVerif.C30

theorem any_zipIdx_map_mem {α β : Type} (l : List α) (F : α × Nat → β) (q : β → Bool) (q' : α → Bool)
    (h : ∀ a ∈ l, ∀ i, q (F (a, i)) = q' a) : ∀ k, ((l.zipIdx k).map F).any q = l.any q' := by
  induction l with
  | nil => intro k; simp
  | cons a rest ih =>
    intro k
    simp only [List.zipIdx_cons, List.map_cons, List.any_cons, h a (by simp)]
    rw [ih (fun x hx i => h x (by simp [hx]) i)]

def sameKey (k1 k2 : Nat) (x : Nat × Nat × List Addr) : Bool := x.1 == k1 && x.2.1 == k2

theorem groupIPPorts_cons (m : IPPort) (rest : List IPPort) :
    groupIPPorts (m :: rest) =
      (match (groupIPPorts rest).find? (sameKey (protocolNameToNumber m.proto) m.port) with
       | some x => (protocolNameToNumber m.proto, m.port, m.addr :: x.2.2) ::
           (groupIPPorts rest).filter (fun y => !sameKey (protocolNameToNumber m.proto) m.port y)
       | none => (protocolNameToNumber m.proto, m.port, [m.addr]) :: groupIPPorts rest) := rfl

/-- Keys are unique, groups are non-empty, and the groups hold exactly the members. -/
theorem groupIPPorts_spec (ms : List IPPort) :
    (groupIPPorts ms).Pairwise (fun g h => ¬ (g.1 = h.1 ∧ g.2.1 = h.2.1)) ∧
    (∀ g ∈ groupIPPorts ms, g.2.2 ≠ []) ∧
    (∀ pr po a, (∃ g ∈ groupIPPorts ms, g.1 = pr ∧ g.2.1 = po ∧ a ∈ g.2.2) ↔
      (∃ m ∈ ms, protocolNameToNumber m.proto = pr ∧ m.port = po ∧ m.addr = a)) := by
  induction ms with
  | nil => simp [groupIPPorts]
  | cons m rest ih =>
    obtain ⟨hpw, hne, hmem⟩ := ih
    rw [groupIPPorts_cons]
    cases hf : (groupIPPorts rest).find? (sameKey (protocolNameToNumber m.proto) m.port) with
    | none =>
      have hnone : ∀ y ∈ groupIPPorts rest, ¬ (y.1 = protocolNameToNumber m.proto ∧ y.2.1 = m.port) := by
        intro y hy hk
        have := List.find?_eq_none.1 hf y hy
        simp [sameKey, hk.1, hk.2] at this
      refine ⟨?_, ?_, ?_⟩
      · refine List.pairwise_cons.2 ⟨?_, hpw⟩
        intro y hy hk
        exact hnone y hy ⟨hk.1.symm, hk.2.symm⟩
      · intro g hg
        simp only [List.mem_cons] at hg
        rcases hg with rfl | hg
        · simp
        · exact hne g hg
      · intro pr po a
        simp only [List.mem_cons, exists_eq_or_imp, List.not_mem_nil, or_false]
        rw [hmem pr po a]
        constructor
        · rintro (⟨h1, h2, h3⟩ | h)
          · exact Or.inl ⟨h1, h2, h3.symm⟩
          · exact Or.inr h
        · rintro (⟨h1, h2, h3⟩ | h)
          · exact Or.inl ⟨h1, h2, h3.symm⟩
          · exact Or.inr h
    | some x =>
      have hx : x ∈ groupIPPorts rest := List.mem_of_find?_eq_some hf
      have hxk : x.1 = protocolNameToNumber m.proto ∧ x.2.1 = m.port := by
        have := List.find?_some hf
        simpa [sameKey] using this
      -- any group with the key is x
      have huniq : ∀ y ∈ groupIPPorts rest, y.1 = protocolNameToNumber m.proto → y.2.1 = m.port → y = x := by
        intro y hy h1 h2
        apply Classical.byContradiction
        intro hne'
        rcases List.mem_iff_append.1 hy with ⟨l1, l2, hl⟩
        rw [hl] at hx hpw
        simp only [List.mem_append, List.mem_cons] at hx
        rcases hx with hx | hx | hx
        · have hp := (List.pairwise_append.1 hpw).2.2 x hx y (by simp)
          exact hp ⟨by rw [hxk.1, h1], by rw [hxk.2, h2]⟩
        · exact hne' hx.symm
        · have hp := (List.pairwise_cons.1 (List.pairwise_append.1 hpw).2.1).1 x hx
          exact hp ⟨by rw [hxk.1, h1], by rw [hxk.2, h2]⟩
      refine ⟨?_, ?_, ?_⟩
      · refine List.pairwise_cons.2 ⟨?_, hpw.filter _⟩
        intro y hy hk
        have hy' := List.mem_filter.1 hy
        simp [sameKey, ← hk.1, ← hk.2] at hy'
      · intro g hg
        simp only [List.mem_cons] at hg
        rcases hg with rfl | hg
        · simp
        · exact hne g (List.mem_filter.1 hg).1
      · intro pr po a
        simp only [List.mem_cons, exists_eq_or_imp]
        rw [← hmem pr po a]
        constructor
        · rintro (⟨h1, h2, h3⟩ | ⟨g, hg, h1, h2, h3⟩)
          · rcases h3 with h3 | h3
            · exact Or.inl ⟨h1, h2, h3.symm⟩
            · exact Or.inr ⟨x, hx, by rw [hxk.1, h1], by rw [hxk.2, h2], h3⟩
          · exact Or.inr ⟨g, (List.mem_filter.1 hg).1, h1, h2, h3⟩
        · rintro (⟨h1, h2, h3⟩ | ⟨g, hg, h1, h2, h3⟩)
          · exact Or.inl ⟨h1, h2, by simp [h3]⟩
          · by_cases hk : g.1 = protocolNameToNumber m.proto ∧ g.2.1 = m.port
            · have := huniq g hg hk.1 hk.2
              subst this
              exact Or.inl ⟨by rw [← h1, hk.1], by rw [← h2, hk.2], by simp [h3]⟩
            · refine Or.inr ⟨g, List.mem_filter.2 ⟨hg, ?_⟩, h1, h2, h3⟩
              simp only [sameKey, Bool.not_eq_true', Bool.and_eq_false_iff, beq_eq_false_iff_ne, ne_eq]
              by_cases h1' : g.1 = protocolNameToNumber m.proto
              · right; exact fun h2' => hk ⟨h1', h2'⟩
              · left; exact h1'


/-- Supported rule in a given direction: the base criteria plus what is left of the restriction on
`dst_ip_port_set_ids` (a Service match) after /repo commit 44f8f9c: one set, egress only, and NO
source/destination nets or IP sets and no destination ports next to it (destination criteria are
forbidden by the v3 API; SOURCE nets / IP sets are legal but still ignored by the converter —
`hns_verdict_false_service_source`).  Protocol and source ports are honoured. -/
structure Rule.supportedIn (r : Rule) (inbound : Bool) : Prop where
  base : r.supported
  ipport : r.dstIpPortSets = [] ∨
    (inbound = false ∧ (∃ id, r.dstIpPortSets = [id]) ∧ r.srcNet = [] ∧ r.dstNet = [] ∧
      r.dstPorts = [] ∧ r.srcSets = [] ∧ r.dstSets = [])

/-- IP-port set members carry a protocol name the converter knows (tcp/udp/sctp in practice). -/
def IPSets.ipportOK (s : IPSets) : Prop :=
  ∀ id m, s.getIPPort id = some m → ∀ x ∈ m, protocolNameToNumber x.proto ≠ 256

theorem any_pairs {α β γ : Type} (l : List α) (m : List β) (F : (α × β) × Nat → γ) (q : γ → Bool)
    (qa : α → Bool) (qb : β → Bool) (h : ∀ a ∈ l, ∀ b i, q (F ((a, b), i)) = (qa a && qb b)) :
    (((l.flatMap fun a => m.map fun b => (a, b)).zipIdx).map F).any q = (l.any qa && m.any qb) := by
  rw [any_zipIdx_map_mem _ F q (fun c => qa c.1 && qb c.2)]
  · simp only [List.any_flatMap, List.any_map, Function.comp_def]
    induction l with
    | nil => simp
    | cons a rest ih =>
      simp only [List.any_cons]
      rw [ih (fun x hx => h x (by simp [hx]))]
      have : (m.any fun b => qa a && qb b) = (qa a && m.any qb) := by
        induction m with
        | nil => simp
        | cons b r ihm => simp only [List.any_cons, ihm]; cases qa a <;> simp
      rw [this]
      cases qa a <;> cases m.any qb <;> simp
  · intro c hc i
    obtain ⟨a, ha, hc⟩ := List.mem_flatMap.1 hc
    obtain ⟨b, _, rfl⟩ := List.mem_map.1 hc
    exact h a ha b i

theorem rule_sem_ipport (s : IPSets) (hipp : s.ipportOK) (r : Rule) (hsup : r.supported) (id : String)
    (hid : r.dstIpPortSets = [id]) (h1 : r.srcNet = []) (h2 : r.dstNet = [])
    (h4 : r.dstPorts = []) (h5 : r.srcSets = []) (h6 : r.dstSets = [])
    (n : Nat) (hn : 0 < n) (pid : String) (p : Pkt) :
    (∀ h ∈ hr s pid r false n, h.action = ruleAction r ∧ h.inbound = false) ∧
    (hr s pid r false n).any (·.matches p) = r.matches s p := by
  obtain ⟨act, hact⟩ := Option.isSome_iff_exists.1 hsup.action
  have hra : ruleAction r = act := by simp [ruleAction, hact]
  have hipv : ¬ (r.ipVersion ≠ 0 ∧ r.ipVersion ≠ 4) := by
    rcases hsup.ipv with h | h <;> simp [h]
  have hmatch : r.matches s p = (protoOK r.proto p && portsOK r.srcPorts p.sport && inIPPortSet s id p) := by
    simp [Rule.matches, h1, h2, h4, h5, h6, hid, addrsOK, portsOK]
  unfold hr protoRuleToHnsRules
  simp only [hipv, if_false, hsup.noNotSrc, hsup.noNotDst, hsup.noNeg, hsup.noIcmp, hsup.noNamed,
    List.isEmpty_nil, Bool.not_true, Bool.or_self, Bool.false_eq_true, hact, hid, h1, h2, filterNets,
    if_true, List.isEmpty_cons, Bool.not_false, getIPPortMembers]
  cases hg : s.getIPPort id with
  | none => simp [hmatch, inIPPortSet, hg]
  | some ms =>
    simp only [Option.map_some, List.append_nil]
    obtain ⟨_, hne, hmem⟩ := groupIPPorts_spec ms
    have hok := hipp id ms hg
    -- the rule's protocol number and how it relates to protoOK
    have hrp : ∀ g : Nat, g ≠ 256 →
        (((withProto (baseRule act false) r.proto).proto == 256 || g == (withProto (baseRule act false) r.proto).proto) &&
          (g == p.proto)) = (protoOK r.proto p && (g == p.proto)) := by
      intro g hg256
      have hp := hsup.proto
      cases hpr : r.proto with
      | none => simp [withProto, baseRule, protoOK]
      | some ps =>
        rw [hpr] at hp
        cases ps with
        | name nm =>
          simp only at hp
          have : (protocolNameToNumber nm == 256) = false := by simpa using hp
          simp only [withProto, protoOK, this, Bool.false_or]
          by_cases he : g = protocolNameToNumber nm
          · subst he; simp
          · have e1 : (g == protocolNameToNumber nm) = false := by simpa using he
            simp only [e1, Bool.false_and]
            by_cases he2 : g = p.proto
            · have : (protocolNameToNumber nm == p.proto) = false := by
                simp only [beq_eq_false_iff_ne, ne_eq]; exact fun h => he (he2.trans h.symm)
              simp [this]
            · have : (g == p.proto) = false := by simpa using he2
              simp [this]
        | num k =>
          simp only at hp
          have hk : k % 65536 = k := Nat.mod_eq_of_lt (by omega)
          have : (k == 256) = false := by simp; omega
          simp only [withProto, protoOK, hk, this, Bool.false_or]
          by_cases he : g = k
          · subst he; simp
          · have e1 : (g == k) = false := by simpa using he
            simp only [e1, Bool.false_and]
            by_cases he2 : g = p.proto
            · have : (k == p.proto) = false := by
                simp only [beq_eq_false_iff_ne, ne_eq]; exact fun h => he (he2.trans h.symm)
              simp [this]
            · have : (g == p.proto) = false := by simpa using he2
              simp [this]
    constructor
    · apply mem_zipIdx_map
      intro g i
      exact ⟨by rw [hra]; rfl, rfl⟩
    · rw [any_pairs _ _ _ _
        (fun g : Nat × Nat × List Addr => (g.1 == p.proto) && g.2.2.any (·.contains p.dst) && (g.2.1 == p.dport))
        (fun sp : List PortRange => portsOK sp p.sport)]
      · rw [portsOK_split _ n hn, hmatch, List.any_filter]
        -- fold the protocol filter into the group predicate
        have hgrp : ((groupIPPorts ms).any fun g =>
            ((withProto (baseRule act false) r.proto).proto == 256 || g.1 == (withProto (baseRule act false) r.proto).proto) &&
              ((g.1 == p.proto) && g.2.2.any (·.contains p.dst) && (g.2.1 == p.dport))) =
            (protoOK r.proto p && inIPPortSet s id p) := by
          have h256 : ∀ g ∈ groupIPPorts ms, g.1 ≠ 256 := by
            intro g hgm
            cases hl : g.2.2 with
            | nil => exact absurd hl (hne g hgm)
            | cons a _ =>
              obtain ⟨m, hm, e1, _, _⟩ := (hmem g.1 g.2.1 a).1 ⟨g, hgm, rfl, rfl, by simp [hl]⟩
              rw [← e1]; exact hok m hm
          rw [any_congr_mem (q := fun g => protoOK r.proto p && ((g.1 == p.proto) && g.2.2.any (·.contains p.dst) && (g.2.1 == p.dport)))]
          · rw [any_const_and]
            congr 1
            rw [Bool.eq_iff_iff]
            simp only [inIPPortSet, hg, List.any_eq_true, Bool.and_eq_true, beq_iff_eq]
            constructor
            · rintro ⟨g, hgm, ⟨hpr, a, ha, hc⟩, hpo⟩
              obtain ⟨m, hm, e1, e2, e3⟩ := (hmem g.1 g.2.1 a).1 ⟨g, hgm, rfl, rfl, ha⟩
              exact ⟨m, hm, ⟨by rw [e3]; exact hc, by rw [e1, hpr]⟩, by rw [e2, hpo]⟩
            · rintro ⟨m, hm, ⟨hc, hpr⟩, hpo⟩
              obtain ⟨g, hgm, e1, e2, e3⟩ := (hmem _ _ _).2 ⟨m, hm, rfl, rfl, rfl⟩
              exact ⟨g, hgm, ⟨by rw [e1, hpr], m.addr, e3, hc⟩, by rw [e2, hpo]⟩
          · intro g hgm
            have := hrp g.1 (h256 g hgm)
            generalize ((withProto (baseRule act false) r.proto).proto == 256 || g.1 == (withProto (baseRule act false) r.proto).proto) = A at this ⊢
            generalize (g.1 == p.proto) = B at this ⊢
            cases A <;> cases B <;> simp_all
        rw [hgrp]
        cases protoOK r.proto p <;> cases portsOK r.srcPorts p.sport <;> simp
      · intro g hgm sp i
        have hgm' := (List.mem_filter.1 hgm).1
        have hgne := hne g hgm'
        have h256 : (g.1 == 256) = false := by
          cases hl : g.2.2 with
          | nil => exact absurd hl hgne
          | cons a _ =>
            obtain ⟨m, hm, e1, _, _⟩ := (hmem g.1 g.2.1 a).1 ⟨g, hgm', rfl, rfl, by simp [hl]⟩
            have := hok m hm
            rw [e1] at this
            simpa using this
        have hemp : g.2.2.isEmpty = false := by cases hl : g.2.2 <;> simp_all
        have hport : (decide (g.2.1 ≤ p.dport) && decide (p.dport ≤ g.2.1)) = (g.2.1 == p.dport) := by
          rw [Bool.eq_iff_iff]; simp only [Bool.and_eq_true, decide_eq_true_eq, beq_iff_eq]; omega
        simp only [HRule.matches, baseRule, Bool.false_eq_true, if_false, h256, Bool.false_or, addrsOK,
          List.isEmpty_nil, Bool.true_or, Bool.and_true, hemp, portsOK, List.isEmpty_cons, List.any_cons,
          List.any_nil, Bool.or_false, PortRange.contains, hport]
        cases (g.1 == p.proto) <;> cases (g.2.2.any fun a => a.contains p.dst) <;> cases (g.2.1 == p.dport) <;> simp

end CalicoVerif.C30
