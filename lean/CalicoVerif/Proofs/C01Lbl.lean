import CalicoVerif.Proofs.C01Tab
import CalicoVerif.Proofs.C01Arc
import CalicoVerif.Props.C06
/-! C01 helper: the ActiveRulesCalculator's label index (C07 model) and the PolicyResolver's match
relation versus the DATASTORE.

 * `Keep`: the rule-scanner / member-index side of the graph touches none of the ARC / resolver fields;
 * `apply_ids`: a label-index operation only calls back for selector / item ids it knows;
 * `MInv`: the resolver's match relation is the image of `policyIDToEndpointKeys` under the numbering;
 * `LInv`: the label index's tables (selectors, items, parent labels) and the ARC's `allPolicies` are
   the datastore's;
 * together with C07's `Inv.sound`: the resolver's match relation is the specification's `DS.matched`. -/
namespace CalicoVerif.C01
open CalicoVerif C02

/-! ### the fields the lower half of the graph never touches -/

structure Keep (g g' : Graph) : Prop where
  res : g'.res = g.res
  polKeys : g'.polKeys = g.polKeys
  epKeys : g'.epKeys = g.epKeys
  allPolicies : g'.allPolicies = g.allPolicies
  polEps : g'.polEps = g.polEps
  lbl : g'.lbl = g.lbl

theorem Keep.rfl' (g : Graph) : Keep g g := ⟨rfl, rfl, rfl, rfl, rfl, rfl⟩
theorem Keep.trans {a b c : Graph} (h1 : Keep a b) (h2 : Keep b c) : Keep a c :=
  ⟨h2.res.trans h1.res, h2.polKeys.trans h1.polKeys, h2.epKeys.trans h1.epKeys,
   h2.allPolicies.trans h1.allPolicies, h2.polEps.trans h1.polEps, h2.lbl.trans h1.lbl⟩

theorem Keep.pre {a b c : Graph} (h2 : Keep b c) (h1 : Keep a b) : Keep a c := h1.trans h2

theorem keep_foldl {α : Type} (f : Graph → α → Graph) (hf : ∀ g a, Keep g (f g a)) :
    ∀ (l : List α) (g : Graph), Keep g (l.foldl f g)
  | [], g => Keep.rfl' g
  | a :: l, g => (hf g a).trans (keep_foldl f hf l (f g a))

theorem keep_emit (g : Graph) (cs : List Call) : Keep g (g.emit cs) := by
  unfold Graph.emit; split <;> exact ⟨rfl, rfl, rfl, rfl, rfl, rfl⟩

theorem keep_idxOp (g : Graph) (op : C04.Op Str) : Keep g (g.idxOp op) := by
  unfold Graph.idxOp
  generalize C04.stepEvents matchSel g.idx op = r
  obtain ⟨idx, evs⟩ := r
  simp only []
  exact Keep.pre (keep_emit _ _) ⟨rfl, rfl, rfl, rfl, rfl, rfl⟩

theorem keep_onRsEvent (g : Graph) (e : RsEvent) : Keep g (g.onRsEvent e) := by
  cases e with
  | ipsetActive uid d => exact (keep_emit _ _).trans (keep_idxOp _ _)
  | ipsetInactive uid => exact (keep_idxOp _ _).trans (keep_emit _ _)

theorem keep_rsUpdate (H : IdFn) (g : Graph) (key : RulesId) (r : Option RulesIn) :
    Keep g (g.rsUpdate H key r) := by
  unfold Graph.rsUpdate
  simp only []
  exact Keep.pre (keep_foldl Graph.onRsEvent keep_onRsEvent _ _) ⟨rfl, rfl, rfl, rfl, rfl, rfl⟩

theorem keep_scanRules (H : IdFn) (g : Graph) (key : RulesId) (r : Option RulesIn) :
    Keep g (g.scanRules H key r) :=
  Keep.trans (keep_rsUpdate H g key r) (keep_emit _ _)

theorem keep_profEvents (H : IdFn) (g : Graph) (evs : List (C05.Event RulesIn)) : Keep g (g.profEvents H evs) := by
  unfold Graph.profEvents
  apply keep_foldl
  intro g e
  cases e with
  | active p r => cases r <;> exact keep_scanRules H g _ _
  | inactive p => exact keep_scanRules H g _ _

theorem keep_arcProfStep (H : IdFn) (g : Graph) (u : C05.Upd RulesIn) : Keep g (g.arcProfStep H u) := by
  unfold Graph.arcProfStep
  exact Keep.pre (keep_profEvents H _ _) ⟨rfl, rfl, rfl, rfl, rfl, rfl⟩

theorem keep_sendPolicyUpdate (H : IdFn) (g : Graph) (n : Nat) : Keep g (g.sendPolicyUpdate H n) := by
  unfold Graph.sendPolicyUpdate
  split
  · split
    · exact keep_scanRules H g _ _
    · exact ⟨rfl, rfl, rfl, rfl, rfl, rfl⟩
  · exact keep_scanRules H g _ _

theorem keep_idxEndpoint (g : Graph) (key : EpKey) (v : Option EpVal) : Keep g (g.idxEndpoint key v) := by
  unfold Graph.idxEndpoint; cases v <;> exact keep_idxOp _ _

theorem keep_idxNetset (g : Graph) (name : String) (v : Option NetSetVal) : Keep g (g.idxNetset name v) := by
  unfold Graph.idxNetset; cases v <;> exact keep_idxOp _ _

/-! ### which ids a label-index operation calls back for -/

def evSel : C07.Event → Nat
  | .started s _ => s
  | .stopped s _ => s
def evItem : C07.Event → Nat
  | .started _ i => i
  | .stopped _ i => i

theorem lookup_isSome_of_mem {α β : Type} [DecidableEq α] {k : α} : ∀ {l : List (α × β)},
    k ∈ l.map (·.1) → (C07.lookup k l).isSome = true
  | [], h => by cases h
  | (k', v) :: t, h => by
    simp only [C07.lookup]
    by_cases hk : k' = k
    · simp [hk]
    · simp only [hk, if_false]
      simp only [List.map_cons, List.mem_cons] at h
      rcases h with h | h
      · exact absurd h.symm hk
      · exact lookup_isSome_of_mem h

theorem updateMatches_ids (st : C07.Idx) (ms : C07.MS) (s : Nat) (n : C06.Node) (i : Nat) (it : C07.Item) :
    ∀ e ∈ (C07.updateMatches st ms s n i it).2, evSel e = s ∧ evItem e = i := by
  intro e he
  unfold C07.updateMatches C07.storeMatch C07.deleteMatch at he
  split at he <;> split at he <;> simp at he <;> (subst he; exact ⟨rfl, rfl⟩)

theorem scanSelectors_ids (st : C07.Idx) (i : Nat) (it : C07.Item) : ∀ (sels : List (Nat × C06.Node)) (ms : C07.MS),
    ∀ e ∈ (C07.scanSelectors st i it sels ms).2, evSel e ∈ sels.map (·.1) ∧ evItem e = i
  | [], ms => by intro e he; simp [C07.scanSelectors] at he
  | (s, n) :: rest, ms => by
    intro e he
    simp only [C07.scanSelectors, List.mem_append] at he
    rcases he with he | he
    · obtain ⟨h1, h2⟩ := updateMatches_ids st ms s n i it e he
      exact ⟨by simp [h1], h2⟩
    · obtain ⟨h1, h2⟩ := scanSelectors_ids st i it rest _ e he
      exact ⟨List.mem_cons_of_mem _ h1, h2⟩

theorem scanItems_ids (st : C07.Idx) (s : Nat) (n : C06.Node) : ∀ (items : List (Nat × C07.Item)) (ms : C07.MS),
    ∀ e ∈ (C07.scanItems st s n items ms).2, evSel e = s ∧ evItem e ∈ items.map (·.1)
  | [], ms => by intro e he; simp [C07.scanItems] at he
  | (i, it) :: rest, ms => by
    intro e he
    simp only [C07.scanItems, List.mem_append] at he
    rcases he with he | he
    · obtain ⟨h1, h2⟩ := updateMatches_ids st ms s n i it e he
      exact ⟨h1, by simp [h2]⟩
    · obtain ⟨h1, h2⟩ := scanItems_ids st s n rest _ e he
      exact ⟨h1, List.mem_cons_of_mem _ h2⟩

theorem flushItems_ids (st : C07.Idx) : ∀ (items : List (Nat × C07.Item)) (ms : C07.MS),
    ∀ e ∈ (C07.flushItems st items ms).2, evSel e ∈ st.sels.map (·.1) ∧ evItem e ∈ items.map (·.1)
  | [], ms => by intro e he; simp [C07.flushItems] at he
  | (i, it) :: rest, ms => by
    intro e he
    simp only [C07.flushItems, List.mem_append] at he
    rcases he with he | he
    · obtain ⟨h1, h2⟩ := scanSelectors_ids st i it st.sels ms e he
      exact ⟨h1, by simp [h2]⟩
    · obtain ⟨h1, h2⟩ := flushItems_ids st rest _ e he
      exact ⟨h1, List.mem_cons_of_mem _ h2⟩

theorem dropMatches_ids (p : Nat × Nat → Bool) (ms : C07.MS) :
    ∀ e ∈ (C07.dropMatches p ms).2, (evSel e, evItem e) ∈ ms := by
  intro e he
  simp only [C07.dropMatches, List.mem_map, List.mem_filter] at he
  obtain ⟨m, ⟨hm, _⟩, rfl⟩ := he
  exact hm

theorem children_keys (st : C07.Idx) (pid : Str) : ∀ k ∈ (C07.children st pid).map (·.1), k ∈ st.items.map (·.1) := by
  intro k hk
  simp only [C07.children, List.mem_map, List.mem_filter] at hk ⊢
  obtain ⟨a, ⟨ha, _⟩, rfl⟩ := hk
  exact ⟨a, ha, rfl⟩

/-- a label-index operation only calls back for selector ids and item ids present before or after it -/
theorem apply_ids {st : C07.Idx} (h : C07.Inv st) (op : C07.Op) : ∀ e ∈ (op.apply st).2,
    ((C07.lookup (evSel e) st.sels).isSome = true ∨ (C07.lookup (evSel e) (op.apply st).1.sels).isSome = true) ∧
    ((C07.lookup (evItem e) st.items).isSome = true ∨ (C07.lookup (evItem e) (op.apply st).1.items).isSome = true) := by
  intro e he
  have ofMatched : (evSel e, evItem e) ∈ st.matched →
      (C07.lookup (evSel e) st.sels).isSome = true ∧ (C07.lookup (evItem e) st.items).isSome = true := by
    intro hm
    obtain ⟨n, it, h1, h2, _⟩ := (h.sound _).mp hm
    simp only [] at h1 h2
    exact ⟨by rw [h1]; rfl, by rw [h2]; rfl⟩
  cases op with
  | updateLabels id l ps =>
    obtain ⟨h1, h2⟩ := scanSelectors_ids _ id ⟨l, ps⟩ _ _ e he
    refine ⟨Or.inl (lookup_isSome_of_mem h1), Or.inr ?_⟩
    show (C07.lookup (evItem e) (C07.insert id ⟨l, ps⟩ st.items)).isSome = true
    rw [h2, C07.lookup_insert]; simp
  | deleteLabels id =>
    obtain ⟨a, b⟩ := ofMatched (dropMatches_ids _ _ e he)
    exact ⟨Or.inl a, Or.inl b⟩
  | updateParentLabels p l =>
    obtain ⟨h1, h2⟩ := flushItems_ids _ _ _ e he
    exact ⟨Or.inl (lookup_isSome_of_mem h1), Or.inl (lookup_isSome_of_mem (children_keys _ p _ h2))⟩
  | deleteParentLabels p =>
    obtain ⟨h1, h2⟩ := flushItems_ids _ _ _ e he
    exact ⟨Or.inl (lookup_isSome_of_mem h1), Or.inl (lookup_isSome_of_mem (children_keys _ p _ h2))⟩
  | updateSelector id n =>
    simp only [C07.Op.apply, C07.updateSelector] at he ⊢
    split at he
    · split at he
      · cases he
      · rename_i hne
        simp only [hne, if_false]
        obtain ⟨h1, h2⟩ := scanItems_ids st id n st.items st.matched e he
        refine ⟨Or.inr ?_, Or.inl (lookup_isSome_of_mem h2)⟩
        show (C07.lookup (evSel e) (C07.insert id n st.sels)).isSome = true
        rw [h1, C07.lookup_insert]; simp
    · obtain ⟨h1, h2⟩ := scanItems_ids st id n st.items st.matched e he
      refine ⟨Or.inr ?_, Or.inl (lookup_isSome_of_mem h2)⟩
      show (C07.lookup (evSel e) (C07.insert id n st.sels)).isSome = true
      rw [h1, C07.lookup_insert]; simp
  | deleteSelector id =>
    obtain ⟨a, b⟩ := ofMatched (dropMatches_ids _ _ e he)
    exact ⟨Or.inl a, Or.inl b⟩


/-! ### the resolver's match relation mirrors `policyIDToEndpointKeys` -/

/-- the PolicyMatchListener call made for a label-index callback -/
def matchEv (g : Graph) : C07.Event → C03.Event
  | .started s i => .matchStarted (g.polKey s) (g.epKey i)
  | .stopped s i => .matchStopped (g.polKey s) (g.epKey i)

theorem onMatchEvent_fields (H : IdFn) (g : Graph) (e : C07.Event) :
    (g.onMatchEvent H e).polKeys = g.polKeys ∧ (g.onMatchEvent H e).epKeys = g.epKeys ∧
    (g.onMatchEvent H e).allPolicies = g.allPolicies ∧ (g.onMatchEvent H e).res = g.res.step (matchEv g e) := by
  cases e with
  | started s i =>
    simp only [Graph.onMatchEvent, matchEv]
    have key : ∀ g1 : Graph, Keep g1 (if (!g.polActive s) = true then g1.sendPolicyUpdate H s else g1) := by
      intro g1; split
      · exact keep_sendPolicyUpdate H g1 s
      · exact Keep.rfl' g1
    have k := key { g with polEps := C02.sadd (s, i) g.polEps }
    refine ⟨k.polKeys, k.epKeys, k.allPolicies, ?_⟩
    show C03.Resolver.step _ (.matchStarted (Graph.polKey _ s) (Graph.epKey _ i)) = _
    unfold Graph.polKey Graph.epKey
    rw [k.res, k.polKeys, k.epKeys]
  | stopped s i =>
    simp only [Graph.onMatchEvent, matchEv]
    have key : ∀ g1 : Graph, Keep g1 (if (!g1.polActive s) = true then g1.sendPolicyUpdate H s else g1) := by
      intro g1; split
      · exact keep_sendPolicyUpdate H g1 s
      · exact Keep.rfl' g1
    have k := key { g with polEps := C02.sdel (s, i) g.polEps }
    refine ⟨k.polKeys, k.epKeys, k.allPolicies, ?_⟩
    show C03.Resolver.step _ (.matchStopped (Graph.polKey _ s) (Graph.epKey _ i)) = _
    unfold Graph.polKey Graph.epKey
    rw [k.res, k.polKeys, k.epKeys]

theorem step_matchStarted_matched (r : C03.Resolver) (p : PolicyKey) (e : EpKey) :
    (r.step (.matchStarted p e)).matched = sadd (p, e) r.matched := by
  simp only [C03.Resolver.step]
  split <;> rfl

theorem step_matchStopped_matched (r : C03.Resolver) (p : PolicyKey) (e : EpKey) :
    (r.step (.matchStopped p e)).matched = sdel (p, e) r.matched := by
  simp only [C03.Resolver.step]
  split <;> rfl

/-- the mirror property -/
def MM (N : Numbering) (g : Graph) : Prop :=
  ∀ p e, (p, e) ∈ g.res.matched ↔ ∃ n i, (n, i) ∈ g.polEps ∧ p = N.pk n ∧ e = N.ek i

theorem mm_onMatchEvent (H : IdFn) (N : Numbering) (g : Graph) (ev : C07.Event) (hm : MM N g)
    (hp : g.polKey (evSel ev) = N.pk (evSel ev)) (he : g.epKey (evItem ev) = N.ek (evItem ev)) :
    MM N (g.onMatchEvent H ev) := by
  obtain ⟨_, _, _, hres⟩ := onMatchEvent_fields H g ev
  intro p e
  rw [hres]
  cases ev with
  | started s i =>
    simp only [evSel, evItem] at hp he
    simp only [matchEv, hp, he]
    rw [step_matchStarted_matched, mem_sadd, hm p e]
    have h2 := (onMatchEvent_started H g s i).2
    constructor
    · rintro (h | ⟨n, j, h1, h2', h3⟩)
      · simp only [Prod.mk.injEq] at h
        exact ⟨s, i, (h2 (s, i)).mpr (Or.inl rfl), h.1, h.2⟩
      · exact ⟨n, j, (h2 (n, j)).mpr (Or.inr h1), h2', h3⟩
    · rintro ⟨n, j, h1, rfl, rfl⟩
      rcases (h2 (n, j)).mp h1 with h | h
      · simp only [Prod.mk.injEq] at h
        exact Or.inl (by rw [h.1, h.2])
      · exact Or.inr ⟨n, j, h, rfl, rfl⟩
  | stopped s i =>
    simp only [evSel, evItem] at hp he
    simp only [matchEv, hp, he]
    rw [step_matchStopped_matched, mem_sdel, hm p e]
    have h2 := (onMatchEvent_stopped H g s i).2
    constructor
    · rintro ⟨⟨n, j, h1, rfl, rfl⟩, hne⟩
      refine ⟨n, j, (h2 (n, j)).mpr ⟨h1, ?_⟩, rfl, rfl⟩
      intro h
      simp only [Prod.mk.injEq] at h
      exact hne (by rw [h.1, h.2])
    · rintro ⟨n, j, h1, rfl, rfl⟩
      obtain ⟨h3, h4⟩ := (h2 (n, j)).mp h1
      refine ⟨⟨n, j, h3, rfl, rfl⟩, ?_⟩
      intro h
      simp only [Prod.mk.injEq] at h
      exact h4 (by rw [N.pkInj _ _ h.1, N.ekInj _ _ h.2])

theorem foldl_onMatchEvent_mm (H : IdFn) (N : Numbering) : ∀ (evs : List C07.Event) (g : Graph), MM N g →
    (∀ ev ∈ evs, g.polKey (evSel ev) = N.pk (evSel ev) ∧ g.epKey (evItem ev) = N.ek (evItem ev)) →
    MM N (evs.foldl (Graph.onMatchEvent H) g) ∧
    (evs.foldl (Graph.onMatchEvent H) g).polKeys = g.polKeys ∧
    (evs.foldl (Graph.onMatchEvent H) g).epKeys = g.epKeys ∧
    (evs.foldl (Graph.onMatchEvent H) g).allPolicies = g.allPolicies
  | [], g, hm, _ => ⟨hm, rfl, rfl, rfl⟩
  | ev :: t, g, hm, hk => by
    simp only [List.foldl_cons]
    obtain ⟨f1, f2, f3, _⟩ := onMatchEvent_fields H g ev
    obtain ⟨hp, he⟩ := hk ev (List.mem_cons_self ..)
    have := foldl_onMatchEvent_mm H N t (g.onMatchEvent H ev) (mm_onMatchEvent H N g ev hm hp he) (by
      intro e' he'
      unfold Graph.polKey Graph.epKey
      rw [f1, f2]
      exact hk e' (List.mem_cons_of_mem _ he'))
    exact ⟨this.1, this.2.1.trans f1, this.2.2.1.trans f2, this.2.2.2.trans f3⟩

/-- ARC invariant + registration of the known ids + the mirror -/
structure MInv (N : Numbering) (g : Graph) : Prop where
  arc : ArcInv g
  regP : ∀ n, (C07.lookup n g.lbl.sels).isSome = true → mget g.polKeys n = some (N.pk n)
  regE : ∀ i, (C07.lookup i g.lbl.items).isSome = true → mget g.epKeys i = some (N.ek i)
  mm : MM N g

theorem polKey_of {g : Graph} {n : Nat} {k : PolicyKey} (h : mget g.polKeys n = some k) : g.polKey n = k := by
  unfold Graph.polKey; rw [h]; rfl
theorem epKey_of {g : Graph} {n : Nat} {k : EpKey} (h : mget g.epKeys n = some k) : g.epKey n = k := by
  unfold Graph.epKey; rw [h]; rfl

/-- one label-index operation, given that the ids known AFTER it are registered too -/
theorem mInv_lblStep (H : IdFn) {N : Numbering} {g : Graph} (hi : MInv N g) (op : C07.Op)
    (hP : ∀ n, (C07.lookup n (op.apply g.lbl).1.sels).isSome = true → mget g.polKeys n = some (N.pk n))
    (hE : ∀ i, (C07.lookup i (op.apply g.lbl).1.items).isSome = true → mget g.epKeys i = some (N.ek i)) :
    MInv N (g.lblStep H (op.apply g.lbl)) ∧
    (g.lblStep H (op.apply g.lbl)).lbl = (op.apply g.lbl).1 ∧
    (g.lblStep H (op.apply g.lbl)).polKeys = g.polKeys ∧
    (g.lblStep H (op.apply g.lbl)).epKeys = g.epKeys ∧
    (g.lblStep H (op.apply g.lbl)).allPolicies = g.allPolicies := by
  have harc := arcInv_lblStep H hi.arc op
  have hlbl : (g.lblStep H (op.apply g.lbl)).lbl = (op.apply g.lbl).1 := by
    unfold Graph.lblStep
    exact (foldl_onMatchEvent H (C07.apply_replay hi.arc.idx op) { g with lbl := (op.apply g.lbl).1 } hi.arc.mirrors).2
  have hmm0 : MM N { g with lbl := (op.apply g.lbl).1 } := hi.mm
  have hids := apply_ids hi.arc.idx op
  have hf := foldl_onMatchEvent_mm H N (op.apply g.lbl).2 { g with lbl := (op.apply g.lbl).1 } hmm0 (by
    intro ev hev
    obtain ⟨hs, hit⟩ := hids ev hev
    constructor
    · apply polKey_of
      rcases hs with h | h
      · exact hi.regP _ h
      · exact hP _ h
    · apply epKey_of
      rcases hit with h | h
      · exact hi.regE _ h
      · exact hE _ h)
  refine ⟨⟨harc, ?_, ?_, hf.1⟩, hlbl, hf.2.1, hf.2.2.1, hf.2.2.2⟩
  · intro n hn
    rw [hlbl] at hn
    show mget (Graph.lblStep H g (op.apply g.lbl)).polKeys n = _
    unfold Graph.lblStep
    rw [hf.2.1]
    exact hP n hn
  · intro i hn
    rw [hlbl] at hn
    show mget (Graph.lblStep H g (op.apply g.lbl)).epKeys i = _
    unfold Graph.lblStep
    rw [hf.2.2.1]
    exact hE i hn


/-! ### the label index's tables are the datastore's -/

/-- the parsed selector of a source text (absent if it does not parse) -/
def selOf (t : Str) : Option C06.Node :=
  match C06.parse t with
  | .ok n => some n
  | .error _ => none

/-- the label-index item of an endpoint value -/
def itemOf (v : EpVal) : C07.Item := ⟨strLabels v.labels, v.profiles.map String.toList⟩

/-- SELECTORS PARSE: every policy selector an update carries is accepted by the parser -/
def selParses : Upd → Prop
  | .policy _ _ (some pv) => (selOf pv.sel).isSome = true
  | _ => True

structure LInv (N : Numbering) (g : Graph) (ds : DS) : Prop where
  m : MInv N g
  sels : ∀ n, C07.lookup n g.lbl.sels = (mget ds.pols n).bind (fun x => selOf x.2.sel)
  items : ∀ i, C07.lookup i g.lbl.items = if N.lc i then (mget ds.eps i).map (fun x => itemOf x.2.2) else none
  parents : ∀ pid : String, C07.lookup pid.toList g.lbl.parents = (mget ds.profLabels pid).map strLabels
  arcPols : ∀ n, mget g.allPolicies n = (mget ds.pols n).map (·.2)

theorem mInv_frame {N : Numbering} {g g' : Graph} (hi : MInv N g) (h1 : g'.res.matched = g.res.matched)
    (h2 : g'.polKeys = g.polKeys) (h3 : g'.epKeys = g.epKeys) (h5 : g'.polEps = g.polEps) (h6 : g'.lbl = g.lbl) :
    MInv N g' :=
  ⟨arcInv_frame hi.arc h5 h6, by rw [h6, h2]; exact hi.regP, by rw [h6, h3]; exact hi.regE,
    by intro p e; rw [h1, h5]; exact hi.mm p e⟩

theorem lInv_frame {N : Numbering} {g g' : Graph} {ds : DS} (hi : LInv N g ds) (h1 : g'.res.matched = g.res.matched)
    (h2 : g'.polKeys = g.polKeys) (h3 : g'.epKeys = g.epKeys) (h4 : g'.allPolicies = g.allPolicies)
    (h5 : g'.polEps = g.polEps) (h6 : g'.lbl = g.lbl) : LInv N g' ds :=
  ⟨mInv_frame hi.m h1 h2 h3 h5 h6, by rw [h6]; exact hi.sels, by rw [h6]; exact hi.items,
    by rw [h6]; exact hi.parents, by rw [h4]; exact hi.arcPols⟩

theorem lInv_keep {N : Numbering} {g g' : Graph} {ds : DS} (hi : LInv N g ds) (k : Keep g g') : LInv N g' ds :=
  lInv_frame hi (by rw [k.res]) k.polKeys k.epKeys k.allPolicies k.polEps k.lbl

theorem lInv_ds {N : Numbering} {g : Graph} {ds ds' : DS} (hi : LInv N g ds) (h1 : ds'.pols = ds.pols)
    (h2 : ds'.eps = ds.eps) (h3 : ds'.profLabels = ds.profLabels) : LInv N g ds' :=
  ⟨hi.m, by rw [h1]; exact hi.sels, by rw [h2]; exact hi.items, by rw [h3]; exact hi.parents,
    by rw [h1]; exact hi.arcPols⟩

theorem step_other_matched (r : C03.Resolver) (e : C03.Event)
    (h : match e with
      | .matchStarted _ _ => False
      | .matchStopped _ _ => False
      | _ => True) : (r.step e).matched = r.matched := by
  cases e with
  | endpoint k v => cases v <;> rfl
  | policy k v =>
    simp only [C03.Resolver.step]
    rw [(C03.applyPolicy_fields _ _ _).2.1]
    cases v <;> rfl
  | tier n v => simp [C03.Resolver.step]
  | status b => simp only [C03.Resolver.step]; split <;> rfl
  | matchStarted _ _ => cases h
  | matchStopped _ _ => cases h

theorem lInv_resStep {N : Numbering} {g : Graph} {ds : DS} (hi : LInv N g ds) (e : C03.Event)
    (h : match e with
      | .matchStarted _ _ => False
      | .matchStopped _ _ => False
      | _ => True) : LInv N (g.resStep e) ds :=
  lInv_frame hi (step_other_matched g.res e h) rfl rfl rfl rfl rfl

/-- `UpdateSelector`'s table effect, given that both selectors are parser outputs -/
theorem updateSelector_sels (st : C07.Idx) (id : Nat) (n : C06.Node) (hn : C06.WF n)
    (hold : ∀ old, C07.lookup id st.sels = some old → C06.WF old) (k : Nat) :
    C07.lookup k (C07.updateSelector st id n).1.sels = if k = id then some n else C07.lookup k st.sels := by
  unfold C07.updateSelector
  cases ho : C07.lookup id st.sels with
  | none =>
    simp only []
    show C07.lookup k (C07.insert id n st.sels) = _
    rw [C07.lookup_insert]
    by_cases hk : k = id
    · simp [hk]
    · have : ¬ id = k := fun e => hk e.symm
      simp [hk, this]
  | some old =>
    simp only []
    by_cases ht : old.text = n.text
    · simp only [ht, if_true]
      have : old = n := C06.text_injective (hold old ho) hn ht
      by_cases hk : k = id
      · subst hk; simp only [if_true]; rw [ho, this]
      · simp [hk]
    · simp only [ht, if_false]
      show C07.lookup k (C07.insert id n st.sels) = _
      rw [C07.lookup_insert]
      by_cases hk : k = id
      · simp [hk]
      · have : ¬ id = k := fun e => hk e.symm
        simp [hk, this]

theorem updateSelector_other (st : C07.Idx) (id : Nat) (n : C06.Node) :
    (C07.updateSelector st id n).1.items = st.items ∧ (C07.updateSelector st id n).1.parents = st.parents := by
  unfold C07.updateSelector
  cases C07.lookup id st.sels with
  | none => exact ⟨rfl, rfl⟩
  | some old =>
    simp only []
    split
    · exact ⟨rfl, rfl⟩
    · exact ⟨rfl, rfl⟩

theorem selOf_wf {t : Str} {n : C06.Node} (h : selOf t = some n) : C06.WF n := by
  unfold selOf at h
  cases hp : C06.parse t with
  | error e => rw [hp] at h; cases h
  | ok m =>
    rw [hp] at h
    simp only [Option.some.injEq] at h
    subst h
    exact C06.parse_wf hp

theorem lInv_step (H : IdFn) {N : Numbering} {g : Graph} {ds : DS} (hi : LInv N g ds) (u : Upd) (hu : N.updOk u)
    (hp : selParses u) : LInv N (g.step H u) (ds.apply u) := by
  cases u with
  | endpoint nid key isLocal v =>
    obtain ⟨hk, hl⟩ := hu
    subst hk; subst hl
    simp only [Graph.step]
    -- register the endpoint number
    have hi0 : LInv N { g with epKeys := C02.mset nid (N.ek nid) g.epKeys } ds := by
      refine ⟨⟨arcInv_frame hi.m.arc rfl rfl, hi.m.regP, ?_, hi.m.mm⟩, hi.sels, hi.items, hi.parents, hi.arcPols⟩
      intro i hsome
      show mget (C02.mset nid (N.ek nid) g.epKeys) i = _
      rw [mget_mset]
      by_cases hin : i = nid
      · simp [hin]
      · simp only [hin, if_false]; exact hi.m.regE i hsome
    have hreg : mget ({ g with epKeys := C02.mset nid (N.ek nid) g.epKeys } : Graph).epKeys nid = some (N.ek nid) := by
      show mget (C02.mset nid (N.ek nid) g.epKeys) nid = _
      rw [mget_mset]; simp
    refine lInv_keep ?_ (keep_idxEndpoint _ (N.ek nid) v)
    by_cases hl : N.lc nid = true
    · simp only [hl, if_true]
      unfold Graph.localEndpoint
      refine lInv_resStep ?_ _ trivial
      unfold Graph.arcEndpoint
      simp only []
      have kp := keep_arcProfStep H { g with epKeys := C02.mset nid (N.ek nid) g.epKeys }
        (.endpoint (epKeyStr (N.ek nid)) (v.map (·.profiles)))
      have hi1 := lInv_keep hi0 kp
      have hreg1 : mget (Graph.arcProfStep H { g with epKeys := C02.mset nid (N.ek nid) g.epKeys }
          (.endpoint (epKeyStr (N.ek nid)) (v.map (·.profiles)))).epKeys nid = some (N.ek nid) := by
        rw [kp.epKeys]; exact hreg
      cases v with
      | none =>
        simp only []
        rw [show C07.deleteLabels _ nid = C07.Op.apply _ (.deleteLabels nid) from rfl]
        obtain ⟨hm, hlbl, f1, f2, f3⟩ := mInv_lblStep H hi1.m (.deleteLabels nid)
          (fun n hn => hi1.m.regP n hn)
          (fun i hn => by
            have : (C07.lookup i (C07.erase nid _)).isSome = true := hn
            rw [C07.lookup_erase] at this
            by_cases hin : i = nid
            · simp [hin] at this
            · simp only [hin, if_false] at this; exact hi1.m.regE i this)
        refine ⟨hm, ?_, ?_, ?_, ?_⟩
        · intro n; rw [hlbl]; exact hi1.sels n
        · intro i
          rw [hlbl]
          show C07.lookup i (C07.erase nid _) = _
          rw [C07.lookup_erase]
          simp only [DS.apply, Option.map_none, setOrDel]
          rw [mget_mdel]
          by_cases hin : i = nid
          · subst hin; simp
          · simp only [hin, if_false]; exact hi1.items i
        · intro pid; rw [hlbl]; exact hi1.parents pid
        · intro n; rw [f3]; exact hi1.arcPols n
      | some e =>
        simp only []
        rw [show C07.updateLabels _ nid (strLabels e.labels) (e.profiles.map String.toList) =
          C07.Op.apply _ (.updateLabels nid (strLabels e.labels) (e.profiles.map String.toList)) from rfl]
        obtain ⟨hm, hlbl, f1, f2, f3⟩ := mInv_lblStep H hi1.m
          (.updateLabels nid (strLabels e.labels) (e.profiles.map String.toList))
          (fun n hn => hi1.m.regP n hn)
          (fun i hn => by
            have : (C07.lookup i (C07.insert nid _ _)).isSome = true := hn
            rw [C07.lookup_insert] at this
            by_cases hin : nid = i
            · subst hin; exact hreg1
            · simp only [hin, if_false] at this; exact hi1.m.regE i this)
        refine ⟨hm, ?_, ?_, ?_, ?_⟩
        · intro n; rw [hlbl]; exact hi1.sels n
        · intro i
          rw [hlbl]
          show C07.lookup i (C07.insert nid _ _) = _
          rw [C07.lookup_insert]
          simp only [DS.apply, Option.map_some, setOrDel]
          rw [mget_mset]
          by_cases hin : nid = i
          · subst hin; simp [hl, itemOf]
          · have : ¬ i = nid := fun x => hin x.symm
            simp only [hin, this, if_false]; exact hi1.items i
        · intro pid; rw [hlbl]; exact hi1.parents pid
        · intro n; rw [f3]; exact hi1.arcPols n
    · simp only [hl, if_false]
      refine ⟨hi0.m, hi0.sels, ?_, hi0.parents, hi0.arcPols⟩
      intro i
      simp only [DS.apply]
      rw [mget_setOrDel]
      by_cases hin : i = nid
      · subst hin
        have := hi0.items i
        simp only [hl, if_false] at this
        simp only [hl, if_false]
        exact this
      · simp only [hin, if_false]; exact hi0.items i
  | netset name v => exact lInv_ds (lInv_keep hi (keep_idxNetset g name v)) rfl rfl rfl
  | profLabels pid v =>
    simp only [Graph.step]
    unfold Graph.profLabels
    cases v with
    | none =>
      simp only []
      refine lInv_keep ?_ (keep_idxOp _ _)
      rw [show C07.deleteParentLabels _ pid.toList = C07.Op.apply _ (.deleteParentLabels pid.toList) from rfl]
      obtain ⟨hm, hlbl, f1, f2, f3⟩ := mInv_lblStep H hi.m (.deleteParentLabels pid.toList)
        (fun n hn => hi.m.regP n hn) (fun i hn => hi.m.regE i hn)
      refine ⟨hm, ?_, ?_, ?_, ?_⟩
      · intro n; rw [hlbl]; exact hi.sels n
      · intro i; rw [hlbl]; exact hi.items i
      · intro q
        rw [hlbl]
        show C07.lookup q.toList (C07.erase pid.toList _) = _
        rw [C07.lookup_erase]
        simp only [DS.apply, setOrDel]
        rw [mget_mdel]
        by_cases hq : q = pid
        · subst hq; simp
        · have : ¬ q.toList = pid.toList := fun e => hq (String.toList_inj.1 e)
          simp only [hq, this, if_false]; exact hi.parents q
      · intro n; rw [f3]; exact hi.arcPols n
    | some ls =>
      simp only []
      refine lInv_keep ?_ (keep_idxOp _ _)
      rw [show C07.updateParentLabels _ pid.toList (strLabels ls) =
        C07.Op.apply _ (.updateParentLabels pid.toList (strLabels ls)) from rfl]
      obtain ⟨hm, hlbl, f1, f2, f3⟩ := mInv_lblStep H hi.m (.updateParentLabels pid.toList (strLabels ls))
        (fun n hn => hi.m.regP n hn) (fun i hn => hi.m.regE i hn)
      refine ⟨hm, ?_, ?_, ?_, ?_⟩
      · intro n; rw [hlbl]; exact hi.sels n
      · intro i; rw [hlbl]; exact hi.items i
      · intro q
        rw [hlbl]
        show C07.lookup q.toList (C07.insert pid.toList _ _) = _
        rw [C07.lookup_insert]
        simp only [DS.apply, setOrDel]
        rw [mget_mset]
        by_cases hq : q = pid
        · subst hq; simp
        · have h1 : ¬ pid.toList = q.toList := fun e => hq (String.toList_inj.1 e).symm
          simp only [hq, h1, if_false]; exact hi.parents q
      · intro n; rw [f3]; exact hi.arcPols n
  | profRules pid v => exact lInv_ds (lInv_keep hi (keep_arcProfStep H g _)) rfl rfl rfl
  | tier name v => exact lInv_ds (lInv_resStep hi (.tier name v) trivial) rfl rfl rfl
  | policy nid key v =>
    have hk : key = N.pk nid := hu
    subst hk
    simp only [Graph.step]
    refine lInv_resStep ?_ _ trivial
    have hi0 : LInv N { g with polKeys := C02.mset nid (N.pk nid) g.polKeys } ds := by
      refine ⟨⟨arcInv_frame hi.m.arc rfl rfl, ?_, hi.m.regE, hi.m.mm⟩, hi.sels, hi.items, hi.parents, hi.arcPols⟩
      intro i hsome
      show mget (C02.mset nid (N.pk nid) g.polKeys) i = _
      rw [mget_mset]
      by_cases hin : i = nid
      · simp [hin]
      · simp only [hin, if_false]; exact hi.m.regP i hsome
    have hreg : mget ({ g with polKeys := C02.mset nid (N.pk nid) g.polKeys } : Graph).polKeys nid = some (N.pk nid) := by
      show mget (C02.mset nid (N.pk nid) g.polKeys) nid = _
      rw [mget_mset]; simp
    generalize ({ g with polKeys := C02.mset nid (N.pk nid) g.polKeys } : Graph) = g0 at hi0 hreg ⊢
    unfold Graph.arcPolicy
    cases v with
    | none =>
      simp only []
      rw [show C07.deleteSelector _ nid = C07.Op.apply _ (.deleteSelector nid) from rfl]
      obtain ⟨hm, hlbl, f1, f2, f3⟩ := mInv_lblStep H
        (g := { g0 with allPolicies := C02.mdel nid g0.allPolicies })
        (mInv_frame hi0.m rfl rfl rfl rfl rfl) (.deleteSelector nid)
        (fun n hn => by
          have : (C07.lookup n (C07.erase nid _)).isSome = true := hn
          rw [C07.lookup_erase] at this
          by_cases hin : n = nid
          · simp [hin] at this
          · simp only [hin, if_false] at this; exact hi0.m.regP n this)
        (fun i hn => hi0.m.regE i hn)
      refine ⟨hm, ?_, ?_, ?_, ?_⟩
      · intro n
        rw [hlbl]
        show C07.lookup n (C07.erase nid _) = _
        rw [C07.lookup_erase]
        simp only [DS.apply, Option.map_none, setOrDel]
        rw [mget_mdel]
        by_cases hin : n = nid
        · simp [hin]
        · simp only [hin, if_false]; exact hi0.sels n
      · intro i; rw [hlbl]; exact hi0.items i
      · intro q; rw [hlbl]; exact hi0.parents q
      · intro n
        rw [f3]
        show mget (C02.mdel nid g0.allPolicies) n = _
        simp only [DS.apply, Option.map_none, setOrDel]
        rw [mget_mdel, mget_mdel]
        by_cases hin : n = nid
        · simp [hin]
        · simp only [hin, if_false]; exact hi0.arcPols n
    | some pv =>
      simp only []
      have hsel : (selOf pv.sel).isSome = true := hp
      by_cases hsame : mget g0.allPolicies nid = some pv
      · -- reflect.DeepEqual: nothing happens; the datastore entry is replaced by an equal one
        simp only [hsame, if_true]
        have hold := hi0.arcPols nid
        rw [hsame] at hold
        cases hd : mget ds.pols nid with
        | none => rw [hd] at hold; cases hold
        | some x =>
          rw [hd] at hold
          simp only [Option.map_some, Option.some.injEq] at hold
          refine ⟨hi0.m, ?_, hi0.items, hi0.parents, ?_⟩
          · intro n
            simp only [DS.apply, Option.map_some, setOrDel]
            rw [mget_mset]
            by_cases hin : n = nid
            · subst hin
              simp only [if_true, Option.bind_some]
              have := hi0.sels n
              rw [hd] at this
              simp only [Option.bind_some] at this
              rw [this, ← hold]
            · simp only [hin, if_false]; exact hi0.sels n
          · intro n
            simp only [DS.apply, Option.map_some, setOrDel]
            rw [mget_mset]
            by_cases hin : n = nid
            · subst hin; simp only [if_true, Option.map_some]; exact hsame
            · simp only [hin, if_false]; exact hi0.arcPols n
      · simp only [hsame, if_false]
        unfold Graph.arcPolicyChanged
        cases hsl : selOf pv.sel with
        | none => rw [hsl] at hsel; cases hsel
        | some sel =>
          have hparse : C06.parse pv.sel = .ok sel := by
            unfold selOf at hsl
            cases hq : C06.parse pv.sel with
            | error e => rw [hq] at hsl; cases hsl
            | ok m => rw [hq] at hsl; simp only [Option.some.injEq] at hsl; rw [hsl]
          simp only [hparse]
          rw [show C07.updateSelector _ nid sel = C07.Op.apply _ (.updateSelector nid sel) from rfl]
          have hwf : C06.WF sel := C06.parse_wf hparse
          have hiA : MInv N { g0 with allPolicies := C02.mset nid pv g0.allPolicies } :=
            mInv_frame hi0.m rfl rfl rfl rfl rfl
          have hold : ∀ old, C07.lookup nid g0.lbl.sels = some old → C06.WF old := by
            intro old ho
            rw [hi0.sels nid] at ho
            cases hd : mget ds.pols nid with
            | none => rw [hd] at ho; cases ho
            | some x => rw [hd] at ho; exact selOf_wf ho
          obtain ⟨hm, hlbl, f1, f2, f3⟩ := mInv_lblStep H hiA (.updateSelector nid sel)
            (fun n hn => by
              have : (C07.lookup n (C07.updateSelector g0.lbl nid sel).1.sels).isSome = true := hn
              rw [updateSelector_sels g0.lbl nid sel hwf hold] at this
              by_cases hin : n = nid
              · subst hin; exact hreg
              · simp only [hin, if_false] at this; exact hi0.m.regP n this)
            (fun i hn => by
              have : (C07.lookup i (C07.updateSelector g0.lbl nid sel).1.items).isSome = true := hn
              rw [(updateSelector_other g0.lbl nid sel).1] at this
              exact hi0.m.regE i this)
          have hlbl' : (Graph.lblStep H { g0 with allPolicies := C02.mset nid pv g0.allPolicies }
              (C07.updateSelector g0.lbl nid sel)).lbl = (C07.updateSelector g0.lbl nid sel).1 := hlbl
          have f3' : (Graph.lblStep H { g0 with allPolicies := C02.mset nid pv g0.allPolicies }
              (C07.updateSelector g0.lbl nid sel)).allPolicies = C02.mset nid pv g0.allPolicies := f3
          have hfin : LInv N (Graph.lblStep H { g0 with allPolicies := C02.mset nid pv g0.allPolicies }
              (C07.updateSelector g0.lbl nid sel)) (ds.apply (.policy nid (N.pk nid) (some pv))) := by
            refine ⟨hm, ?_, ?_, ?_, ?_⟩
            · intro n
              rw [hlbl']
              show C07.lookup n (C07.updateSelector g0.lbl nid sel).1.sels = _
              rw [updateSelector_sels g0.lbl nid sel hwf hold]
              simp only [DS.apply, Option.map_some, setOrDel]
              rw [mget_mset]
              by_cases hin : n = nid
              · simp [hin, hsl]
              · simp only [hin, if_false]; exact hi0.sels n
            · intro i
              rw [hlbl']
              show C07.lookup i (C07.updateSelector g0.lbl nid sel).1.items = _
              rw [(updateSelector_other g0.lbl nid sel).1]
              exact hi0.items i
            · intro q
              rw [hlbl']
              show C07.lookup q.toList (C07.updateSelector g0.lbl nid sel).1.parents = _
              rw [(updateSelector_other g0.lbl nid sel).2]
              exact hi0.parents q
            · intro n
              rw [f3']
              show mget (C02.mset nid pv g0.allPolicies) n = _
              simp only [DS.apply, Option.map_some, setOrDel]
              rw [mget_mset, mget_mset]
              by_cases hin : n = nid
              · simp [hin]
              · simp only [hin, if_false]; exact hi0.arcPols n
          split
          · exact lInv_keep hfin (keep_sendPolicyUpdate H _ _)
          · exact hfin
  | passthru c key v => exact lInv_ds (lInv_keep hi (keep_emit g _)) rfl rfl rfl
  | other => exact hi


theorem lInv_inSync {N : Numbering} {g : Graph} {ds : DS} (hi : LInv N g ds) : LInv N g.inSync ds :=
  lInv_frame hi (step_other_matched g.res (.status true) trivial) rfl rfl rfl rfl rfl

theorem lInv_flush {N : Numbering} {g : Graph} {ds : DS} (hi : LInv N g ds) : LInv N g.flush.1 ds := by
  rw [flush_eq]
  have h1 : LInv N g.flushResolver ds := by
    cases hf : g.res.flush with
    | none =>
      have : g.flushResolver = { g with panicked := true } := by unfold Graph.flushResolver; rw [hf]
      rw [this]
      exact lInv_frame hi rfl rfl rfl rfl rfl rfl
    | some x =>
      obtain ⟨r, calls⟩ := x
      have : g.flushResolver = ({ g with res := r } : Graph).emit calls := by unfold Graph.flushResolver; rw [hf]
      rw [this]
      refine lInv_keep (lInv_frame (g' := { g with res := r }) hi ?_ rfl rfl rfl rfl rfl) (keep_emit _ _)
      exact (C03.flush_fields hf).2.1
  exact lInv_frame h1 rfl rfl rfl rfl rfl rfl

/-- the hypothesis on a history: consistently numbered and every policy selector parses -/
def Numbering.histOk (N : Numbering) (h : List HStep) : Prop :=
  ∀ st ∈ h, match st with
    | .upd u => N.updOk u ∧ selParses u
    | _ => True

theorem lInv_run (H : IdFn) {N : Numbering} : ∀ (h : List HStep) {g : Graph} {ds : DS},
    LInv N g ds → N.histOk h →
    LInv N (run H g h).1 (h.foldl (fun ds st => match st with
      | .upd u => ds.apply u
      | _ => ds) ds)
  | [], _, _, hi, _ => hi
  | .upd u :: t, g, ds, hi, hin => by
    simp only [run, List.foldl_cons]
    have := hin (.upd u) (List.mem_cons_self ..)
    exact lInv_run H t (lInv_step H hi u this.1 this.2) (fun st hst => hin st (List.mem_cons_of_mem _ hst))
  | .inSync :: t, g, ds, hi, hin => by
    simp only [run, List.foldl_cons]
    exact lInv_run H t (lInv_inSync hi) (fun st hst => hin st (List.mem_cons_of_mem _ hst))
  | .flush :: t, g, ds, hi, hin => by
    simp only [run, List.foldl_cons]
    exact lInv_run H t (lInv_flush hi) (fun st hst => hin st (List.mem_cons_of_mem _ hst))

theorem lInv_new (N : Numbering) (s : Bool) : LInv N (Graph.new s) {} := by
  refine ⟨⟨arcInv_new s, ?_, ?_, ?_⟩, ?_, ?_, ?_, ?_⟩
  · intro n h; simp [Graph.new, C07.lookup] at h
  · intro n h; simp [Graph.new, C07.lookup] at h
  · intro p e; simp [Graph.new]
  · intro n; simp [Graph.new, C07.lookup, mget]
  · intro n; simp [Graph.new, C07.lookup, mget]
  · intro n; simp [Graph.new, C07.lookup, mget]
  · intro n; simp [Graph.new, mget]

/-! ### effective labels: label index = specification -/

theorem lookup_strLabels (ls : C04.Labels) (k : Str) : C07.lookup k (strLabels ls) = labelsFn ls k := by
  induction ls with
  | nil => rfl
  | cons kv t ih =>
    simp only [strLabels, List.map_cons, C07.lookup, labelsFn, List.find?_cons]
    by_cases hk : kv.1.toList = k
    · simp [hk]
    · simp only [hk, if_false, decide_false]
      exact ih

theorem labelsFn_append (a b : C04.Labels) (k : Str) :
    labelsFn (a ++ b) k = match labelsFn a k with
      | some v => some v
      | none => labelsFn b k := by
  unfold labelsFn
  rw [List.find?_append]
  cases List.find? (fun kv => decide (kv.1.toList = k)) a <;> rfl

theorem firstParent_ds {st : C07.Idx} {ds : DS}
    (hp : ∀ pid : String, C07.lookup pid.toList st.parents = (mget ds.profLabels pid).map strLabels) (k : Str) :
    ∀ ps : List String, C07.firstParent st k (ps.map String.toList) =
      labelsFn (ps.flatMap (fun p => (mget ds.profLabels p).getD [])) k
  | [] => rfl
  | p :: rest => by
    simp only [List.map_cons, C07.firstParent, List.flatMap_cons]
    rw [labelsFn_append, firstParent_ds hp k rest]
    have : C07.parentLabels st p.toList = strLabels ((mget ds.profLabels p).getD []) := by
      unfold C07.parentLabels
      rw [hp p]
      cases mget ds.profLabels p <;> rfl
    rw [this, lookup_strLabels]
    cases labelsFn ((mget ds.profLabels p).getD []) k <;> rfl

theorem effLabels_ds {st : C07.Idx} {ds : DS}
    (hp : ∀ pid : String, C07.lookup pid.toList st.parents = (mget ds.profLabels pid).map strLabels) (v : EpVal) :
    C07.effLabels st (itemOf v) = labelsFn (ds.effLabels v.labels v.profiles) := by
  funext k
  unfold C07.effLabels DS.effLabels itemOf
  simp only []
  rw [labelsFn_append, lookup_strLabels, firstParent_ds hp k v.profiles]
  cases labelsFn v.labels k <;> rfl

/-! ### the datastore's lists have unique keys -/

structure DSNodup (ds : DS) : Prop where
  eps : (mkeys ds.eps).Nodup
  pols : (mkeys ds.pols).Nodup

theorem mkeys_setOrDel_nodup {κ β : Type} [DecidableEq κ] {m : List (κ × β)} (k : κ) (v : Option β)
    (h : (mkeys m).Nodup) : (mkeys (setOrDel k v m)).Nodup := by
  cases v with
  | none => exact mkeys_mdel_nodup h
  | some x => exact mkeys_mset_nodup h

theorem dsNodup_apply {ds : DS} (h : DSNodup ds) (u : Upd) : DSNodup (ds.apply u) := by
  cases u with
  | endpoint nid key l v => exact ⟨mkeys_setOrDel_nodup _ _ h.eps, h.pols⟩
  | policy nid key v => exact ⟨h.eps, mkeys_setOrDel_nodup _ _ h.pols⟩
  | _ => exact ⟨h.eps, h.pols⟩

theorem dsNodup_lastState (h : List HStep) : ∀ ds, DSNodup ds →
    DSNodup (h.foldl (fun ds st => match st with
      | .upd u => ds.apply u
      | _ => ds) ds) := by
  induction h with
  | nil => intro ds hd; exact hd
  | cons st t ih =>
    intro ds hd
    simp only [List.foldl_cons]
    cases st with
    | upd u => exact ih _ (dsNodup_apply hd u)
    | inSync => exact ih _ hd
    | flush => exact ih _ hd

theorem mget_of_mem_nodup {κ β : Type} [DecidableEq κ] : ∀ {m : List (κ × β)}, (mkeys m).Nodup → ∀ {k : κ} {v : β},
    (k, v) ∈ m → mget m k = some v
  | [], _, _, _, h => by cases h
  | (k', v') :: t, hn, k, v, h => by
    simp only [mkeys, List.map_cons, List.nodup_cons] at hn
    simp only [mget]
    rcases List.mem_cons.mp h with h | h
    · simp only [Prod.mk.injEq] at h
      simp [h.1, h.2]
    · have hne : ¬ k' = k := by
        intro e
        subst e
        exact hn.1 (List.mem_map.mpr ⟨(k', v), h, rfl⟩)
      simp only [hne, if_false]
      exact mget_of_mem_nodup hn.2 h

/-- THE RESOLVER'S MATCH RELATION IS THE SPECIFICATION'S: `(policy, endpoint)` is in the resolver's
`matched` iff the policy's selector (source text) matches the local endpoint's effective labels in the
datastore. -/
theorem matched_eq_ds {N : Numbering} {g : Graph} {ds : DS} (hi : LInv N g ds) (ht : TabInv N g ds) (hn : DSNodup ds)
    (p : PolicyKey) (e : EpKey) : (p, e) ∈ g.res.matched ↔ (p, e) ∈ ds.matched := by
  rw [hi.m.mm p e]
  unfold DS.matched DS.localEps
  simp only [List.mem_flatMap, List.mem_filterMap]
  constructor
  · rintro ⟨n, i, hq, rfl, rfl⟩
    have hq' := (hi.m.arc.mirrors (n, i)).mp hq
    obtain ⟨sel, it, h1, h2, h3⟩ := (hi.m.arc.idx.sound (n, i)).mp hq'
    simp only [] at h1 h2
    rw [hi.sels n] at h1
    rw [hi.items i] at h2
    cases hx : mget ds.pols n with
    | none => rw [hx] at h1; cases h1
    | some x =>
      rw [hx] at h1
      simp only [Option.bind_some] at h1
      by_cases hl : N.lc i = true
      · simp only [hl, if_true] at h2
        cases hy : mget ds.eps i with
        | none => rw [hy] at h2; cases h2
        | some y =>
          rw [hy] at h2
          simp only [Option.map_some, Option.some.injEq] at h2
          have hxm := mget_mem hx
          have hym := mget_mem hy
          have cx := ht.polsConf _ hxm
          have cy := ht.epsConf _ hym
          simp only [] at cx cy
          refine ⟨(n, x), hxm, (y.1, y.2.2), ⟨(i, y), hym, ?_⟩, ?_⟩
          · simp [cy.2, hl]
          · have hm : matchSrc x.2.sel (ds.effLabels y.2.2.labels y.2.2.profiles) = true := by
              unfold matchSrc
              unfold selOf at h1
              cases hp : C06.parse x.2.sel with
              | error err => rw [hp] at h1; cases h1
              | ok m =>
                rw [hp] at h1
                simp only [Option.some.injEq] at h1
                simp only []
                rw [← effLabels_ds hi.parents y.2.2, h1, h2]
                exact h3
            simp only [hm, if_true, Option.some.injEq, Prod.mk.injEq]
            exact ⟨cx, cy.1⟩
      · simp only [hl, if_false] at h2
        cases h2
  · rintro ⟨⟨n, x⟩, hxm, ⟨k, v⟩, ⟨⟨i, y⟩, hym, hloc⟩, hsome⟩
    have cx := ht.polsConf _ hxm
    have cy := ht.epsConf _ hym
    simp only [] at cx cy hloc hsome
    by_cases hl : y.2.1 = true
    · simp only [hl, if_true, Option.some.injEq, Prod.mk.injEq] at hloc
      obtain ⟨rfl, rfl⟩ := hloc
      by_cases hm : matchSrc x.2.sel (ds.effLabels y.2.2.labels y.2.2.profiles) = true
      · simp only [hm, if_true, Option.some.injEq, Prod.mk.injEq] at hsome
        obtain ⟨rfl, rfl⟩ := hsome
        refine ⟨n, i, ?_, cx, cy.1⟩
        apply (hi.m.arc.mirrors (n, i)).mpr
        apply (hi.m.arc.idx.sound (n, i)).mpr
        have hx := mget_of_mem_nodup hn.pols hxm
        have hy := mget_of_mem_nodup hn.eps hym
        unfold matchSrc at hm
        cases hp : C06.parse x.2.sel with
        | error err => rw [hp] at hm; cases hm
        | ok m =>
          rw [hp] at hm
          simp only [] at hm
          refine ⟨m, itemOf y.2.2, ?_, ?_, ?_⟩
          · show C07.lookup n g.lbl.sels = some m
            rw [hi.sels n, hx]
            simp only [Option.bind_some, selOf, hp]
          · show C07.lookup i g.lbl.items = some (itemOf y.2.2)
            rw [hi.items i, hy]
            have : N.lc i = true := by rw [← cy.2]; exact hl
            simp [this]
          · rw [effLabels_ds hi.parents y.2.2]; exact hm
      · simp only [hm, if_false] at hsome
        cases hsome
    · simp only [hl, if_false] at hloc
      cases hloc

/-- RESOLVER MATCH RELATION = SPECIFICATION, for every consistently numbered history whose policy
selectors all parse. -/
theorem resolver_matched_eq_datastore (H : IdFn) (s : Bool) (h : List HStep) (N : Numbering) (hN : N.histOk h)
    (p : PolicyKey) (e : EpKey) :
    (p, e) ∈ (run H (Graph.new s) (h ++ [.flush])).1.res.matched ↔ (p, e) ∈ (lastState h).matched := by
  have hi := lInv_flush (lInv_run H h (lInv_new N s) hN)
  have ht := tabInv_flush (tabInv_run H h (tabInv_new N s) (by
    intro st hst
    have := hN st hst
    cases st with
    | upd u => exact this.1
    | inSync => trivial
    | flush => trivial))
  rw [← run_snoc_flush] at hi ht
  exact matched_eq_ds hi ht (dsNodup_lastState h {} ⟨by simp [mkeys], by simp [mkeys]⟩) p e

end CalicoVerif.C01
