import CalicoVerif.Model.C36
/-!
C36 helper lemmas, part 1: the CIDR arithmetic of felix/ip (leading zeros, masks,
`NthBit`, `Contains`, `CommonPrefix`) characterised bit by bit.  Everything the
trie proofs need about prefixes is in the section "interface" at the end.
-/
namespace CalicoVerif.C36

/-- The first `k` bits of the `W`-bit number `x`. -/
def top (W x k : Nat) : Nat := x / 2 ^ (W - k)

theorem bitLen_le_iff (x k : Nat) : bitLen x ≤ k ↔ x < 2 ^ k := by
  unfold bitLen
  by_cases h : x = 0
  · subst h; simp [Nat.two_pow_pos]
  · simp only [h, if_false]
    rw [← Nat.log2_lt h]; omega

theorem bitLen_le_of_lt {W x : Nat} (h : x < 2 ^ W) : bitLen x ≤ W := (bitLen_le_iff x W).2 h

theorem xor_eq_zero {a b : Nat} (h : a ^^^ b = 0) : a = b := by
  apply Nat.eq_of_testBit_eq
  intro i
  have := congrArg (fun n => Nat.testBit n i) h
  simp only [Nat.testBit_xor, Nat.zero_testBit] at this
  revert this
  cases a.testBit i <;> cases b.testBit i <;> simp

theorem xor_lt_two_pow {W x y : Nat} (hx : x < 2 ^ W) (hy : y < 2 ^ W) : x ^^^ y < 2 ^ W :=
  Nat.xor_lt_two_pow hx hy

/-- `k ≤ LeadingZeros(x ^ y)` iff `x` and `y` agree on their first `k` bits. -/
theorem le_clz_xor_iff {W x y k : Nat} (hx : x < 2 ^ W) (hy : y < 2 ^ W) (hk : k ≤ W) :
    k ≤ clz W (x ^^^ y) ↔ top W x k = top W y k := by
  have hz := xor_lt_two_pow hx hy
  have hb := bitLen_le_of_lt hz
  unfold clz top
  have h1 : k ≤ W - bitLen (x ^^^ y) ↔ bitLen (x ^^^ y) ≤ W - k := by omega
  rw [h1, bitLen_le_iff]
  constructor
  · intro h
    have h0 : (x ^^^ y) >>> (W - k) = 0 := by
      rw [Nat.shiftRight_eq_div_pow]; exact Nat.div_eq_of_lt h
    rw [Nat.shiftRight_xor_distrib] at h0
    have := xor_eq_zero h0
    simpa [Nat.shiftRight_eq_div_pow] using this
  · intro h
    have h0 : (x ^^^ y) >>> (W - k) = 0 := by
      rw [Nat.shiftRight_xor_distrib, Nat.shiftRight_eq_div_pow, Nat.shiftRight_eq_div_pow, h, Nat.xor_self]
    rw [Nat.shiftRight_eq_div_pow] at h0
    rcases Nat.div_eq_zero_iff.1 h0 with h2 | h2
    · exact absurd h2 (Nat.ne_of_gt (Nat.two_pow_pos _))
    · exact h2

theorem top_succ (W x k : Nat) (hk : k < W) : top W x (k + 1) = 2 * top W x k + nthBit W x (k + 1) := by
  unfold top nthBit
  have h1 : W - k = (W - (k + 1)) + 1 := by omega
  simp only [show k + 1 ≤ W from hk, if_true, Nat.shiftRight_eq_div_pow]
  rw [h1, Nat.pow_succ, ← Nat.div_div_eq_div_mul]
  omega

theorem nthBit_lt_two (W x n : Nat) : nthBit W x n < 2 := by
  unfold nthBit; split <;> omega

theorem nthBit_eq_zero_or_one (W x n : Nat) : nthBit W x n = 0 ∨ nthBit W x n = 1 := by
  have := nthBit_lt_two W x n; omega

theorem top_zero_eq (W x y : Nat) (hx : x < 2 ^ W) (hy : y < 2 ^ W) : top W x 0 = top W y 0 := by
  unfold top; simp [Nat.div_eq_of_lt hx, Nat.div_eq_of_lt hy]

/-- Agreement of the first `k` bits, bit by bit. -/
theorem top_eq_iff_bits (W x y : Nat) (hx : x < 2 ^ W) (hy : y < 2 ^ W) : ∀ k, k ≤ W →
    (top W x k = top W y k ↔ ∀ j, j < k → nthBit W x (j + 1) = nthBit W y (j + 1)) := by
  intro k
  induction k with
  | zero =>
    intro _
    simp [top_zero_eq W x y hx hy]
  | succ k ih =>
    intro hk
    have ih := ih (by omega)
    rw [top_succ W x k (by omega), top_succ W y k (by omega)]
    have bx := nthBit_lt_two W x (k + 1)
    have bY := nthBit_lt_two W y (k + 1)
    constructor
    · intro h j hj
      have h1 : top W x k = top W y k := by omega
      have h2 : nthBit W x (k + 1) = nthBit W y (k + 1) := by omega
      by_cases hjk : j = k
      · subst hjk; exact h2
      · exact ih.1 h1 j (by omega)
    · intro h
      have h1 := ih.2 (fun j hj => h j (by omega))
      have h2 := h k (by omega)
      omega

theorem mask_and (W l a : Nat) (ha : a < 2 ^ W) : mask W l &&& a = top W a l * 2 ^ (W - l) := by
  apply Nat.eq_of_testBit_eq
  intro i
  unfold mask top
  simp only [Nat.testBit_and, Nat.testBit_mod_two_pow, Nat.testBit_shiftLeft, Nat.testBit_two_pow_sub_one,
    Nat.testBit_mul_two_pow, Nat.testBit_div_two_pow]
  by_cases h1 : i < W
  · by_cases h2 : W - l ≤ i
    · have : i - (W - l) < W := by omega
      have h3 : i - (W - l) + (W - l) = i := by omega
      simp [h1, h2, this, h3]
    · simp [h2]
  · have : a.testBit i = false := Nat.testBit_lt_two_pow (Nat.lt_of_lt_of_le ha (Nat.pow_le_pow_right (by decide) (by omega)))
    simp [h1, this]
    intro _
    have h3 : i - (W - l) + (W - l) = i := by omega
    rw [h3]; exact this

/-! ### WF prefixes -/

theorem WF.addr_eq {W : Nat} {p : Pfx} (h : p.WF W) : p.addr = top W p.addr p.len * 2 ^ (W - p.len) := by
  unfold top
  have := h.2.2
  have h2 := Nat.div_add_mod p.addr (2 ^ (W - p.len))
  rw [this] at h2
  rw [Nat.mul_comm]; omega

/-! ### interface used by the trie proofs -/

/-- Bit `j` (0-based from the most significant) of a prefix's address. -/
abbrev Pfx.bit (W : Nat) (p : Pfx) (j : Nat) : Nat := nthBit W p.addr (j + 1)

theorem covers_iff {W : Nat} {p q : Pfx} (hp : p.WF W) (hq : q.WF W) :
    p.covers W q = true ↔ p.len ≤ q.len ∧ ∀ j, j < p.len → q.bit W j = p.bit W j := by
  unfold Pfx.covers
  simp only [Bool.and_eq_true, decide_eq_true_eq]
  have := top_eq_iff_bits W q.addr p.addr hq.2.1 hp.2.1 p.len hp.1
  unfold top at this
  rw [this]

theorem eq_of_bits {W : Nat} {p q : Pfx} (hp : p.WF W) (hq : q.WF W) (hl : p.len = q.len)
    (hb : ∀ j, j < p.len → p.bit W j = q.bit W j) : p = q := by
  have h1 := (top_eq_iff_bits W p.addr q.addr hp.2.1 hq.2.1 p.len hp.1).2 hb
  have h2 := WF.addr_eq hp
  have h3 := WF.addr_eq hq
  rw [← hl] at h3
  rw [h1, ← h3] at h2
  cases p with
  | mk pa pl =>
    cases q with
    | mk qa ql =>
      simp only at h2 hl
      subst h2; subst hl; rfl

theorem contains_iff {W : Nat} {c : Pfx} {a : Nat} (hc : c.WF W) (ha : a < 2 ^ W) :
    c.contains W a = true ↔ ∀ j, j < c.len → nthBit W a (j + 1) = c.bit W j := by
  unfold Pfx.contains
  simp only [decide_eq_true_eq]
  rw [le_clz_xor_iff hc.2.1 ha hc.1, top_eq_iff_bits W _ _ hc.2.1 ha _ hc.1]
  constructor <;> intro h j hj <;> exact (h j hj).symm

theorem commonPrefix_len_le {W : Nat} (a b : Pfx) :
    (commonPrefix W a b).len ≤ a.len ∧ (commonPrefix W a b).len ≤ b.len := by
  unfold commonPrefix; simp only; omega

theorem commonPrefix_spec {W : Nat} {a b : Pfx} (ha : a.WF W) (hb : b.WF W) :
    (commonPrefix W a b).WF W ∧
    (∀ j, j < (commonPrefix W a b).len → (commonPrefix W a b).bit W j = a.bit W j ∧ a.bit W j = b.bit W j) ∧
    ((commonPrefix W a b).len < a.len → (commonPrefix W a b).len < b.len →
      a.bit W (commonPrefix W a b).len ≠ b.bit W (commonPrefix W a b).len) := by
  have hlen : (commonPrefix W a b).len = min (clz W (a.addr ^^^ b.addr)) (min b.len a.len) := rfl
  have haddr : (commonPrefix W a b).addr = mask W (commonPrefix W a b).len &&& a.addr := rfl
  generalize hl : (commonPrefix W a b).len = l at *
  have hlW : l ≤ W := by have := ha.1; omega
  rw [mask_and W l a.addr ha.2.1] at haddr
  have hpow : 0 < 2 ^ (W - l) := Nat.two_pow_pos _
  have htop_c : top W (commonPrefix W a b).addr l = top W a.addr l := by
    rw [haddr]; unfold top; rw [Nat.mul_div_cancel _ hpow]
  have hlclz : l ≤ clz W (a.addr ^^^ b.addr) := by omega
  have hab : top W a.addr l = top W b.addr l := (le_clz_xor_iff ha.2.1 hb.2.1 hlW).1 hlclz
  have hclt : (commonPrefix W a b).addr < 2 ^ W := by
    rw [haddr]; unfold top
    calc a.addr / 2 ^ (W - l) * 2 ^ (W - l) ≤ a.addr := Nat.div_mul_le_self _ _
      _ < 2 ^ W := ha.2.1
  refine ⟨⟨by omega, hclt, ?_⟩, ?_, ?_⟩
  · rw [hl, haddr]; exact Nat.mul_mod_left _ _
  · intro j hj
    have h1 := (top_eq_iff_bits W _ _ hclt ha.2.1 l hlW).1 htop_c j hj
    have h2 := (top_eq_iff_bits W _ _ ha.2.1 hb.2.1 l hlW).1 hab j hj
    exact ⟨h1, h2⟩
  · intro h1 h2
    have h3 : l = clz W (a.addr ^^^ b.addr) := by omega
    have hl1 : l + 1 ≤ W := by have := ha.1; omega
    have h4 : ¬ (l + 1 ≤ clz W (a.addr ^^^ b.addr)) := by omega
    rw [le_clz_xor_iff ha.2.1 hb.2.1 hl1, top_succ W _ l (by omega), top_succ W _ l (by omega), hab] at h4
    intro h5
    apply h4
    show 2 * top W b.addr l + nthBit W a.addr (l + 1) = 2 * top W b.addr l + nthBit W b.addr (l + 1)
    unfold Pfx.bit at h5
    omega

end CalicoVerif.C36
