import CalicoVerif.Proofs.C24Srv
/-!
C24 — a sender that is not disconnected reaches the end of the breadcrumb chain and holds nothing back
(given MaxMessageSize > 0 and MinBatchingAgeThreshold > 0, which `Config.ApplyDefaults` enforces).
-/
namespace CalicoVerif.C24

/-- Progress of the inner loop when a next crumb exists. -/
def InnerAdv (cfg : SrvCfg) (pos : Nat) (acc : List SU) : Inner → Prop
  | .blocked _ _ _ => False
  | .done p _ _ => pos ≤ p ∧ (acc.length < cfg.maxMsg → pos < p)
  | .disconnected _ => True

theorem inner_progress (chain : List Crumb) (cfg : SrvCfg) (hage : 0 < cfg.minBatchAge) :
    ∀ (fuel pos : Nat) (acc : List SU) (lags : List Nat), pos + 1 < chain.length → chain.length ≤ fuel + pos + 1 →
      InnerAdv cfg pos acc (inner chain cfg fuel pos acc lags) := by
  intro fuel
  induction fuel with
  | zero => intro pos acc lags h1 h2; omega
  | succ n ih =>
    intro pos acc lags h1 h2
    unfold inner
    split
    · rename_i hroom
      have hc : chain[pos + 1]? = some chain[pos + 1] := List.getElem?_eq_getElem h1
      rw [hc]
      simp only
      split
      · trivial
      · split
        · exact ⟨by omega, fun _ => by omega⟩
        · split
          · exact ⟨by omega, fun _ => by omega⟩
          · rename_i hnd1 hnb hold
            -- still behind: the crumb just read cannot be the last one
            have hnext : pos + 1 + 1 < chain.length := by
              rcases Nat.lt_or_ge (pos + 1 + 1) chain.length with h | h
              · exact h
              · exfalso
                have hlast : min (pos + 1 + lags.headD 0) (chain.length - 1) = pos + 1 := by omega
                apply hold
                simp only [hlast, hc, Option.getD_some, Nat.sub_self]
                exact hage
            have := ih (pos + 1) (acc ++ chain[pos + 1].deltas) lags.tail hnext (by omega)
            revert this
            cases inner chain cfg n (pos + 1) (acc ++ chain[pos + 1].deltas) lags.tail with
            | blocked _ _ _ => intro h; exact h
            | disconnected _ => intro _; trivial
            | done p a l =>
              intro h
              exact ⟨by have := h.1; omega, fun _ => by have := h.1; omega⟩
    · rename_i hfull
      exact ⟨Nat.le_refl _, fun h => absurd h hfull⟩

theorem inner_at_end (chain : List Crumb) (cfg : SrvCfg) (hmsg : 0 < cfg.maxMsg) (fuel pos : Nat) (lags : List Nat)
    (hend : pos + 1 = chain.length) :
    inner chain cfg (fuel + 1) pos [] lags = .blocked pos [] lags := by
  unfold inner
  have : chain[pos + 1]? = none := List.getElem?_eq_none (by omega)
  simp [hmsg, this]

theorem outer_reads_to_end (chain : List Crumb) (cfg : SrvCfg) (hmsg : 0 < cfg.maxMsg) (hage : 0 < cfg.minBatchAge)
    (hne : 0 < chain.length) :
    ∀ (fuel pos lastSent : Nat) (lags : List Nat) (out : List Msg), pos < chain.length → chain.length ≤ fuel + pos →
      (outer chain cfg fuel pos lastSent lags out).disconnected = false →
      (outer chain cfg fuel pos lastSent lags out).pos + 1 = chain.length ∧
        (outer chain cfg fuel pos lastSent lags out).held = [] := by
  intro fuel
  induction fuel with
  | zero => intro pos lastSent lags out h1 h2; omega
  | succ n ih =>
    intro pos lastSent lags out h1 h2
    unfold outer
    by_cases hend : pos + 1 = chain.length
    · obtain ⟨m, hm⟩ : ∃ m, chain.length = m + 1 := ⟨chain.length - 1, by omega⟩
      rw [hm, inner_at_end chain cfg hmsg m pos lags (by omega)]
      simp only
      intro _
      exact ⟨by omega, by trivial⟩
    · have hlt : pos + 1 < chain.length := by omega
      have hadv := inner_progress chain cfg hage chain.length pos [] lags hlt (by omega)
      have hin := inner_pos_lt chain cfg chain.length pos [] lags h1
      revert hadv hin
      cases inner chain cfg chain.length pos [] lags with
      | blocked _ _ _ => intro h; exact absurd h (by simp [InnerAdv])
      | disconnected p => intro _ _ hd; simp at hd
      | done p acc lags' =>
        intro hadv hin
        simp only [InnerAdv, List.length_nil] at hadv
        simp only [InnerLt] at hin
        have hp : pos < p := hadv.2 hmsg
        simp only
        split
        · exact ih _ _ _ _ hin (by omega)
        · exact ih _ _ _ _ hin (by omega)

/-- `sendDeltas` started anywhere in a non-empty chain: if the client is not cut off for being slow, the sender
walks to the LAST crumb and nothing is left accumulated-but-unsent. -/
theorem sendDeltas_reads_to_end (chain : List Crumb) (cfg : SrvCfg) (start : Nat) (lags : List Nat)
    (hmsg : 0 < cfg.maxMsg) (hage : 0 < cfg.minBatchAge) (hs : start < chain.length) :
    (sendDeltas chain cfg start lags).disconnected = false →
      (sendDeltas chain cfg start lags).pos + 1 = chain.length ∧ (sendDeltas chain cfg start lags).held = [] := by
  unfold sendDeltas
  exact outer_reads_to_end chain cfg hmsg hage (by omega) _ _ _ _ _ hs (by omega)

end CalicoVerif.C24
