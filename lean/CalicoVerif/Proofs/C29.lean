import CalicoVerif.Model.C29
/-! Helper lemmas for C29 (core Lean only). -/
namespace CalicoVerif.C29

/-! ### lists -/

theorem all_congr_mem {α : Type} {l : List α} {p q : α → Bool} (h : ∀ a ∈ l, p a = q a) :
    l.all p = l.all q := by
  induction l with
  | nil => rfl
  | cons a rest ih =>
    simp only [List.all_cons, h a (by simp)]
    rw [ih (fun x hx => h x (by simp [hx]))]

theorem any_congr_mem {α : Type} {l : List α} {p q : α → Bool} (h : ∀ a ∈ l, p a = q a) :
    l.any p = l.any q := by
  induction l with
  | nil => rfl
  | cons a rest ih =>
    simp only [List.any_cons, h a (by simp)]
    rw [ih (fun x hx => h x (by simp [hx]))]

/-! ### strings -/

/-- `strings.HasPrefix` on the character lists. -/
def hasPre (p s : String) : Bool := p.toList.isPrefixOf s.toList

theorem hasPre_append (p s : String) : hasPre p (p ++ s) = true := by
  simp [hasPre, String.toList_append]

theorem append_left_cancel {p a b : String} (h : p ++ a = p ++ b) : a = b := by
  have := congrArg String.toList h
  simp only [String.toList_append, List.append_cancel_left_eq] at this
  exact String.toList_inj.1 this

theorem ne_of_hasPre {p a b : String} (ha : hasPre p a = true) (hb : hasPre p b = false) : a ≠ b := by
  intro h; subst h; simp [ha] at hb

/-! ### label lookup -/

theorem lget_cons (k k' v : String) (rest : Labels) :
    lget ((k', v) :: rest) k = if k = k' then some v else lget rest k := by
  simp only [lget, List.lookup_cons]
  by_cases h : k = k'
  · simp [h]
  · have : (k == k') = false := by simpa using h
    simp [this, h]

theorem lget_map_prefix (p : String) (l : Labels) (k : String) :
    lget (l.map (fun kv => (p ++ kv.1, kv.2))) (p ++ k) = lget l k := by
  induction l with
  | nil => rfl
  | cons kv rest ih =>
    rcases kv with ⟨k', v⟩
    simp only [List.map_cons, lget_cons, ih]
    by_cases h : k = k'
    · simp [h]
    · have : p ++ k ≠ p ++ k' := fun hh => h (append_left_cancel hh)
      simp [this, h]

theorem lget_none_of_all_ne (l : Labels) (k : String) (h : ∀ kv ∈ l, kv.1 ≠ k) : lget l k = none := by
  induction l with
  | nil => rfl
  | cons kv rest ih =>
    rcases kv with ⟨k', v⟩
    have h1 : k ≠ k' := fun hh => h (k', v) (by simp) hh.symm
    simp only [lget_cons, h1, if_false]
    exact ih (fun x hx => h x (by simp [hx]))


/-! ### well-formedness predicates used by the theorems -/

/-- A pod-selector key that Calico does not synthesize on a WorkloadEndpoint and that cannot be
inherited from the namespace profile. -/
def podSelKeyOK (k : String) : Prop :=
  k ≠ labelOrchestrator ∧ k ≠ labelNamespace ∧ k ≠ labelServiceAccount ∧ hasPre nsLabelPrefix k = false

instance (k : String) : Decidable (podSelKeyOK k) := by unfold podSelKeyOK; infer_instance

/-- Kubernetes validation of matchExpressions: the operator is one of In / NotIn / Exists /
DoesNotExist, and In / NotIn carry at least one value. -/
def LSel.opsOK (s : LSel) : Prop :=
  ∀ e ∈ s.me, e.op ≠ .opOther ∧ ((e.op = .opIn ∨ e.op = .opNotIn) → e.values ≠ [])

def LSel.podKeysOK (s : LSel) : Prop :=
  (∀ kv ∈ s.ml, podSelKeyOK kv.1) ∧ (∀ e ∈ s.me, podSelKeyOK e.key)

def LSel.nsKeysOK (s : LSel) : Prop :=
  (∀ kv ∈ s.ml, kv.1 ≠ nameLabel) ∧ (∀ e ∈ s.me, e.key ≠ nameLabel)

/-- No pod label uses the `pcns.` prefix. -/
def Pod.labelsOK (p : Pod) : Prop := ∀ kv ∈ p.labels, hasPre nsLabelPrefix kv.1 = false

/-! ### what a selector key sees on a WorkloadEndpoint -/

theorem wepGet_podKey (c : Cluster) (p : Pod) (k : String) (hk : podSelKeyOK k) :
    wepGet c p k = lget p.labels k := by
  obtain ⟨h1, h2, h3, h4⟩ := hk
  have hprof : lget (profileLabels p.ns (c.nsLabels p.ns)) k = none := by
    apply lget_none_of_all_ne
    intro kv hkv
    simp only [profileLabels, List.mem_cons, List.mem_map] at hkv
    rcases hkv with rfl | ⟨x, _, rfl⟩
    · exact ne_of_hasPre (hasPre_append _ _) h4
    · exact ne_of_hasPre (hasPre_append _ _) h4
  simp only [wepGet, wepOwnGet, h1, h2, h3, false_and, if_false, hprof]
  cases lget p.labels k <;> rfl

theorem wepGet_nsKey (c : Cluster) (p : Pod) (k : String) (hp : p.labelsOK) (hk : k ≠ nameLabel) :
    wepGet c p (nsLabelPrefix ++ k) = lget (c.nsLabels p.ns) k := by
  have hpre := hasPre_append nsLabelPrefix k
  have h1 : nsLabelPrefix ++ k ≠ labelOrchestrator := (ne_of_hasPre hpre (by decide))
  have h2 : nsLabelPrefix ++ k ≠ labelNamespace := (ne_of_hasPre hpre (by decide))
  have h3 : nsLabelPrefix ++ k ≠ labelServiceAccount := (ne_of_hasPre hpre (by decide))
  have hown : lget p.labels (nsLabelPrefix ++ k) = none := by
    apply lget_none_of_all_ne
    intro kv hkv
    exact (ne_of_hasPre hpre (hp kv hkv)).symm
  have hne : nsLabelPrefix ++ k ≠ nsLabelPrefix ++ nameLabel := fun hh => hk (append_left_cancel hh)
  simp only [wepGet, wepOwnGet, h1, h2, h3, false_and, if_false, hown, profileLabels, lget_cons, hne,
    lget_map_prefix]

theorem wepGet_orch (c : Cluster) (p : Pod) : wepGet c p labelOrchestrator = some "k8s" := by
  have h : labelOrchestrator ≠ labelServiceAccount := by decide
  simp [wepGet, wepOwnGet, h]

theorem wepGet_ns (c : Cluster) (p : Pod) : wepGet c p labelNamespace = some p.ns := by
  have h : labelNamespace ≠ labelServiceAccount := by decide
  have h2 : labelNamespace ≠ labelOrchestrator := by decide
  simp [wepGet, wepOwnGet, h, h2]

/-! ### k8sSelectorToCalico preserves the meaning of a LabelSelector -/

theorem exprTerms_holds (get get' : String → Option String) (e : Expr)
    (hop : e.op ≠ .opOther ∧ ((e.op = .opIn ∨ e.op = .opNotIn) → e.values ≠ []))
    (hg : get' e.key = get e.key) :
    (exprTerms e).all (Term.holds get') = e.holds get := by
  rcases e with ⟨k, op, vs⟩
  obtain ⟨h1, h2⟩ := hop
  have hv : (op = .opIn ∨ op = .opNotIn) → printedValues vs = vs := by
    intro h
    have := h2 h
    cases vs with
    | nil => exact absurd rfl this
    | cons a b => rfl
  cases op
  · simp_all [exprTerms, Expr.holds, Term.holds]
  · simp_all [exprTerms, Expr.holds, Term.holds]
  · simp_all [exprTerms, Expr.holds, Term.holds]
  · simp_all [exprTerms, Expr.holds, Term.holds]
  · simp_all

/-- The conjuncts produced for matchLabels + matchExpressions, evaluated through a label view `get'`
that agrees with `get` on the selector's keys. -/
theorem selTerms_holds (s : LSel) (get get' : String → Option String) (hops : s.opsOK)
    (hml : ∀ kv ∈ s.ml, get' kv.1 = get kv.1) (hme : ∀ e ∈ s.me, get' e.key = get e.key) :
    ((sortByKey s.ml).map (fun kv => Term.eq kv.1 kv.2) ++ s.me.flatMap exprTerms).all (Term.holds get')
      = s.holds get := by
  simp only [List.all_append, List.all_map, List.all_flatMap, LSel.holds]
  congr 1
  · unfold sortByKey
    rw [List.Perm.all_eq (List.mergeSort_perm _ _)]
    apply all_congr_mem
    intro kv hkv
    simp [Term.holds, hml kv hkv]
  · apply all_congr_mem
    intro e he
    exact exprTerms_holds get get' e (hops e he) (hme e he)


theorem k8sSel_pod_some (s : LSel) :
    k8sSelectorToCalico (some s) true = Term.eq labelOrchestrator "k8s" ::
      ((sortByKey s.ml).map (fun kv => Term.eq kv.1 kv.2) ++ s.me.flatMap exprTerms) := by
  simp [k8sSelectorToCalico]

theorem podSel_holds (c : Cluster) (p : Pod) (s : LSel) (hops : s.opsOK) (hk : s.podKeysOK) :
    (k8sSelectorToCalico (some s) true).holds (wepGet c p) = s.holds (lget p.labels) := by
  have h := selTerms_holds s (lget p.labels) (wepGet c p) hops
    (fun kv hkv => wepGet_podKey c p kv.1 (hk.1 kv hkv))
    (fun e he => wepGet_podKey c p e.key (hk.2 e he))
  rw [k8sSel_pod_some, CSel.holds, List.all_cons, h]
  simp [Term.holds, wepGet_orch]

theorem podSel_none_holds (c : Cluster) (p : Pod) :
    (k8sSelectorToCalico none true).holds (wepGet c p) = true := by
  simp [k8sSelectorToCalico, CSel.holds, Term.holds, wepGet_orch]

theorem prefixTerm_holds (get : String → Option String) (t : Term) (ht : t ≠ .all) :
    (prefixTerm t).holds get = t.holds (fun k => get (nsLabelPrefix ++ k)) := by
  cases t <;> simp_all [prefixTerm, Term.holds]

theorem selTerms_ne_all (s : LSel) :
    ∀ t ∈ (sortByKey s.ml).map (fun kv => Term.eq kv.1 kv.2) ++ s.me.flatMap exprTerms, t ≠ Term.all := by
  intro t ht
  simp only [List.mem_append, List.mem_map, List.mem_flatMap] at ht
  rcases ht with ⟨kv, _, rfl⟩ | ⟨e, _, he⟩
  · simp
  · rcases e with ⟨k, op, vs⟩
    cases op <;> simp [exprTerms] at he <;> simp [he]

theorem selTerms_ne_nil (s : LSel) (hops : s.opsOK) (hne : ¬ (s.ml.isEmpty ∧ s.me.isEmpty)) :
    (sortByKey s.ml).map (fun kv => Term.eq kv.1 kv.2) ++ s.me.flatMap exprTerms ≠ [] := by
  intro h
  simp only [List.append_eq_nil_iff, List.map_eq_nil_iff] at h
  obtain ⟨h1, h2⟩ := h
  have hml : s.ml = [] := by
    have := (List.mergeSort_perm s.ml (fun a b => strLe a.1 b.1)).length_eq
    unfold sortByKey at h1
    rw [h1] at this
    exact List.eq_nil_of_length_eq_zero this.symm
  have hme : s.me = [] := by
    cases hme : s.me with
    | nil => rfl
    | cons e rest =>
      exfalso
      have hop := (hops e (by simp [hme])).1
      rw [hme] at h2
      simp only [List.flatMap_cons, List.append_eq_nil_iff] at h2
      rcases e with ⟨k, op, vs⟩
      cases op <;> simp_all [exprTerms]
  exact hne (by simp [hml, hme])

theorem nsSel_holds (c : Cluster) (p : Pod) (s : LSel) (hops : s.opsOK) (hk : s.nsKeysOK)
    (hp : p.labelsOK) :
    ((k8sSelectorToCalico (some s) false).map prefixTerm).all (Term.holds (wepGet c p))
      = s.holds (lget (c.nsLabels p.ns)) := by
  by_cases hemp : s.ml.isEmpty ∧ s.me.isEmpty
  · have h1 : s.ml = [] := by simpa using hemp.1
    have h2 : s.me = [] := by simpa using hemp.2
    simp [k8sSelectorToCalico, h1, h2, prefixTerm, Term.holds, wepGet_ns, LSel.holds]
  · have hcond : (!false && s.ml.isEmpty && s.me.isEmpty) = false := by
      simp only [Bool.not_false, Bool.true_and, Bool.and_eq_false_iff]
      by_cases h1 : s.ml.isEmpty
      · right; simpa using fun h2 => hemp ⟨h1, h2⟩
      · left; simpa using h1
    have h := selTerms_holds s (lget (c.nsLabels p.ns)) (fun k => wepGet c p (nsLabelPrefix ++ k)) hops
      (fun kv hkv => wepGet_nsKey c p kv.1 hp (hk.1 kv hkv))
      (fun e he => wepGet_nsKey c p e.key hp (hk.2 e he))
    simp only [k8sSelectorToCalico, hcond, List.all_map]
    rw [← h]
    apply all_congr_mem
    intro t ht
    exact prefixTerm_holds _ t (selTerms_ne_all s t ht)


/-! ### peers -/

/-- Well-formedness of a connection party: a pod has no `pcns.` label; a non-pod endpoint does not
claim to be a Kubernetes workload. -/
def Party.ok (pa : Party) : Prop :=
  match pa.ep with
  | .pod p => p.labelsOK
  | .other l => lget l labelOrchestrator ≠ some "k8s"
  | .none => True

structure Peer.ok (peer : Peer) : Prop where
  pod : ∀ s, peer.podSel = some s → s.opsOK ∧ s.podKeysOK
  ns : ∀ s, peer.nsSel = some s → s.opsOK ∧ s.nsKeysOK

theorem k8sSel_pod_cons (s : Option LSel) :
    ∃ rest, k8sSelectorToCalico s true = Term.eq labelOrchestrator "k8s" :: rest := by
  cases s with
  | none => exact ⟨[], by simp [k8sSelectorToCalico]⟩
  | some x => exact ⟨_, k8sSel_pod_some x⟩

theorem k8sSel_ns_ne_nil (s : LSel) (hops : s.opsOK) : k8sSelectorToCalico (some s) false ≠ [] := by
  by_cases hemp : s.ml.isEmpty ∧ s.me.isEmpty
  · simp [k8sSelectorToCalico, hemp.1, hemp.2]
  · have hcond : (!false && s.ml.isEmpty && s.me.isEmpty) = false := by
      simp only [Bool.not_false, Bool.true_and, Bool.and_eq_false_iff]
      by_cases h1 : s.ml.isEmpty
      · right; simpa using fun h2 => hemp ⟨h1, h2⟩
      · left; simpa using h1
    have := selTerms_ne_nil s hops hemp
    simp only [k8sSelectorToCalico, hcond]
    exact this

theorem endpointSelector_noNs (S : CSel) (ns : String) (hns : ns ≠ "") (hS : S ≠ []) :
    endpointSelector [] S ns = Term.eq labelNamespace ns :: S := by
  cases S with
  | nil => exact absurd rfl hS
  | cons t rest => simp [endpointSelector, hns]

theorem endpointSelector_ns (N S : CSel) (ns : String) (hN : N ≠ []) :
    endpointSelector N S ns = N.map prefixTerm ++ S := by
  cases N with
  | nil => exact absurd rfl hN
  | cons t rest => simp [endpointSelector]

theorem peer_sel_matches (c : Cluster) (npNs : String) (hns : npNs ≠ "") (peer : Peer)
    (hok : peer.ok) (pa : Party) (hpa : pa.ok) :
    selMatches c (endpointSelector (k8sSelectorToCalico peer.nsSel false)
        (k8sSelectorToCalico peer.podSel true) npNs) pa
      = (match pa.ep with
         | .pod p =>
           (match peer.nsSel with
            | none => p.ns == npNs
            | some s => s.holds (lget (c.nsLabels p.ns))) &&
           (match peer.podSel with
            | none => true
            | some s => s.holds (lget p.labels))
         | _ => false) := by
  obtain ⟨rest, hS⟩ := k8sSel_pod_cons peer.podSel
  have hSne : k8sSelectorToCalico peer.podSel true ≠ [] := by rw [hS]; simp
  -- the combined selector is `X ++ S` with `S` starting with the orchestrator test
  have key : ∃ X : CSel, endpointSelector (k8sSelectorToCalico peer.nsSel false)
        (k8sSelectorToCalico peer.podSel true) npNs = X ++ k8sSelectorToCalico peer.podSel true ∧
      ∀ p : Pod, p.labelsOK → X.all (Term.holds (wepGet c p)) =
        (match peer.nsSel with
         | none => p.ns == npNs
         | some s => s.holds (lget (c.nsLabels p.ns))) := by
    cases hn : peer.nsSel with
    | none =>
      refine ⟨[Term.eq labelNamespace npNs], ?_, ?_⟩
      · have : k8sSelectorToCalico none false = [] := by simp [k8sSelectorToCalico]
        rw [this, endpointSelector_noNs _ _ hns hSne]; rfl
      · intro p _
        simp [Term.holds, wepGet_ns]
    | some s =>
      have ⟨ho, hk⟩ := hok.ns s hn
      refine ⟨(k8sSelectorToCalico (some s) false).map prefixTerm, ?_, ?_⟩
      · exact endpointSelector_ns _ _ _ (k8sSel_ns_ne_nil s ho)
      · intro p hp
        exact nsSel_holds c p s ho hk hp
  obtain ⟨X, hX, hXh⟩ := key
  have hne : (X ++ k8sSelectorToCalico peer.podSel true).isEmpty = false := by
    rw [hS]; cases X <;> simp
  rw [hX, selMatches, hne, Bool.false_or]
  unfold Party.ok at hpa
  cases hep : pa.ep with
  | pod p =>
    rw [hep] at hpa
    simp only [Endpoint.calicoGet, CSel.holds, List.all_append, hXh p hpa]
    congr 1
    cases hps : peer.podSel with
    | none => exact podSel_none_holds c p
    | some x => exact podSel_holds c p x (hok.pod x hps).1 (hok.pod x hps).2
  | other l =>
    rw [hep] at hpa
    simp only [Endpoint.calicoGet, CSel.holds, List.all_append, hS, List.all_cons, Term.holds]
    have : (lget l labelOrchestrator == some "k8s") = false := by simpa using hpa
    simp [this]
  | none => simp [Endpoint.calicoGet]


theorem contains_norm' (c : Cidr) (ip : IP) : c.norm.contains ip = c.contains ip := by
  simp only [Cidr.contains, Cidr.norm, Nat.shiftLeft_shiftRight]

theorem endpointSelector_empty (ns : String) : endpointSelector [] [] ns = [] := by
  simp [endpointSelector]

/-- An entity without selectors and nets (the `{Ports: …}` side of a converted rule, or the nil
peer) matches every party; ports are not looked at by `entityMatches`. -/
theorem entityMatches_noSel (c : Cluster) (ns : String) (ports : List CPort) (pa : Party) :
    entityMatches c ns { ports := ports } pa = true := by
  simp [entityMatches, endpointSelector_empty, selMatches]

theorem entityMatches_ports (c : Cluster) (ns : String) (e : Entity) (ports : List CPort) (pa : Party) :
    entityMatches c ns { e with ports := ports } pa = entityMatches c ns e pa := rfl

theorem entityMatches_peer (c : Cluster) (npNs : String) (hns : npNs ≠ "") (peer : Peer)
    (hok : peer.ok) (pa : Party) (hpa : pa.ok) :
    entityMatches c npNs (peerFields (some peer)) pa = k8sPeerMatches c npNs peer pa := by
  cases hib : peer.ipBlock with
  | some b =>
    simp only [peerFields, hib, entityMatches, endpointSelector_empty, selMatches, k8sPeerMatches,
      List.isEmpty_nil, Bool.true_or, Bool.true_and, List.isEmpty_cons, Bool.false_or,
      List.any_cons, List.any_nil, Bool.or_false, contains_norm', List.all_map]
    congr 1
    apply all_congr_mem
    intro x _
    simp [contains_norm']
  | none =>
    have h := peer_sel_matches c npNs hns peer hok pa hpa
    simp only [peerFields, hib, entityMatches, List.isEmpty_nil, Bool.true_or, Bool.and_true,
      List.all_nil, h, k8sPeerMatches]
    cases pa.ep <;> rfl

end CalicoVerif.C29
