import CalicoVerif.Model.C29
/-! Helper lemmas for C29 (core Lean only). -/
namespace CalicoVerif.C29

/-! ### strings -/

/-- `strings.HasPrefix` on the character lists. -/
def hasPre (p s : String) : Bool := p.toList.isPrefixOf s.toList

theorem hasPre_append (p s : String) : hasPre p (p ++ s) = true := by
  simp [hasPre, String.toList_append]

theorem append_left_cancel {p a b : String} (h : p ++ a = p ++ b) : a = b := by
  have := congrArg String.toList h
  simp only [String.toList_append, List.append_cancel_left_eq] at this
  exact String.toList_inj.1 this

theorem ne_of_hasPre {p a b : String} (ha : hasPre p a = true) (hb : hasPre p b = false) : a ≠ b := by
  intro h; subst h; simp [ha] at hb

/-! ### label lookup -/

theorem lget_cons (k k' v : String) (rest : Labels) :
    lget ((k', v) :: rest) k = if k = k' then some v else lget rest k := by
  simp only [lget, List.lookup_cons]
  by_cases h : k = k'
  · simp [h]
  · have : (k == k') = false := by simpa using h
    simp [this, h]

theorem lget_map_prefix (p : String) (l : Labels) (k : String) :
    lget (l.map (fun kv => (p ++ kv.1, kv.2))) (p ++ k) = lget l k := by
  induction l with
  | nil => rfl
  | cons kv rest ih =>
    rcases kv with ⟨k', v⟩
    simp only [List.map_cons, lget_cons, ih]
    by_cases h : k = k'
    · simp [h]
    · have : p ++ k ≠ p ++ k' := fun hh => h (append_left_cancel hh)
      simp [this, h]

theorem lget_none_of_all_ne (l : Labels) (k : String) (h : ∀ kv ∈ l, kv.1 ≠ k) : lget l k = none := by
  induction l with
  | nil => rfl
  | cons kv rest ih =>
    rcases kv with ⟨k', v⟩
    have h1 : k ≠ k' := fun hh => h (k', v) (by simp) hh.symm
    simp only [lget_cons, h1, if_false]
    exact ih (fun x hx => h x (by simp [hx]))

end CalicoVerif.C29
