import CalicoVerif.Proofs.C11Body
/-!
C11 — the targets computed by the compositional layer coincide with the
REFERENCE semantics (`evalRules`/`evalPolicies`/`evalTiers`/`evalProfiles` of
`Model/C11Ref`), for rules whose action is allow/deny/pass/next-tier/log.
-/
namespace CalicoVerif.C11

/-- allow / deny / pass (incl. next-tier): the actions covered by this stage. -/
def Rule.plainAction (r : Rule) : Bool :=
  match actOf r.action with
  | .allow | .deny | .pass => true
  | _ => false

/-- allow / deny / pass / log: the actions a POLICY rule may have. -/
def Rule.tierAction (r : Rule) : Bool :=
  match actOf r.action with
  | .invalid => false
  | _ => true

/-- The per-rule side condition of the evaluation lemmas: a plain action, or a `log` action that
the label map sends to the `log` label. -/
def ActOK (lab : String → Label) (r : Rule) : Prop :=
  r.plainAction = true ∨ (actOf r.action = .log ∧ lab r.action = .log)

theorem tierActionLabel_actOf (al : Label) (tid : Nat) (a : String) :
    tierActionLabel al tid a = (match actOf a with
      | .allow => al | .deny => .deny | .log => .log | .pass => .endOfTier tid | .invalid => .none) := by
  unfold tierActionLabel actOf
  simp only
  repeat' split
  all_goals simp_all

theorem profileActionLabel_actOf (al : Label) (a : String) :
    profileActionLabel al a = (match actOf a with
      | .allow => al | .deny => .deny | .log => .log | .pass => .deny | .invalid => .none) := by
  unfold profileActionLabel actOf
  simp only
  generalize asciiLower a = s at *
  by_cases h1 : s = "allow" <;> by_cases h2 : s = "deny" <;> by_cases h3 : s = "log" <;>
    by_cases h4 : s = "pass" <;> by_cases h5 : s = "next-tier" <;> simp_all

def decLabel (al passL : Label) : Dec → Option Label
  | .allow => some al
  | .deny => some .deny
  | .pass => some passL
  | .noMatch => none

theorem rulesTarget_eval (env : Env) (p : Pkt) (leg : Leg) (lab : String → Label) (al passL : Label)
    (hal : al ≠ .log) (hpl : passL ≠ .log)
    (hlab : ∀ a, (actOf a = .allow → lab a = al) ∧ (actOf a = .deny → lab a = .deny) ∧
      (actOf a = .pass → lab a = passL)) :
    ∀ rs : List Rule, (∀ r ∈ rs, ActOK lab r) →
      rulesTarget env p leg lab rs = decLabel al passL (evalRules env p leg rs) := by
  intro rs
  induction rs with
  | nil => intro _; rfl
  | cons r rs ih =>
    intro h
    have hr := h r (List.mem_cons_self)
    have ih' := ih (fun r' hr' => h r' (List.mem_cons_of_mem _ hr'))
    simp only [rulesTarget, evalRules, ruleTarget]
    cases hf : filterRule env.c.v6 r with
    | none => simpa using ih'
    | some fr =>
      simp only
      by_cases hm : ruleMatch env p leg fr = true
      · simp only [hm, if_true]
        obtain ⟨h1, h2, h3⟩ := hlab r.action
        rcases hr with hr | ⟨hlog, hl⟩
        · unfold Rule.plainAction at hr
          cases ha : actOf r.action <;> simp [ha, decLabel] at hr ⊢
          · rw [h1 ha]; simp [hal]
          · rw [h2 ha]; simp
          · rw [h3 ha]; simp [hpl]
        · simp only [hlog, hl, if_true, Option.none_or]
          exact ih'
      · simp only [hm, Bool.false_eq_true, if_false]
        simpa using ih'

theorem policiesTarget_eval (env : Env) (p : Pkt) (leg : Leg) (lab : String → Label) (al passL : Label)
    (hal : al ≠ .log) (hpl : passL ≠ .log)
    (hlab : ∀ a, (actOf a = .allow → lab a = al) ∧ (actOf a = .deny → lab a = .deny) ∧
      (actOf a = .pass → lab a = passL)) :
    ∀ ps : List Policy, (∀ pol ∈ ps, ∀ r ∈ pol.rules, ActOK lab r) →
      policiesTarget env p leg lab ps = decLabel al passL (evalPolicies env p leg ps) := by
  intro ps
  induction ps with
  | nil => intro _; rfl
  | cons pol ps ih =>
    intro h
    have h1 := rulesTarget_eval env p leg lab al passL hal hpl hlab pol.rules (h pol (List.mem_cons_self))
    have ih' := ih (fun pol' hp' => h pol' (List.mem_cons_of_mem _ hp'))
    simp only [policiesTarget, evalPolicies, h1]
    cases evalRules env p leg pol.rules <;> simp [decLabel, ih']

theorem tierAction_ok (al : Label) (tid : Nat) (r : Rule) (h : r.tierAction = true) :
    ActOK (tierActionLabel al tid) r := by
  unfold ActOK Rule.plainAction
  unfold Rule.tierAction at h
  rw [tierActionLabel_actOf]
  cases ha : actOf r.action <;> simp [ha] at h ⊢

/-- What a whole tier list decides. -/
def tiersDec (al : Label) : Dec → Option Label
  | .allow => some al
  | .deny => some .deny
  | _ => none

theorem tiersTarget_eval (env : Env) (p : Pkt) (leg : Leg) (al : Label) (hat : al.isTierEnd = false) (hal : al ≠ .log) :
    ∀ (ts : List Tier) (tid : Nat), (∀ t ∈ ts, ∀ pol ∈ t.policies, ∀ r ∈ pol.rules, r.tierAction = true) →
      tiersTarget env p leg al ts tid = tiersDec al (evalTiers env p leg ts) := by
  intro ts
  induction ts with
  | nil => intro _ _; rfl
  | cons t ts ih =>
    intro tid h
    have hP := policiesTarget_eval env p leg (tierActionLabel al tid) al (.endOfTier tid) hal (by simp)
      (fun a => by rw [tierActionLabel_actOf]; refine ⟨?_, ?_, ?_⟩ <;> intro e <;> simp [e])
      t.policies (fun pol hp r hr => tierAction_ok al tid r (h t (List.mem_cons_self) pol hp r hr))
    have ih' := ih (tid + 1) (fun t' ht' => h t' (List.mem_cons_of_mem _ ht'))
    have hne : al ≠ .endOfTier tid := by intro e; rw [e] at hat; simp [Label.isTierEnd] at hat
    cases hea : t.endAction <;>
      simp only [tiersTarget, tierTarget, evalTiers, hP, ih', tierEndLabel, hea] <;>
      cases evalPolicies env p leg t.policies <;> simp [decLabel, tiersDec, hne]

/-- What the profiles decide (a `pass` in a profile denies, as the builder does). -/
def profDec (al : Label) : Dec → Option Label
  | .allow => some al
  | _ => some .deny

theorem profileAction_ok (al : Label) (r : Rule) (h : r.tierAction = true) :
    ActOK (profileActionLabel al) r := by
  unfold ActOK Rule.plainAction
  unfold Rule.tierAction at h
  rw [profileActionLabel_actOf]
  cases ha : actOf r.action <;> simp [ha] at h ⊢

theorem profilesTarget_eval (env : Env) (p : Pkt) (al : Label) (hal : al ≠ .log) :
    ∀ ps : List Policy, (∀ pol ∈ ps, ∀ r ∈ pol.rules, r.tierAction = true) →
      (policiesTarget env p .dest (profileActionLabel al) ps).or (some .deny) =
        profDec al (evalProfiles true env p ps) := by
  intro ps
  induction ps with
  | nil => intro _; rfl
  | cons pol ps ih =>
    intro h
    have h1 := rulesTarget_eval env p .dest (profileActionLabel al) al .deny hal (by simp)
      (fun a => by
        refine ⟨?_, ?_, ?_⟩ <;> intro e <;>
          (rw [profileActionLabel_actOf al a]; simp [e]))
      pol.rules (fun r hr => profileAction_ok al r (h pol (List.mem_cons_self) r hr))
    have ih' := ih (fun pol' hp' => h pol' (List.mem_cons_of_mem _ hp'))
    simp only [policiesTarget, evalProfiles, h1]
    cases evalRules env p .dest pol.rules <;> simp [decLabel, profDec, ih']

end CalicoVerif.C11
