import CalicoVerif.Model.C01
import CalicoVerif.Proofs.C02Hist
/-! C01 helper: the sequencer end of the composition.  Everything the graph does to the
EventSequencer goes through `Graph.emit`; hence (Theorem A) after a final flush the state
accumulated from ALL emitted messages is the state the upstream nodes DECLARED through their
calls — provided the calls respect the IP-set protocol (`validAll`). -/
namespace CalicoVerif.C01
open CalicoVerif C02

/-- the declared state after a list of calls -/
def upAll (u : DP) (cs : List Call) : DP := cs.foldl upApply u

/-- every call respects the upstream protocol -/
def validAll : DP → List Call → Prop
  | _, [] => True
  | u, c :: cs => upValid u c ∧ validAll (upApply u c) cs

theorem upAll_append (u : DP) (a b : List Call) : upAll u (a ++ b) = upAll (upAll u a) b := by
  simp [upAll, List.foldl_append]

theorem validAll_append {u : DP} {a b : List Call} :
    validAll u (a ++ b) ↔ validAll u a ∧ validAll (upAll u a) b := by
  induction a generalizing u with
  | nil => simp [validAll, upAll]
  | cons c cs ih => simp [validAll, upAll, ih, and_assoc]

theorem applyCalls_append (s : State) (a b : List Call) :
    applyCalls s (a ++ b) = (applyCalls s a).bind (fun s' => applyCalls s' b) := by
  induction a generalizing s with
  | nil => simp [applyCalls]
  | cons c cs ih =>
    simp only [List.cons_append, applyCalls]
    cases s.call c with
    | none => rfl
    | some s' => exact ih s'

theorem inv_calls {s : State} {u d : DP} (hi : Inv s u d) : ∀ (cs : List Call), validAll u cs →
    ∃ s', applyCalls s cs = some s' ∧ Inv s' (upAll u cs) d := by
  intro cs
  induction cs generalizing s u with
  | nil => intro _; exact ⟨s, rfl, hi⟩
  | cons c cs ih =>
    intro hv
    obtain ⟨s1, hc, hi1⟩ := hi.call c hv.1
    obtain ⟨s', h2, hi'⟩ := ih hi1 hv.2
    exact ⟨s', by simp [applyCalls, hc, h2], hi'⟩

/-! ### frame: the sequencer only changes through `emit` -/

/-- `g'` is `g` after emitting some calls (as far as the sequencer and the call log go). -/
def SeqRel (g g' : Graph) : Prop :=
  ∃ cs, g'.calls = g.calls ++ cs ∧ ∀ s, applyCalls g.seq cs = some s → g'.seq = s

theorem SeqRel.refl' {g g' : Graph} (h1 : g'.calls = g.calls) (h2 : g'.seq = g.seq) : SeqRel g g' :=
  ⟨[], by simp [h1], fun s hs => by simp [applyCalls] at hs; rw [h2, hs]⟩

theorem SeqRel.rfl' (g : Graph) : SeqRel g g := SeqRel.refl' rfl rfl

theorem SeqRel.trans {a b c : Graph} (h1 : SeqRel a b) (h2 : SeqRel b c) : SeqRel a c := by
  obtain ⟨c1, e1, f1⟩ := h1
  obtain ⟨c2, e2, f2⟩ := h2
  refine ⟨c1 ++ c2, by rw [e2, e1, List.append_assoc], ?_⟩
  intro s hs
  rw [applyCalls_append] at hs
  cases h : applyCalls a.seq c1 with
  | none => simp [h] at hs
  | some s1 =>
    simp only [h, Option.bind_some] at hs
    have := f1 s1 h
    exact f2 s (this ▸ hs)

theorem seqRel_emit (g : Graph) (cs : List Call) : SeqRel g (g.emit cs) := by
  refine ⟨cs, ?_, ?_⟩
  · unfold Graph.emit; split <;> rfl
  · intro s hs
    unfold Graph.emit
    simp [hs]

theorem seqRel_foldl {α : Type} (f : Graph → α → Graph) (hf : ∀ g a, SeqRel g (f g a)) :
    ∀ (l : List α) (g : Graph), SeqRel g (l.foldl f g)
  | [], g => SeqRel.rfl' g
  | a :: l, g => (hf g a).trans (seqRel_foldl f hf l (f g a))

theorem seqRel_idxOp (g : Graph) (op : C04.Op Str) : SeqRel g (g.idxOp op) := by
  unfold Graph.idxOp
  exact (SeqRel.refl' rfl rfl).trans (seqRel_emit _ _)

theorem seqRel_onRsEvent (g : Graph) (e : RsEvent) : SeqRel g (g.onRsEvent e) := by
  cases e with
  | ipsetActive uid d => exact (seqRel_emit _ _).trans (seqRel_idxOp _ _)
  | ipsetInactive uid => exact (seqRel_idxOp _ _).trans (seqRel_emit _ _)

theorem seqRel_rsUpdate (H : IdFn) (g : Graph) (key : RulesId) (r : Option RulesIn) :
    SeqRel g (g.rsUpdate H key r) := by
  unfold Graph.rsUpdate
  simp only []
  exact SeqRel.trans (SeqRel.refl' rfl rfl) (seqRel_foldl Graph.onRsEvent seqRel_onRsEvent _ _)

theorem seqRel_scanRules (H : IdFn) (g : Graph) (key : RulesId) (r : Option RulesIn) :
    SeqRel g (g.scanRules H key r) :=
  (seqRel_rsUpdate H g key r).trans (seqRel_emit _ _)

theorem seqRel_profEvents (H : IdFn) (g : Graph) (evs : List (C05.Event RulesIn)) :
    SeqRel g (g.profEvents H evs) := by
  unfold Graph.profEvents
  apply seqRel_foldl
  intro g e
  cases e with
  | active p r => cases r <;> exact seqRel_scanRules H g _ _
  | inactive p => exact seqRel_scanRules H g _ _

theorem seqRel_arcProfStep (H : IdFn) (g : Graph) (u : C05.Upd RulesIn) : SeqRel g (g.arcProfStep H u) := by
  unfold Graph.arcProfStep
  exact (SeqRel.refl' rfl rfl).trans (seqRel_profEvents H _ _)

theorem seqRel_sendPolicyUpdate (H : IdFn) (g : Graph) (n : Nat) : SeqRel g (g.sendPolicyUpdate H n) := by
  unfold Graph.sendPolicyUpdate
  split
  · split
    · exact seqRel_scanRules H g _ _
    · exact SeqRel.refl' rfl rfl
  · exact seqRel_scanRules H g _ _

theorem seqRel_onMatchEvent (H : IdFn) (g : Graph) (e : C07.Event) : SeqRel g (g.onMatchEvent H e) := by
  cases e with
  | started sel item =>
    simp only [Graph.onMatchEvent]
    refine SeqRel.trans ?_ (SeqRel.refl' rfl rfl)
    split
    · exact (SeqRel.refl' rfl rfl).trans (seqRel_sendPolicyUpdate H _ _)
    · exact SeqRel.refl' rfl rfl
  | stopped sel item =>
    simp only [Graph.onMatchEvent]
    refine SeqRel.trans ?_ (SeqRel.refl' rfl rfl)
    split
    · exact (SeqRel.refl' rfl rfl).trans (seqRel_sendPolicyUpdate H _ _)
    · exact SeqRel.refl' rfl rfl

theorem seqRel_lblStep (H : IdFn) (g : Graph) (r : C07.Idx × List C07.Event) : SeqRel g (g.lblStep H r) := by
  unfold Graph.lblStep
  exact (SeqRel.refl' rfl rfl).trans (seqRel_foldl _ (seqRel_onMatchEvent H) _ _)

theorem seqRel_resStep (g : Graph) (e : C03.Event) : SeqRel g (g.resStep e) := SeqRel.refl' rfl rfl

theorem seqRel_arcEndpoint (H : IdFn) (g : Graph) (nid : Nat) (key : EpKey) (v : Option EpVal) :
    SeqRel g (g.arcEndpoint H nid key v) := by
  unfold Graph.arcEndpoint
  simp only []
  refine (seqRel_arcProfStep H g (.endpoint (epKeyStr key) (v.map (·.profiles)))).trans ?_
  cases v <;> exact seqRel_lblStep H _ _

theorem seqRel_localEndpoint (H : IdFn) (g : Graph) (nid : Nat) (key : EpKey) (v : Option EpVal) :
    SeqRel g (g.localEndpoint H nid key v) :=
  (seqRel_arcEndpoint H g nid key v).trans (seqRel_resStep _ _)

theorem seqRel_idxEndpoint (g : Graph) (key : EpKey) (v : Option EpVal) : SeqRel g (g.idxEndpoint key v) := by
  unfold Graph.idxEndpoint; cases v <;> exact seqRel_idxOp _ _

theorem seqRel_idxNetset (g : Graph) (name : String) (v : Option NetSetVal) : SeqRel g (g.idxNetset name v) := by
  unfold Graph.idxNetset; cases v <;> exact seqRel_idxOp _ _

theorem seqRel_profLabels (H : IdFn) (g : Graph) (pid : String) (v : Option C04.Labels) :
    SeqRel g (g.profLabels H pid v) := by
  unfold Graph.profLabels
  cases v <;> exact (seqRel_lblStep H _ _).trans (seqRel_idxOp _ _)

theorem seqRel_arcPolicyChanged (H : IdFn) (g : Graph) (nid : Nat) (pv : PolVal) :
    SeqRel g (g.arcPolicyChanged H nid pv) := by
  unfold Graph.arcPolicyChanged
  simp only []
  have inner : ∀ g1 : Graph, SeqRel g1 (match C06.parse pv.sel with
      | .error _ => { g1 with panicked := true }
      | .ok sel =>
        if (g1.lblStep H (C07.updateSelector g1.lbl nid sel)).polActive nid then
          (g1.lblStep H (C07.updateSelector g1.lbl nid sel)).sendPolicyUpdate H nid
        else g1.lblStep H (C07.updateSelector g1.lbl nid sel)) := by
    intro g1
    split
    · exact SeqRel.refl' rfl rfl
    · rename_i sel _
      refine (seqRel_lblStep H g1 (C07.updateSelector g1.lbl nid sel)).trans ?_
      split
      · exact seqRel_sendPolicyUpdate H _ _
      · exact SeqRel.rfl' _
  have h0 : SeqRel g { g with allPolicies := C02.mset nid pv g.allPolicies } := SeqRel.refl' rfl rfl
  exact h0.trans (inner _)

theorem seqRel_arcPolicy (H : IdFn) (g : Graph) (nid : Nat) (v : Option PolVal) :
    SeqRel g (g.arcPolicy H nid v) := by
  unfold Graph.arcPolicy
  cases v with
  | none =>
    simp only []
    have h0 : SeqRel g { g with allPolicies := C02.mdel nid g.allPolicies } := SeqRel.refl' rfl rfl
    exact h0.trans (seqRel_lblStep H _ _)
  | some pv =>
    simp only []
    split
    · exact SeqRel.rfl' g
    · exact seqRel_arcPolicyChanged H g nid pv

theorem seqRel_step (H : IdFn) (g : Graph) (u : Upd) : SeqRel g (g.step H u) := by
  cases u with
  | endpoint nid key isLocal v =>
    simp only [Graph.step]
    refine (SeqRel.refl' (g' := { g with epKeys := C02.mset nid key g.epKeys }) rfl rfl).trans ?_
    refine SeqRel.trans ?_ (seqRel_idxEndpoint _ key v)
    split
    · exact seqRel_localEndpoint H _ nid key v
    · exact SeqRel.rfl' _
  | netset name v => exact seqRel_idxNetset g name v
  | profLabels pid v => exact seqRel_profLabels H g pid v
  | profRules pid v => exact seqRel_arcProfStep H g _
  | tier name v => exact seqRel_resStep g _
  | policy nid key v =>
    simp only [Graph.step]
    refine (SeqRel.refl' (g' := { g with polKeys := C02.mset nid key g.polKeys }) rfl rfl).trans ?_
    exact (seqRel_arcPolicy H _ nid v).trans (seqRel_resStep _ _)
  | passthru c key v => exact seqRel_emit g _
  | other => exact SeqRel.rfl' g

theorem seqRel_inSync (g : Graph) : SeqRel g g.inSync := SeqRel.refl' rfl rfl

/-- the PolicyResolver half of `Graph.flush` -/
def Graph.flushResolver (g : Graph) : Graph :=
  match g.res.flush with
  | some (r, calls) => ({ g with res := r }).emit calls
  | none => { g with panicked := true }

theorem flush_eq (g : Graph) :
    g.flush = ({ g.flushResolver with seq := g.flushResolver.seq.flush.1 }, g.flushResolver.seq.flush.2) := rfl

theorem seqRel_flushResolver (g : Graph) : SeqRel g g.flushResolver := by
  unfold Graph.flushResolver
  split
  · exact (SeqRel.refl' rfl rfl).trans (seqRel_emit _ _)
  · exact SeqRel.refl' rfl rfl

/-! ### Theorem A -/

/-- the calls logged after a run extend those logged before -/
theorem run_calls_prefix (H : IdFn) : ∀ (h : List HStep) (g : Graph), ∃ cs, (run H g h).1.calls = g.calls ++ cs
  | [], g => ⟨[], by simp [run]⟩
  | .upd u :: t, g => by
    obtain ⟨c1, e1, _⟩ := seqRel_step H g u
    obtain ⟨c2, e2⟩ := run_calls_prefix H t (g.step H u)
    exact ⟨c1 ++ c2, by simp only [run]; rw [e2, e1, List.append_assoc]⟩
  | .inSync :: t, g => by
    obtain ⟨c2, e2⟩ := run_calls_prefix H t g.inSync
    exact ⟨c2, by simp only [run]; rw [e2]; rfl⟩
  | .flush :: t, g => by
    obtain ⟨c1, e1, _⟩ := seqRel_flushResolver g
    obtain ⟨c2, e2⟩ := run_calls_prefix H t g.flush.1
    refine ⟨c1 ++ c2, ?_⟩
    simp only [run]
    rw [e2, flush_eq]
    simp only []
    rw [e1, List.append_assoc]

theorem inv_seqRel {g g' : Graph} {d : DP} (hr : SeqRel g g') (hi : Inv g.seq (upAll {} g.calls) d)
    (hv : validAll {} g'.calls) : Inv g'.seq (upAll {} g'.calls) d := by
  obtain ⟨cs, e, f⟩ := hr
  rw [e] at hv ⊢
  obtain ⟨s', hs, hi'⟩ := inv_calls hi cs (validAll_append.mp hv).2
  rw [f s' hs, upAll_append]
  exact hi'

/-- the sequencer invariant is maintained along any run whose final call log is protocol-valid -/
theorem run_inv (H : IdFn) : ∀ (h : List HStep) (g : Graph) (ms0 : List Msg),
    Inv g.seq (upAll {} g.calls) (({} : DP).applyAll ms0) → validAll {} (run H g h).1.calls →
    Inv (run H g h).1.seq (upAll {} (run H g h).1.calls) (({} : DP).applyAll (ms0 ++ (run H g h).2))
  | [], g, ms0, hi, _ => by simpa [run] using hi
  | .upd u :: t, g, ms0, hi, hv => by
    simp only [run] at hv ⊢
    obtain ⟨c2, e2⟩ := run_calls_prefix H t (g.step H u)
    have hv1 : validAll {} (g.step H u).calls := by rw [e2] at hv; exact (validAll_append.mp hv).1
    exact run_inv H t _ ms0 (inv_seqRel (seqRel_step H g u) hi hv1) hv
  | .inSync :: t, g, ms0, hi, hv => by
    simp only [run] at hv ⊢
    exact run_inv H t _ ms0 hi hv
  | .flush :: t, g, ms0, hi, hv => by
    simp only [run] at hv ⊢
    obtain ⟨c2, e2⟩ := run_calls_prefix H t g.flush.1
    have hv1 : validAll {} g.flushResolver.calls := by
      rw [e2, flush_eq] at hv; exact (validAll_append.mp hv).1
    have hi1 := inv_seqRel (seqRel_flushResolver g) hi hv1
    have hi2 := (flush_ok _ _ _ hi1).2
    rw [← applyAll_append] at hi2
    have := run_inv H t g.flush.1 (ms0 ++ g.flush.2) (by rw [flush_eq]; exact hi2) hv
    rw [List.append_assoc] at this
    exact this

theorem inv_new (s : Bool) : Inv (Graph.new s).seq (upAll {} (Graph.new s).calls) (({} : DP).applyAll []) :=
  Inv.init

/-- THEOREM A (sequencer end): for every history that ends with a flush, if the calls the upstream
nodes made respect the IP-set protocol, the dataplane state accumulated from ALL emitted messages
is exactly the state those calls declared. -/
theorem accumulate_eq_declared (H : IdFn) (s : Bool) (h : List HStep)
    (hv : validAll {} (run H (Graph.new s) (h ++ [.flush])).1.calls) :
    ({} : DP).applyAll (run H (Graph.new s) (h ++ [.flush])).2 =
      upAll {} (run H (Graph.new s) (h ++ [.flush])).1.calls := by
  -- split the run at the final flush
  have key : ∀ (h : List HStep) (g : Graph),
      run H g (h ++ [.flush]) = (((run H g h).1.flush).1, (run H g h).2 ++ ((run H g h).1.flush).2) := by
    intro h
    induction h with
    | nil => intro g; simp [run]
    | cons st t ih =>
      intro g
      cases st with
      | upd u => simp only [List.cons_append, run]; exact ih _
      | inSync => simp only [List.cons_append, run]; exact ih _
      | flush => simp only [List.cons_append, run]; rw [ih]; simp [List.append_assoc]
  rw [key] at hv ⊢
  simp only [] at hv ⊢
  generalize hg1 : (run H (Graph.new s) h).1 = g1 at hv ⊢
  have hcalls : g1.flush.1.calls = g1.flushResolver.calls := by rw [flush_eq]
  obtain ⟨c1, e1, _⟩ := seqRel_flushResolver g1
  have hv0 : validAll {} g1.calls := by
    rw [hcalls, e1] at hv; exact (validAll_append.mp hv).1
  have hi0 := run_inv H h (Graph.new s) [] (inv_new s) (hg1 ▸ hv0)
  simp only [List.nil_append] at hi0
  rw [hg1] at hi0
  have hi1 := inv_seqRel (seqRel_flushResolver g1) hi0 (hcalls ▸ hv)
  have hs := flush_synced hi1
  rw [applyAll_append, hcalls]
  exact hs

end CalicoVerif.C01
