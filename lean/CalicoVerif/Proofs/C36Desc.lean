import CalicoVerif.Proofs.C36Query
/-!
C36 helper lemmas, part 6: `getNode`, `ClosestDescendants`, `LookupPath`.
-/
namespace CalicoVerif.C36
variable {W : Nat} {α : Type}
open Node

/-- `closestOf ch` lists the minimal stored prefixes of the subtree `ch`. -/
theorem closestOf_iff : ∀ {ch : Node α}, ch.Inv W → ∀ {p : Pfx},
    (p ∈ ch.closestOf ↔ ∃ v, (p, v) ∈ ch.toList ∧ ∀ r w, (r, w) ∈ ch.toList → r.covers W p = true → r = p)
  | .nil, _, p => by simp [closestOf, toList]
  | .node c (some v) l r, hi, p => by
    simp only [closestOf, List.mem_singleton]
    constructor
    · intro e
      subst e
      refine ⟨v, mem_toList_node.2 (Or.inl ⟨rfl, rfl⟩), fun r' w hm hx => ?_⟩
      have := Inv.mem_root hi hm
      exact covers_antisymm this.1 hi.1 hx this.2
    · rintro ⟨w, hm, hmin⟩
      exact (hmin c v (mem_toList_node.2 (Or.inl ⟨rfl, rfl⟩)) (Inv.mem_root hi hm).2).symm
  | .node c none l r, hi, p => by
    have ihl := closestOf_iff hi.2.2.2.1 (p := p)
    have ihr := closestOf_iff hi.2.2.2.2.1 (p := p)
    simp only [closestOf, List.mem_append, ihl, ihr]
    constructor
    · rintro (⟨v, hm, hmin⟩ | ⟨v, hm, hmin⟩)
      · refine ⟨v, mem_toList_node.2 (Or.inr (Or.inl hm)), fun r' w hm' hx => ?_⟩
        rcases mem_toList_node.1 hm' with ⟨_, e⟩ | h | h
        · cases e
        · exact hmin r' w h hx
        · have a := All.mem hi.2.1 hm
          have b := All.mem hi.2.2.1 h
          have := Under.not_covers_cross b.1 a.1 b.2 a.2 (by decide)
          rw [this] at hx; cases hx
      · refine ⟨v, mem_toList_node.2 (Or.inr (Or.inr hm)), fun r' w hm' hx => ?_⟩
        rcases mem_toList_node.1 hm' with ⟨_, e⟩ | h | h
        · cases e
        · have a := All.mem hi.2.2.1 hm
          have b := All.mem hi.2.1 h
          have := Under.not_covers_cross b.1 a.1 b.2 a.2 (by decide)
          rw [this] at hx; cases hx
        · exact hmin r' w h hx
    · rintro ⟨v, hm, hmin⟩
      rcases mem_toList_node.1 hm with ⟨_, e⟩ | h | h
      · cases e
      · exact Or.inl ⟨v, h, fun r' w hm' hx => hmin r' w (mem_toList_node.2 (Or.inr (Or.inl hm'))) hx⟩
      · exact Or.inr ⟨v, h, fun r' w hm' hx => hmin r' w (mem_toList_node.2 (Or.inr (Or.inr hm'))) hx⟩

theorem getNode_all {P : Pfx → Prop} : ∀ {t : Node α}, t.All P → ∀ {q c' d' l' r'},
    t.getNode W q = node c' d' l' r' → P c'
  | .nil, _, q, c', d', l', r', h => by simp [getNode] at h
  | .node c d l r, ⟨a, b, e⟩, q, c', d', l', r', h => by
    unfold getNode at h
    split at h
    · cases h
    · split at h
      · cases h; exact a
      · split at h
        · exact getNode_all b h
        · exact getNode_all e h

theorem getNode_cidr : ∀ {t : Node α} {q : Pfx} {c' d' l' r'}, t.getNode W q = node c' d' l' r' → c' = q
  | .nil, _, _, _, _, _, h => by simp [getNode] at h
  | .node c d l r, q, c', d', l', r', h => by
    unfold getNode at h
    split at h
    · cases h
    · split at h
      · rename_i he; cases h; exact he.symm
      · split at h
        · exact getNode_cidr h
        · exact getNode_cidr h

/-- If `q` is a node of the trie (stored, or a data-less intermediate node), the walk of
`LPM(q)` stops at it and never meets a longer node. -/
theorem walkOk_of_getNode : ∀ {t : Node α}, t.Inv W → ∀ {q : Pfx} {c' d' l' r'},
    t.getNode W q = node c' d' l' r' → WalkOk W t q
  | .nil, _, _, _, _, _, _, h => by simp [getNode] at h
  | .node c d l r, hi, q, c', d', l', r', h => by
    intro hcont
    unfold getNode at h
    simp only [hcont, Bool.not_true, Bool.false_eq_true, if_false] at h
    by_cases hqc : q = c
    · subst hqc; exact ⟨Nat.le_refl _, fun hne => absurd rfl hne⟩
    · simp only [hqc, if_false] at h
      by_cases hb : nthBit W q.addr (c.len + 1) = 0
      · simp only [hb, if_true] at h
        have hu := getNode_all hi.2.1 h
        have hq' : c' = q := by
          -- the found node carries the query's CIDR
          revert h; intro h
          exact (getNode_cidr h)
        rw [hq'] at hu
        exact ⟨Nat.le_of_lt hu.2.2.1, fun _ => ⟨fun _ => walkOk_of_getNode hi.2.2.2.1 h, fun hnb => absurd hb hnb⟩⟩
      · simp only [hb, if_false] at h
        have hu := getNode_all hi.2.2.1 h
        have hq' : c' = q := getNode_cidr h
        rw [hq'] at hu
        exact ⟨Nat.le_of_lt hu.2.2.1, fun _ => ⟨fun hb0 => absurd hb0 hb, fun _ => walkOk_of_getNode hi.2.2.2.2.1 h⟩⟩

/-- The node found for `q` is `q`'s node; below it hang exactly the stored prefixes strictly inside `q`. -/
theorem getNode_spec : ∀ {t : Node α}, t.Inv W → ∀ {q : Pfx}, q.WF W → ∀ {c' d' l' r'},
    t.getNode W q = node c' d' l' r' →
    c' = q ∧ (node q d' l' r').Inv W ∧
      ∀ x w, ((x, w) ∈ l'.toList ∨ (x, w) ∈ r'.toList) ↔ ((x, w) ∈ t.toList ∧ q.covers W x = true ∧ x ≠ q)
  | .nil, _, q, _, c', d', l', r', h => by simp [getNode] at h
  | .node c d l r, hi, q, hq, c', d', l', r', h => by
    have hc := hi.1
    unfold getNode at h
    split at h
    · cases h
    · split at h
      · rename_i he
        cases h
        subst he
        refine ⟨rfl, hi, fun x w => ?_⟩
        rw [mem_toList_node]
        constructor
        · rintro (hm | hm)
          · have := All.mem hi.2.1 hm
            exact ⟨Or.inr (Or.inl hm), this.2.1, this.2.ne_self⟩
          · have := All.mem hi.2.2.1 hm
            exact ⟨Or.inr (Or.inr hm), this.2.1, this.2.ne_self⟩
        · rintro ⟨⟨e, _⟩ | hm | hm, _, hne⟩
          · exact absurd e hne
          · exact Or.inl hm
          · exact Or.inr hm
      · rename_i hne
        -- generic descent
        have step : ∀ {j j' : Nat} {ch oc : Node α}, j ≠ j' → ch.Inv W →
            ch.All (fun x => x.WF W ∧ Under W c j x) → oc.All (fun x => x.WF W ∧ Under W c j' x) →
            (∀ p v, (p, v) ∈ (node c d l r).toList ↔ (p = c ∧ d = some v) ∨ (p, v) ∈ ch.toList ∨ (p, v) ∈ oc.toList) →
            ch.getNode W q = node c' d' l' r' →
            (c' = q ∧ (node q d' l' r').Inv W ∧
              ∀ x w, ((x, w) ∈ l'.toList ∨ (x, w) ∈ r'.toList) ↔ ((x, w) ∈ ch.toList ∧ q.covers W x = true ∧ x ≠ q)) →
            (c' = q ∧ (node q d' l' r').Inv W ∧
              ∀ x w, ((x, w) ∈ l'.toList ∨ (x, w) ∈ r'.toList) ↔
                ((x, w) ∈ (node c d l r).toList ∧ q.covers W x = true ∧ x ≠ q)) := by
          intro j j' ch oc hjj hci hca hoa hmem hg ih
          have hu := getNode_all hca hg
          rw [ih.1] at hu
          refine ⟨ih.1, ih.2.1, fun x w => ?_⟩
          rw [ih.2.2 x w, hmem x w]
          constructor
          · rintro ⟨h1, h2, h3⟩; exact ⟨Or.inr (Or.inl h1), h2, h3⟩
          · rintro ⟨⟨e, _⟩ | h1 | h1, h2, h3⟩
            · exfalso
              rw [e] at h2
              have := covers_len hq hc h2
              have := hu.2.2.1
              omega
            · exact ⟨h1, h2, h3⟩
            · exfalso
              have a := All.mem hoa h1
              have := side_of_covered hq a h2 hu.2.2.1
              have := hu.2.2.2
              omega
        split at h
        · exact step (j := 0) (j' := 1) (by decide) hi.2.2.2.1 hi.2.1 hi.2.2.1 (fun p v => mem_toList_node) h
            (getNode_spec hi.2.2.2.1 hq h)
        · exact step (j := 1) (j' := 0) (by decide) hi.2.2.2.2.1 hi.2.2.1 hi.2.1
            (fun p v => by rw [mem_toList_node]; constructor <;> (rintro (h | h | h) <;> simp [h])) h
            (getNode_spec hi.2.2.2.2.1 hq h)


theorem getNode_of_mem {t : Node α} (hi : t.Inv W) {q : Pfx} (hq : q.WF W) {v : α} (hm : (q, v) ∈ t.toList) :
    ∃ c' d' l' r', t.getNode W q = node c' d' l' r' := by
  have := (get_iff hi hq).2 hm
  unfold Node.get at this
  cases h : t.getNode W q with
  | nil => rw [h] at this; cases this
  | node c' d' l' r' => exact ⟨c', d', l', r', rfl⟩

/-- `ClosestDescendants(q)` when `q` is a node of the trie: the stored prefixes strictly
inside `q` with no other stored prefix strictly in between. -/
theorem closestDescendants_iff {t : Node α} (hi : t.Inv W) {q : Pfx} (hq : q.WF W) {c' d' l' r'}
    (hg : t.getNode W q = node c' d' l' r') (p : Pfx) :
    p ∈ t.closestDescendants W q ↔
      ∃ v, (p, v) ∈ t.toList ∧ q.covers W p = true ∧ p ≠ q ∧
        ∀ r w, (r, w) ∈ t.toList → q.covers W r = true → r ≠ q → r.covers W p = true → r = p := by
  have gs := getNode_spec hi hq hg
  have hiq := gs.2.1
  unfold closestDescendants
  rw [hg]
  simp only [List.mem_append, closestOf_iff hiq.2.2.2.1, closestOf_iff hiq.2.2.2.2.1]
  constructor
  · rintro (⟨v, hm, hmin⟩ | ⟨v, hm, hmin⟩)
    · have a := (gs.2.2 p v).1 (Or.inl hm)
      refine ⟨v, a.1, a.2.1, a.2.2, fun r w hr hqr hne hx => ?_⟩
      rcases (gs.2.2 r w).2 ⟨hr, hqr, hne⟩ with h | h
      · exact hmin r w h hx
      · have ur := All.mem hiq.2.2.1 h
        have up := All.mem hiq.2.1 hm
        have := Under.not_covers_cross ur.1 up.1 ur.2 up.2 (by decide)
        rw [this] at hx; cases hx
    · have a := (gs.2.2 p v).1 (Or.inr hm)
      refine ⟨v, a.1, a.2.1, a.2.2, fun r w hr hqr hne hx => ?_⟩
      rcases (gs.2.2 r w).2 ⟨hr, hqr, hne⟩ with h | h
      · have ur := All.mem hiq.2.1 h
        have up := All.mem hiq.2.2.1 hm
        have := Under.not_covers_cross ur.1 up.1 ur.2 up.2 (by decide)
        rw [this] at hx; cases hx
      · exact hmin r w h hx
  · rintro ⟨v, hm, hqp, hne, hmin⟩
    rcases (gs.2.2 p v).2 ⟨hm, hqp, hne⟩ with h | h
    · refine Or.inl ⟨v, h, fun r w hr hx => ?_⟩
      have a := (gs.2.2 r w).1 (Or.inl hr)
      exact hmin r w a.1 a.2.1 a.2.2 hx
    · refine Or.inr ⟨v, h, fun r w hr hx => ?_⟩
      have a := (gs.2.2 r w).1 (Or.inr hr)
      exact hmin r w a.1 a.2.1 a.2.2 hx

/-- `s` is a sub-tree (a `*CIDRNode` reachable from the root) of `t`. -/
inductive Subtree : Node α → Node α → Prop
  | refl (t : Node α) : Subtree t t
  | left {s l : Node α} (c : Pfx) (d : Option α) (r : Node α) : Subtree s l → Subtree s (node c d l r)
  | right {s r : Node α} (c : Pfx) (d : Option α) (l : Node α) : Subtree s r → Subtree s (node c d l r)

theorem Subtree.all {P : Pfx → Prop} : ∀ {s t : Node α}, Subtree s t → t.All P → s.All P := by
  intro s t h
  induction h with
  | refl => exact id
  | left c d r _ ih => intro ha; exact ih ha.2.1
  | right c d l _ ih => intro ha; exact ih ha.2.2

/-- Walking from the root to the CIDR of any node of the trie finds that node.  This is
what makes Go's `t.ClosestDescendants(buf, child.cidr)` (a fresh walk from the root) equal
to recursing into `child` directly, as the model's `closestOf` does. -/
theorem getNode_subtree : ∀ {s t : Node α}, Subtree s t → t.Inv W → ∀ {c' d' l' r'},
    s = node c' d' l' r' → t.getNode W c' = s := by
  intro s t h
  induction h with
  | refl =>
    intro hi c' d' l' r' hs
    subst hs
    unfold getNode
    have := contains_of_covers hi.1 hi.1 (covers_refl hi.1)
    simp [this]
  | left c d r hsub ih =>
    intro hi c' d' l' r' hs
    have hu := (Subtree.all hsub hi.2.1)
    rw [hs] at hu
    have hu := hu.1
    have hcont := contains_of_covers hi.1 hu.1 hu.2.1
    have hb : nthBit W c'.addr (c.len + 1) = 0 := hu.2.2.2
    unfold getNode
    simp only [hcont, Bool.not_true, Bool.false_eq_true, if_false, hu.2.ne_self, hb, if_true]
    exact ih hi.2.2.2.1 hs
  | right c d l hsub ih =>
    intro hi c' d' l' r' hs
    have hu := (Subtree.all hsub hi.2.2.1)
    rw [hs] at hu
    have hu := hu.1
    have hcont := contains_of_covers hi.1 hu.1 hu.2.1
    have hb : nthBit W c'.addr (c.len + 1) = 1 := hu.2.2.2
    unfold getNode
    simp only [hcont, Bool.not_true, Bool.false_eq_true, if_false, hu.2.ne_self, hb]
    exact ih hi.2.2.2.2.1 hs

theorem get_node_eq (c : Pfx) (d : Option α) (l r : Node α) (q : Pfx) :
    (node c d l r).get W q =
      if !c.contains W q.addr then none else if q = c then d
      else if nthBit W q.addr (c.len + 1) = 0 then l.get W q else r.get W q := by
  unfold Node.get
  conv => lhs; unfold getNode
  by_cases h1 : (!c.contains W q.addr) = true
  · simp only [h1, if_true]
  · simp only [h1, Bool.false_eq_true, if_false]
    by_cases h2 : q = c
    · simp only [h2, if_true]
    · simp only [h2, if_false]
      by_cases h3 : nthBit W q.addr (c.len + 1) = 0
      · simp only [h3, if_true]
      · simp only [h3, if_false]

/-- `LookupPath`: with accumulator `buf`. -/
theorem lookupPathGo_spec : ∀ {t : Node α}, t.Inv W → ∀ {q : Pfx}, q.WF W → ∀ buf,
    t.lookupPathGo W q buf =
      if (t.get W q).isSome then buf ++ t.toList.filter (fun e => e.1.covers W q) else []
  | .nil, _, q, _, buf => by simp [lookupPathGo, Node.get, getNode]
  | .node c d l r, hi, q, hq, buf => by
    have hc := hi.1
    have ihl := fun b => lookupPathGo_spec hi.2.2.2.1 hq (t := l) b
    have ihr := fun b => lookupPathGo_spec hi.2.2.2.2.1 hq (t := r) b
    have hfl : ∀ {j : Nat} {ch : Node α}, ch.All (fun x => x.WF W ∧ Under W c j x) →
        nthBit W q.addr (c.len + 1) ≠ j → ch.toList.filter (fun e => e.1.covers W q) = [] := by
      intro j ch ha hb
      rw [List.filter_eq_nil_iff]
      intro e he hx
      exact hb (side_of_covers hc hq (All.mem (p := e.1) (v := e.2) ha he) hx)
    have hlong : ∀ {j : Nat} {ch : Node α}, ch.All (fun x => x.WF W ∧ Under W c j x) → q.len ≤ c.len →
        ch.toList.filter (fun e => e.1.covers W q) = [] := by
      intro j ch ha hl
      rw [List.filter_eq_nil_iff]
      intro e he hx
      have hu := All.mem (p := e.1) (v := e.2) ha he
      have := covers_len hu.1 hq hx
      have := hu.2.2.1
      omega
    have hltl : (l.get W q).isSome = true → c.len < q.len ∧ c.covers W q = true := by
      intro hs
      obtain ⟨v, hv⟩ := Option.isSome_iff_exists.1 hs
      have := All.mem hi.2.1 ((get_iff hi.2.2.2.1 hq).1 hv)
      exact ⟨this.2.2.1, this.2.1⟩
    have hltr : (r.get W q).isSome = true → c.len < q.len ∧ c.covers W q = true := by
      intro hs
      obtain ⟨v, hv⟩ := Option.isSome_iff_exists.1 hs
      have := All.mem hi.2.2.1 ((get_iff hi.2.2.2.2.1 hq).1 hv)
      exact ⟨this.2.2.1, this.2.1⟩
    rw [get_node_eq]
    unfold lookupPathGo
    split
    · simp
    · simp only
      split
      · rename_i he
        subst he
        cases d with
        | none => simp
        | some v =>
          simp only [Option.isSome_some, if_true, Option.isNone_some, Bool.false_eq_true, if_false, toList,
            List.filter_append, hlong hi.2.1 (Nat.le_refl _), hlong hi.2.2.1 (Nat.le_refl _), List.append_nil]
          simp [covers_refl hq]
      · split
        · rename_i hb
          rw [ihl]
          by_cases hs : (l.get W q).isSome = true
          · have := hltl hs
            cases d <;>
              simp [hs, toList, List.filter_append, hfl hi.2.2.1 (show nthBit W q.addr (c.len + 1) ≠ 1 by omega), this.2]
          · simp [hs]
        · rename_i hb
          rw [ihr]
          by_cases hs : (r.get W q).isSome = true
          · have := hltr hs
            cases d <;> simp [hs, toList, List.filter_append, hfl hi.2.1 hb, this.2]
          · simp [hs]

end CalicoVerif.C36
