import CalicoVerif.Model.C17
namespace CalicoVerif.C17

namespace Map
variable {α : Type}
theorem get_erase (m : Map α) (k k' : String) :
    (m.erase k).get k' = if k' = k then none else m.get k' := by
  induction m with
  | nil => simp [erase, get, List.lookup]
  | cons p m ih =>
    obtain ⟨a, b⟩ := p
    simp only [erase, get] at ih ⊢
    by_cases h : a = k
    · subst h
      simp only [List.filter, bne_self_eq_false]
      rw [ih]
      by_cases h2 : k' = a
      · simp [h2]
      · have h3 : (k' == a) = false := by simp [h2]
        simp [h2, List.lookup, h3]
    · have : (a != k) = true := by simp [h]
      simp only [List.filter, this, List.lookup]
      by_cases h2 : k' = a
      · subst h2; simp [h]
      · have : (k' == a) = false := by simp [h2]
        simp only [this]; exact ih

theorem get_set (m : Map α) (k k' : String) (v : α) :
    (m.set k v).get k' = if k' = k then some v else m.get k' := by
  simp only [set, get, List.lookup]
  by_cases h : k' = k
  · subst h; simp
  · have : (k' == k) = false := by simp [h]
    simp only [this, h, if_false]
    have := get_erase m k k'
    simp only [get, h, if_false] at this
    exact this
end Map

/-! ### class_priority_wins -/

theorem better_trans {a b c : Want × Nat} (h1 : better a b = true) (h2 : better b c = true) :
    better a c = true := by
  simp only [better, Bool.or_eq_true, Bool.and_eq_true, decide_eq_true_eq, beq_iff_eq] at *
  omega

theorem better_irrefl_of {a b : Want × Nat} (h : better a b = true) : better b a = false := by
  simp only [better, Bool.or_eq_true, Bool.and_eq_true, decide_eq_true_eq, beq_iff_eq] at h
  simp only [better, Bool.or_eq_false_iff, Bool.and_eq_false_iff, decide_eq_false_iff_not, beq_eq_false_iff_ne]
  omega

/-- If nobody beats `b` and `c` does not beat `b`... : negative transitivity. -/
theorem not_better_of {x b c : Want × Nat} (hxb : better x b = false) (hcb : better c b = true) :
    better x c = false := by
  simp only [better, Bool.or_eq_true, Bool.and_eq_true, decide_eq_true_eq, beq_iff_eq] at hcb
  simp only [better, Bool.or_eq_false_iff, Bool.and_eq_false_iff, decide_eq_false_iff_not, beq_eq_false_iff_ne] at hxb ⊢
  omega

def pick (acc : Option (Want × Nat)) (c : Want × Nat) : Option (Want × Nat) :=
  match acc with
  | none => some c
  | some b => if better c b then some c else some b

theorem foldl_pick_spec : ∀ (cands : List (Want × Nat)) (acc : Option (Want × Nat)),
    (∀ b, acc = some b → True) →
    ∀ r, cands.foldl pick acc = some r →
      ((acc = some r ∨ r ∈ cands) ∧ (∀ x ∈ cands, better x r = false) ∧ (∀ b, acc = some b → better b r = false)) := by
  intro cands
  induction cands with
  | nil =>
    intro acc _ r h
    simp only [List.foldl] at h
    refine ⟨Or.inl h, by simp, ?_⟩
    intro b hb; rw [h] at hb; cases hb
    simp [better]
  | cons c cs ih =>
    intro acc _ r h
    simp only [List.foldl] at h
    have := ih (pick acc c) (fun _ _ => trivial) r h
    obtain ⟨hmem, hall, hacc⟩ := this
    cases acc with
    | none =>
      simp only [pick] at hmem hacc
      refine ⟨Or.inr ?_, ?_, by simp⟩
      · rcases hmem with hm | hm
        · simp only [Option.some.injEq] at hm; subst hm; exact List.mem_cons_self
        · exact List.mem_cons_of_mem _ hm
      · intro x hx
        rcases List.mem_cons.1 hx with rfl | hx
        · exact hacc _ rfl
        · exact hall x hx
    | some b =>
      simp only [pick] at hmem hacc
      by_cases hcb : better c b = true
      · simp only [hcb, if_true] at hmem hacc
        have hcr := hacc c rfl
        refine ⟨?_, ?_, ?_⟩
        · rcases hmem with hm | hm
          · simp only [Option.some.injEq] at hm; subst hm; exact Or.inr List.mem_cons_self
          · exact Or.inr (List.mem_cons_of_mem _ hm)
        · intro x hx
          rcases List.mem_cons.1 hx with rfl | hx
          · exact hcr
          · exact hall x hx
        · intro b' hb'; cases hb'
          -- b is beaten by c, and c does not beat r
          cases hbr : better b r with
          | false => rfl
          | true =>
            have := better_trans hcb hbr
            rw [hcr] at this; exact absurd this (by simp)
      · have hcb' : better c b = false := by simpa using hcb
        simp only [hcb', Bool.false_eq_true, if_false] at hmem hacc
        have hbr := hacc b rfl
        refine ⟨?_, ?_, ?_⟩
        · rcases hmem with hm | hm
          · exact Or.inl hm
          · exact Or.inr (List.mem_cons_of_mem _ hm)
        · intro x hx
          rcases List.mem_cons.1 hx with rfl | hx
          · cases hxr : better x r with
            | false => rfl
            | true =>
              -- x beats r, b does not beat r... need: x beats b? use r vs b
              rcases hmem with hm | hm
              · simp only [Option.some.injEq] at hm; subst hm; rw [hcb'] at hxr; exact absurd hxr (by simp)
              · have : better r b = false ∨ better r b = true := by cases better r b <;> simp
                rcases this with h0 | h1
                · -- neither r beats b nor b beats r: same rank; x beats r ⇒ x beats b
                  simp only [better, Bool.or_eq_true, Bool.and_eq_true, decide_eq_true_eq, beq_iff_eq] at hxr
                  simp only [better, Bool.or_eq_false_iff, Bool.and_eq_false_iff, decide_eq_false_iff_not, beq_eq_false_iff_ne] at h0 hbr hcb'
                  omega
                · have := better_trans hxr h1
                  rw [hcb'] at this; exact absurd this (by simp)
          · exact hall x hx
        · intro b' hb'; cases hb'; exact hbr

end CalicoVerif.C17
