import CalicoVerif.Proofs.C01Res
/-! C01 helper: the PolicyResolver's endpoint and policy TABLES are the datastore's.

The datastore's endpoints and policies are numbered by the harness (`nid`); the graph's resolver keys its
tables by the real keys.  Given a consistent numbering (`Numbering`: number ↦ key injective, locality a
function of the number — true of real keys: the host name is part of a workload/host endpoint key), after
ANY history the resolver's `endpoints` table is exactly the datastore's LOCAL endpoints and its
`allPolicies` table is exactly `ExtractPolicyMetadata` of the datastore's policies. -/
namespace CalicoVerif.C01
open CalicoVerif C02

theorem foldl_neutral (evs : List C03.Event) (h : ∀ e ∈ evs, Neutral e) : ∀ r : C03.Resolver,
    (evs.foldl C03.Resolver.step r).endpoints = r.endpoints ∧
    (evs.foldl C03.Resolver.step r).allPolicies = r.allPolicies := by
  induction evs with
  | nil => intro r; exact ⟨rfl, rfl⟩
  | cons e t ih =>
    intro r
    have h1 := (h e (List.mem_cons_self ..)).2 r
    have h2 := ih (fun x hx => h x (List.mem_cons_of_mem _ hx)) (r.step e)
    simp only [List.foldl_cons]
    exact ⟨h2.1.trans h1.1, h2.2.trans h1.2⟩

theorem tables_rel {g g' : Graph} (h : ResRel g g') :
    g'.res.endpoints = g.res.endpoints ∧ g'.res.allPolicies = g.res.allPolicies := by
  obtain ⟨evs, p, r⟩ := h.evs
  rw [r]
  exact foldl_neutral evs (fun e he => (p e he).2) g.res

/-- a consistent numbering of endpoints and policies -/
structure Numbering where
  ek : Nat → EpKey
  lc : Nat → Bool
  pk : Nat → PolicyKey
  ekInj : ∀ a b, ek a = ek b → a = b
  pkInj : ∀ a b, pk a = pk b → a = b

def Numbering.updOk (N : Numbering) : Upd → Prop
  | .endpoint nid key loc _ => key = N.ek nid ∧ loc = N.lc nid
  | .policy nid key _ => key = N.pk nid
  | _ => True

def Numbering.stepOk (N : Numbering) : HStep → Prop
  | .upd u => N.updOk u
  | _ => True

def epDataOf (v : EpVal) : EpData := ⟨v.tag, v.profiles⟩

structure TabInv (N : Numbering) (g : Graph) (ds : DS) : Prop where
  epsConf : ∀ p ∈ ds.eps, p.2.1 = N.ek p.1 ∧ p.2.2.1 = N.lc p.1
  polsConf : ∀ p ∈ ds.pols, p.2.1 = N.pk p.1
  eps : ∀ nid, mget g.res.endpoints (N.ek nid) =
    if N.lc nid then (mget ds.eps nid).map (fun x => epDataOf x.2.2) else none
  epsRange : ∀ e, (mget g.res.endpoints e).isSome = true → ∃ nid, e = N.ek nid
  pols : ∀ nid, mget g.res.allPolicies (N.pk nid) =
    (mget ds.pols nid).map (fun x => C03.extractPolicyMetadata x.2.pmeta)
  polsRange : ∀ k, (mget g.res.allPolicies k).isSome = true → ∃ nid, k = N.pk nid

theorem mem_setOrDel {κ β : Type} [DecidableEq κ] {k : κ} {v : Option β} {m : List (κ × β)} {p : κ × β}
    (h : p ∈ setOrDel k v m) : p ∈ m ∨ (p.1 = k ∧ v = some p.2) := by
  cases v with
  | none =>
    simp only [setOrDel, mdel, List.mem_filter] at h
    exact Or.inl h.1
  | some x =>
    simp only [setOrDel, mset, mdel, List.mem_append, List.mem_filter, List.mem_singleton] at h
    rcases h with h | h
    · exact Or.inl h.1
    · subst h; exact Or.inr ⟨rfl, rfl⟩

theorem tabInv_tables {N : Numbering} {g g' : Graph} {ds : DS} (hi : TabInv N g ds)
    (h1 : g'.res.endpoints = g.res.endpoints) (h2 : g'.res.allPolicies = g.res.allPolicies) : TabInv N g' ds :=
  ⟨hi.epsConf, hi.polsConf, by rw [h1]; exact hi.eps, by rw [h1]; exact hi.epsRange,
    by rw [h2]; exact hi.pols, by rw [h2]; exact hi.polsRange⟩

theorem tabInv_rel {N : Numbering} {g g' : Graph} {ds : DS} (hi : TabInv N g ds) (h : ResRel g g') : TabInv N g' ds :=
  tabInv_tables hi (tables_rel h).1 (tables_rel h).2

theorem step_endpoint_tables (r : C03.Resolver) (k : EpKey) (v : Option EpData) :
    (r.step (.endpoint k v)).endpoints = setOrDel k v r.endpoints ∧
    (r.step (.endpoint k v)).allPolicies = r.allPolicies := by
  cases v <;> exact ⟨rfl, rfl⟩

theorem step_policy_tables (r : C03.Resolver) (k : PolicyKey) (v : Option C03.PolicyIn) :
    (r.step (.policy k v)).endpoints = r.endpoints ∧
    (r.step (.policy k v)).allPolicies = setOrDel k (v.map C03.extractPolicyMetadata) r.allPolicies := by
  simp only [C03.Resolver.step]
  obtain ⟨_, _, f3, _, f5, _⟩ := C03.applyPolicy_fields (r.recordPolicy k v) k (v.map C03.extractPolicyMetadata)
  rw [f3, f5]
  cases v <;> exact ⟨rfl, rfl⟩

theorem step_tier_tables (r : C03.Resolver) (n : String) (v : Option (Option Int × String)) :
    (r.step (.tier n v)).endpoints = r.endpoints ∧ (r.step (.tier n v)).allPolicies = r.allPolicies := by
  simp [C03.Resolver.step]

/-- only the endpoint and policy parts of the datastore matter -/
theorem tabInv_ds {N : Numbering} {g : Graph} {ds ds' : DS} (hi : TabInv N g ds) (h1 : ds'.eps = ds.eps)
    (h2 : ds'.pols = ds.pols) : TabInv N g ds' :=
  ⟨by rw [h1]; exact hi.epsConf, by rw [h2]; exact hi.polsConf, by rw [h1]; exact hi.eps, hi.epsRange,
    by rw [h2]; exact hi.pols, hi.polsRange⟩

theorem tabInv_step (H : IdFn) {N : Numbering} {g : Graph} {ds : DS} (hi : TabInv N g ds) (u : Upd) (hu : N.updOk u) :
    TabInv N (g.step H u) (ds.apply u) := by
  cases u with
  | endpoint nid key isLocal v =>
    obtain ⟨hk, hl⟩ := hu
    subst hk; subst hl
    have hi1 : TabInv N { g with epKeys := C02.mset nid (N.ek nid) g.epKeys } ds := tabInv_tables hi rfl rfl
    -- tables of the stepped graph
    have htab : (g.step H (.endpoint nid (N.ek nid) (N.lc nid) v)).res.endpoints =
          (if N.lc nid then setOrDel (N.ek nid) (v.map epDataOf) g.res.endpoints else g.res.endpoints) ∧
        (g.step H (.endpoint nid (N.ek nid) (N.lc nid) v)).res.allPolicies = g.res.allPolicies := by
      simp only [Graph.step]
      have h3 := tables_rel (resRel_idxEndpoint
        (if N.lc nid = true then Graph.localEndpoint H { g with epKeys := C02.mset nid (N.ek nid) g.epKeys } nid (N.ek nid) v
         else { g with epKeys := C02.mset nid (N.ek nid) g.epKeys }) (N.ek nid) v)
      rw [h3.1, h3.2]
      by_cases hl : N.lc nid = true
      · simp only [hl, if_true]
        have h1 := tables_rel (resRel_arcEndpoint H { g with epKeys := C02.mset nid (N.ek nid) g.epKeys } nid (N.ek nid) v)
        have h2 := step_endpoint_tables
          (Graph.arcEndpoint H { g with epKeys := C02.mset nid (N.ek nid) g.epKeys } nid (N.ek nid) v).res (N.ek nid)
          (v.map (fun e => (⟨e.tag, e.profiles⟩ : EpData)))
        refine ⟨?_, ?_⟩
        · show ((Graph.arcEndpoint H _ nid (N.ek nid) v).res.step _).endpoints = _
          rw [h2.1, h1.1]; rfl
        · show ((Graph.arcEndpoint H _ nid (N.ek nid) v).res.step _).allPolicies = _
          rw [h2.2, h1.2]
      · simp only [hl, if_false]
        exact ⟨rfl, rfl⟩
    refine ⟨?_, hi.polsConf, ?_, ?_, by rw [htab.2]; exact hi.pols, by rw [htab.2]; exact hi.polsRange⟩
    · intro p hp
      rcases mem_setOrDel hp with h | ⟨h1, h2⟩
      · exact hi.epsConf p h
      · cases v with
        | none => cases h2
        | some x =>
          simp only [Option.map_some, Option.some.injEq] at h2
          rw [← h2, h1]; exact ⟨rfl, rfl⟩
    · intro n
      rw [htab.1]
      simp only [DS.apply]
      rw [mget_setOrDel]
      by_cases hl : N.lc nid = true
      · simp only [hl, if_true]
        rw [mget_setOrDel]
        by_cases hn : n = nid
        · subst hn; simp only [if_true, hl]
          cases v <;> rfl
        · have hne : ¬ N.ek n = N.ek nid := fun e => hn (N.ekInj _ _ e)
          simp only [hn, hne, if_false]
          exact hi.eps n
      · simp only [hl, if_false]
        by_cases hn : n = nid
        · subst hn
          have := hi.eps n
          simp only [hl, if_false] at this
          simp only [if_true, hl, if_false]
          exact this
        · simp only [hn, if_false]; exact hi.eps n
    · intro e he
      rw [htab.1] at he
      by_cases hl : N.lc nid = true
      · simp only [hl, if_true] at he
        rw [mget_setOrDel] at he
        by_cases hk : e = N.ek nid
        · exact ⟨nid, hk⟩
        · simp only [hk, if_false] at he; exact hi.epsRange e he
      · simp only [hl, if_false] at he
        exact hi.epsRange e he
  | netset name v => exact tabInv_ds (tabInv_rel hi (resRel_idxNetset g name v)) rfl rfl
  | profLabels pid v => exact tabInv_ds (tabInv_rel hi (resRel_profLabels H g pid v)) rfl rfl
  | profRules pid v => exact tabInv_ds (tabInv_rel hi (resRel_arcProfStep H g _)) rfl rfl
  | tier name v =>
    exact tabInv_ds (tabInv_tables hi (step_tier_tables g.res name v).1 (step_tier_tables g.res name v).2) rfl rfl
  | policy nid key v =>
    have hk : key = N.pk nid := hu
    subst hk
    have h1 := tables_rel (resRel_arcPolicy H { g with polKeys := C02.mset nid (N.pk nid) g.polKeys } nid v)
    have h2 := step_policy_tables (Graph.arcPolicy H { g with polKeys := C02.mset nid (N.pk nid) g.polKeys } nid v).res
      (N.pk nid) (v.map (·.pmeta))
    have htab : (g.step H (.policy nid (N.pk nid) v)).res.endpoints = g.res.endpoints ∧
        (g.step H (.policy nid (N.pk nid) v)).res.allPolicies =
          setOrDel (N.pk nid) ((v.map (·.pmeta)).map C03.extractPolicyMetadata) g.res.allPolicies := by
      simp only [Graph.step]
      refine ⟨?_, ?_⟩
      · show ((Graph.arcPolicy H _ nid v).res.step _).endpoints = _
        rw [h2.1, h1.1]
      · show ((Graph.arcPolicy H _ nid v).res.step _).allPolicies = _
        rw [h2.2, h1.2]
    refine ⟨hi.epsConf, ?_, by rw [htab.1]; exact hi.eps, by rw [htab.1]; exact hi.epsRange, ?_, ?_⟩
    · intro p hp
      rcases mem_setOrDel hp with h | ⟨ha, hb⟩
      · exact hi.polsConf p h
      · cases v with
        | none => cases hb
        | some x =>
          simp only [Option.map_some, Option.some.injEq] at hb
          rw [← hb, ha]
    · intro n
      rw [htab.2]
      simp only [DS.apply]
      rw [mget_setOrDel, mget_setOrDel]
      by_cases hn : n = nid
      · subst hn; simp only [if_true]
        cases v <;> rfl
      · have hne : ¬ N.pk n = N.pk nid := fun e => hn (N.pkInj _ _ e)
        simp only [hn, hne, if_false]
        exact hi.pols n
    · intro k hk
      rw [htab.2, mget_setOrDel] at hk
      by_cases hkk : k = N.pk nid
      · exact ⟨nid, hkk⟩
      · simp only [hkk, if_false] at hk; exact hi.polsRange k hk
  | passthru c key v =>
    exact tabInv_ds (tabInv_rel hi (resRel_emit g _ (by intro x hx; simp at hx; subst hx; cases v <;> rfl))) rfl rfl
  | other => exact hi

theorem tabInv_inSync {N : Numbering} {g : Graph} {ds : DS} (hi : TabInv N g ds) : TabInv N g.inSync ds := by
  have := (neutral_status true).2 g.res
  exact tabInv_tables hi this.1 this.2

theorem tabInv_flush {N : Numbering} {g : Graph} {ds : DS} (hi : TabInv N g ds) : TabInv N g.flush.1 ds := by
  rw [flush_eq]
  cases hf : g.res.flush with
  | none =>
    have : g.flushResolver = { g with panicked := true } := by unfold Graph.flushResolver; rw [hf]
    refine tabInv_tables hi ?_ ?_
    · show g.flushResolver.res.endpoints = _; rw [this]
    · show g.flushResolver.res.allPolicies = _; rw [this]
  | some x =>
    obtain ⟨r, calls⟩ := x
    obtain ⟨e1, _, _⟩ := flushResolver_some hf
    obtain ⟨f1, _, f3, _⟩ := C03.flush_fields hf
    refine tabInv_tables hi ?_ ?_
    · show g.flushResolver.res.endpoints = _; rw [e1, f1]
    · show g.flushResolver.res.allPolicies = _; rw [e1, f3]

theorem tabInv_run (H : IdFn) {N : Numbering} : ∀ (h : List HStep) {g : Graph} {ds : DS},
    TabInv N g ds → (∀ st ∈ h, N.stepOk st) →
    TabInv N (run H g h).1 (h.foldl (fun ds st => match st with
      | .upd u => ds.apply u
      | _ => ds) ds)
  | [], _, _, hi, _ => hi
  | .upd u :: t, g, ds, hi, hin => by
    simp only [run, List.foldl_cons]
    exact tabInv_run H t (tabInv_step H hi u (hin _ (List.mem_cons_self ..))) (fun st hst => hin st (List.mem_cons_of_mem _ hst))
  | .inSync :: t, g, ds, hi, hin => by
    simp only [run, List.foldl_cons]
    exact tabInv_run H t (tabInv_inSync hi) (fun st hst => hin st (List.mem_cons_of_mem _ hst))
  | .flush :: t, g, ds, hi, hin => by
    simp only [run, List.foldl_cons]
    exact tabInv_run H t (tabInv_flush hi) (fun st hst => hin st (List.mem_cons_of_mem _ hst))

theorem tabInv_new (N : Numbering) (s : Bool) : TabInv N (Graph.new s) {} :=
  ⟨(by intro p hp; cases hp), (by intro p hp; cases hp), (by intro n; simp [Graph.new, mget]),
    (by intro e he; simp [Graph.new, mget] at he), (by intro n; simp [Graph.new, mget]),
    (by intro e he; simp [Graph.new, mget] at he)⟩

/-! ### reading the invariant in the specification's terms -/

theorem mget_mem {κ β : Type} [DecidableEq κ] {m : List (κ × β)} {k : κ} {v : β} (h : mget m k = some v) : (k, v) ∈ m := by
  induction m with
  | nil => cases h
  | cons p t ih =>
    obtain ⟨k', v'⟩ := p
    simp only [mget] at h
    by_cases hk : k' = k
    · simp only [hk, if_true, Option.some.injEq] at h; subst hk; subst h; exact List.mem_cons_self ..
    · simp only [hk, if_false] at h; exact List.mem_cons_of_mem _ (ih h)

/-- the local endpoints of a conforming endpoint list, looked up by real key -/
theorem mget_localEps (N : Numbering) (m : List (Nat × (EpKey × Bool × EpVal)))
    (hc : ∀ p ∈ m, p.2.1 = N.ek p.1 ∧ p.2.2.1 = N.lc p.1) (nid : Nat) :
    mget (m.filterMap (fun p => if p.2.2.1 then some (p.2.1, p.2.2.2) else none)) (N.ek nid) =
      if N.lc nid then (mget m nid).map (fun x => x.2.2) else none := by
  induction m with
  | nil => simp [mget]
  | cons p t ih =>
    obtain ⟨n, k, l, v⟩ := p
    obtain ⟨hk, hl⟩ := hc (n, k, l, v) (List.mem_cons_self ..)
    simp only [] at hk hl
    subst hk; subst hl
    have ih' := ih (fun q hq => hc q (List.mem_cons_of_mem _ hq))
    by_cases hn : n = nid
    · subst hn
      cases hl : N.lc n with
      | true => simp [mget, hl]
      | false =>
        rw [hl] at ih'
        simpa [mget, hl] using ih'
    · have hne : ¬ N.ek n = N.ek nid := fun e => hn (N.ekInj _ _ e)
      cases hl : N.lc n with
      | true => simpa [mget, hl, hne, hn] using ih'
      | false => simpa [mget, hl, hn] using ih'

theorem mget_polMetas (N : Numbering) (m : List (Nat × (PolicyKey × PolVal))) (hc : ∀ p ∈ m, p.2.1 = N.pk p.1) (nid : Nat) :
    mget (m.map (fun p => (p.2.1, C03.extractPolicyMetadata p.2.2.pmeta))) (N.pk nid) =
      (mget m nid).map (fun x => C03.extractPolicyMetadata x.2.pmeta) := by
  induction m with
  | nil => simp [mget]
  | cons p t ih =>
    obtain ⟨n, k, v⟩ := p
    have hk := hc (n, k, v) (List.mem_cons_self ..)
    simp only [] at hk
    subst hk
    have ih' := ih (fun q hq => hc q (List.mem_cons_of_mem _ hq))
    simp only [List.map_cons, mget]
    by_cases hn : n = nid
    · subst hn; simp
    · have hne : ¬ N.pk n = N.pk nid := fun e => hn (N.pkInj _ _ e)
      simp only [hn, hne, if_false]; exact ih'

/-- the resolver's endpoint table = the datastore's local endpoints -/
theorem tabInv_endpoints {N : Numbering} {g : Graph} {ds : DS} (hi : TabInv N g ds) (e : EpKey) :
    mget g.res.endpoints e = (mget ds.localEps e).map (fun v => (⟨v.tag, v.profiles⟩ : EpData)) := by
  by_cases hr : ∃ nid, e = N.ek nid
  · obtain ⟨nid, rfl⟩ := hr
    rw [hi.eps nid]
    unfold DS.localEps
    rw [mget_localEps N ds.eps hi.epsConf nid]
    by_cases hl : N.lc nid = true
    · simp only [hl, if_true]
      cases mget ds.eps nid <;> rfl
    · simp only [hl, if_false]; rfl
  · have h1 : mget g.res.endpoints e = none := by
      cases h : mget g.res.endpoints e with
      | none => rfl
      | some v => exact absurd (hi.epsRange e (by rw [h]; rfl)) hr
    have h2 : mget ds.localEps e = none := by
      cases h : mget ds.localEps e with
      | none => rfl
      | some v =>
        exfalso
        have hm := mget_mem h
        unfold DS.localEps at hm
        obtain ⟨p, hp, hpe⟩ := List.mem_filterMap.mp hm
        by_cases hl : p.2.2.1 = true
        · simp only [hl, if_true, Option.some.injEq, Prod.mk.injEq] at hpe
          exact hr ⟨p.1, by rw [← hpe.1]; exact (hi.epsConf p hp).1⟩
        · simp only [hl, if_false] at hpe
          cases hpe
    rw [h1, h2]; rfl

/-- the resolver's policy table = the datastore's policy metadata -/
theorem tabInv_policies {N : Numbering} {g : Graph} {ds : DS} (hi : TabInv N g ds) (k : PolicyKey) :
    mget g.res.allPolicies k = mget ds.polMetas k := by
  by_cases hr : ∃ nid, k = N.pk nid
  · obtain ⟨nid, rfl⟩ := hr
    rw [hi.pols nid]
    unfold DS.polMetas
    rw [mget_polMetas N ds.pols hi.polsConf nid]
  · have h1 : mget g.res.allPolicies k = none := by
      cases h : mget g.res.allPolicies k with
      | none => rfl
      | some v => exact absurd (hi.polsRange k (by rw [h]; rfl)) hr
    have h2 : mget ds.polMetas k = none := by
      cases h : mget ds.polMetas k with
      | none => rfl
      | some v =>
        exfalso
        have hm := mget_mem h
        unfold DS.polMetas at hm
        obtain ⟨p, hp, hpe⟩ := List.mem_map.mp hm
        simp only [Prod.mk.injEq] at hpe
        exact hr ⟨p.1, by rw [← hpe.1]; exact hi.polsConf p hp⟩
    rw [h1, h2]

/-- RESOLVER TABLES = DATASTORE, for every consistently numbered history. -/
theorem resolver_tables_eq_datastore (H : IdFn) (s : Bool) (h : List HStep) (N : Numbering) (hN : ∀ st ∈ h, N.stepOk st) :
    (∀ e, mget (run H (Graph.new s) (h ++ [.flush])).1.res.endpoints e =
      (mget (lastState h).localEps e).map (fun v => (⟨v.tag, v.profiles⟩ : EpData))) ∧
    (∀ k, mget (run H (Graph.new s) (h ++ [.flush])).1.res.allPolicies k = mget (lastState h).polMetas k) := by
  have hi := tabInv_run H h (tabInv_new N s) hN
  have hf := tabInv_flush hi
  rw [← run_snoc_flush] at hf
  exact ⟨tabInv_endpoints hf, tabInv_policies hf⟩

end CalicoVerif.C01
