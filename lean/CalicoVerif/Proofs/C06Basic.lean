import CalicoVerif.Model.C06Parser
/-!
C06 helper definitions: induction principle for `Node`, token-level printer
`toks`, the parser's negation collapsing `collapse`, well-formedness `WF`.
-/
namespace CalicoVerif.C06

set_option linter.unusedVariables false in
/-- Induction principle for the nested inductive `Node`. -/
theorem Node.ind {P : Node → Prop}
    (eq : ∀ l v, P (.eq l v)) (ne : ∀ l v, P (.ne l v)) (contains : ∀ l v, P (.contains l v))
    (startsWith : ∀ l v, P (.startsWith l v)) (endsWith : ∀ l v, P (.endsWith l v))
    (inSet : ∀ l vs, P (.inSet l vs)) (notInSet : ∀ l vs, P (.notInSet l vs))
    (has : ∀ l, P (.has l)) (all : P .all) (global : P .global)
    (not : ∀ n, P n → P (.not n))
    (and : ∀ ns, (∀ n ∈ ns, P n) → P (.and ns))
    (or : ∀ ns, (∀ n ∈ ns, P n) → P (.or ns)) : ∀ t, P t
  | .eq l v => eq l v
  | .ne l v => ne l v
  | .contains l v => contains l v
  | .startsWith l v => startsWith l v
  | .endsWith l v => endsWith l v
  | .inSet l vs => inSet l vs
  | .notInSet l vs => notInSet l vs
  | .has l => has l
  | .all => all
  | .global => global
  | .not n => not n (Node.ind eq ne contains startsWith endsWith inSet notInSet has all global not and or n)
  | .and ns => and ns (fun n hn => Node.ind eq ne contains startsWith endsWith inSet notInSet has all global not and or n)
  | .or ns => or ns (fun n hn => Node.ind eq ne contains startsWith endsWith inSet notInSet has all global not and or n)
termination_by t => sizeOf t
decreasing_by
  all_goals simp_wf
  all_goals first | omega | (have := List.sizeOf_lt_of_mem hn; omega)

/-! ### negation collapsing done by `parseOperation` -/

/-- `if negated then &NotNode{sel} else sel`. -/
def wrapNot (b : Bool) (n : Node) : Node := if b then .not n else n

mutual
/-- What `parseOperation` builds from the canonical text of a node when it has
already seen an odd (`b = true`) / even number of `!`: stacked `!` are folded
into one boolean. -/
def collapseNeg : Bool → Node → Node
  | b, .not n => collapseNeg (!b) n
  | b, .and ns => wrapNot b (.and (collapseList ns))
  | b, .or ns => wrapNot b (.or (collapseList ns))
  | b, .eq l v => wrapNot b (.eq l v)
  | b, .ne l v => wrapNot b (.ne l v)
  | b, .contains l v => wrapNot b (.contains l v)
  | b, .startsWith l v => wrapNot b (.startsWith l v)
  | b, .endsWith l v => wrapNot b (.endsWith l v)
  | b, .inSet l vs => wrapNot b (.inSet l vs)
  | b, .notInSet l vs => wrapNot b (.notInSet l vs)
  | b, .has l => wrapNot b (.has l)
  | b, .all => wrapNot b .all
  | b, .global => wrapNot b .global
def collapseList : List Node → List Node
  | [] => []
  | n :: ns => collapseNeg false n :: collapseList ns
end

/-- The node obtained by re-parsing the canonical text. -/
def collapse (n : Node) : Node := collapseNeg false n

theorem collapseList_eq_map (ns : List Node) : collapseList ns = ns.map collapse := by
  induction ns with
  | nil => rfl
  | cons n ns ih => simp [collapseList, collapse, ih]

/-- "the operand of a Not is not a Not", everywhere in the tree. -/
def Node.isNot : Node → Bool
  | .not _ => true
  | _ => false

mutual
def NoNestedNot : Node → Prop
  | .not n => n.isNot = false ∧ NoNestedNot n
  | .and ns => NoNestedNotList ns
  | .or ns => NoNestedNotList ns
  | _ => True
def NoNestedNotList : List Node → Prop
  | [] => True
  | n :: ns => NoNestedNot n ∧ NoNestedNotList ns
end

theorem noNestedNotList_iff (ns : List Node) : NoNestedNotList ns ↔ ∀ n ∈ ns, NoNestedNot n := by
  induction ns with
  | nil => simp [NoNestedNotList]
  | cons n ns ih => simp [NoNestedNotList, ih]

theorem collapseNeg_of_not_isNot {n : Node} (h : n.isNot = false) (b : Bool) :
    collapseNeg b n = wrapNot b (collapseNeg false n) := by
  cases n <;> simp_all [collapseNeg, wrapNot, Node.isNot]

/-- Without a nested negation, re-parsing gives the node back. -/
theorem collapse_eq_self : ∀ t, NoNestedNot t → collapse t = t := by
  intro t
  induction t using Node.ind with
  | not n ih =>
    intro h
    simp only [NoNestedNot] at h
    unfold collapse at *
    rw [collapseNeg, Bool.not_false, collapseNeg_of_not_isNot h.1, ih h.2]
    rfl
  | and ns ih =>
    intro h
    simp only [NoNestedNot, noNestedNotList_iff] at h
    simp only [collapse, collapseNeg, wrapNot, collapseList_eq_map, Bool.false_eq_true, if_false]
    congr 1
    exact (List.map_congr_left (fun n hn => ih n hn (h n hn))).trans (List.map_id _)
  | or ns ih =>
    intro h
    simp only [NoNestedNot, noNestedNotList_iff] at h
    simp only [collapse, collapseNeg, wrapNot, collapseList_eq_map, Bool.false_eq_true, if_false]
    congr 1
    exact (List.map_congr_left (fun n hn => ih n hn (h n hn))).trans (List.map_id _)
  | _ => intros; rfl

/-! ### evaluation is invariant under collapsing -/

theorem evalAll_eq (labels : Labels) (ns : List Node) :
    Node.evalAll labels ns = ns.all (·.eval labels) := by
  induction ns with
  | nil => rfl
  | cons n ns ih => simp [Node.evalAll, ih]

theorem evalAny_eq (labels : Labels) (ns : List Node) :
    Node.evalAny labels ns = ns.any (·.eval labels) := by
  induction ns with
  | nil => rfl
  | cons n ns ih => simp [Node.evalAny, ih]

theorem all_congr_mem {α} {f g : α → Bool} : ∀ {l : List α}, (∀ a ∈ l, f a = g a) → l.all f = l.all g
  | [], _ => rfl
  | a :: l, h => by
    simp only [List.all_cons, h a (List.mem_cons_self ..)]
    rw [all_congr_mem (fun x hx => h x (List.mem_cons_of_mem _ hx))]

theorem any_congr_mem {α} {f g : α → Bool} : ∀ {l : List α}, (∀ a ∈ l, f a = g a) → l.any f = l.any g
  | [], _ => rfl
  | a :: l, h => by
    simp only [List.any_cons, h a (List.mem_cons_self ..)]
    rw [any_congr_mem (fun x hx => h x (List.mem_cons_of_mem _ hx))]

theorem eval_wrapNot (labels : Labels) (b : Bool) (n : Node) :
    (wrapNot b n).eval labels = (b ^^ n.eval labels) := by
  cases b <;> simp [wrapNot, Node.eval]

theorem eval_collapseNeg (labels : Labels) : ∀ t b,
    (collapseNeg b t).eval labels = (b ^^ t.eval labels) := by
  intro t
  induction t using Node.ind with
  | not n ih => intro b; rw [collapseNeg, ih]; cases b <;> simp [Node.eval]
  | and ns ih =>
    intro b
    rw [collapseNeg, eval_wrapNot]
    congr 1
    simp only [Node.eval, evalAll_eq, collapseList_eq_map, List.all_map]
    apply all_congr_mem
    intro n hn
    simpa [collapse] using ih n hn false
  | or ns ih =>
    intro b
    rw [collapseNeg, eval_wrapNot]
    congr 1
    simp only [Node.eval, evalAny_eq, collapseList_eq_map, List.any_map]
    apply any_congr_mem
    intro n hn
    simpa [collapse] using ih n hn false
  | _ => intro b; rw [collapseNeg, eval_wrapNot]

/-- Collapsing stacked negations preserves the meaning on every label map. -/
theorem eval_collapse (labels : Labels) (t : Node) : (collapse t).eval labels = t.eval labels := by
  simp [collapse, eval_collapseNeg]

/-! ### token-level printer -/

def setTailToks : List Str → List Token
  | [] => []
  | v :: vs => .comma :: .str v :: setTailToks vs

def setToks : List Str → List Token
  | [] => []
  | v :: vs => .str v :: setTailToks vs

mutual
/-- The tokens of the canonical text (without the final EOF). -/
def toks : Node → List Token
  | .eq l v => [.label l, .eq, .str v]
  | .ne l v => [.label l, .ne, .str v]
  | .contains l v => [.label l, .contains, .str v]
  | .startsWith l v => [.label l, .startsWith, .str v]
  | .endsWith l v => [.label l, .endsWith, .str v]
  | .inSet l vs => [.label l, .in, .lBrace] ++ setToks vs ++ [.rBrace]
  | .notInSet l vs => [.label l, .notIn, .lBrace] ++ setToks vs ++ [.rBrace]
  | .has l => [.has l]
  | .all => [.all]
  | .global => [.global]
  | .not n => .not :: toks n
  | .and ns => .lParen :: (joinToks .and ns ++ [.rParen])
  | .or ns => .lParen :: (joinToks .or ns ++ [.rParen])
def joinToks (sep : Token) : List Node → List Token
  | [] => []
  | n :: ns => toks n ++ tailToks sep ns
def tailToks (sep : Token) : List Node → List Token
  | [] => []
  | n :: ns => sep :: (toks n ++ tailToks sep ns)
end

/-! ### well-formedness of parser output -/

/-- a label the tokenizer can produce (`cutIdentifier` succeeded). -/
def ValidLabel (l : Str) : Prop := l ≠ [] ∧ l.length ≤ maxLabelLength ∧ ∀ c ∈ l, identifierChar c = true

/-- a string literal the tokenizer can produce: it lacks `"` or lacks `'`. -/
def QuoteSafe (v : Str) : Prop := ('"' ∈ v → '\'' ∉ v)

/-- strictly ascending (adjacent elements). -/
def StrictSorted : List Str → Prop
  | [] => True
  | [_] => True
  | a :: b :: rest => strLt a b = true ∧ StrictSorted (b :: rest)

mutual
/-- What every parser-built tree satisfies (apart from `NoNestedNot`). -/
def WF : Node → Prop
  | .eq l v => ValidLabel l ∧ QuoteSafe v
  | .ne l v => ValidLabel l ∧ QuoteSafe v
  | .contains l v => ValidLabel l ∧ QuoteSafe v
  | .startsWith l v => ValidLabel l ∧ QuoteSafe v
  | .endsWith l v => ValidLabel l ∧ QuoteSafe v
  | .inSet l vs => ValidLabel l ∧ (∀ v ∈ vs, QuoteSafe v) ∧ StrictSorted vs
  | .notInSet l vs => ValidLabel l ∧ (∀ v ∈ vs, QuoteSafe v) ∧ StrictSorted vs
  | .has l => ValidLabel l
  | .all => True
  | .global => True
  | .not n => WF n
  | .and ns => 2 ≤ ns.length ∧ WFList ns
  | .or ns => 2 ≤ ns.length ∧ WFList ns
def WFList : List Node → Prop
  | [] => True
  | n :: ns => WF n ∧ WFList ns
end

theorem wfList_iff (ns : List Node) : WFList ns ↔ ∀ n ∈ ns, WF n := by
  induction ns with
  | nil => simp [WFList]
  | cons n ns ih => simp [WFList, ih]

end CalicoVerif.C06
