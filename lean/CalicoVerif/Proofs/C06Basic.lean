import CalicoVerif.Model.C06Parser
/-!
C06 helper definitions: induction principle for `Node`, token-level printer
`toks`, well-formedness `WF`.
-/
namespace CalicoVerif.C06

set_option linter.unusedVariables false in
/-- Induction principle for the nested inductive `Node`. -/
theorem Node.ind {P : Node → Prop}
    (eq : ∀ l v, P (.eq l v)) (ne : ∀ l v, P (.ne l v)) (contains : ∀ l v, P (.contains l v))
    (startsWith : ∀ l v, P (.startsWith l v)) (endsWith : ∀ l v, P (.endsWith l v))
    (inSet : ∀ l vs, P (.inSet l vs)) (notInSet : ∀ l vs, P (.notInSet l vs))
    (has : ∀ l, P (.has l)) (all : P .all) (global : P .global)
    (not : ∀ n, P n → P (.not n))
    (and : ∀ ns, (∀ n ∈ ns, P n) → P (.and ns))
    (or : ∀ ns, (∀ n ∈ ns, P n) → P (.or ns)) : ∀ t, P t
  | .eq l v => eq l v
  | .ne l v => ne l v
  | .contains l v => contains l v
  | .startsWith l v => startsWith l v
  | .endsWith l v => endsWith l v
  | .inSet l vs => inSet l vs
  | .notInSet l vs => notInSet l vs
  | .has l => has l
  | .all => all
  | .global => global
  | .not n => not n (Node.ind eq ne contains startsWith endsWith inSet notInSet has all global not and or n)
  | .and ns => and ns (fun n hn => Node.ind eq ne contains startsWith endsWith inSet notInSet has all global not and or n)
  | .or ns => or ns (fun n hn => Node.ind eq ne contains startsWith endsWith inSet notInSet has all global not and or n)
termination_by t => sizeOf t
decreasing_by
  all_goals simp_wf
  all_goals first | omega | (have := List.sizeOf_lt_of_mem hn; omega)

/-- `if negated then &NotNode{sel} else sel`. -/
def wrapNot (b : Bool) (n : Node) : Node := if b then .not n else n

/-! ### token-level printer -/

def setTailToks : List Str → List Token
  | [] => []
  | v :: vs => .comma :: .str v :: setTailToks vs

def setToks : List Str → List Token
  | [] => []
  | v :: vs => .str v :: setTailToks vs

mutual
/-- The tokens of the canonical text (without the final EOF). -/
def toks : Node → List Token
  | .eq l v => [.label l, .eq, .str v]
  | .ne l v => [.label l, .ne, .str v]
  | .contains l v => [.label l, .contains, .str v]
  | .startsWith l v => [.label l, .startsWith, .str v]
  | .endsWith l v => [.label l, .endsWith, .str v]
  | .inSet l vs => [.label l, .in, .lBrace] ++ setToks vs ++ [.rBrace]
  | .notInSet l vs => [.label l, .notIn, .lBrace] ++ setToks vs ++ [.rBrace]
  | .has l => [.has l]
  | .all => [.all]
  | .global => [.global]
  | .not n => if n.isNot then .not :: .lParen :: (toks n ++ [.rParen]) else .not :: toks n
  | .and ns => .lParen :: (joinToks .and ns ++ [.rParen])
  | .or ns => .lParen :: (joinToks .or ns ++ [.rParen])
def joinToks (sep : Token) : List Node → List Token
  | [] => []
  | n :: ns => toks n ++ tailToks sep ns
def tailToks (sep : Token) : List Node → List Token
  | [] => []
  | n :: ns => sep :: (toks n ++ tailToks sep ns)
end

/-! ### well-formedness of parser output -/

/-- a label the tokenizer can produce (`cutIdentifier` succeeded). -/
def ValidLabel (l : Str) : Prop := l ≠ [] ∧ l.length ≤ maxLabelLength ∧ ∀ c ∈ l, identifierChar c = true

/-- a string literal the tokenizer can produce: it lacks `"` or lacks `'`. -/
def QuoteSafe (v : Str) : Prop := ('"' ∈ v → '\'' ∉ v)

/-- strictly ascending (adjacent elements). -/
def StrictSorted : List Str → Prop
  | [] => True
  | [_] => True
  | a :: b :: rest => strLt a b = true ∧ StrictSorted (b :: rest)

mutual
/-- What every parser-built tree satisfies (apart from `NoNestedNot`). -/
def WF : Node → Prop
  | .eq l v => ValidLabel l ∧ QuoteSafe v
  | .ne l v => ValidLabel l ∧ QuoteSafe v
  | .contains l v => ValidLabel l ∧ QuoteSafe v
  | .startsWith l v => ValidLabel l ∧ QuoteSafe v
  | .endsWith l v => ValidLabel l ∧ QuoteSafe v
  | .inSet l vs => ValidLabel l ∧ (∀ v ∈ vs, QuoteSafe v) ∧ StrictSorted vs
  | .notInSet l vs => ValidLabel l ∧ (∀ v ∈ vs, QuoteSafe v) ∧ StrictSorted vs
  | .has l => ValidLabel l
  | .all => True
  | .global => True
  | .not n => WF n
  | .and ns => 2 ≤ ns.length ∧ WFList ns
  | .or ns => 2 ≤ ns.length ∧ WFList ns
def WFList : List Node → Prop
  | [] => True
  | n :: ns => WF n ∧ WFList ns
end

theorem wfList_iff (ns : List Node) : WFList ns ↔ ∀ n ∈ ns, WF n := by
  induction ns with
  | nil => simp [WFList]
  | cons n ns ih => simp [WFList, ih]

end CalicoVerif.C06
