import CalicoVerif.Model.C01
import CalicoVerif.Props.C05
/-! C01 helper: the profile path of the ActiveRulesCalculator inside the composed graph is exactly
the C05 model run on the projection of the history. -/
namespace CalicoVerif.C01
open CalicoVerif

/-- `g'` has the same profile-path state as `g` -/
def SameProf (g g' : Graph) : Prop := g'.arcProf = g.arcProf

theorem sameProf_foldl {α : Type} (f : Graph → α → Graph) (hf : ∀ g a, SameProf g (f g a)) :
    ∀ (l : List α) (g : Graph), SameProf g (l.foldl f g)
  | [], _ => rfl
  | a :: l, g => (sameProf_foldl f hf l (f g a)).trans (hf g a)

theorem sameProf_emit (g : Graph) (cs : C02.Call |> List) : SameProf g (g.emit cs) := by
  unfold Graph.emit; split <;> rfl

theorem sameProf_idxOp (g : Graph) (op : C04.Op Str) : SameProf g (g.idxOp op) := by
  unfold Graph.idxOp
  exact (sameProf_emit _ _).trans rfl

theorem sameProf_onRsEvent (g : Graph) (e : RsEvent) : SameProf g (g.onRsEvent e) := by
  cases e with
  | ipsetActive uid d => exact (sameProf_idxOp _ _).trans (sameProf_emit _ _)
  | ipsetInactive uid => exact (sameProf_emit _ _).trans (sameProf_idxOp _ _)

theorem sameProf_rsUpdate (H : IdFn) (g : Graph) (key : RulesId) (r : Option RulesIn) :
    SameProf g (g.rsUpdate H key r) := by
  unfold Graph.rsUpdate
  simp only []
  exact (sameProf_foldl Graph.onRsEvent sameProf_onRsEvent _ _).trans rfl

theorem sameProf_scanRules (H : IdFn) (g : Graph) (key : RulesId) (r : Option RulesIn) :
    SameProf g (g.scanRules H key r) :=
  (sameProf_emit _ _).trans (sameProf_rsUpdate H g key r)

theorem sameProf_sendPolicyUpdate (H : IdFn) (g : Graph) (n : Nat) : SameProf g (g.sendPolicyUpdate H n) := by
  unfold Graph.sendPolicyUpdate
  split
  · split
    · exact sameProf_scanRules H g _ _
    · rfl
  · exact sameProf_scanRules H g _ _

theorem sameProf_onMatchEvent (H : IdFn) (g : Graph) (e : C07.Event) : SameProf g (g.onMatchEvent H e) := by
  cases e with
  | started sel item =>
    simp only [Graph.onMatchEvent]
    have key : ∀ g1 : Graph, SameProf g1 (if (!g.polActive sel) = true then g1.sendPolicyUpdate H sel else g1) := by
      intro g1; split
      · exact sameProf_sendPolicyUpdate H g1 sel
      · rfl
    exact (key { g with polEps := C02.sadd (sel, item) g.polEps }).trans rfl
  | stopped sel item =>
    simp only [Graph.onMatchEvent]
    have key : ∀ g1 : Graph, SameProf g1 (if (!g1.polActive sel) = true then g1.sendPolicyUpdate H sel else g1) := by
      intro g1; split
      · exact sameProf_sendPolicyUpdate H g1 sel
      · rfl
    exact (key { g with polEps := C02.sdel (sel, item) g.polEps }).trans rfl

theorem sameProf_lblStep (H : IdFn) (g : Graph) (r : C07.Idx × List C07.Event) : SameProf g (g.lblStep H r) := by
  unfold Graph.lblStep
  exact (sameProf_foldl _ (sameProf_onMatchEvent H) _ _).trans rfl

/-- profile events only go to the rule scanner -/
theorem sameProf_profEvents (H : IdFn) (g : Graph) (evs : List (C05.Event RulesIn)) : SameProf g (g.profEvents H evs) := by
  unfold Graph.profEvents
  apply sameProf_foldl
  intro g e
  cases e with
  | active p r => cases r <;> exact sameProf_scanRules H g _ _
  | inactive p => exact sameProf_scanRules H g _ _

theorem arcProf_arcProfStep (H : IdFn) (g : Graph) (u : C05.Upd RulesIn) :
    (g.arcProfStep H u).arcProf = C05.step g.arcProf u := by
  unfold Graph.arcProfStep
  exact sameProf_profEvents H _ _

/-- what the profile path sees of one update -/
def profUpd : Upd → Option (C05.Upd RulesIn)
  | .endpoint _ key true v => some (.endpoint (epKeyStr key) (v.map (·.profiles)))
  | .profRules pid v => some (.profileRules pid v)
  | _ => none

theorem arcProf_step (H : IdFn) (g : Graph) (u : Upd) :
    (g.step H u).arcProf = match profUpd u with
      | some pu => C05.step g.arcProf pu
      | none => g.arcProf := by
  cases u with
  | endpoint nid key isLocal v =>
    simp only [Graph.step]
    have hidx : ∀ g1 : Graph, (g1.idxEndpoint key v).arcProf = g1.arcProf := by
      intro g1; unfold Graph.idxEndpoint; cases v <;> exact sameProf_idxOp _ _
    rw [hidx]
    cases isLocal with
    | false => rfl
    | true =>
      simp only [if_true, profUpd]
      unfold Graph.localEndpoint Graph.resStep Graph.arcEndpoint
      simp only []
      have h1 := arcProf_arcProfStep H { g with epKeys := C02.mset nid key g.epKeys }
        (.endpoint (epKeyStr key) (v.map (·.profiles)))
      cases v with
      | none => exact (sameProf_lblStep H _ _).trans h1
      | some e => exact (sameProf_lblStep H _ _).trans h1
  | netset name v =>
    simp only [Graph.step, Graph.idxNetset, profUpd]
    cases v <;> exact sameProf_idxOp _ _
  | profLabels pid v =>
    simp only [Graph.step, Graph.profLabels, profUpd]
    cases v <;> exact (sameProf_idxOp _ _).trans (sameProf_lblStep H _ _)
  | profRules pid v => exact arcProf_arcProfStep H g _
  | tier name v => rfl
  | policy nid key v =>
    simp only [Graph.step, Graph.resStep, profUpd]
    unfold Graph.arcPolicy
    cases v with
    | none => exact (sameProf_lblStep H _ _).trans rfl
    | some pv =>
      simp only []
      split
      · rfl
      · unfold Graph.arcPolicyChanged
        simp only []
        split
        · rfl
        · rename_i sel _
          have h2 : SameProf { g with polKeys := C02.mset nid key g.polKeys } (Graph.lblStep H
              { g with polKeys := C02.mset nid key g.polKeys, allPolicies := C02.mset nid pv g.allPolicies }
              (C07.updateSelector g.lbl nid sel)) := (sameProf_lblStep H _ _).trans rfl
          split
          · exact (sameProf_sendPolicyUpdate H _ _).trans h2
          · exact h2
  | passthru c key v => exact sameProf_emit g _
  | other => rfl

/-- the profile-path inputs of a history -/
def profUpds : List HStep → List (C05.Upd RulesIn)
  | [] => []
  | .upd u :: t => (match profUpd u with | some pu => [pu] | none => []) ++ profUpds t
  | _ :: t => profUpds t

theorem arcProf_flush (g : Graph) : g.flush.1.arcProf = g.arcProf := by
  unfold Graph.flush
  simp only []
  split
  · exact sameProf_emit _ _
  · rfl

/-- the profile path inside the graph IS the C05 model on the projected history -/
theorem arcProf_run (H : IdFn) : ∀ (h : List HStep) (g : Graph),
    (run H g h).1.arcProf = C05.run g.arcProf (profUpds h)
  | [], g => rfl
  | .upd u :: t, g => by
    simp only [run, profUpds]
    rw [arcProf_run H t, arcProf_step]
    cases profUpd u <;> simp [C05.run]
  | .inSync :: t, g => by simp only [run, profUpds]; exact arcProf_run H t _
  | .flush :: t, g => by
    simp only [run, profUpds]
    rw [arcProf_run H t, arcProf_flush]

/-- lift validated updates back to raw ones (every value valid) -/
def rawOf : C05.Upd RulesIn → C05.RawUpd RulesIn
  | .endpoint ep v => .endpoint ep (v.map (fun ids => (ids, true)))
  | .profileRules p v => .profileRules p (v.map (fun r => (r, true)))

theorem filter_rawOf (u : C05.Upd RulesIn) : C05.filter (rawOf u) = u := by
  cases u with
  | endpoint ep v => cases v <;> rfl
  | profileRules p v => cases v <;> rfl

end CalicoVerif.C01
