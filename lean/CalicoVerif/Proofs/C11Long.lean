import CalicoVerif.Proofs.C11Total
import CalicoVerif.Proofs.C11Tramp
/-!
C11 — unsplit programs of ANY length: the block the builder assembles is the plain event list
with trampolines inserted, which preserves the semantics.
-/
namespace CalicoVerif.C11

theorem closed_jumps {P : Label → Prop} :
    ∀ (evs : List Ev) (ext : List Label), closedIn ext evs = true → (∀ l ∈ labelsOf evs, P l) → (∀ l ∈ ext, P l) →
      ∀ i l, Ev.jmp i l ∈ evs → P l := by
  intro evs
  induction evs with
  | nil => intro _ _ _ _ i l h; cases h
  | cons e es ih =>
    intro ext hc hl he i l hm
    cases e with
    | label l' =>
      simp only [closedIn] at hc
      rcases List.mem_cons.1 hm with h | h
      · cases h
      · exact ih ext hc (fun x hx => hl x (by simp [labelsOf, hx])) he i l h
    | ins j =>
      simp only [closedIn] at hc
      rcases List.mem_cons.1 hm with h | h
      · cases h
      · exact ih ext hc (fun x hx => hl x (by simpa [labelsOf] using hx)) he i l h
    | jmp j l' =>
      simp only [closedIn, Bool.and_eq_true, Bool.or_eq_true, List.contains_iff_mem] at hc
      rcases List.mem_cons.1 hm with h | h
      · cases h
        rcases hc.1 with h1 | h1
        · exact hl l (by simpa [labelsOf] using h1)
        · exact he l h1
      · exact ih ext hc.2 (fun x hx => hl x (by simpa [labelsOf] using hx)) he i l h

theorem ProgOK.buildable_act {env : Env} {st : List Byte} {r : Rules} (hok : ProgOK env st r) :
    TiersAct r.tiers ∧ TiersAct r.hostPreDnatTiers ∧ TiersAct r.hostForwardTiers ∧ TiersAct r.hostNormalTiers ∧
    ProfsAct r.profiles ∧ ProfsAct r.hostProfiles :=
  ⟨fun t ht p hp x hx => (hok.gT t ht p hp x hx).1, fun t ht p hp x hx => (hok.gHP t ht p hp x hx).1,
   fun t ht p hp x hx => (hok.gHF t ht p hp x hx).1, fun t ht p hp x hx => (hok.gHN t ht p hp x hx).1,
   fun p hp x hx => (hok.gP p hp x hx).1, fun p hp x hx => (hok.gHPR p hp x hx).1⟩


theorem isHost_not_skip {l : Label} (h : l.isHost = true) : l.isSkip = false := by
  cases l <;> simp [Label.isHost, Label.isBody, Label.isRule, Label.isTierEnd, Label.isSkip, TOFH, AHP] at h ⊢

theorem isBody_not_skip {l : Label} (h : l.isBody = true) : l.isSkip = false := by
  cases l <;> simp [Label.isBody, Label.isRule, Label.isTierEnd, Label.isSkip] at h ⊢

/-- No label of the builder's program is a trampoline-skip label, hence no jump targets one. -/
theorem compile_noSkipJ (env : Env) (st : List Byte) (r : Rules) (hok : ProgOK env st r) :
    NoSkipJ (flat (compile env.c r)) := by
  have hcl := compile_closed_act env.c r hok.buildable_act
  refine closed_jumps (P := fun l => l.isSkip = false) _ [] hcl ?_ (by intro l hl; cases hl)
  rw [flat_compile]
  intro l hl
  simp only [labelsOf_append, List.mem_append, labelsOf_footer] at hl
  rcases hl with h | (h | h) | h
  · simp [headerEvs, labelsOf, labelsOf_append, loadMapFD, mov64, movImm64, storeStack32, addImm64, call, jumpEqImm64, mk, mkJ] at h
    rcases h with rfl | rfl <;> rfl
  · exact isHost_not_skip ((decides_host env st r hok).2 l h)
  · exact isBody_not_skip ((decides_workload env st r hok _ _).2 l h)
  · have : l = .deny ∨ l = .exit ∨ l = .xdpPass ∨ l = .allow := by
      cases hx : r.forXDP <;> simp [footerLabels, hx] at h <;> tauto
    rcases this with rfl | rfl | rfl | rfl <;> rfl

/-- **Whole program on the label-level semantics, unsplit, ANY length**: the block the builder
hands to the assembler (trampolines included) runs as the reference verdict demands. -/
theorem lrun_program_long (env : Env) (st : List Byte) (r : Rules) (hok : ProgOK env st r) (hs : env.stateOK = true)
    (hnosplit : env.c.policyMapStride = 0) :
    ∃ n, expand env.c r.forXDP (compile env.c r) = [n] ∧
      ∃ o, (lrun env n (Mach.init st)).obs = some o ∧
        (expectedObs env r.forXDP (verdict env r (pktOfD st))).agrees o = true := by
  have hn := compile_noSkipJ env st r hok
  obtain ⟨n, he, hr⟩ := expand_relayed env.c r.forXDP (compile env.c r) hnosplit hn
  refine ⟨n, he, ?_⟩
  rw [(relayed_sound env n.length _ n (Nat.le_refl _) hr hn).1]
  exact lrun_program env st r hok hs

/-- ... and the assembled instructions. -/
theorem polprog_verdict_long (env : Env) (st : List Byte) (r : Rules) (hok : ProgOK env st r)
    (hs : env.stateOK = true) (hnosplit : env.c.policyMapStride = 0)
    (prog : List Insn) (hi : instructions env.c r = some (some [prog])) :
    ∃ o, (execL env prog (Mach.init st)).obs = some o ∧
      (expectedObs env r.forXDP (verdict env r (pktOfD st))).agrees o = true := by
  obtain ⟨n, he, o, ho, hag⟩ := lrun_program_long env st r hok hs hnosplit
  have hasm : assemble n = some prog := by
    unfold instructions at hi
    split at hi
    · cases hi
    · rw [he] at hi
      simp only [List.mapM_cons, List.mapM_nil, Option.some.injEq] at hi
      cases ha : assemble n with
      | none => simp [ha] at hi
      | some p => simp [ha] at hi; rw [hi]
  have hnf : (lrun env n (Mach.init st)).isFault = false := by
    cases hl : lrun env n (Mach.init st) with
    | fault => rw [hl] at ho; simp [Outcome.obs] at ho
    | «exit» _ _ => rfl
    | tail _ _ _ => rfl
  rw [assemble_sound env _ prog _ hasm hnf]
  exact ⟨o, ho, hag⟩


/-! ### A failing state-map lookup: the program drops the packet -/

theorem step_call_state_fail (env : Env) (m : Mach) (nxt : Option Insn)
    (h1 : m.reg 1 = some (mapHandle env.c.stateMapFD))
    (h2 : m.reg 2 = some (stackW + BitVec.ofInt 64 (((508 : Nat) : Int) - 512)))
    (hk : readStack m.stack 508 4 = some (toLE 0 4)) (hs : env.stateOK = false) :
    step env ⟨opCall, 0, 0, 0, helperMapLookupElem⟩ nxt m = .next ((m.clobber).setReg 0 0) := by
  have hr := region_stack 508 4 (by omega)
  have hl : m.load env (stackW + BitVec.ofInt 64 (((508 : Nat) : Int) - 512)) 4 = some 0 := by
    unfold Mach.load
    rw [hr]
    simp only [hk, Option.map_some]
    rfl
  have hn : BitVec.ofInt 64 (((508 : Nat) : Int) - 512) = 18446744073709551612#64 := by decide
  rw [hn] at hl h2
  simp [step, opCall, opLoadImm64, opJumpA, opExit, helperCall, helperMapLookupElem, h1, h2, hl, hs]

/-- The header when the state lookup fails: control goes to the `exit` label, the state is untouched. -/
theorem lrun_header_fail (env : Env) (st : List Byte) (hs : env.stateOK = false) (rest : List Ev) :
    ∃ m, m.regs.length = 11 ∧ m.st = st ∧
      lrun env (headerEvs env.c ++ rest) (Mach.init st) = goto env .exit (.label .policy :: rest) m := by
  have e1 := fun nxt => step_mov64 env (Mach.init st) 6 1 0 0 nxt ctxW (by omega) rfl
  have e2 := fun nxt => step_movImm64 env ((Mach.init st).setReg 6 ctxW) 1 0 0 nxt (by omega)
  have e3 := fun nxt => step_stx_stack' (env := env) (m := ((Mach.init st).setReg 6 ctxW).setReg 1 (sext32 0))
    (h10 := rfl) opStoreReg32 1 508 4 0 nxt (sext32 0) (Or.inr (Or.inr (Or.inl ⟨rfl, rfl⟩))) (by omega) rfl
  refine ⟨((((({ (((Mach.init st).setReg 6 ctxW).setReg 1 (sext32 0)) with
      stack := writeStack (fun _ => none) 508 (toLE 0 4) } : Mach).setReg 2 stackW).setReg 2
      (stackW + sext32 (-4))).setReg 1 (mapHandle env.c.stateMapFD)).clobber).setReg 0 0, rfl, rfl, ?_⟩
  simp only [headerEvs, mov64, movImm64, storeStack32, addImm64, call, jumpEqImm64, mk, mkJ, R0, R1, R2, R6, R9, R10,
    offStateKey, List.cons_append, List.nil_append, List.append_assoc]
  rw [lrun_label]
  refine (lrun_ins_next (e1 _)).trans ?_
  refine (lrun_ins_next (e2 _)).trans ?_
  refine (lrun_ins_next (e3 _)).trans ?_
  refine (lrun_ins_next (step_mov64 env _ 2 10 0 0 _ stackW (by omega) rfl)).trans ?_
  refine (lrun_ins_next (step_addImm64 env _ 2 0 (-4) _ stackW (by omega) rfl)).trans ?_
  refine (lrun_loadMapFD env _ 1 _ _ (by omega)).trans ?_
  refine (lrun_ins_next (step_call_state_fail env _ _ rfl rfl rfl hs)).trans ?_
  have hj := step_jcond64 (env := env) (m := ((((({ (((Mach.init st).setReg 6 ctxW).setReg 1 (sext32 0)) with
    stack := writeStack (fun _ => none) 508 (toLE 0 4) } : Mach).setReg 2 stackW).setReg 2
    (stackW + sext32 (-4))).setReg 1 (mapHandle env.c.stateMapFD)).clobber).setReg 0 0)
    opJumpEqImm64 0 0 0 none 0 (Or.inl rfl) rfl
  have hc : cond (opJumpEqImm64 / 16) (0 : Word) (sext32 0) = some true := by decide
  rw [hc] at hj
  refine (lrun_jmp_taken (by decide) hj).trans ?_
  rw [goto_cons_ins]

/-- **State lookup fails ⇒ drop**: the program exits with TC_ACT_SHOT (XDP: XDP_DROP) and leaves the
state value (hence `pol_rc`) untouched. -/
theorem lrun_program_stateFail (env : Env) (st : List Byte) (r : Rules) (hok : ProgOK env st r)
    (hs : env.stateOK = false) :
    ∃ m, m.st = st ∧ lrun env (flat (compile env.c r)) (Mach.init st) =
      .exit (sext32 (if r.forXDP then 1 else 2)) m := by
  rw [flat_compile]
  obtain ⟨m0, hl0, hst0, e0⟩ := lrun_header_fail env st hs
    ((flat (hostPart env.c r).1 ++ flat (workloadPart env.c r (hostPart env.c r).2.1 (hostPart env.c r).2.2)) ++
      footerEvs env.c r.forXDP)
  rw [e0, goto_cons_label_ne env _ m0 (by decide)]
  have hb : Label.exit ∉ labelsOf (flat (hostPart env.c r).1 ++
      flat (workloadPart env.c r (hostPart env.c r).2.1 (hostPart env.c r).2.2)) := by
    rw [labelsOf_append, List.mem_append]
    rintro (h | h)
    · have := (decides_host env st r hok).2 _ h; simp [Label.isHost, Label.isBody, Label.isRule, Label.isTierEnd, TOFH, AHP] at this
    · have := (decides_workload env st r hok _ _).2 _ h; simp [Label.isBody, Label.isRule, Label.isTierEnd] at this
  rw [goto_append _ m0 hb, footerEvs_eq, goto_cons_label_ne env _ m0 (by decide),
    goto_append _ m0 (by rw [labelsOf_verdictBlock]; simp)]
  simp only [exitTargetEvs, List.cons_append, List.nil_append]
  rw [goto_label_self, lrun_set_exit env m0 _ _ hl0]
  exact ⟨m0.setReg 0 (sext32 (if r.forXDP then 1 else 2)), hst0, rfl⟩

theorem polprog_stateFail (env : Env) (st : List Byte) (r : Rules) (hok : ProgOK env st r)
    (hs : env.stateOK = false) (hnosplit : env.c.policyMapStride = 0)
    (prog : List Insn) (hi : instructions env.c r = some (some [prog])) :
    ∃ m, m.st = st ∧ execL env prog (Mach.init st) = .exit (sext32 (if r.forXDP then 1 else 2)) m := by
  have hn := compile_noSkipJ env st r hok
  obtain ⟨n, he, hr⟩ := expand_relayed env.c r.forXDP (compile env.c r) hnosplit hn
  obtain ⟨m, hm, hl⟩ := lrun_program_stateFail env st r hok hs
  have hl' : lrun env n (Mach.init st) = .exit (sext32 (if r.forXDP then 1 else 2)) m := by
    rw [(relayed_sound env n.length _ n (Nat.le_refl _) hr hn).1]; exact hl
  have hasm : assemble n = some prog := by
    unfold instructions at hi
    split at hi
    · cases hi
    · rw [he] at hi
      simp only [List.mapM_cons, List.mapM_nil, Option.some.injEq] at hi
      cases ha : assemble n with
      | none => simp [ha] at hi
      | some p => simp [ha] at hi; rw [hi]
  refine ⟨m, hm, ?_⟩
  rw [assemble_sound env _ prog _ hasm (by rw [hl']; rfl), hl']

end CalicoVerif.C11
