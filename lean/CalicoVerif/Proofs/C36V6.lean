import CalicoVerif.Proofs.C36Arith
/-!
C36 helper lemmas, part 7: the IPv6 code paths work on two `uint64` halves
(`AsUint64Pair`); they compute the same thing as the width-128 definitions.
-/
namespace CalicoVerif.C36

theorem bitLen_eq_of {n m : Nat} (h : ∀ k, n < 2 ^ k ↔ m ≤ k) : bitLen n = m := by
  have h1 := (bitLen_le_iff n m).2 ((h m).2 (Nat.le_refl _))
  have h2 := (h (bitLen n)).1 ((bitLen_le_iff n _).1 (Nat.le_refl _))
  omega

theorem lt_two_pow_add_iff (x j : Nat) : x < 2 ^ (64 + j) ↔ x / 2 ^ 64 < 2 ^ j := by
  rw [Nat.div_lt_iff_lt_mul (Nat.two_pow_pos 64), Nat.pow_add, Nat.mul_comm]

/-- `LeadingZeros` of a 128-bit value from its halves, as `V6CommonPrefix`/`ContainsV6` compute it. -/
theorem clz128_halves (x : Nat) (hx : x < 2 ^ 128) :
    clz 128 x = if x / 2 ^ 64 = 0 then 64 + clz 64 (x % 2 ^ 64) else clz 64 (x / 2 ^ 64) := by
  unfold clz
  have hl : x % 2 ^ 64 < 2 ^ 64 := Nat.mod_lt _ (Nat.two_pow_pos 64)
  have hh : x / 2 ^ 64 < 2 ^ 64 := by
    rw [Nat.div_lt_iff_lt_mul (Nat.two_pow_pos 64), ← Nat.pow_add]; exact hx
  by_cases h0 : x / 2 ^ 64 = 0
  · have : x % 2 ^ 64 = x := by
      have := Nat.div_add_mod x (2 ^ 64); rw [h0] at this; omega
    simp only [h0, if_true, this]
    have := bitLen_le_of_lt (W := 64) (this ▸ hl)
    omega
  · simp only [h0, if_false]
    have : bitLen x = 64 + bitLen (x / 2 ^ 64) := by
      apply bitLen_eq_of
      intro k
      by_cases hk : 64 ≤ k
      · obtain ⟨j, rfl⟩ : ∃ j, k = 64 + j := ⟨k - 64, by omega⟩
        rw [lt_two_pow_add_iff, ← bitLen_le_iff]; omega
      · have h1 : 1 ≤ bitLen (x / 2 ^ 64) := by
          unfold bitLen; simp [h0]
        constructor
        · intro hlt
          exfalso
          have : x < 2 ^ 64 := Nat.lt_of_lt_of_le hlt (Nat.pow_le_pow_right (by decide) (by omega))
          exact h0 (Nat.div_eq_of_lt this)
        · intro hle; omega
    have := bitLen_le_of_lt (W := 64) hh
    omega

theorem shl64_testBit (sh j : Nat) : (shl64 (2 ^ 64 - 1) sh).testBit j = (decide (sh < 64) && decide (j < 64) && decide (sh ≤ j)) := by
  unfold shl64
  by_cases h : sh < 64
  · simp only [h, if_true, Nat.testBit_mod_two_pow, Nat.testBit_shiftLeft, Nat.testBit_two_pow_sub_one, decide_true, Bool.true_and]
    by_cases h1 : j < 64 <;> by_cases h2 : sh ≤ j <;> simp [h1, h2] <;> omega
  · simp [h]

theorem WF.low_bits {W : Nat} {p : Pfx} (h : p.WF W) {i : Nat} (hi : i < W - p.len) : p.addr.testBit i = false := by
  have := congrArg (fun n => Nat.testBit n i) h.2.2
  simp only [Nat.testBit_mod_two_pow, Nat.zero_testBit, hi, decide_true, Bool.true_and] at this
  exact this

/-- The two-halves `V6CommonPrefix` is the generic common prefix at width 128. -/
theorem v6CommonPrefix_eq {a b : Pfx} (ha : a.WF 128) (hb : b.WF 128) :
    v6CommonPrefix a b = commonPrefix 128 a b := by
  have hax := ha.2.1
  have hbx := hb.2.1
  have hxx := xor_lt_two_pow hax hbx
  have hxh : (a.addr ^^^ b.addr) / 2 ^ 64 = a.addr / 2 ^ 64 ^^^ b.addr / 2 ^ 64 := by
    rw [← Nat.shiftRight_eq_div_pow, Nat.shiftRight_xor_distrib, Nat.shiftRight_eq_div_pow, Nat.shiftRight_eq_div_pow]
  have hxl : (a.addr ^^^ b.addr) % 2 ^ 64 = a.addr % 2 ^ 64 ^^^ b.addr % 2 ^ 64 := Nat.xor_mod_two_pow
  have hclz := clz128_halves _ hxx
  rw [hxh, hxl] at hclz
  have hal : a.addr % 2 ^ 64 < 2 ^ 64 := Nat.mod_lt _ (Nat.two_pow_pos 64)
  have hatop : ∀ i, 128 ≤ i → a.addr.testBit i = false := fun i hi =>
    Nat.testBit_lt_two_pow (Nat.lt_of_lt_of_le hax (Nat.pow_le_pow_right (by decide) hi))
  unfold v6CommonPrefix commonPrefix
  simp only
  by_cases h0 : a.addr / 2 ^ 64 ^^^ b.addr / 2 ^ 64 = 0
  · simp only [h0, if_true] at hclz ⊢
    rw [hclz]
    congr 1
    generalize hl : min (64 + clz 64 (a.addr % 2 ^ 64 ^^^ b.addr % 2 ^ 64)) (min b.len a.len) = l
    have hhi : a.addr / 2 ^ 64 = b.addr / 2 ^ 64 := xor_eq_zero h0
    -- bits of `a` below the (short) prefix are zero
    have hlow : ∀ i, 64 ≤ i → i < 128 - l → a.addr.testBit i = false := by
      intro i hi hil
      by_cases hab : a.len ≤ b.len
      · exact WF.low_bits ha (by omega)
      · have hbi : b.addr.testBit i = false := WF.low_bits hb (by omega)
        have e := congrArg (fun n => Nat.testBit n (i - 64)) hhi
        simp only [Nat.testBit_div_two_pow] at e
        rw [show i - 64 + 64 = i by omega] at e
        rw [e]; exact hbi
    apply Nat.eq_of_testBit_eq
    intro i
    have hlt : (shl64 (2 ^ 64 - 1) (128 - l) &&& a.addr % 2 ^ 64) < 2 ^ 64 :=
      Nat.lt_of_le_of_lt Nat.and_le_right hal
    rw [Nat.testBit_two_pow_mul_add _ hlt]
    rw [mask_and 128 l a.addr hax]
    unfold top
    simp only [Nat.testBit_mul_two_pow, Nat.testBit_div_two_pow, Nat.testBit_and, shl64_testBit,
      Nat.testBit_mod_two_pow]
    by_cases hi : i < 64
    · simp only [hi, if_true, decide_true, Bool.true_and, Bool.and_true]
      by_cases h2 : 128 - l ≤ i
      · have : 128 - l < 64 := by omega
        simp [h2, this, show i - (128 - l) + (128 - l) = i by omega]
      · simp [h2]
    · simp only [hi, if_false]
      rw [show i - 64 + 64 = i by omega]
      by_cases h2 : 128 - l ≤ i
      · simp [h2, show i - (128 - l) + (128 - l) = i by omega]
      · simp only [h2, decide_false, Bool.false_and]
        by_cases h3 : i < 128
        · exact hlow i (by omega) (by omega)
        · exact hatop i (by omega)
  · simp only [h0, if_false] at hclz ⊢
    rw [hclz]
    congr 1
    generalize hl : min (clz 64 (a.addr / 2 ^ 64 ^^^ b.addr / 2 ^ 64)) (min b.len a.len) = l
    have hl64 : l < 64 := by
      have : 1 ≤ bitLen (a.addr / 2 ^ 64 ^^^ b.addr / 2 ^ 64) := by unfold bitLen; simp [h0]
      unfold clz at hl; omega
    apply Nat.eq_of_testBit_eq
    intro i
    rw [mask_and 128 l a.addr hax]
    unfold top
    rw [Nat.mul_comm (2 ^ 64)]
    simp only [Nat.testBit_mul_two_pow, Nat.testBit_div_two_pow, Nat.testBit_and, shl64_testBit]
    by_cases hi : 64 ≤ i
    · simp only [hi, decide_true, Bool.true_and]
      rw [show i - 64 + 64 = i by omega]
      by_cases h2 : 128 - l ≤ i
      · by_cases h3 : i < 128
        · have h4 : 64 - l < 64 ↔ 0 < l := by omega
          have : 0 < l := by omega
          simp [h2, show i - (128 - l) + (128 - l) = i by omega, show 64 - l < 64 by omega,
            show i - 64 < 64 by omega, show 64 - l ≤ i - 64 by omega]
        · simp [hatop i (by omega), h2, show i - (128 - l) + (128 - l) = i by omega]
      · have : ¬ (64 - l ≤ i - 64) := by omega
        simp [h2, this]
    · have : ¬ (128 - l ≤ i) := by omega
      simp [hi, this]


/-- The two-halves `ContainsV6` is the generic `Contains` at width 128. -/
theorem v6Contains_eq {c : Pfx} {a : Nat} (hc : c.addr < 2 ^ 128) (ha : a < 2 ^ 128) :
    v6Contains c a = c.contains 128 a := by
  unfold v6Contains Pfx.contains
  have hxx := xor_lt_two_pow hc ha
  have hxh : (c.addr ^^^ a) / 2 ^ 64 = c.addr / 2 ^ 64 ^^^ a / 2 ^ 64 := by
    rw [← Nat.shiftRight_eq_div_pow, Nat.shiftRight_xor_distrib, Nat.shiftRight_eq_div_pow, Nat.shiftRight_eq_div_pow]
  have hxl : (c.addr ^^^ a) % 2 ^ 64 = c.addr % 2 ^ 64 ^^^ a % 2 ^ 64 := Nat.xor_mod_two_pow
  have hclz := clz128_halves _ hxx
  rw [hxh, hxl] at hclz
  simp only
  rw [hclz]

/-- The two-halves `NthBit` is the generic one at width 128. -/
theorem v6NthBit_eq (a n : Nat) : v6NthBit a n = nthBit 128 a n := by
  unfold v6NthBit nthBit
  simp only
  by_cases h1 : n ≤ 64
  · simp only [h1, if_true, show n ≤ 128 by omega]
    rw [← Nat.shiftRight_eq_div_pow, ← Nat.shiftRight_add, show 64 + (64 - n) = 128 - n by omega]
  · simp only [h1, if_false]
    by_cases h2 : n ≤ 128
    · simp only [h2, if_true]
      have e : (a % 2 ^ 64).testBit (128 - n) = a.testBit (128 - n) := by
        rw [Nat.testBit_mod_two_pow]; simp [show 128 - n < 64 by omega]
      rw [Nat.testBit_eq_decide_div_mod_eq, Nat.testBit_eq_decide_div_mod_eq] at e
      simp only [Nat.shiftRight_eq_div_pow]
      have := Nat.mod_lt (a % 2 ^ 64 / 2 ^ (128 - n)) (show 0 < 2 by decide)
      have := Nat.mod_lt (a / 2 ^ (128 - n)) (show 0 < 2 by decide)
      simp only [decide_eq_decide] at e
      omega
    · simp [h2]

end CalicoVerif.C36
