import CalicoVerif.Proofs.C15h
set_option linter.unusedSimpArgs false
namespace CalicoVerif.C15

theorem sound_eq : ∀ (L : List KRule) (rs : List DRule), Sound L rs →
    L.map KRule.hash = rs.map (·.hash) → L = rs.map DRule.k := by
  intro L
  induction L with
  | nil => intro rs _ h; cases rs with | nil => rfl | cons _ _ => simp at h
  | cons l L ih =>
    intro rs hs h
    cases rs with
    | nil => simp at h
    | cons r rs =>
      simp only [List.map_cons, List.cons.injEq] at h
      simp only [Sound] at hs
      simp only [List.map_cons, List.cons.injEq]
      exact ⟨hs.1 h.1, ih rs hs.2 h.2⟩

/-- The cache of programmed hashes equals the desired hashes for every owned chain that is not dirty
(the API marks a chain dirty whenever its desired content or its referenced-ness changes). -/
def CacheOK (t : T) : Prop :=
  ∀ c, t.ours c = true → c ∉ t.dirty →
    t.dpHashes.get c = (t.desiredChain c).map (fun ch => ch.rules.map (·.hash))

theorem has_keys {α : Type} (m : Map α) (n : String) : m.has n = true ↔ n ∈ m.keys := by
  induction m with
  | nil => simp [Map.has, Map.get, Map.keys, List.lookup]
  | cons p m ih =>
    obtain ⟨a, b⟩ := p
    simp only [Map.has, Map.get, Map.keys, List.lookup, List.map_cons, List.mem_cons] at ih ⊢
    by_cases h : n = a
    · subst h; simp
    · have : (n == a) = false := by simp [h]
      simp only [this, h, false_or]
      exact ih

theorem load_desc (t : T) (K : Kernel) :
    ∃ t2, ScanRel t t2 ∧ t.load K = { t2 with dpHashes := readHashes K, fullRules := readFull t2 K, inSync := true } ∧
      t2 = ((sortS (readHashes K).keys.eraseDups).foldl (T.unknownStep (readHashes K))
              ((sortS t.dpHashes.keys.eraseDups).foldl (T.knownStep (readHashes K)) t)) := by
  refine ⟨_, ?_, rfl, rfl⟩
  exact ScanRel.trans (fold_rel _ (knownStep_rel _) _ t) (fold_rel _ (unknownStep_rel _) _ _)

/-- **apply_converges, owned chains**: one `Apply` iteration that re-reads the table (`loadDataplaneState`)
and whose transaction succeeds, from ANY kernel table: every Felix-owned chain name then holds exactly the
desired rules in the desired order if the chain is desired (present and referenced), and does not exist
otherwise — stale Felix chains, including ones with historic prefixes, are gone. -/
theorem apply_converges_owned (t : T) (K K' : Kernel) {lines newH newFull}
    (hcache : CacheOK t) (hnodup : t.dirty.Nodup) (hIA : ∀ c, t.ours c = true → c ∉ t.dirtyIA)
    (hsound : ∀ c ch rs, t.ours c = true → t.desiredChain c = some ch → K.get c = some rs → Sound rs ch.rules)
    (hplan : (t.load K).plan = some (lines, newH, newFull)) (hres : krestore K lines = some K')
    (c : String) (hours : t.ours c = true) (hne : c ≠ "") :
    K'.get c = (t.desiredChain c).map (fun ch => ch.rules.map DRule.k) := by
  obtain ⟨t2, hrel, hload, ht2⟩ := load_desc t K
  have hdes : ∀ x, (t.load K).desiredChain x = t.desiredChain x := by
    intro x
    rw [hload]
    simp only [T.desiredChain, T.refd, hrel.refc, hrel.chains]
    rfl
  have hdirty : (t.load K).dirty = t2.dirty := by rw [hload]
  have hdirtyIA : (t.load K).dirtyIA = t2.dirtyIA := by rw [hload]
  have hview : (t.load K).dpHashes = readHashes K := by rw [hload]
  have hcia : c ∉ (t.load K).dirtyIA := by
    rw [hdirtyIA]; exact fun h => hIA c hours ((hrel.iaOurs c hours).1 h)
  have hoa := owned_after hplan hres (by rw [hdirty]; exact hrel.nodup hnodup) hview c hne hcia
    (fun ch rs hd hk => hsound c ch rs hours (by rw [← hdes]; exact hd) hk)
  rw [hdes] at hoa
  by_cases hcd : c ∈ (t.load K).dirty
  · exact hoa.1 hcd
  · rw [hoa.2 hcd]
    rw [hdirty] at hcd
    have hcd0 : c ∉ t.dirty := fun h => hcd (hrel.mono c h)
    have hc := hcache c hours hcd0
    -- the intermediate state between the two scans
    generalize ht1 : (sortS t.dpHashes.keys.eraseDups).foldl (T.knownStep (readHashes K)) t = t1 at ht2
    have hrel1 : ScanRel t t1 := by rw [← ht1]; exact fold_rel _ (knownStep_rel _) _ t
    have hrel12 : ScanRel t1 t2 := by rw [ht2]; exact fold_rel _ (unknownStep_rel _) _ t1
    have hcd1 : c ∉ t1.dirty := fun h => hcd (hrel12.mono c h)
    by_cases hh : t.dpHashes.has c = true
    · -- a chain we programmed: the scan found its hashes unchanged
      have hmemL : c ∈ sortS t.dpHashes.keys.eraseDups := by
        rw [mem_sortS, List.mem_eraseDups]; exact (has_keys _ _).1 hh
      have hk := known_fold_clean (readHashes K) c _ t hours hmemL (by rw [ht1]; exact hcd1) (hIA c hours)
      rw [hc] at hk
      cases hd : t.desiredChain c with
      | none => rw [hd] at hc; simp [Map.has, hc] at hh
      | some ch =>
        rw [hd] at hk
        simp only [Option.map_some, Option.getD_some, readHashes_get] at hk
        cases hkc : K.get c with
        | none => rw [hkc] at hk; simp at hk
        | some rs =>
          rw [hkc] at hk
          simp only [Option.map_some, Option.some.injEq] at hk
          simp only [Option.map_some, Option.some.injEq]
          exact sound_eq rs ch.rules (hsound c ch rs hours hd hkc) hk
    · -- not a chain we programmed: then it is not desired, and it is not in the table either
      have hnone : t.dpHashes.get c = none := by
        simp only [Map.has] at hh
        cases hg : t.dpHashes.get c with
        | none => rfl
        | some v => simp [hg] at hh
      rw [hnone] at hc
      cases hd : t.desiredChain c with
      | some ch => rw [hd] at hc; simp at hc
      | none =>
        simp only [Option.map_none]
        cases hkc : K.get c with
        | none => rfl
        | some rs =>
          exfalso
          have hmemL : c ∈ sortS (readHashes K).keys.eraseDups := by
            rw [mem_sortS, List.mem_eraseDups]
            apply (has_keys _ _).1
            rw [has_readHashes]; simp [Map.has, hkc]
          have := unknown_fold_clean (readHashes K) c _ t1 (by rw [hrel1.ours]; exact hours) hmemL
            (by rw [← ht2]; exact hcd) (fun h => hIA c hours ((hrel1.iaOurs c hours).1 h))
          rw [hrel1.dpHashes] at this
          exact hh this

end CalicoVerif.C15
