import CalicoVerif.Proofs.C11Step
/-!
C11 — more single-instruction lemmas: ALU moves, stack stores, LoadImm64 of a
map handle, and the IP-set `map_lookup_elem` call.
-/
namespace CalicoVerif.C11

theorem step_movImm64 (env : Env) (m : Mach) (d : Nat) (off imm : Int) (nxt : Option Insn) (hd : d < 10) :
    step env ⟨opMovImm64, d, 0, off, imm⟩ nxt m = .next (m.setReg d (sext32 imm)) := by
  have hd' : ¬ d ≥ 10 := by omega
  simp [step, opMovImm64, opLoadImm64, hd', alu]

theorem step_movImm32 (env : Env) (m : Mach) (d : Nat) (off imm : Int) (nxt : Option Insn) (hd : d < 10) :
    step env ⟨opMovImm32, d, 0, off, imm⟩ nxt m =
      .next (m.setReg d (((sext32 imm).setWidth 32).setWidth 64)) := by
  have hd' : ¬ d ≥ 10 := by omega
  simp [step, opMovImm32, opLoadImm64, hd', alu]

theorem step_mov64 (env : Env) (m : Mach) (d s : Nat) (off imm : Int) (nxt : Option Insn) (v : Word)
    (hd : d < 10) (hs : m.reg s = some v) :
    step env ⟨opMov64, d, s, off, imm⟩ nxt m = .next (m.setReg d v) := by
  have hd' : ¬ d ≥ 10 := by omega
  simp [step, opMov64, opLoadImm64, hd', alu, hs]

theorem step_addImm64 (env : Env) (m : Mach) (d : Nat) (off imm : Int) (nxt : Option Insn) (v : Word)
    (hd : d < 10) (hv : m.reg d = some v) :
    step env ⟨opAddImm64, d, 0, off, imm⟩ nxt m = .next (m.setReg d (v + sext32 imm)) := by
  have hd' : ¬ d ≥ 10 := by omega
  simp [step, opAddImm64, opLoadImm64, hd', alu, hv]

theorem step_andImm64 (env : Env) (m : Mach) (d : Nat) (off imm : Int) (nxt : Option Insn) (v : Word)
    (hd : d < 10) (hv : m.reg d = some v) :
    step env ⟨opAndImm64, d, 0, off, imm⟩ nxt m = .next (m.setReg d (v &&& sext32 imm)) := by
  have hd' : ¬ d ≥ 10 := by omega
  simp [step, opAndImm64, opLoadImm64, hd', alu, hv]

theorem step_and32 (env : Env) (m : Mach) (d s : Nat) (off imm : Int) (nxt : Option Insn) (a b : Word)
    (hd : d < 10) (ha : m.reg d = some a) (hb : m.reg s = some b) :
    step env ⟨opAnd32, d, s, off, imm⟩ nxt m =
      .next (m.setReg d ((a.setWidth 32 &&& b.setWidth 32).setWidth 64)) := by
  have hd' : ¬ d ≥ 10 := by omega
  simp [step, opAnd32, opLoadImm64, hd', alu, ha, hb]

set_option maxRecDepth 8000 in
theorem region_stack (k n : Nat) (h : k + n ≤ 512) :
    region (stackW + BitVec.ofInt 64 ((k : Int) - 512)) n = some (.stack k) := by
  have hk : (stackW + BitVec.ofInt 64 ((k : Int) - 512)).toNat = 1879048192 - 512 + k := by
    unfold stackW stackTop
    rw [BitVec.toNat_add, BitVec.toNat_ofNat, BitVec.toNat_ofInt]
    omega
  unfold region
  simp only [hk]
  rw [if_pos (by simp only [stackTop, stackSize]; omega)]
  have hsub : 1879048192 - 512 + k - (1879048192 - 512) = k := by omega
  simp only [stackTop, stackSize, hsub]

/-- STX of 1/2/4/8 bytes to the stack through R10. -/
theorem step_stx_stack {env : Env} {st : List Byte} {m : Mach} (hI : Inv st m)
    (op v : Nat) (k n : Nat) (imm : Int) (nxt : Option Insn) (x : Word)
    (hop : (op = opStoreReg8 ∧ n = 1) ∨ (op = opStoreReg16 ∧ n = 2) ∨ (op = opStoreReg32 ∧ n = 4) ∨
      (op = opStoreReg64 ∧ n = 8))
    (hk : k + n ≤ 512) (hv : m.reg v = some x) :
    step env ⟨op, 10, v, (k : Int) - 512, imm⟩ nxt m =
      .next { m with stack := writeStack m.stack k (toLE x.toNat n) } := by
  have hr := region_stack k n hk
  rcases hop with ⟨rfl, rfl⟩ | ⟨rfl, rfl⟩ | ⟨rfl, rfl⟩ | ⟨rfl, rfl⟩ <;>
    simp [step, opStoreReg8, opStoreReg16, opStoreReg32, opStoreReg64, opLoadImm64, hI.r10, hv, Mach.store, hr]

theorem Inv.setStack {st : List Byte} {m : Mach} (h : Inv st m) (s : Nat → Option Byte) :
    Inv st { m with stack := s } :=
  { r6 := h.r6, r9 := h.r9, r10 := h.r10, regsLen := h.regsLen, sim := h.sim, stLen := h.stLen }

theorem reg_setStack (m : Mach) (s : Nat → Option Byte) (r : Nat) :
    ({ m with stack := s } : Mach).reg r = m.reg r := rfl

/-- `LoadMapFD`. -/
theorem step_loadMapFD (env : Env) (m : Mach) (d : Nat) (fd : Int) (hd : d < 10) :
    step env ⟨opLoadImm64, d, 1, 0, fd⟩ (some ⟨opLoadImm64Pt2, 0, 0, 0, 0⟩) m =
      .next2 (m.setReg d (mapHandle fd)) := by
  simp [step, opLoadImm64, opLoadImm64Pt2, hd]

theorem lrun_ins_next2 {env : Env} {i j : Insn} {r : List Ev} {m m' : Mach}
    (h : step env i (some j) m = .next2 m') : lrun env (.ins i :: .ins j :: r) m = lrun env r m' := by
  rw [lrun]
  simp only [nextIns, h]
  simp

theorem lrun_loadMapFD (env : Env) (m : Mach) (d : Nat) (fd : Int) (r : List Ev) (hd : d < 10) :
    lrun env (loadMapFD d fd ++ r) m = lrun env r (m.setReg d (mapHandle fd)) := by
  unfold loadMapFD mk
  exact lrun_ins_next2 (step_loadMapFD env m d fd hd)

end CalicoVerif.C11
