import CalicoVerif.Proofs.C16b
namespace CalicoVerif.C16

theorem drain_frame (w : W) : Frame w w.drain.1 := by
  unfold W.drain
  dsimp only
  -- the per-name step preserves the frame relative to a fixed origin
  have hstep : ∀ (o : W) (acc : W × Bool) (name : String), Frame o acc.1 →
      Frame o ((fun (acc : W × Bool) (name : String) =>
        let (w, failed) := acc
        let (w, e) := w.resyncIPSet name
        if e && w.F.desired.has name then ({ w with F := w.F.qAdd name true }, true) else (w, failed)) acc name).1 := by
    intro o acc name h
    obtain ⟨w0, f0⟩ := acc
    dsimp only at h ⊢
    have h2 := resyncIPSet_frame w0 name
    generalize w0.resyncIPSet name = r at h2
    obtain ⟨w1, e⟩ := r
    dsimp only at h2 ⊢
    split
    · exact Frame.trans h (Frame.trans h2 ⟨rfl, by simp, rfl⟩)
    · exact Frame.trans h h2
  have h0 : Frame w { w with F := { w.F with qMust := [] } } := ⟨rfl, rfl, rfl⟩
  have h1 := foldl_inv (fun (acc : W × Bool) => Frame w acc.1) _ (fun a b h => hstep w a b h)
    (sortS w.F.qMust) ({ w with F := { w.F with qMust := [] } }, false) h0
  generalize List.foldl _ ({ w with F := { w.F with qMust := [] } }, false) (sortS w.F.qMust) = r1 at h1
  obtain ⟨w1, f1⟩ := r1
  dsimp only at h1 ⊢
  split
  · exact h1
  · have h2 : Frame w { w1 with F := { w1.F with qBg := [] } } := Frame.trans h1 ⟨rfl, rfl, rfl⟩
    exact foldl_inv (fun (acc : W × Bool) => Frame w acc.1) _ (fun a b h => hstep w a b h) _ _ h2

theorem qAddAll_desired (b : Bool) (l : List String) (F : Felix) :
    (l.foldl (fun F n => F.qAdd n b) F).desired = F.desired :=
  foldl_inv (fun G => G.desired = F.desired) _ (fun a n h => by simp [h]) l F rfl

@[simp] theorem afterListing_desired (F : Felix) (l : List String) (b : Bool) :
    (F.afterListing l b).desired = F.desired := by
  unfold Felix.afterListing
  split <;> simp only [sweep_desired, qAddAll_desired]

theorem beginResync_frame (w : W) (b : Bool) : Frame w (w.beginResync b).1 := by
  unfold W.beginResync
  have h0 : Frame w (if b then { w with F := { w.F with qMust := [], qBg := [], dp := [] } } else w) := by
    split <;> exact ⟨rfl, rfl, rfl⟩
  generalize (if b then ({ w with F := { w.F with qMust := [], qBg := [], dp := [] } } : W) else w) = w0 at h0
  have h1 := listNames_frame w0
  dsimp only
  split
  · rename_i w1 heq
    rw [heq] at h1
    exact Frame.trans h0 h1
  · rename_i w1 listed heq
    rw [heq] at h1
    exact Frame.trans h0 (Frame.trans h1 ⟨rfl, by simp, rfl⟩)

theorem tryResync_frame (w : W) : Frame w w.tryResync.1 := by
  unfold W.tryResync
  split
  · have h1 := beginResync_frame w w.F.fullReq
    split
    · rename_i w1 heq
      rw [heq] at h1
      exact h1
    · rename_i w1 heq
      rw [heq] at h1
      exact Frame.trans h1 (drain_frame _)
  · exact drain_frame w

end CalicoVerif.C16
