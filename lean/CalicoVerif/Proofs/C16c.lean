import CalicoVerif.Proofs.C16b
namespace CalicoVerif.C16

theorem drainStep_frame (o : W) (acc : W × Bool) (name : String) (h : Frame o acc.1) :
    Frame o (W.drainStep acc name).1 := by
  unfold W.drainStep
  have h2 := resyncIPSet_frame acc.1 name
  dsimp only
  split
  · exact Frame.trans h (Frame.trans h2 ⟨rfl, by simp, rfl⟩)
  · exact Frame.trans h h2

theorem drain_frame (w : W) : Frame w w.drain.1 := by
  unfold W.drain
  dsimp only
  have h0 : Frame w { w with F := { w.F with qMust := [] } } := ⟨rfl, rfl, rfl⟩
  have h1 := foldl_inv (fun (acc : W × Bool) => Frame w acc.1) W.drainStep (fun a b h => drainStep_frame w a b h)
    (sortS w.F.qMust) ({ w with F := { w.F with qMust := [] } }, false) h0
  split
  · exact h1
  · refine foldl_inv (fun (acc : W × Bool) => Frame w acc.1) W.drainStep (fun a b h => drainStep_frame w a b h) _ _ ?_
    exact Frame.trans h1 ⟨rfl, rfl, rfl⟩

theorem qAddAll_desired (b : Bool) (l : List String) (F : Felix) :
    (l.foldl (fun F n => F.qAdd n b) F).desired = F.desired :=
  foldl_inv (fun G => G.desired = F.desired) _ (fun a n h => by simp [h]) l F rfl

@[simp] theorem afterListing_desired (F : Felix) (l : List String) (b : Bool) :
    (F.afterListing l b).desired = F.desired := by
  unfold Felix.afterListing
  split <;> simp only [sweep_desired, qAddAll_desired]

theorem beginResync_frame (w : W) (b : Bool) : Frame w (w.beginResync b).1 := by
  unfold W.beginResync
  have h0 : Frame w (if b then { w with F := { w.F with qMust := [], qBg := [], dp := [] } } else w) := by
    split <;> exact ⟨rfl, rfl, rfl⟩
  generalize (if b then ({ w with F := { w.F with qMust := [], qBg := [], dp := [] } } : W) else w) = w0 at h0
  have h1 := listNames_frame w0
  dsimp only
  split
  · rename_i w1 heq
    rw [heq] at h1
    exact Frame.trans h0 h1
  · rename_i w1 listed heq
    rw [heq] at h1
    exact Frame.trans h0 (Frame.trans h1 ⟨rfl, by simp, rfl⟩)

theorem tryResync_frame (w : W) : Frame w w.tryResync.1 := by
  unfold W.tryResync
  split
  · have h1 := beginResync_frame w w.F.fullReq
    split
    · rename_i w1 heq
      rw [heq] at h1
      exact h1
    · rename_i w1 heq
      rw [heq] at h1
      exact Frame.trans h1 (drain_frame _)
  · exact drain_frame w

end CalicoVerif.C16
