import CalicoVerif.Proofs.C11Eval
/-!
C11 — `writeTiers` / `writeProfiles` blocks: what they decide (against the
reference) and which labels they define, under the `RuleGuarded` hypothesis.
-/
namespace CalicoVerif.C11

/-- Every rule of the tiers has a plain action and a guarded match part. -/
def TiersPlain (env : Env) (st : List Byte) (p : Pkt) (ts : List Tier) : Prop :=
  ∀ t ∈ ts, ∀ pol ∈ t.policies, ∀ r ∈ pol.rules, r.tierAction = true ∧ RuleGuarded env st p r

def ProfilesPlain (env : Env) (st : List Byte) (p : Pkt) (ps : List Policy) : Prop :=
  ∀ pol ∈ ps, ∀ r ∈ pol.rules, r.tierAction = true ∧ RuleGuarded env st p r

/-- The two allow labels the builder uses. -/
def isAllowLabel (l : Label) : Prop := l = .allow ∨ l = .allowedByHostPolicy

theorem tierLabel_props {al : Label} (hal : isAllowLabel al) (tid : Nat) (r : Rule) (h : r.tierAction = true) :
    (tierActionLabel al tid r.action).isRule = false := by
  rw [tierActionLabel_actOf]
  unfold Rule.tierAction at h
  rcases hal with rfl | rfl <;> cases ha : actOf r.action <;> simp [ha, Label.isRule] at h ⊢

theorem profileLabel_props {al : Label} (hal : isAllowLabel al) (r : Rule) (h : r.tierAction = true) :
    (profileActionLabel al r.action).isRule = false := by
  unfold Rule.tierAction at h
  rw [profileActionLabel_actOf al r.action]
  rcases hal with rfl | rfl <;> cases ha : actOf r.action <;> simp [ha, Label.isRule] at h ⊢

theorem allow_ne_log {al : Label} (hal : isAllowLabel al) : al ≠ .log := by
  rcases hal with rfl | rfl <;> simp

/-- Labels a policy block may define. -/
def Label.isBody (l : Label) : Bool := l.isRule || l.isTierEnd

theorem tiers_block (env : Env) (st : List Byte) (p : Pkt) (leg : Leg) (al : Label)
    (ts : List Tier) (rid tid : Nat)
    (hal : isAllowLabel al) (hts : TiersPlain env st p ts) :
    Decides env st (flat (writeTiers env.c leg al ts rid tid).1) (tiersDec al (evalTiers env p leg ts)) ∧
    (∀ l ∈ labelsOf (flat (writeTiers env.c leg al ts rid tid).1), l.isBody = true) := by
  have hr : al.isRule = false := by rcases hal with rfl | rfl <;> rfl
  have ht : al.isTierEnd = false := by rcases hal with rfl | rfl <;> rfl
  have hok : TiersOK env st p al ts := by
    intro t htm tid' pol hp r hr'
    obtain ⟨h1, h2⟩ := hts t htm pol hp r hr'
    exact ⟨tierLabel_props hal tid' r h1, h2⟩
  obtain ⟨d, hl⟩ := writeTiers_decides (env := env) (st := st) (p := p) leg al hr ht ts rid tid hok
  rw [tiersTarget_eval env p leg al ht (allow_ne_log hal) ts tid (fun t htm pol hp r hr' => (hts t htm pol hp r hr').1)] at d
  refine ⟨d, ?_⟩
  intro l hm
  rcases hl l hm with h | h <;> simp [Label.isBody, h]

theorem profiles_block (env : Env) (st : List Byte) (p : Pkt) (al : Label)
    (ps : List Policy) (noMatchID rid : Nat)
    (hal : isAllowLabel al) (hps : ProfilesPlain env st p ps) :
    Decides env st (flat (writeProfiles env.c al ps noMatchID rid).1) (profDec al (evalProfiles true env p ps)) ∧
    (∀ l ∈ labelsOf (flat (writeProfiles env.c al ps noMatchID rid).1), l.isBody = true) := by
  have hok : PoliciesOK env st p (profileActionLabel al) ps := by
    intro pol hp r hr'
    obtain ⟨h1, h2⟩ := hps pol hp r hr'
    exact ⟨profileLabel_props hal r h1, h2⟩
  have hP := writePolicies_decides (env := env) (st := st) (p := p) (profileActionLabel al) .dest ps rid hok
  have hE := writeRule_decides (env := env) (st := st) (p := p)
    (writePolicies env.c (profileActionLabel al) .dest ps rid).2
    { action := "", matchID := noMatchID } .deny .dest rfl (emptyRule_guarded env st p noMatchID)
  have hElab := writeRule_labels (env := env) (st := st) (p := p)
    (writePolicies env.c (profileActionLabel al) .dest ps rid).2
    { action := "", matchID := noMatchID } .deny .dest (emptyRule_guarded env st p noMatchID)
  have hEt : ruleTarget env p .dest { action := "", matchID := noMatchID } .deny = some .deny := by
    simp [ruleTarget, filterRule, filterNets, ruleMatch, icmpIs]
  rw [hEt] at hE
  have := Decides.seq hP.1 hE (by
    intro l hl hmem
    have hr := hElab l hmem
    have := policiesTarget_not_rule (env := env) (p := p) (leg := .dest) ps
      (fun pol hp r hr' => (hok pol hp r hr').1) l hl
    rw [this] at hr; cases hr)
  rw [profilesTarget_eval env p al (allow_ne_log hal) ps (fun pol hp r hr' => (hps pol hp r hr').1)] at this
  refine ⟨by simpa only [writeProfiles, flat_append] using this, ?_⟩
  intro l hm
  simp only [writeProfiles, flat_append, labelsOf_append, List.mem_append] at hm
  rcases hm with h | h
  · simp [Label.isBody, hP.2 l h]
  · simp [Label.isBody, hElab l h]

end CalicoVerif.C11
