import CalicoVerif.Model.C01
import CalicoVerif.Props.C07
import CalicoVerif.Proofs.C02
/-! C01 helper: the policy path of the ActiveRulesCalculator.  `policyIDToEndpointKeys` always mirrors
the label index's match set, and the label index's invariant (C07) holds along every history. -/
namespace CalicoVerif.C01
open CalicoVerif

/-- `g'` has the same policy-activity bookkeeping as `g` -/
def Same (g g' : Graph) : Prop := g'.polEps = g.polEps ∧ g'.lbl = g.lbl

theorem Same.rfl' (g : Graph) : Same g g := ⟨rfl, rfl⟩
theorem Same.trans {a b c : Graph} (h1 : Same a b) (h2 : Same b c) : Same a c :=
  ⟨h2.1.trans h1.1, h2.2.trans h1.2⟩

theorem same_foldl {α : Type} (f : Graph → α → Graph) (hf : ∀ g a, Same g (f g a)) :
    ∀ (l : List α) (g : Graph), Same g (l.foldl f g)
  | [], g => Same.rfl' g
  | a :: l, g => (hf g a).trans (same_foldl f hf l (f g a))

theorem same_emit (g : Graph) (cs : List C02.Call) : Same g (g.emit cs) := by
  unfold Graph.emit; split <;> exact ⟨rfl, rfl⟩

theorem same_idxOp (g : Graph) (op : C04.Op Str) : Same g (g.idxOp op) := by
  unfold Graph.idxOp
  exact Same.trans (⟨rfl, rfl⟩ : Same g _) (same_emit _ _)

theorem same_onRsEvent (g : Graph) (e : RsEvent) : Same g (g.onRsEvent e) := by
  cases e with
  | ipsetActive uid d => exact (same_emit _ _).trans (same_idxOp _ _)
  | ipsetInactive uid => exact (same_idxOp _ _).trans (same_emit _ _)

theorem same_rsUpdate (H : IdFn) (g : Graph) (key : RulesId) (r : Option RulesIn) :
    Same g (g.rsUpdate H key r) := by
  unfold Graph.rsUpdate
  simp only []
  exact Same.trans (⟨rfl, rfl⟩ : Same g _) (same_foldl Graph.onRsEvent same_onRsEvent _ _)

theorem same_scanRules (H : IdFn) (g : Graph) (key : RulesId) (r : Option RulesIn) :
    Same g (g.scanRules H key r) :=
  Same.trans (same_rsUpdate H g key r) (same_emit _ _)

theorem same_profEvents (H : IdFn) (g : Graph) (evs : List (C05.Event RulesIn)) : Same g (g.profEvents H evs) := by
  unfold Graph.profEvents
  apply same_foldl
  intro g e
  cases e with
  | active p r => cases r <;> exact same_scanRules H g _ _
  | inactive p => exact same_scanRules H g _ _

theorem same_arcProfStep (H : IdFn) (g : Graph) (u : C05.Upd RulesIn) : Same g (g.arcProfStep H u) := by
  unfold Graph.arcProfStep
  exact Same.trans (⟨rfl, rfl⟩ : Same g _) (same_profEvents H _ _)

theorem same_sendPolicyUpdate (H : IdFn) (g : Graph) (n : Nat) : Same g (g.sendPolicyUpdate H n) := by
  unfold Graph.sendPolicyUpdate
  split
  · split
    · exact same_scanRules H g _ _
    · exact ⟨rfl, rfl⟩
  · exact same_scanRules H g _ _

/-- `policyIDToEndpointKeys` agrees with a match set -/
def Mirrors (g : Graph) (ms : C07.MS) : Prop := ∀ q, q ∈ g.polEps ↔ q ∈ ms

theorem onMatchEvent_started (H : IdFn) (g : Graph) (s i : Nat) :
    (g.onMatchEvent H (.started s i)).lbl = g.lbl ∧
    ∀ q, q ∈ (g.onMatchEvent H (.started s i)).polEps ↔ q = (s, i) ∨ q ∈ g.polEps := by
  simp only [Graph.onMatchEvent]
  have key : ∀ g1 : Graph, Same g1 (if (!g.polActive s) = true then g1.sendPolicyUpdate H s else g1) := by
    intro g1; split
    · exact same_sendPolicyUpdate H g1 s
    · exact Same.rfl' g1
  have := key { g with polEps := C02.sadd (s, i) g.polEps }
  refine ⟨this.2, ?_⟩
  intro q
  show q ∈ (if (!g.polActive s) = true then _ else _ : Graph).polEps ↔ _
  rw [this.1]
  simp

theorem onMatchEvent_stopped (H : IdFn) (g : Graph) (s i : Nat) :
    (g.onMatchEvent H (.stopped s i)).lbl = g.lbl ∧
    ∀ q, q ∈ (g.onMatchEvent H (.stopped s i)).polEps ↔ q ∈ g.polEps ∧ q ≠ (s, i) := by
  simp only [Graph.onMatchEvent]
  have key : ∀ g1 : Graph, Same g1 (if (!g1.polActive s) = true then g1.sendPolicyUpdate H s else g1) := by
    intro g1; split
    · exact same_sendPolicyUpdate H g1 s
    · exact Same.rfl' g1
  have := key { g with polEps := C02.sdel (s, i) g.polEps }
  refine ⟨this.2, ?_⟩
  intro q
  show q ∈ (if (!Graph.polActive _ s) = true then _ else _ : Graph).polEps ↔ _
  rw [this.1]
  simp

/-- feeding the label index's callbacks keeps `policyIDToEndpointKeys` in step with the match set -/
theorem foldl_onMatchEvent (H : IdFn) {ms ms' : C07.MS} {evs : List C07.Event} (hr : C07.Replay ms evs ms') :
    ∀ g : Graph, Mirrors g ms →
      Mirrors (evs.foldl (Graph.onMatchEvent H) g) ms' ∧ (evs.foldl (Graph.onMatchEvent H) g).lbl = g.lbl := by
  induction hr with
  | nil ms => intro g hm; exact ⟨hm, rfl⟩
  | @start ms s i evs ms' hn _ ih =>
    intro g hm
    simp only [List.foldl_cons]
    obtain ⟨h1, h2⟩ := onMatchEvent_started H g s i
    have := ih (g.onMatchEvent H (.started s i)) (by
      intro q; rw [h2 q, List.mem_cons, hm q])
    exact ⟨this.1, this.2.trans h1⟩
  | @stop ms s i evs ms' hm' _ ih =>
    intro g hm
    simp only [List.foldl_cons]
    obtain ⟨h1, h2⟩ := onMatchEvent_stopped H g s i
    have := ih (g.onMatchEvent H (.stopped s i)) (by
      intro q; rw [h2 q, hm q]; simp [and_comm])
    exact ⟨this.1, this.2.trans h1⟩

/-- the ARC invariant: the label index is consistent (C07) and mirrored by `policyIDToEndpointKeys` -/
structure ArcInv (g : Graph) : Prop where
  idx : C07.Inv g.lbl
  mirrors : Mirrors g g.lbl.matched

theorem arcInv_same {g g' : Graph} (h : Same g g') (hi : ArcInv g) : ArcInv g' := by
  obtain ⟨h1, h2⟩ := h
  exact ⟨h2 ▸ hi.idx, by intro q; rw [h1, h2]; exact hi.mirrors q⟩

/-- one label-index operation followed by the delivery of its callbacks -/
theorem arcInv_lblStep (H : IdFn) {g : Graph} (hi : ArcInv g) (op : C07.Op) :
    ArcInv (g.lblStep H (op.apply g.lbl)) := by
  unfold Graph.lblStep
  have hrep := C07.apply_replay hi.idx op
  have hinv := C07.apply_inv hi.idx op
  have := foldl_onMatchEvent H hrep { g with lbl := (op.apply g.lbl).1 } hi.mirrors
  exact ⟨this.2 ▸ hinv, by intro q; rw [this.2]; exact this.1 q⟩

theorem arcInv_new (s : Bool) : ArcInv (Graph.new s) :=
  ⟨C07.inv_empty, by intro q; simp [Graph.new]⟩

/-- changing fields other than `polEps` / `lbl` -/
theorem arcInv_frame {g g' : Graph} (hi : ArcInv g) (h1 : g'.polEps = g.polEps) (h2 : g'.lbl = g.lbl) : ArcInv g' :=
  arcInv_same (g := g) ⟨h1, h2⟩ hi

theorem arcInv_resStep {g : Graph} (hi : ArcInv g) (e : C03.Event) : ArcInv (g.resStep e) :=
  arcInv_frame hi rfl rfl

theorem arcInv_idxOp {g : Graph} (hi : ArcInv g) (op : C04.Op Str) : ArcInv (g.idxOp op) :=
  arcInv_same (same_idxOp g op) hi

theorem arcInv_arcEndpoint (H : IdFn) {g : Graph} (hi : ArcInv g) (nid : Nat) (key : C02.EpKey) (v : Option EpVal) :
    ArcInv (g.arcEndpoint H nid key v) := by
  unfold Graph.arcEndpoint
  simp only []
  have h2 := arcInv_same (same_arcProfStep H g (.endpoint (epKeyStr key) (v.map (·.profiles)))) hi
  cases v with
  | none => exact arcInv_lblStep H h2 (.deleteLabels nid)
  | some e => exact arcInv_lblStep H h2 (.updateLabels nid (strLabels e.labels) (e.profiles.map String.toList))

theorem arcInv_profLabels (H : IdFn) {g : Graph} (hi : ArcInv g) (pid : String) (v : Option C04.Labels) :
    ArcInv (g.profLabels H pid v) := by
  unfold Graph.profLabels
  cases v with
  | none => exact arcInv_idxOp (arcInv_lblStep H hi (.deleteParentLabels pid.toList)) _
  | some ls => exact arcInv_idxOp (arcInv_lblStep H hi (.updateParentLabels pid.toList (strLabels ls))) _

theorem arcInv_arcPolicyChanged (H : IdFn) {g : Graph} (hi : ArcInv g) (nid : Nat) (pv : PolVal) :
    ArcInv (g.arcPolicyChanged H nid pv) := by
  unfold Graph.arcPolicyChanged
  simp only []
  have h1 : ArcInv { g with allPolicies := C02.mset nid pv g.allPolicies } := arcInv_frame hi rfl rfl
  split
  · exact arcInv_frame h1 rfl rfl
  · rename_i sel _
    have h2 := arcInv_lblStep H h1 (.updateSelector nid sel)
    split
    · exact arcInv_same (same_sendPolicyUpdate H _ _) h2
    · exact h2

theorem arcInv_arcPolicy (H : IdFn) {g : Graph} (hi : ArcInv g) (nid : Nat) (v : Option PolVal) :
    ArcInv (g.arcPolicy H nid v) := by
  unfold Graph.arcPolicy
  cases v with
  | none =>
    simp only []
    have h1 : ArcInv { g with allPolicies := C02.mdel nid g.allPolicies } := arcInv_frame hi rfl rfl
    exact arcInv_lblStep H h1 (.deleteSelector nid)
  | some pv =>
    simp only []
    split
    · exact hi
    · exact arcInv_arcPolicyChanged H hi nid pv

theorem arcInv_step (H : IdFn) {g : Graph} (hi : ArcInv g) (u : Upd) : ArcInv (g.step H u) := by
  cases u with
  | endpoint nid key isLocal v =>
    simp only [Graph.step]
    have h0 : ArcInv { g with epKeys := C02.mset nid key g.epKeys } := arcInv_frame hi rfl rfl
    have h1 : ArcInv (if isLocal = true then
        Graph.localEndpoint H { g with epKeys := C02.mset nid key g.epKeys } nid key v
        else { g with epKeys := C02.mset nid key g.epKeys }) := by
      split
      · exact arcInv_resStep (arcInv_arcEndpoint H h0 nid key v) _
      · exact h0
    unfold Graph.idxEndpoint
    cases v <;> exact arcInv_idxOp h1 _
  | netset name v =>
    simp only [Graph.step, Graph.idxNetset]
    cases v <;> exact arcInv_idxOp hi _
  | profLabels pid v => exact arcInv_profLabels H hi pid v
  | profRules pid v => exact arcInv_same (same_arcProfStep H g _) hi
  | tier name v => exact arcInv_resStep hi _
  | policy nid key v =>
    simp only [Graph.step]
    have h0 : ArcInv { g with polKeys := C02.mset nid key g.polKeys } := arcInv_frame hi rfl rfl
    exact arcInv_resStep (arcInv_arcPolicy H h0 nid v) _
  | passthru c key v => exact arcInv_same (same_emit g _) hi
  | other => exact hi

theorem arcInv_flush {g : Graph} (hi : ArcInv g) : ArcInv g.flush.1 := by
  unfold Graph.flush
  simp only []
  have h1 : ArcInv (match g.res.flush with
      | some (r, calls) => ({ g with res := r }).emit calls
      | none => { g with panicked := true }) := by
    split
    · exact arcInv_same (same_emit _ _) (arcInv_frame hi rfl rfl)
    · exact arcInv_frame hi rfl rfl
  exact arcInv_frame h1 rfl rfl

theorem arcInv_run (H : IdFn) : ∀ (h : List HStep) {g : Graph}, ArcInv g → ArcInv (run H g h).1
  | [], _, hi => hi
  | .upd u :: t, g, hi => by simp only [run]; exact arcInv_run H t (arcInv_step H hi u)
  | .inSync :: t, g, hi => by simp only [run]; exact arcInv_run H t (arcInv_frame hi rfl rfl)
  | .flush :: t, g, hi => by simp only [run]; exact arcInv_run H t (arcInv_flush hi)

end CalicoVerif.C01
