import CalicoVerif.Proofs.C16k
set_option linter.unusedSimpArgs false
namespace CalicoVerif.C16

/-- All lines succeed (the kernel after them), or `none`. -/
def kall (K : Kernel) : List Line → Option Kernel
  | [] => some K
  | l :: ls => (kstep K l).bind (fun K' => kall K' ls)

theorem krun_ok : ∀ (ls : List Line) (K : Kernel), (krun K ls).2.2 = true → kall K ls = some (krun K ls).1 := by
  intro ls
  induction ls with
  | nil => intro K _; rfl
  | cons l ls ih =>
    intro K h
    simp only [krun] at h ⊢
    simp only [kall]
    cases hk : kstep K l with
    | none => rw [hk] at h; simp at h
    | some K' =>
      rw [hk] at h
      simp only [Option.bind_some]
      exact ih K' h

theorem kall_append : ∀ (a b : List Line) (K : Kernel), kall K (a ++ b) = (kall K a).bind (fun K' => kall K' b) := by
  intro a
  induction a with
  | nil => intro b K; rfl
  | cons l a ih =>
    intro b K
    simp only [List.cons_append, kall]
    cases kstep K l with
    | none => rfl
    | some K' => simp only [Option.bind_some]; exact ih b K'

theorem kall_adds (n : String) : ∀ (xs : List String) (K K' : Kernel) (s : KSet),
    K.get n = some s → kall K (xs.map (Line.add n)) = some K' →
    K'.get n = some { s with members := s.members ++ xs } ∧ ∀ x, x ≠ n → K'.get x = K.get x := by
  intro xs
  induction xs with
  | nil =>
    intro K K' s hs h
    simp only [List.map_nil, kall, Option.some.injEq] at h; subst h
    exact ⟨by simp [hs], fun _ _ => rfl⟩
  | cons a xs ih =>
    intro K K' s hs h
    simp only [List.map_cons, kall, kstep, hs] at h
    split at h
    · simp at h
    · simp only [Option.bind_some] at h
      have := ih (K.set n { s with members := s.members ++ [a] }) K' { s with members := s.members ++ [a] }
        (by simp [Map.get_set]) h
      refine ⟨by simpa [List.append_assoc] using this.1, ?_⟩
      intro x hx
      rw [this.2 x hx, Map.get_set]; simp [hx]

theorem kall_dels (n : String) : ∀ (xs : List String) (K K' : Kernel) (s : KSet),
    K.get n = some s → kall K (xs.map (Line.del n)) = some K' →
    K'.get n = some { s with members := xs.foldl sErase s.members } ∧ ∀ x, x ≠ n → K'.get x = K.get x := by
  intro xs
  induction xs with
  | nil =>
    intro K K' s hs h
    simp only [List.map_nil, kall, Option.some.injEq] at h; subst h
    exact ⟨by simp [hs], fun _ _ => rfl⟩
  | cons a xs ih =>
    intro K K' s hs h
    simp only [List.map_cons, kall, kstep, hs, Option.bind_some] at h
    have := ih (K.set n { s with members := sErase s.members a }) K' { s with members := sErase s.members a }
      (by simp [Map.get_set]) h
    refine ⟨by simpa using this.1, ?_⟩
    intro x hx
    rw [this.2 x hx, Map.get_set]; simp [hx]

/-- Does the kernel set carry the desired type and parameters? -/
def metaMatches (k : KSet) (dm : Meta) : Prop :=
  k.type = dm.type ∧
    (if dm.type == "bitmap:port" then k.rangeMin = dm.rangeMin ∧ k.rangeMax = dm.rangeMax else k.maxSize = dm.maxSize)

theorem parseMeta_matches {k : KSet} {dm : Meta} (h : parseMeta k = dm) : metaMatches k dm := by
  unfold parseMeta at h
  split at h
  · rename_i hb
    subst h
    simp only [metaMatches, hb, if_true, and_self]
  · rename_i hb
    subst h
    simp only [metaMatches, true_and]
    simp [hb]

theorem kstep_create {K K' : Kernel} {n : String} {dm : Meta} (h : kstep K (createLine n dm) = some K') :
    K.get n = none ∧ (∃ k, K'.get n = some k ∧ metaMatches k dm ∧ k.members = []) ∧
      ∀ x, x ≠ n → K'.get x = K.get x := by
  unfold createLine at h
  split at h
  · rename_i hb
    simp only [kstep] at h
    split at h
    · simp at h
    · rename_i hn
      simp only [hb, if_true, Option.some.injEq] at h
      subst h
      have hnone : K.get n = none := by
        simp only [Map.has] at hn
        cases hg : K.get n with
        | none => rfl
        | some v => simp [hg] at hn
      refine ⟨hnone, ⟨⟨dm.type, 0, dm.rangeMin, dm.rangeMax, [], false, false⟩, by simp [Map.get_set], ?_, rfl⟩,
        fun x hx => by simp [Map.get_set, hx]⟩
      simp [metaMatches, hb]
  · rename_i hb
    simp only [kstep] at h
    split at h
    · simp at h
    · rename_i hn
      have hb' : (dm.type == "bitmap:port") = false := by simpa using hb
      simp only [hb', Bool.false_eq_true, if_false, Option.some.injEq] at h
      subst h
      have hnone : K.get n = none := by
        simp only [Map.has] at hn
        cases hg : K.get n with
        | none => rfl
        | some v => simp [hg] at hn
      refine ⟨hnone, ⟨⟨dm.type, dm.maxSize, 0, 0, [], false, false⟩, by simp [Map.get_set], ?_, rfl⟩,
        fun x hx => by simp [Map.get_set, hx]⟩
      simp [metaMatches, hb']

end CalicoVerif.C16
