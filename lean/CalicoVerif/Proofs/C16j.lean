import CalicoVerif.Proofs.C16i
namespace CalicoVerif.C16

/-- The configuration Felix uses for IPv4 (felix/dataplane/driver.go). -/
def realCfg : Cfg := ⟨["cali4", "felix-4", "cali4", "felix-masq-ipam-pools", "felix-all-ipam-pools"], "cali40", "cali4t"⟩

theorem realCfg_ok : CfgOK realCfg := by
  constructor
  · intro k
    simp only [Cfg.isTemp, Cfg.tempName, hasPrefix, realCfg, String.toList_append, List.isPrefixOf_iff_prefix]
    exact List.prefix_append _ _
  · intro n hn
    simp only [Cfg.isTemp, hasPrefix, realCfg, List.isPrefixOf_iff_prefix] at hn
    simp only [Cfg.owns, realCfg, List.any_cons, hasPrefix, Bool.or_eq_true, List.isPrefixOf_iff_prefix]
    left
    exact List.IsPrefix.trans (by decide : "cali4".toList <+: "cali4t".toList) hn

theorem kstates_get_other {n : String} : ∀ (ls : List Line) (K : Kernel),
    (∀ l ∈ ls, n ∉ l.names) → ∀ Ki ∈ kstates K ls, Ki.get n = K.get n := by
  intro ls
  induction ls with
  | nil => intro K _ Ki hi; simp only [kstates, List.mem_singleton] at hi; subst hi; rfl
  | cons l ls ih =>
    intro K h Ki hi
    simp only [kstates] at hi
    split at hi
    · simp only [List.mem_singleton] at hi; subst hi; rfl
    · rename_i K' hk
      simp only [List.mem_cons] at hi
      rcases hi with rfl | hi
      · rfl
      · rw [ih K' (fun l' hl' => h l' (List.mem_cons_of_mem _ hl')) Ki hi]
        exact kstep_get_other hk (h l List.mem_cons_self)

end CalicoVerif.C16
