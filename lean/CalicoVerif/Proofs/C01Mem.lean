import CalicoVerif.Proofs.C01Idx
import CalicoVerif.Proofs.C01Show
import CalicoVerif.Proofs.C01Valid
import CalicoVerif.Props.C04
/-! C01 helper: the member index (C04 model) inside the composed graph.

Every `OnIPSetMemberAdded/Removed` call the graph makes on the EventSequencer is the image (through the
injective `showMember`) of a callback of the C04 model; the C04 invariant (`Inv`, carried along the graph's
run) makes the strict replay of those callbacks succeed, and `C01Idx` shows each callback is for a set the
index knows — which the graph has declared.  Hence: the member half of the IP-set protocol is respected
(`memberValidAll`), and the declared content of each set is exactly the consumer's view `D` of the index. -/
namespace CalicoVerif.C01
open CalicoVerif C02

/-- the declared IP-set contents are the string images of the index consumer's view -/
def Mem (u : DP) (D : C04.Down) : Prop :=
  ∀ id f, u.ipsets id = some f → ∀ str, f str = true ↔ ∃ m, (id, m) ∈ D ∧ showMember m = str

theorem memberValidAll_append {u : DP} {a b : List Call} :
    memberValidAll u (a ++ b) ↔ memberValidAll u a ∧ memberValidAll (upAll u a) b := by
  induction a generalizing u with
  | nil => simp [memberValidAll, upAll]
  | cons c a ih =>
    simp only [List.cons_append, memberValidAll, ih, and_assoc]
    rfl

/-- replaying a batch of member callbacks for declared sets against the declared state -/
theorem walk (K : List String) : ∀ (evs : List C04.Event) (u : DP) (D D' : C04.Down),
    (∀ e ∈ evs, ∃ s ∈ K, C04.C01Ext.MemberEv s e) → (∀ k ∈ K, (u.ipsets k).isSome = true) → Mem u D →
    C04.replayFrom D evs = some D' →
    memberValidAll u (evs.filterMap idxCall) ∧ Mem (upAll u (evs.filterMap idxCall)) D' ∧
    (∀ id, ((upAll u (evs.filterMap idxCall)).ipsets id).isSome = (u.ipsets id).isSome)
  | [], u, D, D', _, _, hm, hr => by
    simp only [C04.replayFrom, Option.some.injEq] at hr
    subst hr
    exact ⟨trivial, hm, fun _ => rfl⟩
  | e :: t, u, D, D', hev, hK, hm, hr => by
    obtain ⟨s, hs, hme⟩ := hev e (List.mem_cons_self ..)
    have hev' : ∀ e ∈ t, ∃ s ∈ K, C04.C01Ext.MemberEv s e := fun x hx => hev x (List.mem_cons_of_mem _ hx)
    have hsome := hK s hs
    cases hf : u.ipsets s with
    | none => rw [hf] at hsome; cases hsome
    | some f =>
      rcases hme with ⟨m, rfl⟩ | ⟨m, rfl⟩
      · -- OnMemberAdded
        simp only [C04.replayFrom, C04.applyEvent] at hr
        by_cases hmem : (s, m) ∈ D
        · simp [hmem] at hr
        · simp only [hmem, if_false] at hr
          have hfalse : f (showMember m) = false := by
            cases hx : f (showMember m) with
            | false => rfl
            | true =>
              obtain ⟨m', hm', he⟩ := (hm s f hf (showMember m)).mp hx
              rw [showMember_inj he] at hm'
              exact absurd hm' hmem
          have hu1 : upApply u (.memberAdded s (showMember m)) =
              { u with ipsets := fupd u.ipsets s (some (fun m' => f m' || decide (m' = showMember m))) } := by
            simp only [upApply, hf]
          have hK1 : ∀ k ∈ K, ((upApply u (.memberAdded s (showMember m))).ipsets k).isSome = true := by
            intro k hk
            rw [hu1]
            simp only [fupd]
            by_cases hks : k = s
            · simp [hks]
            · simp only [hks, if_false]; exact hK k hk
          have hm1 : Mem (upApply u (.memberAdded s (showMember m))) ((s, m) :: D) := by
            intro id f1 hf1 str
            rw [hu1] at hf1
            simp only [fupd] at hf1
            by_cases hid : id = s
            · subst hid
              simp only [if_true, Option.some.injEq] at hf1
              subst hf1
              simp only [Bool.or_eq_true, decide_eq_true_eq, List.mem_cons, Prod.mk.injEq, true_and]
              rw [hm id f hf str]
              constructor
              · rintro (⟨m', h1, h2⟩ | h)
                · exact ⟨m', Or.inr h1, h2⟩
                · exact ⟨m, Or.inl rfl, h.symm⟩
              · rintro ⟨m', h1 | h1, h2⟩
                · subst h1; exact Or.inr h2.symm
                · exact Or.inl ⟨m', h1, h2⟩
            · simp only [hid, if_false] at hf1
              rw [hm id f1 hf1 str]
              constructor
              · rintro ⟨m', h1, h2⟩; exact ⟨m', List.mem_cons_of_mem _ h1, h2⟩
              · rintro ⟨m', h1, h2⟩
                rcases List.mem_cons.mp h1 with h | h
                · simp only [Prod.mk.injEq] at h; exact absurd h.1 hid
                · exact ⟨m', h, h2⟩
          obtain ⟨i1, i2, i3⟩ := walk K t _ _ D' hev' hK1 hm1 hr
          simp only [List.filterMap_cons, idxCall]
          refine ⟨⟨⟨f, hf, hfalse⟩, i1⟩, i2, ?_⟩
          intro id
          show ((upAll (upApply u (.memberAdded s (showMember m))) _).ipsets id).isSome = _
          rw [i3 id, hu1]
          simp only [fupd]
          by_cases hid : id = s
          · simp [hid, hf]
          · simp [hid]
      · -- OnMemberRemoved
        simp only [C04.replayFrom, C04.applyEvent] at hr
        by_cases hmem : (s, m) ∈ D
        · simp only [hmem, if_true] at hr
          have htrue : f (showMember m) = true := (hm s f hf (showMember m)).mpr ⟨m, hmem, rfl⟩
          have hu1 : upApply u (.memberRemoved s (showMember m)) =
              { u with ipsets := fupd u.ipsets s (some (fun m' => f m' && !decide (m' = showMember m))) } := by
            simp only [upApply, hf]
          have hK1 : ∀ k ∈ K, ((upApply u (.memberRemoved s (showMember m))).ipsets k).isSome = true := by
            intro k hk
            rw [hu1]
            simp only [fupd]
            by_cases hks : k = s
            · simp [hks]
            · simp only [hks, if_false]; exact hK k hk
          have hm1 : Mem (upApply u (.memberRemoved s (showMember m))) (D.filter (fun x => x ≠ (s, m))) := by
            intro id f1 hf1 str
            rw [hu1] at hf1
            simp only [fupd] at hf1
            by_cases hid : id = s
            · subst hid
              simp only [if_true, Option.some.injEq] at hf1
              subst hf1
              simp only [Bool.and_eq_true, Bool.not_eq_true', decide_eq_false_iff_not, List.mem_filter,
                decide_eq_true_eq, ne_eq, Prod.mk.injEq, true_and]
              rw [hm id f hf str]
              constructor
              · rintro ⟨⟨m', h1, h2⟩, hne⟩
                exact ⟨m', ⟨h1, fun e => hne (by rw [← h2, e])⟩, h2⟩
              · rintro ⟨m', ⟨h1, hne⟩, h2⟩
                exact ⟨⟨m', h1, h2⟩, fun e => hne (showMember_inj (h2.trans e))⟩
            · simp only [hid, if_false] at hf1
              rw [hm id f1 hf1 str]
              constructor
              · rintro ⟨m', h1, h2⟩
                exact ⟨m', List.mem_filter.mpr ⟨h1, by simp [hid]⟩, h2⟩
              · rintro ⟨m', h1, h2⟩
                exact ⟨m', (List.mem_filter.mp h1).1, h2⟩
          obtain ⟨i1, i2, i3⟩ := walk K t _ _ D' hev' hK1 hm1 hr
          simp only [List.filterMap_cons, idxCall]
          refine ⟨⟨⟨f, hf, htrue⟩, i1⟩, i2, ?_⟩
          intro id
          show ((upAll (upApply u (.memberRemoved s (showMember m))) _).ipsets id).isSome = _
          rw [i3 id, hu1]
          simp only [fupd]
          by_cases hid : id = s
          · simp [hid, hf]
          · simp [hid]
        · simp [hmem] at hr

/-- the fields `idxOp` touches -/
theorem idxOp_fields (g : Graph) (op : C04.Op Str) :
    (g.idxOp op).idx = C04.step matchSel g.idx op ∧
    (g.idxOp op).calls = g.calls ++
      ((C04.step matchSel g.idx op).out.drop g.idx.out.length).filterMap idxCall := by
  unfold Graph.idxOp C04.stepEvents
  simp only []
  refine ⟨?_, ?_⟩ <;> (unfold Graph.emit; split <;> rfl)

theorem decl_calls {g g' : Graph} {cs : List Call} (h : g'.calls = g.calls ++ cs) : decl g' = upAll (decl g) cs := by
  unfold decl; rw [h, upAll_append]

/-- ONE MEMBER-INDEX OPERATION (not `DeleteIPSet`) inside the graph -/
theorem idxOp_core {g : Graph} (op : C04.Op Str) (hinv : C04.Inv matchSel g.idx) (hop : op.ok)
    (hdel : ∀ s, op ≠ .deleteIPSet s) (K : List String) (hK : ∀ k ∈ C04.C01Ext.keys g.idx, k ∈ K)
    (hnew : ∀ s sel p q, op = .updateIPSet s sel p q → s ∈ K)
    (hdecl : ∀ k ∈ K, ((decl g).ipsets k).isSome = true)
    (hmem : ∀ D, C04.replay g.idx.out = some D → Mem (decl g) D) (hv : memberValidAll {} g.calls) :
    C04.Inv matchSel (g.idxOp op).idx ∧ (∀ k ∈ C04.C01Ext.keys (g.idxOp op).idx, k ∈ K) ∧
    (∀ D, C04.replay (g.idxOp op).idx.out = some D → Mem (decl (g.idxOp op)) D) ∧
    memberValidAll {} (g.idxOp op).calls ∧
    (∀ id, ((decl (g.idxOp op)).ipsets id).isSome = ((decl g).ipsets id).isSome) := by
  obtain ⟨fidx, fcalls⟩ := idxOp_fields g op
  have hinv' := C04.step_inv matchSel op hop hinv
  have hext := C04.C01Ext.step_ext matchSel g.idx op hK hnew hdel
  obtain ⟨evs, hout, hevs⟩ := hext.out
  have hdrop : (C04.step matchSel g.idx op).out.drop g.idx.out.length = evs := by
    rw [hout]; exact List.drop_left
  rw [hdrop] at fcalls
  obtain ⟨D, hD, _, _⟩ := C04.members_once_and_alternate hinv.core.wf
  obtain ⟨D', hD', _, _⟩ := C04.members_once_and_alternate hinv'.core.wf
  have hrep : C04.replayFrom D evs = some D' := by
    have := hD'
    rw [hout] at this
    unfold C04.replay at this hD
    rw [C04.replayFrom_append, hD] at this
    simpa using this
  obtain ⟨w1, w2, w3⟩ := walk K evs (decl g) D D' hevs hdecl (hmem D hD) hrep
  have hdecl' := decl_calls fcalls
  refine ⟨by rw [fidx]; exact hinv', by rw [fidx]; exact hext.sub, ?_, ?_, ?_⟩
  · intro D2 hD2
    rw [fidx, hD'] at hD2
    simp only [Option.some.injEq] at hD2
    subst hD2
    rw [hdecl']; exact w2
  · rw [fcalls]
    exact memberValidAll_append.mpr ⟨hv, w1⟩
  · intro id
    rw [hdecl']; exact w3 id


/-! ### the invariant -/

structure IInv (g : Graph) : Prop where
  inv : C04.Inv matchSel g.idx
  /-- every set the index knows has been declared -/
  dom : ∀ id ∈ C04.C01Ext.keys g.idx, ((decl g).ipsets id).isSome = true
  mem : ∀ D, C04.replay g.idx.out = some D → Mem (decl g) D
  valid : memberValidAll {} g.calls

theorem iInv_frame {g g' : Graph} (hi : IInv g) (h1 : g'.idx = g.idx) (h2 : g'.calls = g.calls) : IInv g' := by
  have hd : decl g' = decl g := by unfold decl; rw [h2]
  exact ⟨by rw [h1]; exact hi.inv, by rw [h1, hd]; exact hi.dom, by rw [h1, hd]; exact hi.mem, by rw [h2]; exact hi.valid⟩

/-- what the consumer holds is for sets the index knows -/
theorem down_keys {st : C04.Idx Str} (h : C04.Inv matchSel st) {D : C04.Down} (hD : C04.replay st.out = some D)
    {s : String} {m : C04.Member} (hm : (s, m) ∈ D) : s ∈ C04.C01Ext.keys st := by
  obtain ⟨D', hD', _, hvis⟩ := C04.members_once_and_alternate h.core.wf
  rw [hD] at hD'
  simp only [Option.some.injEq] at hD'
  subst hD'
  have hv := ((hvis s m).mp hm).1
  unfold C04.refCount at hv
  cases hg : C04.alGet s st.ipsets with
  | none => rw [hg] at hv; simp at hv
  | some d => exact C04.C01Ext.mem_keys_of_get hg

/-- calls that touch neither the IP-set table nor its members -/
def noSetCall : Call → Bool
  | .ipsetAdded _ _ => false
  | .ipsetRemoved _ => false
  | .memberAdded _ _ => false
  | .memberRemoved _ _ => false
  | _ => true

theorem upAll_noSet : ∀ (cs : List Call) (u : DP), (∀ c ∈ cs, noSetCall c = true) →
    (upAll u cs).ipsets = u.ipsets ∧ memberValidAll u cs
  | [], _, _ => ⟨rfl, trivial⟩
  | c :: cs, u, h => by
    have hc := h c (List.mem_cons_self ..)
    have ih := upAll_noSet cs (upApply u c) (fun x hx => h x (List.mem_cons_of_mem _ hx))
    have h1 : (upApply u c).ipsets = u.ipsets := by
      cases c with
      | endpointUpdate k v => cases v <;> rfl
      | ipsetAdded _ _ => simp [noSetCall] at hc
      | ipsetRemoved _ => simp [noSetCall] at hc
      | memberAdded _ _ => simp [noSetCall] at hc
      | memberRemoved _ _ => simp [noSetCall] at hc
      | _ => rfl
    refine ⟨by show (upAll (upApply u c) cs).ipsets = _; rw [ih.1, h1], ?_, ih.2⟩
    cases c <;> simp [noSetCall] at hc <;> trivial

theorem emit_fields (g : Graph) (cs : List Call) : (g.emit cs).idx = g.idx ∧ (g.emit cs).calls = g.calls ++ cs := by
  unfold Graph.emit; split <;> exact ⟨rfl, rfl⟩

theorem iInv_emit {g : Graph} (hi : IInv g) (cs : List Call) (h : ∀ c ∈ cs, noSetCall c = true) : IInv (g.emit cs) := by
  obtain ⟨f1, f2⟩ := emit_fields g cs
  obtain ⟨u1, u2⟩ := upAll_noSet cs (decl g) h
  have hd : (decl (g.emit cs)).ipsets = (decl g).ipsets := by rw [decl_calls f2]; exact u1
  refine ⟨by rw [f1]; exact hi.inv, by rw [f1, hd]; exact hi.dom, ?_, ?_⟩
  · intro D hD
    rw [f1] at hD
    intro id f hf
    rw [hd] at hf
    exact hi.mem D hD id f hf
  · rw [f2]; exact memberValidAll_append.mpr ⟨hi.valid, u2⟩

/-- an index operation that neither creates nor deletes an IP set -/
theorem iInv_idxOp {g : Graph} (hi : IInv g) (op : C04.Op Str) (hop : op.ok) (hdel : ∀ s, op ≠ .deleteIPSet s)
    (hupd : ∀ s sel p q, op ≠ .updateIPSet s sel p q) : IInv (g.idxOp op) := by
  obtain ⟨h1, h2, h3, h4, h5⟩ := idxOp_core op hi.inv hop hdel (C04.C01Ext.keys g.idx) (fun _ h => h)
    (fun s sel p q e => absurd e (hupd s sel p q)) hi.dom hi.mem hi.valid
  exact ⟨h1, fun id hid => by rw [h5]; exact hi.dom id (h2 id hid), h3, h4⟩

/-- `OnIPSetActive` for a set that is not declared yet -/
theorem iInv_ipsetActive {g : Graph} (hi : IInv g) (uid : String) (d : IpSetDef) (hnone : (decl g).ipsets uid = none) :
    IInv (g.onRsEvent (.ipsetActive uid d)) := by
  simp only [Graph.onRsEvent]
  obtain ⟨f1, f2⟩ := emit_fields g [.ipsetAdded uid (if d.proto ≠ C04.protoNone then 1 else 0)]
  have hd1 : decl (g.emit [.ipsetAdded uid (if d.proto ≠ C04.protoNone then 1 else 0)]) =
      { decl g with ipsets := fupd (decl g).ipsets uid (some (fun _ => false)) } := by
    rw [decl_calls f2]; rfl
  have hK : ∀ k ∈ C04.C01Ext.keys (g.emit [.ipsetAdded uid (if d.proto ≠ C04.protoNone then 1 else 0)]).idx,
      k ∈ uid :: C04.C01Ext.keys g.idx := by
    intro k hk; rw [f1] at hk; exact List.mem_cons_of_mem _ hk
  obtain ⟨h1, h2, h3, h4, h5⟩ := idxOp_core (g := g.emit [.ipsetAdded uid (if d.proto ≠ C04.protoNone then 1 else 0)])
    (.updateIPSet uid d.sel d.proto d.port) (by rw [f1]; exact hi.inv) trivial (fun s e => by cases e)
    (uid :: C04.C01Ext.keys g.idx) hK
    (fun s sel p q e => by cases e; exact List.mem_cons_self ..)
    (by
      intro k hk
      rw [hd1]
      simp only [fupd]
      by_cases hku : k = uid
      · simp [hku]
      · simp only [hku, if_false]
        rcases List.mem_cons.mp hk with h | h
        · exact absurd h hku
        · exact hi.dom k h)
    (by
      intro D hD
      rw [f1] at hD
      intro id f hf str
      rw [hd1] at hf
      simp only [fupd] at hf
      by_cases hid : id = uid
      · subst hid
        simp only [if_true, Option.some.injEq] at hf
        subst hf
        constructor
        · intro h; cases h
        · rintro ⟨m, hm, _⟩
          have := hi.dom id (down_keys hi.inv hD hm)
          rw [hnone] at this; cases this
      · simp only [hid, if_false] at hf
        exact hi.mem D hD id f hf str)
    (by rw [f2]; exact memberValidAll_append.mpr ⟨hi.valid, trivial, trivial⟩)
  refine ⟨h1, ?_, h3, h4⟩
  intro id hid
  rw [h5, hd1]
  simp only [fupd]
  by_cases hku : id = uid
  · simp [hku]
  · simp only [hku, if_false]
    rcases List.mem_cons.mp (h2 id hid) with h | h
    · exact absurd h hku
    · exact hi.dom id h

/-- `OnIPSetInactive` -/
theorem iInv_ipsetInactive {g : Graph} (hi : IInv g) (uid : String) : IInv (g.onRsEvent (.ipsetInactive uid)) := by
  simp only [Graph.onRsEvent]
  obtain ⟨fidx, fcalls⟩ := idxOp_fields g (.deleteIPSet uid)
  obtain ⟨hout, hkeys⟩ := C04.C01Ext.deleteIPSet_out uid g.idx
  have hstep : C04.step matchSel g.idx (.deleteIPSet uid) = C04.deleteIPSet uid g.idx := rfl
  rw [hstep] at fidx fcalls
  have hdrop : (C04.deleteIPSet uid g.idx).out.drop g.idx.out.length = [.cleared uid] := by
    rw [hout]; exact List.drop_left
  rw [hdrop] at fcalls
  simp only [List.filterMap_cons, idxCall, List.filterMap_nil, List.append_nil] at fcalls
  have hinv' : C04.Inv matchSel (C04.deleteIPSet uid g.idx) := C04.step_inv matchSel (.deleteIPSet uid) trivial hi.inv
  obtain ⟨e1, e2⟩ := emit_fields (g.idxOp (.deleteIPSet uid)) [.ipsetRemoved uid]
  have hd1 : decl (g.idxOp (.deleteIPSet uid)) = decl g := by unfold decl; rw [fcalls]
  have hd2 : decl ((g.idxOp (.deleteIPSet uid)).emit [.ipsetRemoved uid]) =
      { decl g with ipsets := fupd (decl g).ipsets uid none } := by
    rw [decl_calls e2, hd1]; rfl
  refine ⟨by rw [e1, fidx]; exact hinv', ?_, ?_, ?_⟩
  · intro id hid
    rw [e1, fidx] at hid
    obtain ⟨hk, hne⟩ := hkeys id hid
    rw [hd2]
    simp only [fupd, hne, if_false]
    exact hi.dom id hk
  · intro D' hD'
    rw [e1, fidx, hout] at hD'
    obtain ⟨D, hD, _, _⟩ := C04.members_once_and_alternate hi.inv.core.wf
    unfold C04.replay at hD' hD
    rw [C04.replayFrom_append, hD] at hD'
    simp only [Option.bind_some, C04.replayFrom, C04.applyEvent, Option.some.injEq] at hD'
    subst hD'
    intro id f hf str
    rw [hd2] at hf
    simp only [fupd] at hf
    by_cases hid : id = uid
    · simp [hid] at hf
    · simp only [hid, if_false] at hf
      rw [hi.mem D hD id f hf str]
      constructor
      · rintro ⟨m, h1, h2⟩
        exact ⟨m, List.mem_filter.mpr ⟨h1, by simp [hid]⟩, h2⟩
      · rintro ⟨m, h1, h2⟩
        exact ⟨m, (List.mem_filter.mp h1).1, h2⟩
  · rw [e2, fcalls]
    exact memberValidAll_append.mpr ⟨hi.valid, trivial, trivial⟩

/-- delivering a legal scanner event sequence -/
theorem foldl_onRsEvent_iinv {f f' : InUse} {evs : List RsEvent} (hr : EvReplay f evs f') :
    ∀ g : Graph, (∀ u, ((decl g).ipsets u).isSome = f u) → IInv g → IInv (evs.foldl Graph.onRsEvent g) := by
  induction hr with
  | nil f => intro g _ hi; exact hi
  | @active f uid d evs f' hn _ ih =>
    intro g hd hi
    simp only [List.foldl_cons]
    have hnone : (decl g).ipsets uid = none := by
      have := hd uid; rw [hn] at this
      cases hx : (decl g).ipsets uid with
      | none => rfl
      | some _ => rw [hx] at this; cases this
    obtain ⟨_, _, _, _, h5, _⟩ := onRsEvent_spec g (.ipsetActive uid d)
    exact ih _ (by intro u; rw [h5 u]; by_cases hu : u = uid <;> simp [hu, hd u]) (iInv_ipsetActive hi uid d hnone)
  | @inactive f uid evs f' hm _ ih =>
    intro g hd hi
    simp only [List.foldl_cons]
    obtain ⟨_, _, _, _, h5, _⟩ := onRsEvent_spec g (.ipsetInactive uid)
    exact ih _ (by intro u; rw [h5 u]; by_cases hu : u = uid <;> simp [hu, hd u]) (iInv_ipsetInactive hi uid)

theorem rulesCall_noSet (H : IdFn) (key : RulesId) (r : Option RulesIn) : noSetCall (rulesCall H key r) = true := by
  cases key <;> cases r <;> rfl

/-- RULE SCANNER step inside the graph -/
theorem iInv_scanRules {H : IdFn} {g : Graph} (hr : RsInv H g) (hi : IInv g) (key : RulesId) (rules : Option RulesIn) :
    IInv (g.scanRules H key rules) := by
  unfold Graph.scanRules
  have hspec := updateRules_spec g.rs key (curOf H rules) hr.nodup
  have hfold := foldl_onRsEvent_iinv hspec.2
    { g with rs := (g.rs.updateRules key (curOf H rules)).1, active := setOrDel key rules g.active }
    (by intro u; exact hr.dom u) (iInv_frame hi rfl rfl)
  rw [← rsUpdate_eq] at hfold
  exact iInv_emit hfold _ (by intro c hc; simp at hc; subst hc; exact rulesCall_noSet H key rules)

/-! ### both invariants along the graph -/

/-- network-set prefixes are no longer than the address width -/
def netsOk : Upd → Prop
  | .netset _ (some n) => ∀ c ∈ n.nets, c.len ≤ C04.width c.v6
  | _ => True

theorem extractIPs_canon (nets : List C04.Cidr) : ∀ c ∈ C04.extractIPs nets, c.canon := by
  intro c hc
  unfold C04.extractIPs at hc
  obtain ⟨a, _, rfl⟩ := List.mem_map.mp hc
  exact ⟨Nat.le_refl _, by simp [Nat.mod_one]⟩

theorem extractNetSet_canon (nets : List C04.Cidr) (h : ∀ c ∈ nets, c.len ≤ C04.width c.v6) :
    ∀ c ∈ C04.extractNetSet nets, c.canon := by
  intro c hc
  unfold C04.extractNetSet at hc
  obtain ⟨a, ha, hca⟩ := List.mem_flatMap.mp hc
  simp only [] at hca
  have hw : 1 ≤ C04.width a.v6 := by unfold C04.width; split <;> omega
  split at hca
  · simp only [List.mem_cons, List.not_mem_nil, or_false] at hca
    rcases hca with rfl | rfl
    · exact ⟨hw, by simp⟩
    · exact ⟨hw, by simp⟩
  · simp only [List.mem_singleton] at hca
    subst hca
    refine ⟨h a ha, ?_⟩
    simp only [C04.Cidr.mask, Nat.shiftLeft_eq]
    exact Nat.mul_mod_left _ _

variable {H : IdFn}

/-- RuleScanner invariant + member-index invariant -/
structure CInv (H : IdFn) (g : Graph) : Prop where
  rs : RsInv H g
  ii : IInv g

theorem cInv_frame {g g' : Graph} (hi : CInv H g) (h1 : g'.rs = g.rs) (h2 : g'.active = g.active)
    (h3 : g'.calls = g.calls) (h4 : g'.idx = g.idx) : CInv H g' :=
  ⟨rsInv_frame hi.rs h1 h2 h3, iInv_frame hi.ii h4 h3⟩

theorem cInv_foldl {α : Type} (f : Graph → α → Graph) (hf : ∀ g a, CInv H g → CInv H (f g a)) :
    ∀ (l : List α) (g : Graph), CInv H g → CInv H (l.foldl f g)
  | [], _, hi => hi
  | a :: l, g, hi => cInv_foldl f hf l (f g a) (hf g a hi)

theorem cInv_scanRules {g : Graph} (hi : CInv H g) (key : RulesId) (rules : Option RulesIn) :
    CInv H (g.scanRules H key rules) :=
  ⟨rsInv_scanRules hi.rs key rules, iInv_scanRules hi.rs hi.ii key rules⟩

theorem cInv_idxOp {g : Graph} (hi : CInv H g) (op : C04.Op Str) (hop : op.ok) (hdel : ∀ s, op ≠ .deleteIPSet s)
    (hupd : ∀ s sel p q, op ≠ .updateIPSet s sel p q) : CInv H (g.idxOp op) :=
  ⟨rsInv_idxOp hi.rs op, iInv_idxOp hi.ii op hop hdel hupd⟩

theorem cInv_profEvents {g : Graph} (hi : CInv H g) (evs : List (C05.Event RulesIn)) :
    CInv H (g.profEvents H evs) := by
  unfold Graph.profEvents
  refine cInv_foldl _ ?_ evs g hi
  intro g e hi
  cases e with
  | active p r => cases r <;> exact cInv_scanRules hi _ _
  | inactive p => exact cInv_scanRules hi _ _

theorem cInv_arcProfStep {g : Graph} (hi : CInv H g) (u : C05.Upd RulesIn) : CInv H (g.arcProfStep H u) := by
  unfold Graph.arcProfStep
  simp only []
  have h0 : CInv H { g with arcProf := C05.step g.arcProf u } := cInv_frame hi rfl rfl rfl rfl
  exact cInv_profEvents h0 _

theorem cInv_sendPolicyUpdate {g : Graph} (hi : CInv H g) (n : Nat) : CInv H (g.sendPolicyUpdate H n) := by
  unfold Graph.sendPolicyUpdate
  split
  · split
    · exact cInv_scanRules hi _ _
    · exact cInv_frame hi rfl rfl rfl rfl
  · exact cInv_scanRules hi _ _

theorem cInv_onMatchEvent {g : Graph} (hi : CInv H g) (e : C07.Event) : CInv H (g.onMatchEvent H e) := by
  cases e with
  | started sel item =>
    simp only [Graph.onMatchEvent]
    have key : ∀ g1 : Graph, CInv H g1 → CInv H (if (!g.polActive sel) = true then g1.sendPolicyUpdate H sel else g1) := by
      intro g1 h1; split
      · exact cInv_sendPolicyUpdate h1 sel
      · exact h1
    exact cInv_frame (key { g with polEps := C02.sadd (sel, item) g.polEps } (cInv_frame hi rfl rfl rfl rfl)) rfl rfl rfl rfl
  | stopped sel item =>
    simp only [Graph.onMatchEvent]
    have key : ∀ g1 : Graph, CInv H g1 → CInv H (if (!g1.polActive sel) = true then g1.sendPolicyUpdate H sel else g1) := by
      intro g1 h1; split
      · exact cInv_sendPolicyUpdate h1 sel
      · exact h1
    exact cInv_frame (key { g with polEps := C02.sdel (sel, item) g.polEps } (cInv_frame hi rfl rfl rfl rfl)) rfl rfl rfl rfl

theorem cInv_lblStep {g : Graph} (hi : CInv H g) (r : C07.Idx × List C07.Event) : CInv H (g.lblStep H r) := by
  unfold Graph.lblStep
  exact cInv_foldl _ (fun g e hi => cInv_onMatchEvent hi e) _ _ (cInv_frame hi rfl rfl rfl rfl)

theorem cInv_arcEndpoint {g : Graph} (hi : CInv H g) (nid : Nat) (key : EpKey) (v : Option EpVal) :
    CInv H (g.arcEndpoint H nid key v) := by
  unfold Graph.arcEndpoint
  simp only []
  have h2 := cInv_arcProfStep hi (.endpoint (epKeyStr key) (v.map (·.profiles)))
  cases v <;> exact cInv_lblStep h2 _

theorem cInv_profLabels {g : Graph} (hi : CInv H g) (pid : String) (v : Option C04.Labels) :
    CInv H (g.profLabels H pid v) := by
  unfold Graph.profLabels
  cases v with
  | none => exact cInv_idxOp (cInv_lblStep hi _) _ trivial (fun s e => by cases e) (fun s sel p q e => by cases e)
  | some ls => exact cInv_idxOp (cInv_lblStep hi _) _ trivial (fun s e => by cases e) (fun s sel p q e => by cases e)

theorem cInv_arcPolicyChanged {g : Graph} (hi : CInv H g) (nid : Nat) (pv : PolVal) :
    CInv H (g.arcPolicyChanged H nid pv) := by
  unfold Graph.arcPolicyChanged
  simp only []
  have h1 : CInv H { g with allPolicies := C02.mset nid pv g.allPolicies } := cInv_frame hi rfl rfl rfl rfl
  split
  · exact cInv_frame h1 rfl rfl rfl rfl
  · rename_i sel _
    have h2 := cInv_lblStep h1 (C07.updateSelector g.lbl nid sel)
    split
    · exact cInv_sendPolicyUpdate h2 _
    · exact h2

theorem cInv_arcPolicy {g : Graph} (hi : CInv H g) (nid : Nat) (v : Option PolVal) :
    CInv H (g.arcPolicy H nid v) := by
  unfold Graph.arcPolicy
  cases v with
  | none =>
    simp only []
    have h1 : CInv H { g with allPolicies := C02.mdel nid g.allPolicies } := cInv_frame hi rfl rfl rfl rfl
    exact cInv_lblStep h1 _
  | some pv =>
    simp only []
    split
    · exact hi
    · exact cInv_arcPolicyChanged hi nid pv

theorem cInv_step {g : Graph} (hi : CInv H g) (u : Upd) (hu : netsOk u) : CInv H (g.step H u) := by
  cases u with
  | endpoint nid key isLocal v =>
    simp only [Graph.step]
    have h0 : CInv H { g with epKeys := C02.mset nid key g.epKeys } := cInv_frame hi rfl rfl rfl rfl
    have h1 : CInv H (if isLocal = true then
        Graph.localEndpoint H { g with epKeys := C02.mset nid key g.epKeys } nid key v
        else { g with epKeys := C02.mset nid key g.epKeys }) := by
      split
      · exact cInv_frame (cInv_arcEndpoint h0 nid key v) rfl rfl rfl rfl
      · exact h0
    unfold Graph.idxEndpoint
    cases v with
    | none => exact cInv_idxOp h1 _ trivial (fun s e => by cases e) (fun s sel p q e => by cases e)
    | some e =>
      exact cInv_idxOp h1 _ (extractIPs_canon e.nets) (fun s e => by cases e) (fun s sel p q e => by cases e)
  | netset name v =>
    simp only [Graph.step, Graph.idxNetset]
    cases v with
    | none => exact cInv_idxOp hi _ trivial (fun s e => by cases e) (fun s sel p q e => by cases e)
    | some n =>
      exact cInv_idxOp hi _ (extractNetSet_canon n.nets hu) (fun s e => by cases e) (fun s sel p q e => by cases e)
  | profLabels pid v => exact cInv_profLabels hi pid v
  | profRules pid v => exact cInv_arcProfStep hi _
  | tier name v => exact cInv_frame hi rfl rfl rfl rfl
  | policy nid key v =>
    simp only [Graph.step]
    have h0 : CInv H { g with polKeys := C02.mset nid key g.polKeys } := cInv_frame hi rfl rfl rfl rfl
    exact cInv_frame (cInv_arcPolicy h0 nid v) rfl rfl rfl rfl
  | passthru c key v =>
    exact ⟨rsInv_quietRel (quietRel_emit g _ (by intro x hx; simp at hx; subst hx; cases v <;> rfl)) hi.rs,
      iInv_emit hi.ii _ (by intro x hx; simp at hx; subst hx; cases v <;> rfl)⟩
  | other => exact hi

theorem endpointUpdate_noSet {r r' : C03.Resolver} {calls : List Call} (h : r.flush = some (r', calls)) :
    ∀ c ∈ calls, noSetCall c = true := by
  unfold C03.Resolver.flush at h
  split at h
  · cases h; simp
  · simp only [] at h
    split at h
    · cases h
    · cases h
      intro c hc
      obtain ⟨e, _, rfl⟩ := List.mem_map.mp hc
      unfold C03.Resolver.sendEndpointUpdate
      split <;> rfl

theorem cInv_flush {g : Graph} (hi : CInv H g) : CInv H g.flush.1 := by
  refine ⟨rsInv_flush hi.rs, ?_⟩
  rw [flush_eq]
  simp only []
  have h1 : IInv g.flushResolver := by
    unfold Graph.flushResolver
    split
    · rename_i r calls hf
      exact iInv_emit (iInv_frame (g' := { g with res := r }) hi.ii rfl rfl) _ (endpointUpdate_noSet hf)
    · exact iInv_frame hi.ii rfl rfl
  exact iInv_frame h1 rfl rfl

theorem cInv_run : ∀ (h : List HStep) {g : Graph}, CInv H g →
    (∀ st ∈ h, match st with
      | .upd u => netsOk u
      | _ => True) → CInv H (run H g h).1
  | [], _, hi, _ => hi
  | .upd u :: t, g, hi, hn => by
    simp only [run]
    exact cInv_run t (cInv_step hi u (hn (.upd u) (List.mem_cons_self ..))) (fun st hst => hn st (List.mem_cons_of_mem _ hst))
  | .inSync :: t, g, hi, hn => by
    simp only [run]
    exact cInv_run t (cInv_frame hi rfl rfl rfl rfl) (fun st hst => hn st (List.mem_cons_of_mem _ hst))
  | .flush :: t, g, hi, hn => by
    simp only [run]
    exact cInv_run t (cInv_flush hi) (fun st hst => hn st (List.mem_cons_of_mem _ hst))

theorem iInv_new (s : Bool) : IInv (Graph.new s) :=
  ⟨C04.inv_new matchSel s, (by intro id h; simp [C04.C01Ext.keys, Graph.new, C04.Idx.new] at h),
    (by intro D hD id f hf; simp [decl, upAll, Graph.new] at hf), trivial⟩

theorem cInv_new (H : IdFn) (s : Bool) : CInv H (Graph.new s) := ⟨rsInv_new H s, iInv_new s⟩


/-- the consumer's view of an index satisfying the C04 invariant is the C04 specification -/
theorem inv_down_spec {st : C04.Idx Str} (hinv : C04.Inv matchSel st) :
    ∃ D, C04.replay st.out = some D ∧ D.Nodup ∧ ∀ s m, (s, m) ∈ D ↔ C04.memberSpec matchSel st s m := by
  obtain ⟨D, hD, hnd, hmem⟩ := C04.members_once_and_alternate hinv.core.wf
  refine ⟨D, hD, hnd, fun s m => ?_⟩
  rw [hmem]
  unfold C04.visible C04.memberSpec
  rw [C04.refcounted_iff_contributed hinv]
  constructor
  · rintro ⟨h1, h2⟩
    exact ⟨h1, fun hs c hc c' hc' => h2 hs c hc c' ((C04.refcounted_iff_contributed hinv s _).2 hc')⟩
  · rintro ⟨h1, h2⟩
    exact ⟨h1, fun hs c hc c' hc' => h2 hs c hc c' ((C04.refcounted_iff_contributed hinv s _).1 hc')⟩

/-- MEMBER INDEX inside the graph, all histories with well-formed network sets: the member half of the IP-set
protocol is respected, and every declared set holds exactly the string images of the members the C04
specification assigns to it for the index's CURRENT tables. -/
theorem member_index_in_graph (H : IdFn) (s : Bool) (h : List HStep)
    (hn : ∀ st ∈ h, match st with
      | .upd u => netsOk u
      | _ => True) :
    memberValidAll {} (run H (Graph.new s) h).1.calls ∧
    ∀ id f, (decl (run H (Graph.new s) h).1).ipsets id = some f → ∀ str,
      f str = true ↔ ∃ m, C04.memberSpec matchSel (run H (Graph.new s) h).1.idx id m ∧ showMember m = str := by
  have hi := (cInv_run h (cInv_new H s) hn).ii
  refine ⟨hi.valid, ?_⟩
  obtain ⟨D, hD, _, hspec⟩ := inv_down_spec hi.inv
  intro id f hf str
  rw [hi.mem D hD id f hf str]
  constructor
  · rintro ⟨m, h1, h2⟩; exact ⟨m, (hspec id m).mp h1, h2⟩
  · rintro ⟨m, h1, h2⟩; exact ⟨m, (hspec id m).mpr h1, h2⟩

end CalicoVerif.C01
