import CalicoVerif.Model.C11Sem
/-!
C11 — correctness of the assembler model: running the assembled instructions
(`execL` on `asmGo evs`) gives the same outcome as the label-level semantics
`lrun evs`, for EVERY event list, whenever `lrun` does not fault.  This covers
the dead-code dropping of `Block` (an instruction that `lrun` reaches is never
dropped) and the eager forward label resolution.
-/
namespace CalicoVerif.C11

theorem step_nxt {env : Env} {i : Insn} (n1 n2 : Option Insn) {m : Mach}
    (h : i.op ≠ opLoadImm64) : step env i n1 m = step env i n2 m := by
  unfold step
  simp only [if_neg h]

theorem reachable_cons {last : Option Insn} {pend use : List Label} (l : Label)
    (h : reachable last pend use = true) : reachable last (l :: pend) use = true := by
  unfold reachable at *
  simp only [List.any_cons, Bool.or_eq_true] at *
  rcases h with h | h
  · exact Or.inl h
  · exact Or.inr (Or.inr h)

theorem reachable_label {last : Option Insn} {pend use : List Label} {l : Label}
    (h : l ∈ use) : reachable last (l :: pend) use = true := by
  unfold reachable
  simp only [List.any_cons, Bool.or_eq_true]
  refine Or.inr (Or.inl ?_)
  simpa using h

theorem reachable_of_not_stops {i : Insn} {use : List Label} (h : stops (some i) = false) :
    reachable (some i) [] use = true := by
  unfold reachable; simp [h]

/-- An instruction after which execution falls through is not `JumpA`/`Exit`. -/
theorem step_next_not_stop {env : Env} {i : Insn} {nxt : Option Insn} {m m' : Mach}
    (h : step env i nxt m = .next m') : stops (some i) = false := by
  unfold stops
  simp only [Bool.or_eq_false_iff, beq_eq_false_iff_ne, ne_eq]
  constructor
  · intro hop
    unfold step at h
    simp [hop, opJumpA, opLoadImm64] at h
  · intro hop
    unfold step at h
    simp [hop, opExit, opJumpA, opLoadImm64] at h
    split at h <;> simp at h

theorem step_next2 {env : Env} {i : Insn} {nxt : Option Insn} {m m' : Mach}
    (h : step env i nxt m = .next2 m') :
    i.op = opLoadImm64 ∧ ∃ j, nxt = some j ∧ j.op = opLoadImm64Pt2 := by
  by_cases hop : i.op = opLoadImm64
  · refine ⟨hop, ?_⟩
    unfold step at h
    simp only [if_pos hop] at h
    cases nxt with
    | none => simp at h
    | some j =>
      refine ⟨j, rfl, ?_⟩
      simp only at h
      by_cases hj : j.op = opLoadImm64Pt2 ∧ i.dst < 10
      · exact hj.1
      · simp [if_neg hj] at h
  · exfalso
    unfold step at h
    simp only [if_neg hop] at h
    -- no other branch produces `next2`
    repeat' split at h
    all_goals first | cases h | skip
    all_goals (unfold helperCall at h; repeat' split at h)
    all_goals first | cases h | skip

/-- The offset field is not read by jump-class instructions. -/
theorem step_off {env : Env} {i : Insn} {nxt : Option Insn} {m : Mach} (d : Int)
    (h : i.isJumpOp = true) : step env { i with off := d } nxt m = step env i nxt m := by
  unfold Insn.isJumpOp at h
  simp only [Bool.or_eq_true, beq_iff_eq] at h
  have h18 : i.op ≠ opLoadImm64 := by
    intro e; rw [e] at h; simp [opLoadImm64] at h
  unfold step
  simp only [if_neg h18]
  have h74 : ¬ (i.op % 8 = 7 ∨ i.op % 8 = 4) := by omega
  have h56 : (i.op % 8 = 5 ∨ i.op % 8 = 6) := h
  simp only [if_neg h74, if_pos h56]

/-- Dropping the `dist` instructions that precede the label lands on the
assembly of the events after the label, in a state where the next instruction
is reachable. -/
theorem asm_drop_dist {l : Label} :
    ∀ (r : List Ev) (last : Option Insn) (pend use : List Label) (d : Nat) (p : List Insn) (r' : List Ev),
      dist l r last pend use = some d → asmGo r last pend use = some p → l ∈ use → seek l r = some r' →
      ∃ last' pend' use', asmGo r' last' pend' use' = some (p.drop d) ∧ reachable last' pend' use' = true := by
  intro r
  induction r with
  | nil => intro last pend use d p r' hd; simp [dist] at hd
  | cons e es ih =>
    intro last pend use d p r' hd ha hl hs
    cases e with
    | label l' =>
      simp only [dist] at hd
      simp only [asmGo] at ha
      simp only [seek] at hs
      by_cases hll : l' = l
      · simp only [if_pos hll] at hd hs
        cases hd; cases hs
        subst hll
        exact ⟨last, l' :: pend, use, by simpa using ha, reachable_label hl⟩
      · simp only [if_neg hll] at hd hs
        exact ih last (l' :: pend) use d p r' hd ha hl hs
    | ins j =>
      simp only [dist] at hd
      simp only [asmGo] at ha
      simp only [seek] at hs
      by_cases hr : reachable last pend use = true
      · simp only [if_pos hr] at hd ha
        cases hd1 : dist l es (some j) [] use with
        | none => simp [hd1] at hd
        | some d1 =>
          cases ha1 : asmGo es (some j) [] use with
          | none => simp [ha1] at ha
          | some p1 =>
            simp [hd1] at hd; simp [ha1] at ha
            subst hd; subst ha
            obtain ⟨a, b, c, h1, h2⟩ := ih (some j) [] use d1 p1 r' hd1 ha1 hl hs
            exact ⟨a, b, c, by simpa using h1, h2⟩
      · simp only [if_neg hr] at hd ha
        exact ih last [] use d p r' hd ha hl hs
    | jmp j l2 =>
      simp only [dist] at hd
      simp only [asmGo] at ha
      simp only [seek] at hs
      by_cases hr : reachable last pend use = true
      · simp only [if_pos hr] at hd ha
        cases hd1 : dist l es (some j) [] (l2 :: use) with
        | none => simp [hd1] at hd
        | some d1 =>
          simp [hd1] at hd
          subst hd
          cases hd2 : dist l2 es (some j) [] (l2 :: use) with
          | none => simp [hd2] at ha
          | some d2 =>
            simp only [hd2] at ha
            by_cases hbig : d2 > maxInt16
            · simp [if_pos hbig] at ha
            · simp only [if_neg hbig] at ha
              cases ha1 : asmGo es (some j) [] (l2 :: use) with
              | none => simp [ha1] at ha
              | some p1 =>
                simp [ha1] at ha
                subst ha
                obtain ⟨a, b, c, h1, h2⟩ := ih (some j) [] (l2 :: use) d1 p1 r' hd1 ha1 (List.mem_cons_of_mem _ hl) hs
                exact ⟨a, b, c, by simpa using h1, h2⟩
      · simp only [if_neg hr] at hd ha
        exact ih last [] use d p r' hd ha hl hs

/-- **Assembler soundness.** For every event list, if the label-level run does
not fault, the assembled program run by the instruction-level interpreter has
the same outcome. -/
theorem asm_sound (env : Env) :
    ∀ (n : Nat) (evs : List Ev) (last : Option Insn) (pend use : List Label) (prog : List Insn) (m : Mach),
      evs.length ≤ n → reachable last pend use = true → asmGo evs last pend use = some prog →
      (lrun env evs m).isFault = false → execL env prog m = lrun env evs m := by
  intro n
  induction n with
  | zero =>
    intro evs last pend use prog m hn _ _ hnf
    have : evs = [] := List.length_eq_zero_iff.mp (Nat.le_zero.mp hn)
    subst this
    simp [lrun, Outcome.isFault] at hnf
  | succ n ih =>
    intro evs last pend use prog m hn hr ha hnf
    cases evs with
    | nil => simp [lrun, Outcome.isFault] at hnf
    | cons e es =>
      have hlen : es.length ≤ n := by simp only [List.length_cons] at hn; omega
      cases e with
      | label l =>
        rw [lrun] at hnf ⊢
        simp only [asmGo] at ha
        exact ih es last (l :: pend) use prog m hlen (reachable_cons l hr) ha hnf
      | ins i =>
        simp only [asmGo, if_pos hr] at ha
        cases ha1 : asmGo es (some i) [] use with
        | none => simp [ha1] at ha
        | some p1 =>
          simp [ha1] at ha
          subst ha
          rw [lrun] at hnf ⊢
          rw [execL]
          -- the two `step`s agree
          have hstep : step env i p1.head? m = step env i (nextIns es) m := by
            by_cases hop : i.op = opLoadImm64
            · -- lrun does not fault, so the next event is the second slot, which is emitted
              cases hs : step env i (nextIns es) m with
              | next2 m' =>
                obtain ⟨_, j, hj, hj2⟩ := step_next2 hs
                cases es with
                | nil => simp [nextIns] at hj
                | cons e2 es2 =>
                  cases e2 with
                  | ins j' =>
                    simp only [nextIns, Option.some.injEq] at hj
                    subst hj
                    have hr2 : reachable (some i) [] use = true := by
                      apply reachable_of_not_stops
                      unfold stops; simp [hop, opLoadImm64, opJumpA, opExit]
                    simp only [asmGo, if_pos hr2] at ha1
                    cases ha2 : asmGo es2 (some j') [] use with
                    | none => simp [ha2] at ha1
                    | some p2 =>
                      simp [ha2] at ha1
                      subst ha1
                      simp only [List.head?_cons, nextIns]
                      exact hs
                  | label _ => simp [nextIns] at hj
                  | jmp _ _ => simp [nextIns] at hj
              | next m' =>
                exfalso
                unfold step at hs
                simp only [if_pos hop] at hs
                repeat' split at hs
                all_goals cases hs
              | taken m' => rw [hs] at hnf; simp [Outcome.isFault] at hnf
              | «exit» r0 m' =>
                exfalso
                unfold step at hs
                simp only [if_pos hop] at hs
                repeat' split at hs
                all_goals cases hs
              | tail fd idx m' =>
                exfalso
                unfold step at hs
                simp only [if_pos hop] at hs
                repeat' split at hs
                all_goals cases hs
              | fault => rw [hs] at hnf; simp [Outcome.isFault] at hnf
            · exact step_nxt _ _ hop
          rw [hstep]
          cases hs : step env i (nextIns es) m with
          | next m' =>
            rw [hs] at hnf
            simp only at hnf ⊢
            exact ih es (some i) [] use p1 m' hlen (reachable_of_not_stops (step_next_not_stop hs)) ha1 hnf
          | next2 m' =>
            rw [hs] at hnf
            simp only at hnf ⊢
            obtain ⟨hop, j, hj, hj2⟩ := step_next2 hs
            cases es with
            | nil => simp [nextIns] at hj
            | cons e2 es2 =>
              cases e2 with
              | ins j' =>
                simp only [nextIns, Option.some.injEq] at hj
                subst hj
                have hr2 : reachable (some i) [] use = true := by
                  apply reachable_of_not_stops
                  unfold stops; simp [hop, opLoadImm64, opJumpA, opExit]
                simp only [asmGo, if_pos hr2] at ha1
                cases ha2 : asmGo es2 (some j') [] use with
                | none => simp [ha2] at ha1
                | some p2 =>
                  simp [ha2] at ha1
                  subst ha1
                  simp only [List.drop_one, List.tail_cons] at hnf ⊢
                  have hr3 : reachable (some j') [] use = true := by
                    apply reachable_of_not_stops
                    unfold stops; simp [hj2, opLoadImm64Pt2, opJumpA, opExit]
                  have hlen2 : es2.length ≤ n := by simp only [List.length_cons] at hlen; omega
                  exact ih es2 (some j') [] use p2 m' hlen2 hr3 ha2 hnf
              | label _ => simp [nextIns] at hj
              | jmp _ _ => simp [nextIns] at hj
          | taken m' => rw [hs] at hnf; simp [Outcome.isFault] at hnf
          | «exit» r0 m' => rfl
          | tail fd idx m' => rfl
          | fault => rfl
      | jmp i l =>
        simp only [asmGo, if_pos hr] at ha
        cases hd : dist l es (some i) [] (l :: use) with
        | none => simp [hd] at ha
        | some d =>
          simp only [hd] at ha
          by_cases hbig : d > maxInt16
          · simp [if_pos hbig] at ha
          · simp only [if_neg hbig] at ha
            cases ha1 : asmGo es (some i) [] (l :: use) with
            | none => simp [ha1] at ha
            | some p1 =>
              simp [ha1] at ha
              subst ha
              rw [lrun] at hnf ⊢
              by_cases hj : i.isJumpOp = true
              · simp only [hj, Bool.not_true, Bool.false_eq_true, if_false] at hnf ⊢
                rw [execL]
                have hstep : step env { i with off := (d : Int) } p1.head? m = step env i none m := by
                  rw [step_off _ hj]
                  apply step_nxt
                  unfold Insn.isJumpOp at hj
                  simp only [Bool.or_eq_true, beq_iff_eq] at hj
                  intro e; rw [e] at hj; simp [opLoadImm64] at hj
                rw [hstep]
                cases hs : step env i none m with
                | next m' =>
                  rw [hs] at hnf
                  simp only at hnf ⊢
                  exact ih es (some i) [] (l :: use) p1 m' hlen
                    (reachable_of_not_stops (step_next_not_stop hs)) ha1 hnf
                | taken m' =>
                  rw [hs] at hnf
                  simp only at hnf ⊢
                  have hoff : ¬ ((d : Int) < 0) := by omega
                  simp only [if_neg hoff, Int.toNat_natCast]
                  split at hnf
                  · rename_i r' hseek
                    obtain ⟨a, b, c, h1, h2⟩ := asm_drop_dist es (some i) [] (l :: use) d p1 r' hd ha1
                      (List.mem_cons_self) hseek
                    have hlen2 : r'.length ≤ n := by have := seek_length hseek; omega
                    exact ih r' a b c (p1.drop d) m' hlen2 h2 h1 hnf
                  · simp [Outcome.isFault] at hnf
                | next2 m' => rw [hs] at hnf; simp [Outcome.isFault] at hnf
                | «exit» r0 m' => rw [hs] at hnf; simp [Outcome.isFault] at hnf
                | tail fd idx m' => rw [hs] at hnf; simp [Outcome.isFault] at hnf
                | fault => simp [hs, Outcome.isFault] at hnf
              · simp [hj, Outcome.isFault] at hnf

/-- Assembler soundness for a fresh block. -/
theorem assemble_sound (env : Env) (evs : List Ev) (prog : List Insn) (m : Mach)
    (ha : assemble evs = some prog) (hnf : (lrun env evs m).isFault = false) :
    execL env prog m = lrun env evs m :=
  asm_sound env evs.length evs none [] [] prog m (Nat.le_refl _) (by simp [reachable, stops]) ha hnf

end CalicoVerif.C11
