import CalicoVerif.Proofs.C16c
namespace CalicoVerif.C16

/-- "Keeps the desired sets": same desired map and configuration, and every desired set
that was present in the kernel still is. -/
def KD (w w' : W) : Prop :=
  w'.F.desired = w.F.desired ∧ w'.cfg = w.cfg ∧
    ∀ n, w.F.desired.has n = true → w.K.has n = true → w'.K.has n = true

theorem KD.refl (w : W) : KD w w := ⟨rfl, rfl, fun _ _ h => h⟩
theorem KD.trans {a b c : W} (h1 : KD a b) (h2 : KD b c) : KD a c :=
  ⟨h2.1.trans h1.1, h2.2.1.trans h1.2.1, fun n hd hk => h2.2.2 n (h1.1 ▸ hd) (h1.2.2 n hd hk)⟩
theorem Frame.toKD {a b : W} (h : Frame a b) : KD a b :=
  ⟨h.2.1, h.2.2, fun n _ hk => by rw [h.1]; exact hk⟩

theorem mem_pendingDeletions {F : Felix} {n : String} (h : n ∈ F.pendingDeletions) :
    F.desired.has n = false := by
  unfold Felix.pendingDeletions at h
  rw [List.mem_eraseDups] at h
  simp only [List.mem_filter] at h
  simpa using h.2

theorem has_erase_other {K : Kernel} {a n : String} (h : n ≠ a) (hk : K.has n = true) :
    (K.erase a).has n = true := by
  simp only [Map.has, Map.get_erase, h, if_false]; exact hk

theorem destroy_KD (w : W) (a : String) (ha : w.F.desired.has a = false) :
    KD w (w.destroy a).1 ∧ (w.destroy a).1.F = w.F := by
  unfold W.destroy
  refine ⟨⟨rfl, rfl, ?_⟩, rfl⟩
  intro n hd hk
  dsimp only
  split
  · have : n ≠ a := by rintro rfl; rw [ha] at hd; exact absurd hd (by simp)
    exact has_erase_other this hk
  · exact hk

theorem popHintD_same (w : W) : (popHintD w).1.F = w.F ∧ (popHintD w).1.K = w.K ∧ (popHintD w).1.cfg = w.cfg := by
  unfold popHintD; split <;> exact ⟨rfl, rfl, rfl⟩

theorem mem_sErase {s : List String} {x y : String} (h : y ∈ sErase s x) : y ∈ s := by
  unfold sErase at h; exact (List.mem_filter.1 h).1

theorem pickHint_mem {h : Option String} {cands : List String} {n : String}
    (hp : pickHint h cands = some n) : n ∈ cands := by
  unfold pickHint at hp
  split at hp
  · split at hp
    · rename_i hh; simp only [Option.some.injEq] at hp; subst hp; simpa using hh
    · simp at hp
  · simp at hp

theorem tryTempDeletions_go_KD : ∀ (fuel : Nat) (cands : List String) (w : W),
    (∀ c ∈ cands, w.F.desired.has c = false) → KD w (W.tryTempDeletions.go fuel cands w) := by
  intro fuel
  induction fuel with
  | zero => intro cands w _; unfold W.tryTempDeletions.go; exact KD.refl w
  | succ fuel ih =>
    intro cands w hc
    unfold W.tryTempDeletions.go
    cases cands with
    | nil => exact KD.refl w
    | cons c cs =>
      dsimp only
      have hp := popHintD_same w
      generalize popHintD w = r at hp
      obtain ⟨w1, h⟩ := r
      dsimp only at hp ⊢
      have k01 : KD w w1 := ⟨by rw [hp.1], hp.2.2, fun n _ hk => by rw [hp.2.1]; exact hk⟩
      split
      · exact KD.trans k01 ⟨rfl, rfl, fun _ _ h => h⟩
      · rename_i n hpick
        have hmem := pickHint_mem hpick
        have hnd : w1.F.desired.has n = false := by rw [hp.1]; exact hc n hmem
        have hd := destroy_KD w1 n hnd
        generalize w1.destroy n = r2 at hd
        obtain ⟨w2, ok⟩ := r2
        dsimp only at hd ⊢
        split
        · exact KD.trans k01 (KD.trans hd.1 ⟨rfl, rfl, fun _ _ h => h⟩)
        · refine KD.trans k01 (KD.trans hd.1 (ih _ w2 ?_))
          intro c' hc'
          rw [hd.2, hp.1]
          exact hc c' (mem_sErase hc')

theorem tryTempDeletions_KD (w : W) : KD w w.tryTempDeletions := by
  unfold W.tryTempDeletions
  apply tryTempDeletions_go_KD
  intro c hc
  exact mem_pendingDeletions (List.mem_filter.1 hc).1

@[simp] theorem afterDestroy_desired (F : Felix) (n : String) : (F.afterDestroy n).desired = F.desired := by
  unfold Felix.afterDestroy; dsimp only; split <;> rfl

@[simp] theorem markDeleteFailed_desired (F : Felix) (n : String) : (F.markDeleteFailed n).desired = F.desired := rfl

theorem applyDeletions_go_KD : ∀ (fuel : Nat) (cands : List String) (w : W),
    (∀ c ∈ cands, w.F.desired.has c = false) → KD w (W.applyDeletions.go fuel cands w).1 := by
  intro fuel
  induction fuel with
  | zero => intro cands w _; unfold W.applyDeletions.go; exact KD.refl w
  | succ fuel ih =>
    intro cands w hc
    unfold W.applyDeletions.go
    cases cands with
    | nil => exact KD.refl w
    | cons c cs =>
      dsimp only
      have hp := popHintD_same w
      generalize popHintD w = r at hp
      obtain ⟨w1, h⟩ := r
      dsimp only at hp ⊢
      have k01 : KD w w1 := ⟨by rw [hp.1], hp.2.2, fun n _ hk => by rw [hp.2.1]; exact hk⟩
      split
      · exact KD.trans k01 ⟨rfl, rfl, fun _ _ h => h⟩
      · rename_i n hpick
        have hmem := pickHint_mem hpick
        have hnd : w1.F.desired.has n = false := by rw [hp.1]; exact hc n hmem
        have hd := destroy_KD w1 n hnd
        generalize w1.destroy n = r2 at hd
        obtain ⟨w2, ok⟩ := r2
        dsimp only at hd ⊢
        split
        · exact KD.trans k01 (KD.trans hd.1 ⟨by simp, rfl, fun _ _ h => h⟩)
        · refine KD.trans k01 (KD.trans hd.1 (KD.trans (b := { w2 with F := w2.F.markDeleteFailed n })
            ⟨rfl, rfl, fun _ _ h => h⟩ (ih _ _ ?_)))
          intro c' hc'
          simp only [markDeleteFailed_desired]
          rw [hd.2, hp.1]
          exact hc c' (mem_sErase hc')

/-- **never_destroy_desired (ApplyDeletions)**: `ApplyDeletions` never removes a set that is desired. -/
theorem applyDeletions_KD (w : W) : KD w w.applyDeletions.1 := by
  unfold W.applyDeletions
  dsimp only
  have h := applyDeletions_go_KD
    (w.F.pendingDeletions.filter (fun n => !((w.F.dp.get n).getD Meta.zero).deleteFailed)).length
    (w.F.pendingDeletions.filter (fun n => !((w.F.dp.get n).getD Meta.zero).deleteFailed)) w
    (fun c hc => mem_pendingDeletions (List.mem_filter.1 hc).1)
  generalize W.applyDeletions.go _ _ w = r at h
  obtain ⟨w1, nd⟩ := r
  dsimp only at h ⊢
  split
  · exact h
  · split <;> exact h

end CalicoVerif.C16
