import CalicoVerif.Proofs.C01Prof
import CalicoVerif.Proofs.C01Decl
/-! C01 helper: the `.prof` half of the RuleScanner's `active` table is the C05 profile path's view. -/
namespace CalicoVerif.C01
open CalicoVerif C02

/-- the profile part of the `active` table -/
def profActive (g : Graph) (p : String) : Option RulesIn := mget g.active (.prof p)

theorem active_emit (g : Graph) (cs : List Call) : (g.emit cs).active = g.active := (rs_emit g cs).2

theorem active_idxOp (g : Graph) (op : C04.Op Str) : (g.idxOp op).active = g.active :=
  (quietRel_idxOp g op).active

theorem active_onRsEvent (g : Graph) (e : RsEvent) : (g.onRsEvent e).active = g.active :=
  (onRsEvent_spec g e).2.1

theorem active_foldl_onRsEvent : ∀ (evs : List RsEvent) (g : Graph), (evs.foldl Graph.onRsEvent g).active = g.active
  | [], _ => rfl
  | e :: evs, g => (active_foldl_onRsEvent evs (g.onRsEvent e)).trans (active_onRsEvent g e)

theorem active_scanRules (H : IdFn) (g : Graph) (key : RulesId) (r : Option RulesIn) :
    (g.scanRules H key r).active = setOrDel key r g.active := by
  unfold Graph.scanRules
  rw [active_emit, rsUpdate_eq, active_foldl_onRsEvent]

theorem profActive_scanRules_pol (H : IdFn) (g : Graph) (k : PolicyKey) (r : Option RulesIn) :
    profActive (g.scanRules H (.pol k) r) = profActive g := by
  funext p
  unfold profActive
  rw [active_scanRules, mget_setOrDel]
  simp

theorem profActive_scanRules_prof (H : IdFn) (g : Graph) (p0 : String) (r : Option RulesIn) (p : String) :
    profActive (g.scanRules H (.prof p0) r) p = if p = p0 then r else profActive g p := by
  unfold profActive
  rw [active_scanRules, mget_setOrDel]
  by_cases h : p = p0
  · simp [h]
  · have : ¬ RulesId.prof p = RulesId.prof p0 := fun e => h (by cases e; rfl)
    simp [h, this]

/-- `g'` has the same profile activity as `g` -/
def SamePA (g g' : Graph) : Prop := profActive g' = profActive g

theorem samePA_of_active {g g' : Graph} (h : g'.active = g.active) : SamePA g g' := by
  unfold SamePA profActive; rw [h]

theorem samePA_foldl {α : Type} (f : Graph → α → Graph) (hf : ∀ g a, SamePA g (f g a)) :
    ∀ (l : List α) (g : Graph), SamePA g (l.foldl f g)
  | [], _ => rfl
  | a :: l, g => (samePA_foldl f hf l (f g a)).trans (hf g a)

theorem samePA_sendPolicyUpdate (H : IdFn) (g : Graph) (n : Nat) : SamePA g (g.sendPolicyUpdate H n) := by
  unfold Graph.sendPolicyUpdate
  split
  · split
    · exact profActive_scanRules_pol H g _ _
    · rfl
  · exact profActive_scanRules_pol H g _ _

theorem samePA_onMatchEvent (H : IdFn) (g : Graph) (e : C07.Event) : SamePA g (g.onMatchEvent H e) := by
  cases e with
  | started sel item =>
    simp only [Graph.onMatchEvent]
    have key : ∀ g1 : Graph, SamePA g1 (if (!g.polActive sel) = true then g1.sendPolicyUpdate H sel else g1) := by
      intro g1; split
      · exact samePA_sendPolicyUpdate H g1 sel
      · rfl
    exact (key { g with polEps := C02.sadd (sel, item) g.polEps }).trans rfl
  | stopped sel item =>
    simp only [Graph.onMatchEvent]
    have key : ∀ g1 : Graph, SamePA g1 (if (!g1.polActive sel) = true then g1.sendPolicyUpdate H sel else g1) := by
      intro g1; split
      · exact samePA_sendPolicyUpdate H g1 sel
      · rfl
    exact (key { g with polEps := C02.sdel (sel, item) g.polEps }).trans rfl

theorem samePA_lblStep (H : IdFn) (g : Graph) (r : C07.Idx × List C07.Event) : SamePA g (g.lblStep H r) := by
  unfold Graph.lblStep
  exact (samePA_foldl _ (samePA_onMatchEvent H) _ _).trans rfl

/-- how the deny stand-in reaches the scanner -/
def outRules : C05.OutRules RulesIn → RulesIn
  | .real r => r
  | .dummyDrop => dummyDropRules

/-- one profile event, as the scanner's table sees it -/
def applyProfEvent (t : String → Option RulesIn) : C05.Event RulesIn → (String → Option RulesIn)
  | .active p r => fun q => if q = p then some (outRules r) else t q
  | .inactive p => fun q => if q = p then none else t q

theorem profActive_profEvents (H : IdFn) : ∀ (evs : List (C05.Event RulesIn)) (g : Graph),
    profActive (g.profEvents H evs) = evs.foldl applyProfEvent (profActive g)
  | [], _ => rfl
  | e :: evs, g => by
    unfold Graph.profEvents
    simp only [List.foldl_cons]
    have ih := profActive_profEvents H evs
    unfold Graph.profEvents at ih
    rw [ih]
    congr 1
    funext q
    cases e with
    | active p r => cases r <;> simp [applyProfEvent, outRules, profActive_scanRules_prof]
    | inactive p => simp [applyProfEvent, profActive_scanRules_prof]

/-- the C05 view, as a function, mapped to scanner rules -/
def viewFn (es : List (C05.Event RulesIn)) (p : String) : Option RulesIn :=
  (C05.alGet p (C05.view es)).map outRules

theorem alGet_alSet' {β : Type} (k k' : String) (v : β) (l : List (String × β)) :
    C05.alGet k' (C05.alSet k v l) = if k' = k then some v else C05.alGet k' l := C05.alGet_alSet k k' v l

theorem alGet_alErase' {β : Type} (k k' : String) (l : List (String × β)) :
    C05.alGet k' (C05.alErase k l) = if k' = k then none else C05.alGet k' l := C05.alGet_alErase k k' l

theorem viewFn_append (es evs : List (C05.Event RulesIn)) :
    viewFn (es ++ evs) = evs.foldl applyProfEvent (viewFn es) := by
  induction evs generalizing es with
  | nil => simp
  | cons e evs ih =>
    have : es ++ e :: evs = (es ++ [e]) ++ evs := by simp
    rw [this, ih, List.foldl_cons]
    congr 1
    funext q
    unfold viewFn C05.view
    rw [List.foldl_append]
    simp only [List.foldl_cons, List.foldl_nil]
    cases e with
    | active p r =>
      simp only [C05.applyEvent, applyProfEvent, alGet_alSet']
      by_cases h : q = p <;> simp [h]
    | inactive p =>
      simp only [C05.applyEvent, applyProfEvent, alGet_alErase']
      by_cases h : q = p <;> simp [h]

/-- the profile activity table follows the profile path's output log -/
def ProfActInv (g : Graph) : Prop := profActive g = viewFn g.arcProf.out

theorem out_prefix_step (a : C05.Arc RulesIn) (u : C05.Upd RulesIn) :
    ∃ evs, (C05.step a u).out = a.out ++ evs := by
  -- every branch of the C05 step only appends to `out`
  have hsend : ∀ (p : String) (x : Option RulesIn) (s : C05.Arc RulesIn), ∃ evs, (C05.sendProfileUpdate p x s).out = s.out ++ evs := by
    intro p x s
    unfold C05.sendProfileUpdate
    split
    · split <;> exact ⟨_, rfl⟩
    · exact ⟨_, rfl⟩
  have hadd : ∀ (ep : String) (s : C05.Arc RulesIn) (id : String), ∃ evs, (C05.addOne ep s id).out = s.out ++ evs := by
    intro ep s id
    unfold C05.addOne
    simp only []
    split
    · exact ⟨[], by simp [C05.putRef]; split <;> rfl⟩
    · obtain ⟨evs, h⟩ := hsend id (C05.alGet id (C05.putRef id ep s).profiles) (C05.putRef id ep s)
      refine ⟨evs, ?_⟩
      rw [h]
      unfold C05.putRef; split <;> rfl
  have hrem : ∀ (ep : String) (s : C05.Arc RulesIn) (id : String), ∃ evs, (C05.removeOne ep s id).out = s.out ++ evs := by
    intro ep s id
    unfold C05.removeOne
    simp only []
    split
    · exact ⟨[], by simp [C05.discardRef]⟩
    · obtain ⟨evs, h⟩ := hsend id (C05.alGet id (C05.discardRef id ep s).profiles) (C05.discardRef id ep s)
      exact ⟨evs, by rw [h]; rfl⟩
  have hfold : ∀ (f : C05.Arc RulesIn → String → C05.Arc RulesIn),
      (∀ s id, ∃ evs, (f s id).out = s.out ++ evs) → ∀ (l : List String) (s : C05.Arc RulesIn),
      ∃ evs, (l.foldl f s).out = s.out ++ evs := by
    intro f hf l
    induction l with
    | nil => intro s; exact ⟨[], by simp⟩
    | cons id l ih =>
      intro s
      obtain ⟨e1, h1⟩ := hf s id
      obtain ⟨e2, h2⟩ := ih (f s id)
      exact ⟨e1 ++ e2, by simp only [List.foldl_cons]; rw [h2, h1, List.append_assoc]⟩
  have hupd : ∀ (ep : String) (ids : List String) (s : C05.Arc RulesIn),
      ∃ evs, (C05.updateEndpointProfileIDs ep ids s).out = s.out ++ evs := by
    intro ep ids s
    unfold C05.updateEndpointProfileIDs
    simp only []
    obtain ⟨e1, h1⟩ := hfold (C05.addOne ep) (hadd ep) (C05.diffIDs ((C05.alGet ep s.epProfiles).getD []) ids).2
      { s with epProfiles := if ids.isEmpty then C05.alErase ep s.epProfiles else C05.alSet ep ids s.epProfiles }
    obtain ⟨e2, h2⟩ := hfold (C05.removeOne ep) (hrem ep) (C05.diffIDs ((C05.alGet ep s.epProfiles).getD []) ids).1 _
    exact ⟨e1 ++ e2, by rw [h2, h1, List.append_assoc]⟩
  cases u with
  | endpoint ep v => cases v <;> exact hupd ep _ a
  | profileRules p r =>
    simp only [C05.step, C05.updateProfileRules]
    cases r with
    | none =>
      simp only []
      split
      · obtain ⟨evs, h⟩ := hsend p none { a with profiles := C05.alErase p a.profiles }
        exact ⟨evs, h⟩
      · exact ⟨[], by simp⟩
    | some r =>
      simp only []
      split
      · exact ⟨[], by simp⟩
      · split
        · obtain ⟨evs, h⟩ := hsend p (some r) { a with profiles := C05.alSet p r a.profiles }
          exact ⟨evs, h⟩
        · exact ⟨[], by simp⟩

theorem profActInv_arcProfStep (H : IdFn) {g : Graph} (hi : ProfActInv g) (u : C05.Upd RulesIn) :
    ProfActInv (g.arcProfStep H u) := by
  unfold ProfActInv
  rw [arcProf_arcProfStep]
  unfold Graph.arcProfStep
  simp only []
  rw [profActive_profEvents]
  obtain ⟨evs, he⟩ := out_prefix_step g.arcProf u
  rw [he, List.drop_left, viewFn_append]
  congr 1

end CalicoVerif.C01

namespace CalicoVerif.C01
open CalicoVerif C02

theorem profActInv_same {g g' : Graph} (hi : ProfActInv g) (h1 : SamePA g g') (h2 : SameProf g g') : ProfActInv g' := by
  unfold ProfActInv at *
  rw [h1, h2]; exact hi

theorem profActInv_frame {g g' : Graph} (hi : ProfActInv g) (h1 : g'.active = g.active) (h2 : g'.arcProf = g.arcProf) :
    ProfActInv g' := profActInv_same hi (samePA_of_active h1) h2

theorem profActInv_idxOp {g : Graph} (hi : ProfActInv g) (op : C04.Op Str) : ProfActInv (g.idxOp op) :=
  profActInv_same hi (samePA_of_active (active_idxOp g op)) (sameProf_idxOp g op)

theorem profActInv_lblStep (H : IdFn) {g : Graph} (hi : ProfActInv g) (r : C07.Idx × List C07.Event) :
    ProfActInv (g.lblStep H r) := profActInv_same hi (samePA_lblStep H g r) (sameProf_lblStep H g r)

theorem profActInv_sendPolicyUpdate (H : IdFn) {g : Graph} (hi : ProfActInv g) (n : Nat) :
    ProfActInv (g.sendPolicyUpdate H n) :=
  profActInv_same hi (samePA_sendPolicyUpdate H g n) (sameProf_sendPolicyUpdate H g n)

theorem profActInv_step (H : IdFn) {g : Graph} (hi : ProfActInv g) (u : Upd) : ProfActInv (g.step H u) := by
  cases u with
  | endpoint nid key isLocal v =>
    simp only [Graph.step]
    have h0 : ProfActInv { g with epKeys := C02.mset nid key g.epKeys } := profActInv_frame hi rfl rfl
    have h1 : ProfActInv (if isLocal = true then
        Graph.localEndpoint H { g with epKeys := C02.mset nid key g.epKeys } nid key v
        else { g with epKeys := C02.mset nid key g.epKeys }) := by
      split
      · unfold Graph.localEndpoint Graph.resStep
        refine profActInv_frame ?_ rfl rfl
        unfold Graph.arcEndpoint
        simp only []
        have h2 := profActInv_arcProfStep H h0 (.endpoint (epKeyStr key) (v.map (·.profiles)))
        cases v <;> exact profActInv_lblStep H h2 _
      · exact h0
    unfold Graph.idxEndpoint
    cases v <;> exact profActInv_idxOp h1 _
  | netset name v =>
    simp only [Graph.step, Graph.idxNetset]
    cases v <;> exact profActInv_idxOp hi _
  | profLabels pid v =>
    simp only [Graph.step, Graph.profLabels]
    cases v <;> exact profActInv_idxOp (profActInv_lblStep H hi _) _
  | profRules pid v => exact profActInv_arcProfStep H hi _
  | tier name v => exact profActInv_frame hi rfl rfl
  | policy nid key v =>
    simp only [Graph.step, Graph.resStep]
    refine profActInv_frame ?_ rfl rfl
    have h0 : ProfActInv { g with polKeys := C02.mset nid key g.polKeys } := profActInv_frame hi rfl rfl
    unfold Graph.arcPolicy
    cases v with
    | none =>
      simp only []
      have h1 : ProfActInv { g with polKeys := C02.mset nid key g.polKeys, allPolicies := C02.mdel nid g.allPolicies } :=
        profActInv_frame hi rfl rfl
      exact profActInv_lblStep H h1 _
    | some pv =>
      simp only []
      split
      · exact h0
      · unfold Graph.arcPolicyChanged
        simp only []
        split
        · exact profActInv_frame hi rfl rfl
        · rename_i sel _
          have h1 : ProfActInv { g with polKeys := C02.mset nid key g.polKeys, allPolicies := C02.mset nid pv g.allPolicies } :=
            profActInv_frame hi rfl rfl
          have h2 := profActInv_lblStep H h1 (C07.updateSelector g.lbl nid sel)
          split
          · exact profActInv_sendPolicyUpdate H h2 _
          · exact h2
  | passthru c key v => exact profActInv_frame hi (active_emit g _) (sameProf_emit g _)
  | other => exact hi

theorem profActInv_flush {g : Graph} (hi : ProfActInv g) : ProfActInv g.flush.1 := by
  unfold Graph.flush
  simp only []
  have h1 : ProfActInv (match g.res.flush with
      | some (r, calls) => ({ g with res := r }).emit calls
      | none => { g with panicked := true }) := by
    split
    · exact profActInv_same (profActInv_frame (g := g) hi rfl rfl) (samePA_of_active (active_emit _ _)) (sameProf_emit _ _)
    · exact profActInv_frame hi rfl rfl
  exact profActInv_frame h1 rfl rfl

theorem profActInv_new (s : Bool) : ProfActInv (Graph.new s) := by
  unfold ProfActInv
  funext p
  simp [profActive, viewFn, Graph.new, C05.Arc.new, C05.view, C05.alGet, mget]

theorem profActInv_run (H : IdFn) : ∀ (h : List HStep) {g : Graph}, ProfActInv g → ProfActInv (run H g h).1
  | [], _, hi => hi
  | .upd u :: t, g, hi => by simp only [run]; exact profActInv_run H t (profActInv_step H hi u)
  | .inSync :: t, g, hi => by simp only [run]; exact profActInv_run H t (profActInv_frame hi rfl rfl)
  | .flush :: t, g, hi => by simp only [run]; exact profActInv_run H t (profActInv_flush hi)

end CalicoVerif.C01
