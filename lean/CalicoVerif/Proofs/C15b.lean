import CalicoVerif.Proofs.C15a
namespace CalicoVerif.C15

/-- Every cached full rule that could be turned into a delete is one of Felix's rules. -/
def FullOK (t : T) : Prop :=
  ∀ c frs, t.fullRules.get c = some frs → ∀ fr ∈ frs, ∀ c' r, fr = FR.a c' r → r.isForeign = false

theorem mem_sortS {x : String} {l : List String} : x ∈ sortS l ↔ x ∈ l := List.mem_mergeSort

theorem diffLines_chain (c : String) (n : Nat) : ∀ (ps : List String) (rs : List DRule) (i : Nat),
    ∀ l ∈ diffLines c n i ps rs, l.chain = c := by
  intro ps
  induction ps with
  | nil =>
    intro rs
    induction rs with
    | nil => intro i l hl; simp [diffLines] at hl
    | cons r rs ih =>
      intro i l hl
      simp only [diffLines, List.mem_cons] at hl
      rcases hl with rfl | hl
      · rfl
      · exact ih _ l hl
  | cons p ps ih =>
    intro rs i l hl
    cases rs with
    | nil =>
      simp only [diffLines, List.mem_cons] at hl
      rcases hl with rfl | hl
      · rfl
      · exact ih [] _ l hl
    | cons r rs =>
      simp only [diffLines] at hl
      split at hl
      · exact ih rs _ l hl
      · simp only [List.mem_cons] at hl
        rcases hl with rfl | hl
        · rfl
        · exact ih rs _ l hl

theorem delLines_ok (c : String) : ∀ (hs : List String) (frs : List FR) (ls : List RLine),
    (∀ fr ∈ frs, ∀ c' r, fr = FR.a c' r → r.isForeign = false) → delLines c hs frs = some ls →
    ∀ l ∈ ls, l.tagged = true ∨ l.chain = "" := by
  intro hs
  induction hs with
  | nil => intro frs ls _ h l hl; simp only [delLines, Option.some.injEq] at h; subst h; simp at hl
  | cons h hs ih =>
    intro frs ls hok hd l hl
    simp only [delLines] at hd
    split at hd
    · exact ih frs.tail ls (fun fr hfr => hok fr (List.mem_of_mem_tail hfr)) hd l hl
    · cases frs with
      | nil => simp at hd
      | cons fr rest =>
        simp only [Option.map_eq_some_iff] at hd
        obtain ⟨ls', hls', rfl⟩ := hd
        simp only [List.mem_cons] at hl
        rcases hl with rfl | hl
        · cases fr with
          | a c' r => left; simp [RLine.tagged, hok (FR.a c' r) List.mem_cons_self c' r rfl]
          | dash => right; rfl
          | i c' r => right; rfl
        · exact ih rest ls' (fun fr hfr => hok fr (List.mem_cons_of_mem _ hfr)) hls' l hl

theorem iaLines_ok {t : T} (hf : FullOK t) {c : String} {ls : List RLine} {u}
    (h : t.iaLines c = some (ls, u)) : ∀ l ∈ ls, l.tagged = true ∨ l.chain = "" := by
  unfold T.iaLines at h
  dsimp only at h
  split at h
  · simp only [Option.some.injEq, Prod.mk.injEq] at h; intro l hl; rw [← h.1] at hl; simp at hl
  · split at h
    · simp at h
    · rename_i dels hdel
      simp only [Option.some.injEq, Prod.mk.injEq] at h
      intro l hl
      rw [← h.1] at hl
      have hok : ∀ fr ∈ (t.fullRules.get c).getD [], ∀ c' r, fr = FR.a c' r → r.isForeign = false := by
        intro fr hfr
        cases hg : t.fullRules.get c with
        | none => rw [hg] at hfr; simp at hfr
        | some frs => rw [hg] at hfr; exact hf c frs hg fr hfr
      rcases List.mem_append.1 hl with hl | hl
      · rcases List.mem_append.1 hl with hl | hl
        · exact delLines_ok c _ _ _ hok hdel l hl
        · left
          split at hl
          · obtain ⟨r, _, rfl⟩ := List.mem_map.1 hl; rfl
          · obtain ⟨r, _, rfl⟩ := List.mem_map.1 hl; rfl
      · left
        obtain ⟨r, _, rfl⟩ := List.mem_map.1 hl; rfl

/-- Every line of the transaction `applyUpdates` writes either names a chain in `dirtyChains`, or is a
tagged hook line (insert/append of a Felix rule, delete-by-value of a Felix rule), or is malformed. -/
theorem plan_lines {t : T} (hf : FullOK t) {lines newH newFull} (h : t.plan = some (lines, newH, newFull)) :
    ∀ l ∈ lines, l.chain ∈ t.dirty ∨ l.tagged = true ∨ l.chain = "" := by
  unfold T.plan at h
  dsimp only at h
  split at h
  · simp at h
  · rename_i hany
    simp only [Option.some.injEq, Prod.mk.injEq] at h
    intro l hl
    rw [← h.1] at hl
    rcases List.mem_append.1 hl with hl | hl
    · rcases List.mem_append.1 hl with hl | hl
      · rcases List.mem_append.1 hl with hl | hl
        · obtain ⟨c, hc, rfl⟩ := List.mem_map.1 hl
          left; exact mem_sortS.1 (List.mem_filter.1 hc).1
        · obtain ⟨p, hp, hlp⟩ := List.mem_flatMap.1 hl
          obtain ⟨c, hc, hcp⟩ := List.mem_filterMap.1 hp
          left
          rw [diffLines_chain _ _ _ _ _ l hlp]
          cases hd : t.desiredChain c with
          | none => rw [hd] at hcp; simp at hcp
          | some ch => rw [hd] at hcp; simp only [Option.map_some, Option.some.injEq] at hcp; rw [← hcp]; exact mem_sortS.1 hc
      · obtain ⟨p, hp, hlp⟩ := List.mem_flatMap.1 hl
        obtain ⟨c, _, rfl⟩ := List.mem_map.1 hp
        right
        cases hia : t.iaLines c with
        | none => rw [hia] at hlp; simp [iaLinesOf] at hlp
        | some v =>
          obtain ⟨ls, u⟩ := v
          rw [hia] at hlp
          exact iaLines_ok hf hia l hlp
    · obtain ⟨c, hc, rfl⟩ := List.mem_map.1 hl
      left; exact mem_sortS.1 (List.mem_filter.1 hc).1

/-- **unowned_unchanged**: one successful `applyUpdates` transaction, from ANY kernel table and any
cached state satisfying `FullOK`: for every chain `x` that is not in `dirtyChains` (in particular
every chain that is not Felix's), the rules of other software in `x` are unchanged and in the same
order, and `x` is neither created nor deleted. -/
theorem unowned_unchanged {t : T} (hf : FullOK t) {lines newH newFull}
    (h : t.plan = some (lines, newH, newFull)) (K K' : Kernel) (hr : krestore K lines = some K')
    (x : String) (hx : x ∉ t.dirty) (hne : x ≠ "") :
    (K'.get x).map foreignSub = (K.get x).map foreignSub := by
  apply krestore_foreign x lines K K' _ hr
  intro l hl hc
  rcases plan_lines hf h l hl with h1 | h1 | h1
  · rw [hc] at h1; exact absurd h1 hx
  · exact h1
  · rw [hc] at h1; exact absurd h1 hne

theorem mem_of_lookup {α : Type} : ∀ (l : List (String × α)) (c : String) (v : α),
    List.lookup c l = some v → (c, v) ∈ l := by
  intro l
  induction l with
  | nil => intro c v h; simp [List.lookup] at h
  | cons p l ih =>
    intro c v h
    obtain ⟨a, b⟩ := p
    simp only [List.lookup] at h
    split at h
    · rename_i heq
      simp only [Option.some.injEq] at h
      have : c = a := by simpa using heq
      subst this; subst h; exact List.mem_cons_self
    · exact List.mem_cons_of_mem _ (ih c v h)

/-- `FullOK` holds after every read of the table (`loadDataplaneState`). -/
theorem load_FullOK (t : T) (K : Kernel) : FullOK (t.load K) := by
  intro c frs hget fr hfr c' r hfa
  simp only [T.load] at hget
  unfold readFull at hget
  have hmem := mem_of_lookup _ _ _ hget
  obtain ⟨p, _, hp⟩ := List.mem_map.1 hmem
  simp only [Prod.mk.injEq] at hp
  rw [← hp.2] at hfr
  obtain ⟨r', _, hr'⟩ := List.mem_map.1 hfr
  subst hfa
  split at hr'
  · simp at hr'
  · rename_i hnf
    simp only [FR.a.injEq] at hr'
    rw [← hr'.2]; simpa using hnf

end CalicoVerif.C15
