import CalicoVerif.Proofs.C29Ports
/-! Helper lemmas for C29: one rule, the rule lists, the whole policy. -/
namespace CalicoVerif.C29

structure KRule.valid (r : KRule) : Prop where
  peers : ∀ p ∈ r.peers, p.ok
  ports : ∀ kp ∈ r.ports, kp.valid

/-- The rule built in the innermost loop of k8sRuleToCalico. -/
def mkRule (ingress : Bool) (e : String × List CPort) (peer : Option Peer) : CRule :=
  let cports := simplifyPorts e.2
  let proto : Option String := if e.1 ≠ "" then some (protocolFromString e.1) else none
  let en := peerFields peer
  if ingress then { proto := proto, src := en, dst := { ports := cports } }
  else { proto := proto, src := {}, dst := { en with ports := cports } }

def peersOpt (peers : List Peer) : List (Option Peer) := if peers.isEmpty then [none] else peers.map some

def ppOf (ports : List KPort) : Option (List (String × List CPort)) :=
  if ports.isEmpty then some [("", [])] else buildProtocolPorts ports

theorem k8sRuleToCalico_eq (peers : List Peer) (ports : List KPort) (ingress : Bool) :
    k8sRuleToCalico peers ports ingress =
      (ppOf ports).map fun pp =>
        (pp.mergeSort (fun a b => strLe a.1 b.1)).flatMap fun e => (peersOpt peers).map (mkRule ingress e) := by
  unfold k8sRuleToCalico ppOf peersOpt
  dsimp only
  split <;> rename_i h <;> simp only [h, Option.map] <;> rfl

def protoCheck (e : String × List CPort) (conn : Conn) : Bool :=
  match (if e.1 ≠ "" then some (protocolFromString e.1) else none : Option String) with
  | none => true
  | some p => protoNum p == some conn.proto

def portsCheck (e : String × List CPort) (conn : Conn) : Bool :=
  (simplifyPorts e.2).isEmpty || (simplifyPorts e.2).any (fun p => cportMatches p conn)

theorem crule_mk (c : Cluster) (ns : String) (ingress : Bool) (e : String × List CPort)
    (peer : Option Peer) (conn : Conn) :
    cruleMatches c ns (mkRule ingress e peer) conn =
      (protoCheck e conn && entityMatches c ns (peerFields peer) (if ingress then conn.src else conn.dst) &&
        portsCheck e conn) := by
  cases ingress
  · simp only [mkRule, cruleMatches, protoCheck, portsCheck, Bool.false_eq_true, if_false,
      entityMatches_ports]
    rw [show entityMatches c ns ({} : Entity) conn.src = true from entityMatches_noSel c ns [] conn.src]
    simp only [Bool.and_true]
    rfl
  · simp only [mkRule, cruleMatches, protoCheck, portsCheck, if_true]
    rw [entityMatches_noSel c ns _ conn.dst]
    simp only [Bool.and_true]
    rfl

theorem any_map_and {β γ : Type} (m : List β) (g : β → γ) (f : γ → Bool) (pa : Bool) (q : β → Bool)
    (h : ∀ b, f (g b) = (pa && q b)) : (m.map g).any f = (pa && m.any q) := by
  induction m with
  | nil => simp
  | cons b r ihm =>
    simp only [List.map_cons, List.any_cons, h, ihm]
    cases pa <;> simp

theorem any_product {α β γ : Type} (l : List α) (m : List β) (g : α → β → γ) (f : γ → Bool)
    (p : α → Bool) (q : β → Bool) (h : ∀ a b, f (g a b) = (p a && q b)) :
    (l.flatMap fun a => m.map (g a)).any f = (l.any p && m.any q) := by
  induction l with
  | nil => simp
  | cons a rest ih =>
    simp only [List.flatMap_cons, List.any_append, ih, List.any_cons]
    rw [any_map_and m (g a) f (p a) q (h a)]
    cases p a <;> cases m.any q <;> simp

theorem peers_any (c : Cluster) (npNs : String) (hns : npNs ≠ "") (peers : List Peer)
    (hok : ∀ p ∈ peers, p.ok) (pa : Party) (hpa : pa.ok) :
    (peersOpt peers).any (fun peer => entityMatches c npNs (peerFields peer) pa) =
      (peers.isEmpty || peers.any (fun p => k8sPeerMatches c npNs p pa)) := by
  cases peers with
  | nil =>
    simp only [peersOpt, List.isEmpty_nil, if_true, List.any_cons, List.any_nil, Bool.or_false]
    exact entityMatches_noSel c npNs [] pa
  | cons p rest =>
    simp only [peersOpt, List.isEmpty_cons, Bool.false_eq_true, if_false, List.any_map, Bool.false_or]
    apply any_congr_mem
    intro x hx
    exact entityMatches_peer c npNs hns x (hok x hx) pa hpa

theorem entry_check (e : String × List CPort) (he : e.1 = "TCP" ∨ e.1 = "UDP" ∨ e.1 = "SCTP") (conn : Conn) :
    (protoCheck e conn && portsCheck e conn) = true ↔ ppEntryMatches e conn := by
  have h1 : e.1 ≠ "" := by rcases he with h | h | h <;> rw [h] <;> decide
  have h2 : protocolFromString e.1 = e.1 := by rcases he with h | h | h <;> rw [h] <;> decide
  simp only [protoCheck, portsCheck, h1, ne_eq, not_false_eq_true, if_true, h2, Bool.and_eq_true,
    beq_iff_eq, Bool.or_eq_true, List.isEmpty_iff, simplifyPorts_eq_nil, simplifyPorts_any, ppEntryMatches]

theorem ports_any (ports : List KPort) (hv : ∀ kp ∈ ports, kp.valid) (conn : Conn) :
    ∃ pp, ppOf ports = some pp ∧
      ((pp.mergeSort (fun a b => strLe a.1 b.1)).any (fun e => protoCheck e conn && portsCheck e conn) =
        (ports.isEmpty || ports.any (fun kp => k8sPortMatches kp conn))) := by
  cases hp : ports with
  | nil =>
    refine ⟨[("", [])], by simp [ppOf], ?_⟩
    simp [protoCheck, portsCheck, simplifyPorts]
  | cons kp rest =>
    rw [← hp]
    obtain ⟨m', hf, hok, _, hsem⟩ := bpp_fold ports hv [] (by intro e he; simp at he)
    refine ⟨m', ?_, ?_⟩
    · simp only [ppOf, hp, List.isEmpty_cons, Bool.false_eq_true, if_false, buildProtocolPorts_eq]
      rw [← hp]; exact hf
    · have hperm := List.mergeSort_perm m' (fun a b => strLe a.1 b.1)
      rw [Bool.eq_iff_iff]
      simp only [List.any_eq_true, hp, List.isEmpty_cons, Bool.false_or]
      rw [← hp]
      have hs := hsem conn
      simp only [ppMatches, List.not_mem_nil, false_and, exists_false, false_or] at hs
      rw [← hs]
      constructor
      · rintro ⟨e, he, hm⟩
        have he' := hperm.mem_iff.1 he
        exact ⟨e, he', (entry_check e (hok e he') conn).1 hm⟩
      · rintro ⟨e, he, hm⟩
        exact ⟨e, hperm.mem_iff.2 he, (entry_check e (hok e he) conn).2 hm⟩

/-- One Kubernetes rule and the Calico rules generated from it match the same connections. -/
theorem rule_conv (c : Cluster) (npNs : String) (hns : npNs ≠ "") (r : KRule) (hr : r.valid)
    (ingress : Bool) (conn : Conn) (hs : conn.src.ok) (hd : conn.dst.ok) :
    ∃ crs, k8sRuleToCalico r.peers r.ports ingress = some crs ∧
      crs.any (fun cr => cruleMatches c npNs cr conn) =
        k8sRuleMatches c npNs r (if ingress then conn.src else conn.dst) conn := by
  obtain ⟨pp, hpp, hports⟩ := ports_any r.ports hr.ports conn
  refine ⟨_, by rw [k8sRuleToCalico_eq, hpp]; rfl, ?_⟩
  have hpa : (if ingress then conn.src else conn.dst).ok := by cases ingress <;> simpa
  rw [any_product _ _ (mkRule ingress) _ (fun e => protoCheck e conn && portsCheck e conn)
    (fun peer => entityMatches c npNs (peerFields peer) (if ingress then conn.src else conn.dst))]
  · rw [hports, peers_any c npNs hns r.peers hr.peers _ hpa, k8sRuleMatches, Bool.and_comm]
  · intro e peer
    rw [crule_mk]
    cases protoCheck e conn <;> cases portsCheck e conn <;> simp


/-! ### rule lists -/

def crStep (ingress : Bool) (acc : List CRule × Nat) (r : KRule) : List CRule × Nat :=
  match k8sRuleToCalico r.peers r.ports ingress with
  | none => (acc.1, acc.2 + 1)
  | some crs => (acc.1 ++ crs, acc.2)

theorem convertRules_eq (rs : List KRule) (ingress : Bool) :
    convertRules rs ingress = rs.foldl (crStep ingress) ([], 0) := rfl

theorem convertRules_fold (c : Cluster) (npNs : String) (hns : npNs ≠ "") (ingress : Bool)
    (conn : Conn) (hs : conn.src.ok) (hd : conn.dst.ok) (rs : List KRule) (hv : ∀ r ∈ rs, r.valid) :
    ∀ acc : List CRule × Nat,
      (rs.foldl (crStep ingress) acc).2 = acc.2 ∧
      (rs.foldl (crStep ingress) acc).1.any (fun cr => cruleMatches c npNs cr conn) =
        (acc.1.any (fun cr => cruleMatches c npNs cr conn) ||
          rs.any (fun r => k8sRuleMatches c npNs r (if ingress then conn.src else conn.dst) conn)) := by
  induction rs with
  | nil => intro acc; simp
  | cons r rest ih =>
    intro acc
    obtain ⟨crs, hcrs, hm⟩ := rule_conv c npNs hns r (hv r (by simp)) ingress conn hs hd
    have := ih (fun x hx => hv x (by simp [hx])) (acc.1 ++ crs, acc.2)
    simp only [List.foldl_cons, crStep, hcrs, this, List.any_append, hm, List.any_cons, Bool.or_assoc]
    trivial

theorem convertRules_sound (c : Cluster) (npNs : String) (hns : npNs ≠ "") (ingress : Bool)
    (conn : Conn) (hs : conn.src.ok) (hd : conn.dst.ok) (rs : List KRule) (hv : ∀ r ∈ rs, r.valid) :
    (convertRules rs ingress).2 = 0 ∧
    (convertRules rs ingress).1.any (fun cr => cruleMatches c npNs cr conn) =
      rs.any (fun r => k8sRuleMatches c npNs r (if ingress then conn.src else conn.dst) conn) := by
  have := convertRules_fold c npNs hns ingress conn hs hd rs hv ([], 0)
  rw [convertRules_eq]
  simpa using this

/-! ### the whole policy -/

/-- Hypotheses of the main theorem on the NetworkPolicy: what Kubernetes API validation and
defaulting guarantee (namespace set, policyTypes defaulted and legal, legal operators and ports),
and that no selector key lies in Calico's reserved label space (`podKeysOK`, `nsKeysOK`). -/
structure NP.wf (np : NP) : Prop where
  ns : np.ns ≠ ""
  types_ne : np.types ≠ []
  types : ∀ t ∈ np.types, t = "Ingress" ∨ t = "Egress"
  podOps : np.podSel.opsOK
  podKeys : np.podSel.podKeysOK
  ingress : ∀ r ∈ np.ingress, r.valid
  egress : ∀ r ∈ np.egress, r.valid

theorem convert_types (np : NP) (h1 : np.types ≠ []) (h2 : ∀ t ∈ np.types, t = "Ingress" ∨ t = "Egress") :
    (convert np).pol.types = effTypes np := by
  have hne : np.types.isEmpty = false := by cases hnt : np.types <;> simp_all
  have hor : np.types.contains "Ingress" = true ∨ np.types.contains "Egress" = true := by
    cases hnt : np.types with
    | nil => exact absurd hnt h1
    | cons t rest =>
      rcases h2 t (by simp [hnt]) with rfl | rfl
      · left; simp
      · right; simp
  simp only [convert, effTypes, hne]
  rcases hor with h | h
  · have h' : "Ingress" ∈ np.types := by simpa using h
    simp [h']
  · have h' : "Egress" ∈ np.types := by simpa using h
    by_cases hi : "Ingress" ∈ np.types <;> simp [h', hi]

theorem convert_pol_fields (np : NP) :
    (convert np).pol.ns = np.ns ∧ (convert np).pol.sel = k8sSelectorToCalico (some np.podSel) true ∧
    (convert np).pol.ingress = (convertRules np.ingress true).1 ∧
    (convert np).pol.egress = (convertRules np.egress false).1 ∧
    (convert np).badIngress = (convertRules np.ingress true).2 ∧
    (convert np).badEgress = (convertRules np.egress false).2 := by
  simp [convert]

end CalicoVerif.C29
