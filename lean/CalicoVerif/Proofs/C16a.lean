import CalicoVerif.Model.C16
namespace CalicoVerif.C16

namespace Map
variable {α : Type}

theorem get_erase (m : Map α) (k k' : String) :
    (m.erase k).get k' = if k' = k then none else m.get k' := by
  induction m with
  | nil => simp [erase, get, List.lookup]
  | cons p m ih =>
    obtain ⟨a, b⟩ := p
    simp only [erase, get] at ih ⊢
    by_cases h : a = k
    · subst h
      simp only [List.filter, bne_self_eq_false]
      rw [ih]
      by_cases h2 : k' = a
      · simp [h2]
      · have h3 : (k' == a) = false := by simp [h2]
        simp [h2, List.lookup, h3]
    · have : (a != k) = true := by simp [h]
      simp only [List.filter, this, List.lookup]
      by_cases h2 : k' = a
      · subst h2; simp [h]
      · have : (k' == a) = false := by simp [h2]
        simp only [this]; exact ih

theorem get_set (m : Map α) (k k' : String) (v : α) :
    (m.set k v).get k' = if k' = k then some v else m.get k' := by
  simp only [set, get, List.lookup]
  by_cases h : k' = k
  · subst h; simp
  · have : (k' == k) = false := by simp [h]
    simp only [this, h, if_false]
    have := get_erase m k k'
    simp only [get, h, if_false] at this
    exact this

theorem has_set (m : Map α) (k k' : String) (v : α) :
    (m.set k v).has k' = (k' == k || m.has k') := by
  simp only [has, get_set]
  by_cases h : k' = k <;> simp [h]

end Map

/-- Names a restore line mentions. -/
def Line.names : Line → List String
  | .create n _ _ _ _ => [n]
  | .add n _ => [n]
  | .del n _ => [n]
  | .swap a b => [a, b]

theorem kstep_get_other {K K' : Kernel} {l : Line} {n : String}
    (h : kstep K l = some K') (hn : n ∉ l.names) : K'.get n = K.get n := by
  cases l with
  | create name type ms a b =>
    simp only [Line.names, List.mem_singleton] at hn
    simp only [kstep] at h
    split at h
    · simp at h
    · split at h <;> (simp only [Option.some.injEq] at h; subst h; simp [Map.get_set, hn])
  | add name m =>
    simp only [Line.names, List.mem_singleton] at hn
    simp only [kstep] at h
    split at h
    · simp at h
    · split at h
      · simp at h
      · simp only [Option.some.injEq] at h; subst h; simp [Map.get_set, hn]
  | del name m =>
    simp only [Line.names, List.mem_singleton] at hn
    simp only [kstep] at h
    split at h
    · simp at h
    · simp only [Option.some.injEq] at h; subst h; simp [Map.get_set, hn]
  | swap a b =>
    simp only [Line.names, List.mem_cons, List.not_mem_nil, or_false, not_or] at hn
    simp only [kstep] at h
    split at h
    · simp only [Option.some.injEq] at h; subst h; simp [Map.get_set, hn.1, hn.2]
    · simp at h

/-- No restore line ever removes a set. -/
theorem kstep_has_mono {K K' : Kernel} {l : Line} {n : String}
    (h : kstep K l = some K') (hn : K.has n = true) : K'.has n = true := by
  by_cases hm : n ∈ l.names
  · cases l with
    | create name type ms a b =>
      simp only [kstep] at h
      split at h
      · simp at h
      · split at h <;> (simp only [Option.some.injEq] at h; subst h; simp [Map.has_set, hn])
    | add name m =>
      simp only [kstep] at h
      split at h
      · simp at h
      · split at h
        · simp at h
        · simp only [Option.some.injEq] at h; subst h; simp [Map.has_set, hn]
    | del name m =>
      simp only [kstep] at h
      split at h
      · simp at h
      · simp only [Option.some.injEq] at h; subst h; simp [Map.has_set, hn]
    | swap a b =>
      simp only [kstep] at h
      split at h
      · simp only [Option.some.injEq] at h; subst h; simp [Map.has_set, hn]
      · simp at h
  · have := kstep_get_other h hm
    simp only [Map.has] at hn ⊢
    rw [this]; exact hn

theorem kstates_has_mono {n : String} : ∀ (ls : List Line) (K : Kernel), K.has n = true →
    ∀ Ki ∈ kstates K ls, Ki.has n = true := by
  intro ls
  induction ls with
  | nil => intro K h Ki hi; simp only [kstates, List.mem_singleton] at hi; subst hi; exact h
  | cons l ls ih =>
    intro K h Ki hi
    simp only [kstates] at hi
    split at hi
    · simp only [List.mem_singleton] at hi; subst hi; exact h
    · rename_i K' hk
      simp only [List.mem_cons] at hi
      rcases hi with rfl | hi
      · exact h
      · exact ih K' (kstep_has_mono hk h) Ki hi

theorem krun_has_mono {n : String} : ∀ (ls : List Line) (K : Kernel), K.has n = true →
    (krun K ls).1.has n = true := by
  intro ls
  induction ls with
  | nil => intro K h; simpa [krun] using h
  | cons l ls ih =>
    intro K h
    simp only [krun]
    split
    · exact h
    · rename_i K' hk
      exact ih K' (kstep_has_mono hk h)

theorem krun_get_other {n : String} : ∀ (ls : List Line) (K : Kernel),
    (∀ l ∈ ls, n ∉ l.names) → (krun K ls).1.get n = K.get n := by
  intro ls
  induction ls with
  | nil => intro K _; simp [krun]
  | cons l ls ih =>
    intro K h
    simp only [krun]
    split
    · rfl
    · rename_i K' hk
      rw [ih K' (fun l' hl' => h l' (List.mem_cons_of_mem _ hl'))]
      exact kstep_get_other hk (h l (List.mem_cons_self))

end CalicoVerif.C16
