import CalicoVerif.Proofs.C11ChainMark
/-!
C11 — the simulation invariant `GA` for the builder's output, backwards from the footer.
-/
namespace CalicoVerif.C11

/-- Prepend a fragment that ends with the definition of a private label (the carry survives it). -/
theorem GA.pieceL {env : Env} {st : List Byte} {xdp : Bool} {nmax : Nat} {E : List Label} {pre post : Carry}
    {S : List BEv} (B : List Ev) (L : Label) (t : Option Label)
    (hd : DecidesC env st pre post (B ++ [.label L]) t) (hlive : Live B = true) (hfall : MayFall B = true)
    (htgt : ∀ l, t = some l → (∃ i, Ev.jmp i l ∈ B) ∧ l ∈ E)
    (hLE : L ∉ E)
    (h : GA env st xdp nmax E post S) : GA env st xdp nmax E pre ((B ++ [Ev.label L]).map BEv.ev ++ S) := by
  have hlab : labelsOf (B ++ [Ev.label L]) = [L] := by
    rw [labelsOf_append, labelsOf_of_live B hlive]; rfl
  have hne : ∀ l ∈ E, l ∉ labelsOf (B ++ [Ev.label L]) := by
    intro l hl; rw [hlab]; simp only [List.mem_singleton]; intro e; exact hLE (e ▸ hl)
  have hst : ∀ s : SplitSt, s.cur.reach = true →
      (rawAll s.cur (B ++ [Ev.label L])).reach = true ∧
      ∀ i l, Ev.jmp i l ∈ B → l ≠ L → l ∈ (rawAll s.cur (B ++ [Ev.label L])).fix ∧ l ∈ (rawAll s.cur (B ++ [Ev.label L])).use := by
    intro s hr
    obtain ⟨h1, h2⟩ := rawAll_live B s.cur hr hlive
    rw [rawAll_append]
    refine ⟨reachable_cons L (h1 hfall), ?_⟩
    intro i l hi hl
    obtain ⟨a, b⟩ := h2 i l hi
    exact ⟨raw_fix_mono _ (.label L) l (by intro e; cases e; exact hl rfl) a, raw_use_mono _ (.label L) l b⟩
  refine ⟨?_, ?_, ?_⟩
  · intro s hreach hn hsb mC mF hC hF
    have hsb' := hsb.evs
    rw [cont_evs] at hn ⊢
    rw [flat_evs]
    simp only at hn ⊢
    obtain ⟨mC', hIC, hcC, eC⟩ := hd (cont env.c xdp S { s with cur := rawAll s.cur (B ++ [Ev.label L]) }).1 mC hC
    obtain ⟨mF', hIF, hcF, eF⟩ := hd (flat S) mF hF
    rw [eC, eF]
    obtain ⟨hl1, hl2⟩ := hst s hreach
    cases t with
    | none => exact h.start _ hl1 hn hsb' mC' mF' (hcC rfl) (hcF rfl)
    | some l =>
      obtain ⟨⟨i, hi⟩, hE⟩ := htgt l rfl
      obtain ⟨hf, hu⟩ := hl2 i l hi (fun e => hLE (e ▸ hE))
      exact (h.lab _ l hE hf hu hn hsb' mC' mF' hIC hIF).weaken
  · intro s l hl hfix huse hn hsb mC mF hC hF
    have hsb' := hsb.evs
    rw [cont_evs] at hn ⊢
    rw [flat_evs]
    simp only at hn ⊢
    rw [goto_append _ mC (hne l hl), goto_append _ mF (hne l hl)]
    exact h.lab _ l hl (rawAll_fix_mono _ l (hne l hl) s.cur hfix) (rawAll_use_mono _ s.cur l huse) hn hsb' mC mF hC hF
  · intro l hl V hV mF hF
    rw [flat_evs, goto_append _ mF (hne l hl)]
    exact h.foot l hl V hV mF hF

/-- Weaken the carry requirement at the start. -/
theorem GA.drop {env : Env} {st : List Byte} {xdp : Bool} {nmax : Nat} {E : List Label} {c : Carry} {S : List BEv}
    (h : GA env st xdp nmax E .none S) : GA env st xdp nmax E c S :=
  ⟨fun s hr hn hsb mC mF hC hF => h.start s hr hn hsb mC mF hC.drop hF.drop, h.lab, h.foot⟩

/-- The labels of the footer that name a verdict. -/
def verdictLabels (xdp : Bool) : List Label := [.deny, .allow] ++ (if xdp then [.xdpPass] else [])

/-- **Base case**: the program's own footer. -/
theorem GA.footer (env : Env) (st : List Byte) (xdp : Bool) (nmax : Nat) :
    GA env st xdp nmax (verdictLabels xdp) .none ((footerEvs env.c xdp).map BEv.ev) := by
  have hc : ∀ s, cont env.c xdp ((footerEvs env.c xdp).map BEv.ev) s = (footerEvs env.c xdp, []) := by
    intro s
    have := cont_evs env.c xdp [] (footerEvs env.c xdp) s
    simpa [cont] using this
  have hf : flat ((footerEvs env.c xdp).map BEv.ev) = footerEvs env.c xdp := flat_map_ev _
  have hmem : ∀ l ∈ verdictLabels xdp, ∃ V, vOf l = some V ∧ (l = .xdpPass → xdp = true) := by
    intro l hl
    cases xdp <;> simp [verdictLabels] at hl <;> rcases hl with rfl | rfl | rfl <;> simp [vOf]
  have hout : ∀ l V, vOf l = some V → (l = .xdpPass → xdp = true) → ∀ m, Inv st m →
      (goto env l (footerEvs env.c xdp) m).final env ∧ agreesV env xdp V (goto env l (footerEvs env.c xdp) m) := by
    intro l V hV hx m hI
    have := footer_out env st xdp l V hV hx [] m hI
    simpa using this
  refine ⟨?_, ?_, ?_⟩
  · intro s _ _ _ mC mF hC hF
    rw [hc, hf]
    have e : ∀ m, lrun env (footerEvs env.c xdp) m = goto env .deny (footerEvs env.c xdp) m := by
      intro m; rw [footerEvs_eq, lrun_label, goto_label_self]
    rw [e mC, e mF]
    obtain ⟨h1, h2⟩ := hout .deny .deny rfl (by intro e; cases e) mC hC.inv
    obtain ⟨_, h4⟩ := hout .deny .deny rfl (by intro e; cases e) mF hF.inv
    rw [chainK_final env _ _ _ h1]
    exact ⟨.deny, (by intro l' V' e; cases e), (by intro e; cases e), h2, h4⟩
  · intro s l hl _ _ _ _ mC mF hC hF
    rw [hc, hf]
    obtain ⟨V, hV, hx⟩ := hmem l hl
    obtain ⟨h1, h2⟩ := hout l V hV hx mC hC
    obtain ⟨_, h4⟩ := hout l V hV hx mF hF
    rw [chainK_final env _ _ _ h1]
    refine ⟨V, ?_, ?_, h2, h4⟩
    · intro l' V' e hv'
      cases e
      rw [hV] at hv'; cases hv'; rfl
    · intro e
      subst e
      have : l = .xdpPass := by cases l <;> simp [vOf] at hV <;> rfl
      exact hx this
  · intro l hl V hV mF hF
    rw [hf]
    obtain ⟨V', hV', hx⟩ := hmem l hl
    rw [hV] at hV'; cases hV'
    exact (hout l V hV hx mF hF).2


/-! ### Fragment transformers -/

/-- Exposed sets the call-site lemma accepts. -/
structure EOK (xdp : Bool) (E : List Label) : Prop where
  xdp : Label.xdpPass ∈ E → xdp = true
  exit : Label.exit ∉ E
  np : Label.nextProgram ∉ E

/-- Labels of the policy body (never a footer label, `exit` or `next-program`). -/
def Label.bodyish (l : Label) : Bool := l.isBody || l == TOFH || l == AHP

theorem bodyish_vOf {l : Label} (h : l.bodyish = true) : vOf l = none := by
  cases l <;> simp_all [Label.bodyish, Label.isBody, Label.isRule, Label.isTierEnd, vOf, TOFH, AHP]

theorem EOK.cons {xdp : Bool} {E : List Label} (h : EOK xdp E) {l : Label} (hl : l.bodyish = true) : EOK xdp (l :: E) := by
  refine ⟨?_, ?_, ?_⟩
  · intro hm
    rcases List.mem_cons.1 hm with e | e
    · rw [← e] at hl; simp [Label.bodyish, Label.isBody, Label.isRule, Label.isTierEnd, TOFH, AHP] at hl
    · exact h.xdp e
  · intro hm
    rcases List.mem_cons.1 hm with e | e
    · rw [← e] at hl; simp [Label.bodyish, Label.isBody, Label.isRule, Label.isTierEnd, TOFH, AHP] at hl
    · exact h.exit e
  · intro hm
    rcases List.mem_cons.1 hm with e | e
    · rw [← e] at hl; simp [Label.bodyish, Label.isBody, Label.isRule, Label.isTierEnd, TOFH, AHP] at hl
    · exact h.np e

section
variable {env : Env} {st : List Byte} {xdp : Bool} {nmax : Nat}

/-- `F` turns the invariant of what follows it into the invariant of `F ++` what follows it. -/
def GT (env : Env) (st : List Byte) (xdp : Bool) (nmax : Nat) (c c' : Carry) (E : List Label) (F : List BEv) : Prop :=
  ∀ S, GA env st xdp nmax E c' S → GA env st xdp nmax E c (F ++ S)

theorem GT.nil (c : Carry) (E : List Label) : GT env st xdp nmax c c E [] := fun _ h => h

theorem GT.append {c c1 c' : Carry} {E : List Label} {F1 F2 : List BEv}
    (h1 : GT env st xdp nmax c c1 E F1) (h2 : GT env st xdp nmax c1 c' E F2) : GT env st xdp nmax c c' E (F1 ++ F2) := by
  intro S h
  rw [List.append_assoc]
  exact h1 _ (h2 S h)

theorem GT.weakenPost {c c' : Carry} {E : List Label} {F : List BEv} (h : GT env st xdp nmax c c' E F) :
    GT env st xdp nmax c .none E F := fun S hS => h S hS.drop

theorem GT.strengthenPre {c c' : Carry} {E : List Label} {F : List BEv} (h : GT env st xdp nmax .none c' E F) :
    GT env st xdp nmax c c' E F := fun S hS => (h S hS).drop

theorem Guard.toDecides {L : Label} {B : List Ev} {b : Bool} (h : Guard env st L B b) :
    Decides env st B (if b then none else some L) := by
  intro rest m hI
  obtain ⟨m', hI', e⟩ := h rest m hI
  refine ⟨m', hI', ?_⟩
  rw [e]; cases b <;> simp

/-- A label-free fragment with a `Decides` lemma whose only possible target is `l`. -/
theorem GT.ofDecides {E : List Label} (B : List Ev) (t : Option Label) (l : Label)
    (hd : Decides env st B t) (hlive : Live B = true) (hfall : MayFall B = true ∨ t ≠ none)
    (ht : t = none ∨ t = some l) (hj : ∃ i, Ev.jmp i l ∈ B) (hl : l ∈ E) :
    GT env st xdp nmax .none .none E (B.map BEv.ev) := by
  intro S h
  refine GA.piece B t (hd.toC .none) hlive ?_ ?_ h
  · intro e; rcases hfall with h1 | h1
    · exact h1
    · exact absurd e h1
  · intro l' e
    rcases ht with h1 | h1
    · rw [h1] at e; cases e
    · rw [h1] at e; cases e; exact ⟨hj, hl⟩

/-- A guard fragment. -/
theorem GT.ofGuard {E : List Label} (B : List Ev) (L : Label) (hg : ∃ b, Guard env st L B b)
    (hlive : Live B = true) (hfall : MayFall B = true) (hj : ∃ i, Ev.jmp i L ∈ B) (hl : L ∈ E) :
    GT env st xdp nmax .none .none E (B.map BEv.ev) := by
  obtain ⟨b, hg⟩ := hg
  exact GT.ofDecides B _ L hg.toDecides hlive (Or.inl hfall) (by cases b <;> simp) hj hl

/-- A decision fragment "hit ⇒ jump to `P`". -/
theorem GT.ofHit {E : List Label} (B : List Ev) (P : Label) (hd : ∃ b : Bool, Decides env st B (if b then some P else none))
    (hlive : Live B = true) (hfall : MayFall B = true) (hj : ∃ i, Ev.jmp i P ∈ B) (hl : P ∈ E) :
    GT env st xdp nmax .none .none E (B.map BEv.ev) := by
  obtain ⟨b, hd⟩ := hd
  exact GT.ofDecides B _ P hd hlive (Or.inl hfall) (by cases b <;> simp) hj hl

/-- The unconditional jump. -/
theorem GT.jmp {E : List Label} (l : Label) (hl : l ∈ E) :
    GT env st xdp nmax .none .none E [BEv.ev (jump l)] := by
  have := GT.ofDecides (env := env) (st := st) (xdp := xdp) (nmax := nmax) (E := E) [jump l] (some l) l
    (Decides.jump env st l) (by simp [Live, Ev.isLabel, jump, mkJ]) (Or.inr (by simp)) (Or.inr rfl)
    ⟨⟨opJumpA, 0, 0, 0, 0⟩, by simp [jump, mkJ]⟩ hl
  simpa using this

/-- A call site without reload instructions. -/
theorem GT.marker0 {E : List Label} (he : ChainEnv env nmax) (hE : EOK xdp E) (c : Carry) :
    GT env st xdp nmax c .none E [BEv.maybeSplit []] := by
  intro S h
  exact GA.marker he [] (fun rest m hI => ⟨m, hI.inv, fun _ => hI, rfl⟩) rfl rfl (Or.inl rfl) hE.xdp hE.exit hE.np h

theorem GT.flatMap {α : Type} {E : List Label} (f : α → List BEv) (l : List α)
    (h : ∀ x ∈ l, GT env st xdp nmax .none .none E (f x)) : GT env st xdp nmax .none .none E (l.flatMap f) := by
  induction l with
  | nil => exact GT.nil _ _
  | cons x xs ih =>
    rw [List.flatMap_cons]
    exact (h x (by simp)).append (ih (fun y hy => h y (by simp [hy])))

/-- Prepending a body label exposes it. -/
theorem GA.label' {E : List Label} {S : List BEv} (l : Label) (hl : l.bodyish = true)
    (h : GA env st xdp nmax E .none S) : GA env st xdp nmax (l :: E) .none (BEv.ev (.label l) :: S) :=
  GA.label l (bodyish_vOf hl) h

/-! ### Match criteria without call sites -/

theorem GT.proto {E : List Label} (hc : SetCtx env st) (rid : Nat) (neg : Bool) (o : Option Proto)
    (ho : ∀ pr, o = some pr → ProtoOK pr) (hl : Label.ruleNoMatch rid ∈ E) :
    GT env st xdp nmax .none .none E ((optList o (protoMatch rid neg)).map BEv.ev) := by
  cases o with
  | none => exact GT.nil _ _
  | some pr =>
    refine GT.ofGuard _ (.ruleNoMatch rid) ⟨_, guard_proto env st rid neg pr hc.len (ho pr rfl)⟩ ?_ ?_ ?_ hl
    · cases neg <;> simp [optList, protoMatch, Live, Ev.isLabel, Ev.uncond, load8, mk, jumpEqImm64, jumpNEImm64, mkJ,
        opLoadReg8, opJumpEqImm64, opJumpNEImm64, opJumpA, opExit]
    · cases neg <;> simp [optList, protoMatch, MayFall, Ev.uncond, load8, mk, jumpEqImm64, jumpNEImm64, mkJ,
        opJumpEqImm64, opJumpNEImm64, opJumpA, opExit]
    · cases neg
      · exact ⟨⟨opJumpNEImm64, R1, 0, 0, protocolToNumber pr⟩, by simp [optList, protoMatch, jumpNEImm64, mkJ]⟩
      · exact ⟨⟨opJumpEqImm64, R1, 0, 0, protocolToNumber pr⟩, by simp [optList, protoMatch, jumpEqImm64, mkJ]⟩

theorem GT.icmp {E : List Label} (hc : SetCtx env st) (rid : Nat) (neg : Bool) (ic : Icmp)
    (hl : Label.ruleNoMatch rid ∈ E) :
    GT env st xdp nmax .none .none E ((icmpMatch rid neg ic).map BEv.ev) := by
  cases ic with
  | none => exact GT.nil _ _
  | type t =>
    refine GT.ofGuard _ (.ruleNoMatch rid) ⟨_, guard_icmp env st rid neg (.type t) hc.len⟩ ?_ ?_ ?_ hl
    · cases neg <;> simp [icmpMatch, icmpTypeMatch, Live, Ev.isLabel, Ev.uncond, load8, mk, jumpEqImm64, jumpNEImm64, mkJ,
        opLoadReg8, opJumpEqImm64, opJumpNEImm64, opJumpA, opExit]
    · cases neg <;> simp [icmpMatch, icmpTypeMatch, MayFall, Ev.uncond, load8, mk, jumpEqImm64, jumpNEImm64, mkJ,
        opJumpEqImm64, opJumpNEImm64, opJumpA, opExit]
    · cases neg
      · exact ⟨⟨opJumpNEImm64, R1, 0, 0, toUint8 t⟩, by simp [icmpMatch, icmpTypeMatch, jumpNEImm64, mkJ]⟩
      · exact ⟨⟨opJumpEqImm64, R1, 0, 0, toUint8 t⟩, by simp [icmpMatch, icmpTypeMatch, jumpEqImm64, mkJ]⟩
  | typeCode t c' =>
    refine GT.ofGuard _ (.ruleNoMatch rid) ⟨_, guard_icmp env st rid neg (.typeCode t c') hc.len⟩ ?_ ?_ ?_ hl
    · cases neg <;> simp [icmpMatch, icmpTypeCodeMatch, Live, Ev.isLabel, Ev.uncond, load16, mk, jumpEqImm64, jumpNEImm64, mkJ,
        opLoadReg16, opJumpEqImm64, opJumpNEImm64, opJumpA, opExit]
    · cases neg <;> simp [icmpMatch, icmpTypeCodeMatch, MayFall, Ev.uncond, load16, mk, jumpEqImm64, jumpNEImm64, mkJ,
        opJumpEqImm64, opJumpNEImm64, opJumpA, opExit]
    · cases neg
      · exact ⟨⟨opJumpNEImm64, R1, 0, 0, toUint8 c' * 256 + toUint8 t⟩, by simp [icmpMatch, icmpTypeCodeMatch, jumpNEImm64, mkJ]⟩
      · exact ⟨⟨opJumpEqImm64, R1, 0, 0, toUint8 c' * 256 + toUint8 t⟩, by simp [icmpMatch, icmpTypeCodeMatch, jumpEqImm64, mkJ]⟩

theorem live_lookup (c : Cfg) (id : Nat) (leg : Leg) :
    Live (ipSetLookup c id leg) = true ∧ MayFall (ipSetLookup c id leg) = true := by
  cases hv : c.v6
  · rw [ipSetLookup_eq c id leg hv]
    constructor <;>
      simp [lookupEvs, keyEvs, loadMapFD, Live, MayFall, Ev.isLabel, Ev.uncond, movImm64, movImm32, mov64, call, mk,
        opMovImm64, opMovImm32, opMov64, opCall, opStoreReg8, opStoreReg16, opStoreReg32, opLoadReg8, opLoadReg16,
        opLoadReg32, opLoadImm64, opLoadImm64Pt2, opAddImm64, opJumpA, opExit]
  · rw [ipSetLookup_eq6 c id leg hv]
    constructor <;>
      simp [lookupEvs6, keyEvs6, loadMapFD, Live, MayFall, Ev.isLabel, Ev.uncond, movImm64, movImm32, mov64, call, mk,
        opMovImm64, opMovImm32, opMov64, opCall, opStoreReg8, opStoreReg16, opStoreReg32, opStoreReg64, opLoadReg8,
        opLoadReg16, opLoadReg64, opLoadImm64, opLoadImm64Pt2, opAddImm64, opJumpA, opExit]

/-- lookup followed by one conditional jump on R0 -/
theorem live_lookup_jmp (c : Cfg) (id : Nat) (leg : Leg) (i : Insn) (l : Label)
    (hi : (i.op == opJumpA || i.op == opExit) = false) :
    Live (ipSetLookup c id leg ++ [.jmp i l]) = true ∧ MayFall (ipSetLookup c id leg ++ [.jmp i l]) = true := by
  obtain ⟨h1, h2⟩ := live_lookup c id leg
  refine ⟨Live_append _ _ h1 h2 (by simp [Live, Ev.isLabel]), ?_⟩
  rw [MayFall_append _ _ (by simp)]
  simp [MayFall, Ev.uncond, hi]

theorem GT.sets {E : List Label} (hc : SetCtx env st) (rid : Nat) (neg : Bool) (leg : Leg) (ids : List Nat)
    (hids : ∀ id ∈ ids, id < 2 ^ 64) (hl : Label.ruleNoMatch rid ∈ E) :
    GT env st xdp nmax .none .none E ((ipSetMatch env.c rid neg leg ids).map BEv.ev) := by
  unfold ipSetMatch
  rw [List.map_flatMap]
  refine GT.flatMap _ _ (fun id hid => ?_)
  cases neg
  · have hl' := live_lookup_jmp env.c id leg ⟨opJumpEqImm64, 0, 0, 0, 0⟩ (.ruleNoMatch rid) (by decide)
    exact GT.ofGuard _ (.ruleNoMatch rid) ⟨_, guard_ipset1 env st hc (.ruleNoMatch rid) false leg id (hids id hid)⟩
      hl'.1 hl'.2 ⟨⟨opJumpEqImm64, R0, 0, 0, 0⟩, by simp [jumpEqImm64, mkJ]⟩ hl
  · have hl' := live_lookup_jmp env.c id leg ⟨opJumpNEImm64, 0, 0, 0, 0⟩ (.ruleNoMatch rid) (by decide)
    exact GT.ofGuard _ (.ruleNoMatch rid) ⟨_, guard_ipset1 env st hc (.ruleNoMatch rid) true leg id (hids id hid)⟩
      hl'.1 hl'.2 ⟨⟨opJumpNEImm64, R0, 0, 0, 0⟩, by simp [jumpNEImm64, mkJ]⟩ hl

/-- The tests of a "one of these sets" criterion, jumping to `P` on a hit. -/
theorem GT.ipSetTests {E : List Label} (hc : SetCtx env st) (P : Label) (leg : Leg) (ids : List Nat)
    (hids : ∀ id ∈ ids, id < 2 ^ 64) (hl : P ∈ E) :
    GT env st xdp nmax .none .none E
      ((ids.flatMap (fun id => ipSetLookup env.c id leg ++ [jumpNEImm64 R0 0 P])).map BEv.ev) := by
  rw [List.map_flatMap]
  refine GT.flatMap _ _ (fun id hid => ?_)
  have hl' := live_lookup_jmp env.c id leg ⟨opJumpNEImm64, 0, 0, 0, 0⟩ P (by decide)
  exact GT.ofHit _ P ⟨_, decides_ipset_test env st hc P leg id (hids id hid)⟩ hl'.1 hl'.2
    ⟨⟨opJumpNEImm64, R0, 0, 0, 0⟩, by simp [jumpNEImm64, mkJ]⟩ hl

/-- A positive criterion: its tests, `goto no_match`, the match label. -/
theorem GT.positive {E : List Label} (rid : Nat) (P : Label) (hP : P.bodyish = true) (T : List BEv)
    (hl : Label.ruleNoMatch rid ∈ E)
    (hT : GT env st xdp nmax .none .none (P :: E) T) :
    GT env st xdp nmax .none .none E (T ++ [BEv.ev (jump (.ruleNoMatch rid)), BEv.ev (.label P)]) := by
  intro S h
  have h1 := GA.label' P hP h
  have h2 := GT.jmp (env := env) (st := st) (xdp := xdp) (nmax := nmax) (.ruleNoMatch rid)
    (List.mem_cons_of_mem P hl) _ h1
  have h3 := hT _ h2
  have : T ++ [BEv.ev (jump (Label.ruleNoMatch rid)), BEv.ev (Ev.label P)] ++ S =
      T ++ ([BEv.ev (jump (Label.ruleNoMatch rid))] ++ BEv.ev (Ev.label P) :: S) := by simp
  rw [this]
  exact h3.mono (fun l hl' => List.mem_cons_of_mem _ hl')

theorem GT.setOr {E : List Label} (hc : SetCtx env st) (rid part : Nat) (leg : Leg) (ids : List Nat)
    (hids : ∀ id ∈ ids, id < 2 ^ 64) (hl : Label.ruleNoMatch rid ∈ E) :
    GT env st xdp nmax .none .none E ((ipSetOrMatch env.c rid part leg ids).1.map BEv.ev) := by
  unfold ipSetOrMatch
  simp only [List.map_append, List.map_cons, List.map_nil]
  exact GT.positive rid (.rulePart rid part) rfl _ hl
    (GT.ipSetTests hc (.rulePart rid part) leg ids hids List.mem_cons_self)

/-! ### CIDR criteria (a call site before every CIDR) -/

theorem live_cidrV4 (leg : Leg) (P : Label) (n : Net) :
    Live (cidrV4 leg P n) = true ∧ MayFall (cidrV4 leg P n) = true ∧ ∃ i, Ev.jmp i P ∈ cidrV4 leg P n := by
  refine ⟨?_, ?_, ⟨⟨opJumpEqImm32, R2, 0, 0, (rev32bv (BitVec.ofNat 32 n.addr &&& mask32bv n.pfx)).toInt⟩, ?_⟩⟩ <;>
    simp [cidrV4, Live, MayFall, Ev.isLabel, Ev.uncond, load32, movImm32, and32, jumpEqImm32, mk, mkJ, opLoadReg32,
      opMovImm32, opAnd32, opJumpEqImm32, opJumpA, opExit]

theorem GT.cidrLoop4 {E : List Label} (he : ChainEnv env nmax) (hc : SetCtx env st) (hE : EOK xdp E) (leg : Leg)
    (rid : Nat) (P : Label) (hP : P ∈ E) :
    ∀ (nets : List Net) (idx : Nat), GT env st xdp nmax .none .none E (cidrLoop false leg rid P nets idx) := by
  intro nets
  induction nets with
  | nil => intro _; exact GT.nil _ _
  | cons n ns ih =>
    intro idx
    obtain ⟨h1, h2, h3⟩ := live_cidrV4 leg P n
    have e : cidrLoop false leg rid P (n :: ns) idx =
        [BEv.maybeSplit []] ++ ((cidrV4 leg P n).map BEv.ev ++ cidrLoop false leg rid P ns (idx + 1)) := by
      simp [cidrLoop]
    rw [e]
    exact (GT.marker0 he hE .none).append
      ((GT.ofHit _ P ⟨_, decides_cidrV4 env st hc.len P leg n⟩ h1 h2 h3 hP).append (ih (idx + 1)))

/-- The last emitted section of an IPv6 CIDR test without the end label. -/
def finB (leg : Leg) (rid idx : Nat) (P : Label) (n : Net) (k : Nat) : List Ev :=
  sec3 (leg.ipo + 4 * k) (secM n k) ++
    ((if k = 3 then [] else [jumpNEImm32 R2 (secImm n k) (.cidrEnd rid idx)]) ++ [jumpEqImm32 R2 (secImm n k) P])

theorem secFin_eq (leg : Leg) (rid idx : Nat) (P : Label) (n : Net) (k : Nat) :
    secFin leg rid idx P n k = finB leg rid idx P n k ++ [.label (.cidrEnd rid idx)] := by
  simp [secFin, finB]

theorem live_sec3 (off : Nat) (M : BitVec 32) : Live (sec3 off M) = true ∧ MayFall (sec3 off M) = true := by
  constructor <;>
    simp [sec3, Live, MayFall, Ev.isLabel, Ev.uncond, load32, movImm32, and32, mk, opLoadReg32, opMovImm32, opAnd32,
      opJumpA, opExit]

theorem GT.sec6 {E : List Label} (leg : Leg) (rid idx : Nat) (n : Net) (s : Nat) (hs : s ≤ 3)
    (hE : Label.cidrEnd rid idx ∈ E) :
    GT env st xdp nmax .none .none E ((secNE leg rid idx n s).map BEv.ev) := by
  obtain ⟨h1, h2⟩ := live_sec3 (leg.ipo + 4 * s) (secM n s)
  refine GT.ofGuard _ (.cidrEnd rid idx) ⟨_, guard_secNE6 env st leg rid idx n s hs⟩ ?_ ?_ ?_ hE
  · exact Live_append _ _ h1 h2 (by simp [Live, Ev.isLabel, jumpNEImm32, mkJ])
  · unfold secNE; rw [MayFall_append _ _ (by simp)]
    simp [MayFall, Ev.uncond, jumpNEImm32, mkJ, opJumpNEImm32, opJumpA, opExit]
  · exact ⟨⟨opJumpNEImm32, R2, 0, 0, secImm n s⟩, by simp [secNE, jumpNEImm32, mkJ]⟩

theorem GT.fin6 {E : List Label} (leg : Leg) (rid idx : Nat) (P : Label) (n : Net) (k : Nat) (hk : k ≤ 3)
    (hP : P ∈ E) (hE : Label.cidrEnd rid idx ∈ E) :
    GT env st xdp nmax .none .none E ((finB leg rid idx P n k).map BEv.ev) := by
  obtain ⟨h1, h2⟩ := live_sec3 (leg.ipo + 4 * k) (secM n k)
  by_cases h3 : k = 3
  · have e : finB leg rid idx P n k = sec3 (leg.ipo + 4 * k) (secM n k) ++
        [jumpEqImm32 R2 (rev32bv (secA n k &&& secM n k)).toInt P] := by simp [finB, h3, secImm]
    rw [e]
    refine GT.ofHit _ P ⟨_, decides_fin3 env st _ (leg.off6_le k hk) (leg.off6_stable k hk) (secM n k) (secA n k) P⟩
      (Live_append _ _ h1 h2 (by simp [Live, Ev.isLabel, jumpEqImm32, mkJ])) ?_ ?_ hP
    · rw [MayFall_append _ _ (by simp)]
      simp [MayFall, Ev.uncond, jumpEqImm32, mkJ, opJumpEqImm32, opJumpA, opExit]
    · exact ⟨⟨opJumpEqImm32, R2, 0, 0, (rev32bv (secA n k &&& secM n k)).toInt⟩, by simp [jumpEqImm32, mkJ]⟩
  · have e : finB leg rid idx P n k = sec3 (leg.ipo + 4 * k) (secM n k) ++
        [jumpNEImm32 R2 (rev32bv (secA n k &&& secM n k)).toInt (.cidrEnd rid idx),
         jumpEqImm32 R2 (rev32bv (secA n k &&& secM n k)).toInt P] := by simp [finB, h3, secImm]
    rw [e]
    intro S h
    have hd := decides_finNE env st _ (leg.off6_le k hk) (leg.off6_stable k hk) (secM n k) (secA n k) P (.cidrEnd rid idx)
    refine GA.piece _ _ (hd.toC .none)
      (Live_append _ _ h1 h2 (by simp [Live, Ev.isLabel, Ev.uncond, jumpNEImm32, jumpEqImm32, mkJ, opJumpNEImm32,
        opJumpA, opExit])) ?_ ?_ h
    · intro e'; split at e' <;> cases e'
    · intro l e'
      split at e'
      · cases e'
        exact ⟨⟨⟨opJumpEqImm32, R2, 0, 0, (rev32bv (secA n k &&& secM n k)).toInt⟩, by simp [jumpEqImm32, mkJ]⟩, hP⟩
      · cases e'
        exact ⟨⟨⟨opJumpNEImm32, R2, 0, 0, (rev32bv (secA n k &&& secM n k)).toInt⟩, by simp [jumpNEImm32, mkJ]⟩, hE⟩

/-- One IPv6 CIDR test. -/
theorem GT.cidr6 {E : List Label} (leg : Leg) (rid idx : Nat) (P : Label) (n : Net) (hP : P ∈ E) :
    GT env st xdp nmax .none .none E ((cidrV6 leg rid idx P n).map BEv.ev) := by
  intro S h
  have h1 := GA.label' (.cidrEnd rid idx) rfl h
  have hP' : P ∈ Label.cidrEnd rid idx :: E := List.mem_cons_of_mem _ hP
  have hE' : Label.cidrEnd rid idx ∈ Label.cidrEnd rid idx :: E := List.mem_cons_self
  have fin := fun k hk => GT.fin6 (env := env) (st := st) (xdp := xdp) (nmax := nmax) leg rid idx P n k hk hP' hE'
  have ne := fun s hs => GT.sec6 (env := env) (st := st) (xdp := xdp) (nmax := nmax) (E := Label.cidrEnd rid idx :: E)
    leg rid idx n s hs hE'
  have key : GA env st xdp nmax (Label.cidrEnd rid idx :: E) .none
      ((cidrV6 leg rid idx P n).map BEv.ev ++ S) := by
    rw [cidrV6_eq]
    by_cases c1 : mask128Word n.pfx 1 = 0
    · simp only [c1, if_true, secFin_eq, List.map_append, List.map_cons, List.map_nil, List.append_assoc,
        List.cons_append, List.nil_append]
      exact fin 0 (by omega) _ h1
    · by_cases c2 : mask128Word n.pfx 2 = 0
      · simp only [c1, c2, if_true, if_false, secFin_eq, List.map_append, List.map_cons, List.map_nil, List.append_assoc,
          List.cons_append, List.nil_append]
        exact ne 0 (by omega) _ (fin 1 (by omega) _ h1)
      · by_cases c3 : mask128Word n.pfx 3 = 0
        · simp only [c1, c2, c3, if_true, if_false, secFin_eq, List.map_append, List.map_cons, List.map_nil,
            List.append_assoc, List.cons_append, List.nil_append]
          exact ne 0 (by omega) _ (ne 1 (by omega) _ (fin 2 (by omega) _ h1))
        · simp only [c1, c2, c3, if_false, secFin_eq, List.map_append, List.map_cons, List.map_nil, List.append_assoc,
            List.cons_append, List.nil_append]
          exact ne 0 (by omega) _ (ne 1 (by omega) _ (ne 2 (by omega) _ (fin 3 (by omega) _ h1)))
  exact key.mono (fun l hl => List.mem_cons_of_mem _ hl)

theorem GT.cidrLoop6 {E : List Label} (he : ChainEnv env nmax) (hE : EOK xdp E) (leg : Leg)
    (rid : Nat) (P : Label) (hP : P ∈ E) :
    ∀ (nets : List Net) (idx : Nat), GT env st xdp nmax .none .none E (cidrLoop true leg rid P nets idx) := by
  intro nets
  induction nets with
  | nil => intro _; exact GT.nil _ _
  | cons n ns ih =>
    intro idx
    have e : cidrLoop true leg rid P (n :: ns) idx =
        [BEv.maybeSplit []] ++ ((cidrV6 leg rid idx P n).map BEv.ev ++ cidrLoop true leg rid P ns (idx + 1)) := by
      simp [cidrLoop]
    rw [e]
    exact (GT.marker0 he hE .none).append ((GT.cidr6 leg rid idx P n hP).append (ih (idx + 1)))

/-- `writeCIDRSMatch`. -/
theorem GT.cidrs {E : List Label} (he : ChainEnv env nmax) (hc : SetCtx env st) (hE : EOK xdp E) (v6 : Bool)
    (rid part : Nat) (neg : Bool) (leg : Leg) (nets : List Net) (hl : Label.ruleNoMatch rid ∈ E) :
    GT env st xdp nmax .none .none E (cidrsMatch v6 rid part neg leg nets).1 := by
  have loop : ∀ (E' : List Label), EOK xdp E' → ∀ P, P ∈ E' →
      GT env st xdp nmax .none .none E' (cidrLoop v6 leg rid P nets 0) := by
    intro E' hE' P hP
    cases v6
    · exact GT.cidrLoop4 he hc hE' leg rid P hP nets 0
    · exact GT.cidrLoop6 he hE' leg rid P hP nets 0
  cases neg
  · simp only [cidrsMatch, Bool.false_eq_true, if_false]
    exact GT.positive rid (.rulePart rid part) rfl _ hl (loop _ (hE.cons rfl) _ List.mem_cons_self)
  · simp only [cidrsMatch, if_true]
    exact loop E hE _ hl

/-! ### Port criteria (a call site with a reload after every range, one before every named-port set) -/

theorem portLoop_consB (rid : Nat) (leg : Leg) (onMatch : Label) (pr : PortRange) (rs : List PortRange) (part : Nat) :
    (portLoop rid leg onMatch (pr :: rs) part).1 =
      (portHere rid onMatch pr part).1.map BEv.ev ++ ([BEv.maybeSplit [load16 R1 R9 leg.portOff]] ++
        (portLoop rid leg onMatch rs (portHere rid onMatch pr part).2).1) := by
  unfold portHere
  rw [portLoop]
  by_cases c1 : pr.first = pr.last
  · simp only [c1, if_true]
    cases portLoop rid leg onMatch rs part with
    | mk more p2 => simp
  · by_cases c2 : pr.first > 0
    · simp only [c1, c2, if_false, if_true]
      cases portLoop rid leg onMatch rs (part + 1) with
      | mk more p2 => simp
    · simp only [c1, c2, if_false]
      cases portLoop rid leg onMatch rs part with
      | mk more p2 => simp

theorem portHere_part (rid : Nat) (P : Label) (pr : PortRange) (part : Nat) : part ≤ (portHere rid P pr part).2 := by
  unfold portHere; split
  · exact Nat.le_refl _
  · split <;> simp

/-- The reload at a port-loop call site. -/
theorem decidesC_loadPort (hc : SetCtx env st) (leg : Leg) :
    DecidesC env st .none (.port leg) [load16 R1 R9 leg.portOff] none := by
  intro rest m hI
  have e1 := step_ldx_state (env := env) hI.inv opLoadReg16 1 leg.pto 2 0 (bs := (st.drop leg.pto).take 2)
    (hop := Or.inr (Or.inl ⟨rfl, rfl⟩)) (hd := by omega) (hk := leg.pto_le)
    (hb := getBytes_full hc.len leg.pto 2 leg.pto_le) (hstab := leg.pto_stable)
  have hI1 := hI.inv.setReg 1 (BitVec.ofNat 64 (fieldN st leg.pto 2)) (by omega) (by omega) (by omega)
  refine ⟨_, hI1, fun _ => ⟨hI1, ?_⟩, ?_⟩
  · intro leg' e
    cases e
    exact reg_setReg_eq (by rw [hI.inv.regsLen]; omega)
  · simp only [load16, mk, R1, R9, leg.portOff_eq, List.cons_append, List.nil_append]
    exact lrun_ins_next (e1 _)

theorem live_loadPort (leg : Leg) : Live [load16 R1 R9 leg.portOff] = true ∧ MayFall [load16 R1 R9 leg.portOff] = true := by
  constructor <;> simp [Live, MayFall, Ev.isLabel, Ev.uncond, load16, mk, opLoadReg16, opJumpA, opExit]

/-- One port range, with R1 = the port. -/
theorem decidesC_portHere (leg : Leg) (rid : Nat) (P : Label) (pr : PortRange) (part : Nat) (hok : PortOK pr)
    (hne : ∀ k, part ≤ k → P ≠ .rulePart rid k) :
    ∃ b : Bool, DecidesC env st (.port leg) (.port leg) (portHere rid P pr part).1 (if b then some P else none) := by
  have hv : fieldN st leg.pto 2 < 65536 := by have := fieldN_lt st leg.pto 2; omega
  refine ⟨portInNat (fieldN st leg.pto 2) pr, ?_⟩
  intro rest m hI
  have h1 := hI.2 leg rfl
  have := lrun_portLoop env rid leg P (fieldN st leg.pto 2) hv [pr] part rest m
    (by intro r hr; simp only [List.mem_singleton] at hr; rw [hr]; exact hok) h1 hne
  have e : flat (portLoop rid leg P [pr] part).1 = (portHere rid P pr part).1 := by
    rw [(portLoop_cons rid leg P pr [] part).1]; simp [portLoop, flat]
  rw [e] at this
  refine ⟨m, hI.inv, fun _ => hI, ?_⟩
  rw [this]
  simp only [List.any_cons, List.any_nil, Bool.or_false]
  cases portInNat (fieldN st leg.pto 2) pr <;> rfl

theorem GT.portLoop' {E : List Label} (he : ChainEnv env nmax) (hc : SetCtx env st) (hE : EOK xdp E) (leg : Leg)
    (rid : Nat) (P : Label) (hP : P ∈ E) :
    ∀ (ports : List PortRange) (part : Nat), (∀ r ∈ ports, PortOK r) →
      (∀ k, part ≤ k → P ≠ .rulePart rid k) → (∀ k, part ≤ k → Label.rulePart rid k ∉ E) →
      GT env st xdp nmax (.port leg) (.port leg) E (portLoop rid leg P ports part).1 := by
  intro ports
  induction ports with
  | nil => intro part _ _ _; exact GT.nil _ _
  | cons pr rs ih =>
    intro part hok hne hpriv
    rw [portLoop_consB]
    have hpp := portHere_part rid P pr part
    have hrest := ih (portHere rid P pr part).2 (fun r hr => hok r (List.mem_cons_of_mem _ hr))
      (fun k hk => hne k (by omega)) (fun k hk => hpriv k (by omega))
    have hmark : GT env st xdp nmax (.port leg) (.port leg) E [BEv.maybeSplit [load16 R1 R9 leg.portOff]] := by
      intro S h
      exact GA.marker he _ (decidesC_loadPort hc leg) (live_loadPort leg).1 (live_loadPort leg).2 (Or.inr rfl)
        hE.xdp hE.exit hE.np h
    refine GT.append ?_ (hmark.append hrest)
    obtain ⟨b, hd⟩ := decidesC_portHere (env := env) (st := st) leg rid P pr part (hok pr List.mem_cons_self) hne
    intro S h
    unfold portHere at hd ⊢
    by_cases c1 : pr.first = pr.last
    · simp only [c1, if_true] at hd ⊢
      refine GA.piece _ _ hd (by simp [Live, Ev.isLabel, jumpEqImm64, mkJ])
        (fun _ => by simp [MayFall, Ev.uncond, jumpEqImm64, mkJ, opJumpEqImm64, opJumpA, opExit]) ?_ h
      intro l e
      cases b <;> simp at e
      subst e
      exact ⟨⟨⟨opJumpEqImm64, R1, 0, 0, pr.last⟩, by simp [jumpEqImm64, mkJ]⟩, hP⟩
    · by_cases c2 : pr.first > 0
      · simp only [c1, c2, if_false, if_true] at hd ⊢
        have e : [jumpLTImm64 R1 pr.first (Label.rulePart rid part), jumpLEImm64 R1 pr.last P,
            Ev.label (Label.rulePart rid part)] =
            [jumpLTImm64 R1 pr.first (Label.rulePart rid part), jumpLEImm64 R1 pr.last P] ++
              [Ev.label (Label.rulePart rid part)] := rfl
        rw [e] at hd ⊢
        refine GA.pieceL _ _ _ hd
          (by simp [Live, Ev.isLabel, Ev.uncond, jumpLTImm64, jumpLEImm64, mkJ, opJumpLTImm64, opJumpA, opExit])
          (by simp [MayFall, Ev.uncond, jumpLEImm64, mkJ, opJumpLEImm64, opJumpA, opExit]) ?_
          (hpriv part (Nat.le_refl _)) h
        intro l e'
        cases b <;> simp at e'
        subst e'
        exact ⟨⟨⟨opJumpLEImm64, R1, 0, 0, pr.last⟩, by simp [jumpLEImm64, mkJ]⟩, hP⟩
      · simp only [c1, c2, if_false] at hd ⊢
        refine GA.piece _ _ hd (by simp [Live, Ev.isLabel, jumpLEImm64, mkJ])
          (fun _ => by simp [MayFall, Ev.uncond, jumpLEImm64, mkJ, opJumpLEImm64, opJumpA, opExit]) ?_ h
        intro l e
        cases b <;> simp at e
        subst e
        exact ⟨⟨⟨opJumpLEImm64, R1, 0, 0, pr.last⟩, by simp [jumpLEImm64, mkJ]⟩, hP⟩

/-- No `rulePart` label is exposed (they are all private to their criterion). -/
def NoPart (E : List Label) : Prop := ∀ r k, Label.rulePart r k ∉ E

theorem GT.named {E : List Label} (he : ChainEnv env nmax) (hc : SetCtx env st) (hE : EOK xdp E) (P : Label) (leg : Leg)
    (named : List Nat) (hids : ∀ id ∈ named, id < 2 ^ 64) (hP : P ∈ E) :
    GT env st xdp nmax .none .none E
      (named.flatMap (fun id => BEv.maybeSplit [] :: (ipSetLookup env.c id leg ++ [jumpNEImm64 R0 0 P]).map BEv.ev)) := by
  refine GT.flatMap _ _ (fun id hid => ?_)
  have hl' := live_lookup_jmp env.c id leg ⟨opJumpNEImm64, 0, 0, 0, 0⟩ P (by decide)
  have e : (BEv.maybeSplit [] :: (ipSetLookup env.c id leg ++ [jumpNEImm64 R0 0 P]).map BEv.ev) =
      [BEv.maybeSplit []] ++ (ipSetLookup env.c id leg ++ [jumpNEImm64 R0 0 P]).map BEv.ev := rfl
  rw [e]
  exact (GT.marker0 he hE .none).append
    (GT.ofHit _ P ⟨_, decides_ipset_test env st hc P leg id (hids id hid)⟩ hl'.1 hl'.2
      ⟨⟨opJumpNEImm64, R0, 0, 0, 0⟩, by simp [jumpNEImm64, mkJ]⟩ hP)

/-- load the port, the numeric ranges, the named-port sets: everything that jumps to `P` on a hit. -/
theorem GT.portTests {E : List Label} (he : ChainEnv env nmax) (hc : SetCtx env st) (hE : EOK xdp E) (leg : Leg)
    (rid : Nat) (P : Label) (hP : P ∈ E) (ports : List PortRange) (named : List Nat) (part : Nat)
    (hok : ∀ r ∈ ports, PortOK r) (hids : ∀ id ∈ named, id < 2 ^ 64)
    (hne : ∀ k, part ≤ k → P ≠ .rulePart rid k) (hpriv : ∀ k, part ≤ k → Label.rulePart rid k ∉ E) :
    GT env st xdp nmax .none .none E
      (BEv.ev (load16 R1 R9 leg.portOff) :: (portLoop rid leg P ports part).1 ++
        named.flatMap (fun id => BEv.maybeSplit [] :: (ipSetLookup env.c id leg ++ [jumpNEImm64 R0 0 P]).map BEv.ev)) := by
  have hload : GT env st xdp nmax .none (.port leg) E [BEv.ev (load16 R1 R9 leg.portOff)] := by
    intro S h
    exact GA.piece [load16 R1 R9 leg.portOff] none (decidesC_loadPort hc leg) (live_loadPort leg).1
      (fun _ => (live_loadPort leg).2) (by intro l e; cases e) h
  have e : (BEv.ev (load16 R1 R9 leg.portOff) :: (portLoop rid leg P ports part).1 ++
        named.flatMap (fun id => BEv.maybeSplit [] :: (ipSetLookup env.c id leg ++ [jumpNEImm64 R0 0 P]).map BEv.ev)) =
      [BEv.ev (load16 R1 R9 leg.portOff)] ++ ((portLoop rid leg P ports part).1 ++
        named.flatMap (fun id => BEv.maybeSplit [] :: (ipSetLookup env.c id leg ++ [jumpNEImm64 R0 0 P]).map BEv.ev)) := rfl
  rw [e]
  exact hload.append ((GT.portLoop' he hc hE leg rid P hP ports part hok hne hpriv).append
    (GT.named he hc hE P leg named hids hP).strengthenPre)

/-- `writePortsMatch`. -/
theorem GT.ports {E : List Label} (he : ChainEnv env nmax) (hc : SetCtx env st) (hE : EOK xdp E) (hNP : NoPart E)
    (rid part : Nat) (neg : Bool) (leg : Leg) (ports : List PortRange) (named : List Nat)
    (hok : ∀ r ∈ ports, PortOK r) (hids : ∀ id ∈ named, id < 2 ^ 64) (hl : Label.ruleNoMatch rid ∈ E) :
    GT env st xdp nmax .none .none E (portsMatch env.c rid part neg leg ports named).1 := by
  cases neg
  · -- positive: match label `rulePart rid part`, private labels from `part + 1`
    have hT := GT.portTests (E := Label.rulePart rid part :: E) he hc (hE.cons rfl) leg rid (.rulePart rid part)
      List.mem_cons_self ports named (part + 1) hok hids
      (by intro k hk e; cases e; omega)
      (by intro k hk hm
          rcases List.mem_cons.1 hm with e | e
          · cases e; omega
          · exact hNP rid k e)
    have := GT.positive rid (.rulePart rid part) rfl _ hl hT
    have e : (portsMatch env.c rid part false leg ports named).1 =
        (BEv.ev (load16 R1 R9 leg.portOff) :: (portLoop rid leg (.rulePart rid part) ports (part + 1)).1 ++
          named.flatMap (fun id => BEv.maybeSplit [] ::
            (ipSetLookup env.c id leg ++ [jumpNEImm64 R0 0 (.rulePart rid part)]).map BEv.ev)) ++
        [BEv.ev (jump (.ruleNoMatch rid)), BEv.ev (.label (.rulePart rid part))] := by
      simp only [portsMatch, Bool.false_eq_true, if_false]
      all_goals (cases portLoop rid leg (.rulePart rid part) ports (part + 1) with
        | mk nums p2 => simp)
    rw [e]
    exact this
  · have hT := GT.portTests (E := E) he hc hE leg rid (.ruleNoMatch rid) hl ports named part hok hids
      (by intro k _ e; cases e) (by intro k _; exact hNP rid k)
    have e : (portsMatch env.c rid part true leg ports named).1 =
        (BEv.ev (load16 R1 R9 leg.portOff) :: (portLoop rid leg (.ruleNoMatch rid) ports part).1 ++
          named.flatMap (fun id => BEv.maybeSplit [] ::
            (ipSetLookup env.c id leg ++ [jumpNEImm64 R0 0 (.ruleNoMatch rid)]).map BEv.ev)) := by
      simp only [portsMatch, if_true]
      all_goals (cases portLoop rid leg (.ruleNoMatch rid) ports part with
        | mk nums p2 => simp)
    rw [e]
    exact hT

/-! ### Rules -/

theorem GT.rmP {E : List Label} (he : ChainEnv env nmax) (hc : SetCtx env st) (hE : EOK xdp E) (hNP : NoPart E)
    (rid : Nat) (r : Rule) (hok : RuleOK r) (leg : Leg) (hl : Label.ruleNoMatch rid ∈ E) :
    GT env st xdp nmax .none .none E (rmP2 env.c rid r).1 ∧ GT env st xdp nmax .none .none E (rmP3 env.c rid r).1 ∧
    GT env st xdp nmax .none .none E (rmP4 env.c rid r leg).1 ∧ GT env st xdp nmax .none .none E (rmP5 env.c rid r leg).1 ∧
    GT env st xdp nmax .none .none E ((rmP7 env.c rid r leg).1.map BEv.ev) ∧
    GT env st xdp nmax .none .none E (rmP9 env.c rid r leg).1 ∧ GT env st xdp nmax .none .none E (rmP10 env.c rid r leg).1 ∧
    GT env st xdp nmax .none .none E (rmP11 env.c rid r leg).1 ∧ GT env st xdp nmax .none .none E (rmP12 env.c rid r leg).1 := by
  obtain ⟨i1, i2, i3, i4, i5, i6, i7, i8, i9⟩ := mem_ids hok
  obtain ⟨q1, q2, q3, q4⟩ := mem_ports hok
  refine ⟨?_, ?_, ?_, ?_, ?_, ?_, ?_, ?_, ?_⟩
  · unfold rmP2; split
    · exact GT.nil _ _
    · exact GT.cidrs he hc hE _ rid _ _ _ _ hl
  · unfold rmP3; split
    · exact GT.nil _ _
    · exact GT.cidrs he hc hE _ rid _ _ _ _ hl
  · unfold rmP4; split
    · exact GT.nil _ _
    · exact GT.cidrs he hc hE _ rid _ _ _ _ hl
  · unfold rmP5; split
    · exact GT.nil _ _
    · exact GT.cidrs he hc hE _ rid _ _ _ _ hl
  · unfold rmP7; split
    · exact GT.nil _ _
    · exact GT.setOr hc rid _ _ _ i3 hl
  · unfold rmP9; split
    · exact GT.nil _ _
    · exact GT.ports he hc hE hNP rid _ _ _ _ _ q1 i6 hl
  · unfold rmP10; split
    · exact GT.nil _ _
    · exact GT.ports he hc hE hNP rid _ _ _ _ _ q2 i7 hl
  · unfold rmP11; split
    · exact GT.nil _ _
    · exact GT.ports he hc hE hNP rid _ _ _ _ _ q3 i8 hl
  · unfold rmP12; split
    · exact GT.nil _ _
    · exact GT.ports he hc hE hNP rid _ _ _ _ _ q4 i9 hl

theorem GT.matches {E : List Label} (he : ChainEnv env nmax) (hc : SetCtx env st) (hE : EOK xdp E) (hNP : NoPart E)
    (rid : Nat) (r : Rule) (hok : RuleOK r) (leg : Leg) (hl : Label.ruleNoMatch rid ∈ E) :
    GT env st xdp nmax .none .none E (ruleMatches env.c rid r leg) := by
  obtain ⟨i1, i2, i3, i4, i5, i6, i7, i8, i9⟩ := mem_ids hok
  obtain ⟨h2, h3, h4, h5, h7, h9, h10, h11, h12⟩ := GT.rmP he hc hE hNP rid r hok leg hl
  rw [ruleMatches_eq]
  simp only [List.map_append]
  exact ((((((((((((((GT.proto hc rid false _ hok.proto hl).append (GT.proto hc rid true _ hok.notProto hl)).append
    h2).append h3).append h4).append h5).append ((GT.sets hc rid false _ _ i1 hl).append
      (GT.sets hc rid true _ _ i2 hl))).append h7).append
    ((GT.sets hc rid true _ _ i4 hl).append (GT.sets hc rid false _ _ i5 hl))).append h9).append
    h10).append h11).append h12).append ((GT.icmp hc rid false _ hl).append (GT.icmp hc rid true _ hl)))

theorem decides_recordJump (id : Nat) (a : Label) :
    Decides env st (recordRuleID id a ++ [jump a]) (some a) := by
  intro rest m hI
  obtain ⟨m', hI', e⟩ := lrun_record env st id a ([jump a] ++ rest) m hI
  refine ⟨m', hI', ?_⟩
  rw [List.append_assoc]
  rcases e with e | e
  · rw [e]; simp only [List.cons_append, List.nil_append]; rw [lrun_jump]
  · rw [e]; simp only [List.cons_append, List.nil_append]; unfold jump mkJ; rw [goto_cons_jmp]

theorem live_record (id : Nat) (a : Label) :
    Live (recordRuleID id a ++ [jump a]) = true ∧ ∃ i, Ev.jmp i a ∈ recordRuleID id a ++ [jump a] := by
  refine ⟨?_, ⟨⟨opJumpA, 0, 0, 0, 0⟩, by simp [jump, mkJ]⟩⟩
  simp [recordRuleID, loadImm64, Live, Ev.isLabel, Ev.uncond, load8, jumpGEImm64, mov64, addImm64, store8, shiftLImm64,
    add64, store64, jump, mk, mkJ, opLoadReg8, opJumpGEImm64, opMov64, opAddImm64, opStoreReg8, opShiftLImm64,
    opLoadImm64, opLoadImm64Pt2, opAdd64, opStoreReg64, opJumpA, opExit]

theorem live_log : Live logEvs = true ∧ MayFall logEvs = true := by
  constructor <;>
    simp [logEvs, Live, MayFall, Ev.isLabel, Ev.uncond, load64, orImm64, store64, mk, opLoadReg64, opOrImm64, opStoreReg64,
      opJumpA, opExit]

/-- `writeEndOfRule`: defines (and exposes) the rule's no-match label. -/
theorem GA.endOfRule {E : List Label} {S : List BEv} (rid id : Nat) (a : Label) (ha : a = .log ∨ a ∈ E)
    (h : GA env st xdp nmax E .none S) :
    GA env st xdp nmax (Label.ruleNoMatch rid :: E) .none ((endOfRule env.c rid id a).map BEv.ev ++ S) := by
  have h1 := GA.label' (.ruleNoMatch rid) rfl h
  rw [endOfRule_eq]
  by_cases hl : a = .log
  · simp only [hl, if_true, List.map_append, List.map_cons, List.map_nil, List.append_assoc, List.cons_append,
      List.nil_append]
    exact GA.piece logEvs none ((decides_log env st).toC .none) live_log.1 (fun _ => live_log.2)
      (by intro l e; cases e) h1
  · have ha' : a ∈ Label.ruleNoMatch rid :: E := by
      rcases ha with e | e
      · exact absurd e hl
      · exact List.mem_cons_of_mem _ e
    by_cases hr : env.c.record = true
    · simp only [hl, hr, if_false, if_true, List.map_append, List.map_cons, List.map_nil, List.append_assoc,
        List.cons_append, List.nil_append]
      have := GA.piece (recordRuleID id a ++ [jump a]) (some a) ((decides_recordJump id a).toC .none)
        (live_record id a).1 (by intro e; cases e)
        (by intro l e; cases e; exact ⟨(live_record id a).2, ha'⟩) h1
      simpa [List.map_append] using this
    · simp only [hl, hr, if_false, List.map_cons, List.map_nil, List.cons_append, List.nil_append]
      exact GT.jmp a ha' _ h1

/-- `writeRule`. -/
theorem GT.rule {E : List Label} (he : ChainEnv env nmax) (hc : SetCtx env st) (hE : EOK xdp E) (hNP : NoPart E)
    (rid : Nat) (r : Rule) (hok : RuleOK r) (a : Label) (leg : Leg) (ha : a = .log ∨ a ∈ E) :
    GT env st xdp nmax .none .none E (writeRule env.c rid r a leg).1 := by
  unfold writeRule
  cases hf : filterRule env.c.v6 r with
  | none => exact GT.marker0 he hE .none
  | some fr =>
    simp only
    intro S h
    have h1 := GA.endOfRule (env := env) (st := st) (xdp := xdp) (nmax := nmax) rid r.matchID a ha h
    have hE' : EOK xdp (Label.ruleNoMatch rid :: E) := hE.cons rfl
    have hNP' : NoPart (Label.ruleNoMatch rid :: E) := by
      intro r' k hm
      rcases List.mem_cons.1 hm with e | e
      · cases e
      · exact hNP r' k e
    have h2 := GT.matches he hc hE' hNP' rid fr (hok.filter hf) leg List.mem_cons_self _ h1
    have h3 := GT.marker0 he hE' .none _ h2
    have e : BEv.maybeSplit [] :: (ruleMatches env.c rid fr leg ++ (endOfRule env.c rid r.matchID a).map BEv.ev) ++ S =
        [BEv.maybeSplit []] ++ (ruleMatches env.c rid fr leg ++ ((endOfRule env.c rid r.matchID a).map BEv.ev ++ S)) := by
      simp
    rw [e]
    exact h3.mono (fun l hl => List.mem_cons_of_mem _ hl)

/-! ### Policies, tiers, profiles -/

theorem GT.policyRules {E : List Label} (he : ChainEnv env nmax) (hc : SetCtx env st) (hE : EOK xdp E) (hNP : NoPart E)
    (lab : String → Label) (leg : Leg) :
    ∀ (rs : List Rule) (rid : Nat), (∀ r ∈ rs, RuleOK r ∧ (lab r.action = .log ∨ lab r.action ∈ E)) →
      GT env st xdp nmax .none .none E (writePolicyRules env.c lab leg rs rid).1 := by
  intro rs
  induction rs with
  | nil => intro _ _; exact GT.nil _ _
  | cons r rs ih =>
    intro rid h
    simp only [writePolicyRules]
    obtain ⟨h1, h2⟩ := h r List.mem_cons_self
    exact (GT.rule he hc hE hNP rid r h1 _ leg h2).append (ih _ (fun r' hr' => h r' (List.mem_cons_of_mem _ hr')))

theorem GT.policies {E : List Label} (he : ChainEnv env nmax) (hc : SetCtx env st) (hE : EOK xdp E) (hNP : NoPart E)
    (lab : String → Label) (leg : Leg) :
    ∀ (ps : List Policy) (rid : Nat),
      (∀ pol ∈ ps, ∀ r ∈ pol.rules, RuleOK r ∧ (lab r.action = .log ∨ lab r.action ∈ E)) →
      GT env st xdp nmax .none .none E (writePolicies env.c lab leg ps rid).1 := by
  intro ps
  induction ps with
  | nil => intro _ _; exact GT.nil _ _
  | cons pol ps ih =>
    intro rid h
    simp only [writePolicies]
    exact (GT.policyRules he hc hE hNP lab leg pol.rules rid (h pol List.mem_cons_self)).append
      (ih _ (fun p' hp' => h p' (List.mem_cons_of_mem _ hp')))

theorem emptyRule_ok (id : Nat) : RuleOK { action := "", matchID := id } := by
  refine ⟨?_, ?_, ?_, ?_⟩
  · intro pr h; cases h
  · intro pr h; cases h
  · intro i h; simp [Rule.ipSetIDs] at h
  · intro pr h; simp at h

theorem NoPart.cons {E : List Label} (h : NoPart E) {l : Label} (hl : ∀ r k, l ≠ .rulePart r k) : NoPart (l :: E) := by
  intro r k hm
  rcases List.mem_cons.1 hm with e | e
  · exact hl r k e.symm
  · exact h r k e

/-- `writeTiers`. -/
theorem GT.tiers {E : List Label} (he : ChainEnv env nmax) (hc : SetCtx env st) (hE : EOK xdp E) (hNP : NoPart E)
    (leg : Leg) (al : Label) (hal : al ∈ E) (hd : Label.deny ∈ E) :
    ∀ (ts : List Tier) (rid tid : Nat), TiersGood ts →
      GT env st xdp nmax .none .none E (writeTiers env.c leg al ts rid tid).1 := by
  intro ts
  induction ts with
  | nil => intro _ _ _; exact GT.nil _ _
  | cons t ts ih =>
    intro rid tid h
    have hshape : (writeTiers env.c leg al (t :: ts) rid tid).1 =
        ((writePolicies env.c (tierActionLabel al tid) leg t.policies rid).1 ++
          (writeRule env.c (writePolicies env.c (tierActionLabel al tid) leg t.policies rid).2
            { action := "", matchID := t.endRuleID } (tierEndLabel t tid) leg).1) ++
        ([BEv.ev (.label (.endOfTier tid))] ++
        (writeTiers env.c leg al ts
          (writeRule env.c (writePolicies env.c (tierActionLabel al tid) leg t.policies rid).2
            { action := "", matchID := t.endRuleID } (tierEndLabel t tid) leg).2 (tid + 1)).1) := by
      simp only [writeTiers, tierEndLabel]
      cases t.endAction <;> simp
    rw [hshape]
    intro S hS
    have hrest := ih (writeRule env.c (writePolicies env.c (tierActionLabel al tid) leg t.policies rid).2
            { action := "", matchID := t.endRuleID } (tierEndLabel t tid) leg).2 (tid + 1)
      (fun t' ht' => h t' (List.mem_cons_of_mem _ ht')) S hS
    have h1 := GA.label' (.endOfTier tid) rfl hrest
    have hE1 : EOK xdp (Label.endOfTier tid :: E) := hE.cons rfl
    have hNP1 : NoPart (Label.endOfTier tid :: E) := hNP.cons (by intro r k e; cases e)
    have hend : tierEndLabel t tid = .log ∨ tierEndLabel t tid ∈ Label.endOfTier tid :: E := by
      right
      have : tierEndLabel t tid = .endOfTier tid ∨ tierEndLabel t tid = .deny := by
        unfold tierEndLabel; cases t.endAction <;> simp
      rcases this with e | e
      · rw [e]; exact List.mem_cons_self
      · rw [e]; exact List.mem_cons_of_mem _ hd
    have h2 := GT.rule he hc hE1 hNP1 (writePolicies env.c (tierActionLabel al tid) leg t.policies rid).2
      { action := "", matchID := t.endRuleID } (emptyRule_ok _) (tierEndLabel t tid) leg hend
    have h3 := GT.policies he hc hE1 hNP1 (tierActionLabel al tid) leg t.policies rid (by
      intro pol hp r hr
      obtain ⟨ha, hok⟩ := h t List.mem_cons_self pol hp r hr
      refine ⟨hok, ?_⟩
      rcases tierLabel_mem al tid r ha with e | e | e | e
      · exact Or.inl e
      · exact Or.inr (by rw [e]; exact List.mem_cons_of_mem _ hal)
      · exact Or.inr (by rw [e]; exact List.mem_cons_of_mem _ hd)
      · exact Or.inr (by rw [e]; exact List.mem_cons_self))
    have := (h3.append h2) _ h1
    rw [List.append_assoc]
    simp only [List.cons_append, List.nil_append] at this ⊢
    exact this.mono (fun l hl => List.mem_cons_of_mem _ hl)

/-- `writeProfiles`. -/
theorem GT.profiles {E : List Label} (he : ChainEnv env nmax) (hc : SetCtx env st) (hE : EOK xdp E) (hNP : NoPart E)
    (al : Label) (hal : al ∈ E) (hd : Label.deny ∈ E) (ps : List Policy) (noMatchID rid : Nat) (h : ProfsGood ps) :
    GT env st xdp nmax .none .none E (writeProfiles env.c al ps noMatchID rid).1 := by
  simp only [writeProfiles]
  refine GT.append ?_ (GT.rule he hc hE hNP _ _ (emptyRule_ok _) .deny .dest (Or.inr hd))
  refine GT.policies he hc hE hNP _ _ ps rid ?_
  intro pol hp r hr
  obtain ⟨ha, hok⟩ := h pol hp r hr
  refine ⟨hok, ?_⟩
  rcases profileLabel_mem al r ha with e | e | e
  · exact Or.inl e
  · exact Or.inr (by rw [e]; exact hal)
  · exact Or.inr (by rw [e]; exact hd)

/-! ### Host part, workload part, the whole policy body -/

theorem GT.tofh {E : List Label} (hc : SetCtx env st) (l : Label) (hl : l ∈ E) :
    GT env st xdp nmax .none .none E ((jumpIfToOrFromHost l).map BEv.ev) := by
  refine GT.ofHit _ l ⟨_, decides_tofh env st hc.len l⟩ ?_ ?_ ⟨⟨opJumpNEImm64, R1, 0, 0, 0⟩, ?_⟩ hl <;>
    simp [jumpIfToOrFromHost, Live, MayFall, Ev.isLabel, Ev.uncond, load64, andImm64, jumpNEImm64, mk, mkJ, opLoadReg64,
      opAndImm64, opJumpNEImm64, opJumpA, opExit]

theorem GT.workload {E : List Label} (he : ChainEnv env nmax) (hc : SetCtx env st) (hE : EOK xdp E) (hNP : NoPart E)
    (r : Rules) (rid tid : Nat) (ha : Label.allow ∈ E) (hd : Label.deny ∈ E)
    (hT : TiersGood r.tiers) (hP : ProfsGood r.profiles) :
    GT env st xdp nmax .none .none E (workloadPart env.c r rid tid) := by
  unfold workloadPart
  by_cases hh : r.forHostInterface = true
  · simp only [hh, if_true]
    exact GT.jmp .allow ha
  · have hh' : r.forHostInterface = false := by simpa using hh
    simp only [hh', Bool.false_eq_true, if_false]
    exact (GT.tiers he hc hE hNP .dest .allow ha hd r.tiers rid tid hT).append
      (GT.profiles he hc hE hNP .allow ha hd r.profiles _ _ hP)

theorem bodyish_AHP : AHP.bodyish = true := rfl
theorem bodyish_TOFH : TOFH.bodyish = true := rfl

theorem GT.host {E : List Label} (he : ChainEnv env nmax) (hc : SetCtx env st) (hE : EOK xdp E) (hNP : NoPart E)
    (r : Rules) (hd : Label.deny ∈ E) (hx : r.forXDP = true → Label.xdpPass ∈ E)
    (hHP : TiersGood r.hostPreDnatTiers) (hHF : TiersGood r.hostForwardTiers) (hHN : TiersGood r.hostNormalTiers)
    (hPR : ProfsGood r.hostProfiles) :
    GT env st xdp nmax .none .none E (hostPart env.c r).1 := by
  intro S hS
  have h1 := GA.label' AHP bodyish_AHP hS
  have hE1 : EOK xdp (AHP :: E) := hE.cons bodyish_AHP
  have hNP1 : NoPart (AHP :: E) := hNP.cons (by intro r k e; cases e)
  have hA1 : AHP ∈ AHP :: E := List.mem_cons_self
  have hd1 : Label.deny ∈ AHP :: E := List.mem_cons_of_mem _ hd
  have mono1 : ∀ {F : List BEv}, GA env st xdp nmax (AHP :: E) .none F → GA env st xdp nmax E .none F :=
    fun h => h.mono (fun l hl => List.mem_cons_of_mem _ hl)
  unfold hostPart
  by_cases h1x : r.forXDP = true
  · by_cases h2 : r.suppressNormalHostPolicy = true
    · simp only [h1x, h2, if_true, Bool.not_true, Bool.false_eq_true, if_false]
      exact mono1 h1
    · have h2' : r.suppressNormalHostPolicy = false := by simpa using h2
      simp only [h1x, h2', if_true, Bool.not_false]
      have hj := GT.jmp (env := env) (st := st) (xdp := xdp) (nmax := nmax) .xdpPass (List.mem_cons_of_mem _ (hx h1x)) _ h1
      have ht := GT.tiers he hc hE1 hNP1 .destPreNAT AHP hA1 hd1 r.hostNormalTiers 0 0 hHN _ hj
      have hl := GA.label' TOFH bodyish_TOFH ht
      have : (match writeTiers env.c Leg.destPreNAT Label.allowedByHostPolicy r.hostNormalTiers 0 0 with
          | (e, rid, tid) =>
            ([BEv.ev (Ev.label Label.toOrFromHost)] ++ e ++
              [BEv.ev (jump Label.xdpPass), BEv.ev (Ev.label Label.allowedByHostPolicy)], rid, tid)).1 ++ S =
          BEv.ev (Ev.label TOFH) :: ((writeTiers env.c Leg.destPreNAT AHP r.hostNormalTiers 0 0).1 ++
            ([BEv.ev (jump Label.xdpPass)] ++ BEv.ev (Ev.label AHP) :: S)) := by
        simp
      rw [this]
      exact mono1 (hl.mono (fun l hl' => List.mem_cons_of_mem _ hl'))
  · have h1' : r.forXDP = false := by simpa using h1x
    simp only [h1', Bool.false_eq_true, if_false]
    -- common prefix: pre-DNAT tiers, host check, forward tiers, goto allowed_by_host_policy
    by_cases h2 : r.suppressNormalHostPolicy = true
    · simp only [h2, if_true, Bool.not_true, Bool.false_eq_true, if_false]
      have hj := GT.jmp (env := env) (st := st) (xdp := xdp) (nmax := nmax) AHP hA1 _ h1
      have hf := GT.tiers he hc hE1 hNP1 .dest AHP hA1 hd1 r.hostForwardTiers
        (writeTiers env.c .destPreNAT AHP r.hostPreDnatTiers 0 0).2.1 (writeTiers env.c .destPreNAT AHP r.hostPreDnatTiers 0 0).2.2
        hHF _ hj
      have ht := GT.tofh (env := env) (st := st) (xdp := xdp) (nmax := nmax) hc AHP hA1 _ hf
      have hp := GT.tiers he hc hE1 hNP1 .destPreNAT AHP hA1 hd1 r.hostPreDnatTiers 0 0 hHP _ ht
      have : (match writeTiers env.c Leg.destPreNAT Label.allowedByHostPolicy r.hostPreDnatTiers 0 0 with
          | (e1, rid1, tid1) =>
            match writeTiers env.c Leg.dest Label.allowedByHostPolicy r.hostForwardTiers rid1 tid1 with
            | (e3, rid3, tid3) =>
              (e1 ++ List.map BEv.ev (jumpIfToOrFromHost Label.allowedByHostPolicy) ++ e3 ++
                [BEv.ev (jump Label.allowedByHostPolicy)] ++ [BEv.ev (Ev.label Label.allowedByHostPolicy)], rid3, tid3)).1 ++ S =
          (writeTiers env.c .destPreNAT AHP r.hostPreDnatTiers 0 0).1 ++ ((jumpIfToOrFromHost AHP).map BEv.ev ++
            ((writeTiers env.c .dest AHP r.hostForwardTiers (writeTiers env.c .destPreNAT AHP r.hostPreDnatTiers 0 0).2.1
              (writeTiers env.c .destPreNAT AHP r.hostPreDnatTiers 0 0).2.2).1 ++
              ([BEv.ev (jump AHP)] ++ BEv.ev (Ev.label AHP) :: S))) := by
        simp
      rw [this]
      exact mono1 hp
    · have h2' : r.suppressNormalHostPolicy = false := by simpa using h2
      simp only [h2', Bool.false_eq_true, if_false, Bool.not_false, if_true]
      have hE2 : EOK xdp (TOFH :: AHP :: E) := hE1.cons bodyish_TOFH
      have hNP2 : NoPart (TOFH :: AHP :: E) := hNP1.cons (by intro r k e; cases e)
      have hA2 : AHP ∈ TOFH :: AHP :: E := List.mem_cons_of_mem _ hA1
      have hd2 : Label.deny ∈ TOFH :: AHP :: E := List.mem_cons_of_mem _ hd1
      -- from the end: label AHP; host profiles; normal tiers; label TOFH; goto AHP; forward tiers; host check; pre-DNAT tiers
      generalize hw1 : writeTiers env.c .destPreNAT AHP r.hostPreDnatTiers 0 0 = w1
      generalize hw3 : writeTiers env.c .dest AHP r.hostForwardTiers w1.2.1 w1.2.2 = w3
      generalize hw5 : writeTiers env.c .dest AHP r.hostNormalTiers w3.2.1 w3.2.2 = w5
      generalize hw6 : writeProfiles env.c AHP r.hostProfiles r.noProfileMatchID w5.2.1 = w6
      have g6 := GT.profiles he hc hE1 hNP1 AHP hA1 hd1 r.hostProfiles r.noProfileMatchID w5.2.1 hPR _ h1
      rw [hw6] at g6
      have g5 := GT.tiers he hc hE1 hNP1 .dest AHP hA1 hd1 r.hostNormalTiers w3.2.1 w3.2.2 hHN _ g6
      rw [hw5] at g5
      have gl := GA.label' TOFH bodyish_TOFH g5
      have g4 := GT.jmp (env := env) (st := st) (xdp := xdp) (nmax := nmax) AHP hA2 _ gl
      have g3 := GT.tiers he hc hE2 hNP2 .dest AHP hA2 hd2 r.hostForwardTiers w1.2.1 w1.2.2 hHF _ g4
      rw [hw3] at g3
      have g2 := GT.tofh (env := env) (st := st) (xdp := xdp) (nmax := nmax) hc TOFH List.mem_cons_self _ g3
      have g1 := GT.tiers he hc hE2 hNP2 .destPreNAT AHP hA2 hd2 r.hostPreDnatTiers 0 0 hHP _ g2
      rw [hw1] at g1
      have fin := mono1 (g1.mono (fun l hl' => List.mem_cons_of_mem _ hl'))
      simpa [List.append_assoc] using fin

end

end CalicoVerif.C11
