import CalicoVerif.Proofs.C01DeclRun
import CalicoVerif.Props.C03
/-! C01 helper: the PolicyResolver end of the composition.

Inside the composed graph the resolver (`g.res`) is driven only through `Resolver.step` (endpoint /
policy / tier updates from the dispatcher, match started/stopped from the ARC's label index,
in-sync) and `Resolver.flush`; its `OnEndpointTierUpdate` calls are the only `endpointUpdate` calls
ever made on the EventSequencer.  Hence after ANY history the graph's resolver is the C03 model run
(`C03.runL`) on SOME resolver history, and the endpoint part of the declared state is that run's
"last emitted update" map — which is what C03's `resolver_eq_spec` talks about. -/
namespace CalicoVerif.C01
open CalicoVerif C02

/-- the calls that come from the PolicyResolver -/
def epCall : Call → Bool
  | .endpointUpdate _ _ => true
  | _ => false

/-- last emitted `OnEndpointTierUpdate` per endpoint, read off the call log -/
def lastOf (cs : List Call) : C03.Last := C03.lastAfter (fun _ => none) cs

theorem lastAfter_append (L : C03.Last) (a b : List Call) :
    C03.lastAfter L (a ++ b) = C03.lastAfter (C03.lastAfter L a) b := by
  simp [C03.lastAfter, List.foldl_append]

theorem lastAfter_cons (L : C03.Last) (c : Call) (t : List Call) :
    C03.lastAfter L (c :: t) = C03.lastAfter (C03.lastAfter L [c]) t := rfl

theorem lastAfter_quiet1 (L : C03.Last) {c : Call} (h : epCall c = false) : C03.lastAfter L [c] = L := by
  cases c <;> first | rfl | (simp [epCall] at h)

theorem lastAfter_quiet : ∀ (cs : List Call) (L : C03.Last), (∀ c ∈ cs, epCall c = false) → C03.lastAfter L cs = L
  | [], _, _ => rfl
  | c :: t, L, h => by
    rw [lastAfter_cons, lastAfter_quiet1 L (h c (List.mem_cons_self ..))]
    exact lastAfter_quiet t L (fun x hx => h x (List.mem_cons_of_mem _ hx))

/-- the endpoint part of a declared state, from a `Last` map -/
def epOfLast (L : C03.Last) (e : EpKey) : Option EpDown :=
  match L e with
  | some (some v) => some (epDown e v)
  | _ => none

theorem upApply_ep (u : DP) (L : C03.Last) (h : ∀ e, u.ep e = epOfLast L e) (c : Call) :
    ∀ e, (upApply u c).ep e = epOfLast (C03.lastAfter L [c]) e := by
  intro e
  cases c with
  | endpointUpdate k v =>
    cases v with
    | none =>
      simp only [upApply, fupd, C03.lastAfter, List.foldl_cons, List.foldl_nil, epOfLast]
      by_cases hk : e = k
      · simp [hk]
      · simp only [hk, if_false]; exact h e
    | some v =>
      simp only [upApply, fupd, C03.lastAfter, List.foldl_cons, List.foldl_nil, epOfLast]
      by_cases hk : e = k
      · subst hk; simp
      · simp only [hk, if_false]; exact h e
  | memberAdded id m =>
    rw [lastAfter_quiet1 L rfl]
    simp only [upApply]
    split <;> exact h e
  | memberRemoved id m =>
    rw [lastAfter_quiet1 L rfl]
    simp only [upApply]
    split <;> exact h e
  | _ => rw [lastAfter_quiet1 L rfl]; exact h e

theorem upAll_ep : ∀ (cs : List Call) (u : DP) (L : C03.Last), (∀ e, u.ep e = epOfLast L e) →
    ∀ e, (upAll u cs).ep e = epOfLast (C03.lastAfter L cs) e
  | [], _, _, h => h
  | c :: t, u, L, h => by
    rw [lastAfter_cons]
    exact upAll_ep t (upApply u c) _ (upApply_ep u L h c)

theorem decl_ep (g : Graph) (e : EpKey) : (decl g).ep e = epOfLast (lastOf g.calls) e :=
  upAll_ep g.calls {} (fun _ => none) (fun _ => rfl) e

/-! ### C03 run lemmas -/

theorem runL_append (a b : List C03.RStep) : ∀ (r : C03.Resolver) (L : C03.Last),
    C03.runL r L (a ++ b) = (C03.runL r L a).bind (fun p => C03.runL p.1 p.2 b) := by
  induction a with
  | nil => intro r L; rfl
  | cons st t ih =>
    intro r L
    cases st with
    | ev e => simp only [List.cons_append, C03.runL]; exact ih _ _
    | flush =>
      simp only [List.cons_append, C03.runL]
      cases r.flush with
      | none => rfl
      | some x => exact ih _ _

theorem histIn_append {K : PolicyKey → Prop} (a b : List C03.RStep) :
    C03.HistIn K (a ++ b) ↔ C03.HistIn K a ∧ C03.HistIn K b := by
  induction a with
  | nil => simp [C03.HistIn]
  | cons st t ih =>
    cases st with
    | ev e => simp only [List.cons_append, C03.HistIn, ih, and_assoc]
    | flush => simp only [List.cons_append, C03.HistIn, ih]

theorem dsHist_append (a b : List C03.RStep) : ∀ ds, C03.dsHist ds (a ++ b) = C03.dsHist (C03.dsHist ds a) b := by
  induction a with
  | nil => intro ds; rfl
  | cons st t ih =>
    intro ds
    cases st with
    | ev e => simp only [List.cons_append, C03.dsHist]; exact ih _
    | flush => simp only [List.cons_append, C03.dsHist]; exact ih _

theorem runL_evs (evs : List C03.Event) : ∀ (r : C03.Resolver) (L : C03.Last),
    C03.runL r L (evs.map .ev) = some (evs.foldl C03.Resolver.step r, L) := by
  induction evs with
  | nil => intro r L; rfl
  | cons e t ih => intro r L; simp only [List.map_cons, C03.runL, List.foldl_cons]; exact ih _ _

theorem histIn_evs {K : PolicyKey → Prop} (evs : List C03.Event) (h : ∀ e ∈ evs, C03.EventIn K e) :
    C03.HistIn K (evs.map .ev) := by
  induction evs with
  | nil => trivial
  | cons e t ih =>
    exact ⟨h e (List.mem_cons_self ..), ih (fun x hx => h x (List.mem_cons_of_mem _ hx))⟩

theorem dsHist_evs (evs : List C03.Event) (h : ∀ e ∈ evs, ∀ tds, C03.dsEvent tds e = tds) :
    ∀ ds, C03.dsHist ds (evs.map .ev) = ds := by
  induction evs with
  | nil => intro ds; rfl
  | cons e t ih =>
    intro ds
    simp only [List.map_cons, C03.dsHist]
    rw [h e (List.mem_cons_self ..)]
    exact ih (fun x hx => h x (List.mem_cons_of_mem _ hx)) ds

theorem eventIn_mono {K1 K2 : PolicyKey → Prop} (hk : ∀ k, K1 k → K2 k) {e : C03.Event} (h : C03.EventIn K1 e) :
    C03.EventIn K2 e := by
  cases e <;> first | exact hk _ h | trivial

/-! ### the relation tower: what a graph function does to the resolver -/

/-- the policy keys the graph knows (plus the zero key `polKey` falls back to) -/
def KG (g : Graph) (k : PolicyKey) : Prop := k = default ∨ ∃ n, mget g.polKeys n = some k

theorem kg_polKey (g : Graph) (n : Nat) : KG g (g.polKey n) := by
  unfold Graph.polKey
  cases h : mget g.polKeys n with
  | none => exact Or.inl rfl
  | some k => exact Or.inr ⟨n, h⟩

/-- a resolver event that changes neither the tier datastore nor the resolver's endpoint / policy tables
(match started / stopped, in-sync) -/
def Neutral (e : C03.Event) : Prop :=
  (∀ tds, C03.dsEvent tds e = tds) ∧
  ∀ r : C03.Resolver, (r.step e).endpoints = r.endpoints ∧ (r.step e).allPolicies = r.allPolicies

theorem neutral_matchStarted (p : PolicyKey) (e : EpKey) : Neutral (.matchStarted p e) := by
  refine ⟨fun _ => rfl, fun r => ?_⟩
  simp only [C03.Resolver.step]
  split <;> exact ⟨rfl, rfl⟩

theorem neutral_matchStopped (p : PolicyKey) (e : EpKey) : Neutral (.matchStopped p e) := by
  refine ⟨fun _ => rfl, fun r => ?_⟩
  simp only [C03.Resolver.step]
  split <;> exact ⟨rfl, rfl⟩

theorem neutral_status (b : Bool) : Neutral (.status b) := by
  refine ⟨fun _ => rfl, fun r => ?_⟩
  simp only [C03.Resolver.step]
  split <;> exact ⟨rfl, rfl⟩

structure ResRel (g g' : Graph) : Prop where
  keys : g'.polKeys = g.polKeys
  evs : ∃ evs : List C03.Event, (∀ e ∈ evs, C03.EventIn (KG g) e ∧ Neutral e) ∧
      g'.res = evs.foldl C03.Resolver.step g.res
  calls : ∃ cs, g'.calls = g.calls ++ cs ∧ ∀ c ∈ cs, epCall c = false

theorem ResRel.of_eq {g g' : Graph} (h1 : g'.res = g.res) (h2 : g'.polKeys = g.polKeys) (h3 : g'.calls = g.calls) :
    ResRel g g' := ⟨h2, ⟨[], by simp, h1⟩, ⟨[], by simp [h3], by simp⟩⟩

theorem ResRel.rfl' (g : Graph) : ResRel g g := ResRel.of_eq rfl rfl rfl

theorem ResRel.trans {a b c : Graph} (h1 : ResRel a b) (h2 : ResRel b c) : ResRel a c := by
  obtain ⟨e1, p1, r1⟩ := h1.evs
  obtain ⟨e2, p2, r2⟩ := h2.evs
  obtain ⟨c1, q1, n1⟩ := h1.calls
  obtain ⟨c2, q2, n2⟩ := h2.calls
  have hkg : KG b = KG a := by unfold KG; rw [h1.keys]
  refine ⟨h2.keys.trans h1.keys, ⟨e1 ++ e2, ?_, by rw [r2, r1, List.foldl_append]⟩,
    ⟨c1 ++ c2, by rw [q2, q1, List.append_assoc], ?_⟩⟩
  · intro e he
    rcases List.mem_append.mp he with h | h
    · exact p1 e h
    · have := p2 e h; rw [hkg] at this; exact this
  · intro c hc
    rcases List.mem_append.mp hc with h | h
    · exact n1 c h
    · exact n2 c h

/-- `trans` with the known step first (so that `of_eq rfl rfl rfl` elaborates against a known graph) -/
theorem ResRel.pre {a b c : Graph} (h2 : ResRel b c) (h1 : ResRel a b) : ResRel a c := h1.trans h2

theorem resRel_foldl {α : Type} (f : Graph → α → Graph) (hf : ∀ g a, ResRel g (f g a)) :
    ∀ (l : List α) (g : Graph), ResRel g (l.foldl f g)
  | [], g => ResRel.rfl' g
  | a :: l, g => (hf g a).trans (resRel_foldl f hf l (f g a))

theorem resRel_emit (g : Graph) (cs : List Call) (h : ∀ c ∈ cs, epCall c = false) : ResRel g (g.emit cs) := by
  refine ⟨?_, ⟨[], by simp, ?_⟩, ⟨cs, ?_, h⟩⟩ <;> (unfold Graph.emit; split <;> rfl)

theorem resRel_idxOp (g : Graph) (op : C04.Op Str) : ResRel g (g.idxOp op) := by
  unfold Graph.idxOp
  generalize C04.stepEvents matchSel g.idx op = r
  obtain ⟨idx, evs⟩ := r
  simp only []
  refine (ResRel.of_eq (g := g) (g' := { g with idx := idx, panicked := g.panicked || idx.panicked }) rfl rfl rfl).trans
    (resRel_emit _ _ ?_)
  intro c hc
  obtain ⟨e, _, he⟩ := List.mem_filterMap.mp hc
  cases e <;> simp [idxCall] at he <;> (subst he; rfl)

theorem resRel_onRsEvent (g : Graph) (e : RsEvent) : ResRel g (g.onRsEvent e) := by
  cases e with
  | ipsetActive uid d =>
    exact (resRel_emit _ _ (by intro c hc; simp at hc; subst hc; rfl)).trans (resRel_idxOp _ _)
  | ipsetInactive uid =>
    exact (resRel_idxOp _ _).trans (resRel_emit _ _ (by intro c hc; simp at hc; subst hc; rfl))

theorem resRel_rsUpdate (H : IdFn) (g : Graph) (key : RulesId) (r : Option RulesIn) :
    ResRel g (g.rsUpdate H key r) := by
  unfold Graph.rsUpdate
  simp only []
  exact ResRel.pre (resRel_foldl Graph.onRsEvent resRel_onRsEvent _ _) (ResRel.of_eq rfl rfl rfl)

theorem rulesCall_quiet (H : IdFn) (key : RulesId) (r : Option RulesIn) : epCall (rulesCall H key r) = false := by
  cases key <;> cases r <;> rfl

theorem resRel_scanRules (H : IdFn) (g : Graph) (key : RulesId) (r : Option RulesIn) :
    ResRel g (g.scanRules H key r) :=
  (resRel_rsUpdate H g key r).trans
    (resRel_emit _ _ (by intro c hc; simp at hc; subst hc; exact rulesCall_quiet H key r))

theorem resRel_profEvents (H : IdFn) (g : Graph) (evs : List (C05.Event RulesIn)) :
    ResRel g (g.profEvents H evs) := by
  unfold Graph.profEvents
  apply resRel_foldl
  intro g e
  cases e with
  | active p r => cases r <;> exact resRel_scanRules H g _ _
  | inactive p => exact resRel_scanRules H g _ _

theorem resRel_arcProfStep (H : IdFn) (g : Graph) (u : C05.Upd RulesIn) : ResRel g (g.arcProfStep H u) := by
  unfold Graph.arcProfStep
  exact ResRel.pre (resRel_profEvents H _ _) (ResRel.of_eq rfl rfl rfl)

theorem resRel_sendPolicyUpdate (H : IdFn) (g : Graph) (n : Nat) : ResRel g (g.sendPolicyUpdate H n) := by
  unfold Graph.sendPolicyUpdate
  split
  · split
    · exact resRel_scanRules H g _ _
    · exact ResRel.of_eq rfl rfl rfl
  · exact resRel_scanRules H g _ _

theorem resRel_resStep (g : Graph) (e : C03.Event) (he : C03.EventIn (KG g) e) (ht : Neutral e) :
    ResRel g (g.resStep e) :=
  ⟨rfl, ⟨[e], by intro x hx; simp at hx; subst hx; exact ⟨he, ht⟩, rfl⟩, ⟨[], by simp [Graph.resStep], by simp⟩⟩

theorem resRel_onMatchEvent (H : IdFn) (g : Graph) (e : C07.Event) : ResRel g (g.onMatchEvent H e) := by
  cases e with
  | started sel item =>
    simp only [Graph.onMatchEvent]
    refine ResRel.trans ?_ (resRel_resStep _ _ (kg_polKey _ sel) (neutral_matchStarted _ _))
    split
    · exact ResRel.pre (resRel_sendPolicyUpdate H _ _) (ResRel.of_eq rfl rfl rfl)
    · exact ResRel.of_eq rfl rfl rfl
  | stopped sel item =>
    simp only [Graph.onMatchEvent]
    refine ResRel.trans ?_ (resRel_resStep _ _ (kg_polKey _ sel) (neutral_matchStopped _ _))
    split
    · exact ResRel.pre (resRel_sendPolicyUpdate H _ _) (ResRel.of_eq rfl rfl rfl)
    · exact ResRel.of_eq rfl rfl rfl

theorem resRel_lblStep (H : IdFn) (g : Graph) (r : C07.Idx × List C07.Event) : ResRel g (g.lblStep H r) := by
  unfold Graph.lblStep
  exact ResRel.pre (resRel_foldl _ (resRel_onMatchEvent H) _ _) (ResRel.of_eq rfl rfl rfl)

theorem resRel_arcEndpoint (H : IdFn) (g : Graph) (nid : Nat) (key : EpKey) (v : Option EpVal) :
    ResRel g (g.arcEndpoint H nid key v) := by
  unfold Graph.arcEndpoint
  simp only []
  refine (resRel_arcProfStep H g (.endpoint (epKeyStr key) (v.map (·.profiles)))).trans ?_
  cases v <;> exact resRel_lblStep H _ _

theorem resRel_idxEndpoint (g : Graph) (key : EpKey) (v : Option EpVal) : ResRel g (g.idxEndpoint key v) := by
  unfold Graph.idxEndpoint; cases v <;> exact resRel_idxOp _ _

theorem resRel_idxNetset (g : Graph) (name : String) (v : Option NetSetVal) : ResRel g (g.idxNetset name v) := by
  unfold Graph.idxNetset; cases v <;> exact resRel_idxOp _ _

theorem resRel_profLabels (H : IdFn) (g : Graph) (pid : String) (v : Option C04.Labels) :
    ResRel g (g.profLabels H pid v) := by
  unfold Graph.profLabels
  cases v <;> exact (resRel_lblStep H _ _).trans (resRel_idxOp _ _)

theorem resRel_arcPolicyChanged (H : IdFn) (g : Graph) (nid : Nat) (pv : PolVal) :
    ResRel g (g.arcPolicyChanged H nid pv) := by
  unfold Graph.arcPolicyChanged
  simp only []
  have inner : ∀ g1 : Graph, ResRel g1 (match C06.parse pv.sel with
      | .error _ => { g1 with panicked := true }
      | .ok sel =>
        if (g1.lblStep H (C07.updateSelector g1.lbl nid sel)).polActive nid then
          (g1.lblStep H (C07.updateSelector g1.lbl nid sel)).sendPolicyUpdate H nid
        else g1.lblStep H (C07.updateSelector g1.lbl nid sel)) := by
    intro g1
    split
    · exact ResRel.of_eq rfl rfl rfl
    · rename_i sel _
      refine (resRel_lblStep H g1 (C07.updateSelector g1.lbl nid sel)).trans ?_
      split
      · exact resRel_sendPolicyUpdate H _ _
      · exact ResRel.rfl' _
  have h0 : ResRel g { g with allPolicies := C02.mset nid pv g.allPolicies } := ResRel.of_eq rfl rfl rfl
  exact h0.trans (inner _)

theorem resRel_arcPolicy (H : IdFn) (g : Graph) (nid : Nat) (v : Option PolVal) :
    ResRel g (g.arcPolicy H nid v) := by
  unfold Graph.arcPolicy
  cases v with
  | none =>
    simp only []
    have h0 : ResRel g { g with allPolicies := C02.mdel nid g.allPolicies } := ResRel.of_eq rfl rfl rfl
    exact h0.trans (resRel_lblStep H _ _)
  | some pv =>
    simp only []
    split
    · exact ResRel.rfl' g
    · exact resRel_arcPolicyChanged H g nid pv

/-! ### the invariant: the graph's resolver is a C03 run -/

/-- `K` = the policy keys in play.  The graph's resolver is the C03 model after SOME resolver history
over `K`; the endpoint updates in the call log are that run's last-emitted map; `tds` is the tier
datastore of that history. -/
structure RInv (K : PolicyKey → Prop) (g : Graph) (tds : C03.TierDS) : Prop where
  kdef : K default
  keys : ∀ n k, mget g.polKeys n = some k → K k
  log : ∃ hist, C03.HistIn K hist ∧ C03.runL {} (fun _ => none) hist = some (g.res, lastOf g.calls) ∧
    C03.dsHist [] hist = tds

theorem RInv.kg {K : PolicyKey → Prop} {g : Graph} {tds : C03.TierDS} (hi : RInv K g tds) : ∀ k, KG g k → K k := by
  intro k hk
  rcases hk with rfl | ⟨n, hn⟩
  · exact hi.kdef
  · exact hi.keys n k hn

/-- append resolver events (that `K` allows) to the log -/
theorem rInv_evs {K : PolicyKey → Prop} {g g' : Graph} {tds : C03.TierDS} (hi : RInv K g tds)
    (hk : g'.polKeys = g.polKeys) (evs : List C03.Event) (hin : ∀ e ∈ evs, C03.EventIn K e)
    (hres : g'.res = evs.foldl C03.Resolver.step g.res) (hl : lastOf g'.calls = lastOf g.calls) :
    RInv K g' (C03.dsHist tds (evs.map .ev)) := by
  obtain ⟨hist, h1, h2, h3⟩ := hi.log
  refine ⟨hi.kdef, by rw [hk]; exact hi.keys, hist ++ evs.map .ev, ?_, ?_, ?_⟩
  · exact (histIn_append _ _).mpr ⟨h1, histIn_evs evs hin⟩
  · rw [runL_append, h2]
    simp only [Option.bind_some]
    rw [runL_evs, hres, hl]
  · rw [dsHist_append, h3]

theorem rInv_rel {K : PolicyKey → Prop} {g g' : Graph} {tds : C03.TierDS} (hi : RInv K g tds) (hr : ResRel g g') :
    RInv K g' tds := by
  obtain ⟨evs, p, r⟩ := hr.evs
  obtain ⟨cs, q, n⟩ := hr.calls
  have := rInv_evs hi hr.keys evs (fun e he => eventIn_mono hi.kg (p e he).1) r
    (by unfold lastOf; rw [q, lastAfter_append, lastAfter_quiet cs _ n])
  rw [dsHist_evs evs (fun e he => (p e he).2.1)] at this
  exact this

/-- the policy keys an update mentions are in `K` -/
def UpdIn (K : PolicyKey → Prop) : Upd → Prop
  | .policy _ key _ => K key
  | _ => True

/-- the tier datastore after an update -/
def tdsApply (tds : C03.TierDS) : Upd → C03.TierDS
  | .tier name v => C03.dsTier tds name v
  | _ => tds

theorem rInv_step (H : IdFn) {K : PolicyKey → Prop} {g : Graph} {tds : C03.TierDS} (hi : RInv K g tds) (u : Upd)
    (hu : UpdIn K u) : RInv K (g.step H u) (tdsApply tds u) := by
  cases u with
  | endpoint nid key isLocal v =>
    simp only [Graph.step, tdsApply]
    have hi1 : RInv K { g with epKeys := C02.mset nid key g.epKeys } tds := ⟨hi.kdef, hi.keys, hi.log⟩
    refine rInv_rel ?_ (resRel_idxEndpoint _ key v)
    split
    · have hi2 := rInv_rel hi1 (resRel_arcEndpoint H _ nid key v)
      exact rInv_evs (g' := Graph.localEndpoint H { g with epKeys := C02.mset nid key g.epKeys } nid key v) hi2 rfl
        [.endpoint key (v.map (fun e => ⟨e.tag, e.profiles⟩))] (by intro e he; simp at he; subst he; trivial) rfl rfl
    · exact hi1
  | netset name v => exact rInv_rel hi (resRel_idxNetset g name v)
  | profLabels pid v => exact rInv_rel hi (resRel_profLabels H g pid v)
  | profRules pid v => exact rInv_rel hi (resRel_arcProfStep H g _)
  | tier name v =>
    simp only [Graph.step, tdsApply]
    exact rInv_evs (g' := g.resStep (.tier name v)) hi rfl [.tier name v] (by intro e he; simp at he; subst he; trivial) rfl rfl
  | policy nid key v =>
    simp only [Graph.step, tdsApply]
    have hi1 : RInv K { g with polKeys := C02.mset nid key g.polKeys } tds := by
      refine ⟨hi.kdef, ?_, hi.log⟩
      intro n k hn
      simp only [] at hn
      rw [mget_mset] at hn
      by_cases h : n = nid
      · simp only [h, if_true, Option.some.injEq] at hn; subst hn; exact hu
      · simp only [h, if_false] at hn; exact hi.keys n k hn
    have hi2 := rInv_rel hi1 (resRel_arcPolicy H _ nid v)
    exact rInv_evs (g' := (Graph.arcPolicy H { g with polKeys := C02.mset nid key g.polKeys } nid v).resStep
        (.policy key (v.map (·.pmeta)))) hi2 rfl
      [.policy key (v.map (·.pmeta))] (by intro e he; simp at he; subst he; exact hu) rfl rfl
  | passthru c key v =>
    exact rInv_rel hi (resRel_emit g _ (by intro x hx; simp at hx; subst hx; cases v <;> rfl))
  | other => exact hi

theorem rInv_inSync {K : PolicyKey → Prop} {g : Graph} {tds : C03.TierDS} (hi : RInv K g tds) : RInv K g.inSync tds :=
  rInv_rel hi ⟨rfl, ⟨[.status true], by intro x hx; simp at hx; subst hx; exact ⟨trivial, neutral_status true⟩, rfl⟩,
    ⟨[], by simp [Graph.inSync], by simp⟩⟩

/-- what `flushResolver` does when the resolver's flush succeeds -/
theorem flushResolver_some {g : Graph} {r : C03.Resolver} {calls : List Call} (h : g.res.flush = some (r, calls)) :
    g.flushResolver.res = r ∧ g.flushResolver.calls = g.calls ++ calls ∧ g.flushResolver.polKeys = g.polKeys := by
  unfold Graph.flushResolver
  rw [h]
  simp only []
  refine ⟨?_, ?_, ?_⟩ <;> (unfold Graph.emit; split <;> rfl)

theorem rInv_flushResolver {K : PolicyKey → Prop} {g : Graph} {tds : C03.TierDS} (hi : RInv K g tds) :
    RInv K g.flushResolver tds := by
  cases hf : g.res.flush with
  | none =>
    have : g.flushResolver = { g with panicked := true } := by unfold Graph.flushResolver; rw [hf]
    rw [this]
    exact ⟨hi.kdef, hi.keys, hi.log⟩
  | some x =>
    obtain ⟨r, calls⟩ := x
    obtain ⟨e1, e2, e3⟩ := flushResolver_some hf
    obtain ⟨hist, h1, h2, h3⟩ := hi.log
    refine ⟨hi.kdef, by rw [e3]; exact hi.keys, hist ++ [.flush], ?_, ?_, ?_⟩
    · exact (histIn_append _ _).mpr ⟨h1, trivial⟩
    · rw [runL_append, h2]
      simp only [Option.bind_some, C03.runL, hf]
      rw [e1, e2]
      unfold lastOf
      rw [lastAfter_append]
    · rw [dsHist_append, h3]; rfl

theorem rInv_flush {K : PolicyKey → Prop} {g : Graph} {tds : C03.TierDS} (hi : RInv K g tds) : RInv K g.flush.1 tds := by
  rw [flush_eq]
  have := rInv_flushResolver hi
  exact ⟨this.kdef, this.keys, this.log⟩

/-- the policy keys a history mentions are in `K` -/
def StepIn (K : PolicyKey → Prop) : HStep → Prop
  | .upd u => UpdIn K u
  | _ => True

/-- the tier datastore at the end of a history -/
def tdsRun (tds : C03.TierDS) (h : List HStep) : C03.TierDS :=
  h.foldl (fun t st => match st with
    | .upd u => tdsApply t u
    | _ => t) tds

theorem rInv_run (H : IdFn) {K : PolicyKey → Prop} : ∀ (h : List HStep) {g : Graph} {tds : C03.TierDS},
    RInv K g tds → (∀ st ∈ h, StepIn K st) → RInv K (run H g h).1 (tdsRun tds h)
  | [], _, _, hi, _ => hi
  | .upd u :: t, g, tds, hi, hin => by
    simp only [run, tdsRun, List.foldl_cons]
    exact rInv_run H t (rInv_step H hi u (hin _ (List.mem_cons_self ..))) (fun st hst => hin st (List.mem_cons_of_mem _ hst))
  | .inSync :: t, g, tds, hi, hin => by
    simp only [run, tdsRun, List.foldl_cons]
    exact rInv_run H t (rInv_inSync hi) (fun st hst => hin st (List.mem_cons_of_mem _ hst))
  | .flush :: t, g, tds, hi, hin => by
    simp only [run, tdsRun, List.foldl_cons]
    exact rInv_run H t (rInv_flush hi) (fun st hst => hin st (List.mem_cons_of_mem _ hst))

theorem rInv_new (K : PolicyKey → Prop) (hd : K default) (s : Bool) : RInv K (Graph.new s) [] :=
  ⟨hd, by intro n k h; simp [Graph.new, mget] at h, [], trivial, rfl, rfl⟩

theorem tdsRun_lastState (h : List HStep) : ∀ (ds : DS),
    (h.foldl (fun ds st => match st with
      | .upd u => ds.apply u
      | _ => ds) ds).tiers = tdsRun ds.tiers h := by
  induction h with
  | nil => intro ds; rfl
  | cons st t ih =>
    intro ds
    simp only [List.foldl_cons, tdsRun]
    rw [ih]
    cases st with
    | upd u =>
      cases u with
      | tier name v => cases v <;> rfl
      | _ => rfl
    | _ => rfl

/-! ### in-sync is sticky -/

theorem step_inSync_mono {r : C03.Resolver} (e : C03.Event) (h : r.inSync = true) : (r.step e).inSync = true := by
  cases h' : (r.step e).inSync with
  | true => rfl
  | false => rw [C03.step_inSync_false e h'] at h; cases h

theorem foldl_inSync_mono (evs : List C03.Event) : ∀ {r : C03.Resolver}, r.inSync = true →
    (evs.foldl C03.Resolver.step r).inSync = true := by
  induction evs with
  | nil => intro r h; exact h
  | cons e t ih => intro r h; exact ih (step_inSync_mono e h)

/-- the resolver is only ever stepped -/
def ResEvs (g g' : Graph) : Prop := ∃ evs : List C03.Event, g'.res = evs.foldl C03.Resolver.step g.res

theorem ResEvs.of_eq {g g' : Graph} (h : g'.res = g.res) : ResEvs g g' := ⟨[], h⟩
theorem ResEvs.trans {a b c : Graph} (h1 : ResEvs a b) (h2 : ResEvs b c) : ResEvs a c := by
  obtain ⟨e1, r1⟩ := h1
  obtain ⟨e2, r2⟩ := h2
  exact ⟨e1 ++ e2, by rw [r2, r1, List.foldl_append]⟩
theorem ResEvs.of_rel {g g' : Graph} (h : ResRel g g') : ResEvs g g' := by
  obtain ⟨evs, _, r⟩ := h.evs
  exact ⟨evs, r⟩
theorem ResEvs.resStep (g : Graph) (e : C03.Event) : ResEvs g (g.resStep e) := ⟨[e], rfl⟩

theorem resEvs_step (H : IdFn) (g : Graph) (u : Upd) : ResEvs g (g.step H u) := by
  cases u with
  | endpoint nid key isLocal v =>
    simp only [Graph.step]
    refine ResEvs.trans ?_ (ResEvs.of_rel (resRel_idxEndpoint _ key v))
    split
    · exact (ResEvs.of_eq (g := g) (g' := { g with epKeys := C02.mset nid key g.epKeys }) rfl).trans
        ((ResEvs.of_rel (resRel_arcEndpoint H _ nid key v)).trans (ResEvs.resStep _ _))
    · exact ResEvs.of_eq rfl
  | netset name v => exact ResEvs.of_rel (resRel_idxNetset g name v)
  | profLabels pid v => exact ResEvs.of_rel (resRel_profLabels H g pid v)
  | profRules pid v => exact ResEvs.of_rel (resRel_arcProfStep H g (.profileRules pid v))
  | tier name v => exact ResEvs.resStep g _
  | policy nid key v =>
    simp only [Graph.step]
    exact (ResEvs.of_eq (g := g) (g' := { g with polKeys := C02.mset nid key g.polKeys }) rfl).trans
      ((ResEvs.of_rel (resRel_arcPolicy H _ nid v)).trans (ResEvs.resStep _ _))
  | passthru c key v =>
    exact ResEvs.of_rel (resRel_emit g _ (by intro x hx; simp at hx; subst hx; cases v <;> rfl))
  | other => exact ResEvs.of_eq rfl

theorem inSync_step (H : IdFn) {g : Graph} (h : g.res.inSync = true) (u : Upd) : (g.step H u).res.inSync = true := by
  obtain ⟨evs, r⟩ := resEvs_step H g u
  rw [r]
  exact foldl_inSync_mono evs h

theorem inSync_flush {g : Graph} (h : g.res.inSync = true) : g.flush.1.res.inSync = true := by
  rw [flush_eq]
  show g.flushResolver.res.inSync = true
  cases hf : g.res.flush with
  | none =>
    have : g.flushResolver = { g with panicked := true } := by unfold Graph.flushResolver; rw [hf]
    rw [this]; exact h
  | some x =>
    obtain ⟨r, calls⟩ := x
    rw [(flushResolver_some hf).1, C03.flush_inSync hf]
    exact h

theorem inSync_run (H : IdFn) : ∀ (h : List HStep) (g : Graph), (g.res.inSync = true ∨ HStep.inSync ∈ h) →
    (run H g h).1.res.inSync = true
  | [], g, hs => by
    rcases hs with hs | hs
    · exact hs
    · cases hs
  | .upd u :: t, g, hs => by
    simp only [run]
    refine inSync_run H t _ ?_
    rcases hs with hs | hs
    · exact Or.inl (inSync_step H hs u)
    · cases hs with
      | tail _ h => exact Or.inr h
  | .inSync :: t, g, _ => by
    simp only [run]
    refine inSync_run H t _ (Or.inl ?_)
    show (g.res.step (.status true)).inSync = true
    simp only [C03.Resolver.step]
    cases h : g.res.inSync <;> simp [h]
  | .flush :: t, g, hs => by
    simp only [run]
    refine inSync_run H t _ ?_
    rcases hs with hs | hs
    · exact Or.inl (inSync_flush hs)
    · cases hs with
      | tail _ h => exact Or.inr h

theorem run_snoc_flush (H : IdFn) : ∀ (h : List HStep) (g : Graph),
    (run H g (h ++ [.flush])).1 = (run H g h).1.flush.1
  | [], g => by simp [run]
  | .upd u :: t, g => by simp only [List.cons_append, run]; exact run_snoc_flush H t _
  | .inSync :: t, g => by simp only [List.cons_append, run]; exact run_snoc_flush H t _
  | .flush :: t, g => by simp only [List.cons_append, run]; exact run_snoc_flush H t _

/-- THE RESOLVER END.  For every history over policy keys `K` (pairwise different tie-break strings)
that contains the in-sync signal, after the final flush: the resolver's flush did not panic, and the
declared endpoint state is, per endpoint the resolver knows, the update `⟨data, l⟩` where `l`
satisfies C03's `IsSpec` for the FINAL tier datastore, the resolver's policy table and its match
relation; endpoints the resolver does not know are absent. -/
theorem declared_endpoints_isSpec (H : IdFn) (s : Bool) (h : List HStep) (K : PolicyKey → Prop) (hK : C03.KeyU K)
    (hd : K default) (hin : ∀ st ∈ h, StepIn K st) (hs : HStep.inSync ∈ h) (e : EpKey) :
    ((run H (Graph.new s) h).1.res.flush).isSome = true ∧
    match mget (run H (Graph.new s) (h ++ [.flush])).1.res.endpoints e with
    | none => (decl (run H (Graph.new s) (h ++ [.flush])).1).ep e = none
    | some ep => ∃ l, (decl (run H (Graph.new s) (h ++ [.flush])).1).ep e = some (epDown e ⟨ep, l⟩) ∧
        C03.IsSpec (lastState h).tiers (run H (Graph.new s) (h ++ [.flush])).1.res.allPolicies
          (run H (Graph.new s) (h ++ [.flush])).1.res.matched e l := by
  have hi := rInv_run H h (rInv_new K hd s) hin
  have hsync := inSync_run H h (Graph.new s) (Or.inr hs)
  have htds : tdsRun [] h = (lastState h).tiers := (tdsRun_lastState h {}).symm
  rw [htds] at hi
  obtain ⟨hist, h1, h2, h3⟩ := hi.log
  obtain ⟨r, L, hr⟩ := C03.resolver_run_total K hK (hist ++ [.flush]) ((histIn_append hist [.flush]).mpr ⟨h1, trivial⟩)
  obtain ⟨r0, L0, calls, e0, hf, hL⟩ := C03.runL_append_flush hist hr
  rw [h2] at e0
  simp only [Option.some.injEq, Prod.mk.injEq] at e0
  obtain ⟨rfl, rfl⟩ := e0
  have hfin : (run H (Graph.new s) (h ++ [.flush])).1 =
      { (run H (Graph.new s) h).1.flushResolver with seq := (run H (Graph.new s) h).1.flushResolver.seq.flush.1 } := by
    rw [run_snoc_flush, flush_eq]
  obtain ⟨f1, f2, _⟩ := flushResolver_some hf
  have hres : (run H (Graph.new s) (h ++ [.flush])).1.res = r := by rw [hfin]; exact f1
  have hcalls : (run H (Graph.new s) (h ++ [.flush])).1.calls = (run H (Graph.new s) h).1.calls ++ calls := by
    rw [hfin]; exact f2
  refine ⟨by rw [hf]; rfl, ?_⟩
  have hlast : lastOf (run H (Graph.new s) (h ++ [.flush])).1.calls = L := by
    rw [hcalls, hL]; unfold lastOf; rw [lastAfter_append]
  have hsr : r.inSync = true := by rw [C03.flush_inSync hf]; exact hsync
  have spec := C03.resolver_eq_spec K hK hist h1 r L hr hsr e
  -- C03 states its result over folds of the history; these ARE the resolver's tables
  obtain ⟨t1, t2, t3⟩ := C03.runL_tables (hist ++ [.flush]) hr
  obtain ⟨a1, a2, a3⟩ := C03.tables_append_flush hist
  rw [a1] at t1; rw [a2] at t2; rw [a3] at t3
  rw [← t1, ← t2, ← t3] at spec
  rw [decl_ep, hlast, hres, ← h3]
  cases hm : mget r.endpoints e with
  | none =>
    rw [hm] at spec
    simp only [] at spec ⊢
    unfold epOfLast
    rcases spec with x | x <;> rw [x]
  | some ep =>
    rw [hm] at spec
    simp only [] at spec ⊢
    obtain ⟨l, hl, hspec⟩ := spec
    exact ⟨l, by unfold epOfLast; rw [hl], hspec⟩


/-! ### from the resolver's own tables to the datastore -/

/-- the policy metadata table of a datastore state (what `ExtractPolicyMetadata` gives per policy) -/
def DS.polMetas (ds : DS) : List (PolicyKey × PolMeta) :=
  ds.pols.map (fun p => (p.2.1, C03.extractPolicyMetadata p.2.2.pmeta))

/-- the policy keys a history mentions (plus the zero key) -/
def histKeys (h : List HStep) (k : PolicyKey) : Prop := k = default ∨ ∃ nid v, HStep.upd (.policy nid k v) ∈ h

theorem stepIn_histKeys (h : List HStep) : ∀ st ∈ h, StepIn (histKeys h) st := by
  intro st hst
  cases st with
  | upd u =>
    cases u with
    | policy nid key v => exact Or.inr ⟨nid, v, hst⟩
    | _ => trivial
  | _ => trivial

/-- `IsSpec` only looks at the policy table through `mget` and at the match relation through `∈` -/
theorem isSpec_congr {ds : C03.TierDS} {all all' : List (PolicyKey × PolMeta)} {matched matched' : List (PolicyKey × EpKey)}
    {e : EpKey} {l : List TierInfo} (h : C03.IsSpec ds all matched e l)
    (ha : ∀ p, mget all' p = mget all p) (hm : ∀ p, (p, e) ∈ matched' ↔ (p, e) ∈ matched) :
    C03.IsSpec ds all' matched' e l :=
  ⟨h.tiersSorted, h.nonEmpty, h.polSorted, h.attrs, fun p m => by rw [hm, ha]; exact h.exact p m, h.inTier, h.valid⟩

theorem mget_map_val {κ β γ : Type} [DecidableEq κ] (F : κ → β → γ) (m : List (κ × β)) (k : κ) :
    mget (m.map (fun e => (e.1, F e.1 e.2))) k = (mget m k).map (F k) := by
  induction m with
  | nil => rfl
  | cons p t ih =>
    obtain ⟨k', v⟩ := p
    simp only [List.map_cons, mget]
    by_cases hk : k' = k
    · subst hk; simp
    · simp only [hk, if_false]; exact ih

/-- ENDPOINTS (C03 plugged in): if the resolver's tables are the datastore's (`r1`, `r2a`, `r2b`) and the
specification's per-endpoint list satisfies C03's `IsSpec` (`r2c`), the declared endpoint state is the
specification's — by `resolver_eq_spec` (through `declared_endpoints_isSpec`) and
`isSpec_determines_list`. -/
theorem endpoints_of (H : IdFn) (s : Bool) (h : List HStep) (hK : C03.KeyU (histKeys h)) (hs : HStep.inSync ∈ h)
    (r1 : ∀ e, mget (run H (Graph.new s) (h ++ [.flush])).1.res.endpoints e =
      (mget (lastState h).localEps e).map (fun v => (⟨v.tag, v.profiles⟩ : EpData)))
    (r2a : ∀ k, mget (run H (Graph.new s) (h ++ [.flush])).1.res.allPolicies k = mget (lastState h).polMetas k)
    (r2b : ∀ p e, (p, e) ∈ (run H (Graph.new s) (h ++ [.flush])).1.res.matched ↔ (p, e) ∈ (lastState h).matched)
    (r2c : ∀ e, (mget (lastState h).localEps e).isSome = true →
      C03.IsSpec (lastState h).tiers (lastState h).polMetas (lastState h).matched e
        (C03.filterTiers (lastState h).matched e (lastState h).sortedTiers))
    (e : EpKey) :
    (decl (run H (Graph.new s) (h ++ [.flush])).1).ep e =
      (mget ((lastState h).localEps.map (fun x =>
        (x.1, (⟨⟨x.2.tag, x.2.profiles⟩, C03.filterTiers (lastState h).matched x.1 (lastState h).sortedTiers⟩ : EpUpd)))) e).map
        (epDown e) := by
  have spec := (declared_endpoints_isSpec H s h (histKeys h) hK (Or.inl rfl) (stepIn_histKeys h) hs e).2
  rw [mget_map_val (fun k (v : EpVal) =>
    (⟨⟨v.tag, v.profiles⟩, C03.filterTiers (lastState h).matched k (lastState h).sortedTiers⟩ : EpUpd))]
  rw [r1 e] at spec
  cases hm : mget (lastState h).localEps e with
  | none =>
    rw [hm] at spec
    simp only [Option.map_none] at spec ⊢
    exact spec
  | some v =>
    rw [hm] at spec
    simp only [Option.map_some] at spec ⊢
    obtain ⟨l, hl, hspec⟩ := spec
    have h2 := r2c e (by rw [hm]; rfl)
    have h1 := isSpec_congr hspec (fun p => (r2a p).symm) (fun p => (r2b p e).symm)
    rw [hl, C03.isSpec_determines_list h1 h2]

end CalicoVerif.C01
