import CalicoVerif.Proofs.C11GuardSet
import CalicoVerif.Proofs.C11Body
/-!
C11 — guard for the IPv4 CIDR fragment (`writeCIDRSMatch`): the byte-swapped
mask/compare the builder emits decides numeric CIDR membership.
-/
namespace CalicoVerif.C11

theorem sext_toInt32 (x : BitVec 32) : (sext32 x.toInt).setWidth 32 = x := by
  apply BitVec.eq_of_toNat_eq
  unfold sext32
  have := x.isLt
  simp only [BitVec.toNat_setWidth, BitVec.toNat_ofInt, BitVec.toInt_eq_toNat_cond]
  split <;> omega

theorem Leg.ipOff_eq (leg : Leg) : leg.ipOff = ((leg.ipo : Nat) : Int) := by cases leg <;> rfl
theorem Leg.portOff_eq (leg : Leg) : leg.portOff = ((leg.pto : Nat) : Int) := by cases leg <;> rfl
theorem Leg.ipo_le (leg : Leg) : leg.ipo + 4 ≤ 512 := by cases leg <;> simp [Leg.ipo]
theorem Leg.pto_le (leg : Leg) : leg.pto + 2 ≤ 512 := by cases leg <;> simp [Leg.pto]

theorem Leg.ipo_stable (leg : Leg) : ∀ j, leg.ipo ≤ j → j < leg.ipo + 4 → Stable j := by
  cases leg <;> (intro j h1 h2; simp only [Leg.ipo] at h1 h2; unfold Stable; omega)
theorem Leg.pto_stable (leg : Leg) : ∀ j, leg.pto ≤ j → j < leg.pto + 2 → Stable j := by
  cases leg <;> (intro j h1 h2; simp only [Leg.pto] at h1 h2; unfold Stable; omega)

theorem pkt_addr_head (st : List Byte) (leg : Leg) :
    ((pktOfD st).addr leg).headD 0 = BitVec.ofNat 32 (fieldN st leg.ipo 4) := by
  cases leg <;> rfl

theorem step_jeq32 (env : Env) (m : Mach) (d : Nat) (imm : Int) (v : Word) (hv : m.reg d = some v) :
    step env ⟨opJumpEqImm32, d, 0, 0, imm⟩ none m =
      if v.setWidth 32 == (sext32 imm).setWidth 32 then .taken m else .next m := by
  rw [step_jcond32 (env := env) opJumpEqImm32 d 0 imm none v (Or.inl rfl) hv]
  simp only [cond, opJumpEqImm32]
  cases (v.setWidth 32 == (sext32 imm).setWidth 32) <;> rfl

/-- The bit-level fact behind the CIDR test. -/
theorem cidr_test_iff (w m addr : BitVec 32) :
    ((rev32bv m &&& w) == rev32bv (addr &&& m)) = (rev32bv w &&& m == addr &&& m) := by
  rw [Bool.eq_iff_iff]
  simp only [beq_iff_eq]
  constructor
  · intro h
    have := congrArg rev32bv h
    rw [rev32bv_and, rev32bv_rev32bv, rev32bv_rev32bv] at this
    rw [BitVec.and_comm]; exact this
  · intro h
    have := congrArg rev32bv h
    rw [rev32bv_and] at this
    rw [← this, rev32bv_rev32bv, BitVec.and_comm]

/-- One CIDR test: jump to `P` iff the leg's address is in the CIDR. -/
theorem decides_cidrV4 (env : Env) (st : List Byte) (hlen : st.length = 512) (P : Label) (leg : Leg) (n : Net) :
    Decides env st (cidrV4 leg P n)
      (if netContains4 ((pktOfD st).addr leg) n then some P else none) := by
  intro rest m hI
  have rl : ∀ {mm : Mach}, Inv st mm → ∀ r, r < 11 → r < mm.regs.length := fun h r hr => by rw [h.regsLen]; exact hr
  have e1 := step_ldx_state (env := env) hI opLoadReg32 1 leg.ipo 4 0 (bs := (st.drop leg.ipo).take 4)
    (hop := Or.inr (Or.inr (Or.inl ⟨rfl, rfl⟩))) (hd := by omega) (hk := leg.ipo_le)
    (hb := getBytes_full hlen leg.ipo 4 leg.ipo_le) (hstab := leg.ipo_stable)
  have hI1 := hI.setReg 1 (BitVec.ofNat 64 (fieldN st leg.ipo 4)) (by omega) (by omega) (by omega)
  have hI2 := hI1.setReg 2 (((sext32 (rev32bv (mask32bv n.pfx)).toInt).setWidth 32).setWidth 64)
    (by omega) (by omega) (by omega)
  have hr2 : ((m.setReg 1 (BitVec.ofNat 64 (fieldN st leg.ipo 4))).setReg 2
      (((sext32 (rev32bv (mask32bv n.pfx)).toInt).setWidth 32).setWidth 64)).reg 2 = some _ :=
    reg_setReg_eq (rl hI1 2 (by omega))
  have hr1 : ((m.setReg 1 (BitVec.ofNat 64 (fieldN st leg.ipo 4))).setReg 2
      (((sext32 (rev32bv (mask32bv n.pfx)).toInt).setWidth 32).setWidth 64)).reg 1 =
      some (BitVec.ofNat 64 (fieldN st leg.ipo 4)) := by
    rw [reg_setReg_ne (by omega)]; exact reg_setReg_eq (rl hI 1 (by omega))
  have e3 := fun nxt => step_and32 env _ 2 1 0 0 nxt _ _ (by omega) hr2 hr1
  have hI3 := hI2.setReg 2 (((((sext32 (rev32bv (mask32bv n.pfx)).toInt).setWidth 32).setWidth 64).setWidth 32 &&&
    (BitVec.ofNat 64 (fieldN st leg.ipo 4)).setWidth 32).setWidth 64) (by omega) (by omega) (by omega)
  have e4 := step_jeq32 env (((m.setReg 1 (BitVec.ofNat 64 (fieldN st leg.ipo 4))).setReg 2
      (((sext32 (rev32bv (mask32bv n.pfx)).toInt).setWidth 32).setWidth 64)).setReg 2
      (((((sext32 (rev32bv (mask32bv n.pfx)).toInt).setWidth 32).setWidth 64).setWidth 32 &&&
        (BitVec.ofNat 64 (fieldN st leg.ipo 4)).setWidth 32).setWidth 64))
    2 (rev32bv (BitVec.ofNat 32 n.addr &&& mask32bv n.pfx)).toInt
    (((((sext32 (rev32bv (mask32bv n.pfx)).toInt).setWidth 32).setWidth 64).setWidth 32 &&&
        (BitVec.ofNat 64 (fieldN st leg.ipo 4)).setWidth 32).setWidth 64)
    (reg_setReg_eq (rl hI2 2 (by omega)))
  refine ⟨_, hI3, ?_⟩
  simp only [cidrV4, load32, movImm32, and32, jumpEqImm32, mk, mkJ, R1, R2, R9, List.cons_append, List.nil_append,
    leg.ipOff_eq]
  refine (lrun_ins_next (e1 _)).trans ?_
  refine (lrun_ins_next (step_movImm32 env _ 2 0 _ _ (by omega))).trans ?_
  refine (lrun_ins_next (e3 _)).trans ?_
  -- the comparison
  have hcmp : ((((((sext32 (rev32bv (mask32bv n.pfx)).toInt).setWidth 32).setWidth 64).setWidth 32 &&&
      (BitVec.ofNat 64 (fieldN st leg.ipo 4)).setWidth 32).setWidth 64).setWidth 32 ==
      (sext32 (rev32bv (BitVec.ofNat 32 n.addr &&& mask32bv n.pfx)).toInt).setWidth 32) =
      netContains4 ((pktOfD st).addr leg) n := by
    rw [sext_toInt32, sext_toInt32]
    have h64 : ∀ y : BitVec 32, (y.setWidth 64).setWidth 32 = y := by
      intro y; apply BitVec.eq_of_toNat_eq; simp only [BitVec.toNat_setWidth]; have := y.isLt; omega
    rw [h64, h64]
    have hw : (BitVec.ofNat 64 (fieldN st leg.ipo 4)).setWidth 32 = BitVec.ofNat 32 (fieldN st leg.ipo 4) := by
      apply BitVec.eq_of_toNat_eq; simp only [BitVec.toNat_setWidth, BitVec.toNat_ofNat]; omega
    rw [hw, netContains4, pkt_addr_head, cidr_test_iff]
  rw [hcmp] at e4
  cases hb : netContains4 ((pktOfD st).addr leg) n with
  | true => rw [hb] at e4; simpa using lrun_jmp_taken (by simp [Insn.isJumpOp, opJumpEqImm32]) e4
  | false => rw [hb] at e4; simpa using lrun_jmp_next (by simp [Insn.isJumpOp, opJumpEqImm32]) e4

theorem labelsOf_cidrV4 (leg : Leg) (P : Label) (n : Net) : labelsOf (cidrV4 leg P n) = [] := by
  simp [cidrV4, labelsOf, load32, movImm32, and32, jumpEqImm32, mk, mkJ]

theorem flat_cidrLoop_v4 (leg : Leg) (rid : Nat) (P : Label) :
    ∀ (nets : List Net) (idx : Nat), flat (cidrLoop false leg rid P nets idx) = nets.flatMap (cidrV4 leg P) := by
  intro nets
  induction nets with
  | nil => intro _; rfl
  | cons n ns ih =>
    intro idx
    simp only [cidrLoop, flat, flat_append, flat_map_ev, Bool.false_eq_true, if_false, List.flatMap_cons, ih]

theorem decides_cidrs (env : Env) (st : List Byte) (hlen : st.length = 512) (P : Label) (leg : Leg) :
    ∀ nets : List Net,
      Decides env st (nets.flatMap (cidrV4 leg P))
        (if nets.any (netContains4 ((pktOfD st).addr leg)) then some P else none) ∧
      labelsOf (nets.flatMap (cidrV4 leg P)) = [] := by
  intro nets
  induction nets with
  | nil => exact ⟨Decides.nil env st, rfl⟩
  | cons n ns ih =>
    obtain ⟨d, hl⟩ := ih
    have d1 := decides_cidrV4 env st hlen P leg n
    simp only [List.flatMap_cons]
    refine ⟨?_, ?_⟩
    · have := Decides.seq d1 d (by intro l _; rw [hl]; simp)
      cases hb : netContains4 ((pktOfD st).addr leg) n <;> simpa [List.any_cons, hb] using this
    · rw [labelsOf_append, labelsOf_cidrV4, hl]; rfl

/-- `writeCIDRSMatch` (IPv4). -/
theorem guard_cidrsMatch (env : Env) (st : List Byte) (hlen : st.length = 512) (rid part : Nat) (neg : Bool)
    (leg : Leg) (nets : List Net) :
    Guard env st (.ruleNoMatch rid) (flat (cidrsMatch false rid part neg leg nets).1)
      (if neg then !(nets.any (netContains4 ((pktOfD st).addr leg))) else nets.any (netContains4 ((pktOfD st).addr leg))) ∧
    (∀ l ∈ labelsOf (flat (cidrsMatch false rid part neg leg nets).1), l = .rulePart rid part) := by
  cases neg with
  | true =>
    obtain ⟨d, hl⟩ := decides_cidrs env st hlen (.ruleNoMatch rid) leg nets
    simp only [cidrsMatch, if_true, flat_cidrLoop_v4]
    exact ⟨Guard.of_decides_neg d, by rw [hl]; simp⟩
  | false =>
    obtain ⟨d, hl⟩ := decides_cidrs env st hlen (.rulePart rid part) leg nets
    simp only [cidrsMatch, Bool.false_eq_true, if_false, flat_append, flat_cidrLoop_v4, flat]
    refine ⟨Guard.of_decides_pos d (by simp), ?_⟩
    intro l hmem
    rw [labelsOf_append, hl] at hmem
    simpa [labelsOf, jump, mkJ] using hmem

end CalicoVerif.C11
