import CalicoVerif.Proofs.C26
/-!
C26 — the cache invariant (downstream mirrors `resources ∪ oldResources`, the two are disjoint, the
announced status is tracked, no update while waiting) and its preservation by the building blocks of the
cache: `sendResult`, `markAsValid`, `handleConvertedWatchEvent`, `handleWatchListEvent`, `finishResync`,
`sendDeletionsForAllResources`.
-/
namespace CalicoVerif.C26

/-- Invariant of a cache relative to the start of the current call: `m0` is what downstream held and `st0`
the status it had been told when `out` was empty. -/
structure Inv (m0 : View) (st0 : Nat) (wc : WC) : Prop where
  /-- `resources` and `oldResources` never hold the same key -/
  disj : ∀ k, oldLookup wc k ≠ none → lookup wc.res k = none
  /-- downstream (everything emitted so far applied to `m0`) is exactly `resources ∪ oldResources` -/
  mirror : ∀ k, downFrom m0 wc.out k = view wc k
  /-- the cache's `status` field is the last status it emitted -/
  track : lastStatus st0 wc.out = wc.status
  /-- no `updates` result was emitted while the announced status was WaitForDatastore -/
  quiet : quietFrom st0 wc.out = true

/-- Only `res`, `old`, `out` and `status` matter. -/
theorem Inv.of_eq {m0 : View} {st0 : Nat} {wc wc' : WC} (h : Inv m0 st0 wc) (hr : wc'.res = wc.res)
    (ho : wc'.old = wc.old) (hout : wc'.out = wc.out) (hs : wc'.status = wc.status) : Inv m0 st0 wc' := by
  have hol : ∀ k, oldLookup wc' k = oldLookup wc k := fun k => by simp [oldLookup, ho]
  have hv : ∀ k, view wc' k = view wc k := fun k => by simp [view, hr, hol]
  refine ⟨?_, ?_, ?_, ?_⟩
  · intro k hk; rw [hr]; exact h.disj k (by rw [← hol]; exact hk)
  · intro k; rw [hout, hv]; exact h.mirror k
  · rw [hout, hs]; exact h.track
  · rw [hout]; exact h.quiet

/-! ### sendResult -/

theorem send_res (wc : WC) (r : Res) : (wc.send r).res = wc.res := by
  cases r <;> simp only [WC.send]
  split <;> rfl

theorem send_old' (wc : WC) (r : Res) : (wc.send r).old = wc.old := by
  cases r <;> simp only [WC.send]
  split <;> rfl

theorem send_proc (wc : WC) (r : Res) : (wc.send r).proc = wc.proc := by
  cases r <;> simp only [WC.send]
  split <;> rfl

theorem send_pst (wc : WC) (r : Res) : (wc.send r).pst = wc.pst := by
  cases r <;> simp only [WC.send]
  split <;> rfl

theorem send_status' (wc : WC) (s : Nat) : (wc.send (.status s)).status = s := by
  simp only [WC.send]
  split
  · rename_i h; exact h.symm
  · rfl

theorem Inv.send_status {m0 : View} {st0 : Nat} {wc : WC} (h : Inv m0 st0 wc) (s : Nat) :
    Inv m0 st0 (wc.send (.status s)) := by
  simp only [WC.send]
  split
  · exact h
  · refine ⟨h.disj, ?_, ?_, ?_⟩
    · intro k
      show downFrom m0 (wc.out ++ [Res.status s]) k = view wc k
      rw [downFrom_snoc]; exact h.mirror k
    · show lastStatus st0 (wc.out ++ [Res.status s]) = s
      rw [lastStatus_snoc]
    · show quietFrom st0 (wc.out ++ [Res.status s]) = true
      rw [quietFrom_snoc, h.quiet]; rfl

theorem Inv.send_convErr {m0 : View} {st0 : Nat} {wc : WC} (h : Inv m0 st0 wc) : Inv m0 st0 (wc.send .convErr) := by
  refine ⟨h.disj, ?_, ?_, ?_⟩
  · intro k
    show downFrom m0 (wc.out ++ [Res.convErr]) k = view wc k
    rw [downFrom_snoc]; exact h.mirror k
  · show lastStatus st0 (wc.out ++ [Res.convErr]) = wc.status
    rw [lastStatus_snoc]; exact h.track
  · show quietFrom st0 (wc.out ++ [Res.convErr]) = true
    rw [quietFrom_snoc, h.quiet]; rfl

theorem Inv.send_backendErr {m0 : View} {st0 : Nat} {wc : WC} (h : Inv m0 st0 wc) :
    Inv m0 st0 (wc.send .backendErr) := by
  refine ⟨h.disj, ?_, ?_, ?_⟩
  · intro k
    show downFrom m0 (wc.out ++ [Res.backendErr]) k = view wc k
    rw [downFrom_snoc]; exact h.mirror k
  · show lastStatus st0 (wc.out ++ [Res.backendErr]) = wc.status
    rw [lastStatus_snoc]; exact h.track
  · show quietFrom st0 (wc.out ++ [Res.backendErr]) = true
    rw [quietFrom_snoc, h.quiet]; rfl

/-- Emitting an `updates` result while replacing `resources`: allowed when the status is not
WaitForDatastore and the new `resources ∪ oldResources` is the old one with the updates applied. -/
theorem Inv.emit {m0 : View} {st0 : Nat} {wc : WC} (h : Inv m0 st0 wc) (hs : wc.status ≠ stWait)
    (us : List Upd) (res' : List (Nat × Nat))
    (hd : ∀ k, oldLookup wc k ≠ none → lookup res' k = none)
    (hv : ∀ k, view { wc with res := res' } k = us.foldl applyUpd (view wc) k) :
    Inv m0 st0 { wc.send (.updates us) with res := res' } := by
  have e : downFrom m0 wc.out = view wc := funext h.mirror
  refine ⟨hd, ?_, ?_, ?_⟩
  · intro k
    show downFrom m0 (wc.out ++ [Res.updates us]) k = view { wc with res := res' } k
    rw [downFrom_snoc]
    simp only [applyRes, e]
    exact (hv k).symm
  · show lastStatus st0 (wc.out ++ [Res.updates us]) = wc.status
    rw [lastStatus_snoc]; exact h.track
  · show quietFrom st0 (wc.out ++ [Res.updates us]) = true
    rw [quietFrom_snoc, h.quiet, h.track]
    simp [hs]

/-! ### markAsValid -/

theorem markAsValid_out (wc : WC) (k : Nat) : (wc.markAsValid k).out = wc.out := by
  unfold WC.markAsValid; split
  · rfl
  · split <;> rfl

theorem markAsValid_status (wc : WC) (k : Nat) : (wc.markAsValid k).status = wc.status := by
  unfold WC.markAsValid; split
  · rfl
  · split <;> rfl

theorem markAsValid_proc (wc : WC) (k : Nat) : (wc.markAsValid k).proc = wc.proc := by
  unfold WC.markAsValid; split
  · rfl
  · split <;> rfl

theorem markAsValid_pst (wc : WC) (k : Nat) : (wc.markAsValid k).pst = wc.pst := by
  unfold WC.markAsValid; split
  · rfl
  · split <;> rfl

theorem markAsValid_idle (wc : WC) (k : Nat) (h : wc.old = none) : (wc.markAsValid k).old = none := by
  unfold WC.markAsValid; simp only [h]

theorem markAsValid_old (wc : WC) (k k' : Nat) :
    oldLookup (wc.markAsValid k) k' = if k' = k then none else oldLookup wc k' := by
  unfold WC.markAsValid
  cases ho : wc.old with
  | none => simp [oldLookup, ho]
  | some o =>
    simp only
    cases hl : lookup o k with
    | none =>
      simp only [oldLookup, ho, Option.bind_some]
      by_cases e : k' = k
      · simp [e, hl]
      · simp [e]
    | some r =>
      simp only [oldLookup, ho, Option.bind_some, lookup_erase]

theorem markAsValid_view (wc : WC) (k : Nat) (hd : ∀ k, oldLookup wc k ≠ none → lookup wc.res k = none) (k' : Nat) :
    view (wc.markAsValid k) k' = view wc k' := by
  unfold WC.markAsValid
  cases ho : wc.old with
  | none => rfl
  | some o =>
    simp only
    cases hl : lookup o k with
    | none => simp only [view, oldLookup, ho]
    | some r =>
      simp only [view, oldLookup, Option.bind_some, lookup_insert, lookup_erase, ho]
      by_cases e : k' = k
      · subst e
        have : lookup wc.res k' = none := hd k' (by simp [oldLookup, ho, hl])
        simp [this, hl]
      · simp [e]

theorem markAsValid_disj (wc : WC) (k : Nat) (hd : ∀ k, oldLookup wc k ≠ none → lookup wc.res k = none) :
    ∀ k', oldLookup (wc.markAsValid k) k' ≠ none → lookup (wc.markAsValid k).res k' = none := by
  intro k' hk'
  rw [markAsValid_old] at hk'
  by_cases e : k' = k
  · simp [e] at hk'
  · simp only [e, if_false] at hk'
    have hres := hd k' hk'
    unfold WC.markAsValid
    cases ho : wc.old with
    | none => exact hres
    | some o =>
      simp only
      cases hl : lookup o k with
      | none => exact hres
      | some r => simp only [lookup_insert, e, if_false]; exact hres

theorem Inv.markAsValid {m0 : View} {st0 : Nat} {wc : WC} (h : Inv m0 st0 wc) (k : Nat) :
    Inv m0 st0 (wc.markAsValid k) := by
  refine ⟨markAsValid_disj wc k h.disj, ?_, ?_, ?_⟩
  · intro k'; rw [markAsValid_out, markAsValid_view wc k h.disj]; exact h.mirror k'
  · rw [markAsValid_out, markAsValid_status]; exact h.track
  · rw [markAsValid_out]; exact h.quiet

/-! ### one converted KV -/

/-- Is key `k` mentioned by the KVs `c`? -/
def mentions (c : List KV) (k : Nat) : Bool := c.any (fun kv => kv.key == k)

theorem mentions_append (x y : List KV) (k : Nat) : mentions (x ++ y) k = (mentions x k || mentions y k) := by
  simp [mentions]

theorem mentions_iff (c : List KV) (k : Nat) : mentions c k = true ↔ ∃ kv ∈ c, kv.key = k := by
  simp [mentions]

theorem mentions_false_iff (c : List KV) (k : Nat) : mentions c k = false ↔ ∀ kv ∈ c, kv.key ≠ k := by
  rw [← Bool.not_eq_true, mentions_iff]; simp

/-- What processing the (converted) KVs `c` does to a cache. -/
structure StepOK (m0 : View) (st0 : Nat) (wc w : WC) (c : List KV) : Prop where
  inv : Inv m0 st0 w
  /-- the cache's view moved exactly as the datastore's -/
  view : ∀ k, view w k = c.foldl applyKV (view wc) k
  /-- every key mentioned is revalidated (leaves `oldResources`), the others stay -/
  old : ∀ k, oldLookup w k = if mentions c k then none else oldLookup wc k
  status : w.status = wc.status
  idle : wc.old = none → w.old = none
  mode : w.proc = wc.proc

theorem StepOK.refl {m0 : View} {st0 : Nat} {wc : WC} (h : Inv m0 st0 wc) : StepOK m0 st0 wc wc [] :=
  ⟨h, fun _ => rfl, fun _ => by simp [mentions], rfl, id, rfl⟩

theorem StepOK.trans {m0 : View} {st0 : Nat} {a b c : WC} {x y : List KV}
    (h1 : StepOK m0 st0 a b x) (h2 : StepOK m0 st0 b c y) : StepOK m0 st0 a c (x ++ y) := by
  refine ⟨h2.inv, ?_, ?_, h2.status.trans h1.status, fun h => h2.idle (h1.idle h), h2.mode.trans h1.mode⟩
  · intro k
    rw [h2.view, List.foldl_append]
    have : CalicoVerif.C26.view b = x.foldl applyKV (CalicoVerif.C26.view a) := funext h1.view
    rw [this]
  · intro k
    rw [h2.old, h1.old, mentions_append]
    cases mentions x k <;> cases mentions y k <;> rfl

theorem old_single {wc w : WC} (kv : KV)
    (o1 : ∀ k, oldLookup w k = if k = kv.key then none else oldLookup wc k) (k : Nat) :
    oldLookup w k = if mentions [kv] k then none else oldLookup wc k := by
  rw [o1]
  simp only [mentions, List.any_cons, List.any_nil, Bool.or_false]
  by_cases e : k = kv.key
  · simp [e]
  · have : (kv.key == k) = false := by
      simp only [beq_eq_false_iff_ne, ne_eq]; exact fun x => e x.symm
    simp [e, this]

/-- `handleAddedOrModifiedUpdate`. -/
theorem handleAddMod_ok {m0 : View} {st0 : Nat} {wc : WC} (h : Inv m0 st0 wc) (hs : wc.status ≠ stWait)
    (kv : KV) (hdel : kv.del = false) : StepOK m0 st0 wc (wc.handleAddMod kv) [kv] := by
  have I1 := h.markAsValid kv.key
  have hs1 : (wc.markAsValid kv.key).status ≠ stWait := by rw [markAsValid_status]; exact hs
  have o1 : ∀ k, oldLookup (wc.markAsValid kv.key) k = if k = kv.key then none else oldLookup wc k :=
    markAsValid_old wc kv.key
  have okey : oldLookup (wc.markAsValid kv.key) kv.key = none := by rw [o1]; simp
  have v1 : ∀ k, view (wc.markAsValid kv.key) k = view wc k := markAsValid_view wc kv.key h.disj
  -- the emitting branches (New / Updated)
  have emit : ∀ ut, ut ≠ utDeleted →
      StepOK m0 st0 wc { (wc.markAsValid kv.key).send (.updates [{ key := kv.key, rev := kv.rev, ut := ut }]) with
        res := insert (wc.markAsValid kv.key).res kv.key kv.rev } [kv] := by
    intro ut hut
    have hv : ∀ k, view { wc.markAsValid kv.key with res := insert (wc.markAsValid kv.key).res kv.key kv.rev } k =
        [({ key := kv.key, rev := kv.rev, ut := ut } : Upd)].foldl applyUpd (view (wc.markAsValid kv.key)) k := by
      intro k
      simp only [List.foldl_cons, List.foldl_nil, applyUpd, view, oldLookup, lookup_insert]
      by_cases e : k = kv.key
      · subst e; simp [hut]
      · have : ¬ kv.key = k := fun x => e x.symm
        simp only [e, this, if_false]
    have hd : ∀ k, oldLookup (wc.markAsValid kv.key) k ≠ none →
        lookup (insert (wc.markAsValid kv.key).res kv.key kv.rev) k = none := by
      intro k hk
      rw [lookup_insert]
      by_cases e : k = kv.key
      · subst e; exact absurd okey hk
      · simp only [e, if_false]; exact I1.disj k hk
    have I2 := I1.emit hs1 _ _ hd hv
    refine ⟨I2, ?_, ?_, ?_, ?_, ?_⟩
    · intro k
      show view { wc.markAsValid kv.key with res := insert (wc.markAsValid kv.key).res kv.key kv.rev } k = _
      rw [hv k]
      simp only [List.foldl_cons, List.foldl_nil, applyUpd, applyKV, hdel, v1]
      by_cases e : kv.key = k <;> simp [e, hut]
    · intro k
      show oldLookup (wc.markAsValid kv.key) k = _
      exact old_single kv o1 k
    · show (wc.markAsValid kv.key).status = wc.status
      exact markAsValid_status wc kv.key
    · intro hi
      show (wc.markAsValid kv.key).old = none
      exact markAsValid_idle wc kv.key hi
    · show (wc.markAsValid kv.key).proc = wc.proc
      exact markAsValid_proc wc kv.key
  unfold WC.handleAddMod
  simp only
  cases hl : lookup (wc.markAsValid kv.key).res kv.key with
  | none => exact emit utNew (by decide)
  | some r =>
    simp only
    by_cases hr : r = kv.rev
    · simp only [hr, if_true]
      refine ⟨I1, ?_, old_single kv o1, markAsValid_status wc kv.key, markAsValid_idle wc kv.key,
        markAsValid_proc wc kv.key⟩
      intro k
      simp only [List.foldl_cons, List.foldl_nil, applyKV, hdel]
      by_cases e : kv.key = k
      · subst e
        simp [view, hl, hr]
      · simp [e, v1]
    · simp only [hr, if_false]
      exact emit utUpdated (by decide)

/-- `handleDeletedUpdate`. -/
theorem handleDeleted_ok {m0 : View} {st0 : Nat} {wc : WC} (h : Inv m0 st0 wc) (hs : wc.status ≠ stWait)
    (kv : KV) (hdel : kv.del = true) : StepOK m0 st0 wc (wc.handleDeleted kv.key) [kv] := by
  have I1 := h.markAsValid kv.key
  have hs1 : (wc.markAsValid kv.key).status ≠ stWait := by rw [markAsValid_status]; exact hs
  have o1 : ∀ k, oldLookup (wc.markAsValid kv.key) k = if k = kv.key then none else oldLookup wc k :=
    markAsValid_old wc kv.key
  have okey : oldLookup (wc.markAsValid kv.key) kv.key = none := by rw [o1]; simp
  have v1 : ∀ k, view (wc.markAsValid kv.key) k = view wc k := markAsValid_view wc kv.key h.disj
  unfold WC.handleDeleted
  simp only
  cases hl : lookup (wc.markAsValid kv.key).res kv.key with
  | none =>
    simp only
    refine ⟨I1, ?_, old_single kv o1, markAsValid_status wc kv.key, markAsValid_idle wc kv.key,
      markAsValid_proc wc kv.key⟩
    intro k
    simp only [List.foldl_cons, List.foldl_nil, applyKV, hdel]
    by_cases e : kv.key = k
    · subst e
      simp [view, hl, okey]
    · simp [e, v1]
  | some r =>
    simp only
    have hv : ∀ k, view { wc.markAsValid kv.key with res := erase (wc.markAsValid kv.key).res kv.key } k =
        [delUpd kv.key].foldl applyUpd (view (wc.markAsValid kv.key)) k := by
      intro k
      simp only [List.foldl_cons, List.foldl_nil, applyUpd, delUpd, view, oldLookup, lookup_erase]
      by_cases e : k = kv.key
      · subst e
        have := okey
        simp only [oldLookup] at this
        simp [this]
      · have : ¬ kv.key = k := fun x => e x.symm
        simp only [e, this, if_false]
    have hd : ∀ k, oldLookup (wc.markAsValid kv.key) k ≠ none →
        lookup (erase (wc.markAsValid kv.key).res kv.key) k = none := by
      intro k hk
      rw [lookup_erase]
      by_cases e : k = kv.key
      · simp [e]
      · simp only [e, if_false]; exact I1.disj k hk
    have I2 := I1.emit hs1 _ _ hd hv
    refine ⟨I2, ?_, old_single kv o1, markAsValid_status wc kv.key, markAsValid_idle wc kv.key,
      markAsValid_proc wc kv.key⟩
    intro k
    show view { wc.markAsValid kv.key with res := erase (wc.markAsValid kv.key).res kv.key } k = _
    rw [hv k]
    simp only [List.foldl_cons, List.foldl_nil, applyUpd, applyKV, hdel, v1, delUpd]
    by_cases e : kv.key = k <;> simp [e]

/-- `handleConvertedWatchEvent`. -/
theorem handleConverted_ok {m0 : View} {st0 : Nat} {wc : WC} (h : Inv m0 st0 wc) (hs : wc.status ≠ stWait)
    (kv : KV) : StepOK m0 st0 wc (wc.handleConverted kv) [kv] := by
  unfold WC.handleConverted
  cases hd : kv.del with
  | true => simp only [if_true]; exact handleDeleted_ok h hs kv hd
  | false => simp only [Bool.false_eq_true, if_false]; exact handleAddMod_ok h hs kv hd

theorem foldl_handleConverted_ok {m0 : View} {st0 : Nat} (c : List KV) {wc : WC} (h : Inv m0 st0 wc)
    (hs : wc.status ≠ stWait) : StepOK m0 st0 wc (c.foldl WC.handleConverted wc) c := by
  induction c generalizing wc with
  | nil => exact StepOK.refl h
  | cons kv c ih =>
    simp only [List.foldl_cons]
    have s1 := handleConverted_ok h hs kv
    have s2 := ih s1.inv (by rw [s1.status]; exact hs)
    exact s1.trans s2

theorem handleConverted_pst (wc : WC) (kv : KV) : (wc.handleConverted kv).pst = wc.pst := by
  unfold WC.handleConverted WC.handleDeleted WC.handleAddMod
  split
  · simp only
    split
    · show (WC.send _ _).pst = _; rw [send_pst, markAsValid_pst]
    · exact markAsValid_pst _ _
  · simp only
    split
    · split
      · exact markAsValid_pst _ _
      · show (WC.send _ _).pst = _; rw [send_pst, markAsValid_pst]
    · show (WC.send _ _).pst = _; rw [send_pst, markAsValid_pst]

theorem foldl_handleConverted_pst (c : List KV) (wc : WC) : (c.foldl WC.handleConverted wc).pst = wc.pst := by
  induction c generalizing wc with
  | nil => rfl
  | cons x xs ih => simp only [List.foldl_cons]; rw [ih, handleConverted_pst]

/-- `handleWatchListEvent`: the raw KV is converted by the processor in its current state and every converted KV is
applied; the processor's state advances. -/
theorem handleWatchListEvent_ok {m0 : View} {st0 : Nat} {wc : WC} (h : Inv m0 st0 wc) (hs : wc.status ≠ stWait)
    (kv : KV) :
    StepOK m0 st0 wc (wc.handleWatchListEvent kv) (procRun wc.proc wc.pst kv).2.1 ∧
      (wc.handleWatchListEvent kv).pst = (procRun wc.proc wc.pst kv).1 := by
  have h0 : Inv m0 st0 { wc with rev := kv.rev, errCount := 0, pst := (procRun wc.proc wc.pst kv).1 } :=
    h.of_eq rfl rfl rfl rfl
  have base : StepOK m0 st0 wc { wc with rev := kv.rev, errCount := 0, pst := (procRun wc.proc wc.pst kv).1 } [] :=
    ⟨h0, fun _ => rfl, fun _ => by simp [mentions]; rfl, rfl, id, rfl⟩
  have s := base.trans (foldl_handleConverted_ok (procRun wc.proc wc.pst kv).2.1 h0 hs)
  simp only [List.nil_append] at s
  have hp := foldl_handleConverted_pst (procRun wc.proc wc.pst kv).2.1
    { wc with rev := kv.rev, errCount := 0, pst := (procRun wc.proc wc.pst kv).1 }
  unfold WC.handleWatchListEvent
  simp only
  split
  · refine ⟨⟨s.inv.send_convErr, ?_, ?_, s.status, ?_, ?_⟩, ?_⟩
    · intro k; exact s.view k
    · intro k; exact s.old k
    · intro hi; show (WC.send _ Res.convErr).old = none; rw [send_old']; exact s.idle hi
    · show (WC.send _ Res.convErr).proc = _; rw [send_proc]; exact s.mode
    · show (WC.send _ Res.convErr).pst = _; rw [send_pst]; exact hp
  · exact ⟨s, hp⟩

theorem foldl_handleWatchListEvent_ok {m0 : View} {st0 : Nat} (kvs : List KV) {wc : WC} (h : Inv m0 st0 wc)
    (hs : wc.status ≠ stWait) :
    StepOK m0 st0 wc (kvs.foldl WC.handleWatchListEvent wc) (convSeq wc.proc wc.pst kvs) ∧
      (kvs.foldl WC.handleWatchListEvent wc).pst = convState wc.proc wc.pst kvs := by
  induction kvs generalizing wc with
  | nil => exact ⟨StepOK.refl h, rfl⟩
  | cons kv kvs ih =>
    simp only [List.foldl_cons, convSeq, convState]
    obtain ⟨s1, p1⟩ := handleWatchListEvent_ok h hs kv
    obtain ⟨s2, p2⟩ := ih s1.inv (by rw [s1.status]; exact hs)
    rw [s1.mode, p1] at s2 p2
    exact ⟨s1.trans s2, p2⟩

end CalicoVerif.C26
