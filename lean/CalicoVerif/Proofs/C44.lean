import CalicoVerif.Model.C44
import CalicoVerif.Proofs.C18
/-! Helper lemmas for C44: the minimum scan, the invariant `Good` behind the full-property theorem, and its
preservation by every operation. -/
namespace CalicoVerif.C44
open CalicoVerif.C18 (GoMap get set del get_set get_del NodupKeys nodupKeys_set nodupKeys_del nodupKeys_nil get_eq_some_iff)

def bestStep (name : Nat) (best : Option Nat) (p : Nat × Ep) : Option Nat :=
  if p.2.name = name then
    match best with
    | none => some p.1
    | some b => if p.1 < b then some p.1 else some b
  else best

theorem bestShadowed_eq (sh : GoMap Nat Ep) (name : Nat) : bestShadowed sh name = sh.foldl (bestStep name) none := rfl

theorem best_fold (name : Nat) (l : List (Nat × Ep)) (best : Option Nat) :
    (l.foldl (bestStep name) best = none ↔ best = none ∧ ∀ p ∈ l, p.2.name ≠ name) ∧
    (∀ i, l.foldl (bestStep name) best = some i →
      (best = some i ∨ ∃ e, (i, e) ∈ l ∧ e.name = name) ∧ (∀ b, best = some b → i ≤ b) ∧
      ∀ p ∈ l, p.2.name = name → i ≤ p.1) := by
  induction l generalizing best with
  | nil =>
    simp only [List.foldl_nil, List.not_mem_nil, false_implies, implies_true, and_true, true_and, false_and, exists_false, or_false]
    intro i hi
    exact ⟨hi, fun b hb => by rw [hi] at hb; cases hb; exact Nat.le_refl _⟩
  | cons p r ih =>
    simp only [List.foldl_cons]
    have ih' := ih (bestStep name best p)
    constructor
    · rw [ih'.1]
      unfold bestStep
      by_cases hp : p.2.name = name
      · cases best with
        | none => simp [hp]
        | some b => simp only [hp, if_true]; split <;> simp [hp]
      · simp [hp]
    · intro i hi
      obtain ⟨h1, h2, h3⟩ := ih'.2 i hi
      unfold bestStep at h1 h2
      by_cases hp : p.2.name = name
      · simp only [hp, if_true] at h1 h2
        cases best with
        | none =>
          simp only at h1 h2
          refine ⟨?_, by simp, ?_⟩
          · rcases h1 with h1 | ⟨e, he, hn⟩
            · right; exact ⟨p.2, by simp only [Option.some.injEq] at h1; subst h1; simp, hp⟩
            · right; exact ⟨e, by simp [he], hn⟩
          · intro q hq hqn
            rcases List.mem_cons.1 hq with rfl | hq
            · exact h2 _ rfl
            · exact h3 q hq hqn
        | some b =>
          simp only at h1 h2
          by_cases hlt : p.1 < b
          · simp only [hlt, if_true] at h1 h2
            refine ⟨?_, ?_, ?_⟩
            · rcases h1 with h1 | ⟨e, he, hn⟩
              · right; exact ⟨p.2, by simp only [Option.some.injEq] at h1; subst h1; simp, hp⟩
              · right; exact ⟨e, by simp [he], hn⟩
            · intro b' hb'; simp only [Option.some.injEq] at hb'; subst hb'
              have := h2 _ rfl; omega
            · intro q hq hqn
              rcases List.mem_cons.1 hq with rfl | hq
              · exact h2 _ rfl
              · exact h3 q hq hqn
          · simp only [hlt, if_false] at h1 h2
            refine ⟨?_, ?_, ?_⟩
            · rcases h1 with h1 | ⟨e, he, hn⟩
              · left; exact h1
              · right; exact ⟨e, by simp [he], hn⟩
            · intro b' hb'; simp only [Option.some.injEq] at hb'; subst hb'
              exact h2 _ rfl
            · intro q hq hqn
              rcases List.mem_cons.1 hq with rfl | hq
              · have := h2 _ rfl; omega
              · exact h3 q hq hqn
      · simp only [hp, if_false] at h1 h2
        refine ⟨?_, h2, ?_⟩
        · rcases h1 with h1 | ⟨e, he, hn⟩
          · left; exact h1
          · right; exact ⟨e, by simp [he], hn⟩
        · intro q hq hqn
          rcases List.mem_cons.1 hq with rfl | hq
          · exact absurd hqn hp
          · exact h3 q hq hqn

theorem bestShadowed_none (sh : GoMap Nat Ep) (hn : NodupKeys sh) (name : Nat) (h : bestShadowed sh name = none) :
    ∀ j e, get sh j = some e → e.name ≠ name := by
  intro j e hg
  have := ((best_fold name sh none).1.1 h).2 (j, e) ((get_eq_some_iff sh hn j e).1 hg)
  exact this

theorem bestShadowed_some (sh : GoMap Nat Ep) (hn : NodupKeys sh) (name b : Nat) (h : bestShadowed sh name = some b) :
    (∃ e, get sh b = some e ∧ e.name = name) ∧ ∀ j e, get sh j = some e → e.name = name → b ≤ j := by
  obtain ⟨h1, _, h3⟩ := (best_fold name sh none).2 b h
  constructor
  · rcases h1 with h1 | ⟨e, he, hne⟩
    · cases h1
    · exact ⟨e, (get_eq_some_iff sh hn b e).2 he, hne⟩
  · intro j e hg hne
    exact h3 (j, e) ((get_eq_some_iff sh hn j e).1 hg) hne
/-- `l` with the value at `id` replaced. -/
def updL (l : Nat → Option Ep) (id : Nat) (v : Option Ep) : Nat → Option Ep := fun x => if x = id then v else l x

/-- The invariant behind the full-property theorems.  `l` = the live endpoints as far as the updates
processed so far say; `P` = the updates of the current batch that are still pending (`[]` between
batches).  With `P = []` the clauses say: active ∪ shadowed = live, an interface's holder is the
minimum live id claiming it, and chains/routes are exactly the holders'. -/
structure Good (m : Mgr) (l : Nat → Option Ep) (P : Pending) : Prop where
  a1 : ∀ id e, get m.active id = some e → l id = some e
  a2 : ∀ id e, get m.shadowed id = some e → l id = some e ∧ get m.active id = none
  a3 : ∀ id e, l id = some e →
    get m.active id = some e ∨ get m.shadowed id = some e ∨ get P id = some (some e)
  b1 : ∀ name id, get m.ifaceToID name = some id → ∃ e, get m.active id = some e ∧ e.name = name
  b2 : ∀ id e, get m.active id = some e → get m.ifaceToID e.name = some id
  /-- a shadowed endpoint waits behind a smaller active holder — or its fate is still pending: it has an
  entry of its own, or a smaller endpoint claiming the same interface has. -/
  c : ∀ id e, get m.shadowed id = some e →
    (∃ a, get m.ifaceToID e.name = some a ∧ a < id) ∨ get P id ≠ none ∨
    (∃ b eb, get P b = some (some eb) ∧ eb.name = e.name ∧ b < id)
  d1a : ∀ id e, get m.active id = some e → get m.chainsOf id = some e.name
  d1b : ∀ id, get m.active id = none → get m.chainsOf id = none
  d2a : ∀ name id e, get m.ifaceToID name = some id → get m.active id = some e →
    get m.chains name = some ⟨id, e.up, e.data⟩
  d2b : ∀ name, get m.ifaceToID name = none → get m.chains name = none
  d3a : ∀ name id e, get m.ifaceToID name = some id → get m.active id = some e →
    get m.routes name = if e.up then some (id, e.data) else none
  d3b : ∀ name, get m.ifaceToID name = none → get m.routes name = none
  nd : NodupKeys m.shadowed
  np : NodupKeys P

/-- the tactic used for every clause: push `get` through `set`/`del`, then first-order reasoning. -/
macro "clause" : tactic => `(tactic| (intros; (try simp only [get_set, get_del, updL] at *); grind))

/-- `Good` only looks at the maps through `get` (and at one-entry-per-key). -/
theorem good_congr (m m' : Mgr) (l l' : Nat → Option Ep) (P P' : Pending) (g : Good m l P)
    (h1 : ∀ k, get m'.active k = get m.active k) (h2 : ∀ k, get m'.ifaceToID k = get m.ifaceToID k)
    (h3 : ∀ k, get m'.shadowed k = get m.shadowed k) (h4 : ∀ k, get m'.chainsOf k = get m.chainsOf k)
    (h5 : ∀ k, get m'.chains k = get m.chains k) (h6 : ∀ k, get m'.routes k = get m.routes k)
    (h7 : ∀ k, get P' k = get P k) (h8 : ∀ k, l' k = l k)
    (n1 : NodupKeys m'.shadowed) (n2 : NodupKeys P') : Good m' l' P' := by
  obtain ⟨a1, a2, a3, b1, b2, c, d1a, d1b, d2a, d2b, d3a, d3b, nd, np⟩ := g
  constructor
  · intro id e; rw [h1, h8]; exact a1 id e
  · intro id e; rw [h3, h1, h8]; exact a2 id e
  · intro id e; rw [h1, h3, h7, h8]; exact a3 id e
  · intro n id; rw [h2]; intro h; obtain ⟨e, he, hn⟩ := b1 n id h; exact ⟨e, by rw [h1]; exact he, hn⟩
  · intro id e; rw [h1, h2]; exact b2 id e
  · intro id e; rw [h3]; intro h
    rcases c id e h with ⟨a, ha, hl⟩ | h' | ⟨b, eb, hb, hn, hl⟩
    · exact Or.inl ⟨a, by rw [h2]; exact ha, hl⟩
    · exact Or.inr (Or.inl (by rw [h7]; exact h'))
    · exact Or.inr (Or.inr ⟨b, eb, by rw [h7]; exact hb, hn, hl⟩)
  · intro id e; rw [h1, h4]; exact d1a id e
  · intro id; rw [h1, h4]; exact d1b id
  · intro n id e; rw [h2, h1, h5]; exact d2a n id e
  · intro n; rw [h2, h5]; exact d2b n
  · intro n id e; rw [h2, h1, h6]; exact d3a n id e
  · intro n; rw [h2, h6]; exact d3b n
  · exact n1
  · exact n2

/-! ### The building blocks: claim an interface, release one, drop a removal -/

/-- U1: the endpoint holds its interface already (same name), or is not active and the interface is free. -/
theorem good_claim_free (m : Mgr) (l : Nat → Option Ep) (P : Pending) (id : Nat) (w : Ep) (g : Good m l P)
    (hP : get P id = some (some w))
    (hold : ∀ o, get m.active id = some o → o.name = w.name)
    (hfree : ∀ a, get m.ifaceToID w.name = some a → a = id) :
    Good (m.activate id w) (updL l id (some w)) (del P id) := by
  obtain ⟨a1, a2, a3, b1, b2, c, d1a, d1b, d2a, d2b, d3a, d3b, nd, np⟩ := g
  unfold Mgr.activate
  constructor
  · clause
  · clause
  · clause
  · clause
  · clause
  · clause
  · clause
  · clause
  · clause
  · clause
  · intro n i e; cases hu : w.up <;> simp only [hu, get_set, get_del, updL] <;> grind
  · intro n; cases hu : w.up <;> simp only [hu, get_set, get_del, updL] <;> grind
  · exact nodupKeys_del _ _ nd
  · exact nodupKeys_del _ _ np

/-- U2: the endpoint is not active and its interface is held by a smaller id: it is (re)shadowed. -/
theorem good_claim_shadow (m : Mgr) (l : Nat → Option Ep) (P : Pending) (id : Nat) (w : Ep) (a : Nat)
    (g : Good m l P) (hP : get P id = some (some w)) (hna : get m.active id = none)
    (h : get m.ifaceToID w.name = some a) (hlt : a < id) :
    Good ({ m with shadowed := set m.shadowed id w } : Mgr) (updL l id (some w)) (del P id) := by
  obtain ⟨a1, a2, a3, b1, b2, c, d1a, d1b, d2a, d2b, d3a, d3b, nd, np⟩ := g
  constructor
  · clause
  · clause
  · clause
  · clause
  · clause
  · clause
  · clause
  · clause
  · clause
  · clause
  · clause
  · clause
  · exact nodupKeys_set _ _ _ nd
  · exact nodupKeys_del _ _ np

/-- U3: the endpoint is not active and its interface is held by a LARGER id: the holder is shadowed and
the endpoint takes over. -/
theorem good_claim_takeover (m : Mgr) (l : Nat → Option Ep) (P : Pending) (id : Nat) (w : Ep) (a : Nat) (ea : Ep)
    (g : Good m l P) (hP : get P id = some (some w)) (hna : get m.active id = none)
    (h : get m.ifaceToID w.name = some a) (hea : get m.active a = some ea) (hlt : id < a) :
    Good ({ m with
      active := set (del m.active a) id w,
      ifaceToID := set (del m.ifaceToID w.name) w.name id,
      shadowed := del (set m.shadowed a ea) id,
      chainsOf := set (del m.chainsOf a) id w.name,
      chains := set (del m.chains w.name) w.name ⟨id, w.up, w.data⟩,
      routes := if w.up then set (del m.routes w.name) w.name (id, w.data) else del (del m.routes w.name) w.name } : Mgr)
      (updL l id (some w)) (del P id) := by
  obtain ⟨a1, a2, a3, b1, b2, c, d1a, d1b, d2a, d2b, d3a, d3b, nd, np⟩ := g
  have hean : ea.name = w.name := by
    obtain ⟨e, he, hn⟩ := b1 _ _ h
    rw [hea] at he; cases he; exact hn
  have hsa : get m.shadowed a = none := by
    cases hs : get m.shadowed a with
    | none => rfl
    | some e => have := (a2 a e hs).2; rw [hea] at this; cases this
  constructor
  · clause
  · clause
  · clause
  · clause
  · clause
  · clause
  · clause
  · clause
  · clause
  · clause
  · intro n i e; cases hu : w.up <;> simp only [hu, get_set, get_del, updL] <;> grind
  · intro n; cases hu : w.up <;> simp only [hu, get_set, get_del, updL] <;> grind
  · exact nodupKeys_del _ _ (nodupKeys_set _ _ _ nd)
  · exact nodupKeys_del _ _ np

/-- what releasing interface `o.name` (held by the active endpoint `id`) does to the maps -/
def rel (m : Mgr) (id : Nat) (o : Ep) : Mgr :=
  { m with
    chains := del m.chains o.name, chainsOf := del m.chainsOf id, routes := del m.routes o.name,
    ifaceToID := del m.ifaceToID o.name, active := del m.active id }

/-- Release, nobody to promote: every endpoint shadowed on the released name has an entry of its own
pending.  The entry of `id` itself (if any) stays pending; as far as `l` goes `id` is gone for now. -/
theorem good_release_none (m : Mgr) (l : Nat → Option Ep) (P : Pending) (id : Nat) (o : Ep) (g : Good m l P)
    (he : get m.active id = some o)
    (hnone : ∀ j ej, get m.shadowed j = some ej → get P j = none → ej.name ≠ o.name) :
    Good (rel m id o) (updL l id none) P := by
  obtain ⟨a1, a2, a3, b1, b2, c, d1a, d1b, d2a, d2b, d3a, d3b, nd, np⟩ := g
  unfold rel
  constructor
  · clause
  · clause
  · clause
  · clause
  · clause
  · intro i ei hs
    simp only [get_del] at hs ⊢
    rcases c i ei hs with ⟨a, ha, hlt⟩ | h2 | h3
    · by_cases hn : o.name = ei.name
      · right; left
        intro hnone'
        exact hnone i ei hs hnone' hn.symm
      · left; exact ⟨a, by simp [hn, ha], hlt⟩
    · right; left; exact h2
    · right; right; exact h3
  · clause
  · clause
  · clause
  · clause
  · clause
  · clause
  · exact nd
  · exact np

/-- Release with promotion of `b`, the smallest endpoint shadowed on the released name that has no entry
of its own pending. -/
theorem good_release_some (m : Mgr) (l : Nat → Option Ep) (P : Pending) (id : Nat) (o : Ep) (b : Nat) (eb : Ep)
    (g : Good m l P) (he : get m.active id = some o)
    (hb : get m.shadowed b = some eb) (hpb : get P b = none) (hbn : eb.name = o.name)
    (hmin : ∀ j ej, get m.shadowed j = some ej → get P j = none → ej.name = o.name → b ≤ j) :
    Good ({ rel m id o with shadowed := del m.shadowed b } : Mgr) (updL l id none) (set P b (some eb)) := by
  obtain ⟨a1, a2, a3, b1, b2, c, d1a, d1b, d2a, d2b, d3a, d3b, nd, np⟩ := g
  have hbid : b ≠ id := by
    intro h; subst h; have := (a2 b eb hb).2; rw [he] at this; cases this
  have hlb := (a2 b eb hb).1
  unfold rel
  constructor
  · clause
  · clause
  · clause
  · clause
  · clause
  · intro i ei hs
    simp only [get_del, get_set] at hs ⊢
    have hi2 : b ≠ i := by intro h; subst h; simp at hs
    simp only [hi2, if_false] at hs ⊢
    rcases c i ei hs with ⟨a, ha, hlt⟩ | h2 | ⟨b', eb', hb2, hbn2, hlt⟩
    · by_cases hn : o.name = ei.name
      · by_cases hpi : get P i = none
        · right; right
          refine ⟨b, eb, by simp, by rw [hbn, hn], ?_⟩
          have := hmin i ei hs hpi hn.symm
          omega
        · right; left; exact hpi
      · left; exact ⟨a, by simp [hn, ha], hlt⟩
    · right; left; exact h2
    · right; right
      refine ⟨b', eb', ?_, hbn2, hlt⟩
      have h2 : b ≠ b' := by intro h; subst h; rw [hpb] at hb2; cases hb2
      simp [h2, hb2]
  · clause
  · clause
  · clause
  · clause
  · clause
  · clause
  · exact nodupKeys_del _ _ nd
  · exact nodupKeys_set _ _ _ np

/-- A processed removal entry is dropped (the endpoint is gone from every map already). -/
theorem good_drop_removal (m : Mgr) (l : Nat → Option Ep) (P : Pending) (id : Nat) (g : Good m l P)
    (hP : get P id = some none) (hl : l id = none) :
    Good m l (del P id) := by
  obtain ⟨a1, a2, a3, b1, b2, c, d1a, d1b, d2a, d2b, d3a, d3b, nd, np⟩ := g
  constructor
  · clause
  · clause
  · clause
  · clause
  · clause
  · intro i ei hs
    simp only [get_del]
    have hli := (a2 i ei hs).1
    have hi : id ≠ i := by intro h; subst h; rw [hl] at hli; cases hli
    rcases c i ei hs with h1 | h2 | ⟨b', eb', hb2, hbn2, hlt⟩
    · exact Or.inl h1
    · right; left; simp [hi, h2]
    · right; right
      refine ⟨b', eb', ?_, hbn2, hlt⟩
      have : id ≠ b' := by intro h; subst h; rw [hP] at hb2; cases hb2
      simp [this, hb2]
  · clause
  · clause
  · clause
  · clause
  · clause
  · clause
  · exact nd
  · exact nodupKeys_del _ _ np

/-- R1: removal of an endpoint that is not active (shadowed, promoted-but-pending, or unknown). -/
theorem good_remove_inactive (m : Mgr) (l : Nat → Option Ep) (P : Pending) (id : Nat) (g : Good m l P)
    (hP : get P id = some none) (hna : get m.active id = none) :
    Good ({ m with chainsOf := del m.chainsOf id, active := del m.active id, shadowed := del m.shadowed id } : Mgr)
      (updL l id none) (del P id) := by
  obtain ⟨a1, a2, a3, b1, b2, c, d1a, d1b, d2a, d2b, d3a, d3b, nd, np⟩ := g
  constructor
  · clause
  · clause
  · clause
  · clause
  · clause
  · clause
  · clause
  · clause
  · clause
  · clause
  · clause
  · clause
  · exact nodupKeys_del _ _ nd
  · exact nodupKeys_del _ _ np

/-- the shadowed endpoints that have no update/removal of their own pending -/
def candidates (sh : GoMap Nat Ep) (pd : Pending) : GoMap Nat Ep := sh.filter (fun p => (get pd p.1).isNone)

theorem get_candidates (sh : GoMap Nat Ep) (pd : Pending) (k : Nat) :
    get (candidates sh pd) k = if (get pd k).isNone then get sh k else none := by
  unfold candidates
  induction sh with
  | nil => simp [C18.get]
  | cons p r ih =>
    obtain ⟨a, b⟩ := p
    by_cases ha : (get pd a).isNone = true
    · simp only [List.filter, ha, C18.get]
      by_cases e : a = k
      · subst e; simp [ha]
      · simp only [e, if_false, ih]
    · have ha' : (get pd a).isNone = false := by cases hq : (get pd a).isNone <;> simp_all
      simp only [List.filter, ha', C18.get, ih]
      by_cases e : a = k
      · subst e; simp [ha']
      · simp only [e, if_false]

theorem nodup_candidates (sh : GoMap Nat Ep) (pd : Pending) (h : NodupKeys sh) : NodupKeys (candidates sh pd) := by
  unfold NodupKeys C18.keys candidates at *
  exact h.sublist ((List.filter_sublist).map _)

/-! ### Explicit forms of the pieces of `process` -/

theorem removeActive_some (m : Mgr) (a : Nat) (ea : Ep) (h2 : get m.chainsOf a = some ea.name) :
    m.removeActiveWorkload (some ea) a = rel m a ea := by
  unfold Mgr.removeActiveWorkload Mgr.removeChainsOf rel
  simp [h2]

theorem removeActive_none (m : Mgr) (a : Nat) (h2 : get m.chainsOf a = none) :
    m.removeActiveWorkload none a = { m with chainsOf := del m.chainsOf a, active := del m.active a } := by
  unfold Mgr.removeActiveWorkload Mgr.removeChainsOf
  simp [h2]

/-- what the promotion scan finds, stated on the shadowed map itself -/
theorem promote_cases (m : Mgr) (pd : Pending) (n : Nat) (hn : NodupKeys m.shadowed) :
    (m.promote pd n = (m, none) ∧ ∀ j ej, get m.shadowed j = some ej → get pd j = none → ej.name ≠ n) ∨
    (∃ b eb, m.promote pd n = ({ m with shadowed := del m.shadowed b }, some (b, eb)) ∧
      get m.shadowed b = some eb ∧ get pd b = none ∧ eb.name = n ∧
      ∀ j ej, get m.shadowed j = some ej → get pd j = none → ej.name = n → b ≤ j) := by
  have hnc := nodup_candidates m.shadowed pd hn
  have hcand : ∀ j ej, get m.shadowed j = some ej → get pd j = none → get (candidates m.shadowed pd) j = some ej := by
    intro j ej h1 h2; rw [get_candidates, h2]; simp [h1]
  unfold Mgr.promote
  cases hb : bestShadowed (List.filter (fun p => (get pd p.1).isNone) m.shadowed) n with
  | none =>
    left
    refine ⟨rfl, ?_⟩
    intro j ej h1 h2
    exact bestShadowed_none _ hnc n hb j ej (hcand j ej h1 h2)
  | some b =>
    right
    obtain ⟨⟨eb, hgb, hbn⟩, hmin⟩ := bestShadowed_some _ hnc n b hb
    have hgb2 : get (candidates m.shadowed pd) b = some eb := hgb
    rw [get_candidates] at hgb2
    have hpb : get pd b = none := by
      cases hq : get pd b with
      | none => rfl
      | some q => simp [hq] at hgb2
    have hsb : get m.shadowed b = some eb := by simpa [hpb] using hgb2
    refine ⟨b, eb, ?_, hsb, hpb, hbn, ?_⟩
    · simp only [hsb]
    · intro j ej h1 h2 h3
      exact hmin j ej (hcand j ej h1 h2) h3

theorem claim_same (m : Mgr) (pd : Pending) (id : Nat) (old : Option Ep) (w : Ep)
    (h : ∀ o, old = some o → o.name = w.name) : m.claim pd id old w = (m.activate id w, none) := by
  unfold Mgr.claim
  cases old with
  | none => rfl
  | some o => simp [h o rfl]

/-- the rename clean-up of the old interface name (the id's own entries are overwritten by `activate`) -/
def relName (m : Mgr) (o : Ep) : Mgr :=
  { m with
    chains := del m.chains o.name, routes := del m.routes o.name, ifaceToID := del m.ifaceToID o.name }

theorem claim_rename (m : Mgr) (pd : Pending) (id : Nat) (o : Ep) (w : Ep) (h : o.name ≠ w.name)
    (hc : get m.chainsOf id = some o.name) :
    m.claim pd id (some o) w = (((relName m o).promote pd o.name).1.activate id w, ((relName m o).promote pd o.name).2) := by
  unfold Mgr.claim Mgr.removeChainsOf relName
  simp [h, hc]

theorem get_pendU (P : Pending) (id : Nat) (v : Option Ep) (h : get P id = some v) (j : Nat) :
    get (set (del P id) id v) j = get P j := by
  rw [get_set, get_del]
  by_cases e : id = j
  · subst e; simp [h]
  · simp [e]

/-- push `get` through every map operation, then decide -/
macro "mapeq" : tactic =>
  `(tactic| (intro k; simp only [Mgr.activate, rel, relName, get_set, get_del]; all_goals ((try split) <;> (try grind))))

/-- the pending map after an entry has been processed -/
def nextP (P : Pending) (id : Nat) (q : Option (Nat × Ep)) : Pending :=
  match q with
  | some (b, e) => set (del P id) b (some e)
  | none => del P id

/-- what `good_process` says about one processed entry -/
structure StepOK (m : Mgr) (l : Nat → Option Ep) (P : Pending) (id : Nat) (w : Option Ep)
    (r : Mgr × Option (Nat × Ep)) : Prop where
  good : Good r.1 (updL l id w) (nextP P id r.2)
  promo : ∀ b e, r.2 = some (b, e) →
    (w = none ∨ (get m.active id).isSome = true) ∧ get P b = none ∧ b ≠ id ∧ l b = some e ∧ get r.1.active b = none
  mono : ∀ x, x ≠ id → (get r.1.active x).isSome = true → (get m.active x).isSome = true

theorem updL_updL (l : Nat → Option Ep) (id : Nat) (v : Option Ep) (k : Nat) :
    updL l id v k = updL (updL l id none) id v k := by
  unfold updL; split <;> rfl

/-- outcome of releasing `o.name` (held by the active `id`) with the promotion scan run on `m0` -/
def Released (m m0 : Mgr) (l : Nat → Option Ep) (P pd : Pending) (id : Nat) (o : Ep) : Prop :=
  (m0.promote pd o.name = (m0, none) ∧ Good (rel m id o) (updL l id none) P) ∨
  (∃ b eb, m0.promote pd o.name = ({ m0 with shadowed := del m0.shadowed b }, some (b, eb)) ∧
    Good ({ rel m id o with shadowed := del m.shadowed b } : Mgr) (updL l id none) (set P b (some eb)) ∧
    get m.shadowed b = some eb ∧ get P b = none ∧ b ≠ id ∧ l b = some eb ∧ get m.active b = none)

theorem release_facts (m : Mgr) (l : Nat → Option Ep) (P : Pending) (id : Nat) (o : Ep) (b : Nat) (eb : Ep)
    (g : Good m l P) (he : get m.active id = some o) (hb : get m.shadowed b = some eb) :
    b ≠ id ∧ l b = some eb ∧ get m.active b = none := by
  have h2 := g.a2 b eb hb
  refine ⟨?_, h2.1, h2.2⟩
  intro h; subst h; rw [he] at h2; cases h2.2

/-- the scan runs on a state whose shadowed map is (pointwise) `m`'s -/
theorem release_plain (m m0 : Mgr) (l : Nat → Option Ep) (P pd : Pending) (id : Nat) (o : Ep)
    (g : Good m l P) (he : get m.active id = some o) (hpd : ∀ j, j ≠ id → get pd j = get P j)
    (hsh : ∀ j, get m0.shadowed j = get m.shadowed j) (hn0 : NodupKeys m0.shadowed) : Released m m0 l P pd id o := by
  have hsid : get m.shadowed id = none := by
    cases hs : get m.shadowed id with
    | none => rfl
    | some e => have := (g.a2 id e hs).2; rw [he] at this; cases this
  have hji : ∀ j ej, get m.shadowed j = some ej → j ≠ id := by
    intro j ej hj h; subst h; rw [hsid] at hj; cases hj
  rcases promote_cases m0 pd o.name hn0 with ⟨hp, hnone⟩ | ⟨b, eb, hp, hb, hpb, hbn, hmin⟩
  · left
    refine ⟨hp, good_release_none m l P id o g he ?_⟩
    intro j ej hj hpj
    exact hnone j ej (by rw [hsh]; exact hj) (by rw [hpd j (hji j ej hj)]; exact hpj)
  · right
    rw [hsh] at hb
    rw [hpd b (hji b eb hb)] at hpb
    obtain ⟨f1, f2, f3⟩ := release_facts m l P id o b eb g he hb
    refine ⟨b, eb, hp, good_release_some m l P id o b eb g he hb hpb hbn ?_, hb, hpb, f1, f2, f3⟩
    intro j ej hj hpj hn
    exact hmin j ej (by rw [hsh]; exact hj) (by rw [hpd j (hji j ej hj)]; exact hpj) hn

/-- the scan runs after the larger holder `a` of the NEW name has just been put into the shadowed map -/
theorem release_extra (m m0 : Mgr) (l : Nat → Option Ep) (P pd : Pending) (id : Nat) (o : Ep) (a : Nat) (ea : Ep)
    (g : Good m l P) (he : get m.active id = some o) (hpd : ∀ j, get pd j = get P j)
    (hsh : m0.shadowed = set m.shadowed a ea) (hne : ea.name ≠ o.name) (hsa : get m.shadowed a = none) :
    Released m m0 l P pd id o := by
  have hget : ∀ j, j ≠ a → get m0.shadowed j = get m.shadowed j := by
    intro j hj; rw [hsh, get_set]; simp [Ne.symm hj]
  rcases promote_cases m0 pd o.name (by rw [hsh]; exact nodupKeys_set _ _ _ g.nd) with
    ⟨hp, hnone⟩ | ⟨b, eb, hp, hb, hpb, hbn, hmin⟩
  · left
    refine ⟨hp, good_release_none m l P id o g he ?_⟩
    intro j ej hj hpj
    have hja : j ≠ a := by intro h; subst h; rw [hsa] at hj; cases hj
    exact hnone j ej (by rw [hget j hja]; exact hj) (by rw [hpd]; exact hpj)
  · right
    have hba : b ≠ a := by
      intro h; subst h
      rw [hsh, get_set] at hb; simp at hb; subst hb; exact hne hbn
    rw [hget b hba] at hb
    rw [hpd] at hpb
    obtain ⟨f1, f2, f3⟩ := release_facts m l P id o b eb g he hb
    refine ⟨b, eb, hp, good_release_some m l P id o b eb g he hb hpb hbn ?_, hb, hpb, f1, f2, f3⟩
    intro j ej hj hpj hn
    have hja : j ≠ a := by intro h; subst h; rw [hsa] at hj; cases hj
    exact hmin j ej (by rw [hget j hja]; exact hj) (by rw [hpd]; exact hpj) hn


theorem nextP_none (P : Pending) (id : Nat) : nextP P id none = del P id := rfl
theorem nextP_some (P : Pending) (id b : Nat) (e : Ep) : nextP P id (some (b, e)) = set (del P id) b (some e) := rfl

theorem pu_free (m : Mgr) (pd : Pending) (id : Nat) (w : Ep)
    (hfree : ∀ a, get m.ifaceToID w.name = some a → a = id) :
    m.process pd id (some w) = m.claim (set pd id (some w)) id (get m.active id) w := by
  unfold Mgr.process
  cases h : get m.ifaceToID w.name with
  | none => simp [h]
  | some a => have := hfree a h; subst this; simp [h]

theorem pu_shadow_inactive (m : Mgr) (pd : Pending) (id : Nat) (w : Ep) (a : Nat)
    (h : get m.ifaceToID w.name = some a) (hlt : a < id) (hna : get m.active id = none) :
    m.process pd id (some w) = ({ m with shadowed := set m.shadowed id w }, none) := by
  unfold Mgr.process
  have hne : a ≠ id := by omega
  simp [h, hne, hlt, hna]

theorem pu_shadow_active (m : Mgr) (pd : Pending) (id : Nat) (w : Ep) (a : Nat) (o : Ep)
    (h : get m.ifaceToID w.name = some a) (hlt : a < id) (ha : get m.active id = some o) :
    m.process pd id (some w) =
      (({ ((m.removeActiveWorkload (some o) id).promote (set pd id (some w)) o.name).1 with
          shadowed := set ((m.removeActiveWorkload (some o) id).promote (set pd id (some w)) o.name).1.shadowed id w } : Mgr),
       ((m.removeActiveWorkload (some o) id).promote (set pd id (some w)) o.name).2) := by
  unfold Mgr.process
  have hne : a ≠ id := by omega
  simp [h, hne, hlt, ha]

theorem pu_takeover (m : Mgr) (pd : Pending) (id : Nat) (w : Ep) (a : Nat) (ea : Ep)
    (h : get m.ifaceToID w.name = some a) (hlt : id < a) (hea : get m.active a = some ea) :
    m.process pd id (some w) =
      (({ m with shadowed := set m.shadowed a ea } : Mgr).removeActiveWorkload (some ea) a).claim
        (set pd id (some w)) id (get m.active id) w := by
  unfold Mgr.process
  have hne : a ≠ id := by omega
  have hnlt : ¬ a < id := by omega
  simp [h, hne, hnlt, hea]

theorem good_process_update (m : Mgr) (l : Nat → Option Ep) (P : Pending) (id : Nat) (w : Ep) (g : Good m l P)
    (hP : get P id = some (some w)) : StepOK m l P id (some w) (m.process (del P id) id (some w)) := by
  have hpu : ∀ j, get (set (del P id) id (some w)) j = get P j := get_pendU P id (some w) hP
  cases hold : get m.active id with
  | none =>
    -- the endpoint is not active
    cases h : get m.ifaceToID w.name with
    | none =>
      have hf : ∀ a, get m.ifaceToID w.name = some a → a = id := by intro a ha; rw [h] at ha; cases ha
      rw [pu_free m _ id w hf, hold, claim_same _ _ id none w (by intro o ho; cases ho)]
      refine ⟨good_claim_free m l P id w g hP (by intro o ho; rw [hold] at ho; cases ho) hf, (by intro b e hbe; cases hbe), ?_⟩
      intro x hx; simp only [Mgr.activate, get_set]; simp [Ne.symm hx]
    | some a =>
      by_cases hai : a = id
      · subst hai
        obtain ⟨e, he, _⟩ := g.b1 _ _ h
        rw [hold] at he; cases he
      · by_cases hlt : a < id
        · rw [pu_shadow_inactive m _ id w a h hlt hold]
          refine ⟨good_claim_shadow m l P id w a g hP hold h hlt, (by intro b e hbe; cases hbe), ?_⟩
          intro x _ hx; exact hx
        · have hlt' : id < a := by omega
          obtain ⟨ea, hea, hean⟩ := g.b1 _ _ h
          rw [pu_takeover m _ id w a ea h hlt' hea, hold, claim_same _ _ id none w (by intro o ho; cases ho)]
          have hc : get ({ m with shadowed := set m.shadowed a ea } : Mgr).chainsOf a = some ea.name := g.d1a a ea hea
          rw [removeActive_some _ a ea hc]
          have gt := good_claim_takeover m l P id w a ea g hP hold h hea hlt'
          refine ⟨good_congr _ _ _ _ _ _ gt ?_ ?_ ?_ ?_ ?_ ?_ (fun _ => rfl) (fun _ => rfl) ?_ gt.np, (by intro b e hbe; cases hbe), ?_⟩
          · mapeq
          · intro k; simp only [Mgr.activate, rel, get_set, get_del, hean]
          · mapeq
          · mapeq
          · intro k; simp only [Mgr.activate, rel, get_set, get_del, hean]
          · intro k; cases hu : w.up <;> simp only [Mgr.activate, rel, get_set, get_del, hean, hu, if_true, if_false, Bool.false_eq_true]
          · simp only [Mgr.activate, rel]; exact nodupKeys_del _ _ (nodupKeys_set _ _ _ g.nd)
          · intro x hx; simp only [Mgr.activate, rel, get_set, get_del]; simp only [Ne.symm hx, if_false]; split <;> simp
  | some o =>
    -- the endpoint is active (as version `o`)
    have hc : get m.chainsOf id = some o.name := g.d1a id o hold
    have hio : get m.ifaceToID o.name = some id := g.b2 id o hold
    have hnP : ∀ b eb, b ≠ id → ∀ k, get (nextP P id (some (b, eb))) k = get (del (set P b (some eb)) id) k := by
      intro b eb hb k; simp only [nextP, get_set, get_del]; grind
    have hnd2 : ∀ b eb, NodupKeys (nextP P id (some (b, eb))) := fun b eb => nodupKeys_set _ _ _ (nodupKeys_del _ _ g.np)
    cases h : get m.ifaceToID w.name with
    | none =>
      have hne : o.name ≠ w.name := by intro e; rw [e, h] at hio; cases hio
      have hf : ∀ a, get m.ifaceToID w.name = some a → a = id := by intro a ha; rw [h] at ha; cases ha
      rw [pu_free m _ id w hf, hold, claim_rename m _ id o w hne hc]
      rcases release_plain m (relName m o) l P _ id o g hold (fun j _ => hpu j) (fun _ => rfl) g.nd with
        ⟨hp, gr⟩ | ⟨b, eb, hp, gr, hb, hpb, hbid, hlb, hab⟩
      · rw [hp]
        have gc := good_claim_free (rel m id o) (updL l id none) P id w gr hP
          (by intro o' ho'; simp [rel, get_del] at ho')
          (by intro a ha; simp only [rel, get_del] at ha; split at ha <;> simp_all)
        refine ⟨good_congr _ _ _ _ _ _ gc ?_ ?_ ?_ ?_ ?_ ?_ (fun _ => rfl) (updL_updL l id (some w)) ?_ gc.np,
          (by intro b e hbe; cases hbe), ?_⟩
        · mapeq
        · mapeq
        · mapeq
        · mapeq
        · mapeq
        · mapeq
        · simp only [Mgr.activate, relName]; exact nodupKeys_del _ _ g.nd
        · intro x hx; simp only [Mgr.activate, relName, get_set]; simp [Ne.symm hx]
      · rw [hp]
        have hPb : get (set P b (some eb)) id = some (some w) := by rw [get_set]; simp [hbid, hP]
        have gc := good_claim_free ({ rel m id o with shadowed := del m.shadowed b } : Mgr) (updL l id none)
          (set P b (some eb)) id w gr hPb
          (by intro o' ho'; simp [rel, get_del] at ho')
          (by intro a ha; simp only [rel, get_del] at ha; split at ha <;> simp_all)
        refine ⟨good_congr _ _ _ _ _ _ gc ?_ ?_ ?_ ?_ ?_ ?_ (hnP b eb hbid) (updL_updL l id (some w)) ?_ (hnd2 b eb), ?_, ?_⟩
        · mapeq
        · mapeq
        · mapeq
        · mapeq
        · mapeq
        · mapeq
        · simp only [Mgr.activate, relName]; exact nodupKeys_del _ _ (nodupKeys_del _ _ g.nd)
        · intro b' e' hbe; simp only [Option.some.injEq, Prod.mk.injEq] at hbe; obtain ⟨rfl, rfl⟩ := hbe
          refine ⟨Or.inr (by simp [hold]), hpb, hbid, hlb, ?_⟩
          simp only [Mgr.activate, relName, get_set]; simp [Ne.symm hbid, hab]
        · intro x hx; simp only [Mgr.activate, relName, get_set]; simp [Ne.symm hx]
    | some a =>
      by_cases hai : a = id
      · -- the endpoint keeps its interface name
        subst hai
        have hsame : o.name = w.name := by
          obtain ⟨e, he, hn⟩ := g.b1 _ _ h
          rw [hold] at he; cases he; exact hn
        have hf : ∀ a', get m.ifaceToID w.name = some a' → a' = a := by
          intro a' ha'; rw [h] at ha'; cases ha'; rfl
        rw [pu_free m _ a w hf, hold, claim_same _ _ a (some o) w (by intro o' ho'; cases ho'; exact hsame)]
        refine ⟨good_claim_free m l P a w g hP (by intro o' ho'; rw [hold] at ho'; cases ho'; exact hsame) hf,
          (by intro b e hbe; cases hbe), ?_⟩
        intro x hx; simp only [Mgr.activate, get_set]; simp [Ne.symm hx]
      · have hne : o.name ≠ w.name := by
          intro e; rw [e, h] at hio; simp only [Option.some.injEq] at hio; exact hai hio
        by_cases hlt : a < id
        · -- D3: shadowed behind a smaller holder; the old interface is released
          rw [pu_shadow_active m _ id w a o h hlt hold, removeActive_some m id o hc]
          have hna' : get (rel m id o).active id = none := by simp [rel, get_del]
          have h' : get (rel m id o).ifaceToID w.name = some a := by simp [rel, get_del, hne, h]
          rcases release_plain m (rel m id o) l P _ id o g hold (fun j _ => hpu j) (fun _ => rfl) g.nd with
            ⟨hp, gr⟩ | ⟨b, eb, hp, gr, hb, hpb, hbid, hlb, hab⟩
          · rw [hp]
            have gc := good_claim_shadow (rel m id o) (updL l id none) P id w a gr hP hna' h' hlt
            refine ⟨good_congr _ _ _ _ _ _ gc (fun _ => rfl) (fun _ => rfl) (fun _ => rfl) (fun _ => rfl) (fun _ => rfl)
              (fun _ => rfl) (fun _ => rfl) (updL_updL l id (some w)) gc.nd gc.np, (by intro b e hbe; cases hbe), ?_⟩
            intro x hx; simp only [rel, get_del]; simp [Ne.symm hx]
          · rw [hp]
            have hPb : get (set P b (some eb)) id = some (some w) := by rw [get_set]; simp [hbid, hP]
            have gc := good_claim_shadow ({ rel m id o with shadowed := del m.shadowed b } : Mgr) (updL l id none)
              (set P b (some eb)) id w a gr hPb hna' h' hlt
            refine ⟨good_congr _ _ _ _ _ _ gc (fun _ => rfl) (fun _ => rfl) (fun _ => rfl) (fun _ => rfl) (fun _ => rfl)
              (fun _ => rfl) (hnP b eb hbid) (updL_updL l id (some w)) gc.nd (hnd2 b eb), ?_, ?_⟩
            · intro b' e' hbe; simp only [Option.some.injEq, Prod.mk.injEq] at hbe; obtain ⟨rfl, rfl⟩ := hbe
              refine ⟨Or.inr (by simp [hold]), hpb, hbid, hlb, ?_⟩
              simp only [rel, get_del]; simp [Ne.symm hbid, hab]
            · intro x hx; simp only [rel, get_del]; simp [Ne.symm hx]
        · -- takeover from a larger holder, with a rename
          have hlt' : id < a := by omega
          obtain ⟨ea, hea, hean⟩ := g.b1 _ _ h
          have hsa : get m.shadowed a = none := by
            cases hs : get m.shadowed a with
            | none => rfl
            | some e => have := (g.a2 a e hs).2; rw [hea] at this; cases this
          have hca : get ({ m with shadowed := set m.shadowed a ea } : Mgr).chainsOf a = some ea.name := g.d1a a ea hea
          rw [pu_takeover m _ id w a ea h hlt' hea, hold, removeActive_some _ a ea hca]
          have hc' : get (rel ({ m with shadowed := set m.shadowed a ea } : Mgr) a ea).chainsOf id = some o.name := by
            simp [rel, get_del, hai, hc]
          rw [claim_rename _ _ id o w hne hc']
          have hna' : get (rel m id o).active id = none := by simp [rel, get_del]
          have h' : get (rel m id o).ifaceToID w.name = some a := by simp [rel, get_del, hne, h]
          have hea' : get (rel m id o).active a = some ea := by simp [rel, get_del, Ne.symm hai, hea]
          rcases release_extra m (relName (rel ({ m with shadowed := set m.shadowed a ea } : Mgr) a ea) o) l P _ id o a ea
              g hold hpu rfl (by rw [hean]; exact Ne.symm hne) hsa with
            ⟨hp, gr⟩ | ⟨b, eb, hp, gr, hb, hpb, hbid, hlb, hab⟩
          · rw [hp]
            have gc := good_claim_takeover (rel m id o) (updL l id none) P id w a ea gr hP hna' h' hea' hlt'
            refine ⟨good_congr _ _ _ _ _ _ gc ?_ ?_ ?_ ?_ ?_ ?_ (fun _ => rfl) (updL_updL l id (some w)) ?_ gc.np,
              (by intro b e hbe; cases hbe), ?_⟩
            · mapeq
            · intro k; simp only [Mgr.activate, rel, relName, get_set, get_del, hean]; grind
            · mapeq
            · mapeq
            · intro k; simp only [Mgr.activate, rel, relName, get_set, get_del, hean]; grind
            · intro k; cases hu : w.up <;> simp only [Mgr.activate, rel, relName, get_set, get_del, hean, hu, if_true, if_false, Bool.false_eq_true] <;> grind
            · simp only [Mgr.activate, rel, relName]; exact nodupKeys_del _ _ (nodupKeys_set _ _ _ g.nd)
            · intro x hx; simp only [Mgr.activate, rel, relName, get_set, get_del]; simp only [Ne.symm hx, if_false]; split <;> simp
          · rw [hp]
            have hPb : get (set P b (some eb)) id = some (some w) := by rw [get_set]; simp [hbid, hP]
            have hba : b ≠ a := by intro e; subst e; rw [hsa] at hb; cases hb
            have gc := good_claim_takeover ({ rel m id o with shadowed := del m.shadowed b } : Mgr) (updL l id none)
              (set P b (some eb)) id w a ea gr hPb hna' h' hea' hlt'
            refine ⟨good_congr _ _ _ _ _ _ gc ?_ ?_ ?_ ?_ ?_ ?_ (hnP b eb hbid) (updL_updL l id (some w)) ?_ (hnd2 b eb), ?_, ?_⟩
            · mapeq
            · intro k; simp only [Mgr.activate, rel, relName, get_set, get_del, hean]; grind
            · mapeq
            · mapeq
            · intro k; simp only [Mgr.activate, rel, relName, get_set, get_del, hean]; grind
            · intro k; cases hu : w.up <;> simp only [Mgr.activate, rel, relName, get_set, get_del, hean, hu, if_true, if_false, Bool.false_eq_true] <;> grind
            · simp only [Mgr.activate, rel, relName]
              exact nodupKeys_del _ _ (nodupKeys_del _ _ (nodupKeys_set _ _ _ g.nd))
            · intro b' e' hbe; simp only [Option.some.injEq, Prod.mk.injEq] at hbe; obtain ⟨rfl, rfl⟩ := hbe
              refine ⟨Or.inr (by simp [hold]), hpb, hbid, hlb, ?_⟩
              simp only [Mgr.activate, rel, relName, get_set, get_del]; simp [Ne.symm hbid, hba, hab]
            · intro x hx; simp only [Mgr.activate, rel, relName, get_set, get_del]; simp only [Ne.symm hx, if_false]; split <;> simp

theorem pr_inactive (m : Mgr) (pd : Pending) (id : Nat) (he : get m.active id = none)
    (hc : get m.chainsOf id = none) :
    m.process pd id none =
      ({ m with chainsOf := del m.chainsOf id, active := del m.active id, shadowed := del m.shadowed id }, none) := by
  unfold Mgr.process
  simp [he, removeActive_none m id hc]

theorem pr_active (m : Mgr) (pd : Pending) (id : Nat) (o : Ep) (he : get m.active id = some o)
    (hc : get m.chainsOf id = some o.name) :
    m.process pd id none = ({ rel m id o with shadowed := del m.shadowed id } : Mgr).promote pd o.name := by
  unfold Mgr.process
  simp [he, removeActive_some m id o hc, rel]

theorem good_process_remove (m : Mgr) (l : Nat → Option Ep) (P : Pending) (id : Nat) (g : Good m l P)
    (hP : get P id = some none) : StepOK m l P id none (m.process (del P id) id none) := by
  cases hold : get m.active id with
  | none =>
    rw [pr_inactive m _ id hold (g.d1b id hold)]
    refine ⟨good_remove_inactive m l P id g hP hold, (by intro b e hbe; cases hbe), ?_⟩
    intro x hx; simp only [get_del]; simp [Ne.symm hx]
  | some o =>
    have hsid : get m.shadowed id = none := by
      cases hs : get m.shadowed id with
      | none => rfl
      | some e => have := (g.a2 id e hs).2; rw [hold] at this; cases this
    rw [pr_active m _ id o hold (g.d1a id o hold)]
    have hl : updL l id none id = none := by simp [updL]
    rcases release_plain m ({ rel m id o with shadowed := del m.shadowed id } : Mgr) l P (del P id) id o g hold
        (by intro j hj; rw [get_del]; simp [Ne.symm hj])
        (by intro j; simp only [get_del]; split
            · rename_i e; subst e; exact hsid.symm
            · rfl)
        (nodupKeys_del _ _ g.nd) with
      ⟨hp, gr⟩ | ⟨b, eb, hp, gr, hb, hpb, hbid, hlb, hab⟩
    · rw [hp]
      have gd := good_drop_removal _ _ P id gr hP hl
      refine ⟨good_congr _ _ _ _ _ _ gd (fun _ => rfl) (fun _ => rfl) ?_ (fun _ => rfl) (fun _ => rfl) (fun _ => rfl)
        (fun _ => rfl) (fun _ => rfl) (nodupKeys_del _ _ g.nd) gd.np, (by intro b e hbe; cases hbe), ?_⟩
      · intro k; simp only [rel, get_del]; split
        · rename_i e; subst e; exact hsid.symm
        · rfl
      · intro x hx; simp only [rel, get_del]; simp [Ne.symm hx]
    · rw [hp]
      have hPb : get (set P b (some eb)) id = some none := by rw [get_set]; simp [hbid, hP]
      have gd := good_drop_removal _ _ (set P b (some eb)) id gr hPb hl
      refine ⟨good_congr _ _ _ _ _ _ gd (fun _ => rfl) (fun _ => rfl) ?_ (fun _ => rfl) (fun _ => rfl) (fun _ => rfl)
        ?_ (fun _ => rfl) (nodupKeys_del _ _ (nodupKeys_del _ _ g.nd))
        (nodupKeys_set _ _ _ (nodupKeys_del _ _ g.np)), ?_, ?_⟩
      · intro k; simp only [rel, get_del]; grind
      · intro k; simp only [nextP, get_set, get_del]; grind
      · intro b' e' hbe; simp only [Option.some.injEq, Prod.mk.injEq] at hbe; obtain ⟨rfl, rfl⟩ := hbe
        refine ⟨Or.inl rfl, hpb, hbid, hlb, ?_⟩
        simp only [rel, get_del]; simp [Ne.symm hbid, hab]
      · intro x hx; simp only [rel, get_del]; simp [Ne.symm hx]

theorem good_process (m : Mgr) (l : Nat → Option Ep) (P : Pending) (id : Nat) (w : Option Ep) (g : Good m l P)
    (hP : get P id = some w) : StepOK m l P id w (m.process (del P id) id w) := by
  cases w with
  | some w => exact good_process_update m l P id w g hP
  | none => exact good_process_remove m l P id g hP
/-! ### A whole batch, in any processing order -/

/-- the live endpoints once every pending entry has been applied -/
def lAfter (l : Nat → Option Ep) (P : Pending) : Nat → Option Ep :=
  fun id => match get P id with
    | some v => v
    | none => l id

/-- weight of a pending entry: processing a removal, or an update of an endpoint that is active, can
queue one promotion (an update of an endpoint that is not active) -/
def wt (m : Mgr) (p : Nat × Option Ep) : Nat := if p.2.isNone || (get m.active p.1).isSome then 2 else 1

/-- termination measure of the pending map -/
def mu (m : Mgr) (P : Pending) : Nat := (P.map (wt m)).sum

theorem wt_pos (m : Mgr) (p : Nat × Option Ep) : 1 ≤ wt m p := by unfold wt; split <;> omega
theorem wt_le (m : Mgr) (p : Nat × Option Ep) : wt m p ≤ 2 := by unfold wt; split <;> omega

theorem mu_pos_of_ne_nil (m : Mgr) (P : Pending) (h : P ≠ []) : 0 < mu m P := by
  cases P with
  | nil => exact absurd rfl h
  | cons p r => unfold mu; simp only [List.map_cons, List.sum_cons]; have := wt_pos m p; omega

theorem mu_le (m : Mgr) (P : Pending) : mu m P ≤ 2 * P.length := by
  unfold mu
  induction P with
  | nil => simp
  | cons p r ih => simp only [List.map_cons, List.sum_cons, List.length_cons]; have := wt_le m p; omega

theorem del_of_absent (P : Pending) (b : Nat) (h : get P b = none) : del P b = P := by
  induction P with
  | nil => rfl
  | cons p r ih =>
    obtain ⟨a, v⟩ := p
    by_cases e : a = b
    · subst e; simp [C18.get] at h
    · simp only [C18.get, e, if_false] at h
      have := ih h
      unfold del at this ⊢
      simp only [List.filter, ne_eq, e, not_false_eq_true, decide_true]
      rw [this]

theorem mu_del (m : Mgr) (P : Pending) (hn : NodupKeys P) (id : Nat) (w : Option Ep) (h : get P id = some w) :
    mu m (del P id) + wt m (id, w) = mu m P := by
  induction P with
  | nil => simp [C18.get] at h
  | cons p r ih =>
    obtain ⟨a, v⟩ := p
    have hn' : a ∉ C18.keys r ∧ NodupKeys r := by simpa [NodupKeys, C18.keys] using hn
    by_cases e : a = id
    · subst e
      simp only [C18.get, if_true, Option.some.injEq] at h
      subst h
      have hr : get r a = none := (C18.get_eq_none_iff r a).2 hn'.1
      have : del ((a, v) :: r) a = r := by
        have := del_of_absent r a hr
        simp only [del, List.filter, ne_eq, not_true_eq_false, decide_false] at this ⊢
        exact this
      rw [this]; unfold mu; simp only [List.map_cons, List.sum_cons]; omega
    · simp only [C18.get, e, if_false] at h
      have := ih hn'.2 h
      have hd : del ((a, v) :: r) id = (a, v) :: del r id := by
        simp [del, List.filter, e]
      rw [hd]; unfold mu at this ⊢; simp only [List.map_cons, List.sum_cons]; omega

theorem mu_set_fresh (m : Mgr) (P : Pending) (b : Nat) (v : Option Ep) (h : get P b = none) :
    mu m (set P b v) = mu m P + wt m (b, v) := by
  unfold C18.set
  rw [del_of_absent P b h]
  unfold mu; simp only [List.map_cons, List.sum_cons]; omega

theorem mu_mono (m m' : Mgr) (P : Pending) (h : ∀ p ∈ P, wt m' p ≤ wt m p) : mu m' P ≤ mu m P := by
  unfold mu
  induction P with
  | nil => simp
  | cons p r ih =>
    simp only [List.map_cons, List.sum_cons]
    have := h p (by simp)
    have := ih (fun q hq => h q (by simp [hq]))
    omega

theorem mem_del_ne (P : Pending) (id : Nat) (p : Nat × Option Ep) (h : p ∈ del P id) : p.1 ≠ id := by
  unfold del at h
  simpa using (List.mem_filter.1 h).2

theorem good_resolveAll (fuel : Nat) : ∀ (m : Mgr) (l : Nat → Option Ep) (P : Pending), Good m l P → mu m P ≤ fuel →
    ∀ m' ∈ m.resolveAll fuel P, Good m' (lAfter l P) [] := by
  induction fuel with
  | zero =>
    intro m l P g hmu m' hm'
    have hP : P = [] := by
      cases P with
      | nil => rfl
      | cons p r => have := mu_pos_of_ne_nil m (p :: r) (by simp); omega
    subst hP
    simp only [Mgr.resolveAll, List.mem_singleton] at hm'
    subst hm'
    exact g
  | succ fuel ih =>
    intro m l P g hmu m' hm'
    cases P with
    | nil =>
      simp only [Mgr.resolveAll, List.mem_singleton] at hm'
      subst hm'
      exact g
    | cons p ps =>
      simp only [Mgr.resolveAll, List.mem_flatMap] at hm'
      obtain ⟨q, hq, hm'⟩ := hm'
      obtain ⟨id, w⟩ := q
      have hP : get (p :: ps) id = some w := (get_eq_some_iff _ g.np id w).2 hq
      obtain ⟨g1, hq1, hmono⟩ := good_process m l (p :: ps) id w g hP
      have hmd := mu_del m (p :: ps) g.np id w hP
      have hwt : ∀ q ∈ del (p :: ps) id, wt (m.process (del (p :: ps) id) id w).1 q ≤ wt m q := by
        intro q hq
        have hne := mem_del_ne _ _ q hq
        unfold wt
        cases hq2 : q.2.isNone
        · simp only [Bool.false_or]
          cases ha : (get (m.process (del (p :: ps) id) id w).1.active q.1).isSome
          · simp only [Bool.false_eq_true, if_false]; split <;> omega
          · have := hmono q.1 hne ha; simp [this]
        · simp
      have hm1 := mu_mono m _ _ hwt
      cases hr : (m.process (del (p :: ps) id) id w).2 with
      | none =>
        simp only [hr] at hm' g1
        have hw1 := wt_pos m (id, w)
        have := ih _ _ _ g1 (by simp only [nextP]; omega) m' hm'
        have hl : lAfter (updL l id w) (nextP (p :: ps) id none) = lAfter l (p :: ps) := by
          show lAfter (updL l id w) (del (p :: ps) id) = lAfter l (p :: ps)
          funext x
          unfold lAfter updL
          rw [get_del]
          by_cases e : id = x
          · subst e; simp [hP]
          · have : ¬ x = id := fun h => e h.symm
            simp [e, this]
        rw [hl] at this; exact this
      | some be =>
        obtain ⟨b, e⟩ := be
        simp only [hr] at hm' g1
        obtain ⟨hw, hpb, hbid, hlb, hab⟩ := hq1 b e hr
        have hpb' : get (del (p :: ps) id) b = none := by rw [get_del]; simp [Ne.symm hbid, hpb]
        have hms := mu_set_fresh (m.process (del (p :: ps) id) id w).1 (del (p :: ps) id) b (some e) hpb'
        have hwb : wt (m.process (del (p :: ps) id) id w).1 (b, some e) = 1 := by simp [wt, hab]
        have hw2 : wt m (id, w) = 2 := by
          unfold wt
          rcases hw with h | h
          · subst h; simp
          · simp [h]
        have := ih _ _ _ g1 (by simp only [nextP]; omega) m' hm'
        have hl : lAfter (updL l id w) (nextP (p :: ps) id (some (b, e))) = lAfter l (p :: ps) := by
          show lAfter (updL l id w) (set (del (p :: ps) id) b (some e)) = lAfter l (p :: ps)
          funext x
          unfold lAfter updL
          rw [get_set, get_del]
          by_cases e1 : b = x
          · subst e1; simp [hpb, hlb]
          · by_cases e2 : id = x
            · subst e2; simp [e1, hP]
            · have : ¬ x = id := fun h => e2 h.symm
              simp [e1, e2, this]
        rw [hl] at this; exact this

/-! ### Histories of batches -/

theorem nodup_mkPending (us : Batch) : NodupKeys (mkPending us) := by
  unfold mkPending
  suffices h : ∀ P : Pending, NodupKeys P → NodupKeys (us.foldl (fun p u => set p u.1 u.2) P) from h [] nodupKeys_nil
  induction us with
  | nil => intro P h; exact h
  | cons u r ih => intro P h; exact ih _ (nodupKeys_set _ _ _ h)

theorem nodup_applyEntry (l : GoMap Nat Ep) (p : Nat × Option Ep) (h : NodupKeys l) : NodupKeys (applyEntry l p) := by
  unfold applyEntry; split
  · exact nodupKeys_set _ _ _ h
  · exact nodupKeys_del _ _ h

theorem nodup_fold_applyEntry (P : Pending) (l : GoMap Nat Ep) (h : NodupKeys l) : NodupKeys (P.foldl applyEntry l) := by
  induction P generalizing l with
  | nil => exact h
  | cons p r ih => exact ih _ (nodup_applyEntry l p h)

theorem get_fold_applyEntry (P : Pending) (hn : NodupKeys P) (l : GoMap Nat Ep) (id : Nat) :
    get (P.foldl applyEntry l) id = lAfter (get l) P id := by
  induction P generalizing l with
  | nil => rfl
  | cons p r ih =>
    obtain ⟨a, v⟩ := p
    have hn' : a ∉ C18.keys r ∧ NodupKeys r := by simpa [NodupKeys, C18.keys] using hn
    simp only [List.foldl_cons, ih hn'.2]
    unfold lAfter
    by_cases e : a = id
    · subst e
      have hr : get r a = none := (C18.get_eq_none_iff r a).2 hn'.1
      simp only [hr, C18.get, if_true]
      unfold applyEntry
      cases v <;> simp [get_set, get_del]
    · simp only [C18.get, e, if_false]
      cases get r id with
      | some x => rfl
      | none =>
        simp only
        unfold applyEntry
        cases v <;> simp [get_set, get_del, e]

theorem good_ext (m : Mgr) (l l' : Nat → Option Ep) (P : Pending) (h : ∀ id, l id = l' id) (g : Good m l P) :
    Good m l' P := by
  have : l = l' := funext h
  subst this; exact g

/-- one batch, whatever the processing order -/
theorem good_batch (m : Mgr) (l : GoMap Nat Ep) (us : Batch) (g : Good m (get l) [])
    (m' : Mgr) (hm : m' ∈ m.batch us) : Good m' (get (liveB l us)) [] := by
  have hnp := nodup_mkPending us
  have g0 : Good m (get l) (mkPending us) := by
    obtain ⟨a1, a2, a3, b1, b2, c, d1a, d1b, d2a, d2b, d3a, d3b, nd, np⟩ := g
    refine ⟨a1, a2, ?_, b1, b2, ?_, d1a, d1b, d2a, d2b, d3a, d3b, nd, hnp⟩
    · intro id e h
      rcases a3 id e h with h1 | h1 | h1
      · exact Or.inl h1
      · exact Or.inr (Or.inl h1)
      · simp [C18.get] at h1
    · intro id e h
      rcases c id e h with h1 | h1 | ⟨b, eb, hb, _⟩
      · exact Or.inl h1
      · exact absurd rfl h1
      · simp [C18.get] at hb
  have hmu : mu m (mkPending us) ≤ 2 * (mkPending us).length + 2 := by
    have := mu_le m (mkPending us); omega
  have := good_resolveAll _ m (get l) (mkPending us) g0 hmu m' hm
  exact good_ext _ _ _ _ (fun id => (get_fold_applyEntry _ hnp l id).symm) this

theorem good_new : Good Mgr.new (get ([] : GoMap Nat Ep)) [] := by
  constructor <;> intros <;> simp_all [Mgr.new, C18.get, NodupKeys, C18.keys]

theorem nodup_liveB (l : GoMap Nat Ep) (us : Batch) (h : NodupKeys l) : NodupKeys (liveB l us) :=
  nodup_fold_applyEntry _ _ h

theorem good_reach (bs : List Batch) : ∀ (m : Mgr) (l : GoMap Nat Ep), Good m (get l) [] → NodupKeys l →
    ∀ m', ReachFrom m bs m' →
    Good m' (get (bs.foldl liveB l)) [] ∧ NodupKeys (bs.foldl liveB l) := by
  induction bs with
  | nil => intro m l g hl m' hr; simp only [ReachFrom] at hr; subst hr; exact ⟨g, hl⟩
  | cons us r ih =>
    intro m l g hl m' hr
    obtain ⟨m1, hm1, hr'⟩ := hr
    exact ih m1 (liveB l us) (good_batch m l us g m1 hm1) (nodup_liveB l us hl) m' hr'

/-- In a `Good` state with nothing pending the holder of an interface is the minimum live claimant. -/
theorem best_of_good (m : Mgr) (l : GoMap Nat Ep) (g : Good m (get l) []) (hl : NodupKeys l) (name : Nat) :
    bestShadowed l name = get m.ifaceToID name := by
  have hc : ∀ id e, get m.shadowed id = some e → ∃ a, get m.ifaceToID e.name = some a ∧ a < id := by
    intro id e h
    rcases g.c id e h with h1 | h1 | ⟨b, eb, hb, _⟩
    · exact h1
    · exact absurd rfl h1
    · simp [C18.get] at hb
  have ha3 : ∀ id e, get l id = some e → get m.active id = some e ∨ get m.shadowed id = some e := by
    intro id e h
    rcases g.a3 id e h with h1 | h1 | h1
    · exact Or.inl h1
    · exact Or.inr h1
    · simp [C18.get] at h1
  cases hi : get m.ifaceToID name with
  | none =>
    cases hb : bestShadowed l name with
    | none => rfl
    | some b =>
      exfalso
      obtain ⟨⟨e, he, hn⟩, _⟩ := bestShadowed_some l hl name b hb
      rcases ha3 b e he with h1 | h1
      · have := g.b2 b e h1; rw [hn, hi] at this; cases this
      · obtain ⟨a, ha, _⟩ := hc b e h1; rw [hn, hi] at ha; cases ha
  | some h =>
    obtain ⟨e, hact, hen⟩ := g.b1 name h hi
    have hlh := g.a1 h e hact
    cases hb : bestShadowed l name with
    | none => exact absurd hen (bestShadowed_none l hl name hb h e hlh)
    | some b =>
      obtain ⟨⟨eb, heb, hn⟩, hmin⟩ := bestShadowed_some l hl name b hb
      have hle := hmin h e hlh hen
      rcases ha3 b eb heb with h1 | h1
      · have := g.b2 b eb h1; rw [hn, hi] at this; cases this; rfl
      · obtain ⟨a, ha, hlt⟩ := hc b eb h1; rw [hn, hi] at ha; cases ha; omega

theorem chains_of_good (m : Mgr) (l : GoMap Nat Ep) (g : Good m (get l) []) (hl : NodupKeys l) (name : Nat) :
    get m.chains name = specChains l name ∧ get m.routes name = specRoutes l name := by
  unfold specChains specRoutes preferred
  rw [best_of_good m l g hl name]
  cases hi : get m.ifaceToID name with
  | none => exact ⟨g.d2b name hi, g.d3b name hi⟩
  | some h =>
    obtain ⟨e, hact, hen⟩ := g.b1 name h hi
    have hlh := g.a1 h e hact
    simp only [Option.bind_some, hlh, Option.map_some]
    refine ⟨g.d2a name h e hi hact, ?_⟩
    rw [g.d3a name h e hi hact]

/-- The minimum scan only depends on the map as a function. -/
theorem bestShadowed_congr (l1 l2 : GoMap Nat Ep) (h1 : NodupKeys l1) (h2 : NodupKeys l2)
    (h : ∀ id, get l1 id = get l2 id) (name : Nat) : bestShadowed l1 name = bestShadowed l2 name := by
  cases hb1 : bestShadowed l1 name with
  | none =>
    cases hb2 : bestShadowed l2 name with
    | none => rfl
    | some b =>
      obtain ⟨⟨e, he, hn⟩, _⟩ := bestShadowed_some l2 h2 name b hb2
      exact absurd hn (bestShadowed_none l1 h1 name hb1 b e (by rw [h]; exact he))
  | some a =>
    obtain ⟨⟨ea, hea, hna⟩, hmina⟩ := bestShadowed_some l1 h1 name a hb1
    cases hb2 : bestShadowed l2 name with
    | none => exact absurd hna (bestShadowed_none l2 h2 name hb2 a ea (by rw [← h]; exact hea))
    | some b =>
      obtain ⟨⟨eb, heb, hnb⟩, hminb⟩ := bestShadowed_some l2 h2 name b hb2
      have := hmina b eb (by rw [h]; exact heb) hnb
      have := hminb a ea (by rw [← h]; exact hea) hna
      congr 1; omega



end CalicoVerif.C44
