import CalicoVerif.Model.C44
import CalicoVerif.Proofs.C18
/-! Helper lemmas for C44: the minimum scan, the invariant `Good` behind the no-rename theorem, and its
preservation by every operation. -/
namespace CalicoVerif.C44
open CalicoVerif.C18 (GoMap get set del get_set get_del NodupKeys nodupKeys_set nodupKeys_del nodupKeys_nil get_eq_some_iff)

def bestStep (name : Nat) (best : Option Nat) (p : Nat × Ep) : Option Nat :=
  if p.2.name = name then
    match best with
    | none => some p.1
    | some b => if p.1 < b then some p.1 else some b
  else best

theorem bestShadowed_eq (sh : GoMap Nat Ep) (name : Nat) : bestShadowed sh name = sh.foldl (bestStep name) none := rfl

theorem best_fold (name : Nat) (l : List (Nat × Ep)) (best : Option Nat) :
    (l.foldl (bestStep name) best = none ↔ best = none ∧ ∀ p ∈ l, p.2.name ≠ name) ∧
    (∀ i, l.foldl (bestStep name) best = some i →
      (best = some i ∨ ∃ e, (i, e) ∈ l ∧ e.name = name) ∧ (∀ b, best = some b → i ≤ b) ∧
      ∀ p ∈ l, p.2.name = name → i ≤ p.1) := by
  induction l generalizing best with
  | nil =>
    simp only [List.foldl_nil, List.not_mem_nil, false_implies, implies_true, and_true, true_and, false_and, exists_false, or_false]
    intro i hi
    exact ⟨hi, fun b hb => by rw [hi] at hb; cases hb; exact Nat.le_refl _⟩
  | cons p r ih =>
    simp only [List.foldl_cons]
    have ih' := ih (bestStep name best p)
    constructor
    · rw [ih'.1]
      unfold bestStep
      by_cases hp : p.2.name = name
      · cases best with
        | none => simp [hp]
        | some b => simp only [hp, if_true]; split <;> simp [hp]
      · simp [hp]
    · intro i hi
      obtain ⟨h1, h2, h3⟩ := ih'.2 i hi
      unfold bestStep at h1 h2
      by_cases hp : p.2.name = name
      · simp only [hp, if_true] at h1 h2
        cases best with
        | none =>
          simp only at h1 h2
          refine ⟨?_, by simp, ?_⟩
          · rcases h1 with h1 | ⟨e, he, hn⟩
            · right; exact ⟨p.2, by simp only [Option.some.injEq] at h1; subst h1; simp, hp⟩
            · right; exact ⟨e, by simp [he], hn⟩
          · intro q hq hqn
            rcases List.mem_cons.1 hq with rfl | hq
            · exact h2 _ rfl
            · exact h3 q hq hqn
        | some b =>
          simp only at h1 h2
          by_cases hlt : p.1 < b
          · simp only [hlt, if_true] at h1 h2
            refine ⟨?_, ?_, ?_⟩
            · rcases h1 with h1 | ⟨e, he, hn⟩
              · right; exact ⟨p.2, by simp only [Option.some.injEq] at h1; subst h1; simp, hp⟩
              · right; exact ⟨e, by simp [he], hn⟩
            · intro b' hb'; simp only [Option.some.injEq] at hb'; subst hb'
              have := h2 _ rfl; omega
            · intro q hq hqn
              rcases List.mem_cons.1 hq with rfl | hq
              · exact h2 _ rfl
              · exact h3 q hq hqn
          · simp only [hlt, if_false] at h1 h2
            refine ⟨?_, ?_, ?_⟩
            · rcases h1 with h1 | ⟨e, he, hn⟩
              · left; exact h1
              · right; exact ⟨e, by simp [he], hn⟩
            · intro b' hb'; simp only [Option.some.injEq] at hb'; subst hb'
              exact h2 _ rfl
            · intro q hq hqn
              rcases List.mem_cons.1 hq with rfl | hq
              · have := h2 _ rfl; omega
              · exact h3 q hq hqn
      · simp only [hp, if_false] at h1 h2
        refine ⟨?_, h2, ?_⟩
        · rcases h1 with h1 | ⟨e, he, hn⟩
          · left; exact h1
          · right; exact ⟨e, by simp [he], hn⟩
        · intro q hq hqn
          rcases List.mem_cons.1 hq with rfl | hq
          · exact absurd hqn hp
          · exact h3 q hq hqn

theorem bestShadowed_none (sh : GoMap Nat Ep) (hn : NodupKeys sh) (name : Nat) (h : bestShadowed sh name = none) :
    ∀ j e, get sh j = some e → e.name ≠ name := by
  intro j e hg
  have := ((best_fold name sh none).1.1 h).2 (j, e) ((get_eq_some_iff sh hn j e).1 hg)
  exact this

theorem bestShadowed_some (sh : GoMap Nat Ep) (hn : NodupKeys sh) (name b : Nat) (h : bestShadowed sh name = some b) :
    (∃ e, get sh b = some e ∧ e.name = name) ∧ ∀ j e, get sh j = some e → e.name = name → b ≤ j := by
  obtain ⟨h1, _, h3⟩ := (best_fold name sh none).2 b h
  constructor
  · rcases h1 with h1 | ⟨e, he, hne⟩
    · cases h1
    · exact ⟨e, (get_eq_some_iff sh hn b e).2 he, hne⟩
  · intro j e hg hne
    exact h3 (j, e) ((get_eq_some_iff sh hn j e).1 hg) hne
/-- `l` with the value at `id` replaced. -/
def updL (l : Nat → Option Ep) (id : Nat) (v : Option Ep) : Nat → Option Ep := fun x => if x = id then v else l x

/-- The invariant behind the no-rename theorems.  `l` = the live endpoints as far as the updates
processed so far say; `P` = the updates of the current batch that are still pending (`[]` between
batches).  With `P = []` the clauses say: active ∪ shadowed = live, an interface's holder is the
minimum live id claiming it, and chains/routes are exactly the holders'. -/
structure Good (m : Mgr) (l : Nat → Option Ep) (P : Pending) : Prop where
  a1 : ∀ id e, get m.active id = some e → l id = some e
  a2 : ∀ id e, get m.shadowed id = some e → l id = some e ∧ get m.active id = none
  a3 : ∀ id e, l id = some e →
    get m.active id = some e ∨ get m.shadowed id = some e ∨ get P id = some (some e)
  b1 : ∀ name id, get m.ifaceToID name = some id → ∃ e, get m.active id = some e ∧ e.name = name
  b2 : ∀ id e, get m.active id = some e → get m.ifaceToID e.name = some id
  /-- a shadowed endpoint waits behind a smaller active holder — or its fate is still pending: it has an
  entry of its own, or a smaller endpoint claiming the same interface has. -/
  c : ∀ id e, get m.shadowed id = some e →
    (∃ a, get m.ifaceToID e.name = some a ∧ a < id) ∨ get P id ≠ none ∨
    (∃ b eb, get P b = some (some eb) ∧ eb.name = e.name ∧ b < id)
  d1a : ∀ id e, get m.active id = some e → get m.chainsOf id = some e.name
  d1b : ∀ id, get m.active id = none → get m.chainsOf id = none
  d2a : ∀ name id e, get m.ifaceToID name = some id → get m.active id = some e →
    get m.chains name = some ⟨id, e.up, e.data⟩
  d2b : ∀ name, get m.ifaceToID name = none → get m.chains name = none
  d3a : ∀ name id e, get m.ifaceToID name = some id → get m.active id = some e →
    get m.routes name = if e.up then some (id, e.data) else none
  d3b : ∀ name, get m.ifaceToID name = none → get m.routes name = none
  nd : NodupKeys m.shadowed
  np : NodupKeys P
  /-- no pending update renames a live endpoint -/
  nr : ∀ id w, get P id = some (some w) → ∀ e, l id = some e → e.name = w.name

/-- the tactic used for every clause: push `get` through `set`/`del`, then first-order reasoning. -/
macro "clause" : tactic => `(tactic| (intros; (try simp only [get_set, get_del, updL] at *); grind))

/-! ### Explicit forms of the composite operations -/

theorem activate_norename (m : Mgr) (id : Nat) (old : Option Ep) (w : Ep)
    (h : ∀ o, old = some o → o.name = w.name) :
    m.activate id old w = { m with
      chains := set m.chains w.name ⟨id, w.up, w.data⟩,
      chainsOf := set m.chainsOf id w.name,
      routes := if w.up then set m.routes w.name (id, w.data) else del m.routes w.name,
      active := set m.active id w,
      ifaceToID := set m.ifaceToID w.name id,
      shadowed := del m.shadowed id } := by
  unfold Mgr.activate
  cases old with
  | none => rfl
  | some o => simp [h o rfl]

theorem removeActive_some (m : Mgr) (a : Nat) (ea : Ep) (h2 : get m.chainsOf a = some ea.name) :
    m.removeActiveWorkload (some ea) a = { m with
      chains := del m.chains ea.name, chainsOf := del m.chainsOf a, routes := del m.routes ea.name,
      ifaceToID := del m.ifaceToID ea.name, active := del m.active a } := by
  unfold Mgr.removeActiveWorkload Mgr.removeChainsOf
  simp [h2]

theorem removeActive_none (m : Mgr) (a : Nat) (h2 : get m.chainsOf a = none) :
    m.removeActiveWorkload none a = { m with chainsOf := del m.chainsOf a, active := del m.active a } := by
  unfold Mgr.removeActiveWorkload Mgr.removeChainsOf
  simp [h2]

theorem process_update_free (m : Mgr) (pd : Pending) (id : Nat) (w : Ep)
    (hfree : ∀ a, get m.ifaceToID w.name = some a → a = id) :
    m.process pd id (some w) = (m.activate id (get m.active id) w, none) := by
  unfold Mgr.process
  cases h : get m.ifaceToID w.name with
  | none => simp [h]
  | some a => have := hfree a h; subst this; simp [h]

theorem process_update_shadow (m : Mgr) (pd : Pending) (id : Nat) (w : Ep) (a : Nat)
    (h : get m.ifaceToID w.name = some a) (hlt : a < id) :
    m.process pd id (some w) = ({ m with shadowed := set m.shadowed id w }, none) := by
  unfold Mgr.process
  have hne : a ≠ id := by omega
  simp [h, hne, hlt]

theorem process_update_takeover (m : Mgr) (pd : Pending) (id : Nat) (w : Ep) (a : Nat) (ea : Ep)
    (h : get m.ifaceToID w.name = some a) (hlt : id < a) (hea : get m.active a = some ea) :
    m.process pd id (some w) =
      ((({ m with shadowed := set m.shadowed a ea } : Mgr).removeActiveWorkload (some ea) a).activate id
        (get m.active id) w, none) := by
  unfold Mgr.process
  have hne : a ≠ id := by omega
  have hnlt : ¬ a < id := by omega
  simp [h, hne, hnlt, hea]

/-! ### One pending UPDATE is processed -/

/-- U1: the endpoint holds its interface already, or the interface is free. -/
theorem good_update_free (m : Mgr) (l : Nat → Option Ep) (P : Pending) (id : Nat) (w : Ep) (g : Good m l P)
    (hP : get P id = some (some w))
    (hfree : ∀ a, get m.ifaceToID w.name = some a → a = id) :
    Good ({ m with
      chains := set m.chains w.name ⟨id, w.up, w.data⟩,
      chainsOf := set m.chainsOf id w.name,
      routes := if w.up then set m.routes w.name (id, w.data) else del m.routes w.name,
      active := set m.active id w,
      ifaceToID := set m.ifaceToID w.name id,
      shadowed := del m.shadowed id } : Mgr) (updL l id (some w)) (del P id) := by
  obtain ⟨a1, a2, a3, b1, b2, c, d1a, d1b, d2a, d2b, d3a, d3b, nd, np, nr⟩ := g
  have hnr := nr id w hP
  constructor
  · clause
  · clause
  · clause
  · clause
  · clause
  · clause
  · clause
  · clause
  · clause
  · clause
  · intro n i e; cases hu : w.up <;> simp only [hu, get_set, get_del, updL] <;> grind
  · intro n; cases hu : w.up <;> simp only [hu, get_set, get_del, updL] <;> grind
  · exact nodupKeys_del _ _ nd
  · exact nodupKeys_del _ _ np
  · clause

/-- U2: the interface is held by a smaller id: the endpoint is (re)shadowed. -/
theorem good_update_shadow (m : Mgr) (l : Nat → Option Ep) (P : Pending) (id : Nat) (w : Ep) (a : Nat)
    (g : Good m l P) (hP : get P id = some (some w))
    (h : get m.ifaceToID w.name = some a) (hlt : a < id) :
    Good ({ m with shadowed := set m.shadowed id w } : Mgr) (updL l id (some w)) (del P id) := by
  obtain ⟨a1, a2, a3, b1, b2, c, d1a, d1b, d2a, d2b, d3a, d3b, nd, np, nr⟩ := g
  have hnr := nr id w hP
  have hna : get m.active id = none := by
    cases hact : get m.active id with
    | none => rfl
    | some e =>
      have h1 := hnr e (a1 id e hact)
      have h2 := b2 id e hact
      rw [h1, h] at h2
      simp only [Option.some.injEq] at h2; omega
  constructor
  · clause
  · clause
  · clause
  · clause
  · clause
  · clause
  · clause
  · clause
  · clause
  · clause
  · clause
  · clause
  · exact nodupKeys_set _ _ _ nd
  · exact nodupKeys_del _ _ np
  · clause

/-- U3: the interface is held by a LARGER id: the holder is shadowed and the endpoint takes over. -/
theorem good_update_takeover (m : Mgr) (l : Nat → Option Ep) (P : Pending) (id : Nat) (w : Ep) (a : Nat) (ea : Ep)
    (g : Good m l P) (hP : get P id = some (some w))
    (h : get m.ifaceToID w.name = some a) (hea : get m.active a = some ea) (hlt : id < a) :
    Good ({ m with
      active := set (del m.active a) id w,
      ifaceToID := set (del m.ifaceToID w.name) w.name id,
      shadowed := del (set m.shadowed a ea) id,
      chainsOf := set (del m.chainsOf a) id w.name,
      chains := set (del m.chains w.name) w.name ⟨id, w.up, w.data⟩,
      routes := if w.up then set (del m.routes w.name) w.name (id, w.data) else del (del m.routes w.name) w.name } : Mgr)
      (updL l id (some w)) (del P id) := by
  obtain ⟨a1, a2, a3, b1, b2, c, d1a, d1b, d2a, d2b, d3a, d3b, nd, np, nr⟩ := g
  have hnr := nr id w hP
  have hean : ea.name = w.name := by
    obtain ⟨e, he, hn⟩ := b1 _ _ h
    rw [hea] at he; cases he; exact hn
  have hna : get m.active id = none := by
    cases hact : get m.active id with
    | none => rfl
    | some e =>
      have h1 := hnr e (a1 id e hact)
      have h2 := b2 id e hact
      rw [h1, h] at h2
      simp only [Option.some.injEq] at h2; omega
  have hsa : get m.shadowed a = none := by
    cases hs : get m.shadowed a with
    | none => rfl
    | some e => have := (a2 a e hs).2; rw [hea] at this; cases this
  constructor
  · clause
  · clause
  · clause
  · clause
  · clause
  · clause
  · clause
  · clause
  · clause
  · clause
  · intro n i e; cases hu : w.up <;> simp only [hu, get_set, get_del, updL] <;> grind
  · intro n; cases hu : w.up <;> simp only [hu, get_set, get_del, updL] <;> grind
  · exact nodupKeys_del _ _ (nodupKeys_set _ _ _ nd)
  · exact nodupKeys_del _ _ np
  · clause


end CalicoVerif.C44
