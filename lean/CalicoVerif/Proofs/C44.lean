import CalicoVerif.Model.C44
import CalicoVerif.Proofs.C18
/-! Helper lemmas for C44: the minimum scan, the invariant `Good` behind the no-rename theorem, and its
preservation by every operation. -/
namespace CalicoVerif.C44
open CalicoVerif.C18 (GoMap get set del get_set get_del NodupKeys nodupKeys_set nodupKeys_del nodupKeys_nil get_eq_some_iff)

def bestStep (name : Nat) (best : Option Nat) (p : Nat × Ep) : Option Nat :=
  if p.2.name = name then
    match best with
    | none => some p.1
    | some b => if p.1 < b then some p.1 else some b
  else best

theorem bestShadowed_eq (sh : GoMap Nat Ep) (name : Nat) : bestShadowed sh name = sh.foldl (bestStep name) none := rfl

theorem best_fold (name : Nat) (l : List (Nat × Ep)) (best : Option Nat) :
    (l.foldl (bestStep name) best = none ↔ best = none ∧ ∀ p ∈ l, p.2.name ≠ name) ∧
    (∀ i, l.foldl (bestStep name) best = some i →
      (best = some i ∨ ∃ e, (i, e) ∈ l ∧ e.name = name) ∧ (∀ b, best = some b → i ≤ b) ∧
      ∀ p ∈ l, p.2.name = name → i ≤ p.1) := by
  induction l generalizing best with
  | nil =>
    simp only [List.foldl_nil, List.not_mem_nil, false_implies, implies_true, and_true, true_and, false_and, exists_false, or_false]
    intro i hi
    exact ⟨hi, fun b hb => by rw [hi] at hb; cases hb; exact Nat.le_refl _⟩
  | cons p r ih =>
    simp only [List.foldl_cons]
    have ih' := ih (bestStep name best p)
    constructor
    · rw [ih'.1]
      unfold bestStep
      by_cases hp : p.2.name = name
      · cases best with
        | none => simp [hp]
        | some b => simp only [hp, if_true]; split <;> simp [hp]
      · simp [hp]
    · intro i hi
      obtain ⟨h1, h2, h3⟩ := ih'.2 i hi
      unfold bestStep at h1 h2
      by_cases hp : p.2.name = name
      · simp only [hp, if_true] at h1 h2
        cases best with
        | none =>
          simp only at h1 h2
          refine ⟨?_, by simp, ?_⟩
          · rcases h1 with h1 | ⟨e, he, hn⟩
            · right; exact ⟨p.2, by simp only [Option.some.injEq] at h1; subst h1; simp, hp⟩
            · right; exact ⟨e, by simp [he], hn⟩
          · intro q hq hqn
            rcases List.mem_cons.1 hq with rfl | hq
            · exact h2 _ rfl
            · exact h3 q hq hqn
        | some b =>
          simp only at h1 h2
          by_cases hlt : p.1 < b
          · simp only [hlt, if_true] at h1 h2
            refine ⟨?_, ?_, ?_⟩
            · rcases h1 with h1 | ⟨e, he, hn⟩
              · right; exact ⟨p.2, by simp only [Option.some.injEq] at h1; subst h1; simp, hp⟩
              · right; exact ⟨e, by simp [he], hn⟩
            · intro b' hb'; simp only [Option.some.injEq] at hb'; subst hb'
              have := h2 _ rfl; omega
            · intro q hq hqn
              rcases List.mem_cons.1 hq with rfl | hq
              · exact h2 _ rfl
              · exact h3 q hq hqn
          · simp only [hlt, if_false] at h1 h2
            refine ⟨?_, ?_, ?_⟩
            · rcases h1 with h1 | ⟨e, he, hn⟩
              · left; exact h1
              · right; exact ⟨e, by simp [he], hn⟩
            · intro b' hb'; simp only [Option.some.injEq] at hb'; subst hb'
              exact h2 _ rfl
            · intro q hq hqn
              rcases List.mem_cons.1 hq with rfl | hq
              · have := h2 _ rfl; omega
              · exact h3 q hq hqn
      · simp only [hp, if_false] at h1 h2
        refine ⟨?_, h2, ?_⟩
        · rcases h1 with h1 | ⟨e, he, hn⟩
          · left; exact h1
          · right; exact ⟨e, by simp [he], hn⟩
        · intro q hq hqn
          rcases List.mem_cons.1 hq with rfl | hq
          · exact absurd hqn hp
          · exact h3 q hq hqn

theorem bestShadowed_none (sh : GoMap Nat Ep) (hn : NodupKeys sh) (name : Nat) (h : bestShadowed sh name = none) :
    ∀ j e, get sh j = some e → e.name ≠ name := by
  intro j e hg
  have := ((best_fold name sh none).1.1 h).2 (j, e) ((get_eq_some_iff sh hn j e).1 hg)
  exact this

theorem bestShadowed_some (sh : GoMap Nat Ep) (hn : NodupKeys sh) (name b : Nat) (h : bestShadowed sh name = some b) :
    (∃ e, get sh b = some e ∧ e.name = name) ∧ ∀ j e, get sh j = some e → e.name = name → b ≤ j := by
  obtain ⟨h1, _, h3⟩ := (best_fold name sh none).2 b h
  constructor
  · rcases h1 with h1 | ⟨e, he, hne⟩
    · cases h1
    · exact ⟨e, (get_eq_some_iff sh hn b e).2 he, hne⟩
  · intro j e hg hne
    exact h3 (j, e) ((get_eq_some_iff sh hn j e).1 hg) hne
/-- `l` with the value at `id` replaced. -/
def updL (l : Nat → Option Ep) (id : Nat) (v : Option Ep) : Nat → Option Ep := fun x => if x = id then v else l x

/-- The invariant behind the no-rename theorems.  `l` = the live endpoints as far as the updates
processed so far say; `P` = the updates of the current batch that are still pending (`[]` between
batches).  With `P = []` the clauses say: active ∪ shadowed = live, an interface's holder is the
minimum live id claiming it, and chains/routes are exactly the holders'. -/
structure Good (m : Mgr) (l : Nat → Option Ep) (P : Pending) : Prop where
  a1 : ∀ id e, get m.active id = some e → l id = some e
  a2 : ∀ id e, get m.shadowed id = some e → l id = some e ∧ get m.active id = none
  a3 : ∀ id e, l id = some e →
    get m.active id = some e ∨ get m.shadowed id = some e ∨ get P id = some (some e)
  b1 : ∀ name id, get m.ifaceToID name = some id → ∃ e, get m.active id = some e ∧ e.name = name
  b2 : ∀ id e, get m.active id = some e → get m.ifaceToID e.name = some id
  /-- a shadowed endpoint waits behind a smaller active holder — or its fate is still pending: it has an
  entry of its own, or a smaller endpoint claiming the same interface has. -/
  c : ∀ id e, get m.shadowed id = some e →
    (∃ a, get m.ifaceToID e.name = some a ∧ a < id) ∨ get P id ≠ none ∨
    (∃ b eb, get P b = some (some eb) ∧ eb.name = e.name ∧ b < id)
  d1a : ∀ id e, get m.active id = some e → get m.chainsOf id = some e.name
  d1b : ∀ id, get m.active id = none → get m.chainsOf id = none
  d2a : ∀ name id e, get m.ifaceToID name = some id → get m.active id = some e →
    get m.chains name = some ⟨id, e.up, e.data⟩
  d2b : ∀ name, get m.ifaceToID name = none → get m.chains name = none
  d3a : ∀ name id e, get m.ifaceToID name = some id → get m.active id = some e →
    get m.routes name = if e.up then some (id, e.data) else none
  d3b : ∀ name, get m.ifaceToID name = none → get m.routes name = none
  nd : NodupKeys m.shadowed
  np : NodupKeys P
  /-- no pending update renames a live endpoint -/
  nr : ∀ id w, get P id = some (some w) → ∀ e, l id = some e → e.name = w.name

/-- the tactic used for every clause: push `get` through `set`/`del`, then first-order reasoning. -/
macro "clause" : tactic => `(tactic| (intros; (try simp only [get_set, get_del, updL] at *); grind))

/-! ### Explicit forms of the composite operations -/

theorem activate_norename (m : Mgr) (id : Nat) (old : Option Ep) (w : Ep)
    (h : ∀ o, old = some o → o.name = w.name) :
    m.activate id old w = { m with
      chains := set m.chains w.name ⟨id, w.up, w.data⟩,
      chainsOf := set m.chainsOf id w.name,
      routes := if w.up then set m.routes w.name (id, w.data) else del m.routes w.name,
      active := set m.active id w,
      ifaceToID := set m.ifaceToID w.name id,
      shadowed := del m.shadowed id } := by
  unfold Mgr.activate
  cases old with
  | none => rfl
  | some o => simp [h o rfl]

theorem removeActive_some (m : Mgr) (a : Nat) (ea : Ep) (h2 : get m.chainsOf a = some ea.name) :
    m.removeActiveWorkload (some ea) a = { m with
      chains := del m.chains ea.name, chainsOf := del m.chainsOf a, routes := del m.routes ea.name,
      ifaceToID := del m.ifaceToID ea.name, active := del m.active a } := by
  unfold Mgr.removeActiveWorkload Mgr.removeChainsOf
  simp [h2]

theorem removeActive_none (m : Mgr) (a : Nat) (h2 : get m.chainsOf a = none) :
    m.removeActiveWorkload none a = { m with chainsOf := del m.chainsOf a, active := del m.active a } := by
  unfold Mgr.removeActiveWorkload Mgr.removeChainsOf
  simp [h2]

theorem process_update_free (m : Mgr) (pd : Pending) (id : Nat) (w : Ep)
    (hfree : ∀ a, get m.ifaceToID w.name = some a → a = id) :
    m.process pd id (some w) = (m.activate id (get m.active id) w, none) := by
  unfold Mgr.process
  cases h : get m.ifaceToID w.name with
  | none => simp [h]
  | some a => have := hfree a h; subst this; simp [h]

theorem process_update_shadow (m : Mgr) (pd : Pending) (id : Nat) (w : Ep) (a : Nat)
    (h : get m.ifaceToID w.name = some a) (hlt : a < id) :
    m.process pd id (some w) = ({ m with shadowed := set m.shadowed id w }, none) := by
  unfold Mgr.process
  have hne : a ≠ id := by omega
  simp [h, hne, hlt]

theorem process_update_takeover (m : Mgr) (pd : Pending) (id : Nat) (w : Ep) (a : Nat) (ea : Ep)
    (h : get m.ifaceToID w.name = some a) (hlt : id < a) (hea : get m.active a = some ea) :
    m.process pd id (some w) =
      ((({ m with shadowed := set m.shadowed a ea } : Mgr).removeActiveWorkload (some ea) a).activate id
        (get m.active id) w, none) := by
  unfold Mgr.process
  have hne : a ≠ id := by omega
  have hnlt : ¬ a < id := by omega
  simp [h, hne, hnlt, hea]

/-! ### One pending UPDATE is processed -/

/-- U1: the endpoint holds its interface already, or the interface is free. -/
theorem good_update_free (m : Mgr) (l : Nat → Option Ep) (P : Pending) (id : Nat) (w : Ep) (g : Good m l P)
    (hP : get P id = some (some w))
    (hfree : ∀ a, get m.ifaceToID w.name = some a → a = id) :
    Good ({ m with
      chains := set m.chains w.name ⟨id, w.up, w.data⟩,
      chainsOf := set m.chainsOf id w.name,
      routes := if w.up then set m.routes w.name (id, w.data) else del m.routes w.name,
      active := set m.active id w,
      ifaceToID := set m.ifaceToID w.name id,
      shadowed := del m.shadowed id } : Mgr) (updL l id (some w)) (del P id) := by
  obtain ⟨a1, a2, a3, b1, b2, c, d1a, d1b, d2a, d2b, d3a, d3b, nd, np, nr⟩ := g
  have hnr := nr id w hP
  constructor
  · clause
  · clause
  · clause
  · clause
  · clause
  · clause
  · clause
  · clause
  · clause
  · clause
  · intro n i e; cases hu : w.up <;> simp only [hu, get_set, get_del, updL] <;> grind
  · intro n; cases hu : w.up <;> simp only [hu, get_set, get_del, updL] <;> grind
  · exact nodupKeys_del _ _ nd
  · exact nodupKeys_del _ _ np
  · clause

/-- U2: the interface is held by a smaller id: the endpoint is (re)shadowed. -/
theorem good_update_shadow (m : Mgr) (l : Nat → Option Ep) (P : Pending) (id : Nat) (w : Ep) (a : Nat)
    (g : Good m l P) (hP : get P id = some (some w))
    (h : get m.ifaceToID w.name = some a) (hlt : a < id) :
    Good ({ m with shadowed := set m.shadowed id w } : Mgr) (updL l id (some w)) (del P id) := by
  obtain ⟨a1, a2, a3, b1, b2, c, d1a, d1b, d2a, d2b, d3a, d3b, nd, np, nr⟩ := g
  have hnr := nr id w hP
  have hna : get m.active id = none := by
    cases hact : get m.active id with
    | none => rfl
    | some e =>
      have h1 := hnr e (a1 id e hact)
      have h2 := b2 id e hact
      rw [h1, h] at h2
      simp only [Option.some.injEq] at h2; omega
  constructor
  · clause
  · clause
  · clause
  · clause
  · clause
  · clause
  · clause
  · clause
  · clause
  · clause
  · clause
  · clause
  · exact nodupKeys_set _ _ _ nd
  · exact nodupKeys_del _ _ np
  · clause

/-- U3: the interface is held by a LARGER id: the holder is shadowed and the endpoint takes over. -/
theorem good_update_takeover (m : Mgr) (l : Nat → Option Ep) (P : Pending) (id : Nat) (w : Ep) (a : Nat) (ea : Ep)
    (g : Good m l P) (hP : get P id = some (some w))
    (h : get m.ifaceToID w.name = some a) (hea : get m.active a = some ea) (hlt : id < a) :
    Good ({ m with
      active := set (del m.active a) id w,
      ifaceToID := set (del m.ifaceToID w.name) w.name id,
      shadowed := del (set m.shadowed a ea) id,
      chainsOf := set (del m.chainsOf a) id w.name,
      chains := set (del m.chains w.name) w.name ⟨id, w.up, w.data⟩,
      routes := if w.up then set (del m.routes w.name) w.name (id, w.data) else del (del m.routes w.name) w.name } : Mgr)
      (updL l id (some w)) (del P id) := by
  obtain ⟨a1, a2, a3, b1, b2, c, d1a, d1b, d2a, d2b, d3a, d3b, nd, np, nr⟩ := g
  have hnr := nr id w hP
  have hean : ea.name = w.name := by
    obtain ⟨e, he, hn⟩ := b1 _ _ h
    rw [hea] at he; cases he; exact hn
  have hna : get m.active id = none := by
    cases hact : get m.active id with
    | none => rfl
    | some e =>
      have h1 := hnr e (a1 id e hact)
      have h2 := b2 id e hact
      rw [h1, h] at h2
      simp only [Option.some.injEq] at h2; omega
  have hsa : get m.shadowed a = none := by
    cases hs : get m.shadowed a with
    | none => rfl
    | some e => have := (a2 a e hs).2; rw [hea] at this; cases this
  constructor
  · clause
  · clause
  · clause
  · clause
  · clause
  · clause
  · clause
  · clause
  · clause
  · clause
  · intro n i e; cases hu : w.up <;> simp only [hu, get_set, get_del, updL] <;> grind
  · intro n; cases hu : w.up <;> simp only [hu, get_set, get_del, updL] <;> grind
  · exact nodupKeys_del _ _ (nodupKeys_set _ _ _ nd)
  · exact nodupKeys_del _ _ np
  · clause

/-! ### One pending REMOVAL is processed -/

/-- the shadowed endpoints that have no update/removal of their own pending -/
def candidates (sh : GoMap Nat Ep) (pd : Pending) : GoMap Nat Ep := sh.filter (fun p => (get pd p.1).isNone)

theorem get_candidates (sh : GoMap Nat Ep) (pd : Pending) (k : Nat) :
    get (candidates sh pd) k = if (get pd k).isNone then get sh k else none := by
  unfold candidates
  induction sh with
  | nil => simp [C18.get]
  | cons p r ih =>
    obtain ⟨a, b⟩ := p
    by_cases ha : (get pd a).isNone = true
    · simp only [List.filter, ha, C18.get]
      by_cases e : a = k
      · subst e; simp [ha]
      · simp only [e, if_false, ih]
    · have ha' : (get pd a).isNone = false := by cases hq : (get pd a).isNone <;> simp_all
      simp only [List.filter, ha', C18.get, ih]
      by_cases e : a = k
      · subst e; simp [ha']
      · simp only [e, if_false]

theorem nodup_candidates (sh : GoMap Nat Ep) (pd : Pending) (h : NodupKeys sh) : NodupKeys (candidates sh pd) := by
  unfold NodupKeys C18.keys candidates at *
  exact h.sublist ((List.filter_sublist).map _)

theorem process_remove_inactive (m : Mgr) (pd : Pending) (id : Nat) (he : get m.active id = none)
    (hc : get m.chainsOf id = none) :
    m.process pd id none =
      ({ m with chainsOf := del m.chainsOf id, active := del m.active id, shadowed := del m.shadowed id }, none) := by
  unfold Mgr.process
  simp [he, removeActive_none m id hc]

theorem process_remove_active_none (m : Mgr) (pd : Pending) (id : Nat) (e : Ep) (he : get m.active id = some e)
    (hc : get m.chainsOf id = some e.name) (hb : bestShadowed (candidates (del m.shadowed id) pd) e.name = none) :
    m.process pd id none = ({ m with
      chains := del m.chains e.name, chainsOf := del m.chainsOf id, routes := del m.routes e.name,
      ifaceToID := del m.ifaceToID e.name, active := del m.active id, shadowed := del m.shadowed id }, none) := by
  unfold candidates at hb
  unfold Mgr.process
  simp [he, removeActive_some m id e hc, hb]

theorem process_remove_active_some (m : Mgr) (pd : Pending) (id : Nat) (e : Ep) (b : Nat) (eb : Ep)
    (he : get m.active id = some e) (hc : get m.chainsOf id = some e.name)
    (hb : bestShadowed (candidates (del m.shadowed id) pd) e.name = some b)
    (hgb : get (del m.shadowed id) b = some eb) :
    m.process pd id none = ({ m with
      chains := del m.chains e.name, chainsOf := del m.chainsOf id, routes := del m.routes e.name,
      ifaceToID := del m.ifaceToID e.name, active := del m.active id, shadowed := del (del m.shadowed id) b },
      some (b, eb)) := by
  unfold candidates at hb
  unfold Mgr.process
  simp [he, removeActive_some m id e hc, hb, hgb]

/-- R1: removal of an endpoint that is not active (shadowed, promoted-but-pending, or unknown). -/
theorem good_remove_inactive (m : Mgr) (l : Nat → Option Ep) (P : Pending) (id : Nat) (g : Good m l P)
    (hP : get P id = some none) (hna : get m.active id = none) :
    Good ({ m with chainsOf := del m.chainsOf id, active := del m.active id, shadowed := del m.shadowed id } : Mgr)
      (updL l id none) (del P id) := by
  obtain ⟨a1, a2, a3, b1, b2, c, d1a, d1b, d2a, d2b, d3a, d3b, nd, np, nr⟩ := g
  constructor
  · clause
  · clause
  · clause
  · clause
  · clause
  · clause
  · clause
  · clause
  · clause
  · clause
  · clause
  · clause
  · exact nodupKeys_del _ _ nd
  · exact nodupKeys_del _ _ np
  · clause

/-- R2: removal of an active endpoint; nobody without a pending entry of its own waits behind it. -/
theorem good_remove_active (m : Mgr) (l : Nat → Option Ep) (P : Pending) (id : Nat) (e : Ep) (g : Good m l P)
    (hP : get P id = some none) (he : get m.active id = some e)
    (hnone : ∀ j ej, get (candidates (del m.shadowed id) (del P id)) j = some ej → ej.name ≠ e.name) :
    Good ({ m with
      chains := del m.chains e.name, chainsOf := del m.chainsOf id, routes := del m.routes e.name,
      ifaceToID := del m.ifaceToID e.name, active := del m.active id, shadowed := del m.shadowed id } : Mgr)
      (updL l id none) (del P id) := by
  obtain ⟨a1, a2, a3, b1, b2, c, d1a, d1b, d2a, d2b, d3a, d3b, nd, np, nr⟩ := g
  simp only [get_candidates, get_del] at hnone
  constructor
  · clause
  · clause
  · clause
  · clause
  · clause
  · intro i ei hs
    simp only [get_del] at hs ⊢
    have hi : id ≠ i := by intro h; subst h; simp at hs
    simp only [hi, if_false] at hs ⊢
    rcases c i ei hs with ⟨a, ha, hlt⟩ | h2 | ⟨b, eb, hb, hbn, hlt⟩
    · by_cases hn : e.name = ei.name
      · -- its holder was `id`: it must have an entry of its own, otherwise it would be a candidate
        right; left
        intro hnone'
        exact hnone i ei (by simp [hi, hnone', hs]) hn.symm
      · left; exact ⟨a, by simp [hn, ha], hlt⟩
    · right; left; exact h2
    · right; right
      refine ⟨b, eb, ?_, hbn, hlt⟩
      have : id ≠ b := by intro h; subst h; rw [hP] at hb; cases hb
      simp [this, hb]
  · clause
  · clause
  · clause
  · clause
  · clause
  · clause
  · exact nodupKeys_del _ _ nd
  · exact nodupKeys_del _ _ np
  · clause

/-- R3: removal of an active endpoint; the smallest endpoint waiting behind it that has no pending entry
of its own is queued for promotion. -/
theorem good_remove_promote (m : Mgr) (l : Nat → Option Ep) (P : Pending) (id : Nat) (e : Ep) (b : Nat) (eb : Ep)
    (g : Good m l P) (hP : get P id = some none) (he : get m.active id = some e)
    (hb : get (candidates (del m.shadowed id) (del P id)) b = some eb) (hbn : eb.name = e.name)
    (hmin : ∀ j ej, get (candidates (del m.shadowed id) (del P id)) j = some ej → ej.name = e.name → b ≤ j) :
    Good ({ m with
      chains := del m.chains e.name, chainsOf := del m.chainsOf id, routes := del m.routes e.name,
      ifaceToID := del m.ifaceToID e.name, active := del m.active id, shadowed := del (del m.shadowed id) b } : Mgr)
      (updL l id none) (set (del P id) b (some eb)) := by
  obtain ⟨a1, a2, a3, b1, b2, c, d1a, d1b, d2a, d2b, d3a, d3b, nd, np, nr⟩ := g
  simp only [get_candidates, get_del] at hmin hb
  have hbid : b ≠ id := by intro h; subst h; simp at hb
  have hbP : get P b = none := by
    have := hb
    simp only [Ne.symm hbid, if_false] at this
    cases hq : get P b with
    | none => rfl
    | some q => simp [hq] at this
  have hb' : get m.shadowed b = some eb := by
    have := hb
    simp only [Ne.symm hbid, if_false, hbP, Option.isNone_none, if_true] at this
    exact this
  have hlb := (a2 b eb hb').1
  constructor
  · clause
  · clause
  · clause
  · clause
  · clause
  · intro i ei hs
    simp only [get_del, get_set] at hs ⊢
    have hi1 : id ≠ i := by intro h; subst h; simp at hs
    have hi2 : b ≠ i := by intro h; subst h; simp at hs
    simp only [hi1, hi2, if_false] at hs ⊢
    rcases c i ei hs with ⟨a, ha, hlt⟩ | h2 | ⟨b', eb', hb2, hbn2, hlt⟩
    · by_cases hn : e.name = ei.name
      · by_cases hpi : get P i = none
        · -- a candidate on the freed interface: the promoted one is smaller
          right; right
          refine ⟨b, eb, by simp, by rw [hbn, hn], ?_⟩
          have := hmin i ei (by simp [hi1, hpi, hs]) hn.symm
          omega
        · right; left; exact hpi
      · left; exact ⟨a, by simp [hn, ha], hlt⟩
    · right; left; exact h2
    · right; right
      refine ⟨b', eb', ?_, hbn2, hlt⟩
      have h1 : id ≠ b' := by intro h; subst h; rw [hP] at hb2; cases hb2
      have h2 : b ≠ b' := by intro h; subst h; rw [hbP] at hb2; cases hb2
      simp [h1, h2, hb2]
  · clause
  · clause
  · clause
  · clause
  · clause
  · clause
  · exact nodupKeys_del _ _ (nodupKeys_del _ _ nd)
  · exact nodupKeys_set _ _ _ (nodupKeys_del _ _ np)
  · clause

/-! ### Any one pending entry is processed -/

theorem good_process (m : Mgr) (l : Nat → Option Ep) (P : Pending) (id : Nat) (w : Option Ep) (g : Good m l P)
    (hP : get P id = some w) :
    Good (m.process (del P id) id w).1 (updL l id w)
      (match (m.process (del P id) id w).2 with
       | some (b, e) => set (del P id) b (some e)
       | none => del P id) ∧
    (∀ b e, (m.process (del P id) id w).2 = some (b, e) →
      w = none ∧ get P b = none ∧ b ≠ id ∧ l b = some e) := by
  cases w with
  | some w =>
    have hold : ∀ o, get m.active id = some o → o.name = w.name := fun o ho => g.nr id w hP o (g.a1 id o ho)
    cases h : get m.ifaceToID w.name with
    | none =>
      have hf : ∀ a, get m.ifaceToID w.name = some a → a = id := by intro a ha; rw [h] at ha; cases ha
      rw [process_update_free m _ id w hf, activate_norename m id _ w hold]
      exact ⟨good_update_free m l P id w g hP hf, by intro b e hbe; cases hbe⟩
    | some a =>
      by_cases hai : a = id
      · have hf : ∀ a', get m.ifaceToID w.name = some a' → a' = id := by
          intro a' ha'; rw [h] at ha'; cases ha'; exact hai
        rw [process_update_free m _ id w hf, activate_norename m id _ w hold]
        exact ⟨good_update_free m l P id w g hP hf, by intro b e hbe; cases hbe⟩
      · by_cases hlt : a < id
        · rw [process_update_shadow m _ id w a h hlt]
          exact ⟨good_update_shadow m l P id w a g hP h hlt, by intro b e hbe; cases hbe⟩
        · have hlt' : id < a := by omega
          obtain ⟨ea, hea, hean⟩ := g.b1 _ _ h
          rw [process_update_takeover m _ id w a ea h hlt' hea]
          have hc : get ({ m with shadowed := set m.shadowed a ea } : Mgr).chainsOf a = some ea.name := g.d1a a ea hea
          rw [removeActive_some _ a ea hc, activate_norename _ id _ w hold]
          have := good_update_takeover m l P id w a ea g hP h hea hlt'
          simp only [hean] at this ⊢
          exact ⟨this, by intro b e hbe; cases hbe⟩
  | none =>
    cases he : get m.active id with
    | none =>
      rw [process_remove_inactive m _ id he (g.d1b id he)]
      exact ⟨good_remove_inactive m l P id g hP he, by intro b e hbe; cases hbe⟩
    | some e =>
      have hc : get m.chainsOf id = some e.name := g.d1a id e he
      have hnd : NodupKeys (candidates (del m.shadowed id) (del P id)) := nodup_candidates _ _ (nodupKeys_del _ _ g.nd)
      cases hb : bestShadowed (candidates (del m.shadowed id) (del P id)) e.name with
      | none =>
        rw [process_remove_active_none m _ id e he hc hb]
        exact ⟨good_remove_active m l P id e g hP he (bestShadowed_none _ hnd _ hb), by intro b e hbe; cases hbe⟩
      | some b =>
        obtain ⟨⟨eb, hgb, hbn⟩, hmin⟩ := bestShadowed_some _ hnd _ b hb
        have hgb' : get (del m.shadowed id) b = some eb := by
          rw [get_candidates] at hgb; split at hgb
          · exact hgb
          · cases hgb
        rw [process_remove_active_some m _ id e b eb he hc hb hgb']
        refine ⟨good_remove_promote m l P id e b eb g hP he hgb hbn hmin, ?_⟩
        intro b' e' hbe
        simp only [Option.some.injEq, Prod.mk.injEq] at hbe
        obtain ⟨rfl, rfl⟩ := hbe
        have hbid : b ≠ id := by intro h; subst h; simp [get_del] at hgb'
        have hsb : get m.shadowed b = some eb := by simpa [get_del, Ne.symm hbid] using hgb'
        have hpb : get P b = none := by
          rw [get_candidates] at hgb
          cases hq : get (del P id) b with
          | none => simpa [get_del, Ne.symm hbid] using hq
          | some q => simp [hq] at hgb
        exact ⟨rfl, hpb, hbid, (g.a2 b eb hsb).1⟩

/-! ### A whole batch, in any processing order -/

/-- the live endpoints once every pending entry has been applied -/
def lAfter (l : Nat → Option Ep) (P : Pending) : Nat → Option Ep :=
  fun id => match get P id with
    | some v => v
    | none => l id

/-- termination measure of the pending map: a removal can queue one more update. -/
def mu (P : Pending) : Nat := (P.map (fun p => if p.2.isNone then 2 else 1)).sum

theorem mu_pos_of_ne_nil (P : Pending) (h : P ≠ []) : 0 < mu P := by
  cases P with
  | nil => exact absurd rfl h
  | cons p r => unfold mu; simp only [List.map_cons, List.sum_cons]; split <;> omega

theorem del_of_absent (P : Pending) (b : Nat) (h : get P b = none) : del P b = P := by
  induction P with
  | nil => rfl
  | cons p r ih =>
    obtain ⟨a, v⟩ := p
    by_cases e : a = b
    · subst e; simp [C18.get] at h
    · simp only [C18.get, e, if_false] at h
      have := ih h
      unfold del at this ⊢
      simp only [List.filter, ne_eq, e, not_false_eq_true, decide_true]
      rw [this]

theorem mu_del (P : Pending) (hn : NodupKeys P) (id : Nat) (w : Option Ep) (h : get P id = some w) :
    mu (del P id) + (if w.isNone then 2 else 1) = mu P := by
  induction P with
  | nil => simp [C18.get] at h
  | cons p r ih =>
    obtain ⟨a, v⟩ := p
    have hn' : a ∉ C18.keys r ∧ NodupKeys r := by simpa [NodupKeys, C18.keys] using hn
    by_cases e : a = id
    · subst e
      simp only [C18.get, if_true, Option.some.injEq] at h
      subst h
      have hr : get r a = none := (C18.get_eq_none_iff r a).2 hn'.1
      have : del ((a, v) :: r) a = r := by
        have := del_of_absent r a hr
        simp only [del, List.filter, ne_eq, not_true_eq_false, decide_false] at this ⊢
        exact this
      rw [this]; unfold mu; simp only [List.map_cons, List.sum_cons]; omega
    · simp only [C18.get, e, if_false] at h
      have := ih hn'.2 h
      have hd : del ((a, v) :: r) id = (a, v) :: del r id := by
        simp [del, List.filter, e]
      rw [hd]; unfold mu at this ⊢; simp only [List.map_cons, List.sum_cons]; omega

theorem mu_set_fresh (P : Pending) (b : Nat) (e : Ep) (h : get P b = none) : mu (set P b (some e)) = mu P + 1 := by
  unfold C18.set
  rw [del_of_absent P b h]
  unfold mu; simp only [List.map_cons, List.sum_cons, Option.isNone_some]; simp; omega

theorem good_resolveAll (fuel : Nat) : ∀ (m : Mgr) (l : Nat → Option Ep) (P : Pending), Good m l P → mu P ≤ fuel →
    ∀ m' ∈ m.resolveAll fuel P, Good m' (lAfter l P) [] := by
  induction fuel with
  | zero =>
    intro m l P g hmu m' hm'
    have hP : P = [] := by
      cases P with
      | nil => rfl
      | cons p r => have := mu_pos_of_ne_nil (p :: r) (by simp); omega
    subst hP
    simp only [Mgr.resolveAll, List.mem_singleton] at hm'
    subst hm'
    exact g
  | succ fuel ih =>
    intro m l P g hmu m' hm'
    cases P with
    | nil =>
      simp only [Mgr.resolveAll, List.mem_singleton] at hm'
      subst hm'
      exact g
    | cons p ps =>
      simp only [Mgr.resolveAll, List.mem_flatMap] at hm'
      obtain ⟨q, hq, hm'⟩ := hm'
      obtain ⟨id, w⟩ := q
      have hP : get (p :: ps) id = some w := (get_eq_some_iff _ g.np id w).2 hq
      obtain ⟨g1, hq1⟩ := good_process m l (p :: ps) id w g hP
      have hmd := mu_del (p :: ps) g.np id w hP
      cases hr : (m.process (del (p :: ps) id) id w).2 with
      | none =>
        simp only [hr] at hm' g1
        have := ih _ _ _ g1 (by split at hmd <;> omega) m' hm'
        have hl : lAfter (updL l id w) (del (p :: ps) id) = lAfter l (p :: ps) := by
          funext x
          unfold lAfter updL
          rw [get_del]
          by_cases e : id = x
          · subst e; simp [hP]
          · have : ¬ x = id := fun h => e h.symm
            simp [e, this]
        rw [hl] at this; exact this
      | some be =>
        obtain ⟨b, e⟩ := be
        simp only [hr] at hm' g1
        obtain ⟨hw, hpb, hbid, hlb⟩ := hq1 b e hr
        subst hw
        have hpb' : get (del (p :: ps) id) b = none := by rw [get_del]; simp [Ne.symm hbid, hpb]
        have hms := mu_set_fresh (del (p :: ps) id) b e hpb'
        have := ih _ _ _ g1 (by simp at hmd; omega) m' hm'
        have hl : lAfter (updL l id none) (set (del (p :: ps) id) b (some e)) = lAfter l (p :: ps) := by
          funext x
          unfold lAfter updL
          rw [get_set, get_del]
          by_cases e1 : b = x
          · subst e1; simp [hpb, hlb]
          · by_cases e2 : id = x
            · subst e2; simp [e1, hP]
            · have : ¬ x = id := fun h => e2 h.symm
              simp [e1, e2, this]
        rw [hl] at this; exact this

/-! ### Histories of batches -/

theorem nodup_mkPending (us : Batch) : NodupKeys (mkPending us) := by
  unfold mkPending
  suffices h : ∀ P : Pending, NodupKeys P → NodupKeys (us.foldl (fun p u => set p u.1 u.2) P) from h [] nodupKeys_nil
  induction us with
  | nil => intro P h; exact h
  | cons u r ih => intro P h; exact ih _ (nodupKeys_set _ _ _ h)

theorem nodup_applyEntry (l : GoMap Nat Ep) (p : Nat × Option Ep) (h : NodupKeys l) : NodupKeys (applyEntry l p) := by
  unfold applyEntry; split
  · exact nodupKeys_set _ _ _ h
  · exact nodupKeys_del _ _ h

theorem nodup_fold_applyEntry (P : Pending) (l : GoMap Nat Ep) (h : NodupKeys l) : NodupKeys (P.foldl applyEntry l) := by
  induction P generalizing l with
  | nil => exact h
  | cons p r ih => exact ih _ (nodup_applyEntry l p h)

theorem get_fold_applyEntry (P : Pending) (hn : NodupKeys P) (l : GoMap Nat Ep) (id : Nat) :
    get (P.foldl applyEntry l) id = lAfter (get l) P id := by
  induction P generalizing l with
  | nil => rfl
  | cons p r ih =>
    obtain ⟨a, v⟩ := p
    have hn' : a ∉ C18.keys r ∧ NodupKeys r := by simpa [NodupKeys, C18.keys] using hn
    simp only [List.foldl_cons, ih hn'.2]
    unfold lAfter
    by_cases e : a = id
    · subst e
      have hr : get r a = none := (C18.get_eq_none_iff r a).2 hn'.1
      simp only [hr, C18.get, if_true]
      unfold applyEntry
      cases v <;> simp [get_set, get_del]
    · simp only [C18.get, e, if_false]
      cases get r id with
      | some x => rfl
      | none =>
        simp only
        unfold applyEntry
        cases v <;> simp [get_set, get_del, e]

theorem good_ext (m : Mgr) (l l' : Nat → Option Ep) (P : Pending) (h : ∀ id, l id = l' id) (g : Good m l P) :
    Good m l' P := by
  have : l = l' := funext h
  subst this; exact g

/-- one batch, whatever the processing order -/
theorem good_batch (m : Mgr) (l : GoMap Nat Ep) (us : Batch) (g : Good m (get l) [])
    (hnr : ∀ id w, get (mkPending us) id = some (some w) → ∀ e, get l id = some e → e.name = w.name)
    (m' : Mgr) (hm : m' ∈ m.batch us) : Good m' (get (liveB l us)) [] := by
  have hnp := nodup_mkPending us
  have g0 : Good m (get l) (mkPending us) := by
    obtain ⟨a1, a2, a3, b1, b2, c, d1a, d1b, d2a, d2b, d3a, d3b, nd, np, nr⟩ := g
    refine ⟨a1, a2, ?_, b1, b2, ?_, d1a, d1b, d2a, d2b, d3a, d3b, nd, hnp, hnr⟩
    · intro id e h
      rcases a3 id e h with h1 | h1 | h1
      · exact Or.inl h1
      · exact Or.inr (Or.inl h1)
      · simp [C18.get] at h1
    · intro id e h
      rcases c id e h with h1 | h1 | ⟨b, eb, hb, _⟩
      · exact Or.inl h1
      · exact absurd rfl h1
      · simp [C18.get] at hb
  have hmu : mu (mkPending us) ≤ 2 * (mkPending us).length + 2 := by
    unfold mu
    generalize mkPending us = P
    induction P with
    | nil => simp
    | cons p r ih => simp only [List.map_cons, List.sum_cons, List.length_cons]; split <;> omega
  have := good_resolveAll _ m (get l) (mkPending us) g0 hmu m' hm
  exact good_ext _ _ _ _ (fun id => (get_fold_applyEntry _ hnp l id).symm) this

theorem good_new : Good Mgr.new (get ([] : GoMap Nat Ep)) [] := by
  constructor <;> intros <;> simp_all [Mgr.new, C18.get, NodupKeys, C18.keys]

theorem nodup_liveB (l : GoMap Nat Ep) (us : Batch) (h : NodupKeys l) : NodupKeys (liveB l us) :=
  nodup_fold_applyEntry _ _ h

theorem good_reach (bs : List Batch) : ∀ (m : Mgr) (l : GoMap Nat Ep), Good m (get l) [] → NodupKeys l →
    NoRenameBsFrom l bs → ∀ m', ReachFrom m bs m' →
    Good m' (get (bs.foldl liveB l)) [] ∧ NodupKeys (bs.foldl liveB l) := by
  induction bs with
  | nil => intro m l g hl _ m' hr; simp only [ReachFrom] at hr; subst hr; exact ⟨g, hl⟩
  | cons us r ih =>
    intro m l g hl hnr m' hr
    obtain ⟨m1, hm1, hr'⟩ := hr
    exact ih m1 (liveB l us) (good_batch m l us g hnr.1 m1 hm1) (nodup_liveB l us hl) hnr.2 m' hr'

/-- In a `Good` state with nothing pending the holder of an interface is the minimum live claimant. -/
theorem best_of_good (m : Mgr) (l : GoMap Nat Ep) (g : Good m (get l) []) (hl : NodupKeys l) (name : Nat) :
    bestShadowed l name = get m.ifaceToID name := by
  have hc : ∀ id e, get m.shadowed id = some e → ∃ a, get m.ifaceToID e.name = some a ∧ a < id := by
    intro id e h
    rcases g.c id e h with h1 | h1 | ⟨b, eb, hb, _⟩
    · exact h1
    · exact absurd rfl h1
    · simp [C18.get] at hb
  have ha3 : ∀ id e, get l id = some e → get m.active id = some e ∨ get m.shadowed id = some e := by
    intro id e h
    rcases g.a3 id e h with h1 | h1 | h1
    · exact Or.inl h1
    · exact Or.inr h1
    · simp [C18.get] at h1
  cases hi : get m.ifaceToID name with
  | none =>
    cases hb : bestShadowed l name with
    | none => rfl
    | some b =>
      exfalso
      obtain ⟨⟨e, he, hn⟩, _⟩ := bestShadowed_some l hl name b hb
      rcases ha3 b e he with h1 | h1
      · have := g.b2 b e h1; rw [hn, hi] at this; cases this
      · obtain ⟨a, ha, _⟩ := hc b e h1; rw [hn, hi] at ha; cases ha
  | some h =>
    obtain ⟨e, hact, hen⟩ := g.b1 name h hi
    have hlh := g.a1 h e hact
    cases hb : bestShadowed l name with
    | none => exact absurd hen (bestShadowed_none l hl name hb h e hlh)
    | some b =>
      obtain ⟨⟨eb, heb, hn⟩, hmin⟩ := bestShadowed_some l hl name b hb
      have hle := hmin h e hlh hen
      rcases ha3 b eb heb with h1 | h1
      · have := g.b2 b eb h1; rw [hn, hi] at this; cases this; rfl
      · obtain ⟨a, ha, hlt⟩ := hc b eb h1; rw [hn, hi] at ha; cases ha; omega

theorem chains_of_good (m : Mgr) (l : GoMap Nat Ep) (g : Good m (get l) []) (hl : NodupKeys l) (name : Nat) :
    get m.chains name = specChains l name ∧ get m.routes name = specRoutes l name := by
  unfold specChains specRoutes preferred
  rw [best_of_good m l g hl name]
  cases hi : get m.ifaceToID name with
  | none => exact ⟨g.d2b name hi, g.d3b name hi⟩
  | some h =>
    obtain ⟨e, hact, hen⟩ := g.b1 name h hi
    have hlh := g.a1 h e hact
    simp only [Option.bind_some, hlh, Option.map_some]
    refine ⟨g.d2a name h e hi hact, ?_⟩
    rw [g.d3a name h e hi hact]

/-- The minimum scan only depends on the map as a function. -/
theorem bestShadowed_congr (l1 l2 : GoMap Nat Ep) (h1 : NodupKeys l1) (h2 : NodupKeys l2)
    (h : ∀ id, get l1 id = get l2 id) (name : Nat) : bestShadowed l1 name = bestShadowed l2 name := by
  cases hb1 : bestShadowed l1 name with
  | none =>
    cases hb2 : bestShadowed l2 name with
    | none => rfl
    | some b =>
      obtain ⟨⟨e, he, hn⟩, _⟩ := bestShadowed_some l2 h2 name b hb2
      exact absurd hn (bestShadowed_none l1 h1 name hb1 b e (by rw [h]; exact he))
  | some a =>
    obtain ⟨⟨ea, hea, hna⟩, hmina⟩ := bestShadowed_some l1 h1 name a hb1
    cases hb2 : bestShadowed l2 name with
    | none => exact absurd hna (bestShadowed_none l2 h2 name hb2 a ea (by rw [← h]; exact hea))
    | some b =>
      obtain ⟨⟨eb, heb, hnb⟩, hminb⟩ := bestShadowed_some l2 h2 name b hb2
      have := hmina b eb (by rw [h]; exact heb) hnb
      have := hminb a ea (by rw [← h]; exact hea) hna
      congr 1; omega


end CalicoVerif.C44
