import CalicoVerif.Model.C44
import CalicoVerif.Proofs.C18
/-! Helper lemmas for C44: the minimum scan, the invariant `Good` behind the no-rename theorem, and its
preservation by every operation. -/
namespace CalicoVerif.C44
open CalicoVerif.C18 (GoMap get set del get_set get_del NodupKeys nodupKeys_set nodupKeys_del nodupKeys_nil get_eq_some_iff)

def bestStep (name : Nat) (best : Option Nat) (p : Nat × Ep) : Option Nat :=
  if p.2.name = name then
    match best with
    | none => some p.1
    | some b => if p.1 < b then some p.1 else some b
  else best

theorem bestShadowed_eq (sh : GoMap Nat Ep) (name : Nat) : bestShadowed sh name = sh.foldl (bestStep name) none := rfl

theorem best_fold (name : Nat) (l : List (Nat × Ep)) (best : Option Nat) :
    (l.foldl (bestStep name) best = none ↔ best = none ∧ ∀ p ∈ l, p.2.name ≠ name) ∧
    (∀ i, l.foldl (bestStep name) best = some i →
      (best = some i ∨ ∃ e, (i, e) ∈ l ∧ e.name = name) ∧ (∀ b, best = some b → i ≤ b) ∧
      ∀ p ∈ l, p.2.name = name → i ≤ p.1) := by
  induction l generalizing best with
  | nil =>
    simp only [List.foldl_nil, List.not_mem_nil, false_implies, implies_true, and_true, true_and, false_and, exists_false, or_false]
    intro i hi
    exact ⟨hi, fun b hb => by rw [hi] at hb; cases hb; exact Nat.le_refl _⟩
  | cons p r ih =>
    simp only [List.foldl_cons]
    have ih' := ih (bestStep name best p)
    constructor
    · rw [ih'.1]
      unfold bestStep
      by_cases hp : p.2.name = name
      · cases best with
        | none => simp [hp]
        | some b => simp only [hp, if_true]; split <;> simp [hp]
      · simp [hp]
    · intro i hi
      obtain ⟨h1, h2, h3⟩ := ih'.2 i hi
      unfold bestStep at h1 h2
      by_cases hp : p.2.name = name
      · simp only [hp, if_true] at h1 h2
        cases best with
        | none =>
          simp only at h1 h2
          refine ⟨?_, by simp, ?_⟩
          · rcases h1 with h1 | ⟨e, he, hn⟩
            · right; exact ⟨p.2, by simp only [Option.some.injEq] at h1; subst h1; simp, hp⟩
            · right; exact ⟨e, by simp [he], hn⟩
          · intro q hq hqn
            rcases List.mem_cons.1 hq with rfl | hq
            · exact h2 _ rfl
            · exact h3 q hq hqn
        | some b =>
          simp only at h1 h2
          by_cases hlt : p.1 < b
          · simp only [hlt, if_true] at h1 h2
            refine ⟨?_, ?_, ?_⟩
            · rcases h1 with h1 | ⟨e, he, hn⟩
              · right; exact ⟨p.2, by simp only [Option.some.injEq] at h1; subst h1; simp, hp⟩
              · right; exact ⟨e, by simp [he], hn⟩
            · intro b' hb'; simp only [Option.some.injEq] at hb'; subst hb'
              have := h2 _ rfl; omega
            · intro q hq hqn
              rcases List.mem_cons.1 hq with rfl | hq
              · exact h2 _ rfl
              · exact h3 q hq hqn
          · simp only [hlt, if_false] at h1 h2
            refine ⟨?_, ?_, ?_⟩
            · rcases h1 with h1 | ⟨e, he, hn⟩
              · left; exact h1
              · right; exact ⟨e, by simp [he], hn⟩
            · intro b' hb'; simp only [Option.some.injEq] at hb'; subst hb'
              exact h2 _ rfl
            · intro q hq hqn
              rcases List.mem_cons.1 hq with rfl | hq
              · have := h2 _ rfl; omega
              · exact h3 q hq hqn
      · simp only [hp, if_false] at h1 h2
        refine ⟨?_, h2, ?_⟩
        · rcases h1 with h1 | ⟨e, he, hn⟩
          · left; exact h1
          · right; exact ⟨e, by simp [he], hn⟩
        · intro q hq hqn
          rcases List.mem_cons.1 hq with rfl | hq
          · exact absurd hqn hp
          · exact h3 q hq hqn

theorem bestShadowed_none (sh : GoMap Nat Ep) (hn : NodupKeys sh) (name : Nat) (h : bestShadowed sh name = none) :
    ∀ j e, get sh j = some e → e.name ≠ name := by
  intro j e hg
  have := ((best_fold name sh none).1.1 h).2 (j, e) ((get_eq_some_iff sh hn j e).1 hg)
  exact this

theorem bestShadowed_some (sh : GoMap Nat Ep) (hn : NodupKeys sh) (name b : Nat) (h : bestShadowed sh name = some b) :
    (∃ e, get sh b = some e ∧ e.name = name) ∧ ∀ j e, get sh j = some e → e.name = name → b ≤ j := by
  obtain ⟨h1, _, h3⟩ := (best_fold name sh none).2 b h
  constructor
  · rcases h1 with h1 | ⟨e, he, hne⟩
    · cases h1
    · exact ⟨e, (get_eq_some_iff sh hn b e).2 he, hne⟩
  · intro j e hg hne
    exact h3 (j, e) ((get_eq_some_iff sh hn j e).1 hg) hne
/-- The invariant behind the no-rename theorem. `l` = the live endpoints. -/
structure Good (m : Mgr) (l : GoMap Nat Ep) : Prop where
  a1 : ∀ id e, get m.active id = some e → get l id = some e
  a2 : ∀ id e, get m.shadowed id = some e → get l id = some e ∧ get m.active id = none
  a3 : ∀ id e, get l id = some e → get m.active id = some e ∨ get m.shadowed id = some e
  b1 : ∀ name id, get m.ifaceToID name = some id → ∃ e, get m.active id = some e ∧ e.name = name
  b2 : ∀ id e, get m.active id = some e → get m.ifaceToID e.name = some id
  c : ∀ id e, get m.shadowed id = some e → ∃ a, get m.ifaceToID e.name = some a ∧ a < id
  d1a : ∀ id e, get m.active id = some e → get m.chainsOf id = some e.name
  d1b : ∀ id, get m.active id = none → get m.chainsOf id = none
  d2a : ∀ name id e, get m.ifaceToID name = some id → get m.active id = some e →
    get m.chains name = some ⟨id, e.up, e.data⟩
  d2b : ∀ name, get m.ifaceToID name = none → get m.chains name = none
  d3a : ∀ name id e, get m.ifaceToID name = some id → get m.active id = some e →
    get m.routes name = if e.up then some (id, e.data) else none
  d3b : ∀ name, get m.ifaceToID name = none → get m.routes name = none
  nd : NodupKeys m.shadowed

/-- activation without an interface rename. -/
theorem activate_norename (m : Mgr) (id : Nat) (old : Option Ep) (w : Ep)
    (h : ∀ o, old = some o → o.name = w.name) :
    m.activate id old w = { m with
      chains := set m.chains w.name ⟨id, w.up, w.data⟩,
      chainsOf := set m.chainsOf id w.name,
      routes := if w.up then set m.routes w.name (id, w.data) else del m.routes w.name,
      active := set m.active id w,
      ifaceToID := set m.ifaceToID w.name id } := by
  unfold Mgr.activate
  cases old with
  | none => rfl
  | some o => simp [h o rfl]

/-- U1: update of an endpoint that holds its interface or whose interface is free. -/
theorem good_update_free (m : Mgr) (l : GoMap Nat Ep) (id : Nat) (w : Ep) (g : Good m l)
    (hnr : ∀ e, get l id = some e → e.name = w.name)
    (hfree : ∀ a, get m.ifaceToID w.name = some a → a = id) :
    Good (m.activate id (get m.active id) w) (set l id w) := by
  rw [activate_norename m id _ w (fun o ho => hnr o (g.a1 id o ho))]
  have hns : get m.shadowed id = none := by
    cases hs : get m.shadowed id with
    | none => rfl
    | some e =>
      obtain ⟨a, ha, hlt⟩ := g.c id e hs
      have := hnr e (g.a2 id e hs).1
      rw [this] at ha
      have := hfree a ha
      omega
  obtain ⟨a1, a2, a3, b1, b2, c, d1a, d1b, d2a, d2b, d3a, d3b, nd⟩ := g
  constructor
  · intro i e; simp only [get_set]; grind
  · intro i e; simp only [get_set]; grind
  · intro i e; simp only [get_set]; grind
  · intro n i; simp only [get_set]; grind
  · intro i e; simp only [get_set]; grind
  · intro i e; simp only [get_set]; grind
  · intro i e; simp only [get_set]; grind
  · intro i; simp only [get_set]; grind
  · intro n i e; simp only [get_set]; grind
  · intro n; simp only [get_set]; grind
  · intro n i e; cases hu : w.up <;> simp only [hu, get_set, get_del] <;> grind
  · intro n; cases hu : w.up <;> simp only [hu, get_set, get_del] <;> grind
  · exact nd

/-! ### Explicit forms of the composite operations -/

theorem removeActive_some (m : Mgr) (a : Nat) (ea : Ep) (h2 : get m.chainsOf a = some ea.name) :
    m.removeActiveWorkload (some ea) a = { m with
      chains := del m.chains ea.name, chainsOf := del m.chainsOf a, routes := del m.routes ea.name,
      ifaceToID := del m.ifaceToID ea.name, active := del m.active a } := by
  unfold Mgr.removeActiveWorkload Mgr.removeChainsOf
  simp [h2]

theorem removeActive_none (m : Mgr) (a : Nat) (h2 : get m.chainsOf a = none) :
    m.removeActiveWorkload none a = { m with chainsOf := del m.chainsOf a, active := del m.active a } := by
  unfold Mgr.removeActiveWorkload Mgr.removeChainsOf
  simp [h2]

theorem process_update_free (m : Mgr) (id : Nat) (w : Ep) (hfree : ∀ a, get m.ifaceToID w.name = some a → a = id) :
    m.process id (some w) = (m.activate id (get m.active id) w, none) := by
  unfold Mgr.process
  cases h : get m.ifaceToID w.name with
  | none => simp [h]
  | some a => have := hfree a h; subst this; simp [h]

theorem process_update_shadow (m : Mgr) (id : Nat) (w : Ep) (a : Nat) (h : get m.ifaceToID w.name = some a)
    (hlt : a < id) :
    m.process id (some w) = ({ m with shadowed := set m.shadowed id w }, none) := by
  unfold Mgr.process
  have hne : a ≠ id := by omega
  simp [h, hne, hlt]

theorem process_update_takeover (m : Mgr) (id : Nat) (w : Ep) (a : Nat) (ea : Ep)
    (h : get m.ifaceToID w.name = some a) (hlt : id < a) (hea : get m.active a = some ea) :
    m.process id (some w) =
      ((({ m with shadowed := set m.shadowed a ea } : Mgr).removeActiveWorkload (some ea) a).activate id
        (get m.active id) w, none) := by
  unfold Mgr.process
  have hne : a ≠ id := by omega
  have hnlt : ¬ a < id := by omega
  simp [h, hne, hnlt, hea]

/-- the tactic used for every clause: push `get` through `set`/`del`, then first-order reasoning. -/
macro "clause" : tactic => `(tactic| (intros; simp only [get_set, get_del]; grind))

/-- U2: update of an endpoint whose interface is held by a smaller id: it is (re)shadowed. -/
theorem good_update_shadow (m : Mgr) (l : GoMap Nat Ep) (id : Nat) (w : Ep) (a : Nat) (g : Good m l)
    (hnr : ∀ e, get l id = some e → e.name = w.name)
    (h : get m.ifaceToID w.name = some a) (hlt : a < id) :
    Good ({ m with shadowed := set m.shadowed id w } : Mgr) (set l id w) := by
  obtain ⟨a1, a2, a3, b1, b2, c, d1a, d1b, d2a, d2b, d3a, d3b, nd⟩ := g
  have hna : get m.active id = none := by
    cases hact : get m.active id with
    | none => rfl
    | some e =>
      have h1 := hnr e (a1 id e hact)
      have h2 := b2 id e hact
      rw [h1, h] at h2
      simp only [Option.some.injEq] at h2; omega
  constructor
  · clause
  · clause
  · clause
  · clause
  · clause
  · clause
  · clause
  · clause
  · clause
  · clause
  · clause
  · clause
  · exact nodupKeys_set _ _ _ nd

/-- U3: update of a not-yet-live endpoint whose interface is held by a LARGER id: the holder is shadowed. -/
theorem good_update_takeover (m : Mgr) (l : GoMap Nat Ep) (id : Nat) (w : Ep) (a : Nat) (ea : Ep) (g : Good m l)
    (hnr : ∀ e, get l id = some e → e.name = w.name)
    (h : get m.ifaceToID w.name = some a) (hea : get m.active a = some ea) (hlt : id < a) :
    Good ({ m with
      active := set (del m.active a) id w,
      ifaceToID := set (del m.ifaceToID w.name) w.name id,
      shadowed := set m.shadowed a ea,
      chainsOf := set (del m.chainsOf a) id w.name,
      chains := set (del m.chains w.name) w.name ⟨id, w.up, w.data⟩,
      routes := if w.up then set (del m.routes w.name) w.name (id, w.data) else del (del m.routes w.name) w.name } : Mgr)
      (set l id w) := by
  obtain ⟨a1, a2, a3, b1, b2, c, d1a, d1b, d2a, d2b, d3a, d3b, nd⟩ := g
  have hean : ea.name = w.name := by
    obtain ⟨e, he, hn⟩ := b1 _ _ h
    rw [hea] at he; cases he; exact hn
  have hl : get l id = none := by
    cases hl : get l id with
    | none => rfl
    | some e =>
      have hn := hnr e hl
      rcases a3 id e hl with h1 | h1
      · have := b2 id e h1; rw [hn, h] at this; simp only [Option.some.injEq] at this; omega
      · obtain ⟨a', ha', hlt'⟩ := c id e h1
        rw [hn, h] at ha'; simp only [Option.some.injEq] at ha'; omega
  have hna : get m.active id = none := by
    cases hact : get m.active id with
    | none => rfl
    | some e => have := a1 id e hact; rw [hl] at this; cases this
  have hns : get m.shadowed id = none := by
    cases hs : get m.shadowed id with
    | none => rfl
    | some e => have := (a2 id e hs).1; rw [hl] at this; cases this
  have hsa : get m.shadowed a = none := by
    cases hs : get m.shadowed a with
    | none => rfl
    | some e => have := (a2 a e hs).2; rw [hea] at this; cases this
  constructor
  · clause
  · clause
  · clause
  · clause
  · clause
  · clause
  · clause
  · clause
  · clause
  · clause
  · intro n i e; cases hu : w.up <;> simp only [hu, get_set, get_del] <;> grind
  · intro n; cases hu : w.up <;> simp only [hu, get_set, get_del] <;> grind
  · exact nodupKeys_set _ _ _ nd

/-- R1: removal of an endpoint that is not active (shadowed or unknown). -/
theorem good_remove_inactive (m : Mgr) (l : GoMap Nat Ep) (id : Nat) (g : Good m l)
    (hna : get m.active id = none) :
    Good ({ m with chainsOf := del m.chainsOf id, active := del m.active id, shadowed := del m.shadowed id } : Mgr)
      (del l id) := by
  obtain ⟨a1, a2, a3, b1, b2, c, d1a, d1b, d2a, d2b, d3a, d3b, nd⟩ := g
  constructor
  · clause
  · clause
  · clause
  · clause
  · clause
  · clause
  · clause
  · clause
  · clause
  · clause
  · clause
  · clause
  · exact nodupKeys_del _ _ nd

/-- R2: removal of an active endpoint nobody is waiting behind. -/
theorem good_remove_active (m : Mgr) (l : GoMap Nat Ep) (id : Nat) (e : Ep) (g : Good m l)
    (he : get m.active id = some e)
    (hnone : ∀ j ej, get (del m.shadowed id) j = some ej → ej.name ≠ e.name) :
    Good ({ m with
      chains := del m.chains e.name, chainsOf := del m.chainsOf id, routes := del m.routes e.name,
      ifaceToID := del m.ifaceToID e.name, active := del m.active id, shadowed := del m.shadowed id } : Mgr)
      (del l id) := by
  obtain ⟨a1, a2, a3, b1, b2, c, d1a, d1b, d2a, d2b, d3a, d3b, nd⟩ := g
  simp only [get_del] at hnone
  constructor
  · clause
  · clause
  · clause
  · clause
  · clause
  · clause
  · clause
  · clause
  · clause
  · clause
  · clause
  · clause
  · exact nodupKeys_del _ _ nd

/-- R3: removal of an active endpoint; the smallest endpoint waiting behind it is promoted. -/
theorem good_remove_promote (m : Mgr) (l : GoMap Nat Ep) (id : Nat) (e : Ep) (b : Nat) (eb : Ep) (g : Good m l)
    (he : get m.active id = some e)
    (hb : get (del m.shadowed id) b = some eb) (hbn : eb.name = e.name)
    (hmin : ∀ j ej, get (del m.shadowed id) j = some ej → ej.name = e.name → b ≤ j) :
    Good ({ m with
      chains := set (del m.chains e.name) e.name ⟨b, eb.up, eb.data⟩,
      chainsOf := set (del m.chainsOf id) b e.name,
      routes := if eb.up then set (del m.routes e.name) e.name (b, eb.data) else del (del m.routes e.name) e.name,
      ifaceToID := set (del m.ifaceToID e.name) e.name b,
      active := set (del m.active id) b eb,
      shadowed := del (del m.shadowed id) b } : Mgr)
      (del l id) := by
  obtain ⟨a1, a2, a3, b1, b2, c, d1a, d1b, d2a, d2b, d3a, d3b, nd⟩ := g
  simp only [get_del] at hmin hb
  have hbid : b ≠ id := by intro h; subst h; simp at hb
  have hb' : get m.shadowed b = some eb := by simpa [Ne.symm hbid] using hb
  constructor
  · clause
  · clause
  · clause
  · clause
  · clause
  · intro i ei; simp only [get_set, get_del]
    intro hs
    have hi1 : id ≠ i := by intro h; subst h; simp at hs
    have hi2 : b ≠ i := by intro h; subst h; simp at hs
    simp only [hi1, hi2, if_false] at hs
    obtain ⟨a, ha, hlt⟩ := c i ei hs
    by_cases hn : e.name = ei.name
    · refine ⟨b, by simp [hn], ?_⟩
      have := hmin i ei (by simp [hi1, hs]) hn.symm
      omega
    · exact ⟨a, by simp [hn, ha], hlt⟩
  · clause
  · clause
  · clause
  · clause
  · intro n i ei; cases hu : eb.up <;> simp only [hu, get_set, get_del] <;> grind
  · intro n; cases hu : eb.up <;> simp only [hu, get_set, get_del] <;> grind
  · exact nodupKeys_del _ _ (nodupKeys_del _ _ nd)

theorem good_update (m : Mgr) (l : GoMap Nat Ep) (id : Nat) (w : Ep) (g : Good m l)
    (hnr : ∀ e, get l id = some e → e.name = w.name) :
    Good (m.resolve id (some w)) (set l id w) := by
  have hold : ∀ o, get m.active id = some o → o.name = w.name := fun o ho => hnr o (g.a1 id o ho)
  unfold Mgr.resolve
  cases h : get m.ifaceToID w.name with
  | none =>
    rw [process_update_free m id w (by intro a ha; rw [h] at ha; cases ha)]
    exact good_update_free m l id w g hnr (by intro a ha; rw [h] at ha; cases ha)
  | some a =>
    by_cases hai : a = id
    · have hf : ∀ a', get m.ifaceToID w.name = some a' → a' = id := by
        intro a' ha'; rw [h] at ha'; cases ha'; exact hai
      rw [process_update_free m id w hf]
      exact good_update_free m l id w g hnr hf
    · by_cases hlt : a < id
      · rw [process_update_shadow m id w a h hlt]
        exact good_update_shadow m l id w a g hnr h hlt
      · have hlt' : id < a := by omega
        obtain ⟨ea, hea, hean⟩ := g.b1 _ _ h
        rw [process_update_takeover m id w a ea h hlt' hea]
        have hc : get ({ m with shadowed := set m.shadowed a ea } : Mgr).chainsOf a = some ea.name := g.d1a a ea hea
        rw [removeActive_some _ a ea hc, activate_norename _ id _ w hold]
        have := good_update_takeover m l id w a ea g hnr h hea hlt'
        simp only [hean] at this ⊢
        exact this

theorem process_remove_inactive (m : Mgr) (id : Nat) (he : get m.active id = none) (hc : get m.chainsOf id = none) :
    m.process id none =
      ({ m with chainsOf := del m.chainsOf id, active := del m.active id, shadowed := del m.shadowed id }, none) := by
  unfold Mgr.process
  simp [he, removeActive_none m id hc]

theorem process_remove_active_none (m : Mgr) (id : Nat) (e : Ep) (he : get m.active id = some e)
    (hc : get m.chainsOf id = some e.name) (hb : bestShadowed (del m.shadowed id) e.name = none) :
    m.process id none = ({ m with
      chains := del m.chains e.name, chainsOf := del m.chainsOf id, routes := del m.routes e.name,
      ifaceToID := del m.ifaceToID e.name, active := del m.active id, shadowed := del m.shadowed id }, none) := by
  unfold Mgr.process
  simp [he, removeActive_some m id e hc, hb]

theorem process_remove_active_some (m : Mgr) (id : Nat) (e : Ep) (b : Nat) (eb : Ep) (he : get m.active id = some e)
    (hc : get m.chainsOf id = some e.name) (hb : bestShadowed (del m.shadowed id) e.name = some b)
    (hgb : get (del m.shadowed id) b = some eb) :
    m.process id none = ({ m with
      chains := del m.chains e.name, chainsOf := del m.chainsOf id, routes := del m.routes e.name,
      ifaceToID := del m.ifaceToID e.name, active := del m.active id, shadowed := del (del m.shadowed id) b },
      some (b, eb)) := by
  unfold Mgr.process
  simp [he, removeActive_some m id e hc, hb, hgb]

theorem good_remove (m : Mgr) (l : GoMap Nat Ep) (id : Nat) (g : Good m l) :
    Good (m.resolve id none) (del l id) := by
  unfold Mgr.resolve
  cases he : get m.active id with
  | none =>
    rw [process_remove_inactive m id he (g.d1b id he)]
    exact good_remove_inactive m l id g he
  | some e =>
    have hc : get m.chainsOf id = some e.name := g.d1a id e he
    have hnd : NodupKeys (del m.shadowed id) := nodupKeys_del _ _ g.nd
    cases hb : bestShadowed (del m.shadowed id) e.name with
    | none =>
      rw [process_remove_active_none m id e he hc hb]
      exact good_remove_active m l id e g he (bestShadowed_none _ hnd _ hb)
    | some b =>
      obtain ⟨⟨eb, hgb, hbn⟩, hmin⟩ := bestShadowed_some _ hnd _ b hb
      rw [process_remove_active_some m id e b eb he hc hb hgb]
      simp only
      have hfree : ∀ a, get (del m.ifaceToID e.name) eb.name = some a → a = b := by
        intro a ha; rw [hbn, get_del] at ha; simp at ha
      rw [process_update_free _ b eb hfree]
      have hab : get (del m.active id) b = none := by
        rw [get_del]; split
        · rfl
        · have hb' : get m.shadowed b = some eb := by
            rw [get_del] at hgb; split at hgb
            · cases hgb
            · exact hgb
          exact (g.a2 b eb hb').2
      simp only [hab]
      rw [activate_norename _ b none eb (by intro o ho; cases ho)]
      have := good_remove_promote m l id e b eb g he hgb hbn hmin
      simp only [hbn] at this ⊢
      exact this

theorem good_new : Good Mgr.new [] := by
  constructor <;> intros <;> simp_all [Mgr.new, C18.get, NodupKeys, C18.keys]

theorem good_run (ops : List Op) (m : Mgr) (l : GoMap Nat Ep) (g : Good m l) (hl : NodupKeys l)
    (hnr : NoRenameFrom l ops) :
    Good (ops.foldl Mgr.step m) (ops.foldl liveStep l) ∧ NodupKeys (ops.foldl liveStep l) := by
  induction ops generalizing m l with
  | nil => exact ⟨g, hl⟩
  | cons op r ih =>
    simp only [List.foldl_cons]
    cases op with
    | update id w =>
      exact ih _ _ (good_update m l id w g hnr.1) (nodupKeys_set _ _ _ hl) hnr.2
    | remove id =>
      exact ih _ _ (good_remove m l id g) (nodupKeys_del _ _ hl) hnr

/-- In a `Good` state the holder of an interface is the minimum live claimant. -/
theorem best_of_good (m : Mgr) (l : GoMap Nat Ep) (g : Good m l) (hl : NodupKeys l) (name : Nat) :
    bestShadowed l name = get m.ifaceToID name := by
  cases hi : get m.ifaceToID name with
  | none =>
    cases hb : bestShadowed l name with
    | none => rfl
    | some b =>
      exfalso
      obtain ⟨⟨e, he, hn⟩, _⟩ := bestShadowed_some l hl name b hb
      rcases g.a3 b e he with h1 | h1
      · have := g.b2 b e h1; rw [hn, hi] at this; cases this
      · obtain ⟨a, ha, _⟩ := g.c b e h1; rw [hn, hi] at ha; cases ha
  | some h =>
    obtain ⟨e, hact, hen⟩ := g.b1 name h hi
    have hlh := g.a1 h e hact
    cases hb : bestShadowed l name with
    | none => exact absurd hen (bestShadowed_none l hl name hb h e hlh)
    | some b =>
      obtain ⟨⟨eb, heb, hn⟩, hmin⟩ := bestShadowed_some l hl name b hb
      have hle := hmin h e hlh hen
      rcases g.a3 b eb heb with h1 | h1
      · have := g.b2 b eb h1; rw [hn, hi] at this; cases this; rfl
      · obtain ⟨a, ha, hlt⟩ := g.c b eb h1; rw [hn, hi] at ha; cases ha; omega

theorem chains_of_good (m : Mgr) (l : GoMap Nat Ep) (g : Good m l) (hl : NodupKeys l) (name : Nat) :
    get m.chains name = specChains l name ∧ get m.routes name = specRoutes l name := by
  unfold specChains specRoutes preferred
  rw [best_of_good m l g hl name]
  cases hi : get m.ifaceToID name with
  | none => exact ⟨g.d2b name hi, g.d3b name hi⟩
  | some h =>
    obtain ⟨e, hact, hen⟩ := g.b1 name h hi
    have hlh := g.a1 h e hact
    simp only [Option.bind_some, hlh, Option.map_some]
    refine ⟨g.d2a name h e hi hact, ?_⟩
    rw [g.d3a name h e hi hact]

/-- The minimum scan only depends on the map as a function. -/
theorem bestShadowed_congr (l1 l2 : GoMap Nat Ep) (h1 : NodupKeys l1) (h2 : NodupKeys l2)
    (h : ∀ id, get l1 id = get l2 id) (name : Nat) : bestShadowed l1 name = bestShadowed l2 name := by
  cases hb1 : bestShadowed l1 name with
  | none =>
    cases hb2 : bestShadowed l2 name with
    | none => rfl
    | some b =>
      obtain ⟨⟨e, he, hn⟩, _⟩ := bestShadowed_some l2 h2 name b hb2
      exact absurd hn (bestShadowed_none l1 h1 name hb1 b e (by rw [h]; exact he))
  | some a =>
    obtain ⟨⟨ea, hea, hna⟩, hmina⟩ := bestShadowed_some l1 h1 name a hb1
    cases hb2 : bestShadowed l2 name with
    | none => exact absurd hna (bestShadowed_none l2 h2 name hb2 a ea (by rw [← h]; exact hea))
    | some b =>
      obtain ⟨⟨eb, heb, hnb⟩, hminb⟩ := bestShadowed_some l2 h2 name b hb2
      have := hmina b eb (by rw [h]; exact heb) hnb
      have := hminb a ea (by rw [← h]; exact hea) hna
      congr 1; omega

end CalicoVerif.C44
