import CalicoVerif.Proofs.C15k
set_option linter.unusedSimpArgs false
namespace CalicoVerif.C15

def toFR (c : String) (r : KRule) : FR := if r.isForeign then FR.dash else FR.a c r

/-- Kernel rules carrying Felix's hash comment have a non-empty hash (the hash regexp needs one character). -/
def HashNonEmpty (rs : List KRule) : Prop := ∀ r ∈ rs, (r.hash = "" ↔ r.isForeign = true)

theorem delLines_aligned (c : String) : ∀ (rs : List KRule), HashNonEmpty rs →
    delLines c (rs.map KRule.hash) (rs.map (toFR c)) = some ((rs.filter (fun r => !r.isForeign)).map (RLine.delVal c)) := by
  intro rs
  induction rs with
  | nil => intro _; rfl
  | cons r rs ih =>
    intro hne
    have hr := hne r List.mem_cons_self
    have ih' := ih (fun x hx => hne x (List.mem_cons_of_mem _ hx))
    simp only [List.map_cons, delLines]
    by_cases hf : r.isForeign = true
    · have hh : r.hash = "" := hr.2 hf
      simp only [hh, beq_self_eq_true, if_true, List.tail_cons, List.filter_cons, hf, Bool.not_true,
        Bool.false_eq_true, if_false]
      exact ih'
    · have hh : (r.hash == "") = false := by
        simp only [beq_eq_false_iff_ne, ne_eq]; exact fun e => hf (hr.1 e)
      have hf' : r.isForeign = false := by simpa using hf
      simp only [hh, Bool.false_eq_true, if_false, ih', Option.map_some, List.filter_cons, hf', Bool.not_false,
        if_true, List.map_cons, toFR]

theorem delLines_allEmpty (c : String) : ∀ (hs : List String), (∀ h ∈ hs, h = "") → delLines c hs [] = some [] := by
  intro hs
  induction hs with
  | nil => intro _; rfl
  | cons h hs ih =>
    intro he
    simp only [delLines, he h List.mem_cons_self, beq_self_eq_true, if_true, List.tail_nil]
    exact ih (fun x hx => he x (List.mem_cons_of_mem _ hx))

theorem readFull_get (t : T) (K : Kernel) (hk : K.keys.Nodup) (c : String) :
    (readFull t K).get c =
      match K.get c with
      | some rs => if (!t.ours c && rs.any (fun r => !r.isForeign)) = true then some (rs.map (toFR c)) else none
      | none => none := by
  unfold readFull Map.get
  induction K with
  | nil => rfl
  | cons p K ih =>
    obtain ⟨a, rs⟩ := p
    simp only [Map.keys, List.map_cons, List.nodup_cons] at hk
    have ih' := ih hk.2
    by_cases hac : c = a
    · subst hac
      simp only [List.lookup, beq_self_eq_true, List.filter_cons]
      split
      · simp [List.lookup, toFR]
      · rename_i hcond
        -- no later entry has key c
        have : ∀ (L : List (String × List KRule)), c ∉ L.map (·.1) →
            List.lookup c ((L.filter (fun p => !t.ours p.1 && p.2.any (fun r => !r.isForeign))).map
              (fun p => (p.1, p.2.map (fun r => if r.isForeign then FR.dash else FR.a p.1 r)))) = none := by
          intro L
          induction L with
          | nil => intro _; rfl
          | cons q L ihL =>
            intro hq
            simp only [List.map_cons, List.mem_cons, not_or] at hq
            simp only [List.filter_cons]
            split
            · simp only [List.map_cons, List.lookup]
              have : (c == q.1) = false := by simp [hq.1]
              simp only [this]; exact ihL hq.2
            · exact ihL hq.2
        exact this K hk.1
    · have hca : (c == a) = false := by simp [hac]
      simp only [List.lookup, hca, List.filter_cons]
      split
      · simp only [List.map_cons, List.lookup, hca]; exact ih'
      · exact ih'

end CalicoVerif.C15
