import CalicoVerif.Proofs.C04Sets
/-! C04: map-iteration-order permutations, and the invariant over whole histories. -/
namespace CalicoVerif.C04

set_option linter.unusedSectionVars false
set_option linter.unusedVariables false

theorem alGet_perm {κ β : Type} [DecidableEq κ] {l l' : List (κ × β)} (nd : (l.map (·.1)).Nodup)
    (hp : l'.Perm l) (k : κ) : alGet k l' = alGet k l := by
  have nd' : (l'.map (·.1)).Nodup := (hp.map (fun (q : κ × β) => q.1)).nodup_iff.2 nd
  cases h : alGet k l with
  | none =>
    cases h' : alGet k l' with
    | none => rfl
    | some v =>
      have : (alGet k l).isSome = true := by
        apply alGet_isSome_iff.2
        exact List.mem_map.2 ⟨(k, v), hp.mem_iff.1 (alGet_some_mem h'), rfl⟩
      rw [h] at this; cases this
  | some v => exact alGet_of_mem nd' (hp.mem_iff.2 (alGet_some_mem h))

theorem sumBy_alMod_congr {β : Type} (f : String × β → Nat) (k : String) (g : β → β) (l : List (String × β))
    (h : ∀ p ∈ l, f (p.1, g p.2) = f p) : sumBy f (alMod k g l) = sumBy f l := by
  unfold alMod
  rw [sumBy_map]
  apply sumBy_congr
  intro p hp
  by_cases hk : p.1 = k
  · simp only [hk, if_true]; rw [← hk]; exact h p hp
  · simp only [hk, if_false]

section Main
variable {Sel : Type} [DecidableEq Sel] (matchSel : Sel → Labels → Bool)

theorem permEps_inv {st : Idx Sel} (l : List (String × EpData)) (hp : l.Perm st.eps) (h : Inv matchSel st) :
    Inv matchSel ({ st with eps := l } : Idx Sel) := by
  have hc := h.core
  have hm : ∀ p, p ∈ l ↔ p ∈ st.eps := fun p => hp.mem_iff
  refine ⟨⟨wf_of_sameButEps hc.wf ⟨rfl, rfl, rfl, rfl, rfl, rfl, rfl⟩ (fun p hp' => hc.wf.nets p ((hm p).1 hp')),
    hc.nb, (hp.map (fun (q : String × EpData) => q.1)).nodup_iff.2 hc.epsNodup,
    fun p hp' => hc.cachedNodup p ((hm p).1 hp'), fun p hp' => hc.cachedPresent p ((hm p).1 hp'),
    fun p hp' => hc.parentsNodup p ((hm p).1 hp'), ?_⟩, fun p hp' s => h.lab p ((hm p).1 hp') s⟩
  intro s m
  show refCount st s m = sumBy (term st s m) l
  rw [sumBy_perm _ hp]; exact hc.refc s m

theorem permIPSets_inv {st : Idx Sel} (l : List (String × IpSetData Sel)) (hp : l.Perm st.ipsets)
    (h : Inv matchSel st) : Inv matchSel ({ st with ipsets := l } : Idx Sel) := by
  have hc := h.core
  have hget : ∀ k, alGet k l = alGet k st.ipsets := alGet_perm hc.wf.sets hp
  have hrc : ∀ s m, refCount ({ st with ipsets := l } : Idx Sel) s m = refCount st s m := by
    intro s m; unfold refCount; simp only [hget]
  have hcfg : ∀ s, cfgAt ({ st with ipsets := l } : Idx Sel) s = cfgAt st s := by
    intro s; unfold cfgAt; simp only [hget]
  refine ⟨⟨⟨einv_congr hc.wf.e rfl rfl (fun _ => rfl) (fun s m => by rw [hrc]), hc.wf.nets,
      (hp.map (fun (q : String × IpSetData Sel) => q.1)).nodup_iff.2 hc.wf.sets,
      fun p hp' => hc.wf.refwf p (hp.mem_iff.1 hp')⟩,
    hc.nb, hc.epsNodup, hc.cachedNodup, ?_, hc.parentsNodup, ?_⟩, ?_⟩
  · intro p hp' x hx
    show (alGet x l).isSome = true
    rw [hget]; exact hc.cachedPresent p hp' x hx
  · intro s m
    rw [hrc, sumBy_congr (fun p _ => term_congr (hcfg s) m p)]; exact hc.refc s m
  · exact lab_transfer matchSel h.lab (fun p hp' => hp') hcfg rfl

/-- the function `permCached` applies to the endpoint's data -/
def permCachedFn (l : List String) (e : EpData) : EpData :=
  if l.Perm e.cached then { e with cached := l } else e

theorem permCachedFn_spec (l : List String) (e : EpData) :
    (permCachedFn l e).labels = e.labels ∧ (permCachedFn l e).nets = e.nets ∧
    (permCachedFn l e).ports = e.ports ∧ (permCachedFn l e).parents = e.parents ∧
    (∀ x, x ∈ (permCachedFn l e).cached ↔ x ∈ e.cached) ∧
    (e.cached.Nodup → (permCachedFn l e).cached.Nodup) := by
  unfold permCachedFn
  by_cases hp : l.Perm e.cached
  · rw [if_pos hp]
    exact ⟨rfl, rfl, rfl, rfl, fun x => hp.mem_iff, fun nd => hp.nodup_iff.2 nd⟩
  · rw [if_neg hp]
    exact ⟨rfl, rfl, rfl, rfl, fun _ => Iff.rfl, id⟩

theorem permCached_inv {st : Idx Sel} (id : String) (l : List String) (h : Inv matchSel st) :
    Inv matchSel ({ st with eps := alMod id (permCachedFn l) st.eps } : Idx Sel) := by
  have hc := h.core
  have hg := permCachedFn_spec l
  have hm : ∀ p' ∈ alMod id (permCachedFn l) st.eps,
      ∃ p ∈ st.eps, p'.1 = p.1 ∧ (p' = p ∨ p'.2 = permCachedFn l p.2) := by
    intro p' hp'
    rcases mem_alMod' hp' with ⟨h1, _⟩ | ⟨v, hv, rfl⟩
    · exact ⟨p', h1, rfl, Or.inl rfl⟩
    · exact ⟨(id, v), hv, rfl, Or.inr rfl⟩
  refine ⟨⟨wf_of_sameButEps hc.wf ⟨rfl, rfl, rfl, rfl, rfl, rfl, rfl⟩ ?_, hc.nb, ?_, ?_, ?_, ?_, ?_⟩, ?_⟩
  · intro p' hp' c hcn
    obtain ⟨p, hp, _, rfl | h2⟩ := hm p' hp'
    · exact hc.wf.nets _ hp c hcn
    · rw [h2, (hg p.2).2.1] at hcn; exact hc.wf.nets p hp c hcn
  · show ((alMod id (permCachedFn l) st.eps).map (·.1)).Nodup
    rw [alMod_keys]; exact hc.epsNodup
  · intro p' hp'
    obtain ⟨p, hp, _, rfl | h2⟩ := hm p' hp'
    · exact hc.cachedNodup _ hp
    · rw [h2]; exact (hg p.2).2.2.2.2.2 (hc.cachedNodup p hp)
  · intro p' hp' x hx
    obtain ⟨p, hp, _, rfl | h2⟩ := hm p' hp'
    · exact hc.cachedPresent _ hp x hx
    · rw [h2, (hg p.2).2.2.2.2.1] at hx; exact hc.cachedPresent p hp x hx
  · intro p' hp'
    obtain ⟨p, hp, _, rfl | h2⟩ := hm p' hp'
    · exact hc.parentsNodup _ hp
    · rw [h2, (hg p.2).2.2.2.1]; exact hc.parentsNodup p hp
  · intro s m
    show refCount st s m = sumBy (term st s m) (alMod id (permCachedFn l) st.eps)
    rw [sumBy_alMod_congr, hc.refc]
    intro p _
    unfold term
    simp only [(hg p.2).2.2.2.2.1]
    rw [contribAt_congr rfl (hg p.2).2.1 (hg p.2).2.2.1]
  · intro p' hp' s
    obtain ⟨p, hp, _, rfl | h2⟩ := hm p' hp'
    · exact h.lab _ hp s
    · rw [h2]
      exact (OK_congr matchSel rfl rfl (hg p.2).1 (hg p.2).2.2.2.1 (hg p.2).2.1 (hg p.2).2.2.1
        (hg p.2).2.2.2.2.1).2 (h.lab p hp s)

theorem permRefc_inv {st : Idx Sel} (s : String) (l : List (Member × Nat)) (h : Inv matchSel st) :
    Inv matchSel ({ st with ipsets := alMod s (fun d => if l.Perm d.refc then { d with refc := l } else d) st.ipsets } : Idx Sel) := by
  have hc := h.core
  have hips : ({ st with ipsets := alMod s (fun d => if l.Perm d.refc then { d with refc := l } else d) st.ipsets } : Idx Sel).ipsets
      = alMod s (fun d => if l.Perm d.refc then { d with refc := l } else d) st.ipsets := rfl
  have hcfgf : ∀ d : IpSetData Sel, cfgOf (if l.Perm d.refc then { d with refc := l } else d) = cfgOf d := by
    intro d; by_cases hp : l.Perm d.refc <;> simp [hp, cfgOf]
  have hcfg := cfgAt_alMod hips hcfgf
  have hrc : ∀ s' m, refCount ({ st with ipsets := alMod s (fun d => if l.Perm d.refc then { d with refc := l } else d) st.ipsets } : Idx Sel) s' m
      = refCount st s' m := by
    intro s' m
    unfold refCount
    simp only [alGet_alMod]
    by_cases hs : s' = s
    · subst hs
      cases hg : alGet s' st.ipsets with
      | none => simp
      | some d =>
        simp only [if_true, Option.map_some]
        by_cases hp : l.Perm d.refc
        · simp only [hp, if_true]
          unfold refOf
          simp only
          rw [alGet_perm (hc.wf.refwf _ (alGet_some_mem hg)).1 hp]
        · simp only [hp, if_false]
    · simp [hs]
  refine ⟨⟨⟨einv_congr hc.wf.e rfl rfl (fun _ => rfl) (fun s' m => by rw [hrc]), hc.wf.nets, ?_, ?_⟩,
    hc.nb, hc.epsNodup, hc.cachedNodup, ?_, hc.parentsNodup, ?_⟩, ?_⟩
  · unfold SetsNodup; rw [hips, alMod_keys]; exact hc.wf.sets
  · apply refwf_alMod hc.wf.refwf hips
    rintro d ⟨h1, h2⟩
    by_cases hp : l.Perm d.refc
    · simp only [hp, if_true]
      exact ⟨(hp.map (fun (q : Member × Nat) => q.1)).nodup_iff.2 h1, fun q hq => h2 q (hp.mem_iff.1 hq)⟩
    · simp only [hp, if_false]; exact ⟨h1, h2⟩
  · intro p hp x hx
    rw [present_iff_cfg, hcfg, ← present_iff_cfg]; exact hc.cachedPresent p hp x hx
  · intro s' m
    rw [hrc, sumBy_congr (fun p _ => term_congr (hcfg s') m p)]; exact hc.refc s' m
  · exact lab_transfer matchSel h.lab (fun p hp' => hp') hcfg rfl

/-- what an operation must satisfy: CIDRs are canonical (every `ip.CIDRFrom…` constructor masks).
(Until /repo c40ff03 a duplicate-free profile-id list was required as well.) -/
def Op.ok : Op Sel → Prop
  | .updateEndpoint _ _ nets _ _ => ∀ c ∈ nets, c.canon
  | _ => True

theorem step_inv {st : Idx Sel} (op : Op Sel) (hop : op.ok) (h : Inv matchSel st) :
    Inv matchSel (step matchSel st op) := by
  cases op with
  | updateIPSet s sel proto port => exact updateIPSet_inv matchSel s sel proto port h
  | deleteIPSet s => exact deleteIPSet_inv matchSel s h
  | updateEndpoint id labels nets ports parents =>
    exact updateEndpoint_inv matchSel id labels nets ports parents h hop
  | deleteEndpoint id => exact deleteEndpoint_inv matchSel id h
  | updateParentLabels pid labels => exact updateParentLabels_inv matchSel pid labels h
  | deleteParentLabels pid => exact deleteParentLabels_inv matchSel pid h
  | permEps l =>
    simp only [step]
    split
    · rename_i hp; exact permEps_inv matchSel l hp h
    · exact h
  | permIPSets l =>
    simp only [step]
    split
    · rename_i hp; exact permIPSets_inv matchSel l hp h
    · exact h
  | permCached id l => exact permCached_inv matchSel id l h
  | permRefc s l => exact permRefc_inv matchSel s l h

theorem run_inv {st : Idx Sel} (ops : List (Op Sel)) (hops : ∀ op ∈ ops, op.ok) (h : Inv matchSel st) :
    Inv matchSel (run matchSel st ops) := by
  unfold run
  induction ops generalizing st with
  | nil => exact h
  | cons op ops ih =>
    rw [List.foldl_cons]
    exact ih (fun o ho => hops o (List.mem_cons_of_mem _ ho)) (step_inv matchSel op (hops op (List.mem_cons_self ..)) h)

/-! ### the suppressor mode never changes -/

theorem ite_suppress {c : Prop} [Decidable c] (a b st : Idx Sel) (ha : a.suppress = st.suppress)
    (hb : b.suppress = st.suppress) : (if c then a else b).suppress = st.suppress := by
  split <;> assumption

theorem foldl_suppress {α : Type} (f : Idx Sel → α → Idx Sel) (hf : ∀ st a, (f st a).suppress = st.suppress)
    (l : List α) (st : Idx Sel) : (l.foldl f st).suppress = st.suppress := by
  induction l generalizing st with
  | nil => rfl
  | cons a l ih => rw [List.foldl_cons, ih, hf]

theorem updateEndpoint_suppress (id : String) (labels : Labels) (nets : List Cidr) (ports : List Port)
    (parents : List String) (st : Idx Sel) :
    (updateEndpoint matchSel id labels nets ports parents st).suppress = st.suppress := by
  unfold updateEndpoint updateEndpointCore
  cases alGet id st.eps with
  | none => exact (scanEp_frame matchSel _ _ st).suppress
  | some old =>
    simp only
    split
    · rfl
    · apply ite_suppress
      · show (scanEp matchSel _ _ _).1.suppress = st.suppress
        rw [(scanEp_frame matchSel _ _ _).suppress]
        show (if recalcPanics old st = true then ({ st with panicked := true } : Idx Sel) else st).suppress = _
        exact ite_suppress _ _ st rfl rfl
      · show (scanEp matchSel _ _ _).1.suppress = st.suppress
        rw [(scanEp_frame matchSel _ _ _).suppress]
        show (if recalcPanics old st = true then ({ st with panicked := true } : Idx Sel) else st).suppress = _
        exact ite_suppress _ _ st rfl rfl

theorem deleteEndpoint_suppress (id : String) (st : Idx Sel) : (deleteEndpoint id st).suppress = st.suppress := by
  unfold deleteEndpoint
  cases alGet id st.eps with
  | none => rfl
  | some old =>
    simp only
    have : (decrefOld (recalc old (if recalcPanics old st = true then ({ st with panicked := true } : Idx Sel) else st))
        (if recalcPanics old st = true then ({ st with panicked := true } : Idx Sel) else st)).suppress = st.suppress := by
      rw [(decrefOld_frame _ _).suppress]; exact ite_suppress _ _ st rfl rfl
    apply ite_suppress
    · exact this
    · exact this

theorem rescanEp_suppress (id : String) (st : Idx Sel) : (rescanEp matchSel id st).suppress = st.suppress := by
  unfold rescanEp
  cases alGet id st.eps with
  | none => rfl
  | some e =>
    simp only
    show (scanEp matchSel _ _ _).1.suppress = st.suppress
    rw [(scanEp_frame matchSel _ _ _).suppress]
    exact ite_suppress _ _ st rfl rfl

theorem updateParentLabels_suppress (pid : String) (labels : Labels) (st : Idx Sel) :
    (updateParentLabels matchSel pid labels st).suppress = st.suppress := by
  unfold updateParentLabels
  split
  · rfl
  · simp only
    rw [foldl_suppress _ (fun st id => rescanEp_suppress matchSel id st)]

theorem deleteIPSetCore_suppress (s : String) (st : Idx Sel) : (deleteIPSetCore s st).suppress = st.suppress := by
  unfold deleteIPSetCore
  cases alGet s st.ipsets <;> rfl

theorem addIPSetScanOne_suppress (s : String) (sel : Sel) (id : String) (st : Idx Sel) :
    (addIPSetScanOne matchSel s sel id st).suppress = st.suppress := by
  unfold addIPSetScanOne
  cases alGet id st.eps with
  | none => rfl
  | some e =>
    cases alGet s st.ipsets with
    | none => rfl
    | some d =>
      simp only
      split
      · split
        · rfl
        · exact (increfAll_frame _ _ _).suppress
      · rfl

theorem addIPSet_suppress (s : String) (sel : Sel) (proto : Nat) (port : String) (st : Idx Sel) :
    (addIPSet matchSel s sel proto port st).suppress = st.suppress := by
  unfold addIPSet
  simp only
  rw [foldl_suppress _ (fun st id => addIPSetScanOne_suppress matchSel s sel id st)]

theorem forceRemove_suppress (s : String) (m : Member) (st : Idx Sel) : (forceRemove s m st).suppress = st.suppress := by
  unfold forceRemove
  exact (onMemberRemoved_frame s m st).2.2.2.1

theorem updateIPSet_suppress (s : String) (sel : Sel) (proto : Nat) (port : String) (st : Idx Sel) :
    (updateIPSet matchSel s sel proto port st).suppress = st.suppress := by
  unfold updateIPSet
  cases alGet s st.ipsets with
  | none => exact addIPSet_suppress matchSel s sel proto port st
  | some d =>
    simp only
    split
    · rfl
    · rw [addIPSet_suppress, deleteIPSetCore_suppress, foldl_suppress _ (fun st m => forceRemove_suppress s m st)]

/-- the suppressor mode chosen at construction never changes -/
theorem step_suppress (st : Idx Sel) (op : Op Sel) : (step matchSel st op).suppress = st.suppress := by
  cases op with
  | updateIPSet s sel proto port => exact updateIPSet_suppress matchSel s sel proto port st
  | deleteIPSet s => exact deleteIPSetCore_suppress s st
  | updateEndpoint id labels nets ports parents => exact updateEndpoint_suppress matchSel id labels nets ports parents st
  | deleteEndpoint id => exact deleteEndpoint_suppress id st
  | updateParentLabels pid labels => exact updateParentLabels_suppress matchSel pid labels st
  | deleteParentLabels pid => exact updateParentLabels_suppress matchSel pid [] st
  | permEps l => simp only [step]; split <;> rfl
  | permIPSets l => simp only [step]; split <;> rfl
  | permCached id l => rfl
  | permRefc s l => rfl

theorem run_suppress (st : Idx Sel) (ops : List (Op Sel)) : (run matchSel st ops).suppress = st.suppress := by
  unfold run
  exact foldl_suppress _ (step_suppress matchSel) ops st

end Main
end CalicoVerif.C04
